import NfcVerif.Model.Retry
/-!
# C16 - proofs about the retry primitives and the command programs
-/
namespace NfcVerif.Retry

/-! ## log bookkeeping -/

@[simp] theorem nextAtt_log (w : World) : (nextAtt w).2.log = w.log := by
  unfold nextAtt; split <;> rfl
@[simp] theorem exec_log (w : World) (c : Cmd) (a : Ans) : (w.exec c a).log = w.log := by
  unfold World.exec World.apply; split <;> rfl
@[simp] theorem push_log (w : World) (c : Cmd) (l) : (w.push c l).log = w.log ++ [⟨c, l⟩] := rfl
@[simp] theorem ite_exec_log (b : Bool) (w : World) (c : Cmd) (a : Ans) :
    (if b = true then w.exec c a else w).log = w.log := by split <;> simp

/-- the attempt was answered by the tag (a cut answer is an answer) -/
def isAnswered : Att × Bool → Bool
  | (.ans, mute) => !mute
  | (.short _, mute) => !mute
  | (.flt _ _, _) => false

/-- attempts of one primitive call: failures, then at most one further attempt -/
def InvOK (bound : Nat) (atts : List (Att × Bool)) : Prop :=
  ∃ fails tail, atts = fails ++ tail ∧ (∀ x ∈ fails, isAnswered x = false) ∧ tail.length ≤ 1
    ∧ fails.length + tail.length ≤ bound

/-- **the retry loop**: it appends exactly one invocation to the log, whose attempts are
the earlier ones (`acc`), then unanswered attempts, then at most one more; no more than `n`
new exchanges. -/
theorem loop_log (cfg : Cfg) (k : PrimKind) (idm : Bool) (c : Cmd) (a : Ans) :
    ∀ (n : Nat) (last : Option Fault) (acc : List (Att × Bool)) (w : World),
    ∃ fails tail, (loop cfg k idm c a n last acc w).2.log = w.log ++ [⟨c, acc ++ fails ++ tail⟩]
      ∧ (∀ x ∈ fails, isAnswered x = false) ∧ tail.length ≤ 1 ∧ fails.length + tail.length ≤ n := by
  intro n
  induction n with
  | zero => intro last acc w; exact ⟨[], [], by simp [loop], by simp, by simp, by simp⟩
  | succ n ih =>
    intro last acc w
    unfold loop
    generalize hp : nextAtt w = p
    obtain ⟨att, w1⟩ := p
    have hl : w1.log = w.log := by have := nextAtt_log w; rw [hp] at this; exact this
    cases att with
    | ans =>
      cases a with
      | ok => exact ⟨[], [(.ans, false)], by simp [hl], by simp, by simp, by simp⟩
      | refuse e => exact ⟨[], [(.ans, false)], by simp [hl], by simp, by simp, by simp⟩
      | mute =>
        obtain ⟨f, t, h1, h2, h3, h4⟩ := ih (some .timeout) (acc ++ [(.ans, true)]) (w1.exec c .mute)
        refine ⟨(.ans, true) :: f, t, ?_, ?_, h3, by simp; omega⟩
        · simp only [h1]; simp [hl]
        · intro x hx; cases hx with
          | head => rfl
          | tail _ h => exact h2 x h
    | flt f r =>
      obtain ⟨fl, t, h1, h2, h3, h4⟩ := ih (some f) (acc ++ [(.flt f r, false)]) (if r then w1.exec c a else w1)
      refine ⟨(.flt f r, false) :: fl, t, ?_, ?_, h3, by simp; omega⟩
      · simp only [h1]; simp [hl]
      · intro x hx; cases hx with
        | head => rfl
        | tail _ h => exact h2 x h
    | short s =>
      cases a with
      | mute =>
        obtain ⟨f, t, h1, h2, h3, h4⟩ := ih (some .timeout) (acc ++ [(.short s, true)]) (w1.exec c .mute)
        refine ⟨(.short s, true) :: f, t, ?_, ?_, h3, by simp; omega⟩
        · simp only [h1]; simp [hl]
        · intro x hx; cases hx with
          | head => rfl
          | tail _ h => exact h2 x h
      | ok =>
        refine ⟨[], [(.short s, false)], ?_, by simp, by simp, by simp⟩
        simp only []; split <;> simp [hl]
      | refuse e =>
        refine ⟨[], [(.short s, false)], ?_, by simp, by simp, by simp⟩
        simp only []; split <;> simp [hl]

/-- a script that starts with `n` failures of class `f` (whether or not the tag got the command) -/
def startsWith (f : Fault) : Nat → List Att → Prop
  | 0, _ => True
  | n+1, .flt g _ :: rest => g = f ∧ startsWith f n rest
  | _+1, _ => False

theorem loop_exhausted (cfg : Cfg) (k : PrimKind) (idm : Bool) (c : Cmd) (a : Ans) (f : Fault) :
    ∀ (n : Nat) (last : Option Fault) (acc : List (Att × Bool)) (w : World),
    startsWith f n w.script → (n = 0 → last = some f) →
    (loop cfg k idm c a n last acc w).1 = .error (exhausted cfg k f) := by
  intro n
  induction n with
  | zero => intro last acc w _ h; simp [loop, h rfl]
  | succ n ih =>
    intro last acc w hs _
    unfold loop
    cases hsc : w.script with
    | nil => rw [hsc] at hs; exact absurd hs (by simp [startsWith])
    | cons x rest =>
      rw [hsc] at hs
      cases x with
      | flt g r =>
        obtain ⟨hg, hrest⟩ := hs
        subst hg
        have : nextAtt w = (.flt g r, { w with script := rest }) := by simp [nextAtt, hsc]
        rw [this]
        simp only []
        apply ih
        · split <;> simp [World.exec, World.apply] <;> (try split) <;> exact hrest
        · intro _; rfl
      | ans => exact absurd hs (by simp [startsWith])
      | short s => exact absurd hs (by simp [startsWith])

end NfcVerif.Retry

namespace NfcVerif.Retry

/-! ## which exceptions a primitive can raise -/

/-- the script only contains the three error classes the tag layer knows -/
def Benign (w : World) : Prop := ∀ f r, Att.flt f r ∈ w.script → f.errno ≠ none

theorem nextAtt_cases (w : World) :
    (w.script = [] ∧ nextAtt w = (.ans, w)) ∨
    (∃ x rest, w.script = x :: rest ∧ nextAtt w = (x, { w with script := rest })) := by
  unfold nextAtt
  cases h : w.script with
  | nil => left; simp
  | cons x rest => right; exact ⟨x, rest, rfl, by simp⟩

theorem benign_next {w w1 : World} {att : Att} (h : nextAtt w = (att, w1)) (hb : Benign w) :
    Benign w1 ∧ (∀ f r, att = .flt f r → f.errno ≠ none) := by
  rcases nextAtt_cases w with ⟨hn, he⟩ | ⟨x, rest, hs, he⟩
  · rw [he] at h; cases h
    exact ⟨hb, by intro f r h; cases h⟩
  · rw [he] at h; cases h
    refine ⟨?_, ?_⟩
    · intro f r hm; exact hb f r (by rw [hs]; exact List.mem_cons_of_mem _ hm)
    · intro f r hx; exact hb f r (by rw [hs, hx]; exact List.mem_cons_self)

theorem benign_exec {w : World} (c : Cmd) (a : Ans) (hb : Benign w) : Benign (w.exec c a) := by
  unfold World.exec World.apply; split <;> exact hb

theorem benign_push {w : World} (c : Cmd) (l) (hb : Benign w) : Benign (w.push c l) := hb

theorem benign_ite {w : World} (b : Bool) (c : Cmd) (a : Ans) (hb : Benign w) :
    Benign (if b = true then w.exec c a else w) := by split; exact benign_exec c a hb; exact hb

theorem shortExc_repaired (idm : Bool) (k : Nat) : ∃ m, shortExc Cfg.repaired idm k = .tagCmd m := by
  unfold shortExc Cfg.repaired; simp only [if_true]; split <;> exact ⟨_, rfl⟩

theorem exhausted_ok (k : PrimKind) (f : Fault) (h : k = .t3 ∨ f.errno ≠ none) :
    ∃ m, exhausted Cfg.repaired k f = .tagCmd m := by
  unfold exhausted
  cases hf : f.errno with
  | some n => exact ⟨n, rfl⟩
  | none =>
    rcases h with h | h
    · subst h; exact ⟨-1, by simp [Cfg.repaired]⟩
    · exact absurd hf h

/-- repaired code: the retry loop raises nothing but TagCommandError (Type 3: for every script;
Type 1/2: as long as `exchange` raises one of the three known classes) and keeps the script benign -/
theorem loop_safe (k : PrimKind) (idm : Bool) (c : Cmd) (a : Ans) :
    ∀ (n : Nat) (last : Option Fault) (acc : List (Att × Bool)) (w : World),
    (n = 0 → ∃ f, last = some f ∧ (k = .t3 ∨ f.errno ≠ none)) →
    (k = .t3 ∨ Benign w) →
    (∀ e, (loop Cfg.repaired k idm c a n last acc w).1 = .error e → ∃ m, e = .tagCmd m)
    ∧ (Benign w → Benign (loop Cfg.repaired k idm c a n last acc w).2) := by
  intro n
  induction n with
  | zero =>
    intro last acc w h0 _
    obtain ⟨f, hf, hk⟩ := h0 rfl
    subst hf
    refine ⟨?_, fun hb => hb⟩
    intro e he
    simp only [loop] at he
    obtain ⟨m, hm⟩ := exhausted_ok k f hk
    rw [hm] at he; cases he; exact ⟨m, rfl⟩
  | succ n ih =>
    intro last acc w _ hk
    unfold loop
    generalize hp : nextAtt w = p
    obtain ⟨att, w1⟩ := p
    have hb1 : Benign w → Benign w1 ∧ (∀ f r, att = .flt f r → f.errno ≠ none) := benign_next hp
    have hk1 : k = .t3 ∨ Benign w1 := by
      rcases hk with h | h
      · exact Or.inl h
      · exact Or.inr (hb1 h).1
    cases att with
    | ans =>
      cases a with
      | ok => exact ⟨(by intro e he; cases he), fun hb => benign_push _ _ (benign_exec _ _ (hb1 hb).1)⟩
      | refuse e0 => exact ⟨(by intro e he; cases he; exact ⟨_, rfl⟩), fun hb => benign_push _ _ (benign_exec _ _ (hb1 hb).1)⟩
      | mute =>
        have := ih (some .timeout) (acc ++ [(.ans, true)]) (w1.exec c .mute)
          (fun _ => ⟨.timeout, rfl, Or.inr (by simp [Fault.errno])⟩)
          (hk1.imp id (benign_exec _ _))
        exact ⟨this.1, fun hb => this.2 (benign_exec _ _ (hb1 hb).1)⟩
    | flt f r =>
      have hf : k = .t3 ∨ f.errno ≠ none := by
        rcases hk with h | h
        · exact Or.inl h
        · exact Or.inr ((hb1 h).2 f r rfl)
      have := ih (some f) (acc ++ [(.flt f r, false)]) (if r then w1.exec c a else w1)
        (fun _ => ⟨f, rfl, hf⟩) (hk1.imp id (benign_ite _ _ _))
      exact ⟨this.1, fun hb => this.2 (benign_ite _ _ _ (hb1 hb).1)⟩
    | short s =>
      cases a with
      | mute =>
        have := ih (some .timeout) (acc ++ [(.short s, true)]) (w1.exec c .mute)
          (fun _ => ⟨.timeout, rfl, Or.inr (by simp [Fault.errno])⟩)
          (hk1.imp id (benign_exec _ _))
        exact ⟨this.1, fun hb => this.2 (benign_exec _ _ (hb1 hb).1)⟩
      | ok =>
        simp only []
        split
        · refine ⟨?_, fun hb => benign_push _ _ (benign_exec _ _ (hb1 hb).1)⟩
          intro e he
          obtain ⟨m, hm⟩ := shortExc_repaired idm s
          simp only [hm] at he; cases he; exact ⟨m, rfl⟩
        · exact ⟨(by intro e he; cases he), fun hb => benign_push _ _ (benign_exec _ _ (hb1 hb).1)⟩
      | refuse e0 =>
        simp only []
        split
        · refine ⟨?_, fun hb => benign_push _ _ (benign_exec _ _ (hb1 hb).1)⟩
          intro e he
          obtain ⟨m, hm⟩ := shortExc_repaired idm s
          simp only [hm] at he; cases he; exact ⟨m, rfl⟩
        · exact ⟨(by intro e he; cases he; exact ⟨_, rfl⟩), fun hb => benign_push _ _ (benign_exec _ _ (hb1 hb).1)⟩

end NfcVerif.Retry

namespace NfcVerif.Retry

/-! ## command programs -/

/-- outcome allowed by the property: a value or a TagCommandError -/
def Documented : Outcome → Prop
  | .ok _ => True
  | .exc e => ∃ m, e = .tagCmd m

/-- kinds of primitive covered here: the retry loops of Type 1/2 and Type 3 -/
def LoopKind (k : PrimKind) : Prop := k = .t12 ∨ k = .t3

/-- a program over primitives of kinds `S` that raises nothing but TagCommandError by itself -/
def Clean (S : PrimKind → Prop) : Prog → Prop
  | .ret _ => True
  | .crash e => ∃ m, e = .tagCmd m
  | .reraise => True
  | .caseErr z n p => Clean S (z ()) ∧ Clean S (n ()) ∧ Clean S (p ())
  | .call p _ _ _ ok err => S p.kind ∧ 0 < p.budget ∧ p.budget ≤ 3 ∧ Clean S (ok ()) ∧ Clean S (err ())

def PolClean (S : PrimKind → Prop) : Pol → Prop
  | .goto p => Clean S (p ())
  | _ => True

theorem prim_safe (p : Prim) (c : Cmd) (a : Ans) (w : World) (hk : LoopKind p.kind) (hb : 0 < p.budget)
    (hs : p.kind = .t3 ∨ Benign w) :
    (∀ e, (prim Cfg.repaired p c a w).1 = .error e → ∃ m, e = .tagCmd m)
    ∧ (Benign w → Benign (prim Cfg.repaired p c a w).2) := by
  unfold prim
  rcases hk with h | h
  · rw [h]; simp only []
    rw [h] at hs
    exact loop_safe .t12 p.idm c a p.budget none [] w (fun h0 => by omega) (hs.imp (by intro h; cases h) id)
  · rw [h]; simp only []
    exact loop_safe .t3 p.idm c a p.budget none [] w (fun h0 => by omega) (Or.inl rfl)

/-- **a clean program ends with a value or a TagCommandError**: for every fault script when all
its primitives are Type 3 ones (`t3only`), otherwise for every script of the three known classes -/
theorem run_documented (S : PrimKind → Prop) (hS : ∀ k, S k → LoopKind k) (t3only : Prop)
    (h3 : t3only → ∀ k, S k → k = .t3) :
    ∀ (P : Prog) (cur : Int) (w : World), Clean S P → (t3only ∨ Benign w) →
    Documented (run Cfg.repaired P cur w).1 := by
  intro P
  induction P with
  | ret v => intro cur w _ _; simp [run, Documented]
  | crash e => intro cur w hc _; simp only [run, Documented]; exact hc
  | reraise => intro cur w _ _; simp [run, Documented]
  | caseErr z n p ihz ihn ihp =>
    intro cur w hc hw
    obtain ⟨hz, hn, hp⟩ := hc
    unfold run
    split
    · exact ihz () cur w hz hw
    · split
      · exact ihn () cur w hn hw
      · exact ihp () cur w hp hw
  | call p c a ct ok err ihok iherr =>
    intro cur w hc hw
    obtain ⟨hk, hb, _, hok, herr⟩ := hc
    have hs : p.kind = .t3 ∨ Benign w := by
      rcases hw with h | h
      · exact Or.inl (h3 h _ hk)
      · exact Or.inr h
    have hps := prim_safe p c a w (hS _ hk) hb hs
    have hw' : t3only ∨ Benign (prim Cfg.repaired p c a w).2 := by
      rcases hw with h | h
      · exact Or.inl h
      · exact Or.inr (hps.2 h)
    unfold run
    generalize hr : prim Cfg.repaired p c a w = r at hps hw'
    obtain ⟨res, w'⟩ := r
    cases res with
    | ok u => exact ihok () cur w' hok hw'
    | error e =>
      obtain ⟨m, hm⟩ := hps.1 e rfl
      simp only []
      split
      · rename_i n _; exact iherr () n w' herr hw'
      · simp [Documented, hm]

theorem polProg_clean (S) (pol : Pol) (next : Unit → Prog) (hpol : PolClean S pol) (hn : Clean S (next ())) :
    Clean S (polProg pol next ()) := by
  cases pol <;> simp_all [polProg, Clean, PolClean]

theorem chain_clean (S : PrimKind → Prop) (p : Prim) (ct : Catch) (pol : Pol)
    (hp : S p.kind) (hb : 0 < p.budget) (hb3 : p.budget ≤ 3) (hpol : PolClean S pol) :
    ∀ (ss : List Step) (fin : Unit → Prog), Clean S (fin ()) → Clean S (chain Cfg.repaired p ct pol ss fin) := by
  intro ss
  induction ss with
  | nil => intro fin h; simpa [chain] using h
  | cons s ss ih =>
    intro fin h
    have hn := ih fin h
    unfold chain
    simp only []
    split
    · rename_i hc
      have h12 : S .t12 := by rw [← hc.2]; exact hp
      refine ⟨h12, by decide, by decide, ?_, ?_⟩
      · cases pol <;> simp_all [polProg, Clean, PolClean]
      · refine ⟨hn, ?_, ?_⟩ <;> simpa [Cfg.repaired] using polProg_clean S pol _ hpol hn
    · exact ⟨hp, hb, hb3, hn, polProg_clean S pol _ hpol hn⟩

/-! ## log invariant: answered attempts are last -/

def LogOK (log : List Inv) : Prop := ∀ inv ∈ log, InvOK 3 inv.atts

theorem prim_log (cfg : Cfg) (p : Prim) (c : Cmd) (a : Ans) (w : World) (hk : LoopKind p.kind) (hb3 : p.budget ≤ 3)
    (hw : LogOK w.log) : LogOK (prim cfg p c a w).2.log := by
  have key : ∀ k, LogOK (loop cfg k p.idm c a p.budget none [] w).2.log := by
    intro k
    obtain ⟨f, t, h1, h2, h3, h4⟩ := loop_log cfg k p.idm c a p.budget none [] w
    rw [h1]
    intro inv hm
    rcases List.mem_append.mp hm with h | h
    · exact hw inv h
    · simp at h; subst h
      exact ⟨f, t, by simp, h2, h3, by omega⟩
  unfold prim
  rcases hk with h | h <;> rw [h] <;> exact key _

theorem run_log (cfg : Cfg) (S : PrimKind → Prop) (hS : ∀ k, S k → LoopKind k) :
    ∀ (P : Prog) (cur : Int) (w : World), Clean S P → LogOK w.log → LogOK (run cfg P cur w).2.log := by
  intro P
  induction P with
  | ret v => intro cur w _ h; simpa [run] using h
  | crash e => intro cur w _ h; simpa [run] using h
  | reraise => intro cur w _ h; simpa [run] using h
  | caseErr z n p ihz ihn ihp =>
    intro cur w hc hw
    obtain ⟨hz, hn, hp⟩ := hc
    unfold run
    split
    · exact ihz () cur w hz hw
    · split
      · exact ihn () cur w hn hw
      · exact ihp () cur w hp hw
  | call p c a ct ok err ihok iherr =>
    intro cur w hc hw
    obtain ⟨hk, _, hb3, hok, herr⟩ := hc
    have hl := prim_log cfg p c a w (hS _ hk) hb3 hw
    unfold run
    generalize hr : prim cfg p c a w = r at hl
    obtain ⟨res, w'⟩ := r
    cases res with
    | ok u => exact ihok () cur w' hok hl
    | error e =>
      simp only []
      split
      · rename_i n _; exact iherr () n w' herr hl
      · exact hl

end NfcVerif.Retry

/-! ## the programs of the operations are clean -/
namespace NfcVerif.Retry

theorem fixF17_rep : Cfg.repaired.fixF17 = true := rfl

macro "clean_tac" : tactic => `(tactic| repeat' (first
  | exact trivial
  | exact Or.inl rfl
  | exact Or.inr rfl
  | exact rfl
  | decide
  | apply chain_clean
  | (show Clean _ _; dsimp only [fin])
  ))

theorem prog_clean (fam op : String) (l : Phases) (v : Val) (nret : Nat) (P : Prog)
    (h : prog Cfg.repaired fam op l v nret = some P) (h4 : fam ≠ "t4") : Clean LoopKind P := by
  unfold prog at h
  simp only [fixF17_rep, if_true] at h
  split at h <;> first
    | exact absurd rfl h4
    | (cases h; clean_tac)


end NfcVerif.Retry

namespace NfcVerif.Retry

theorem prog_clean_t3 (fam op : String) (l : Phases) (v : Val) (nret : Nat) (P : Prog)
    (h : prog Cfg.repaired fam op l v nret = some P) (hf : fam = "t3" ∨ fam = "t3std" ∨ fam = "lite") :
    Clean (fun k => k = .t3) P := by
  unfold prog at h
  simp only [fixF17_rep, if_true] at h
  split at h <;> first
    | (exfalso; revert hf; decide)
    | (cases h; clean_tac)

section t3format
variable (S : PrimKind → Prop) (h3 : S .t3) (cfg : Cfg) (t : T3Tag)
include h3

theorem t3Wipe_clean : ∀ n, Clean S (t3Wipe cfg t n) := by
  intro n
  induction n with
  | zero => exact trivial
  | succ n ih => unfold t3Wipe; exact ⟨h3, by decide, by decide, ih, trivial⟩

theorem t3Nbw_clean (wipe : Bool) (nmaxb : Nat) : ∀ fuel nbw, Clean S (t3Nbw cfg t wipe nmaxb fuel nbw) := by
  intro fuel
  induction fuel with
  | zero => intro _; exact trivial
  | succ fuel ih =>
    intro nbw
    have hattr : Clean S (.call (t3p true) (wrTok 0 1) .ok .nothing
        (fun _ => if wipe then t3Wipe cfg t nmaxb else .ret .true_) (fun _ => .reraise)) := by
      refine ⟨h3, by decide, by decide, ?_, trivial⟩
      show Clean S (if wipe = true then _ else _)
      split
      · exact t3Wipe_clean S h3 cfg t nmaxb
      · exact trivial
    unfold t3Nbw
    simp only []
    split
    · exact hattr
    · exact ⟨h3, by decide, by decide, ih _, hattr⟩

theorem t3Nbr_clean (wipe : Bool) (nmaxb : Nat) : ∀ fuel nbr, Clean S (t3Nbr cfg t wipe nmaxb fuel nbr) := by
  intro fuel
  induction fuel with
  | zero => intro _; exact trivial
  | succ fuel ih =>
    intro nbr
    have hafter : Clean S (.call (t3p true) (rdTok 0 1) .ok .nothing
        (fun _ => t3Nbw cfg t wipe nmaxb 14 1) (fun _ => .reraise)) :=
      ⟨h3, by decide, by decide, t3Nbw_clean S h3 cfg t wipe nmaxb 14 1, trivial⟩
    unfold t3Nbr
    simp only []
    split
    · exact hafter
    · exact ⟨h3, by decide, by decide, ih _, hafter⟩

theorem t3Search_clean (wipe : Bool) : ∀ fuel lo hi, Clean S (t3Search cfg t wipe fuel lo hi) := by
  intro fuel
  induction fuel with
  | zero => intro lo _; unfold t3Search; exact t3Nbr_clean S h3 cfg t wipe lo 16 1
  | succ fuel ih =>
    intro lo hi
    unfold t3Search
    split
    · exact ⟨h3, by decide, by decide, ih _ _, ih _ _⟩
    · exact t3Nbr_clean S h3 cfg t wipe lo 16 1

theorem t3Format_clean (wipe : Bool) : Clean S (t3Format cfg t wipe) :=
  ⟨h3, by decide, by decide, t3Search_clean S h3 cfg t wipe 17 0 0x10000, trivial⟩
end t3format

end NfcVerif.Retry
