import NfcVerif.Model.Retry
/-!
# C16 - proofs about the retry primitives, the command programs and sessions
-/
set_option linter.unusedVariables false
namespace NfcVerif.Retry

/-! ## log bookkeeping -/


@[simp] theorem nextAtt_log (w : World) : (nextAtt w).2.log = w.log := by
  unfold nextAtt; split <;> rfl
@[simp] theorem exec_log (w : World) (c : Cmd) (a : Rsp) : (w.exec c a).log = w.log := by
  unfold World.exec World.apply; split <;> rfl
@[simp] theorem push_log (w : World) (c : Cmd) (l) : (w.push c l).log = w.log ++ [⟨c, l⟩] := rfl
@[simp] theorem ite_exec_log (b : Bool) (w : World) (c : Cmd) (a : Rsp) :
    (if b = true then w.exec c a else w).log = w.log := by split <;> simp
@[simp] theorem sense_log (w : World) : w.sense.2.log = w.log := by
  unfold World.sense; split <;> rfl
@[simp] theorem reactivate_log (w : World) : w.reactivate.2.log = w.log := by
  simp [World.reactivate]
@[simp] theorem stick_log (w : World) (e : Exc) : (w.stick e).log = w.log := by
  unfold World.stick; split <;> rfl
@[simp] theorem answered_log (c : Cmd) (a : Rsp) (x) (acc) (w : World) :
    (answered c a x acc w).2.log = w.log ++ [⟨c, acc ++ [x]⟩] := by
  unfold answered; split <;> simp

/-- the attempt was answered by the tag (a cut answer is an answer) -/
def isAnswered : Att × Bool → Bool
  | (.ans, mute) => !mute
  | (.short _, mute) => !mute
  | (.flt _ _, _) => false

theorem loop_log (cfg : Cfg) (k : PrimKind) (idm : Bool) (c : Cmd) (a0 : Ans) :
    ∀ (n : Nat) (last : Option Fault) (acc : List (Att × Bool)) (w : World),
    ∃ fails tail, (loop cfg k idm c a0 n last acc w).2.log = w.log ++ [⟨c, acc ++ fails ++ tail⟩]
      ∧ (∀ x ∈ fails, isAnswered x = false) ∧ tail.length ≤ 1 ∧ fails.length + tail.length ≤ n := by
  intro n
  induction n with
  | zero => intro last acc w; exact ⟨[], [], by simp [loop], by simp, by simp, by simp⟩
  | succ n ih =>
    intro last acc w
    unfold loop
    generalize a0.eff (executed acc) = a
    generalize hp : nextAtt w = p
    obtain ⟨att, w1⟩ := p
    have hl : w1.log = w.log := by have := nextAtt_log w; rw [hp] at this; exact this
    cases att with
    | ans =>
      cases a with
      | mute =>
        obtain ⟨f, t, h1, h2, h3, h4⟩ := ih (some .timeout) (acc ++ [(.ans, true)]) (w1.exec c .mute)
        refine ⟨(.ans, true) :: f, t, ?_, ?_, h3, by simp; omega⟩
        · simp only [h1]; simp [hl]
        · intro x hx; cases hx with
          | head => rfl
          | tail _ h => exact h2 x h
      | ok => exact ⟨[], [(.ans, false)], by simp [hl], by simp, by simp, by simp⟩
      | refuse e => exact ⟨[], [(.ans, false)], by simp [hl], by simp, by simp, by simp⟩
      | nak => exact ⟨[], [(.ans, false)], by simp [hl], by simp, by simp, by simp⟩
    | flt f r =>
      obtain ⟨fl, t, h1, h2, h3, h4⟩ := ih (some f) (acc ++ [(.flt f r, false)]) (if r then w1.exec c a else w1)
      refine ⟨(.flt f r, false) :: fl, t, ?_, ?_, h3, by simp; omega⟩
      · simp only [h1]; simp [hl]
      · intro x hx; cases hx with
        | head => rfl
        | tail _ h => exact h2 x h
    | short s =>
      cases a with
      | mute =>
        obtain ⟨f, t, h1, h2, h3, h4⟩ := ih (some .timeout) (acc ++ [(.short s, true)]) (w1.exec c .mute)
        refine ⟨(.short s, true) :: f, t, ?_, ?_, h3, by simp; omega⟩
        · simp only [h1]; simp [hl]
        · intro x hx; cases hx with
          | head => rfl
          | tail _ h => exact h2 x h
      | ok =>
        refine ⟨[], [(.short s, false)], ?_, by simp, by simp, by simp⟩
        simp only []; split <;> simp [hl]
      | refuse e =>
        refine ⟨[], [(.short s, false)], ?_, by simp, by simp, by simp⟩
        simp only []; split <;> simp [hl]
      | nak =>
        refine ⟨[], [(.short s, false)], ?_, by simp, by simp, by simp⟩
        simp only []; split <;> simp [hl]


/-- a script that starts with `n` failures of class `f` (whether or not the tag got the command) -/
def startsWith (f : Fault) : Nat → List Att → Prop
  | 0, _ => True
  | n+1, .flt g _ :: rest => g = f ∧ startsWith f n rest
  | _+1, _ => False

theorem loop_exhausted (cfg : Cfg) (k : PrimKind) (idm : Bool) (c : Cmd) (a : Ans) (f : Fault) :
    ∀ (n : Nat) (last : Option Fault) (acc : List (Att × Bool)) (w : World),
    startsWith f n w.script → (n = 0 → last = some f) →
    (loop cfg k idm c a n last acc w).1 = .error (exhausted cfg k f) := by
  intro n
  induction n with
  | zero => intro last acc w _ h; simp [loop, h rfl]
  | succ n ih =>
    intro last acc w hs _
    unfold loop
    cases hsc : w.script with
    | nil => rw [hsc] at hs; exact absurd hs (by simp [startsWith])
    | cons x rest =>
      rw [hsc] at hs
      cases x with
      | flt g r =>
        obtain ⟨hg, hrest⟩ := hs
        subst hg
        have : nextAtt w = (.flt g r, { w with script := rest }) := by simp [nextAtt, hsc]
        rw [this]
        simp only []
        apply ih
        · split <;> simp [World.exec, World.apply] <;> (try split) <;> exact hrest
        · intro _; rfl
      | ans => exact absurd hs (by simp [startsWith])
      | short s => exact absurd hs (by simp [startsWith])

/-! ## which exceptions a primitive can raise -/

/-- the script only contains the three error classes the tag layer knows -/
def Benign (w : World) : Prop := ∀ f r, Att.flt f r ∈ w.script → f.errno ≠ none

/-- the tag object knows when the frontend has lost its target: `clf.exchange` is never called
without one (`tag.target` is the result of the last `clf.sense`) -/
def Sound (w : World) : Prop := w.lost = true → w.gone = true

theorem nextAtt_cases (w : World) :
    (w.script = [] ∧ nextAtt w = (.ans, w)) ∨
    (∃ x rest, w.script = x :: rest ∧ nextAtt w = (x, { w with script := rest })) := by
  unfold nextAtt
  cases h : w.script with
  | nil => left; simp
  | cons x rest => right; exact ⟨x, rest, rfl, by simp⟩

theorem benign_next {w w1 : World} {att : Att} (h : nextAtt w = (att, w1)) (hb : Benign w) :
    Benign w1 ∧ (∀ f r, att = .flt f r → f.errno ≠ none) := by
  rcases nextAtt_cases w with ⟨hn, he⟩ | ⟨x, rest, hs, he⟩
  · rw [he] at h; cases h
    exact ⟨hb, by intro f r h; cases h⟩
  · rw [he] at h; cases h
    refine ⟨?_, ?_⟩
    · intro f r hm; exact hb f r (by rw [hs]; exact List.mem_cons_of_mem _ hm)
    · intro f r hx; exact hb f r (by rw [hs, hx]; exact List.mem_cons_self)

theorem benign_exec {w : World} (c : Cmd) (a : Rsp) (hb : Benign w) : Benign (w.exec c a) := by
  unfold World.exec World.apply; split <;> exact hb

theorem benign_push {w : World} (c : Cmd) (l) (hb : Benign w) : Benign (w.push c l) := hb

theorem benign_ite {w : World} (b : Bool) (c : Cmd) (a : Rsp) (hb : Benign w) :
    Benign (if b = true then w.exec c a else w) := by split; exact benign_exec c a hb; exact hb

@[simp] theorem sense_script (w : World) : w.sense.2.script = w.script := by
  unfold World.sense; split <;> rfl
@[simp] theorem reactivate_script (w : World) : w.reactivate.2.script = w.script := by
  simp [World.reactivate]
theorem benign_reactivate {w : World} (hb : Benign w) : Benign w.reactivate.2 := by
  unfold Benign; rw [reactivate_script]; exact hb
theorem benign_stick {w : World} (e : Exc) (hb : Benign w) : Benign (w.stick e) := by
  unfold World.stick; split <;> exact hb

/-! frame: what leaves `lost` / `gone` alone -/
theorem sound_next {w w1 : World} {att : Att} (h : nextAtt w = (att, w1)) (hs : Sound w) : Sound w1 := by
  rcases nextAtt_cases w with ⟨_, he⟩ | ⟨x, rest, _, he⟩ <;> (rw [he] at h; cases h; exact hs)
theorem sound_exec {w : World} (c : Cmd) (a : Rsp) (hs : Sound w) : Sound (w.exec c a) := by
  unfold World.exec World.apply; split <;> exact hs
theorem sound_push {w : World} (c : Cmd) (l) (hs : Sound w) : Sound (w.push c l) := hs
theorem sound_ite {w : World} (b : Bool) (c : Cmd) (a : Rsp) (hs : Sound w) :
    Sound (if b = true then w.exec c a else w) := by split; exact sound_exec c a hs; exact hs
theorem sound_stick {w : World} (e : Exc) (hs : Sound w) : Sound (w.stick e) := by
  unfold World.stick; split <;> exact hs
/-- the result of `clf.sense` is stored in `tag._target`: afterwards the tag object is right about the target -/
theorem sound_reactivate (w : World) : Sound w.reactivate.2 := by
  unfold Sound World.reactivate World.sense
  split <;> simp

theorem shortExc_repaired (idm : Bool) (k : Nat) : ∃ m, shortExc Cfg.repaired idm k = .tagCmd m := by
  unfold shortExc Cfg.repaired; simp only [if_true]; split <;> exact ⟨_, rfl⟩

theorem exhausted_ok (k : PrimKind) (f : Fault) (h : k = .t3 ∨ f.errno ≠ none) :
    ∃ m, exhausted Cfg.repaired k f = .tagCmd m := by
  unfold exhausted
  cases hf : f.errno with
  | some n => exact ⟨n, rfl⟩
  | none =>
    rcases h with h | h
    · subst h; exact ⟨-1, by simp [Cfg.repaired]⟩
    · exact absurd hf h

theorem answered_safe (c : Cmd) (a : Rsp) (x) (acc) (w : World) :
    (∀ e, (answered c a x acc w).1 = .error e → ∃ m, e = .tagCmd m)
    ∧ (Benign w → Benign (answered c a x acc w).2)
    ∧ (Sound w → Sound (answered c a x acc w).2) := by
  unfold answered
  split
  · exact ⟨(by intro e he; cases he; exact ⟨_, rfl⟩), fun hb => benign_push _ _ hb, fun hs => sound_push _ _ hs⟩
  · exact ⟨(by intro e he; cases he; exact ⟨_, rfl⟩), fun hb => benign_push _ _ (benign_reactivate hb),
      fun _ => sound_push _ _ (sound_reactivate w)⟩
  · exact ⟨(by intro e he; cases he), fun hb => benign_push _ _ hb, fun hs => sound_push _ _ hs⟩

/-- repaired code: the retry loop raises nothing but TagCommandError (Type 3: for every script;
Type 1/2: as long as `exchange` raises one of the three known classes), keeps the script benign
and the tag object sound -/
theorem loop_safe (k : PrimKind) (idm : Bool) (c : Cmd) (a0 : Ans) :
    ∀ (n : Nat) (last : Option Fault) (acc : List (Att × Bool)) (w : World),
    (n = 0 → ∃ f, last = some f ∧ (k = .t3 ∨ f.errno ≠ none)) →
    (k = .t3 ∨ Benign w) →
    (∀ e, (loop Cfg.repaired k idm c a0 n last acc w).1 = .error e → ∃ m, e = .tagCmd m)
    ∧ (Benign w → Benign (loop Cfg.repaired k idm c a0 n last acc w).2)
    ∧ (Sound w → Sound (loop Cfg.repaired k idm c a0 n last acc w).2) := by
  intro n
  induction n with
  | zero =>
    intro last acc w h0 _
    obtain ⟨f, hf, hk⟩ := h0 rfl
    subst hf
    refine ⟨?_, fun hb => hb, fun hs => hs⟩
    intro e he
    simp only [loop] at he
    obtain ⟨m, hm⟩ := exhausted_ok k f hk
    rw [hm] at he; cases he; exact ⟨m, rfl⟩
  | succ n ih =>
    intro last acc w _ hk
    unfold loop
    generalize a0.eff (executed acc) = a
    generalize hp : nextAtt w = p
    obtain ⟨att, w1⟩ := p
    have hb1 : Benign w → Benign w1 ∧ (∀ f r, att = .flt f r → f.errno ≠ none) := benign_next hp
    have hs1 : Sound w → Sound w1 := sound_next hp
    have hk1 : k = .t3 ∨ Benign w1 := by
      rcases hk with h | h
      · exact Or.inl h
      · exact Or.inr (hb1 h).1
    -- an answer that is handed to the caller
    have hans : ∀ (a : Rsp) (x : Att × Bool),
        (∀ e, (answered c a x acc (w1.exec c a)).1 = .error e → ∃ m, e = .tagCmd m)
        ∧ (Benign w → Benign (answered c a x acc (w1.exec c a)).2)
        ∧ (Sound w → Sound (answered c a x acc (w1.exec c a)).2) := by
      intro a x
      obtain ⟨h1, h2, h3⟩ := answered_safe c a x acc (w1.exec c a)
      exact ⟨h1, fun hb => h2 (benign_exec _ _ (hb1 hb).1), fun hs => h3 (sound_exec _ _ (hs1 hs))⟩
    have hmute : ∀ (x : Att × Bool),
        (∀ e, (loop Cfg.repaired k idm c a0 n (some .timeout) (acc ++ [x]) (w1.exec c .mute)).1 = .error e → ∃ m, e = .tagCmd m)
        ∧ (Benign w → Benign (loop Cfg.repaired k idm c a0 n (some .timeout) (acc ++ [x]) (w1.exec c .mute)).2)
        ∧ (Sound w → Sound (loop Cfg.repaired k idm c a0 n (some .timeout) (acc ++ [x]) (w1.exec c .mute)).2) := by
      intro x
      have := ih (some .timeout) (acc ++ [x]) (w1.exec c .mute)
        (fun _ => ⟨.timeout, rfl, Or.inr (by simp [Fault.errno])⟩)
        (hk1.imp id (benign_exec _ _))
      exact ⟨this.1, fun hb => this.2.1 (benign_exec _ _ (hb1 hb).1), fun hs => this.2.2 (sound_exec _ _ (hs1 hs))⟩
    cases att with
    | ans =>
      cases a with
      | mute => exact hmute _
      | ok => exact hans .ok _
      | refuse e0 => exact hans (.refuse e0) _
      | nak => exact hans .nak _
    | flt f r =>
      have hf : k = .t3 ∨ f.errno ≠ none := by
        rcases hk with h | h
        · exact Or.inl h
        · exact Or.inr ((hb1 h).2 f r rfl)
      have := ih (some f) (acc ++ [(.flt f r, false)]) (if r then w1.exec c a else w1)
        (fun _ => ⟨f, rfl, hf⟩) (hk1.imp id (benign_ite _ _ _))
      exact ⟨this.1, fun hb => this.2.1 (benign_ite _ _ _ (hb1 hb).1), fun hs => this.2.2 (sound_ite _ _ _ (hs1 hs))⟩
    | short s =>
      have hcut : ∀ (a : Rsp),
          (∀ e, ((Except.error (shortExc Cfg.repaired idm s) : Py Unit), (w1.exec c a).push c (acc ++ [(.short s, false)])).1 = .error e → ∃ m, e = .tagCmd m)
          ∧ (Benign w → Benign ((Except.error (shortExc Cfg.repaired idm s) : Py Unit), (w1.exec c a).push c (acc ++ [(.short s, false)])).2)
          ∧ (Sound w → Sound ((Except.error (shortExc Cfg.repaired idm s) : Py Unit), (w1.exec c a).push c (acc ++ [(.short s, false)])).2) := by
        intro a
        refine ⟨?_, fun hb => benign_push _ _ (benign_exec _ _ (hb1 hb).1), fun hs => sound_push _ _ (sound_exec _ _ (hs1 hs))⟩
        intro e he
        obtain ⟨m, hm⟩ := shortExc_repaired idm s
        simp only [hm] at he; cases he; exact ⟨m, rfl⟩
      cases a with
      | mute => exact hmute _
      | ok => simp only []; split; exact hcut _; exact hans .ok _
      | refuse e0 => simp only []; split; exact hcut _; exact hans (.refuse e0) _
      | nak => simp only []; split; exact hcut _; exact hans .nak _

/-! ## ISO-DEP exchange -/

theorem depFail_cases (cfg : Cfg) (budget i : Nat) (f : Fault) :
    (depFail cfg budget i f = none ∧ i ≤ budget ∧ (f = .timeout ∨ f = .transmission)) ∨
    (∃ m, depFail cfg budget i f = some (.tagCmd m)) ∨
    (cfg.fixT4 = false ∧ depFail cfg budget i f = some f.exc) := by
  unfold depFail
  cases f with
  | protocol => right; left; exact ⟨_, rfl⟩
  | timeout =>
    by_cases h : i ≤ budget
    · left; simp [h]
    · right; left; simp [h]
  | transmission =>
    by_cases h : i ≤ budget
    · left; simp [h]
    · right; left; simp [h]
  | brokenLink =>
    cases hc : cfg.fixT4
    · right; right; simp
    · right; left; simp
  | base =>
    cases hc : cfg.fixT4
    · right; right; simp
    · right; left; simp

/-- what `depDone` returns -/
theorem depDone_spec (c : Cmd) (a : Rsp) (w : World) (acc) :
    (∀ e, (depDone c a w acc).1 = .error e → ∃ m, e = .tagCmd m) ∧ (depDone c a w acc).2 = w.push c acc := by
  unfold depDone; cases a <;> simp

theorem dep_spec (cfg : Cfg) (budget : Nat) (c : Cmd) (a : Rsp) :
    ∀ (fuel i : Nat) (nak has : Bool) (acc : List (Att × Bool)) (w : World),
    fuel + i = budget + 4 → (nak = true → i ≤ budget + 1) → i ≤ budget + 2 → acc.length + 1 = i →
    (∀ e, (dep cfg budget c a fuel i nak has acc w).1 = .error e →
        (∃ m, e = .tagCmd m) ∨ (cfg.fixT4 = false ∧ ∃ f, e = Fault.exc f))
    ∧ (Benign w → Benign (dep cfg budget c a fuel i nak has acc w).2)
    ∧ ∃ more, (dep cfg budget c a fuel i nak has acc w).2.log = w.log ++ [⟨c, acc ++ more⟩]
        ∧ acc.length + more.length ≤ budget + 2 := by
  intro fuel
  induction fuel with
  | zero => intro i nak has acc w h1 _ h3 _; omega
  | succ fuel ih =>
    intro i nak has acc w h1 h2 h3 h4
    unfold dep
    generalize hp : nextAtt w = p
    obtain ⟨att, w1⟩ := p
    have hl : w1.log = w.log := by have := nextAtt_log w; rw [hp] at this; exact this
    have hb1 : Benign w → Benign w1 := fun hb => (benign_next hp hb).1
    -- the continuation after an error that is answered with R(NAK)
    have cont : ∀ (has' : Bool) (x : Att × Bool) (w2 : World), w2.log = w.log → (Benign w → Benign w2) → i ≤ budget →
        (∀ e, (dep cfg budget c a fuel (i+1) true has' (acc ++ [x]) w2).1 = .error e →
            (∃ m, e = .tagCmd m) ∨ (cfg.fixT4 = false ∧ ∃ f, e = Fault.exc f))
        ∧ (Benign w → Benign (dep cfg budget c a fuel (i+1) true has' (acc ++ [x]) w2).2)
        ∧ ∃ more, (dep cfg budget c a fuel (i+1) true has' (acc ++ [x]) w2).2.log = w.log ++ [⟨c, acc ++ more⟩]
            ∧ acc.length + more.length ≤ budget + 2 := by
      intro has' x w2 hl2 hb2 hi
      obtain ⟨e1, e2, more, e3, e4⟩ := ih (i+1) true has' (acc ++ [x]) w2 (by omega) (by intro _; omega) (by omega) (by simp; omega)
      refine ⟨e1, fun hb => e2 (hb2 hb), x :: more, ?_, ?_⟩
      · rw [e3, hl2]; simp
      · simp at e4 ⊢; omega
    -- the end of the exchange with an exception `e`
    have stop : ∀ (e0 : Exc) (x : Att × Bool) (w2 : World), w2.log = w.log → (Benign w → Benign w2) →
        ((∃ m, e0 = .tagCmd m) ∨ (cfg.fixT4 = false ∧ ∃ f, e0 = Fault.exc f)) →
        (∀ e, ((Except.error e0 : Py Unit), (w2.push c (acc ++ [x])).stick e0).1 = .error e →
            (∃ m, e = .tagCmd m) ∨ (cfg.fixT4 = false ∧ ∃ f, e = Fault.exc f))
        ∧ (Benign w → Benign ((Except.error e0 : Py Unit), (w2.push c (acc ++ [x])).stick e0).2)
        ∧ ∃ more, ((Except.error e0 : Py Unit), (w2.push c (acc ++ [x])).stick e0).2.log = w.log ++ [⟨c, acc ++ more⟩]
            ∧ acc.length + more.length ≤ budget + 2 := by
      intro e0 x w2 hl2 hb2 he0
      refine ⟨by intro e he; cases he; exact he0, fun hb => benign_stick _ (benign_push _ _ (hb2 hb)), [x], by simp [hl2], by simp; omega⟩
    have fin : ∀ (x : Att × Bool) (w2 : World), w2.log = w.log → (Benign w → Benign w2) →
        (∀ e, (depDone c a w2 (acc ++ [x])).1 = .error e →
            (∃ m, e = .tagCmd m) ∨ (cfg.fixT4 = false ∧ ∃ f, e = Fault.exc f))
        ∧ (Benign w → Benign (depDone c a w2 (acc ++ [x])).2)
        ∧ ∃ more, (depDone c a w2 (acc ++ [x])).2.log = w.log ++ [⟨c, acc ++ more⟩]
            ∧ acc.length + more.length ≤ budget + 2 := by
      intro x w2 hl2 hb2
      obtain ⟨d1, d2⟩ := depDone_spec c a w2 (acc ++ [x])
      refine ⟨fun e he => Or.inl (d1 e he), ?_, [x], ?_, by simp; omega⟩
      · intro hb; rw [d2]; exact benign_push _ _ (hb2 hb)
      · rw [d2]; simp [hl2]
    have failcase : ∀ (f : Fault) (has' : Bool) (x : Att × Bool) (w2 : World), w2.log = w.log → (Benign w → Benign w2) →
        (∀ e, (match depFail cfg budget i f with
              | some e => ((Except.error e : Py Unit), (w2.push c (acc ++ [x])).stick e)
              | none => dep cfg budget c a fuel (i+1) true has' (acc ++ [x]) w2).1 = .error e →
            (∃ m, e = .tagCmd m) ∨ (cfg.fixT4 = false ∧ ∃ f, e = Fault.exc f))
        ∧ (Benign w → Benign (match depFail cfg budget i f with
              | some e => ((Except.error e : Py Unit), (w2.push c (acc ++ [x])).stick e)
              | none => dep cfg budget c a fuel (i+1) true has' (acc ++ [x]) w2).2)
        ∧ ∃ more, (match depFail cfg budget i f with
              | some e => ((Except.error e : Py Unit), (w2.push c (acc ++ [x])).stick e)
              | none => dep cfg budget c a fuel (i+1) true has' (acc ++ [x]) w2).2.log = w.log ++ [⟨c, acc ++ more⟩]
            ∧ acc.length + more.length ≤ budget + 2 := by
      intro f has' x w2 hl2 hb2
      rcases depFail_cases cfg budget i f with ⟨h, hi, _⟩ | ⟨m, h⟩ | ⟨hc, h⟩
      · rw [h]; exact cont has' x w2 hl2 hb2 hi
      · rw [h]; exact stop _ x w2 hl2 hb2 (Or.inl ⟨m, rfl⟩)
      · rw [h]; exact stop _ x w2 hl2 hb2 (Or.inr ⟨hc, f, rfl⟩)
    cases att with
    | flt f r =>
      simp only []
      exact failcase f _ _ _ (by split <;> simp [hl]) (fun hb => benign_ite _ _ _ (hb1 hb))
    | ans =>
      simp only []
      split
      · exact failcase .timeout _ _ _ hl hb1
      · split
        · split
          · exact fin _ _ hl hb1
          · rename_i hn _
            obtain ⟨e1, e2, more, e3, e4⟩ := ih (i+1) false has (acc ++ [(.ans, false)]) w1 (by omega)
              (by intro h; cases h) (by have := h2 hn; omega) (by simp; omega)
            refine ⟨e1, fun hb => e2 (hb1 hb), (.ans, false) :: more, ?_, ?_⟩
            · rw [e3, hl]; simp
            · simp at e4 ⊢; omega
        · exact fin _ _ (by simp [hl]) (fun hb => benign_exec _ _ (hb1 hb))
    | short s =>
      simp only []
      split
      · exact failcase .timeout _ _ _ hl hb1
      · split
        · split
          · exact fin _ _ hl hb1
          · rename_i hn _
            obtain ⟨e1, e2, more, e3, e4⟩ := ih (i+1) false has (acc ++ [(.short s, false)]) w1 (by omega)
              (by intro h; cases h) (by have := h2 hn; omega) (by simp; omega)
            refine ⟨e1, fun hb => e2 (hb1 hb), (.short s, false) :: more, ?_, ?_⟩
            · rw [e3, hl]; simp
            · simp at e4 ⊢; omega
        · exact fin _ _ (by simp [hl]) (fun hb => benign_exec _ _ (hb1 hb))

/-- a persisting timeout / transmission error: frames `i .. budget+1` all fail with class `f` -/
theorem dep_exhausted (cfg : Cfg) (budget : Nat) (c : Cmd) (a : Rsp) (f : Fault) (e : Int)
    (hf : (f = .timeout ∧ e = 0) ∨ (f = .transmission ∧ e = -1)) :
    ∀ (fuel i : Nat) (nak has : Bool) (acc : List (Att × Bool)) (w : World),
    fuel + i = budget + 4 → i ≤ budget + 1 → startsWith f (budget + 2 - i) w.script →
    (dep cfg budget c a fuel i nak has acc w).1 = .error (.tagCmd e) := by
  intro fuel
  induction fuel with
  | zero => intro i _ _ _ _ h1 h2 _; omega
  | succ fuel ih =>
    intro i nak has acc w h1 h2 hs
    have hn : budget + 2 - i = (budget + 1 - i) + 1 := by omega
    rw [hn] at hs
    unfold dep
    cases hsc : w.script with
    | nil => rw [hsc] at hs; exact absurd hs (by simp [startsWith])
    | cons x rest =>
      rw [hsc] at hs
      cases x with
      | ans => exact absurd hs (by simp [startsWith])
      | short s => exact absurd hs (by simp [startsWith])
      | flt g r =>
        obtain ⟨hg, hrest⟩ := hs
        subst hg
        have : nextAtt w = (.flt g r, { w with script := rest }) := by simp [nextAtt, hsc]
        rw [this]
        simp only []
        by_cases hi : i ≤ budget
        · have hd : depFail cfg budget i g = none := by
            rcases hf with ⟨h, _⟩ | ⟨h, _⟩ <;> subst h <;> simp [depFail, hi]
          rw [hd]
          simp only []
          apply ih (i+1) true _ _ _ (by omega) (by omega)
          have : budget + 2 - (i + 1) = budget + 1 - i := by omega
          rw [this]
          split <;> simp [World.exec, World.apply] <;> (try split) <;> exact hrest
        · have hd : depFail cfg budget i g = some (.tagCmd e) := by
            rcases hf with ⟨h, he⟩ | ⟨h, he⟩ <;> subst h <;> subst he <;> simp [depFail, hi]
          rw [hd]

/-! ### what the exchange leaves in the initiator and in the tag object -/

/-- the fields of the state that only `clf.sense` and the ISO-DEP error memory touch -/
structure Flags where
  gone : Bool
  lost : Bool
  senses : List Bool
  sticky : Option Int
  deriving DecidableEq

def World.flags (w : World) : Flags := ⟨w.gone, w.lost, w.senses, w.sticky⟩

@[simp] theorem nextAtt_flags (w : World) : (nextAtt w).2.flags = w.flags := by
  unfold nextAtt; split <;> rfl
@[simp] theorem exec_flags (w : World) (c : Cmd) (a : Rsp) : (w.exec c a).flags = w.flags := by
  unfold World.exec World.apply; split <;> rfl
@[simp] theorem apply_flags (w : World) (c : Cmd) : (w.apply c).flags = w.flags := rfl
@[simp] theorem push_flags (w : World) (c : Cmd) (l) : (w.push c l).flags = w.flags := rfl
@[simp] theorem ite_exec_flags (b : Bool) (w : World) (c : Cmd) (a : Rsp) :
    (if b = true then w.exec c a else w).flags = w.flags := by split <;> simp

/-- the answer of the card (not the link) makes the command fail with `n` -/
def Rsp.refuses (a : Rsp) (n : Int) : Prop := a = .refuse n ∨ (a = .nak ∧ n = 2)

/-- **the error memory of the ISO-DEP initiator**: an exchange that ends normally or with the
card's own refusal leaves everything but script and logs alone; every other error end is a
TagCommandError whose reason code is stored in `sticky` (as found: or the unknown
CommunicationError itself, which is not stored). -/
theorem dep_flags (cfg : Cfg) (budget : Nat) (c : Cmd) (a : Rsp) :
    ∀ (fuel i : Nat) (nak has : Bool) (acc : List (Att × Bool)) (w : World),
    ((dep cfg budget c a fuel i nak has acc w).2.flags = w.flags
      ∧ ((dep cfg budget c a fuel i nak has acc w).1 = .ok ()
         ∨ (∃ n, (dep cfg budget c a fuel i nak has acc w).1 = .error (.tagCmd n) ∧ a.refuses n)
         ∨ (dep cfg budget c a fuel i nak has acc w).1 = .error .outOfFuel
         ∨ (cfg.fixT4 = false ∧ ∃ f, (dep cfg budget c a fuel i nak has acc w).1 = .error (Fault.exc f))))
    ∨ (∃ n, (dep cfg budget c a fuel i nak has acc w).1 = .error (.tagCmd n)
        ∧ (dep cfg budget c a fuel i nak has acc w).2.flags = { w.flags with sticky := some n }) := by
  intro fuel
  induction fuel with
  | zero => intro i nak has acc w; left; exact ⟨rfl, Or.inr (Or.inr (Or.inl rfl))⟩
  | succ fuel ih =>
    intro i nak has acc w
    unfold dep
    generalize hp : nextAtt w = p
    obtain ⟨att, w1⟩ := p
    have hf1 : w1.flags = w.flags := by have := nextAtt_flags w; rw [hp] at this; exact this
    have done_ : ∀ (w2 : World) (l), w2.flags = w.flags →
        ((depDone c a w2 l).2.flags = w.flags
          ∧ ((depDone c a w2 l).1 = .ok ()
             ∨ (∃ n, (depDone c a w2 l).1 = .error (.tagCmd n) ∧ a.refuses n)
             ∨ (depDone c a w2 l).1 = .error .outOfFuel
             ∨ (cfg.fixT4 = false ∧ ∃ f, (depDone c a w2 l).1 = .error (Fault.exc f))))
        ∨ (∃ n, (depDone c a w2 l).1 = .error (.tagCmd n)
            ∧ (depDone c a w2 l).2.flags = { w.flags with sticky := some n }) := by
      intro w2 l h2
      left
      unfold depDone
      cases a with
      | ok => exact ⟨by simp [h2], Or.inl rfl⟩
      | mute => exact ⟨by simp [h2], Or.inl rfl⟩
      | refuse e => exact ⟨by simp [h2], Or.inr (Or.inl ⟨e, rfl, Or.inl rfl⟩)⟩
      | nak => exact ⟨by simp [h2], Or.inr (Or.inl ⟨2, rfl, Or.inr ⟨rfl, rfl⟩⟩)⟩
    have failcase : ∀ (f : Fault) (has' : Bool) (x : Att × Bool) (w2 : World), w2.flags = w.flags →
        (((match depFail cfg budget i f with
              | some e => ((Except.error e : Py Unit), (w2.push c (acc ++ [x])).stick e)
              | none => dep cfg budget c a fuel (i+1) true has' (acc ++ [x]) w2).2.flags = w.flags
          ∧ ((match depFail cfg budget i f with
              | some e => ((Except.error e : Py Unit), (w2.push c (acc ++ [x])).stick e)
              | none => dep cfg budget c a fuel (i+1) true has' (acc ++ [x]) w2).1 = .ok ()
             ∨ (∃ n, (match depFail cfg budget i f with
              | some e => ((Except.error e : Py Unit), (w2.push c (acc ++ [x])).stick e)
              | none => dep cfg budget c a fuel (i+1) true has' (acc ++ [x]) w2).1 = .error (.tagCmd n) ∧ a.refuses n)
             ∨ (match depFail cfg budget i f with
              | some e => ((Except.error e : Py Unit), (w2.push c (acc ++ [x])).stick e)
              | none => dep cfg budget c a fuel (i+1) true has' (acc ++ [x]) w2).1 = .error .outOfFuel
             ∨ (cfg.fixT4 = false ∧ ∃ f', (match depFail cfg budget i f with
              | some e => ((Except.error e : Py Unit), (w2.push c (acc ++ [x])).stick e)
              | none => dep cfg budget c a fuel (i+1) true has' (acc ++ [x]) w2).1 = .error (Fault.exc f'))))
        ∨ (∃ n, (match depFail cfg budget i f with
              | some e => ((Except.error e : Py Unit), (w2.push c (acc ++ [x])).stick e)
              | none => dep cfg budget c a fuel (i+1) true has' (acc ++ [x]) w2).1 = .error (.tagCmd n)
            ∧ (match depFail cfg budget i f with
              | some e => ((Except.error e : Py Unit), (w2.push c (acc ++ [x])).stick e)
              | none => dep cfg budget c a fuel (i+1) true has' (acc ++ [x]) w2).2.flags = { w.flags with sticky := some n })) := by
      intro f has' x w2 h2
      rcases depFail_cases cfg budget i f with ⟨h, _, _⟩ | ⟨m, h⟩ | ⟨hc, h⟩
      · rw [h]; simp only []
        have := ih (i+1) true has' (acc ++ [x]) w2
        rw [h2] at this; exact this
      · rw [h]; right; exact ⟨m, rfl, by simp [World.stick, World.flags, World.push] at h2 ⊢; simp [h2]⟩
      · rw [h]; left
        refine ⟨?_, Or.inr (Or.inr (Or.inr ⟨hc, f, rfl⟩))⟩
        cases f <;> simp [World.stick, Fault.exc, h2]
    cases att with
    | flt f r =>
      simp only []
      exact failcase f _ _ _ (by split <;> simp [hf1])
    | ans =>
      simp only []
      split
      · exact failcase .timeout _ _ _ hf1
      · split
        · split
          · exact done_ _ _ hf1
          · have := ih (i+1) false has (acc ++ [(.ans, false)]) w1
            rw [hf1] at this; exact this
        · exact done_ _ _ (by simp [hf1])
    | short s =>
      simp only []
      split
      · exact failcase .timeout _ _ _ hf1
      · split
        · split
          · exact done_ _ _ hf1
          · have := ih (i+1) false has (acc ++ [(.short s, false)]) w1
            rw [hf1] at this; exact this
        · exact done_ _ _ (by simp [hf1])




/-! ## frames of the other primitives -/


theorem answered_frame (c : Cmd) (a : Rsp) (x) (acc) (w : World) :
    (answered c a x acc w).2.sticky = w.sticky := by
  unfold answered World.reactivate World.sense
  split <;> (try rfl)
  split <;> rfl

/-- the retry loop does not touch the ISO-DEP error memory -/
theorem loop_sticky (cfg : Cfg) (k : PrimKind) (idm : Bool) (c : Cmd) (a0 : Ans) :
    ∀ (n : Nat) (last : Option Fault) (acc : List (Att × Bool)) (w : World),
    (loop cfg k idm c a0 n last acc w).2.sticky = w.sticky := by
  intro n
  induction n with
  | zero => intro last acc w; rfl
  | succ n ih =>
    intro last acc w
    unfold loop
    generalize a0.eff (executed acc) = a
    generalize hp : nextAtt w = p
    obtain ⟨att, w1⟩ := p
    have h1 : w1.sticky = w.sticky := by
      have := congrArg Flags.sticky (nextAtt_flags w); rw [hp] at this; exact this
    have hx : ∀ (a : Rsp), (w1.exec c a).sticky = w.sticky := by
      intro a; have := congrArg Flags.sticky (exec_flags w1 c a); exact this.trans h1
    cases att with
    | ans =>
      cases a with
      | mute => simp only []; rw [ih]; exact hx _
      | ok => simp only []; rw [answered_frame]; exact hx _
      | refuse e => simp only []; rw [answered_frame]; exact hx _
      | nak => simp only []; rw [answered_frame]; exact hx _
    | flt f r =>
      simp only []; rw [ih]; split
      · exact hx _
      · exact h1
    | short s =>
      cases a with
      | mute => simp only []; rw [ih]; exact hx _
      | ok => simp only []; split; exact hx _; rw [answered_frame]; exact hx _
      | refuse e => simp only []; split; exact hx _; rw [answered_frame]; exact hx _
      | nak => simp only []; split; exact hx _; rw [answered_frame]; exact hx _

theorem rawx_flags (c : Cmd) (a : Rsp) (w : World) : (rawx c a w).2.flags = w.flags := by
  unfold rawx
  generalize hp : nextAtt w = p
  obtain ⟨att, w1⟩ := p
  have hf1 : w1.flags = w.flags := by have := nextAtt_flags w; rw [hp] at this; exact this
  cases att with
  | flt f r => simp only []; split <;> simp [hf1]
  | ans => cases a <;> simp [hf1]
  | short s => cases a <;> simp [hf1]

theorem dep_lostgone (cfg : Cfg) (budget : Nat) (c : Cmd) (a : Rsp) (fuel i : Nat) (nak has : Bool) (acc) (w : World) :
    (dep cfg budget c a fuel i nak has acc w).2.lost = w.lost ∧ (dep cfg budget c a fuel i nak has acc w).2.gone = w.gone := by
  rcases dep_flags cfg budget c a fuel i nak has acc w with ⟨h, _⟩ | ⟨n, _, h⟩
  · exact ⟨congrArg Flags.lost h, congrArg Flags.gone h⟩
  · exact ⟨congrArg Flags.lost h, congrArg Flags.gone h⟩

/-! ## command programs -/

/-- outcome allowed by the property: a value or a TagCommandError -/
def Documented : Outcome → Prop
  | .ok _ => True
  | .exc e => ∃ m, e = .tagCmd m

/-- the retry loops of Type 1/2 and Type 3 -/
def LoopKind (k : PrimKind) : Prop := k = .t12 ∨ k = .t3
/-- primitives of the repaired code that cope with every CommunicationError class -/
def Robust (k : PrimKind) : Prop := k = .t3 ∨ k = .t4 ∨ k = .raw

/-- side conditions of a call: retry loops have a budget of 1..3 attempts, the bare exchange
(Type 4 presence check) sits in a `try ... except CommunicationError` -/
def PrimSide (p : Prim) (ct : Catch) : Prop :=
  (LoopKind p.kind → 0 < p.budget ∧ p.budget ≤ 3) ∧ (p.kind = .raw → ct = .commErr)

/-- a program over primitives of kinds `S` that raises nothing but TagCommandError by itself
(a re-activation by `clf.sense` belongs to the Type 2 programs) -/
def Clean (S : PrimKind → Prop) : Prog → Prop
  | .ret _ => True
  | .crash e => ∃ m, e = .tagCmd m
  | .reraise => True
  | .caseErr z n p => Clean S (z ()) ∧ Clean S (n ()) ∧ Clean S (p ())
  | .call p _ _ ct ok err => S p.kind ∧ PrimSide p ct ∧ Clean S (ok ()) ∧ Clean S (err ())
  | .sense f g => S .t12 ∧ Clean S (f ()) ∧ Clean S (g ())

def PolClean (S : PrimKind → Prop) : Pol → Prop
  | .goto p => Clean S (p ())
  | _ => True

def Pol.isRaise : Pol → Bool
  | .raise => true
  | _ => false

theorem rawx_safe (c : Cmd) (a : Rsp) (w : World) :
    (∀ e, (rawx c a w).1 = .error e → (∃ m, e = .tagCmd m) ∨ ∃ n, Catch.commErr.catches e = some n)
    ∧ (Benign w → Benign (rawx c a w).2) := by
  unfold rawx
  generalize hp : nextAtt w = p
  obtain ⟨att, w1⟩ := p
  have hb1 : Benign w → Benign w1 := fun hb => (benign_next hp hb).1
  cases att with
  | flt f r =>
    refine ⟨?_, fun hb => benign_push _ _ (benign_ite _ _ _ (hb1 hb))⟩
    intro e he
    simp only [] at he
    cases he
    right
    cases f <;> exact ⟨_, rfl⟩
  | ans =>
    cases a with
    | ok => exact ⟨(by intro e he; cases he), fun hb => benign_push _ _ (show Benign (w1.apply c) from hb1 hb)⟩
    | refuse e0 => exact ⟨(by intro e he; cases he; exact Or.inl ⟨_, rfl⟩), fun hb => benign_push _ _ (hb1 hb)⟩
    | nak => exact ⟨(by intro e he; cases he; exact Or.inl ⟨_, rfl⟩), fun hb => benign_push _ _ (hb1 hb)⟩
    | mute => exact ⟨(by intro e he; cases he; exact Or.inr ⟨_, rfl⟩), fun hb => benign_push _ _ (hb1 hb)⟩
  | short s =>
    cases a with
    | ok => exact ⟨(by intro e he; cases he), fun hb => benign_push _ _ (show Benign (w1.apply c) from hb1 hb)⟩
    | refuse e0 => exact ⟨(by intro e he; cases he; exact Or.inl ⟨_, rfl⟩), fun hb => benign_push _ _ (hb1 hb)⟩
    | nak => exact ⟨(by intro e he; cases he; exact Or.inl ⟨_, rfl⟩), fun hb => benign_push _ _ (hb1 hb)⟩
    | mute => exact ⟨(by intro e he; cases he; exact Or.inr ⟨_, rfl⟩), fun hb => benign_push _ _ (hb1 hb)⟩

theorem sound_of_flags {w w' : World} (hl : w'.lost = w.lost) (hg : w'.gone = w.gone) (hs : Sound w) : Sound w' := by
  unfold Sound at *; rw [hl, hg]; exact hs

/-- repaired code: what a primitive can raise; the tag object stays sound -/
theorem prim_safe (p : Prim) (c : Cmd) (a : Ans) (w : World) (hl : LoopKind p.kind → 0 < p.budget)
    (hs : Robust p.kind ∨ Benign w) (hsd : Sound w) :
    (∀ e, (prim Cfg.repaired p c a w).1 = .error e →
        (∃ m, e = .tagCmd m) ∨ (p.kind = .raw ∧ ∃ n, Catch.commErr.catches e = some n))
    ∧ (Benign w → Benign (prim Cfg.repaired p c a w).2)
    ∧ Sound (prim Cfg.repaired p c a w).2 := by
  unfold prim
  cases hk : p.kind with
  | t12 =>
    simp only []
    have hb : Benign w := by
      rcases hs with h | h
      · rw [hk] at h; rcases h with h | h | h <;> cases h
      · exact h
    split
    · exact ⟨(by intro e he; cases he; exact Or.inl ⟨_, rfl⟩), fun h => h, hsd⟩
    · rename_i hg
      split
      · rename_i hlost; exact absurd (hsd hlost) hg
      · have := loop_safe .t12 p.idm c a p.budget none [] w
          (fun h0 => by have := hl (by rw [hk]; exact Or.inl rfl); omega) (Or.inr hb)
        exact ⟨fun e he => Or.inl (this.1 e he), this.2.1, this.2.2 hsd⟩
  | t3 =>
    simp only []
    have := loop_safe .t3 p.idm c a p.budget none [] w
      (fun h0 => by have := hl (by rw [hk]; exact Or.inr rfl); omega) (Or.inl rfl)
    exact ⟨fun e he => Or.inl (this.1 e he), this.2.1, this.2.2 hsd⟩
  | t4 =>
    simp only []
    split
    · exact ⟨(by intro e he; cases he; exact Or.inl ⟨_, rfl⟩), fun h => h, hsd⟩
    · obtain ⟨h1, h2, _⟩ := dep_spec Cfg.repaired p.budget c (a.eff false) (p.budget + 3) 1 false false [] w
        (by omega) (by intro h; cases h) (by omega) (by simp)
      obtain ⟨g1, g2⟩ := dep_lostgone Cfg.repaired p.budget c (a.eff false) (p.budget + 3) 1 false false [] w
      refine ⟨fun e he => ?_, h2, sound_of_flags g1 g2 hsd⟩
      rcases h1 e he with h | ⟨h, _⟩
      · exact Or.inl h
      · cases h
  | raw =>
    simp only []
    have := rawx_safe c (a.eff false) w
    have hf := rawx_flags c (a.eff false) w
    refine ⟨fun e he => ?_, this.2, sound_of_flags (congrArg Flags.lost hf) (congrArg Flags.gone hf) hsd⟩
    rcases this.1 e he with h | h
    · exact Or.inl h
    · exact Or.inr ⟨trivial, h⟩

/-- **a clean program ends with a value or a TagCommandError**: for every fault script when all
its primitives are robust ones (Type 3, ISO-DEP, presence check), otherwise for every script of
the three known classes; the script stays benign and the tag object sound (so the statement
carries over to the next operation on the same object) -/
theorem run_inv (S : PrimKind → Prop) (robust : Prop) (hR : robust → ∀ k, S k → Robust k) :
    ∀ (P : Prog) (cur : Int) (w : World), Clean S P → (robust ∨ Benign w) → Sound w →
    Documented (run Cfg.repaired P cur w).1 ∧ (Benign w → Benign (run Cfg.repaired P cur w).2)
      ∧ Sound (run Cfg.repaired P cur w).2 := by
  intro P
  induction P with
  | ret v => intro cur w _ _ hs; exact ⟨by simp [run, Documented], fun h => h, hs⟩
  | crash e => intro cur w hc _ hs; exact ⟨by simp only [run, Documented]; exact hc, fun h => h, hs⟩
  | reraise => intro cur w _ _ hs; exact ⟨by simp [run, Documented], fun h => h, hs⟩
  | caseErr z n p ihz ihn ihp =>
    intro cur w hc hw hs
    obtain ⟨hz, hn, hp⟩ := hc
    unfold run
    split
    · exact ihz () cur w hz hw hs
    · split
      · exact ihn () cur w hn hw hs
      · exact ihp () cur w hp hw hs
  | call p c a ct ok err ihok iherr =>
    intro cur w hc hw hsd
    obtain ⟨hk, ⟨hl, hraw⟩, hok, herr⟩ := hc
    have hs : Robust p.kind ∨ Benign w := hw.imp (fun h => hR h _ hk) id
    have hps := prim_safe p c a w (fun h => (hl h).1) hs hsd
    have hw' : robust ∨ Benign (prim Cfg.repaired p c a w).2 := hw.imp id hps.2.1
    unfold run
    generalize hr : prim Cfg.repaired p c a w = r at hps hw'
    obtain ⟨res, w'⟩ := r
    have lift : ∀ {o : Outcome × World}, (Documented o.1 ∧ (Benign w' → Benign o.2) ∧ Sound o.2) →
        (Documented o.1 ∧ (Benign w → Benign o.2) ∧ Sound o.2) :=
      fun h => ⟨h.1, fun hb => h.2.1 (hps.2.1 hb), h.2.2⟩
    cases res with
    | ok u => exact lift (ihok () cur w' hok hw' hps.2.2)
    | error e =>
      simp only []
      rcases hps.1 e rfl with ⟨m, hm⟩ | ⟨hkr, n, hn⟩
      · split
        · rename_i n _; exact lift (iherr () n w' herr hw' hps.2.2)
        · exact ⟨by simp [Documented, hm], hps.2.1, hps.2.2⟩
      · rw [hraw hkr, hn]
        exact lift (iherr () n w' herr hw' hps.2.2)
  | sense f g ihf ihg =>
    intro cur w hc hw hsd
    obtain ⟨_, hf, hg⟩ := hc
    have hw' : robust ∨ Benign w.reactivate.2 := hw.imp id benign_reactivate
    have lift : ∀ {o : Outcome × World}, (Documented o.1 ∧ (Benign w.reactivate.2 → Benign o.2) ∧ Sound o.2) →
        (Documented o.1 ∧ (Benign w → Benign o.2) ∧ Sound o.2) :=
      fun h => ⟨h.1, fun hb => h.2.1 (benign_reactivate hb), h.2.2⟩
    unfold run
    split
    · exact lift (ihf () cur _ hf hw' (sound_reactivate w))
    · exact lift (ihg () cur _ hg hw' (sound_reactivate w))

theorem run_documented (S : PrimKind → Prop) (robust : Prop) (hR : robust → ∀ k, S k → Robust k)
    (P : Prog) (cur : Int) (w : World) (hc : Clean S P) (hw : robust ∨ Benign w) (hs : Sound w) :
    Documented (run Cfg.repaired P cur w).1 := (run_inv S robust hR P cur w hc hw hs).1




theorem polProg_clean (S) (pol : Pol) (next : Unit → Prog) (hpol : PolClean S pol) (hn : Clean S (next ())) :
    Clean S (polProg pol next ()) := by
  cases pol <;> simp_all [polProg, Clean, PolClean]

theorem chain_clean (S : PrimKind → Prop) (p : Prim) (ct : Catch) (pol : Pol)
    (hp : S p.kind) (hl : LoopKind p.kind → 0 < p.budget ∧ p.budget ≤ 3)
    (hr : p.kind = .raw → ct = .commErr ∧ pol.isRaise = false) (hpol : PolClean S pol) :
    ∀ (ss : List Step) (fin : Unit → Prog), Clean S (fin ()) → Clean S (chain Cfg.repaired p ct pol ss fin) := by
  intro ss
  induction ss with
  | nil => intro fin h; simpa [chain] using h
  | cons s ss ih =>
    intro fin h
    have hn := ih fin h
    unfold chain
    simp only []
    split
    · rename_i hc
      have h12 : S .t12 := by rw [← hc.2]; exact hp
      refine ⟨h12, ⟨fun _ => ⟨by decide, by decide⟩, fun h => by cases h⟩, ?_, ?_⟩
      · cases pol <;> simp_all [polProg, Clean, PolClean]
      · refine ⟨hn, ?_, ?_⟩ <;> simpa [Cfg.repaired] using polProg_clean S pol _ hpol hn
    · refine ⟨hp, ⟨hl, fun h => ?_⟩, hn, polProg_clean S pol _ hpol hn⟩
      obtain ⟨h1, h2⟩ := hr h
      cases pol <;> simp_all [Pol.isRaise]

/-- retry loop -/
theorem chain_clean_loop (S : PrimKind → Prop) (p : Prim) (ct : Catch) (pol : Pol)
    (hk : LoopKind p.kind) (hp : S p.kind) (hb : 0 < p.budget) (hb3 : p.budget ≤ 3) (hpol : PolClean S pol)
    (ss : List Step) (fin : Unit → Prog) (h : Clean S (fin ())) : Clean S (chain Cfg.repaired p ct pol ss fin) :=
  chain_clean S p ct pol hp (fun _ => ⟨hb, hb3⟩)
    (fun h => by rcases hk with h' | h' <;> rw [h'] at h <;> cases h) hpol ss fin h

/-- ISO-DEP exchange, any retry budget -/
theorem chain_clean_t4 (S : PrimKind → Prop) (n : Nat) (b : Bool) (ct : Catch) (pol : Pol)
    (hp : S .t4) (hpol : PolClean S pol)
    (ss : List Step) (fin : Unit → Prog) (h : Clean S (fin ())) :
    Clean S (chain Cfg.repaired ⟨.t4, n, b⟩ ct pol ss fin) :=
  chain_clean S ⟨.t4, n, b⟩ ct pol hp (fun h => by rcases h with h | h <;> cases h) (fun h => by cases h) hpol ss fin h

/-- bare exchange inside `try ... except CommunicationError: return v` -/
theorem chain_clean_raw (S : PrimKind → Prop) (n : Nat) (b : Bool) (v : Val)
    (hp : S .raw) (ss : List Step) (fin : Unit → Prog) (h : Clean S (fin ())) :
    Clean S (chain Cfg.repaired ⟨.raw, n, b⟩ .commErr (.ret v) ss fin) :=
  chain_clean S ⟨.raw, n, b⟩ .commErr (.ret v) hp (fun h => by rcases h with h | h <;> cases h)
    (fun _ => ⟨rfl, rfl⟩) trivial ss fin h

/-! ## log invariant: answered attempts are last -/

/-- attempts of one primitive call: failures, then at most one further attempt -/
def InvOK (bound : Nat) (atts : List (Att × Bool)) : Prop :=
  ∃ fails tail, atts = fails ++ tail ∧ (∀ x ∈ fails, isAnswered x = false) ∧ tail.length ≤ 1
    ∧ fails.length + tail.length ≤ bound

def LogOK (log : List Inv) : Prop := ∀ inv ∈ log, InvOK 3 inv.atts

theorem prim_log (cfg : Cfg) (p : Prim) (c : Cmd) (a : Ans) (w : World) (hk : LoopKind p.kind) (hb3 : p.budget ≤ 3)
    (hw : LogOK w.log) : LogOK (prim cfg p c a w).2.log := by
  have key : ∀ k, LogOK (loop cfg k p.idm c a p.budget none [] w).2.log := by
    intro k
    obtain ⟨f, t, h1, h2, h3, h4⟩ := loop_log cfg k p.idm c a p.budget none [] w
    rw [h1]
    intro inv hm
    rcases List.mem_append.mp hm with h | h
    · exact hw inv h
    · simp at h; subst h
      exact ⟨f, t, by simp, h2, h3, by omega⟩
  unfold prim
  rcases hk with h | h <;> rw [h] <;> simp only []
  · split
    · exact hw
    · split
      · exact hw
      · exact key _
  · exact key _


theorem run_log (cfg : Cfg) (S : PrimKind → Prop) (hS : ∀ k, S k → LoopKind k) :
    ∀ (P : Prog) (cur : Int) (w : World), Clean S P → LogOK w.log → LogOK (run cfg P cur w).2.log := by
  intro P
  induction P with
  | ret v => intro cur w _ h; simpa [run] using h
  | crash e => intro cur w _ h; simpa [run] using h
  | reraise => intro cur w _ h; simpa [run] using h
  | caseErr z n p ihz ihn ihp =>
    intro cur w hc hw
    obtain ⟨hz, hn, hp⟩ := hc
    unfold run
    split
    · exact ihz () cur w hz hw
    · split
      · exact ihn () cur w hn hw
      · exact ihp () cur w hp hw
  | call p c a ct ok err ihok iherr =>
    intro cur w hc hw
    obtain ⟨hk, ⟨hl, _⟩, hok, herr⟩ := hc
    have hl' := prim_log cfg p c a w (hS _ hk) (hl (hS _ hk)).2 hw
    unfold run
    generalize hr : prim cfg p c a w = r at hl'
    obtain ⟨res, w'⟩ := r
    cases res with
    | ok u => exact ihok () cur w' hok hl'
    | error e =>
      simp only []
      split
      · rename_i n _; exact iherr () n w' herr hl'
      · exact hl'
  | sense f g ihf ihg =>
    intro cur w hc hw
    obtain ⟨_, hf, hg⟩ := hc
    unfold run
    split
    · exact ihf () cur _ hf (by rw [reactivate_log]; exact hw)
    · exact ihg () cur _ hg (by rw [reactivate_log]; exact hw)

/-! ## the programs of the operations are clean -/

theorem fixF17_rep : Cfg.repaired.fixF17 = true := rfl

theorem sense_clean (S : PrimKind → Prop) (f g : Unit → Prog) (h12 : S .t12) (hf : Clean S (f ())) (hg : Clean S (g ())) :
    Clean S (.sense f g) := ⟨h12, hf, hg⟩

macro "clean_tac" : tactic => `(tactic| repeat' (first
  | exact trivial
  | exact Or.inl rfl
  | exact Or.inr rfl
  | exact Or.inr (Or.inl rfl)
  | exact Or.inr (Or.inr rfl)
  | exact rfl
  | decide
  | apply chain_clean_t4
  | apply chain_clean_raw
  | apply chain_clean_loop
  | apply sense_clean
  | (show Clean _ _; dsimp only [fin])
  ))

/-- every operation of every family -/
theorem prog_clean_all (tlv : Bool) (fam op : String) (l : Phases) (v : Val) (nret : Nat) (P : Prog)
    (h : prog Cfg.repaired tlv fam op l v nret = some P) : Clean (fun _ => True) P := by
  cases tlv <;>
  (unfold prog at h
   simp only [fixF17_rep, if_true, Bool.false_eq_true, if_false] at h
   split at h <;> (cases h; clean_tac))

/-- the Type 1/2/3 families only use the retry loops -/
theorem prog_clean (tlv : Bool) (fam op : String) (l : Phases) (v : Val) (nret : Nat) (P : Prog)
    (h : prog Cfg.repaired tlv fam op l v nret = some P) (h4 : fam ≠ "t4") : Clean LoopKind P := by
  cases tlv <;>
  (unfold prog at h
   simp only [fixF17_rep, if_true, Bool.false_eq_true, if_false] at h
   split at h <;> first
     | exact absurd rfl h4
     | (cases h; clean_tac))

/-- the Type 3 and Type 4 families only use robust primitives -/
theorem prog_clean_robust (tlv : Bool) (fam op : String) (l : Phases) (v : Val) (nret : Nat) (P : Prog)
    (h : prog Cfg.repaired tlv fam op l v nret = some P)
    (hf : fam = "t3" ∨ fam = "t3p" ∨ fam = "t3std" ∨ fam = "lite" ∨ fam = "lites" ∨ fam = "t4") : Clean Robust P := by
  cases tlv <;>
  (unfold prog at h
   simp only [fixF17_rep, if_true, Bool.false_eq_true, if_false] at h
   split at h <;> first
     | (exfalso; revert hf; decide)
     | (cases h; clean_tac))

/-- the Type 4 family only uses the ISO-DEP exchange, except for the presence check -/
theorem prog_clean_t4 (tlv : Bool) (fam op : String) (l : Phases) (v : Val) (nret : Nat) (P : Prog)
    (h : prog Cfg.repaired tlv fam op l v nret = some P) (hf : fam = "t4") (hp : op ≠ "present") :
    Clean (fun k => k = .t4) P := by
  cases tlv <;>
  (unfold prog at h
   simp only [fixF17_rep, if_true, Bool.false_eq_true, if_false] at h
   split at h <;> first
     | exact absurd rfl hp
     | (exfalso; revert hf; decide)
     | (cases h; clean_tac))

theorem side_t3p (b : Bool) (ct : Catch) : PrimSide (t3p b) ct :=
  ⟨fun _ => ⟨(by show 0 < 3; decide), (by show 3 ≤ 3; decide)⟩, fun h => by cases h⟩


section t3format
variable (S : PrimKind → Prop) (h3 : S .t3) (cfg : Cfg) (t : T3Tag)
include h3

theorem t3Wipe_clean : ∀ n, Clean S (t3Wipe cfg t n) := by
  intro n
  induction n with
  | zero => exact trivial
  | succ n ih => unfold t3Wipe; exact ⟨h3, side_t3p _ _, ih, trivial⟩

theorem t3Nbw_clean (wipe : Bool) (nmaxb : Nat) : ∀ fuel nbw, Clean S (t3Nbw cfg t wipe nmaxb fuel nbw) := by
  intro fuel
  induction fuel with
  | zero => intro _; exact trivial
  | succ fuel ih =>
    intro nbw
    have hattr : Clean S (.call (t3p true) (wrTok 0 1) .ok .nothing
        (fun _ => if wipe then t3Wipe cfg t nmaxb else .ret .true_) (fun _ => .reraise)) := by
      refine ⟨h3, side_t3p _ _, ?_, trivial⟩
      show Clean S (if wipe = true then _ else _)
      split
      · exact t3Wipe_clean S h3 cfg t nmaxb
      · exact trivial
    unfold t3Nbw
    simp only []
    split
    · exact hattr
    · exact ⟨h3, side_t3p _ _, ih _, hattr⟩

theorem t3Nbr_clean (wipe : Bool) (nmaxb : Nat) : ∀ fuel nbr, Clean S (t3Nbr cfg t wipe nmaxb fuel nbr) := by
  intro fuel
  induction fuel with
  | zero => intro _; exact trivial
  | succ fuel ih =>
    intro nbr
    have hafter : Clean S (.call (t3p true) (rdTok 0 1) .ok .nothing
        (fun _ => t3Nbw cfg t wipe nmaxb 14 1) (fun _ => .reraise)) :=
      ⟨h3, side_t3p _ _, t3Nbw_clean S h3 cfg t wipe nmaxb 14 1, trivial⟩
    unfold t3Nbr
    simp only []
    split
    · exact hafter
    · exact ⟨h3, side_t3p _ _, ih _, hafter⟩

theorem t3Search_clean (wipe : Bool) : ∀ fuel lo hi, Clean S (t3Search cfg t wipe fuel lo hi) := by
  intro fuel
  induction fuel with
  | zero => intro lo _; unfold t3Search; exact t3Nbr_clean S h3 cfg t wipe lo 16 1
  | succ fuel ih =>
    intro lo hi
    unfold t3Search
    split
    · exact ⟨h3, side_t3p _ _, ih _ _, ih _ _⟩
    · exact t3Nbr_clean S h3 cfg t wipe lo 16 1

theorem t3Format_clean (wipe : Bool) : Clean S (t3Format cfg t wipe) :=
  ⟨h3, side_t3p _ _, t3Search_clean S h3 cfg t wipe 17 0 0x10000, trivial⟩
end t3format



/-! ## programs that do not re-activate the tag by themselves -/

/-- no `clf.sense` is reached as long as every command fails -/
def Quiet : Prog → Prop
  | .ret _ => True
  | .crash _ => True
  | .reraise => True
  | .caseErr z n p => Quiet (z ()) ∧ Quiet (n ()) ∧ Quiet (p ())
  | .call _ _ _ _ _ err => Quiet (err ())
  | .sense _ _ => False

def PolQuiet : Pol → Prop
  | .goto p => Quiet (p ())
  | _ => True

theorem polProg_quiet (pol : Pol) (next : Unit → Prog) (hpol : PolQuiet pol) (hn : Quiet (next ())) :
    Quiet (polProg pol next ()) := by
  cases pol <;> simp_all [polProg, Quiet, PolQuiet]

theorem chain_quiet (cfg : Cfg) (p : Prim) (ct : Catch) (pol : Pol) (hpol : PolQuiet pol) :
    ∀ (ss : List Step) (fin : Unit → Prog), Quiet (fin ()) → Quiet (chain cfg p ct pol ss fin) := by
  intro ss
  induction ss with
  | nil => intro fin h; simpa [chain] using h
  | cons s ss ih =>
    intro fin h
    have hn := ih fin h
    unfold chain
    simp only []
    split
    · refine ⟨hn, ?_, ?_⟩ <;> (split; exact polProg_quiet pol _ hpol hn; trivial)
    · exact polProg_quiet pol _ hpol hn

macro "quiet_tac" : tactic => `(tactic| repeat' (first
  | exact trivial
  | apply chain_quiet
  | (show Quiet _; dsimp only [fin])
  ))

/-- every operation except the two that re-activate the tag themselves (`protect` with a password on
Ultralight C and NTAG21x) reaches `clf.sense` only through an answered READ -/
theorem prog_quiet (cfg : Cfg) (tlv : Bool) (fam op : String) (l : Phases) (v : Val) (nret : Nat) (P : Prog)
    (h : prog cfg tlv fam op l v nret = some P) (hop : op ≠ "protectpw") : Quiet P := by
  cases tlv <;> cases hc : cfg.fixF17 <;>
  (unfold prog at h
   simp only [hc, if_true, Bool.false_eq_true, if_false] at h
   split at h <;> first
     | exact absurd rfl hop
     | (cases h; quiet_tac))

/-- the Type 1 / Type 2 families only use `transceive` -/
theorem prog_clean_t12 (tlv : Bool) (fam op : String) (l : Phases) (v : Val) (nret : Nat) (P : Prog)
    (h : prog Cfg.repaired tlv fam op l v nret = some P)
    (hf : fam = "t1" ∨ fam = "t2" ∨ fam = "t2nxp" ∨ fam = "t2ulc" ∨ fam = "t2ntag" ∨ fam = "t2i2c") :
    Clean (fun k => k = .t12) P := by
  cases tlv <;>
  (unfold prog at h
   simp only [fixF17_rep, if_true, Bool.false_eq_true, if_false] at h
   split at h <;> first
     | (exfalso; revert hf; decide)
     | (cases h; clean_tac))


/-! ## what the tag object remembers: nothing is sent after an unrecoverable error -/

/-- ISO-DEP: once a reason code is stored every command is refused with it, no frame is sent -/
theorem prim_t4_sticky (cfg : Cfg) (p : Prim) (c : Cmd) (a : Ans) (w : World) (e : Int)
    (hk : p.kind = .t4) (hs : w.sticky = some e) : prim cfg p c a w = (.error (.tagCmd e), w) := by
  unfold prim; rw [hk]; simp only [hs]

/-- Type 2: once the re-activation has failed every command ends with TIMEOUT_ERROR, nothing is sent -/
theorem prim_t12_gone (cfg : Cfg) (p : Prim) (c : Cmd) (a : Ans) (w : World)
    (hk : p.kind = .t12) (hg : w.gone = true) : prim cfg p c a w = (.error (.tagCmd 0), w) := by
  unfold prim; rw [hk]; simp only [hg, if_true]

/-- **an ISO-DEP command that fails for any reason but the card's own refusal is remembered**:
`prim` on a fresh initiator either leaves the error memory alone (normal end, status word error of the
card; as found also the unknown CommunicationError that is raised as it is) or ends with
TagCommandError(n) and stores `n` -/
theorem prim_t4_remembers (cfg : Cfg) (p : Prim) (c : Cmd) (a : Ans) (w : World)
    (hk : p.kind = .t4) (hs : w.sticky = none) :
    ((prim cfg p c a w).2.sticky = none
      ∧ ((prim cfg p c a w).1 = .ok ()
         ∨ (∃ n, (prim cfg p c a w).1 = .error (.tagCmd n) ∧ (a.eff false).refuses n)
         ∨ (cfg.fixT4 = false ∧ ∃ f, (prim cfg p c a w).1 = .error (Fault.exc f))))
    ∨ (∃ n, (prim cfg p c a w).1 = .error (.tagCmd n) ∧ (prim cfg p c a w).2.sticky = some n) := by
  unfold prim; rw [hk]; simp only [hs]
  have hfuel := (dep_spec cfg p.budget c (a.eff false) (p.budget + 3) 1 false false [] w
    (by omega) (by intro h; cases h) (by omega) (by simp)).1
  rcases dep_flags cfg p.budget c (a.eff false) (p.budget + 3) 1 false false [] w with ⟨h, hr⟩ | ⟨n, h1, h2⟩
  · left
    refine ⟨by have := congrArg Flags.sticky h; simpa [World.flags, hs] using this, ?_⟩
    rcases hr with h | h | h | h
    · exact Or.inl h
    · exact Or.inr (Or.inl h)
    · rcases hfuel _ h with ⟨m, hm⟩ | ⟨_, f, hf⟩
      · cases hm
      · cases f <;> cases hf
    · exact Or.inr (Or.inr h)
  · right; exact ⟨n, h1, by have := congrArg Flags.sticky h2; simpa [World.flags] using this⟩

/-- **silence**: when every primitive call of the kinds `S` fails in state `w` without changing it,
a quiet program over `S` leaves `w` as it is - no exchange, no log entry, nothing executed by the tag -/
theorem run_dead (cfg : Cfg) (S : PrimKind → Prop) (w : World)
    (hd : ∀ (p : Prim) (c : Cmd) (a : Ans), S p.kind → ∃ e, prim cfg p c a w = (.error e, w)) :
    ∀ (P : Prog) (cur : Int), Clean S P → Quiet P → (run cfg P cur w).2 = w := by
  intro P
  induction P with
  | ret v => intro cur _ _; rfl
  | crash e => intro cur _ _; rfl
  | reraise => intro cur _ _; rfl
  | caseErr z n p ihz ihn ihp =>
    intro cur hc hq
    unfold run
    split
    · exact ihz () cur hc.1 hq.1
    · split
      · exact ihn () cur hc.2.1 hq.2.1
      · exact ihp () cur hc.2.2 hq.2.2
  | call p c a ct ok err ihok iherr =>
    intro cur hc hq
    obtain ⟨e, he⟩ := hd p c a hc.1
    unfold run
    rw [he]
    simp only []
    split
    · rename_i n _; exact iherr () n hc.2.2.2 hq
    · rfl
  | sense f g ihf ihg => intro cur _ hq; exact absurd hq (by simp [Quiet])

/-- a program without `clf.sense` is quiet -/
theorem quiet_of_t4 : ∀ (P : Prog), Clean (fun k => k = .t4) P → Quiet P := by
  intro P
  induction P with
  | ret v => intro _; trivial
  | crash e => intro _; trivial
  | reraise => intro _; trivial
  | caseErr z n p ihz ihn ihp => intro hc; exact ⟨ihz () hc.1, ihn () hc.2.1, ihp () hc.2.2⟩
  | call p c a ct ok err ihok iherr => intro hc; exact iherr () hc.2.2.2
  | sense f g ihf ihg => intro hc; exact absurd hc.1 (by decide)

/-- **ISO-DEP: no further frame after an unrecoverable error** -/
theorem run_t4_sticky (cfg : Cfg) (P : Prog) (cur : Int) (w : World) (e : Int)
    (hc : Clean (fun k => k = .t4) P) (hs : w.sticky = some e) : (run cfg P cur w).2 = w :=
  run_dead cfg _ w (fun p c a hk => ⟨_, prim_t4_sticky cfg p c a w e hk hs⟩) P cur hc (quiet_of_t4 P hc)

/-- **Type 2: no exchange once the target is gone** -/
theorem run_t12_gone (cfg : Cfg) (P : Prog) (cur : Int) (w : World)
    (hc : Clean (fun k => k = .t12) P) (hq : Quiet P) (hg : w.gone = true) : (run cfg P cur w).2 = w :=
  run_dead cfg _ w (fun p c a hk => ⟨_, prim_t12_gone cfg p c a w hk hg⟩) P cur hc hq

/-! ## sessions -/

theorem stepOp_inv (S : PrimKind → Prop) (robust : Prop) (hR : robust → ∀ k, S k → Robust k)
    (read : Prog) (o : SOp) (cached : Bool) (w : World)
    (hr : Clean S read) (hf : Clean S o.fresh) (hc : Clean S o.cached) (hw : robust ∨ Benign w) (hs : Sound w) :
    Documented (stepOp Cfg.repaired read o cached w).1
      ∧ (robust ∨ Benign (stepOp Cfg.repaired read o cached w).2.2)
      ∧ Sound (stepOp Cfg.repaired read o cached w).2.2 := by
  unfold stepOp
  split
  · have h1 := run_inv S robust hR read 0 w hr hw hs
    generalize run Cfg.repaired read 0 w = r at h1
    obtain ⟨out, w1⟩ := r
    have hw1 : robust ∨ Benign w1 := hw.imp id h1.2.1
    split
    · rename_i heq
      cases heq
      have h2 := run_inv S robust hR o.cached 0 w1 hc hw1 h1.2.2
      exact ⟨h2.1, hw1.imp id h2.2.1, h2.2.2⟩
    · rename_i heq; cases heq; exact ⟨trivial, hw1, h1.2.2⟩
    · rename_i heq; cases heq; exact ⟨h1.1, hw1, h1.2.2⟩
  · have h2 := run_inv S robust hR (if cached = true then o.cached else o.fresh) 0 w
      (by split; exact hc; exact hf) hw hs
    exact ⟨h2.1, hw.imp id h2.2.1, h2.2.2⟩

/-- **every operation of a session ends with a value or a TagCommandError** -/
theorem session_documented (S : PrimKind → Prop) (robust : Prop) (hR : robust → ∀ k, S k → Robust k)
    (read : Prog) (hr : Clean S read) :
    ∀ (ops : List SOp) (cached : Bool) (w : World),
    (∀ o ∈ ops, Clean S o.fresh ∧ Clean S o.cached) → (robust ∨ Benign w) → Sound w →
    ∀ out ∈ (session Cfg.repaired read ops cached w).1, Documented out := by
  intro ops
  induction ops with
  | nil => intro cached w _ _ _ out hm; simp [session] at hm
  | cons o os ih =>
    intro cached w hops hw hs out hm
    have ho := hops o List.mem_cons_self
    have h1 := stepOp_inv S robust hR read o cached w hr ho.1 ho.2 hw hs
    unfold session at hm
    simp only [List.mem_cons] at hm
    rcases hm with hm | hm
    · rw [hm]; exact h1.1
    · exact ih _ _ (fun o' hm' => hops o' (List.mem_cons_of_mem _ hm')) h1.2.1 h1.2.2 out hm

theorem stepOp_dead (cfg : Cfg) (S : PrimKind → Prop) (w : World)
    (hd : ∀ (p : Prim) (c : Cmd) (a : Ans), S p.kind → ∃ e, prim cfg p c a w = (.error e, w))
    (read : Prog) (o : SOp) (cached : Bool)
    (hr : Clean S read ∧ Quiet read) (hf : Clean S o.fresh ∧ Quiet o.fresh) (hc : Clean S o.cached ∧ Quiet o.cached) :
    (stepOp cfg read o cached w).2.2 = w := by
  unfold stepOp
  split
  · have h1 := run_dead cfg S w hd read 0 hr.1 hr.2
    generalize run cfg read 0 w = r at h1
    obtain ⟨out, w1⟩ := r
    simp only [] at h1
    subst h1
    split
    · rename_i heq; cases heq; exact run_dead cfg S _ hd o.cached 0 hc.1 hc.2
    · rename_i heq; cases heq; rfl
    · rename_i heq; cases heq; rfl
  · split
    · exact run_dead cfg S w hd o.cached 0 hc.1 hc.2
    · exact run_dead cfg S w hd o.fresh 0 hf.1 hf.2

/-- **a dead link stays silent over the whole session** -/
theorem session_dead (cfg : Cfg) (S : PrimKind → Prop) (w : World)
    (hd : ∀ (p : Prim) (c : Cmd) (a : Ans), S p.kind → ∃ e, prim cfg p c a w = (.error e, w))
    (read : Prog) (hr : Clean S read ∧ Quiet read) :
    ∀ (ops : List SOp) (cached : Bool),
    (∀ o ∈ ops, (Clean S o.fresh ∧ Quiet o.fresh) ∧ (Clean S o.cached ∧ Quiet o.cached)) →
    (session cfg read ops cached w).2 = w := by
  intro ops
  induction ops with
  | nil => intro _ _; rfl
  | cons o os ih =>
    intro cached hops
    have ho := hops o List.mem_cons_self
    unfold session
    simp only []
    rw [stepOp_dead cfg S w hd read o cached hr ho.1 ho.2]
    exact ih _ (fun o' hm' => hops o' (List.mem_cons_of_mem _ hm'))


end NfcVerif.Retry
