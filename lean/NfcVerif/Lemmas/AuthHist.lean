import NfcVerif.Model.AuthHist
import NfcVerif.Lemmas.Auth
/-!
# Histories: every call is decided by what arrives during that call

Step lemmas for the methods of `Model/AuthHist.lean`, for EVERY air interface (any card, any
attacker, any state) and EVERY state of the tag object, hence for every point of every history.
-/
namespace NfcVerif.AuthHist
open NfcVerif NfcVerif.Mac NfcVerif.Auth NfcVerif.AuthCard RW

variable {σ α β : Type}

theorem bind_apply (m : RW σ α) (f : α → RW σ β) (s : St σ) :
    (m >>= f) s = match m s with
      | (.ok a, s') => f a s'
      | (.error e, s') => (.error e, s') := rfl

theorem pure_apply (a : α) (s : St σ) : (pure a : RW σ α) s = (.ok a, s) := rfl

theorem bind_ok {m : RW σ α} {f : α → RW σ β} {s s'' : St σ} {b : β} :
    (m >>= f) s = (.ok b, s'') ↔ ∃ a s', m s = (.ok a, s') ∧ f a s' = (.ok b, s'') := by
  rw [bind_apply]
  rcases h : m s with ⟨r, s'⟩
  cases r with
  | error e => simp
  | ok a =>
    constructor
    · intro h2; exact ⟨a, s', rfl, h2⟩
    · rintro ⟨a', s1, h1, h2⟩
      injection h1 with h1 h3
      injection h1 with h1
      subst h1 h3
      exact h2

theorem bind_of_ok {m : RW σ α} {f : α → RW σ β} {s s' : St σ} {a : α} (h : m s = (.ok a, s')) :
    (m >>= f) s = f a s' := by
  rw [bind_apply, h]

theorem bind_of_error {m : RW σ α} {f : α → RW σ β} {s s' : St σ} {e : Exc} (h : m s = (.error e, s')) :
    (m >>= f) s = (.error e, s') := by
  rw [bind_apply, h]

theorem lift_apply (x : Py α) (s : St σ) : (lift x : RW σ α) s = (x, s) := rfl

theorem lift_ok {x : Py α} {s s' : St σ} {a : α} : (lift x : RW σ α) s = (.ok a, s') ↔ x = .ok a ∧ s = s' := by
  unfold lift
  constructor
  · intro h; injection h with h1 h2; exact ⟨h1, h2⟩
  · rintro ⟨rfl, rfl⟩; rfl

theorem pure_ok {a b : α} {s s' : St σ} : (pure a : RW σ α) s = (.ok b, s') ↔ a = b ∧ s = s' := by
  rw [pure_apply]
  constructor
  · intro h; injection h with h1 h2; injection h1 with h1; exact ⟨h1, h2⟩
  · rintro ⟨rfl, rfl⟩; rfl

/-- transcript entries of unanswered attempts of one command -/
def Lost (cmd : Bytes) (l : List (Bytes × Option Bytes)) : Prop := ∀ e ∈ l, e = (cmd, none)

theorem exch_eq (x : Air σ) (cmd : Bytes) (s : St σ) :
    exch x cmd s = (.ok (x s.w cmd).1, { s with w := (x s.w cmd).2, tr := s.tr ++ [(cmd, (x s.w cmd).1)] }) := rfl

/-- a command that got an answer: at most two unanswered attempts, then the answered one; the
attributes of the tag object are untouched -/
theorem sendRecv_ok {x : Air σ} {cmd r : Bytes} {s s' : St σ} (h : sendRecv x cmd s = (.ok r, s')) :
    s'.rd = s.rd ∧ ∃ pre, s'.tr = s.tr ++ pre ++ [(cmd, some r)] ∧ Lost cmd pre ∧ pre.length ≤ 2 := by
  unfold sendRecv at h
  obtain ⟨r1, s1, h1, h⟩ := bind_ok.mp h
  rw [exch_eq] at h1
  injection h1 with h1 hs1
  injection h1 with h1
  cases r1 with
  | some a =>
    obtain ⟨rfl, rfl⟩ := pure_ok.mp h
    subst hs1
    refine ⟨rfl, [], ?_, ?_, ?_⟩
    · simp [h1]
    · intro e he; cases he
    · simp
  | none =>
    obtain ⟨r2, s2, h2, h⟩ := bind_ok.mp h
    rw [exch_eq] at h2
    injection h2 with h2 hs2
    injection h2 with h2
    cases r2 with
    | some a =>
      obtain ⟨rfl, rfl⟩ := pure_ok.mp h
      subst hs2 hs1
      refine ⟨rfl, [(cmd, none)], ?_, ?_, ?_⟩
      · simp [h1, h2]
      · intro e he; simpa using he
      · simp
    | none =>
      obtain ⟨r3, s3, h3, h⟩ := bind_ok.mp h
      rw [exch_eq] at h3
      injection h3 with h3 hs3
      injection h3 with h3
      cases r3 with
      | some a =>
        obtain ⟨rfl, rfl⟩ := pure_ok.mp h
        subst hs3 hs2 hs1
        refine ⟨rfl, [(cmd, none), (cmd, none)], ?_, ?_, ?_⟩
        · simp [h1, h2, h3]
        · intro e he; simpa using he
        · simp
      | none =>
        have := (lift_ok.mp h).1
        cases this

/-- the exchanges of one answered command appended to a transcript -/
def Answered (cmd rsp : Bytes) (t t' : List (Bytes × Option Bytes)) : Prop :=
  ∃ pre, t' = t ++ pre ++ [(cmd, some rsp)] ∧ Lost cmd pre ∧ pre.length ≤ 2

/-- commands answered one after the other -/
def Answers : List (Bytes × Bytes) → List (Bytes × Option Bytes) → List (Bytes × Option Bytes) → Prop
  | [], t, t' => t' = t
  | (c, r) :: rest, t, t' => ∃ t1, Answered c r t t1 ∧ Answers rest t1 t'

theorem sendRecv_ok' {x : Air σ} {cmd r : Bytes} {s s' : St σ} (h : sendRecv x cmd s = (.ok r, s')) :
    s'.rd = s.rd ∧ Answered cmd r s.tr s'.tr := sendRecv_ok h

theorem setAuthed_apply (b : Bool) (s : St σ) :
    (setAuthed b : RW σ Unit) s = (.ok (), { s with rd := { s.rd with authed := b } }) := rfl

theorem setSess_apply (v : Option Session) (s : St σ) :
    (setSess v : RW σ Unit) s = (.ok (), { s with rd := { s.rd with sess := v } }) := rfl

theorem getRd_apply (s : St σ) : (getRd : RW σ Reader) s = (.ok s.rd, s) := rfl

/-! ## authenticate -/

section
variable (C : Cipher) (forget : Bool) (x : Air σ) (idm : Bytes)

/-- `authenticate(pw)` (FeliCa Lite) returned True, in whatever state the tag object and the world
were: the challenge of THIS call went to the card, the two answers that arrived in THIS call
satisfy the pure verdict function for THIS challenge, and the session stored is the one derived
from this challenge - nothing of an earlier call enters. -/
theorem authLite_true {pw rc : Bytes} {s s' : St σ}
    (h : authLite C forget x idm pw rc s = (.ok true, s')) :
    ∃ c1 c2 rsp1 rsp2 sess t1,
      liteChallengeCmd idm rc = .ok c1 ∧ readCmd idm [0x82, 0x81] = .ok c2 ∧
      Answered c1 rsp1 s.tr t1 ∧ Answered c2 rsp2 t1 s'.tr ∧
      liteAuthenticate C idm pw rc rsp1 rsp2 = .ok (true, sess) ∧ s'.rd = ⟨sess, true⟩ := by
  unfold authLite at h
  obtain ⟨key, s1, h1, k1⟩ := bind_ok.mp h
  clear h
  obtain ⟨hkey, rfl⟩ := lift_ok.mp h1
  obtain ⟨_, s2, h2, k2⟩ := bind_ok.mp k1
  clear k1
  rw [setAuthed_apply] at h2
  injection h2 with _ hs2
  subst hs2
  obtain ⟨_, s3, h3, k3⟩ := bind_ok.mp k2
  clear k2
  have hs3 : s3.tr = s.tr := by
    cases forget
    · obtain ⟨_, rfl⟩ := pure_ok.mp h3; rfl
    · simp only [if_true] at h3; rw [setSess_apply] at h3; injection h3 with _ h3; rw [← h3]
  obtain ⟨c1, s4, h4, k4⟩ := bind_ok.mp k3
  clear k3
  obtain ⟨hc1, rfl⟩ := lift_ok.mp h4
  obtain ⟨rsp1, s5, h5, k5⟩ := bind_ok.mp k4
  clear k4
  obtain ⟨_, ha1⟩ := sendRecv_ok' h5
  obtain ⟨_, s6, h6, k6⟩ := bind_ok.mp k5
  clear k5
  obtain ⟨_, rfl⟩ := lift_ok.mp h6
  obtain ⟨_, s7, h7, k7⟩ := bind_ok.mp k6
  clear k6
  obtain ⟨_, rfl⟩ := lift_ok.mp h7
  obtain ⟨c2, s8, h8, k8⟩ := bind_ok.mp k7
  clear k7
  obtain ⟨hc2, rfl⟩ := lift_ok.mp h8
  obtain ⟨rsp2, s9, h9, k9⟩ := bind_ok.mp k8
  clear k8
  obtain ⟨_, ha2⟩ := sendRecv_ok' h9
  obtain ⟨r, s10, h10, k10⟩ := bind_ok.mp k9
  clear k9
  obtain ⟨hr, rfl⟩ := lift_ok.mp h10
  rw [hs3] at ha1
  cases hr1 : r.1 with
  | false =>
    rw [hr1] at k10
    simp only [Bool.false_eq_true, if_false] at k10
    have := (pure_ok.mp k10).1
    cases this
  | true =>
    rw [hr1] at k10
    simp only [if_true] at k10
    obtain ⟨_, s11, h11, k11⟩ := bind_ok.mp k10
    rw [setSess_apply] at h11
    injection h11 with _ hs11
    subst hs11
    obtain ⟨_, s12, h12, k12⟩ := bind_ok.mp k11
    rw [setAuthed_apply] at h12
    injection h12 with _ hs12
    subst hs12
    obtain ⟨_, rfl⟩ := pure_ok.mp k12
    exact ⟨c1, c2, rsp1, rsp2, r.2, s5.tr, hc1, hc2, ha1, ha2, by rw [hr, ← hr1], rfl⟩

/-! ## read_with_mac, write_with_mac -/

/-- `read_with_mac(*blocks)` returned data: ONE command (repeated at most twice when nothing
arrived) asked for all the blocks and the MAC block, and the pure verification function accepted
the frame that arrived under the session stored in the tag object. -/
theorem readMac_some {blocks : List Nat} {d : Bytes} {s s' : St σ}
    (h : readMac C x idm blocks s = (.ok (some d), s')) :
    ∃ sess c rsp, s.rd.sess = some sess ∧ readCmd idm (blocks ++ [0x81]) = .ok c ∧ Answered c rsp s.tr s'.tr
      ∧ readWithMac C idm (some sess) blocks rsp = .ok (some d) ∧ s'.rd = s.rd := by
  unfold readMac at h
  obtain ⟨r, s1, h1, k1⟩ := bind_ok.mp h
  clear h
  rw [getRd_apply] at h1
  injection h1 with hr hs1
  injection hr with hr
  subst hs1
  cases hsess : r.sess with
  | none =>
    rw [hsess] at k1
    have := (lift_ok.mp k1).1
    cases this
  | some sess =>
    rw [hsess] at k1
    obtain ⟨c, s2, h2, k2⟩ := bind_ok.mp k1
    clear k1
    obtain ⟨hc, rfl⟩ := lift_ok.mp h2
    obtain ⟨rsp, s3, h3, k3⟩ := bind_ok.mp k2
    clear k2
    obtain ⟨hrd, ha⟩ := sendRecv_ok' h3
    obtain ⟨hv, rfl⟩ := lift_ok.mp k3
    exact ⟨sess, c, rsp, by rw [hr, hsess], hc, ha, hv, hrd⟩

/-- without a session (`_sk`/`_iv` are `None`) `read_with_mac` raises RuntimeError and sends nothing -/
theorem readMac_no_session {blocks : List Nat} {s : St σ} (h : s.rd.sess = none) :
    readMac C x idm blocks s = (.error .runtime, s) := by
  unfold readMac
  rw [bind_apply, getRd_apply]
  simp only [h]
  rfl

/-- `write_with_mac(data, block)` completed: WCNT was read from the card IN THIS CALL (`rspW` is
the answer to the read of block 90h that precedes the write) and the write command is the pure
function of that answer - no counter kept in the tag object enters MAC_A. -/
theorem writeMac_ok {data : Bytes} {block : Nat} {s s' : St σ}
    (h : writeMac C x idm data block s = (.ok (), s')) :
    ∃ sess c0 rspW c rsp t1, s.rd.sess = some sess ∧ readCmd idm [0x90] = .ok c0 ∧ Answered c0 rspW s.tr t1
      ∧ writeWithMacCmd C idm (some sess) data block rspW = .ok c ∧ Answered c rsp t1 s'.tr
      ∧ writeRsp idm rsp = .ok () ∧ s'.rd = s.rd := by
  unfold writeMac at h
  split at h
  · have := (lift_ok.mp h).1
    cases this
  · obtain ⟨r, s1, h1, k1⟩ := bind_ok.mp h
    clear h
    rw [getRd_apply] at h1
    injection h1 with hr hs1
    injection hr with hr
    subst hs1
    cases hsess : r.sess with
    | none =>
      rw [hsess] at k1
      have := (lift_ok.mp k1).1
      cases this
    | some sess =>
      rw [hsess] at k1
      obtain ⟨c0, s2, h2, k2⟩ := bind_ok.mp k1
      clear k1
      obtain ⟨hc0, rfl⟩ := lift_ok.mp h2
      obtain ⟨rspW, s3, h3, k3⟩ := bind_ok.mp k2
      clear k2
      obtain ⟨hrd3, ha3⟩ := sendRecv_ok' h3
      obtain ⟨c, s4, h4, k4⟩ := bind_ok.mp k3
      clear k3
      obtain ⟨hc, rfl⟩ := lift_ok.mp h4
      obtain ⟨rsp, s5, h5, k5⟩ := bind_ok.mp k4
      clear k4
      obtain ⟨hrd5, ha5⟩ := sendRecv_ok' h5
      obtain ⟨hw, rfl⟩ := lift_ok.mp k5
      exact ⟨sess, c0, rspW, c, rsp, s3.tr, by rw [hr, hsess], hc0, ha3, hc, ha5, hw, by rw [hrd5, hrd3]⟩

/-! ## FeliCa Lite-S mutual authentication -/

/-- `FelicaLiteS.authenticate(pw)` returned True, whatever happened before: five commands were
answered in this call - the challenge of THIS call, the ID read, the WCNT read, the MAC'ed STATE
write whose MAC_A is computed from the WCNT answer of this call, the MAC'ed STATE read - and the
pure verdict function of these five answers is True. -/
theorem authLiteS_true {pw rc : Bytes} {s s' : St σ}
    (h : authLiteS C forget x idm pw rc s = (.ok true, s')) :
    ∃ c1 c2 c3 c4 c5 rsp1 rsp2 rsp3 rsp4 rsp5 sess,
      liteChallengeCmd idm rc = .ok c1 ∧ readCmd idm [0x82, 0x81] = .ok c2 ∧ readCmd idm [0x90] = .ok c3
      ∧ writeWithMacCmd C idm sess ([1] ++ zeros 15) 0x92 rsp3 = .ok c4 ∧ readCmd idm [0x92, 0x81] = .ok c5
      ∧ Answers [(c1, rsp1), (c2, rsp2), (c3, rsp3), (c4, rsp4), (c5, rsp5)] s.tr s'.tr
      ∧ liteAuthenticate C idm pw rc rsp1 rsp2 = .ok (true, sess)
      ∧ liteSAuthenticate C idm pw rc rsp1 rsp2 rsp3 rsp4 rsp5 = .ok true
      ∧ s'.rd = ⟨sess, true⟩ := by
  unfold authLiteS extAuthS at h
  obtain ⟨ok, s1, h1, k1⟩ := bind_ok.mp h
  clear h
  cases ok with
  | false =>
    simp only [Bool.not_false, if_true] at k1
    have := (pure_ok.mp k1).1
    cases this
  | true =>
    simp only [Bool.not_true, Bool.false_eq_true, if_false] at k1
    obtain ⟨c1, c2, rsp1, rsp2, sess, t1, hc1, hc2, ha1, ha2, hla, hrd1⟩ := authLite_true C forget x idm h1
    obtain ⟨_, s2, h2, k2⟩ := bind_ok.mp k1
    clear k1
    rw [setAuthed_apply] at h2
    injection h2 with _ hs2
    subst hs2
    obtain ⟨_, s3, h3, k3⟩ := bind_ok.mp k2
    clear k2
    obtain ⟨sess', c3, rsp3, c4, rsp4, t3, hsess, hc3, ha3, hc4, ha4, hw4, hrd3⟩ := writeMac_ok C x idm h3
    simp only [hrd1] at hsess
    subst hsess
    obtain ⟨st, s4, h4, k4⟩ := bind_ok.mp k3
    clear k3
    cases st with
    | none =>
      have := (pure_ok.mp k4).1
      cases this
    | some d =>
      obtain ⟨sess'', c5, rsp5, hsess5, hc5, ha5, hv5, hrd4⟩ := readMac_some C x idm h4
      rw [hrd3] at hsess5
      simp only [hrd1] at hsess5
      injection hsess5 with hsess5
      subst hsess5
      simp only at k4
      obtain ⟨b, s5, h5, k5⟩ := bind_ok.mp k4
      clear k4
      obtain ⟨hb, rfl⟩ := lift_ok.mp h5
      by_cases hb1 : b = 1
      · simp only [hb1, if_true] at k5
        obtain ⟨_, s6, h6, k6⟩ := bind_ok.mp k5
        rw [setAuthed_apply] at h6
        injection h6 with _ hs6
        subst hs6
        obtain ⟨_, rfl⟩ := pure_ok.mp k6
        have hc5' : readCmd idm [0x92, 0x81] = .ok c5 := hc5
        refine ⟨c1, c2, c3, c4, c5, rsp1, rsp2, rsp3, rsp4, rsp5, some sess', hc1, hc2, hc3, hc4, hc5', ?_, hla, ?_, ?_⟩
        · exact ⟨t1, ha1, _, ha2, _, ha3, _, ha4, _, ha5, rfl⟩
        · subst hb1
          simp only [liteSAuthenticate, hla, Py.bind_ok, Bool.true_eq_false, if_false, hc4, hw4, hv5, hb]
          rfl
        · simp only [hrd4, hrd3, hrd1]
      · simp only [hb1, if_false] at k5
        have := (pure_ok.mp k5).1
        cases this

/-! ## histories -/

theorem run_nil (liteS : Bool) (s : St σ) : run C forget x idm liteS [] s = ([], s) := rfl

theorem run_cons (liteS : Bool) (op : Op σ) (ops : List (Op σ)) (s : St σ) :
    run C forget x idm liteS (op :: ops) s =
      ((step C forget x idm liteS op s).1 :: (run C forget x idm liteS ops (step C forget x idm liteS op s).2).1,
       (run C forget x idm liteS ops (step C forget x idm liteS op s).2).2) := rfl

theorem run_append (liteS : Bool) (ops1 ops2 : List (Op σ)) (s : St σ) :
    run C forget x idm liteS (ops1 ++ ops2) s =
      ((run C forget x idm liteS ops1 s).1 ++ (run C forget x idm liteS ops2 (run C forget x idm liteS ops1 s).2).1,
       (run C forget x idm liteS ops2 (run C forget x idm liteS ops1 s).2).2) := by
  induction ops1 generalizing s with
  | nil => simp [run_nil]
  | cons op ops ih => simp only [List.cons_append, run_cons, ih, List.cons_append]

theorem run_length (liteS : Bool) (ops : List (Op σ)) (s : St σ) :
    (run C forget x idm liteS ops s).1.length = ops.length := by
  induction ops generalizing s with
  | nil => rfl
  | cons op ops ih => simp [run_cons, ih]

/-- the outcome of call number `pre.length` of a history is the outcome of that call in the state
the calls before it left behind -/
theorem run_result_at (liteS : Bool) (pre post : List (Op σ)) (op : Op σ) (s : St σ) :
    (run C forget x idm liteS (pre ++ op :: post) s).1[pre.length]?
      = some (step C forget x idm liteS op (run C forget x idm liteS pre s).2).1 := by
  rw [run_append, run_cons]
  simp only
  rw [List.getElem?_append_right (by rw [run_length]; exact Nat.le_refl _), run_length, Nat.sub_self]
  rfl

/-- the state after the first `pre.length + 1` calls -/
theorem run_state_snoc (liteS : Bool) (pre : List (Op σ)) (op : Op σ) (s : St σ) :
    (run C forget x idm liteS (pre ++ [op]) s).2 = (step C forget x idm liteS op (run C forget x idm liteS pre s).2).2 := by
  rw [run_append, run_cons, run_nil]

theorem step_auth_lite {pw rc : Bytes} {s s' : St σ} {b : Bool}
    (h : step C forget x idm false (.auth pw rc) s = (.ok (.bool b), s')) :
    authLite C forget x idm pw rc s = (.ok b, s') := by
  simp only [step, Bool.false_eq_true, if_false] at h
  obtain ⟨b', s1, h1, k1⟩ := bind_ok.mp h
  obtain ⟨hb, rfl⟩ := pure_ok.mp k1
  injection hb with hb
  subst hb
  exact h1

theorem step_auth_liteS {pw rc : Bytes} {s s' : St σ} {b : Bool}
    (h : step C forget x idm true (.auth pw rc) s = (.ok (.bool b), s')) :
    authLiteS C forget x idm pw rc s = (.ok b, s') := by
  simp only [step, if_true] at h
  obtain ⟨b', s1, h1, k1⟩ := bind_ok.mp h
  obtain ⟨hb, rfl⟩ := pure_ok.mp k1
  injection hb with hb
  subst hb
  exact h1

theorem step_readMac {liteS : Bool} {blocks : List Nat} {d : Option Bytes} {s s' : St σ}
    (h : step C forget x idm liteS (.readMac blocks) s = (.ok (.data d), s')) :
    readMac C x idm blocks s = (.ok d, s') := by
  simp only [step] at h
  obtain ⟨d', s1, h1, k1⟩ := bind_ok.mp h
  obtain ⟨hb, rfl⟩ := pure_ok.mp k1
  injection hb with hb
  subst hb
  exact h1

/-! ## nothing of the tag object's past enters an authentication -/

/-- same world and transcript, possibly different attributes of the tag object -/
def SameW (s1 s2 : St σ) : Prop := s1.w = s2.w ∧ s1.tr = s2.tr

/-- a method body that never looks at the attributes of the tag object -/
def Blind (m : RW σ α) : Prop := ∀ s1 s2, SameW s1 s2 → (m s1).1 = (m s2).1 ∧ SameW (m s1).2 (m s2).2

theorem Blind.bind {m : RW σ α} {f : α → RW σ β} (hm : Blind m) (hf : ∀ a, Blind (f a)) : Blind (m >>= f) := by
  intro s1 s2 h
  obtain ⟨h1, h2⟩ := hm s1 s2 h
  rw [bind_apply, bind_apply]
  rcases e1 : m s1 with ⟨r1, t1⟩
  rcases e2 : m s2 with ⟨r2, t2⟩
  rw [e1, e2] at h1 h2
  simp only at h1 h2
  subst h1
  cases r1 with
  | error e => exact ⟨rfl, h2⟩
  | ok a => exact hf a t1 t2 h2

theorem Blind.lift (v : Py α) : Blind (lift v : RW σ α) := fun _ _ h => ⟨rfl, h⟩
theorem Blind.pure (a : α) : Blind (pure a : RW σ α) := fun _ _ h => ⟨rfl, h⟩
theorem Blind.setAuthed (b : Bool) : Blind (setAuthed b : RW σ Unit) := fun _ _ h => ⟨rfl, h⟩
theorem Blind.setSess (v : Option Session) : Blind (setSess v : RW σ Unit) := fun _ _ h => ⟨rfl, h⟩
theorem Blind.ite {c : Prop} [Decidable c] {m1 m2 : RW σ α} (h1 : Blind m1) (h2 : Blind m2) :
    Blind (if c then m1 else m2) := by split <;> assumption

theorem Blind.exch (cmd : Bytes) : Blind (exch x cmd) := by
  intro s1 s2 h
  simp only [exch_eq, SameW]
  rw [h.1, h.2]
  exact ⟨rfl, rfl, rfl⟩

theorem Blind.sendRecv (cmd : Bytes) : Blind (sendRecv x cmd) := by
  unfold RW.sendRecv
  refine Blind.bind (Blind.exch x cmd) (fun r1 => ?_)
  cases r1 with
  | some r => exact Blind.pure r
  | none =>
    refine Blind.bind (Blind.exch x cmd) (fun r2 => ?_)
    cases r2 with
    | some r => exact Blind.pure r
    | none =>
      refine Blind.bind (Blind.exch x cmd) (fun r3 => ?_)
      cases r3 with
      | some r => exact Blind.pure r
      | none => exact Blind.lift _

/-- `FelicaLite.authenticate` never reads `_sk`, `_iv` or `_authenticated`: verdict, exchanges
and the effect on the world are the same in every state of the tag object -/
theorem authLite_blind (pw rc : Bytes) : Blind (authLite C forget x idm pw rc) := by
  unfold authLite
  refine Blind.bind (Blind.lift _) (fun key => ?_)
  refine Blind.bind (Blind.setAuthed _) (fun _ => ?_)
  refine Blind.bind (Blind.ite (Blind.setSess _) (Blind.pure _)) (fun _ => ?_)
  refine Blind.bind (Blind.lift _) (fun c1 => ?_)
  refine Blind.bind (Blind.sendRecv x c1) (fun rsp1 => ?_)
  refine Blind.bind (Blind.lift _) (fun _ => ?_)
  refine Blind.bind (Blind.lift _) (fun _ => ?_)
  refine Blind.bind (Blind.lift _) (fun c2 => ?_)
  refine Blind.bind (Blind.sendRecv x c2) (fun rsp2 => ?_)
  refine Blind.bind (Blind.lift _) (fun r => ?_)
  exact Blind.ite (Blind.bind (Blind.setSess _) (fun _ => Blind.bind (Blind.setAuthed _) (fun _ => Blind.pure _))) (Blind.pure _)

/-! ## what a failed authentication leaves behind -/

/-- either the call returned True or the attributes of the tag object are as before -/
def Tail (m : RW σ Bool) : Prop := ∀ s, (m s).1 = .ok true ∨ (m s).2.rd = s.rd

def KeepsRd (m : RW σ α) : Prop := ∀ s, (m s).2.rd = s.rd

theorem KeepsRd.lift (v : Py α) : KeepsRd (lift v : RW σ α) := fun _ => rfl

theorem KeepsRd.exch (cmd : Bytes) : KeepsRd (exch x cmd) := fun _ => rfl

theorem KeepsRd.pure (a : α) : KeepsRd (pure a : RW σ α) := fun _ => rfl

theorem KeepsRd.bind {m : RW σ α} {f : α → RW σ β} (hm : KeepsRd m) (hf : ∀ a, KeepsRd (f a)) : KeepsRd (m >>= f) := by
  intro s
  rw [bind_apply]
  have h1 := hm s
  rcases e1 : m s with ⟨r1, t1⟩
  rw [e1] at h1
  cases r1 with
  | error e => exact h1
  | ok a => exact (hf a t1).trans h1

theorem KeepsRd.sendRecv (cmd : Bytes) : KeepsRd (sendRecv x cmd) := by
  unfold RW.sendRecv
  refine KeepsRd.bind (KeepsRd.exch x cmd) (fun r1 => ?_)
  cases r1 with
  | some r => exact KeepsRd.pure r
  | none =>
    refine KeepsRd.bind (KeepsRd.exch x cmd) (fun r2 => ?_)
    cases r2 with
    | some r => exact KeepsRd.pure r
    | none =>
      refine KeepsRd.bind (KeepsRd.exch x cmd) (fun r3 => ?_)
      cases r3 with
      | some r => exact KeepsRd.pure r
      | none => exact KeepsRd.lift _

theorem Tail.bind {m : RW σ α} {f : α → RW σ Bool} (hm : KeepsRd m) (hf : ∀ a, Tail (f a)) : Tail (m >>= f) := by
  intro s
  rw [bind_apply]
  have h1 := hm s
  rcases e1 : m s with ⟨r1, t1⟩
  rw [e1] at h1
  cases r1 with
  | error e => exact Or.inr h1
  | ok a =>
    rcases hf a t1 with h | h
    · exact Or.inl h
    · exact Or.inr (h.trans h1)

/-- the repaired code (`forget = true`): an authentication that does not return True - refused,
or ended by a `TagCommandError` - leaves NO session behind, whatever session an earlier
authentication had established; `read_with_mac` then raises RuntimeError. -/
theorem failed_auth_forgets {pw rc key : Bytes} {s : St σ} (hk : liteKey pw = .ok key)
    (h : (authLite C true x idm pw rc s).1 ≠ .ok true) :
    (authLite C true x idm pw rc s).2.rd = ⟨none, false⟩ := by
  unfold authLite at h ⊢
  rw [bind_of_ok (lift_ok.mpr ⟨hk, rfl⟩)] at h ⊢
  rw [bind_of_ok (setAuthed_apply false s)] at h ⊢
  simp only [if_true] at h ⊢
  rw [bind_of_ok (setSess_apply none _)] at h ⊢
  have hT : Tail (σ := σ) (lift (liteChallengeCmd idm rc) >>= fun c1 =>
      sendRecv x c1 >>= fun rsp1 =>
      lift (writeRsp idm rsp1) >>= fun _ =>
      lift (sessionKey C key rc) >>= fun _ =>
      lift (readCmd idm [0x82, 0x81]) >>= fun c2 =>
      sendRecv x c2 >>= fun rsp2 =>
      lift (liteAuthenticate C idm pw rc rsp1 rsp2) >>= fun r =>
      if r.1 then setSess r.2 >>= fun _ => setAuthed true >>= fun _ => pure true
      else pure false) := by
    refine Tail.bind (KeepsRd.lift _) (fun c1 => ?_)
    refine Tail.bind (KeepsRd.sendRecv x c1) (fun rsp1 => ?_)
    refine Tail.bind (KeepsRd.lift _) (fun _ => ?_)
    refine Tail.bind (KeepsRd.lift _) (fun _ => ?_)
    refine Tail.bind (KeepsRd.lift _) (fun c2 => ?_)
    refine Tail.bind (KeepsRd.sendRecv x c2) (fun rsp2 => ?_)
    refine Tail.bind (KeepsRd.lift _) (fun r => ?_)
    intro t
    cases hr : r.1 with
    | false => exact Or.inr rfl
    | true => exact Or.inl rfl
  rcases hT _ with h1 | h1
  · exact absurd h1 h
  · rw [h1]

end

end NfcVerif.AuthHist
