import NfcVerif.Model.ErrMap
import NfcVerif.Lemmas.HostFrame
/-! Helper lemmas for the error-mapping theorems of C13. -/
namespace NfcVerif.ErrMap
open HostFrame

/-- what an application may see from `exchange()` -/
def Documented (e : Exc) : Prop :=
  e = .timeout ∨ e = .transmission ∨ e = .brokenLink ∨ e = .protocol ∨ ∃ n, e = .io n

/-- what `Chipset.command` may raise: `IOError` or the error-frame `Chipset.Error(0x7F)` -/
def CmdDoc (e : Exc) : Prop := (∃ n, e = .io n) ∨ e = .chipsetError 0x7F

/-- inside the driver: documented, or a `Chipset.Error` still to be translated -/
def Mid (e : Exc) : Prop := Documented e ∨ ∃ n, e = .chipsetError n

theorem Documented.mid {e : Exc} (h : Documented e) : Mid e := Or.inl h
theorem CmdDoc.mid {e : Exc} (h : CmdDoc e) : Mid e := by
  rcases h with ⟨n, rfl⟩ | rfl
  · exact Or.inl (Or.inr (Or.inr (Or.inr (Or.inr ⟨n, rfl⟩))))
  · exact Or.inr ⟨_, rfl⟩

theorem doc_io (n : Nat) : Documented (.io n) := Or.inr (Or.inr (Or.inr (Or.inr ⟨n, rfl⟩)))
theorem doc_timeout : Documented .timeout := Or.inl rfl
theorem doc_transmission : Documented .transmission := Or.inr (Or.inl rfl)
theorem doc_brokenLink : Documented .brokenLink := Or.inr (Or.inr (Or.inl rfl))
theorem mid_chip (n : Nat) : Mid (.chipsetError n) := Or.inr ⟨n, rfl⟩

/-! ## host commands -/

theorem pnAccept_cmdDoc (cmd : Nat) (f : Bytes) : Safe CmdDoc (pnAccept cmd f) :=
  (pn_accept_doc cmd f).mono (by
    intro e h
    rcases h with rfl | rfl
    · exact Or.inl ⟨5, rfl⟩
    · exact Or.inr rfl)

theorem pnAwait_doc (cmd : Nat) (evs : List Ev) : Safe CmdDoc (pnAwait cmd evs) := by
  induction evs with
  | nil => exact Safe.throw' (Or.inl ⟨_, rfl⟩)
  | cons ev rest ih =>
    cases ev with
    | raise e => exact Safe.throw' (Or.inl ⟨_, rfl⟩)
    | good p => exact Safe.pure _
    | frame g =>
      unfold pnAwait
      exact Safe.ite ih (pnAccept_cmdDoc cmd g)

theorem pnCommand_doc (cmd : Nat) (h : Host) : Safe CmdDoc (pnCommand cmd h) := by
  have hio : CmdDoc eio := Or.inl ⟨5, rfl⟩
  unfold pnCommand
  cases h.wr with
  | raise e => exact Safe.throw' hio
  | ok =>
    cases h.reads with
    | nil => exact Safe.throw' hio
    | cons ev rest =>
      cases ev with
      | raise e => exact Safe.throw' hio
      | good p => exact Safe.pure _
      | frame f => exact Safe.ite (Safe.throw' hio) (Safe.ite (pnAwait_doc cmd rest) (pnAccept_cmdDoc cmd f))
  | short =>
    cases h.reads with
    | nil => exact Safe.throw' hio
    | cons ev rest =>
      cases ev with
      | raise e => exact Safe.throw' hio
      | good p => exact Safe.pure _
      | frame f => exact Safe.ite (Safe.throw' hio) (Safe.ite (pnAwait_doc cmd rest) (pnAccept_cmdDoc cmd f))

theorem acrCommand_doc (cmd : Nat) (h : Host) : Safe CmdDoc (acrCommand cmd h) := by
  have hacc : ∀ f, Safe CmdDoc (acrAccept cmd f) := fun f =>
    (acr_accept_doc cmd f).mono (by intro e h; subst h; exact Or.inl ⟨5, rfl⟩)
  unfold acrCommand
  cases h.wr with
  | raise e => exact Safe.throw' (Or.inl ⟨_, rfl⟩)
  | ok =>
    cases h.reads with
    | nil => exact Safe.throw' (Or.inl ⟨_, rfl⟩)
    | cons ev rest =>
      cases ev with
      | raise e => exact Safe.throw' (Or.inl ⟨_, rfl⟩)
      | good p => exact Safe.pure _
      | frame f => exact hacc f
  | short =>
    cases h.reads with
    | nil => exact Safe.throw' (Or.inl ⟨_, rfl⟩)
    | cons ev rest =>
      cases ev with
      | raise e => exact Safe.throw' (Or.inl ⟨_, rfl⟩)
      | good p => exact Safe.pure _
      | frame f => exact hacc f

theorem chipCommand_doc (d : Drv) (cmd : Nat) (h : Host) : Safe CmdDoc (chipCommand d cmd h) := by
  unfold chipCommand
  cases d <;> first | exact acrCommand_doc cmd h | exact pnCommand_doc cmd h


/-! ## payload shapes: a well-formed response carries the octets the manual specifies -/

/-- ReadRegister response for `n` registers (PN533: status octet first) -/
def RegShape (fam : Fam) (n : Nat) (p : Bytes) : Prop :=
  match fam with
  | .pn533 => p.length = n + 1
  | _ => p.length = n

/-- WriteRegister response (PN533: one status octet) -/
def WrShape (fam : Fam) (p : Bytes) : Prop :=
  match fam with
  | .pn533 => p ≠ []
  | _ => True

theorem chipErr_mid {α} (d : Bytes) (h : d ≠ []) : Safe Mid (chipErr d : Py α) := by
  cases d with
  | nil => exact absurd rfl h
  | cons a t => simp only [chipErr, idxN_cons_zero, Py.bind_ok]; exact Safe.throw' (mid_chip a)

theorem read3_mid (fam : Fam) (r : Py Bytes) (hr : Safe CmdDoc r)
    (hs : ∀ p, r = .ok p → RegShape fam 3 p) : Safe Mid (readRegister fam r >>= unpack3) := by
  cases r with
  | error e => intro e' h; cases h; exact (hr e rfl).mid
  | ok p =>
    have sh := hs p rfl
    cases fam <;> simp only [RegShape] at sh
    case pn533 =>
      match p, sh with
      | [s, a, b, c], _ =>
        by_cases h0 : s = 0
        · subst h0; simp [readRegister, regResult, unpack3]; exact Safe.ok _
        · simp [readRegister, h0, chipErr]; exact Safe.throw (mid_chip s)
    all_goals
      match p, sh with
      | [a, b, c], _ => simp [readRegister, regResult, unpack3]; exact Safe.ok _

theorem write_mid (fam : Fam) (r : Py Bytes) (hr : Safe CmdDoc r)
    (hs : ∀ p, r = .ok p → WrShape fam p) : Safe Mid (writeRegister fam r) := by
  cases r with
  | error e => intro e' h; cases h; exact (hr e rfl).mid
  | ok p =>
    have sh := hs p rfl
    cases fam <;> simp only [WrShape] at sh
    case pn533 =>
      cases p with
      | nil => exact absurd rfl sh
      | cons s t =>
        by_cases h0 : s = 0
        · subst h0; simp [writeRegister]; exact Safe.ok _
        · simp [writeRegister, h0, chipErr]; exact Safe.throw (mid_chip s)
    case rcs956 =>
      simp only [writeRegister, Py.bind_ok]
      exact Safe.ite (Safe.throw' (mid_chip _)) (Safe.pure _)
    all_goals (simp [writeRegister]; exact Safe.ok _)

theorem rfcfg_mid (r : Py Bytes) (hr : Safe CmdDoc r) : Safe Mid (rfConfiguration r) := by
  cases r with
  | error e => intro e' h; cases h; exact (hr e rfl).mid
  | ok p => simp [rfConfiguration]; exact Safe.ok _

theorem thru_mid (r : Py Bytes) (hr : Safe CmdDoc r) (hs : ∀ p, r = .ok p → p ≠ []) :
    Safe Mid (inCommunicateThru r) := by
  cases r with
  | error e => intro e' h; cases h; exact (hr e rfl).mid
  | ok p =>
    cases p with
    | nil => exact absurd rfl (hs [] rfl)
    | cons s t =>
      by_cases h0 : s = 0
      · subst h0; simp [inCommunicateThru]; exact Safe.ok _
      · simp only [inCommunicateThru, Py.bind_ok]
        split
        · rename_i heq; cases heq; exact absurd rfl h0
        · exact chipErr_mid _ (by simp)

theorem inCommunicateThru_status (s : Nat) (rest : Bytes) (h : s ≠ 0) :
    inCommunicateThru (.ok (s :: rest)) = .error (.chipsetError s) := by
  simp only [inCommunicateThru, Py.bind_ok]
  split
  · rename_i heq; cases heq; exact absurd rfl h
  · simp [chipErr]

theorem inCommunicateThru_zero (rest : Bytes) : inCommunicateThru (.ok (0 :: rest)) = .ok rest := rfl

theorem dataex_mid (r : Py Bytes) (hr : Safe CmdDoc r) (hs : ∀ p, r = .ok p → p ≠ []) :
    Safe Mid (inDataExchange r) := by
  cases r with
  | error e => intro e' h; cases h; exact (hr e rfl).mid
  | ok p =>
    cases p with
    | nil => exact absurd rfl (hs [] rfl)
    | cons s t =>
      simp only [inDataExchange, Py.bind_ok, idxN_cons_zero]
      exact Safe.ite (Safe.throw' (mid_chip _)) (Safe.pure _)

theorem tgresp_mid (r : Py Bytes) (hr : Safe CmdDoc r) (hs : ∀ p, r = .ok p → p ≠ []) :
    Safe Mid (tgResponseToInitiator r) := by
  cases r with
  | error e => intro e' h; cases h; exact (hr e rfl).mid
  | ok p =>
    cases p with
    | nil => exact absurd rfl (hs [] rfl)
    | cons s t =>
      simp only [tgResponseToInitiator, Py.bind_ok, idxN_cons_zero]
      exact Safe.ite (chipErr_mid _ (by simp)) (Safe.pure _)

theorem checkCrcA_ok (d : Bytes) (h : d.length > 2) : ∃ b, checkCrcA d = .ok b := by
  unfold checkCrcA Crc.checkCrcA
  have : ¬ (List.map (BitVec.ofNat 8) d).length < 2 := by simp; omega
  simp only [this, if_false]
  exact ⟨_, rfl⟩

theorem tt2Crc_mid (d : Bytes) : Safe Mid (tt2Crc d) := by
  unfold tt2Crc
  split
  · rename_i h
    obtain ⟨b, hb⟩ := checkCrcA_ok d h
    rw [hb]
    simp only [Py.bind_ok]
    exact Safe.ite (Safe.pure _) (Safe.throw' doc_transmission.mid)
  · exact Safe.pure _

/-! ## the handlers -/

theorem pnMapI_doc {α} (x : Py α) (h : Safe Mid x) : Safe Documented (pnMapI x) := by
  intro e he
  cases x with
  | ok a => simp [pnMapI] at he
  | error e0 =>
    have h0 := h e0 rfl
    rcases h0 with hd | ⟨n, rfl⟩
    · rcases hd with rfl | rfl | rfl | rfl | ⟨n, rfl⟩
      · simp [pnMapI] at he; subst he; exact doc_timeout
      · simp [pnMapI] at he; subst he; exact doc_transmission
      · simp [pnMapI] at he; subst he; exact doc_brokenLink
      · simp [pnMapI] at he; subst he; exact Or.inr (Or.inr (Or.inr (Or.inl rfl)))
      · simp only [pnMapI] at he
        split at he <;> cases he
        · exact doc_timeout
        · exact doc_io n
    · simp only [pnMapI] at he
      split at he <;> cases he
      · exact doc_timeout
      · exact doc_transmission

theorem pnMapT_doc {α} (x : Py α) (h : Safe Mid x) : Safe Documented (pnMapT x) := by
  intro e he
  cases x with
  | ok a => simp [pnMapT] at he
  | error e0 =>
    have h0 := h e0 rfl
    rcases h0 with hd | ⟨n, rfl⟩
    · rcases hd with rfl | rfl | rfl | rfl | ⟨n, rfl⟩
      · simp [pnMapT] at he; subst he; exact doc_timeout
      · simp [pnMapT] at he; subst he; exact doc_transmission
      · simp [pnMapT] at he; subst he; exact doc_brokenLink
      · simp [pnMapT] at he; subst he; exact Or.inr (Or.inr (Or.inr (Or.inl rfl)))
      · simp only [pnMapT] at he
        split at he <;> cases he
        · exact doc_timeout
        · exact doc_io n
    · simp only [pnMapT] at he
      split at he <;> cases he
      · exact doc_brokenLink
      · exact doc_transmission

theorem guardChip_doc {α} (x : Py α) (h : Safe Mid x) : Safe Documented (guardChip .repaired x) := by
  intro e he
  cases x with
  | ok a => simp [guardChip] at he
  | error e0 =>
    have h0 := h e0 rfl
    rcases h0 with hd | ⟨n, rfl⟩
    · have : guardChip .repaired (.error e0 : Py α) = .error e0 := by
        rcases hd with rfl | rfl | rfl | rfl | ⟨n, rfl⟩ <;> rfl
      rw [this] at he; cases he; exact hd
    · simp [guardChip] at he; subst he; exact doc_io 5


/-! ## pn53x exchange functions -/

theorem pnSendCmdRecvRsp_doc (fam : Fam) (path : IPath) (r : Nat → Py Bytes)
    (hr : ∀ i, Safe CmdDoc (r i))
    (h0 : ∀ p, r 0 = .ok p → RegShape fam 3 p)
    (h1 : ∀ p, r 1 = .ok p → WrShape fam p)
    (h3 : ∀ p, r 3 = .ok p → p ≠ []) :
    Safe Documented (pnSendCmdRecvRsp .repaired fam path r) := by
  unfold pnSendCmdRecvRsp
  apply guardChip_doc
  have hprep : Safe Mid (pnPrep fam r) := by
    unfold pnPrep
    exact Safe.bind' (read3_mid fam (r 0) (hr 0) h0)
      (fun _ => Safe.bind' (write_mid fam (r 1) (hr 1) h1) (fun _ => rfcfg_mid (r 2) (hr 2)))
  have hbody : Safe Mid (pnBodyI path r) := by
    unfold pnBodyI
    cases path
    · exact dataex_mid (r 3) (hr 3) h3
    · exact Safe.bind' (thru_mid (r 3) (hr 3) h3) (fun d => tt2Crc_mid d)
    · exact thru_mid (r 3) (hr 3) h3
  exact Safe.bind' hprep (fun _ => (pnMapI_doc _ hbody).mono (fun _ h => h.mid))

theorem pnTgOther_doc (hasData : Bool) (r : Nat → Py Bytes)
    (hr : ∀ i, Safe CmdDoc (r i))
    (hs : ∀ i, i < 2 → ∀ p, r i = .ok p → p ≠ []) :
    Safe Documented (pnTgOther hasData r) := by
  unfold pnTgOther
  apply pnMapT_doc
  refine Safe.bind' ?_ (fun _ => thru_mid _ (hr _) (hs _ (by cases hasData <;> simp)))
  cases hasData
  · exact Safe.pure _
  · exact tgresp_mid (r 0) (hr 0) (hs 0 (by omega))

/-- FIFO data read: at least one data octet besides the first -/
def FifoShape (fam : Fam) (p : Bytes) : Prop :=
  match fam with
  | .pn533 => p.length ≥ 3
  | _ => p.length ≥ 2

theorem poll_mid (fam : Fam) (r : Py Bytes) (hr : Safe CmdDoc r)
    (hs : ∀ p, r = .ok p → RegShape fam 2 p) : Safe Mid (readRegister fam r >>= unpack2) := by
  cases r with
  | error e => intro e' h; cases h; exact (hr e rfl).mid
  | ok p =>
    have sh := hs p rfl
    cases fam <;> simp only [RegShape] at sh
    case pn533 =>
      match p, sh with
      | [s, a, b], _ =>
        by_cases h0 : s = 0
        · subst h0; simp [readRegister, regResult, unpack2]; exact Safe.ok _
        · simp [readRegister, h0, chipErr]; exact Safe.throw (mid_chip s)
    all_goals
      match p, sh with
      | [a, b], _ => simp [readRegister, regResult, unpack2]; exact Safe.ok _

theorem fifoData_mid (fam : Fam) (rd : Py Bytes) (hd : Safe CmdDoc rd)
    (sd : ∀ p, rd = .ok p → FifoShape fam p) : Safe Mid (fifoData fam rd) := by
  unfold fifoData
  cases rd with
  | error e => intro e' h; cases h; exact (hd e rfl).mid
  | ok p =>
    have sh := sd p rfl
    cases fam <;> simp only [FifoShape] at sh
    case pn533 =>
      match p, sh with
      | s :: a :: b :: t, _ =>
        by_cases h0 : s = 0
        · subst h0
          have : readRegister .pn533 (.ok (0 :: a :: b :: t)) = .ok (.many (a :: b :: t)) := by
            simp [readRegister, regResult]
          rw [this]
          simp only [Py.bind_ok, idxN_cons_zero]
          exact Safe.ite (Safe.throw' doc_transmission.mid) (Safe.pure _)
        · simp [readRegister, h0, chipErr]; exact Safe.throw (mid_chip s)
    all_goals
      match p, sh with
      | a :: b :: t, _ =>
        have : ∀ f : Fam, f ≠ .pn533 → readRegister f (.ok (a :: b :: t)) = .ok (.many (a :: b :: t)) := by
          intro f hf; cases f <;> simp_all [readRegister, regResult]
        rw [this _ (by decide)]
        simp only [Py.bind_ok, idxN_cons_zero]
        exact Safe.ite (Safe.throw' doc_transmission.mid) (Safe.pure _)

theorem fifoRead_mid (fam : Fam) (rl rd : Py Bytes) (hl : Safe CmdDoc rl) (hd : Safe CmdDoc rd)
    (sl : ∀ p, rl = .ok p → RegShape fam 1 p) (sd : ∀ p, rd = .ok p → FifoShape fam p) :
    Safe Mid (fifoRead fam rl rd) := by
  have hdata := fifoData_mid fam rd hd sd
  unfold fifoRead
  cases rl with
  | error e => intro e' h; cases h; exact (hl e rfl).mid
  | ok p =>
    have sh := sl p rfl
    cases fam <;> simp only [RegShape] at sh
    case pn533 =>
      match p, sh with
      | [s, a], _ =>
        by_cases h0 : s = 0
        · subst h0
          have : readRegister .pn533 (.ok [0, a]) = .ok (.one a) := by simp [readRegister, regResult]
          rw [this]
          exact hdata
        · simp [readRegister, h0, chipErr]; exact Safe.throw (mid_chip s)
    all_goals
      match p, sh with
      | [a], _ =>
        have : ∀ f : Fam, f ≠ .pn533 → readRegister f (.ok [a]) = .ok (.one a) := by
          intro f hf; cases f <;> simp_all [readRegister, regResult]
        rw [this _ (by decide)]
        exact hdata

theorem tt3Poll_mid (fam : Fam) (r : Nat → Py Bytes) (polls : List (Py Bytes))
    (hr : ∀ i, Safe CmdDoc (r i)) (hp : ∀ x ∈ polls, Safe CmdDoc x)
    (sp : ∀ x ∈ polls, ∀ p, x = .ok p → RegShape fam 2 p)
    (s2 : ∀ p, r 2 = .ok p → WrShape fam p)
    (s3 : ∀ p, r 3 = .ok p → RegShape fam 1 p)
    (s4 : ∀ p, r 4 = .ok p → FifoShape fam p) :
    Safe Mid (tt3Poll fam r polls) := by
  induction polls with
  | nil => exact Safe.throw' doc_timeout.mid
  | cons x later ih =>
    unfold tt3Poll
    refine Safe.bind' (poll_mid fam x (hp x (by simp)) (sp x (by simp))) (fun irq => ?_)
    refine Safe.ite (Safe.throw' doc_brokenLink.mid) (Safe.ite ?_ ?_)
    · exact Safe.bind' (write_mid fam (r 2) (hr 2) s2)
        (fun _ => fifoRead_mid fam (r 3) (r 4) (hr 3) (hr 4) s3 s4)
    · exact ih (fun y hy => hp y (by simp [hy])) (fun y hy => sp y (by simp [hy]))

theorem pnTgTt3_doc (fam : Fam) (r : Nat → Py Bytes) (polls : List (Py Bytes))
    (hr : ∀ i, Safe CmdDoc (r i)) (hp : ∀ x ∈ polls, Safe CmdDoc x)
    (sp : ∀ x ∈ polls, ∀ p, x = .ok p → RegShape fam 2 p)
    (s0 : ∀ p, r 0 = .ok p → WrShape fam p)
    (s2 : ∀ p, r 2 = .ok p → WrShape fam p)
    (s3 : ∀ p, r 3 = .ok p → RegShape fam 1 p)
    (s4 : ∀ p, r 4 = .ok p → FifoShape fam p) :
    Safe Documented (pnTgTt3 .repaired fam r polls) := by
  unfold pnTgTt3
  apply guardChip_doc
  exact Safe.bind' (write_mid fam (r 0) (hr 0) s0) (fun _ => tt3Poll_mid fam r polls hr hp sp s2 s3 s4)


/-! ## UDP -/

theorem udpParse_doc (brty dg : Bytes) : Safe Documented (udpParse .repaired brty dg) := by
  intro e he
  unfold udpParse at he
  split at he
  · cases he; exact doc_brokenLink
  · split at he
    · split at he
      · cases he; exact doc_transmission
      · split at he
        · cases he; exact doc_transmission
        · split at he <;> cases he
    · cases he; exact doc_transmission

theorem udpRecv_doc (brty : Bytes) (evs : List Ev) : Safe Documented (udpRecv .repaired brty evs) := by
  induction evs with
  | nil => exact Safe.throw' doc_timeout
  | cons ev rest ih =>
    cases ev with
    | raise n => exact Safe.throw' (doc_io n)
    | good p => exact Safe.pure _
    | frame dg =>
      unfold udpRecv
      refine Safe.bind' (udpParse_doc brty dg) (fun o => ?_)
      cases o with
      | none => exact ih
      | some d => exact Safe.pure _

theorem udpExchange_doc (brty : Bytes) (hasData : Bool) (send recv : Host) :
    Safe Documented (udpExchange .repaired brty hasData send recv) := by
  unfold udpExchange
  refine Safe.bind' ?_ (fun _ => udpRecv_doc brty recv.reads)
  cases hasData
  · exact Safe.pure _
  · simp only [if_true]
    cases send.wr with
    | ok => exact Safe.pure _
    | raise n => exact Safe.throw' (doc_io n)
    | short => exact Safe.throw' doc_transmission

/-! ## RC-S380 (partial: host commands that complete or fail with a transport error) -/

/-- a host command either failed with a transport `IOError` or delivered a
response of at least `n` octets -/
def RcsOk (n : Nat) (x : Py (Option Bytes)) : Prop :=
  (∃ e, x = .error (.io e)) ∨ (∃ p, x = .ok (some p) ∧ n ≤ p.length)

/-- documented, or a `StatusError` still to be translated -/
def Mid2 (e : Exc) : Prop := Documented e ∨ e = .rcsStatus

theorem statusCheck_mid2 (x : Py (Option Bytes)) (h : RcsOk 0 x) : Safe Mid2 (statusCheck x) := by
  rcases h with ⟨n, rfl⟩ | ⟨p, rfl, _⟩
  · exact Safe.throw (Or.inl (doc_io n))
  · cases p with
    | nil => simp [statusCheck]; exact Safe.ok _
    | cons s t =>
      simp only [statusCheck, Py.bind_ok]
      exact Safe.ite (Safe.throw' (Or.inr rfl)) (Safe.pure _)

theorem guardStatus_doc {α} (x : Py α) (h : Safe Mid2 x) : Safe Documented (guardStatus .repaired x) := by
  intro e he
  cases x with
  | ok a => simp [guardStatus] at he
  | error e0 =>
    rcases h e0 rfl with hd | rfl
    · have : guardStatus .repaired (.error e0 : Py α) = .error e0 := by
        rcases hd with rfl | rfl | rfl | rfl | ⟨n, rfl⟩ <;> rfl
      rw [this] at he; cases he; exact hd
    · simp [guardStatus] at he; subst he; exact doc_io 5

theorem tt2Crc_doc (d : Bytes) : Safe Documented (tt2Crc d) := by
  unfold tt2Crc
  split
  · rename_i h
    obtain ⟨b, hb⟩ := checkCrcA_ok d h
    rw [hb]
    simp only [Py.bind_ok]
    exact Safe.ite (Safe.pure _) (Safe.throw' doc_transmission)
  · exact Safe.pure _

theorem inCommRf_cases (x : Py (Option Bytes)) (h : RcsOk 4 x) :
    (∃ n, inCommRf x = .error (.py (.io n))) ∨ (∃ st, inCommRf x = .error (.comm st)) ∨
    (∃ d, inCommRf x = .ok (some d)) := by
  rcases h with ⟨n, rfl⟩ | ⟨p, rfl, hp⟩
  · exact Or.inl ⟨n, rfl⟩
  · match p, hp with
    | a :: b :: c :: d :: t, _ =>
      by_cases hz : [a, b, c, d] = [0, 0, 0, 0]
      · cases hz; exact Or.inr (Or.inr ⟨_, rfl⟩)
      · refine Or.inr (Or.inl ⟨a + 256 * b + 65536 * c + 16777216 * d, ?_⟩)
        have hs : sliceN (a :: b :: c :: d :: t) 0 4 = [a, b, c, d] := by simp [sliceN]
        simp only [inCommRf, liftR, bind, Except.bind, hs, ne_eq, hz, not_false_eq_true, if_true, unpackLeL,
          pure, Except.pure, throw, throwThe, MonadExceptOf.throw]


@[simp] theorem RPy.bind_ok {α β} (a : α) (f : α → RPy β) : ((Except.ok a : RPy α) >>= f) = f a := rfl
@[simp] theorem RPy.bind_error {α β} (e : RErr) (f : α → RPy β) :
    ((Except.error e : RPy α) >>= f) = .error e := rfl

theorem tgCommRf_cases (x : Py (Option Bytes)) (h : RcsOk 7 x) :
    (∃ n, tgCommRf x = .error (.py (.io n))) ∨ (∃ st, tgCommRf x = .error (.comm st)) ∨
    (∃ d, tgCommRf x = .ok (some d)) := by
  rcases h with ⟨n, rfl⟩ | ⟨p, rfl, hp⟩
  · exact Or.inl ⟨n, rfl⟩
  · match p, hp with
    | x0 :: x1 :: x2 :: a :: b :: c :: d :: t, _ =>
      by_cases hz : [a, b, c, d] = [0, 0, 0, 0]
      · cases hz; exact Or.inr (Or.inr ⟨_, rfl⟩)
      · refine Or.inr (Or.inl ⟨a + 256 * b + 65536 * c + 16777216 * d, ?_⟩)
        have hs : sliceN (x0 :: x1 :: x2 :: a :: b :: c :: d :: t) 3 7 = [a, b, c, d] := by simp [sliceN]
        simp only [tgCommRf, liftR, bind, Except.bind, hs, ne_eq, hz, not_false_eq_true, if_true, unpackLeL,
          pure, Except.pure, throw, throwThe, MonadExceptOf.throw]

theorem rcsMapI_mid2 {α} (x : RPy α) (h : ∀ e, x = .error (.py e) → Mid2 e) : Safe Mid2 (rcsMapI x) := by
  intro e he
  match x, h with
  | .ok a, _ => simp [rcsMapI] at he
  | .error (.comm st), _ =>
    simp only [rcsMapI] at he
    split at he <;> cases he
    · exact Or.inl doc_timeout
    · exact Or.inl doc_transmission
  | .error (.py e0), h => simp [rcsMapI] at he; subst he; exact h e0 rfl

theorem rcsMapT_doc {α} (x : RPy α) (h : ∀ e, x = .error (.py e) → Documented e) :
    Safe Documented (rcsMapT x) := by
  intro e he
  match x, h with
  | .ok a, _ => simp [rcsMapT] at he
  | .error (.comm st), _ =>
    simp only [rcsMapT] at he
    split at he
    · cases he; exact doc_brokenLink
    · split at he <;> cases he
      · exact doc_timeout
      · exact doc_transmission
  | .error (.py e0), h => simp [rcsMapT] at he; subst he; exact h e0 rfl

theorem rcsSendRspRecvCmd_doc (r : Nat → Py (Option Bytes)) (h0 : RcsOk 7 (r 0)) :
    Safe Documented (rcsSendRspRecvCmd r) := by
  unfold rcsSendRspRecvCmd
  apply rcsMapT_doc
  intro e he
  rcases tgCommRf_cases (r 0) h0 with ⟨n, hn⟩ | ⟨st, hst⟩ | ⟨d, hd⟩
  · rw [hn] at he; cases he; exact doc_io n
  · rw [hst] at he; cases he
  · rw [hd] at he; cases he

theorem rcsSendCmdRecvRsp_doc (settings tt2 : Bool) (r : Nat → Py (Option Bytes))
    (h0 : RcsOk 0 (r 0)) (h1 : RcsOk 0 (r 1)) (h2 : RcsOk 0 (r 2))
    (hrf : RcsOk 4 (r (if settings then 3 else 2))) :
    Safe Documented (rcsSendCmdRecvRsp .repaired settings tt2 r) := by
  unfold rcsSendCmdRecvRsp
  apply guardStatus_doc
  refine Safe.bind' (statusCheck_mid2 _ h0) (fun _ => Safe.bind' (statusCheck_mid2 _ h1) (fun _ => ?_))
  apply rcsMapI_mid2
  intro e he
  have hpre : (if settings then liftR (statusCheck (r 2)) else (pure () : RPy Unit)) = .ok () ∨
      ∃ e', (if settings then liftR (statusCheck (r 2)) else (pure () : RPy Unit)) = .error (.py e') ∧ Mid2 e' := by
    cases settings
    · exact Or.inl rfl
    · simp only [if_true]
      have hs := statusCheck_mid2 _ h2
      cases hsc : statusCheck (r 2) with
      | ok u => exact Or.inl rfl
      | error e' => exact Or.inr ⟨e', rfl, hs e' hsc⟩
  rcases hpre with hp | ⟨e', hp, hm⟩
  · rw [hp] at he
    simp only [RPy.bind_ok] at he
    rcases inCommRf_cases _ hrf with ⟨n, hn⟩ | ⟨st, hst⟩ | ⟨d, hd⟩
    · rw [hn] at he; cases he; exact Or.inl (doc_io n)
    · rw [hst] at he; cases he
    · rw [hd] at he
      simp only [RPy.bind_ok] at he
      cases tt2
      · cases he
      · simp only [if_true, rcsTt2] at he
        cases hc : tt2Crc d with
        | ok x => rw [hc] at he; cases he
        | error e2 =>
          have hdoc := tt2Crc_doc d e2 hc
          rw [hc] at he
          cases he
          exact Or.inl hdoc
  · rw [hp] at he; cases he; exact hm


/-! ## all drivers -/

theorem exchange_eq (v : Variant) (c : Cfg) (brty : Bytes) (w : Nat → Host) (polls : List Host) :
    exchange v c brty w polls = driverExchange v c brty w polls := by
  unfold exchange frontendExchange
  cases c.dir <;> rfl

/-- every accepted response of the host commands of this exchange has the layout of the manual -/
def PayloadOK (c : Cfg) (w : Nat → Host) (polls : List Host) : Prop :=
  let r := fun i => chipCommand c.drv (codeAt c i) (w i)
  let fam := famOf c.drv
  match c.dir with
  | .initiator =>
    (∀ p, r 0 = .ok p → RegShape fam 3 p) ∧ (∀ p, r 1 = .ok p → WrShape fam p) ∧ (∀ p, r 3 = .ok p → p ≠ [])
  | .target =>
    if c.tt3 then
      (∀ h ∈ polls, ∀ p, chipCommand c.drv 0x06 h = .ok p → RegShape fam 2 p) ∧
      (∀ p, r 0 = .ok p → WrShape fam p) ∧ (∀ p, r 2 = .ok p → WrShape fam p) ∧
      (∀ p, r 3 = .ok p → RegShape fam 1 p) ∧ (∀ p, r 4 = .ok p → FifoShape fam p)
    else ∀ i, i < 2 → ∀ p, r i = .ok p → p ≠ []

theorem pn_exchange_doc (c : Cfg) (brty : Bytes) (w : Nat → Host) (polls : List Host)
    (h1 : c.drv ≠ .rcs380) (h2 : c.drv ≠ .udp) (hp : PayloadOK c w polls) :
    Safe Documented (driverExchange .repaired c brty w polls) := by
  obtain ⟨drv, dir, path, settings, tt3, hasData⟩ := c
  simp only at h1 h2
  have hr : ∀ i, Safe CmdDoc (chipCommand drv (codeAt ⟨drv, dir, path, settings, tt3, hasData⟩ i) (w i)) :=
    fun i => chipCommand_doc _ _ _
  cases dir
  · -- initiator
    simp only [PayloadOK] at hp
    obtain ⟨s0, s1, s3⟩ := hp
    have key := pnSendCmdRecvRsp_doc (famOf drv) path _ hr s0 s1 s3
    cases drv <;> first
      | exact absurd rfl h1
      | exact absurd rfl h2
      | exact Safe.bind' key (fun _ => Safe.pure _)
  · -- target
    simp only [PayloadOK] at hp
    cases tt3
    · simp only [Bool.false_eq_true, if_false] at hp
      have key := pnTgOther_doc hasData _ hr hp
      cases drv <;> first
        | exact absurd rfl h1
        | exact absurd rfl h2
        | exact Safe.bind' key (fun _ => Safe.pure _)
    · simp only [if_true] at hp
      obtain ⟨sp, s0, s2, s3, s4⟩ := hp
      have key := pnTgTt3_doc (famOf drv) _ (polls.map (chipCommand drv 0x06)) hr
        (by intro x hx; obtain ⟨h, _, rfl⟩ := List.mem_map.mp hx; exact chipCommand_doc _ _ _)
        (by intro x hx p hxp; obtain ⟨h, hh, rfl⟩ := List.mem_map.mp hx; exact sp h hh p hxp)
        s0 s2 s3 s4
      cases drv <;> first
        | exact absurd rfl h1
        | exact absurd rfl h2
        | exact Safe.bind' key (fun _ => Safe.pure _)

theorem udp_exchange_doc (c : Cfg) (brty : Bytes) (w : Nat → Host) (polls : List Host) (h : c.drv = .udp) :
    Safe Documented (driverExchange .repaired c brty w polls) := by
  obtain ⟨drv, dir, path, settings, tt3, hasData⟩ := c
  simp only at h
  subst h
  cases dir <;> exact Safe.bind' (udpExchange_doc brty hasData (w 0) (w 1)) (fun _ => Safe.pure _)

/-- RC-S380: every host command completes with a response of the specified
minimum length or fails with a transport `IOError` -/
def RcsHostOk (c : Cfg) (w : Nat → Host) : Prop :=
  let r := fun i => rcsSend (codeAt c i) (w i)
  match c.dir with
  | .initiator => RcsOk 0 (r 0) ∧ RcsOk 0 (r 1) ∧ RcsOk 0 (r 2) ∧
      RcsOk 4 (r (if (c.settings || c.path == .t2) then 3 else 2))
  | .target => RcsOk 7 (r 0)

theorem rcs_exchange_doc (c : Cfg) (brty : Bytes) (w : Nat → Host) (polls : List Host) (h : c.drv = .rcs380)
    (hh : RcsHostOk c w) : Safe Documented (driverExchange .repaired c brty w polls) := by
  obtain ⟨drv, dir, path, settings, tt3, hasData⟩ := c
  simp only at h
  subst h
  cases dir
  · simp only [RcsHostOk] at hh
    obtain ⟨h0, h1, h2, h3⟩ := hh
    exact rcsSendCmdRecvRsp_doc (settings || path == .t2) (path == .t2)
      (fun i => rcsSend (codeAt ⟨.rcs380, .initiator, path, settings, tt3, hasData⟩ i) (w i)) h0 h1 h2 h3
  · simp only [RcsHostOk] at hh
    exact rcsSendRspRecvCmd_doc
      (fun i => rcsSend (codeAt ⟨.rcs380, .target, path, settings, tt3, hasData⟩ i) (w i)) hh

end NfcVerif.ErrMap
