import NfcVerif.Model.CollectOps
import NfcVerif.Lemmas.CollectAll
/-! Lemmas for C10: the invariant of the send queues under every history of socket operations, and what
it gives for every frame `collect()` returns during the history. -/
namespace NfcVerif.Collect

/-- a queued PDU: header of at most 3 octets, not encrypted, and a UI / I PDU carries a payload within
the MIU it was checked against (`lim`), which is within the Link MIU -/
def Plain (M : Nat) (p : QPdu) : Prop :=
  p.hdr ≤ 3 ∧ p.icv = 0 ∧ (p.isData → p.payload ≤ p.lim ∧ p.lim ≤ M)

/-- a transmitted PDU: a UI / I PDU carries exactly one ICV (none without secure data transfer) on top of
a payload within its MIU, every other PDU is not encrypted -/
def Sent (M : Nat) (sec : Option Nat) (p : QPdu) : Prop :=
  p.hdr ≤ 3 ∧ (p.isData → p.icv = icvOf sec ∧ p.payload ≤ p.lim ∧ p.lim ≤ M) ∧ (¬ p.isData → p.icv = 0)

theorem ack_not_data (b : Bool) (n : Nat) : ¬ (ackPdu b n).isData := by
  cases b <;> simp [ackPdu, QPdu.isData]

/-- the connection MIU of an established data link connection is within the Link MIU -/
def DlcOk (M : Nat) (d : Dlc) : Prop := d.state = .established → d.sendMiu ≤ M

theorem gen_plain_sent (M : Nat) (sec : Option Nat) : Gen (Plain M) (Sent M sec) (DlcOk M) sec where
  rBusy d h := h
  rAck d h := h
  rShut d _ := by intro h; cases h
  ack b n := ⟨by simp [ackPdu], by simp [ackPdu], fun h => absurd h (ack_not_data b n)⟩
  ackQ b n := ⟨by simp [ackPdu], fun h => absurd h (ack_not_data b n), fun _ => by simp [ackPdu]⟩
  snl l := ⟨by simp [snlPdu], by simp [snlPdu], fun h => by simp [snlPdu, QPdu.isData] at h⟩
  enc p hp := by
    obtain ⟨h3, hi, hd⟩ := hp
    refine ⟨by rw [encrypt_hdr]; exact h3, ?_, ?_⟩
    · intro hdat
      have hdat' : p.isData := by unfold QPdu.isData at hdat ⊢; rw [encrypt_kind] at hdat; exact hdat
      rw [encrypt_payload, encrypt_lim]
      refine ⟨?_, hd hdat'⟩
      unfold QPdu.isData at hdat'
      unfold QPdu.encrypt icvOf
      cases sec with
      | none => exact hi
      | some n => simp only; rw [if_pos hdat']; simp only; omega
    · intro hnd
      have hnd' : ¬ p.isData := by unfold QPdu.isData at hnd ⊢; rw [encrypt_kind] at hnd; exact hnd
      rw [encrypt_not_data sec p hnd']; exact hi

/-- the invariant of a history: no raw access point socket, short headers, DM PDUs in the send lists,
every queued PDU is `Plain`, every established connection has a MIU within the Link MIU -/
def HistOk (M : Nat) (es : List Ent) : Prop := EntsOk es ∧ EntsAll (Plain M) (DlcOk M) es

/-- what the property asks of a transmitted frame -/
def FrameOk (M : Nat) (sec : Option Nat) (f : Frame) : Prop :=
  f.info ≤ M + f.slack sec ∧ ListAll (Sent M sec) f.pdus

theorem collect_ok (es : List Ent) (M : Nat) (sec : Option Nat) (agf : Bool) (hM : 3 ≤ M) (h : HistOk M es) :
    HistOk M (collect es M sec agf).2 ∧ ∀ f, (collect es M sec agf).1 = some f → FrameOk M sec f := by
  have hall := collect_all (gen_plain_sent M sec) es M agf h.2 _ _ rfl
  cases hfo : (collect es M sec agf).1 with
  | none =>
    -- nothing collected: the queues are what the dequeue paths left
    refine ⟨⟨?_, hall.1⟩, by simp⟩
    -- EntsOk of the residual state: via the bound lemmas on the same computation
    have hf := firstDequeue_spec (M : Int) (by omega) (rawFirst es) es h.1
    unfold collect at hfo ⊢
    simp only at hfo ⊢
    generalize firstDequeue (M : Int) (rawFirst es) es = first at hfo hf ⊢
    obtain ⟨fo1, fes⟩ := first
    cases fo1 with
    | some p =>
      simp only at hfo
      split at hfo
      · cases hfo
      · split at hfo
        · cases hfo
        · simp [aggregate] at hfo
    | none =>
      simp only at hfo ⊢
      have hk := firstSendack_spec fes hf.1
      generalize firstSendack fes = k at hfo hk ⊢
      obtain ⟨ko, kes⟩ := k
      cases ko with
      | none => exact hk.1
      | some p =>
        simp only at hfo
        split at hfo
        · cases hfo
        · simp [aggregate] at hfo
  | some f =>
    have hb := collect_bound es M sec agf h.1 hM f (collect es M sec agf).2 (by rw [← hfo])
    exact ⟨⟨hb.1, hall.1⟩, by intro f' hf'; cases hf'; exact ⟨hb.2, hall.2 f hfo⟩⟩

section setsock
variable {S : Sock → Prop} {L : List QPdu → Prop}

/-- entries whose sockets satisfy `S` and whose send list satisfies `L` -/
def EntWith (S : Sock → Prop) (L : List QPdu → Prop) : Ent → Prop
  | .sap s => (∀ k ∈ s.socks, S k) ∧ L s.sendList
  | .sd s => L s.dmpdu

theorem setSock_with {es : List Ent} {a j : Nat} {k : Sock} (h : ∀ e ∈ es, EntWith S L e) (hk : S k) :
    ∀ e ∈ setSock es a j k, EntWith S L e := by
  unfold setSock
  split
  · rename_i s hget
    have hs := h _ (List.mem_of_getElem? hget)
    intro e he
    rcases List.mem_or_eq_of_mem_set he with h1 | h1
    · exact h e h1
    · rw [h1]
      refine ⟨?_, hs.2⟩
      intro k' hk'
      rcases List.mem_or_eq_of_mem_set hk' with h2 | h2
      · exact hs.1 k' h2
      · rw [h2]; exact hk
  · exact h

theorem getSock_with {es : List Ent} {a j : Nat} {k : Sock} (h : ∀ e ∈ es, EntWith S L e)
    (hg : getSock es a j = some k) : S k := by
  unfold getSock at hg
  split at hg
  · rename_i s hget
    have hs := h _ (List.mem_of_getElem? hget)
    exact hs.1 k (List.mem_of_getElem? hg)
  · cases hg
end setsock

theorem entsOk_with (es : List Ent) : EntsOk es ↔ ∀ e ∈ es, EntWith SockOk (fun l => ∀ p ∈ l, Small p) e := by
  unfold EntsOk
  constructor <;> intro h e he <;> have := h e he <;> cases e <;> exact this

theorem entsAll_with (P : QPdu → Prop) (R : Dlc → Prop) (es : List Ent) :
    EntsAll P R es ↔ ∀ e ∈ es, EntWith (SockAll P R) (fun l => ∀ p ∈ l, P p) e := by
  unfold EntsAll
  constructor <;> intro h e he <;> have := h e he <;> cases e <;> exact this

/-- replacing a socket by one that satisfies the invariant keeps the invariant -/
theorem histOk_setSock {M : Nat} {es : List Ent} {a j : Nat} {k : Sock} (h : HistOk M es)
    (h1 : SockOk k) (h2 : SockAll (Plain M) (DlcOk M) k) : HistOk M (setSock es a j k) :=
  ⟨(entsOk_with _).2 (setSock_with ((entsOk_with _).1 h.1) h1),
   (entsAll_with _ _ _).2 (setSock_with ((entsAll_with _ _ _).1 h.2) h2)⟩

theorem histOk_getSock {M : Nat} {es : List Ent} {a j : Nat} {k : Sock} (h : HistOk M es)
    (hg : getSock es a j = some k) : SockOk k ∧ SockAll (Plain M) (DlcOk M) k :=
  ⟨getSock_with ((entsOk_with _).1 h.1) hg, getSock_with ((entsAll_with _ _ _).1 h.2) hg⟩

theorem histOk_set {M : Nat} {es : List Ent} {a : Nat} {e : Ent} (h : HistOk M es)
    (h1 : EntOk e) (h2 : EntAll (Plain M) (DlcOk M) e) : HistOk M (es.set a e) :=
  ⟨entsOk_set h.1 h1, entsAll_set h.2 h2⟩

theorem forall_append {P : QPdu → Prop} {q : List QPdu} {p : QPdu} (h : ∀ x ∈ q, P x) (hp : P p) :
    ∀ x ∈ q ++ [p], P x := by
  intro x hx; simp at hx
  rcases hx with hx | rfl
  · exact h x hx
  · exact hp

theorem dm_small (id : Nat) : Small (dmPdu id) := by simp [Small, dmPdu, QPdu.isData]
theorem dm_plain (M id : Nat) : Plain M (dmPdu id) := by simp [Plain, dmPdu, QPdu.isData]

theorem clamp_le (peerMiu M : Nat) : clampSendMiu peerMiu M ≤ M := by
  unfold clampSendMiu; split <;> omega

theorem histOk_insertAt {M : Nat} {es : List Ent} {a : Nat} {e : Ent} (h : HistOk M es)
    (h1 : EntOk e) (h2 : EntAll (Plain M) (DlcOk M) e) : HistOk M (insertAt es a e) := by
  have hm : ∀ x ∈ insertAt es a e, x ∈ es ∨ x = e := by
    intro x hx
    simp only [insertAt, List.mem_append, List.mem_cons] at hx
    rcases hx with hx | rfl | hx
    · exact Or.inl (List.mem_of_mem_take hx)
    · exact Or.inr rfl
    · exact Or.inl (List.mem_of_mem_drop hx)
  constructor
  · intro x hx; rcases hm x hx with h3 | rfl
    · exact h.1 x h3
    · exact h1
  · intro x hx; rcases hm x hx with h3 | rfl
    · exact h.2 x h3
    · exact h2

/-- every operation keeps the invariant; a frame it returns is within the limits -/
theorem step_ok (M : Nat) (sec : Option Nat) (agf : Bool) (hM : 3 ≤ M) (es : List Ent) (op : Op)
    (h : HistOk M es) :
    HistOk M (step M sec agf es op).1 ∧ ∀ f, (step M sec agf es op).2 = .frame (some f) → FrameOk M sec f := by
  cases op with
  | sendto a j n id =>
    simp only [step]
    split
    · rename_i sm q hg
      obtain ⟨h1, h2⟩ := histOk_getSock h hg
      split
      · exact ⟨histOk_setSock h h1 h2, by simp⟩
      · rename_i hn
        refine ⟨histOk_setSock h (forall_append h1 (by simp [POk, uiPdu]))
          (forall_append h2 ?_), by simp⟩
        refine ⟨by simp [uiPdu], by simp [uiPdu], fun _ => ?_⟩
        simp only [uiPdu, QPdu.payload]; omega
    · exact ⟨h, by simp⟩
  | send a j n id =>
    simp only [step]
    split
    · rename_i d q hg
      obtain ⟨h1, h2⟩ := histOk_getSock h hg
      split
      · exact ⟨h, by simp⟩
      · rename_i hest
        split
        · exact ⟨h, by simp⟩
        · rename_i hn
          split
          · exact ⟨h, by simp⟩
          · have hest' : d.state = .established := by
              cases hs : d.state <;> simp_all
            have hmiu := h2.1 hest'
            refine ⟨histOk_setSock h (forall_append h1 (by simp [POk, iPdu]))
              ⟨fun _ => hmiu, forall_append h2.2 ?_⟩, by simp⟩
            refine ⟨by simp [iPdu], by simp [iPdu], fun _ => ?_⟩
            simp only [iPdu, QPdu.payload]; omega
    · exact ⟨h, by simp⟩
  | connected a j peerMiu sendWin cLen cId =>
    simp only [step]
    split
    · rename_i d q hg
      obtain ⟨h1, h2⟩ := histOk_getSock h hg
      split
      · refine ⟨histOk_setSock h (forall_append h1 (by simp [POk]))
          ⟨fun _ => clamp_le _ _, forall_append h2.2 ?_⟩, by simp⟩
        exact ⟨by simp, by simp, fun hd => by simp [QPdu.isData] at hd⟩
      · split
        · exact ⟨h, by simp⟩
        · split <;> exact ⟨h, by simp⟩
    · exact ⟨h, by simp⟩
  | accepted a j peerMiu sendWin ccLen ccId =>
    simp only [step]
    split
    · rename_i s hget
      have hmem := List.mem_of_getElem? hget
      have hs1 := h.1 _ hmem
      have hs2 := h.2 _ hmem
      split
      · rename_i d q hj
        have hjm := List.mem_of_getElem? hj
        have hk1 := hs1.1 _ hjm
        have hk2 := hs2.1 _ hjm
        split
        · exact ⟨h, by simp⟩
        · split
          · exact ⟨h, by simp⟩
          · refine ⟨histOk_set h ⟨?_, hs1.2⟩ ⟨?_, hs2.2⟩, by simp⟩
            · intro k hk
              simp only [List.mem_cons] at hk
              rcases hk with rfl | hk
              · intro p hp; simp at hp
              · rcases List.mem_or_eq_of_mem_set hk with h3 | h3
                · exact hs1.1 k h3
                · rw [h3]; exact forall_append hk1 (by simp [POk])
            · intro k hk
              simp only [List.mem_cons] at hk
              rcases hk with rfl | hk
              · exact ⟨fun _ => clamp_le _ _, by simp⟩
              · rcases List.mem_or_eq_of_mem_set hk with h3 | h3
                · exact hs2.1 k h3
                · rw [h3]
                  exact ⟨hk2.1, forall_append hk2.2 ⟨by simp, by simp, fun hd => by simp [QPdu.isData] at hd⟩⟩
      · exact ⟨h, by simp⟩
    · exact ⟨h, by simp⟩
  | setRecv a j rw cnt ack confs busy =>
    simp only [step]
    split
    · rename_i d q hg
      obtain ⟨h1, h2⟩ := histOk_getSock h hg
      exact ⟨histOk_setSock h h1 ⟨h2.1, h2.2⟩, by simp⟩
    · exact ⟨h, by simp⟩
  | setSend a j sendWin sendCnt sendAck =>
    simp only [step]
    split
    · rename_i d q hg
      obtain ⟨h1, h2⟩ := histOk_getSock h hg
      exact ⟨histOk_setSock h h1 ⟨h2.1, h2.2⟩, by simp⟩
    · exact ⟨h, by simp⟩
  | bindLdl a =>
    simp only [step]
    refine ⟨histOk_insertAt h ⟨?_, by simp⟩ ⟨?_, by simp⟩, by simp⟩
    · intro k hk; simp at hk; rw [hk]; intro p hp; simp at hp
    · intro k hk; simp at hk; rw [hk]; intro p hp; simp at hp
  | bindDlc a rw =>
    simp only [step]
    refine ⟨histOk_insertAt h ⟨?_, by simp⟩ ⟨?_, by simp⟩, by simp⟩
    · intro k hk; simp at hk; rw [hk]; intro p hp; simp at hp
    · intro k hk; simp at hk; rw [hk]; exact ⟨by simp [DlcOk, newDlc], by simp⟩
  | listen a j =>
    simp only [step]
    split
    · rename_i d q hg
      obtain ⟨h1, h2⟩ := histOk_getSock h hg
      split
      · exact ⟨h, by simp⟩
      · split
        · exact ⟨h, by simp⟩
        · exact ⟨histOk_setSock h h1 ⟨by simp [DlcOk], h2.2⟩, by simp⟩
    · exact ⟨h, by simp⟩
  | sdres a v =>
    simp only [step]
    split
    · rename_i s hget
      have hmem := List.mem_of_getElem? hget
      have h1 := h.1 _ hmem
      have h2 := h.2 _ hmem
      exact ⟨histOk_set h h1 h2, by simp⟩
    · exact ⟨h, by simp⟩
  | sdreq a tid nl =>
    simp only [step]
    split
    · rename_i s hget
      have hmem := List.mem_of_getElem? hget
      have h1 := h.1 _ hmem
      have h2 := h.2 _ hmem
      exact ⟨histOk_set h h1 h2, by simp⟩
    · exact ⟨h, by simp⟩
  | sddm a id =>
    simp only [step]
    split
    · rename_i s hget
      have hmem := List.mem_of_getElem? hget
      exact ⟨histOk_set h (forall_append (h.1 _ hmem) (dm_small id)) (forall_append (h.2 _ hmem) (dm_plain M id)),
        by simp⟩
    · exact ⟨h, by simp⟩
  | dm a id =>
    simp only [step]
    split
    · rename_i s hget
      have hmem := List.mem_of_getElem? hget
      have hs1 := h.1 _ hmem
      have hs2 := h.2 _ hmem
      exact ⟨histOk_set h ⟨hs1.1, forall_append hs1.2 (dm_small id)⟩ ⟨hs2.1, forall_append hs2.2 (dm_plain M id)⟩,
        by simp⟩
    · exact ⟨h, by simp⟩
  | collect =>
    simp only [step]
    have := collect_ok es M sec agf hM h
    exact ⟨this.1, by intro f hf; injection hf with hf; exact this.2 f hf⟩

theorem mem_frames_cons {o : Outcome} {rest : List Outcome} {f : Frame} (h : f ∈ frames (o :: rest)) :
    o = .frame (some f) ∨ f ∈ frames rest := by
  cases o with
  | frame fo =>
    cases fo with
    | none => exact Or.inr h
    | some f' =>
      simp only [frames, List.mem_cons] at h
      rcases h with rfl | h
      · exact Or.inl rfl
      · exact Or.inr h
  | ok => exact Or.inr h
  | exc e => exact Or.inr h
  | bad => exact Or.inr h

/-- every history keeps the invariant and transmits only frames within the limits -/
theorem run_ok (M : Nat) (sec : Option Nat) (agf : Bool) (hM : 3 ≤ M) (ops : List Op) :
    ∀ es, HistOk M es →
    HistOk M (run M sec agf ops es).2 ∧ ∀ f ∈ frames (run M sec agf ops es).1, FrameOk M sec f := by
  induction ops with
  | nil => intro es h; exact ⟨h, by simp [run, frames]⟩
  | cons op ops ih =>
    intro es h
    have hs := step_ok M sec agf hM es op h
    have hr := ih _ hs.1
    simp only [run]
    refine ⟨hr.1, ?_⟩
    intro f hf
    rcases mem_frames_cons hf with h1 | h1
    · exact hs.2 f h1
    · exact hr.2 f h1

end NfcVerif.Collect
