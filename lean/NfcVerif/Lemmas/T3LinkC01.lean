import NfcVerif.Model.T3LinkC01
import NfcVerif.Lemmas.T3Write
import NfcVerif.Lemmas.T3EmuRound
/-! C01: the Type 3 reader over the Type 3 emulation behaves like the reader over a plain memory (the block store) -/
namespace NfcVerif.T3Link
open NfcVerif NfcVerif.T34 NfcVerif.T3Emu

/-- the emulated tag of the theorems: IDm and PMm of 8 octets, system code 12FCh -/
structure Ident (e : Emu) : Prop where
  idm : e.idm.length = 8
  pmm : e.pmm.length = 8
  sys : e.sys = [0x12, 0xFC]

/-! ### consecutive block lists -/

theorem mem_range' {first n b : Nat} (h : b ∈ List.range' first n) : first ≤ b ∧ b < first + n := by
  rw [List.mem_range'_1] at h; exact h

theorem nodup_range' (first n : Nat) : (List.range' first n).Nodup := List.nodup_range'

/-- the write callbacks over `first .. first+n-1` with the data blocks `i ..` of `d` store `d[16i : 16(i+n)]` at `16·first` -/
theorem writeAll_range (d : Bytes) : ∀ (n first i : Nat) (s : Bytes), 16 * (first + n) ≤ s.length →
    (i + n) * 16 ≤ d.length →
    writeAll d (List.range' first n) i s = splice s (16 * first) (sliceN d (i * 16) ((i + n) * 16)) := by
  intro n
  induction n with
  | zero => intro first i s _ _; simp [writeAll, sliceN]
  | succ n ih =>
    intro first i s hs hd
    rw [List.range'_succ]
    simp only [writeAll]
    have hl := blkSlice_length d i (by omega)
    have hsl : (splice s (first * 16) (blkSlice d i)).length = s.length := splice_length _ _ _ (by rw [hl]; omega)
    rw [ih (first + 1) (i + 1) _ (by rw [hsl]; omega) (by omega)]
    have e1 : 16 * (first + 1) = first * 16 + (blkSlice d i).length := by rw [hl]; omega
    rw [e1, splice_adj _ _ _ _ (by
      rw [hl, sliceN_length _ _ _ (by omega)]; omega)]
    congr 1
    · omega
    · unfold blkSlice
      rw [show i + 1 + n = i + (n + 1) by omega]
      exact sliceN_append d _ _ _ (by omega) (by omega)

theorem readAll_range (s : Bytes) : ∀ (n first : Nat), 16 * (first + n) ≤ s.length →
    readAll s (List.range' first n) = sliceN s (16 * first) (16 * (first + n)) := by
  intro n
  induction n with
  | zero => intro first _; simp [readAll, sliceN]
  | succ n ih =>
    intro first hs
    rw [List.range'_succ]
    simp only [readAll, List.flatMap_cons] at ih ⊢
    rw [ih (first + 1) (by omega)]
    rw [show first * 16 = 16 * first by omega, show (first + 1) * 16 = 16 * (first + 1) by omega,
      show first + 1 + n = first + (n + 1) by omega]
    exact sliceN_append s _ _ _ (by omega) (by omega)

/-- block list octets of a consecutive range: the reader-side frame bound of `T3.cmdCheck` -/
theorem codes_range (n first : Nat) : ((List.range' first n).flatMap codeOf).length = T3.elemSum first n := by
  induction n generalizing first with
  | zero => rfl
  | succ n ih =>
    rw [List.range'_succ]
    simp only [List.flatMap_cons, List.length_append, codeOf_length, ih (first + 1), T3.elemSum, T3.elemSize]

/-! ### one exchange -/

theorem exchange3_ok (e : Emu) (cmd r : Bytes) (st : Bytes) (log : List Call)
    (h : processCommand e cmd = .ok (some r, st, log)) :
    exchange3 e cmd = (.ok r, { e with store := st }, 1) := by
  simp [exchange3, deliver, processCommandR, h]

theorem checkRsp_ok (idm : Bytes) (hidm : idm.length = 8) (code : Nat) (body : Bytes) :
    checkRsp idm code ([12 + body.length, code + 1] ++ idm ++ [0, 0] ++ body) = .ok body := by
  obtain ⟨a, b, c, d, f, g, h, i, rfl⟩ := len8 idm hidm
  simp [checkRsp, sliceN]
  omega

/-- `write_to_ndef_service` on the emulation = the plain-memory write of `T3.sendW` -/
theorem wrBlocks_ok (e : Emu) (id : Ident e) (c : T3.WCmd) (hs : 16 * (c.blk + c.n) ≤ e.store.length)
    (h65 : c.blk + c.n ≤ 65536) (hd : c.data.length = 16 * c.n) (hfit : 14 + T3.elemSum c.blk c.n + c.data.length ≤ 255) :
    wrBlocks e e.idm c = (.ok (), { e with store := splice e.store (16 * c.blk) c.data }, 1) := by
  have hb : ∀ b ∈ List.range' c.blk c.n, b * 16 + 16 ≤ e.store.length := fun b hb => by
    have := mem_range' hb; omega
  have hb65 : ∀ b ∈ List.range' c.blk c.n, b < 65536 := fun b hb => by have := mem_range' hb; omega
  have hlen : (List.range' c.blk c.n).length = c.n := List.length_range'
  have hcl := codes_length_ge (List.range' c.blk c.n)
  have hcr := codes_range c.n c.blk
  obtain ⟨logw, hw⟩ := emuWrite_enc e (List.range' c.blk c.n) c.data hb65 (by omega) hb (by rw [hlen]; exact hd)
  have hbc := blockCodes_ok (List.range' c.blk c.n) hb65
  have hp := processCommand_write e ([1] ++ serviceCode 9 ++ [(List.range' c.blk c.n).length]
      ++ (List.range' c.blk c.n).flatMap codeOf ++ c.data) id.idm (by simp only [serviceCode, List.length_append, List.length_cons, List.length_nil]; omega) _ _ _ hw (by simp)
  have hwa := writeAll_range c.data c.n c.blk 0 e.store hs (by omega)
  have hfull : sliceN c.data (0 * 16) ((0 + c.n) * 16) = c.data := by
    simp only [Nat.zero_mul, Nat.zero_add, sliceN_zero_take]
    exact List.take_of_length_le (by omega)
  rw [hfull] at hwa
  unfold wrBlocks
  simp only [encWrite, hbc, Py.bind_ok, frame]
  rw [if_neg (by omega), if_neg (by simp only [serviceCode, List.length_append, List.length_cons, List.length_nil, id.idm]; omega)]
  simp only [hlen] at hp ⊢
  rw [exchange3_ok e _ _ _ _ hp]
  simp only
  have hc := checkRsp_ok e.idm id.idm 8 []
  simp only [List.length_nil, Nat.add_zero, List.append_nil] at hc
  have hc' : checkRsp e.idm 8 ([10 + [0, 0].length, 9] ++ e.idm ++ [0, 0]) = .ok [] := by simpa using hc
  rw [hc', hwa]
  rfl

/-- `read_from_ndef_service` on the emulation = reading the plain memory -/
theorem rdBlocks_ok (e : Emu) (id : Ident e) (first n : Nat) (hn : 1 ≤ n ∧ n ≤ 15) (hs : 16 * (first + n) ≤ e.store.length)
    (h65 : first + n ≤ 65536) : rdBlocks e e.idm first n = .ok (sliceN e.store (16 * first) (16 * (first + n))) := by
  have hb : ∀ b ∈ List.range' first n, b * 16 + 16 ≤ e.store.length := fun b hb => by
    have := mem_range' hb; omega
  have hb65 : ∀ b ∈ List.range' first n, b < 65536 := fun b hb => by have := mem_range' hb; omega
  have hlen : (List.range' first n).length = n := List.length_range'
  have hcr := codes_range n first
  have hes := T3.elemSum_le first n
  obtain ⟨logr, hr⟩ := emuRead_enc e (List.range' first n) hb65 (by omega) hb
  have hra := readAll_range e.store n first hs
  have hral : (readAll e.store (List.range' first n)).length = 16 * n := by
    rw [hra, sliceN_length _ _ _ hs]; omega
  have hbc := blockCodes_ok (List.range' first n) hb65
  have hp := processCommand_read e ([1] ++ serviceCode 11 ++ [(List.range' first n).length]
      ++ (List.range' first n).flatMap codeOf) id.idm (by simp only [serviceCode, List.length_append, List.length_cons, List.length_nil]; omega) _ _ hr (by simp only [List.length_append, List.length_cons, List.length_nil]; omega)
  unfold rdBlocks
  simp only [encRead, hbc, Py.bind_ok, frame]
  rw [if_neg (by omega), if_neg (by simp only [serviceCode, List.length_append, List.length_cons, List.length_nil, id.idm]; omega)]
  simp only [hlen] at hp ⊢
  rw [exchange3_ok e _ _ _ _ hp]
  simp only
  have hdiv : (readAll e.store (List.range' first n)).length / 16 = n := by omega
  have hc := checkRsp_ok e.idm id.idm 6 ([n] ++ readAll e.store (List.range' first n))
  have hc' : checkRsp e.idm 6 ([10 + ([0, 0, (readAll e.store (List.range' first n)).length / 16]
      ++ readAll e.store (List.range' first n)).length, 7] ++ e.idm
      ++ ([0, 0, (readAll e.store (List.range' first n)).length / 16] ++ readAll e.store (List.range' first n)))
      = .ok ([n] ++ readAll e.store (List.range' first n)) := by
    rw [hdiv]
    have : 10 + ([0, 0, n] ++ readAll e.store (List.range' first n)).length
        = 12 + ([n] ++ readAll e.store (List.range' first n)).length := by simp; omega
    rw [this]
    simpa [List.append_assoc] using hc
  rw [hc']
  simp only [Py.bind_ok, List.length_append, List.length_cons, List.length_nil, hral]
  rw [if_neg (by omega)]
  simp [hra]

theorem polling_ok (e : Emu) (id : Ident e) : polling e = .ok (e.idm, e.pmm) := by
  obtain ⟨a, b, c, d, f, g, h, i, hi⟩ := len8 e.idm id.idm
  obtain ⟨a', b', c', d', f', g', h', i', hp⟩ := len8 e.pmm id.pmm
  have hpc : processCommand e [6, 0, 0x12, 0xFC, 0, 0] = .ok (some ([18, 1] ++ e.idm ++ e.pmm), e.store, []) := by
    simp [processCommand, id.sys, hi, hp]
  unfold polling
  rw [exchange3_ok e _ _ _ _ hpc]
  simp [hi, hp, sliceN]

/-! ### the reader -/

theorem readLoop_spec (e : Emu) (id : Ident e) (nbr last : Nat) (hnbr : 1 ≤ nbr ∧ nbr ≤ 15) (hlast : 16 * last ≤ e.store.length)
    (h65 : last ≤ 65536) : ∀ fuel i acc, 1 ≤ i → 0 < fuel → last < fuel + i →
    readLoop e e.idm nbr last fuel i acc = .ok (some (acc ++ sliceN e.store (16 * i) (16 * last))) := by
  intro fuel
  induction fuel with
  | zero => intro i acc _ h; omega
  | succ fuel ih =>
    intro i acc hi _ hf
    unfold readLoop
    split
    · rw [sliceN_empty _ _ _ (by omega)]; simp
    · rename_i hlt
      have hlt : i < last := by omega
      have hmin : i < min (i + nbr) last := by omega
      rw [rdBlocks_ok e id i (min (i + nbr) last - i) (by omega) (by omega) (by omega)]
      simp only []
      rw [ih (i + nbr) _ (by omega) (by omega) (by omega)]
      congr 2
      rw [List.append_assoc]; congr 1
      have e1 : i + (min (i + nbr) last - i) = min (i + nbr) last := by omega
      rw [e1]
      by_cases hc : i + nbr ≤ last
      · rw [Nat.min_eq_left hc]; exact sliceN_append e.store _ _ _ (by omega) (by omega)
      · rw [Nat.min_eq_right (by omega), sliceN_empty e.store (16 * (i + nbr)) _ (by omega)]; simp

/-- a fresh reader of the emulated tag whose block 0 decodes to `a` -/
theorem see_spec (e : Emu) (id : Ident e) (a : T3.Attr) (hdec : T3.decodeAttr (e.store.take 16) = .ok (some a))
    (hver : a.ver / 16 = 1) (hnbr : 1 ≤ a.nbr) (hln : a.ln ≤ 16 * a.nmaxb) (h65 : a.nmaxb < 65536)
    (hmem : 16 * (a.nmaxb + 1) ≤ e.store.length) :
    see e = .ok (some { capacity := (a.nmaxb * 16 : Nat), readable := decide (a.writef = 0 ∧ a.nbr > 0),
                        writeable := decide (a.rwflag ≠ 0 ∧ a.nbw > 0),
                        data := (sliceN e.store 16 (16 * (1 + (a.ln + 15) / 16))).take a.ln }) := by
  unfold see readNdef
  rw [polling_ok e id]
  simp only [readAttr]
  rw [rdBlocks_ok e id 0 1 (by omega) (by omega) (by omega)]
  simp only [Nat.mul_zero, Nat.zero_add, Nat.mul_one, sliceN_zero_take, hdec, Py.bind_ok]
  rw [if_neg (by omega), if_neg (by omega), if_neg (by omega)]
  rw [readLoop_spec e id (min a.nbr 15) _ (by omega) (by omega) (by omega) _ 1 [] (by omega) (by omega) (by omega)]
  simp

/-! ### the writer -/

/-- a write command the emulation accepts on a store of `N` octets -/
structure Valid (c : T3.WCmd) (N : Nat) : Prop where
  n : 1 ≤ c.n
  inside : 16 * (c.blk + c.n) ≤ N
  b65 : c.blk + c.n ≤ 65536
  data : c.data.length = 16 * c.n
  fit : 14 + T3.elemSum c.blk c.n + c.data.length ≤ 255

theorem runWL_sim (cs : List T3.WCmd) : ∀ (e : Emu), Ident e → (∀ c ∈ cs, Valid c e.store.length) →
    runWL e.idm e cs = ⟨{ e with store := T3.applyW e.store cs }, cs.length, .ok ()⟩ := by
  induction cs with
  | nil => intro e _ _; simp [runWL, T3.applyW]
  | cons c cs ih =>
    intro e id hv
    have v := hv c List.mem_cons_self
    have hl : (splice e.store (16 * c.blk) c.data).length = e.store.length :=
      splice_length _ _ _ (by rw [v.data]; have := v.inside; omega)
    simp only [runWL]
    rw [wrBlocks_ok e id c v.inside v.b65 v.data v.fit]
    simp only
    have id' : Ident { e with store := splice e.store (16 * c.blk) c.data } := ⟨id.idm, id.pmm, id.sys⟩
    have := ih { e with store := splice e.store (16 * c.blk) c.data } id'
      (by intro c' hc'; simp only [hl]; exact hv c' (List.mem_cons_of_mem _ hc'))
    simp only at this
    rw [this]
    simp [T3.applyW]
    omega

/-- every command of the write plan is accepted by the emulation (frame size from `WriteFits`) -/
theorem plan_valid (m data : Bytes) (a : T3.Attr) (wf : T3.WF m a) (hlen : data.length ≤ 16 * a.nmaxb) :
    ∀ c ∈ T3.planWrite a data, Valid c m.length := by
  intro c hc
  obtain ⟨hconf, _, _, _⟩ := T3.write_confined m data a wf hlen
  have h1 := hconf c hc
  have hnbw := T3.batches_within_nbw a data wf.nbw c hc
  have hmem := wf.mem
  have h65 := wf.range.nmaxb
  have hn : 1 ≤ c.n := by
    simp only [T3.planWrite, List.mem_append, List.mem_cons, List.not_mem_nil, or_false] at hc
    have hpd : (T3.padded data).length = 16 * (1 + (data.length + 15) / 16 - 1) := by
      rw [T3.padded_length]; congr 1; omega
    rcases hc with (hc | hc) | hc
    · subst hc; simp
    · have := T3.dataCmds_mem (T3.padded data) a.nbw _ wf.nbw hpd _ 1 (by omega) c hc; omega
    · subst hc; simp
  refine ⟨hn, by omega, by omega, h1.2.2, ?_⟩
  have hfit := wf.fits
  unfold T3.WriteFits at hfit
  rw [h1.2.2]
  split at hfit
  · have := T3.elemSum_small c.blk c.n (by omega)
    have : c.n * 18 ≤ a.nbw * 18 := Nat.mul_le_mul_right _ hnbw
    omega
  · have := T3.elemSum_le c.blk c.n
    have : c.n * 19 ≤ a.nbw * 19 := Nat.mul_le_mul_right _ hnbw
    omega

/-- **Emulated Type 3 Tag, end to end.**  The reader (`Type3Tag.NDEF`) running against the emulation
(`Type3TagEmulation.process_command`) frame by frame, on every well-formed block store (any `Nbr`, any `Nbw` whose
write command fits the frame, any `Nmaxb` up to 65535 - block list elements of 2 and of 3 octets), for every
message up to the capacity: the assignment succeeds, every command is executed in one exchange, the store ends
as the plain-memory model says (`T3.finalMem`) and a fresh reader of the emulation sees exactly the message. -/
theorem link_roundtrip (e : Emu) (id : Ident e) (a : T3.Attr) (wf : T3.WF e.store a) (data : Bytes)
    (hlen : data.length ≤ 16 * a.nmaxb) :
    ∃ t, setOctets e data = .ok (some t) ∧ t.res = .ok () ∧ t.frames = (T3.planWrite a data).length ∧
      t.emu = { e with store := T3.finalMem e.store a data } ∧
      see t.emu = .ok (some ⟨(a.nmaxb * 16 : Nat), true, true, data⟩) := by
  have hr := wf.range
  have hsee := see_spec e id a wf.dec wf.ver wf.nbr.1 wf.ln hr.nmaxb wf.mem
  have hrd : readNdef e = .ok (some ⟨e.idm, a, ⟨(a.nmaxb * 16 : Nat), decide (a.writef = 0 ∧ a.nbr > 0),
      decide (a.rwflag ≠ 0 ∧ a.nbw > 0), (sliceN e.store 16 (16 * (1 + (a.ln + 15) / 16))).take a.ln⟩⟩) := by
    have hmem := wf.mem; have hln := wf.ln; have hnbr := wf.nbr; have hver := wf.ver; have h65 := hr.nmaxb
    unfold readNdef
    rw [polling_ok e id]
    simp only [readAttr]
    rw [rdBlocks_ok e id 0 1 (by omega) (by omega) (by omega)]
    simp only [Nat.mul_zero, Nat.zero_add, Nat.mul_one, sliceN_zero_take, wf.dec, Py.bind_ok]
    rw [if_neg (by omega), if_neg (by omega), if_neg (by omega)]
    rw [readLoop_spec e id (min a.nbr 15) _ (by omega) (by omega) (by omega) _ 1 [] (by omega) (by omega) (by omega)]
    simp
  have hplan := runWL_sim (T3.planWrite a data) e id (plan_valid e.store data a wf hlen)
  have hfin : T3.applyW e.store (T3.planWrite a data) = T3.finalMem e.store a data := by
    have hw := T3.writeNdef_spec e.store data a wf hlen
    unfold T3.writeNdef at hw
    rw [T3.readBlocks_ok e.store 0 1 (by omega) (by have := wf.mem; omega) (by omega)] at hw
    simp only [Nat.mul_zero, Nat.zero_add, Nat.mul_one, sliceN_zero_take, wf.dec, Py.bind_ok] at hw
    rw [if_neg (by have := wf.nbw; omega)] at hw
    exact T3.runW_mem_applyW _ _ _ hw
  have hwr : writeNdef e e.idm data = ⟨{ e with store := T3.finalMem e.store a data }, (T3.planWrite a data).length, .ok ()⟩ := by
    have hmem := wf.mem
    unfold writeNdef
    simp only [readAttr]
    rw [rdBlocks_ok e id 0 1 (by omega) (by omega) (by omega)]
    simp only [Nat.mul_zero, Nat.zero_add, Nat.mul_one, sliceN_zero_take, wf.dec, Py.bind_ok]
    rw [if_neg (by have := wf.nbw; omega), hplan, hfin]
  refine ⟨⟨{ e with store := T3.finalMem e.store a data }, (T3.planWrite a data).length, .ok ()⟩, ?_, rfl, rfl, rfl, ?_⟩
  · unfold setOctets
    rw [hrd]
    simp only [Py.bind_ok]
    have h1 := wf.rw; have h2 := wf.nbw
    rw [if_neg (by simp [h1]; omega), if_neg (by omega), hwr]
  · have hmem := wf.mem
    have hdec : T3.decodeAttr ((T3.finalMem e.store a data).take 16) = .ok (some { a with writef := 0, ln := data.length }) := by
      rw [T3.finalMem_attr e.store data a hmem hlen]
      exact T3.decode_encode _ ⟨hr.ver, hr.nbr, hr.nbw, hr.nmaxb, by simp, hr.rwflag, by simp only []; have := hr.nmaxb; omega⟩
    have id' : Ident { e with store := T3.finalMem e.store a data } := ⟨id.idm, id.pmm, id.sys⟩
    rw [see_spec _ id' { a with writef := 0, ln := data.length } hdec wf.ver wf.nbr.1 hlen hr.nmaxb
      (by simp only []; rw [T3.finalMem_length e.store data a hmem hlen]; exact hmem)]
    simp only []
    rw [T3.finalMem_data e.store data a hmem hlen, T3.take_padded]
    have h1 := wf.rw; have h2 := wf.nbw; have h3 := wf.nbr
    simp [h1]; omega

end NfcVerif.T3Link
