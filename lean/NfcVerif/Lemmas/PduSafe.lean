import NfcVerif.Lemmas.Pdu
/-!
# Decoding raises nothing but `DecodeError`; locality of `decodeAt`/`decodeNested`
-/
namespace NfcVerif.Pdu
open NfcVerif

/-- the only exception a decoder may raise -/
abbrev OnlyDecodeError : Exc → Prop := fun e => e = .decodeError

namespace Impl

theorem safe_of_eq_ok {α : Type} {S : Exc → Prop} {x : Py α} {a : α} (h : x = .ok a) : Safe S x := by
  subst h; exact Safe.ok a

theorem structToDecode_safe {α : Type} (x : Py α) (hx : ∀ e, x = .error e → e = .struct ∨ e = .decodeError) :
    Safe OnlyDecodeError (structToDecode x) := by
  unfold structToDecode
  apply Safe.wrap (S := OnlyDecodeError) (show OnlyDecodeError .decodeError from rfl)
  intro e he hc
  rcases hx e he with h | h
  · subst h; simp at hc
  · exact h

/-- the raw read of `Parameter.decode`: `T, L` and `L` value octets -/
def paramRaw (d : Bytes) (off : Nat) : Py (Nat × Nat × Bytes) :=
  structToDecode (unpackBB d off >>= fun (t, l) => unpackS l d (off + 2) >>= fun v => pure (t, l, v))

theorem paramRaw_safe (d : Bytes) (off : Nat) : Safe OnlyDecodeError (paramRaw d off) := by
  apply structToDecode_safe
  intro e he
  left
  unfold unpackBB at he
  split at he
  · simp only [Py.bind_ok] at he
    unfold unpackS at he
    split at he
    · cases he
    · cases he; rfl
  · cases he; rfl

theorem paramRaw_ok {d : Bytes} {off t l : Nat} {v : Bytes} (h : paramRaw d off = .ok (t, l, v)) :
    v.length = l ∧ off + 2 + l ≤ d.length := by
  unfold paramRaw structToDecode wrapExc at h
  split at h
  · split at h <;> cases h
  · rename_i a ha
    cases h
    obtain ⟨⟨t', l'⟩, e1, e2⟩ := Py.bind_eq_ok.mp ha
    obtain ⟨v', e3, e4⟩ := Py.bind_eq_ok.mp e2
    cases e4
    refine ⟨unpackS_ok_length e3, ?_⟩
    unfold unpackS at e3
    split at e3
    · assumption
    · cases e3

theorem paramDecode_eq (d : Bytes) (off : Nat) :
    paramDecode d off = (paramRaw d off >>= fun (t, l, v) =>
      if t = 1 then
        if l ≠ 1 then throw .decodeError else unpackB v 0 >>= fun x => pure (t, l, .num x)
      else if t = 2 then
        if l ≠ 2 then throw .decodeError else unpackH v 0 >>= fun x => pure (t, l, .num (x % 2048))
      else if t = 3 then
        if l ≠ 2 then throw .decodeError else unpackH v 0 >>= fun x => pure (t, l, .num x)
      else if t = 4 then
        if l ≠ 1 then throw .decodeError else unpackB v 0 >>= fun x => pure (t, l, .num x)
      else if t = 5 then
        if l ≠ 1 then throw .decodeError else unpackB v 0 >>= fun x => pure (t, l, .num (x % 16))
      else if t = 7 then
        if l ≠ 1 then throw .decodeError else unpackB v 0 >>= fun x => pure (t, l, .num (x % 8))
      else if t = 8 then
        if l = 0 then throw .decodeError else
        unpackB v 0 >>= fun tid => unpackS (l - 1) v 1 >>= fun sn => pure (t, l, .sdreq tid sn)
      else if t = 9 then
        if l ≠ 2 then throw .decodeError else unpackBB v 0 >>= fun (tid, sap) => pure (t, l, .sdres tid sap)
      else pure (t, l, .raw v)) := rfl

theorem safe_ite' {α : Type} {S : Exc → Prop} {c : Prop} [Decidable c] {x y : Py α}
    (hx : c → Safe S x) (hy : ¬c → Safe S y) : Safe S (if c then x else y) := by
  split <;> simp_all

theorem paramDecode_safe (d : Bytes) (off : Nat) : Safe OnlyDecodeError (paramDecode d off) := by
  rw [paramDecode_eq]
  apply Safe.bind (paramRaw_safe d off)
  rintro ⟨t, l, v⟩ hraw
  have hv := (paramRaw_ok hraw).1
  dsimp only
  have dE : Safe OnlyDecodeError (throw Exc.decodeError : Py (Nat × Nat × TlvV)) := Safe.throw' rfl
  repeat' (apply safe_ite' <;> intro _)
  all_goals first
    | exact dE
    | exact Safe.pure _
    | (obtain ⟨x, hx⟩ := unpackB_ok (d := v) (off := 0) (by omega); rw [hx]; exact Safe.pure _)
    | (obtain ⟨x, hx⟩ := unpackH_ok (d := v) (off := 0) (by omega); rw [hx]; exact Safe.pure _)
    | (obtain ⟨x, y, hx⟩ := unpackBB_ok (d := v) (off := 0) (by omega); rw [hx]; exact Safe.pure _)
    | skip
  -- SDREQ
  obtain ⟨x, hx⟩ := unpackB_ok (d := v) (off := 0) (by omega)
  rw [hx]
  have : 1 + (l - 1) ≤ v.length := by omega
  simp only [Py.bind_ok, unpackS, this, if_true]
  exact Safe.pure _

theorem tlvLoop_safe {σ : Type} (app : σ → Nat → TlvV → σ) (fuel : Nat) (d : Bytes) (off size : Nat) (st : σ)
    (hf : size ≤ fuel) : Safe OnlyDecodeError (tlvLoop app fuel d off size st) := by
  induction fuel generalizing off size st with
  | zero =>
    unfold tlvLoop
    have : size < 2 := by omega
    simp only [this, if_true]
    exact Safe.pure _
  | succ n ih =>
    unfold tlvLoop
    apply safe_ite' <;> intro hs
    · exact Safe.pure _
    · apply Safe.bind' (paramDecode_safe d off)
      rintro ⟨t, l, v⟩
      exact ih _ _ _ (by omega)

/-- facts about a header read inside the buffer -/
theorem decodeHeader_cases (d : Bytes) (off size : Nat) (h : off + size ≤ d.length) :
    (size < 2 ∧ decodeHeader d off size = .error .decodeError) ∨
    (2 ≤ size ∧ ∃ a b, decodeHeader d off size = .ok (a / 4, b % 64)) := by
  unfold decodeHeader
  by_cases hs : size < 2
  · left; simp [hs]
  · right
    obtain ⟨a, b, hab⟩ := unpackBB_ok (d := d) (off := off) (by omega)
    refine ⟨by omega, a, b, ?_⟩
    simp [hs, hab]

theorem decodeHeaderN_cases (d : Bytes) (off size : Nat) (h : off + size ≤ d.length) :
    (size < 3 ∧ decodeHeaderN d off size = .error .decodeError) ∨
    (3 ≤ size ∧ ∃ a b c, decodeHeaderN d off size = .ok (a / 4, b % 64, c / 16, c % 16)) := by
  unfold decodeHeaderN
  by_cases hs : size < 3
  · left; simp [hs]
  · right
    obtain ⟨a, b, c, hab⟩ := unpackBBB_ok (d := d) (off := off) (by omega)
    refine ⟨by omega, a, b, c, ?_⟩
    simp [hs, hab]

theorem dErr {α : Type} : Safe OnlyDecodeError (throw Exc.decodeError : Py α) := Safe.throw' rfl
theorem dErr' {α : Type} : Safe OnlyDecodeError (Except.error Exc.decodeError : Py α) := Safe.throw rfl

/-- every class decoder, started inside the buffer, raises nothing but DecodeError -/
theorem kind_safe (ptype : Nat) (dec : Bytes → Nat → Nat → Py SPdu) (hk : kindOf ptype = .simple dec)
    (d : Bytes) (off size : Nat) (h : off + size ≤ d.length) : Safe OnlyDecodeError (dec d off size) := by
  have hdr := decodeHeader_cases d off size h
  have hdrN := decodeHeaderN_cases d off size h
  unfold kindOf at hk
  split at hk <;> cases hk
  · -- SYMM
    unfold decSymm
    rcases hdr with ⟨_, e⟩ | ⟨_, a, b, e⟩ <;> rw [e]
    · exact dErr'
    · simp only [Py.bind_ok]
      repeat' (apply safe_ite' <;> intro _)
      all_goals first | exact dErr | exact Safe.pure _
  · -- PAX
    unfold decPax
    rcases hdr with ⟨_, e⟩ | ⟨_, a, b, e⟩ <;> rw [e]
    · exact dErr'
    · simp only [Py.bind_ok]
      apply safe_ite' <;> intro _
      · exact dErr
      · exact Safe.bind' (tlvLoop_safe _ _ _ _ _ _ (Nat.le_refl _)) (fun _ => Safe.pure _)
  · -- UI
    unfold decUi
    rcases hdr with ⟨_, e⟩ | ⟨_, a, b, e⟩ <;> rw [e]
    · exact dErr'
    · exact Safe.pure _
  · -- CONNECT
    unfold decConnect
    rcases hdr with ⟨_, e⟩ | ⟨_, a, b, e⟩ <;> rw [e]
    · exact dErr'
    · simp only [Py.bind_ok]
      exact Safe.bind' (tlvLoop_safe _ _ _ _ _ _ (Nat.le_refl _)) (fun _ => Safe.pure _)
  · -- DISC
    unfold decDisc
    rcases hdr with ⟨_, e⟩ | ⟨_, a, b, e⟩ <;> rw [e]
    · exact dErr'
    · exact Safe.pure _
  · -- CC
    unfold decCc
    rcases hdr with ⟨_, e⟩ | ⟨_, a, b, e⟩ <;> rw [e]
    · exact dErr'
    · simp only [Py.bind_ok]
      exact Safe.bind' (tlvLoop_safe _ _ _ _ _ _ (Nat.le_refl _)) (fun _ => Safe.pure _)
  · -- DM
    unfold decDm
    apply safe_ite' <;> intro hs
    · exact dErr
    · rcases hdr with ⟨_, e⟩ | ⟨_, a, b, e⟩ <;> rw [e]
      · exact dErr'
      · obtain ⟨x, hx⟩ := unpackB_ok (d := d) (off := off + 2) (by omega)
        simp only [Py.bind_ok, hx]
        exact Safe.pure _
  · -- FRMR
    unfold decFrmr
    apply safe_ite' <;> intro hs
    · exact dErr
    · rcases hdr with ⟨_, e⟩ | ⟨_, a, b, e⟩ <;> rw [e]
      · exact dErr'
      · obtain ⟨x0, x1, x2, x3, hx⟩ := unpackBBBB_ok (d := d) (off := off + 2) (by omega)
        simp only [Py.bind_ok, hx]
        exact Safe.pure _
  · -- SNL
    unfold decSnl
    rcases hdr with ⟨_, e⟩ | ⟨_, a, b, e⟩ <;> rw [e]
    · exact dErr'
    · simp only [Py.bind_ok]
      apply safe_ite' <;> intro _
      · exact dErr
      · exact Safe.bind' (tlvLoop_safe _ _ _ _ _ _ (Nat.le_refl _)) (fun _ => Safe.pure _)
  · -- DPS
    unfold decDps
    rcases hdr with ⟨_, e⟩ | ⟨_, a, b, e⟩ <;> rw [e]
    · exact dErr'
    · simp only [Py.bind_ok]
      apply safe_ite' <;> intro _
      · exact dErr
      · exact Safe.bind' (tlvLoop_safe _ _ _ _ _ _ (Nat.le_refl _)) (fun _ => Safe.pure _)
  · -- I
    unfold decInfo
    rcases hdrN with ⟨_, e⟩ | ⟨_, a, b, c, e⟩ <;> rw [e]
    · exact dErr'
    · exact Safe.pure _
  · -- RR
    unfold decRr
    rcases hdrN with ⟨_, e⟩ | ⟨_, a, b, c, e⟩ <;> rw [e]
    · exact dErr'
    · exact Safe.pure _
  · -- RNR
    unfold decRnr
    rcases hdrN with ⟨_, e⟩ | ⟨_, a, b, c, e⟩ <;> rw [e]
    · exact dErr'
    · exact Safe.pure _
  · -- unknown
    unfold decUnknown
    rcases hdr with ⟨_, e⟩ | ⟨_, a, b, e⟩ <;> rw [e]
    · exact dErr'
    · obtain ⟨x, hx⟩ := idxN_ok (d := d) (off := off) (by omega)
      obtain ⟨y, hy⟩ := idxN_ok (d := d) (off := off + 1) (by omega)
      simp only [Py.bind_ok, hx, hy]
      exact Safe.pure _

theorem decodePre_safe (data : Bytes) (off size : Nat) : Safe OnlyDecodeError (decodePre data off size) := by
  unfold decodePre
  apply safe_ite' <;> intro h1
  · exact dErr
  · apply safe_ite' <;> intro h2
    · exact dErr
    · have hl := sliceN_length data off size (by omega)
      obtain ⟨x, hx⟩ := unpackH_ok (d := sliceN data off (off + size)) (off := 0) (by omega)
      simp only [hx, Py.bind_ok]
      exact Safe.pure _

theorem decodePre_ok {data : Bytes} {off size : Nat} {d : Bytes} {t : Nat}
    (h : decodePre data off size = .ok (d, t)) :
    d = sliceN data off (off + size) ∧ d.length = size ∧ 2 ≤ size ∧ off + size ≤ data.length := by
  unfold decodePre at h
  split at h
  · cases h
  · split at h
    · cases h
    · obtain ⟨x, _, e⟩ := Py.bind_eq_ok.mp h
      cases e
      exact ⟨rfl, sliceN_length data off size (by omega), by omega, by omega⟩

theorem decodeNested_safe (data : Bytes) (off size : Nat) : Safe OnlyDecodeError (decodeNested data off size) := by
  unfold decodeNested
  apply Safe.bind (decodePre_safe data off size)
  rintro ⟨d, t⟩ hpre
  obtain ⟨_, hl, _, _⟩ := decodePre_ok hpre
  dsimp only
  split
  · exact dErr
  · rename_i dec hk
    exact kind_safe t dec hk d 0 size (by omega)

theorem agfLoop_safe (fuel : Nat) (d : Bytes) (off size : Nat) (acc : List SPdu) (hf : size ≤ fuel) :
    Safe OnlyDecodeError (agfLoop fuel d off size acc) := by
  induction fuel generalizing off size acc with
  | zero =>
    unfold agfLoop
    have : size = 0 := by omega
    simp only [this, if_true]
    exact Safe.pure _
  | succ n ih =>
    unfold agfLoop
    apply safe_ite' <;> intro hs
    · exact Safe.pure _
    · apply Safe.bind'
      · apply structToDecode_safe
        intro e he
        left
        unfold unpackH at he
        split at he <;> cases he
        rfl
      · intro k
        apply Safe.bind' (decodeNested_safe _ _ _)
        intro p
        exact ih _ _ _ (by omega)

theorem decAgf_safe (d : Bytes) (off size : Nat) (h : off + size ≤ d.length) :
    Safe OnlyDecodeError (decAgf d off size) := by
  unfold decAgf
  rcases decodeHeader_cases d off size h with ⟨_, e⟩ | ⟨_, a, b, e⟩ <;> rw [e]
  · exact dErr'
  · simp only [Py.bind_ok]
    apply safe_ite' <;> intro _
    · exact dErr
    · exact Safe.bind' (agfLoop_safe _ _ _ _ _ (Nat.le_refl _)) (fun _ => Safe.pure _)

/-- `decode(data, offset, size)` raises nothing but `DecodeError`, for every buffer, offset and size -/
theorem decodeAt_safe (data : Bytes) (off size : Nat) : Safe OnlyDecodeError (decodeAt data off size) := by
  unfold decodeAt
  apply Safe.bind (decodePre_safe data off size)
  rintro ⟨d, t⟩ hpre
  obtain ⟨_, hl, _, _⟩ := decodePre_ok hpre
  dsimp only
  split
  · exact decAgf_safe d 0 size (by omega)
  · rename_i dec hk
    exact Safe.bind' (kind_safe t dec hk d 0 size (by omega)) (fun _ => Safe.pure _)

/-! ## locality -/

theorem decodePre_local (pre e post : Bytes) :
    decodePre (pre ++ e ++ post) pre.length e.length = decodePre e 0 e.length := by
  unfold decodePre
  have h1 : ¬ (pre.length + e.length > (pre ++ e ++ post).length) := by simp
  have h2 : ¬ (0 + e.length > e.length) := by omega
  simp only [h1, h2, if_false, sliceN_append_mid, sliceN_all]

/-- an aggregated PDU is decoded from its own octets only -/
theorem decodeNested_local (pre e post : Bytes) :
    decodeNested (pre ++ e ++ post) pre.length e.length = decodeNested e 0 e.length := by
  unfold decodeNested
  rw [decodePre_local]

theorem decodeAt_local (pre e post : Bytes) :
    decodeAt (pre ++ e ++ post) pre.length e.length = decodeAt e 0 e.length := by
  unfold decodeAt
  rw [decodePre_local]

theorem decodeAt_of_nested {data : Bytes} {off size : Nat} {p : SPdu}
    (h : decodeNested data off size = .ok p) : decodeAt data off size = .ok (.simple p) := by
  unfold decodeNested at h
  unfold decodeAt
  obtain ⟨⟨d, t⟩, hpre, h⟩ := Py.bind_eq_ok.mp h
  rw [hpre]
  simp only [Py.bind_ok] at h ⊢
  split at h
  · cases h
  · rename_i dec hk
    simp only [h, Py.bind_ok, Py.pure_eq]

end Impl
end NfcVerif.Pdu
