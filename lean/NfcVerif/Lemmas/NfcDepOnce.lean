import NfcVerif.Lemmas.NfcDepTarget
/-!
# NFC-DEP: exactly once, in order, intact - for every fault script

Phase alignment between the loops of `Initiator.exchange` and the Target machine:
`sendLoop_sync`, `recvLoop_sync`, `exchange_sync`, `iApp_sync`, each transaction through the
at-most-once lemma `transact_tx`; `run_exactly_once` for equal DIDs, `run_mismatch` otherwise.
-/
namespace NfcVerif.NfcDep
open NfcVerif

theorem infResp_some {c : Cfg} {pni : Nat} {ts : List Bytes} {res : Pdu} (h : infResp c pni ts = some res) :
    ∃ p' ts', ts = p' :: ts' ∧ res = chunkPdu c pni p' := by
  unfold infResp at h
  cases ts with
  | nil => cases h
  | cons p' ts' =>
    dsimp only at h
    split at h
    · cases h
    · split at h
      · cases h
      · cases h; exact ⟨p', ts', rfl, rfl⟩

theorem chunk_not_tox (c : Cfg) (pni : Nat) (d : Bytes) : (chunkPdu c pni d).fmt? ≠ some fTOX := by
  unfold chunkPdu; simp only [Pdu.fmt?]; split <;> decide

section
variable (c : Cfg) (hdid : c.tdid = c.idid) (fuel : Nat)
include hdid

theorem sendLoop_sync : ∀ (n : Nat) (a : Air TState) (pniI : Nat) (sd acc : Bytes) (g ts : List Bytes) (p : Bytes),
    p = acc ++ sd → pniI < 4 → PData c pniI acc g ts a.peer →
    (∀ e, (sendLoop (targetPeer c) c fuel n a pniI sd).2.2 = .error e →
        (sendLoop (targetPeer c) c fuel n a pniI sd).1.peer.got = g ∨
        (sendLoop (targetPeer c) c fuel n a pniI sd).1.peer.got = g ++ [p])
    ∧ (∀ res, (sendLoop (targetPeer c) c fuel n a pniI sd).2.2 = .ok res →
        ∃ pl p' ts', pl < 4 ∧ (sendLoop (targetPeer c) c fuel n a pniI sd).2.1 = (pl + 1) % 4 ∧ ts = p' :: ts'
          ∧ res = chunkPdu c pl p'
          ∧ PPost pl (.sending p') (chunkPdu c pl p') (g ++ [p]) ts' (sendLoop (targetPeer c) c fuel n a pniI sd).1.peer)
  | 0, a, pniI, sd, acc, g, ts, p, _, _, hA => by
    unfold sendLoop
    exact ⟨fun e _ => Or.inl hA.2.1, fun _ h => by cases h⟩
  | n+1, a, pniI, sd, acc, g, ts, p, hp, hlt, hA => by
    unfold sendLoop
    dsimp only
    by_cases hrest : sd.drop c.imiu = []
    · -- last chunk
      have htake : sd.take c.imiu = sd := by
        have := List.drop_eq_nil_iff.mp hrest
        exact List.take_of_length_le this
      simp only [hrest, ne_eq, not_true_eq_false, if_false, htake]
      let r1 := infResp c pniI ts
      let B : TState → Prop := fun t => t.got = g ++ [p] ∧ PB pniI r1 t ∧
        ((t.status ≠ .running ∧ r1 = none) ∨ ∃ p' ts', ts = p' :: ts' ∧ r1 = some (chunkPdu c pniI p')
          ∧ PPost pniI (.sending p') (chunkPdu c pniI p') (g ++ [p]) ts' t)
      have H : TXHyp (targetPeer c) c (PData c pniI acc g ts) B r1 pniI (.dep fINF pniI c.idid c.inad sd) := by
        refine mkTX c hdid _ B r1 pniI fINF sd (by decide) (fun t h => PData_atn c h) ?_ (fun t h => h.2.1)
        intro t ht
        obtain ⟨t', he, hg', hts', hrun'⟩ := tRx_data_eq c hdid ht fINF c.inad sd (Or.inr rfl)
        have hi := tRecv_inf c t' pniI acc sd hrun' hg' hts'
        rw [he]
        refine ⟨⟨by rw [hi.2.1, hp], ?_, ?_⟩, hi.1⟩
        · rcases hi.2.2 with ⟨hd, hn⟩ | ⟨p', ts', _, hr, hpp⟩
          · exact Or.inr ⟨hd, hn⟩
          · have := hpp.toPB (by simp)
            show PB pniI (infResp c pniI ts) _
            rw [hr]; exact this
        · rcases hi.2.2 with ⟨hd, hn⟩ | ⟨p', ts', hts2, hr, hpp⟩
          · exact Or.inl ⟨hd, hn⟩
          · exact Or.inr ⟨p', ts', hts2, hr, by rw [hp]; exact hpp⟩
      have hnt : ∀ res, r1 = some res → res.fmt? ≠ some fTOX := by
        intro res hr
        obtain ⟨p', ts', _, rfl⟩ := infResp_some hr
        exact chunk_not_tox c pniI p'
      have hx := transact_tx H hnt fuel a hA
      generalize transact (targetPeer c) c fuel pniI a (.dep fINF pniI c.idid c.inad sd) = r at hx ⊢
      obtain ⟨a', u⟩ := r
      rcases hx with ⟨hA', hno⟩ | ⟨hB', hok⟩
      · cases u with
        | error e => exact ⟨fun _ _ => Or.inl hA'.2.1, fun _ h => by cases h⟩
        | ok res => exact absurd rfl (hno res)
      · cases u with
        | error e => exact ⟨fun _ _ => Or.inr hB'.1, fun _ h => by cases h⟩
        | ok res =>
          have hr := hok res rfl
          rcases hB'.2.2 with ⟨_, hn⟩ | ⟨p', ts', hts2, hr2, hpp⟩
          · rw [hn] at hr; cases hr
          · have hres : res = chunkPdu c pniI p' := by
              rw [hr2] at hr; cases hr; rfl
            subst hres
            have hfm : (if p'.length > c.tmiu then fMORE else fINF) ≠ fACK := by split <;> decide
            simp only [chunkPdu, hfm, false_and, if_false, ne_eq, not_true_eq_false]
            refine ⟨(fun _ h => by cases h), (fun res h => ?_)⟩
            cases h
            exact ⟨pniI, p', ts', hlt, rfl, hts2, rfl, hpp⟩
    · -- more chunks follow
      simp only [hrest, ne_eq, not_false_eq_true, if_true]
      let data := sd.take c.imiu
      have H : TXHyp (targetPeer c) c (PData c pniI acc g ts)
          (PPost pniI (.receiving (acc ++ data)) (ackPdu c pniI) g ts) (some (ackPdu c pniI)) pniI
          (.dep fMORE pniI c.idid c.inad data) := by
        refine mkTX c hdid _ _ _ pniI fMORE data (by decide) (fun t h => PData_atn c h) ?_
          (fun t h => h.toPB (by simp))
        intro t ht
        obtain ⟨t', he, hg', hts', hrun'⟩ := tRx_data_eq c hdid ht fMORE c.inad data (Or.inl rfl)
        have hm := tRecv_more c t' pniI acc data hrun' hg' hts'
        rw [he]; exact ⟨hm.2, hm.1⟩
      have hnt : ∀ res, some (ackPdu c pniI) = some res → res.fmt? ≠ some fTOX := by
        intro res hr; cases hr; simp [ackPdu, Pdu.fmt?]; decide
      have hx := transact_tx H hnt fuel a hA
      generalize transact (targetPeer c) c fuel pniI a (.dep fMORE pniI c.idid c.inad data) = r at hx ⊢
      obtain ⟨a', u⟩ := r
      rcases hx with ⟨hA', hno⟩ | ⟨hB', hok⟩
      · cases u with
        | error e => exact ⟨fun _ _ => Or.inl hA'.2.1, fun _ h => by cases h⟩
        | ok res => exact absurd rfl (hno res)
      · cases u with
        | error e => exact ⟨fun _ _ => Or.inl hB'.2.1, fun _ h => by cases h⟩
        | ok res =>
          have hr := hok res rfl
          cases hr
          simp only [ackPdu, hrest, and_false, if_false, ne_eq, not_true_eq_false, not_false_eq_true, if_true]
          have hA2 : PData c ((pniI + 1) % 4) (acc ++ data) g ts a'.peer :=
            ⟨hB'.1, hB'.2.1, hB'.2.2.1, Or.inr (Or.inr ⟨pniI, hB'.2.2.2.1, hlt, rfl, hB'.2.2.2.2.1⟩)⟩
          exact sendLoop_sync n a' ((pniI + 1) % 4) (sd.drop c.imiu) (acc ++ data) g ts p
            (by rw [hp, List.append_assoc, List.take_append_drop]) (Nat.mod_lt _ (by decide)) hA2

omit hdid in
theorem ackResp_some {pni : Nat} {rest : Bytes} {res : Pdu} (h : ackResp c pni rest = some res) :
    res = chunkPdu c pni rest := by
  unfold ackResp at h; split at h <;> cases h; rfl

omit hdid in
theorem PPost.next {pl : Nat} {p' : Bytes} {g ts : List Bytes} {t : TState} (hl : pl < 4)
    (h : PPost pl (.sending p') (chunkPdu c pl p') g ts t) (acc : Bytes) (hacc : acc = p'.take c.tmiu) :
    ((if p'.length > c.tmiu then fMORE else fINF) = fMORE ∧ ∃ d, PSend c ((pl + 1) % 4) d g ts t ∧ acc ++ d.drop c.tmiu = p')
    ∨ ((if p'.length > c.tmiu then fMORE else fINF) = fINF ∧ PData c ((pl + 1) % 4) [] g ts t ∧ acc = p') := by
  obtain ⟨hrun, hg, hts, hp, hloc, _⟩ := h
  by_cases hlen : p'.length > c.tmiu
  · left
    simp only [hlen, if_true, true_and]
    exact ⟨p', ⟨hrun, hg, hts, pl, hp, hl, rfl, hloc, hlen⟩, by rw [hacc, List.take_append_drop]⟩
  · right
    simp only [hlen, if_false, true_and]
    exact ⟨⟨hrun, hg, hts, Or.inr (Or.inl ⟨pl, p', hp, hl, rfl, hloc, by omega, rfl⟩)⟩,
      by rw [hacc]; exact List.take_of_length_le (by omega)⟩

theorem recvLoop_sync : ∀ (n : Nat) (a : Air TState) (pniI : Nat) (acc : Bytes) (fmt : Nat) (g ts : List Bytes) (p' : Bytes),
    pniI < 4 →
    ((fmt = fMORE ∧ ∃ d, PSend c pniI d g ts a.peer ∧ acc ++ d.drop c.tmiu = p')
      ∨ (fmt = fINF ∧ PData c pniI [] g ts a.peer ∧ acc = p')) →
    (∀ e, (recvLoop (targetPeer c) c fuel n a pniI acc fmt).2.2 = .error e →
        (recvLoop (targetPeer c) c fuel n a pniI acc fmt).1.peer.got = g)
    ∧ (∀ out, (recvLoop (targetPeer c) c fuel n a pniI acc fmt).2.2 = .ok out →
        out = p' ∧ (recvLoop (targetPeer c) c fuel n a pniI acc fmt).2.1 < 4
        ∧ PData c (recvLoop (targetPeer c) c fuel n a pniI acc fmt).2.1 [] g ts
            (recvLoop (targetPeer c) c fuel n a pniI acc fmt).1.peer)
  | 0, a, pniI, acc, fmt, g, ts, p', _, h => by
    unfold recvLoop
    refine ⟨fun e _ => ?_, fun _ h => by cases h⟩
    rcases h with ⟨_, d, hs, _⟩ | ⟨_, hd, _⟩
    · exact hs.2.1
    · exact hd.2.1
  | n+1, a, pniI, acc, fmt, g, ts, p', hlt, h => by
    unfold recvLoop
    rcases h with ⟨hf, d, hS, hacc⟩ | ⟨hf, hD, hacc⟩
    · subst hf
      simp only [ne_eq, not_true_eq_false, if_false]
      let rest := d.drop c.tmiu
      let r1 := ackResp c pniI rest
      let B : TState → Prop := fun t => t.got = g ∧ PB pniI r1 t ∧
        ((t.status ≠ .running ∧ r1 = none) ∨ (r1 = some (chunkPdu c pniI rest)
          ∧ PPost pniI (.sending rest) (chunkPdu c pniI rest) g ts t))
      have H : TXHyp (targetPeer c) c (PSend c pniI d g ts) B r1 pniI (.dep fACK pniI c.idid c.inad []) := by
        refine mkTX c hdid _ B r1 pniI fACK [] (by decide) (fun t h => PSend_atn c h) ?_ (fun t h => h.2.1)
        intro t ht
        have hk := tRx_ack c hdid ht c.inad
        refine ⟨⟨hk.2.1, ?_, hk.2.2⟩, hk.1⟩
        rcases hk.2.2 with ⟨hd, hn⟩ | ⟨hr, hpp⟩
        · exact Or.inr ⟨hd, hn⟩
        · have := hpp.toPB (by simp)
          show PB pniI (ackResp c pniI (d.drop c.tmiu)) _
          rw [hr]; exact this
      have hnt : ∀ res, r1 = some res → res.fmt? ≠ some fTOX := by
        intro res hr
        rw [ackResp_some c hr]
        exact chunk_not_tox c pniI rest
      have hx := transact_tx H hnt fuel a hS
      generalize transact (targetPeer c) c fuel pniI a (.dep fACK pniI c.idid c.inad []) = r at hx ⊢
      obtain ⟨a', u⟩ := r
      rcases hx with ⟨hA', hno⟩ | ⟨hB', hok⟩
      · cases u with
        | error e => exact ⟨fun _ _ => hA'.2.1, fun _ h => by cases h⟩
        | ok res => exact absurd rfl (hno res)
      · cases u with
        | error e => exact ⟨fun _ _ => hB'.1, fun _ h => by cases h⟩
        | ok res =>
          have hr := hok res rfl
          rcases hB'.2.2 with ⟨_, hn⟩ | ⟨hr2, hpp⟩
          · rw [hn] at hr; cases hr
          · have hres : res = chunkPdu c pniI rest := by
              rw [hr2] at hr; cases hr; rfl
            subst hres
            have hfm : ¬ ((if rest.length > c.tmiu then fMORE else fINF) ≠ fINF ∧
                (if rest.length > c.tmiu then fMORE else fINF) ≠ fMORE) := by split <;> decide
            simp only [chunkPdu, hfm, if_false, ne_eq, not_true_eq_false]
            have hn := hpp.next c hlt (rest.take c.tmiu) rfl
            refine recvLoop_sync n a' ((pniI + 1) % 4) (acc ++ rest.take c.tmiu) _ g ts p' (Nat.mod_lt _ (by decide)) ?_
            rcases hn with ⟨h1, d', hS', hd'⟩ | ⟨h1, hD', hd'⟩
            · exact Or.inl ⟨h1, d', hS', by rw [List.append_assoc, hd']; exact hacc⟩
            · refine Or.inr ⟨h1, hD', ?_⟩
              rw [hd']; exact hacc
    · subst hf
      have : fINF ≠ fMORE := by decide
      simp only [ne_eq, this, not_false_eq_true, if_true]
      exact ⟨(fun _ h => by cases h), (fun out h => by cases h; exact ⟨hacc, hlt, hD⟩)⟩

theorem exchange_sync (a : Air TState) (pniI : Nat) (p : Bytes) (g ts : List Bytes) (hlt : pniI < 4)
    (hA : PData c pniI [] g ts a.peer) :
    (∀ e, (exchange (targetPeer c) c fuel a pniI p).2.2 = .error e →
        (exchange (targetPeer c) c fuel a pniI p).1.peer.got = g ∨
        (exchange (targetPeer c) c fuel a pniI p).1.peer.got = g ++ [p])
    ∧ (∀ out, (exchange (targetPeer c) c fuel a pniI p).2.2 = .ok out →
        ∃ ts', ts = out :: ts' ∧ (exchange (targetPeer c) c fuel a pniI p).2.1 < 4
          ∧ PData c (exchange (targetPeer c) c fuel a pniI p).2.1 [] (g ++ [p]) ts'
              (exchange (targetPeer c) c fuel a pniI p).1.peer) := by
  unfold exchange
  split
  · exact ⟨fun _ _ => Or.inl hA.2.1, fun _ h => by cases h⟩
  · have hs := sendLoop_sync c hdid fuel fuel a pniI p [] g ts p (by simp) hlt hA
    generalize sendLoop (targetPeer c) c fuel fuel a pniI p = r at hs ⊢
    obtain ⟨a1, pni1, u⟩ := r
    cases u with
    | error e => exact ⟨fun _ _ => hs.1 e rfl, fun _ h => by cases h⟩
    | ok res =>
      obtain ⟨pl, p', ts', hpl, hp1, hts, hres, hpp⟩ := hs.2 res rfl
      dsimp only at hp1 hpp
      subst hres hp1
      have hfm : ¬ ((if p'.length > c.tmiu then fMORE else fINF) ≠ fINF ∧
          (if p'.length > c.tmiu then fMORE else fINF) ≠ fMORE) := by split <;> decide
      simp only [chunkPdu, hfm, if_false]
      have hn := hpp.next c hpl (p'.take c.tmiu) rfl
      have hr := recvLoop_sync c hdid fuel fuel a1 ((pl + 1) % 4) (p'.take c.tmiu) _ (g ++ [p]) ts' p'
        (Nat.mod_lt _ (by decide)) hn
      refine ⟨fun e he => Or.inr (hr.1 e he), fun out ho => ?_⟩
      obtain ⟨h1, h2, h3⟩ := hr.2 out ho
      exact ⟨ts', by rw [hts, h1], h2, h3⟩

theorem iApp_sync (pi0 pt0 : List Bytes) : ∀ (rem : List Bytes) (a : Air TState) (pniI : Nat) (gotI g ts : List Bytes),
    pniI < 4 → PData c pniI [] g ts a.peer → pi0 = g ++ rem → pt0 = gotI ++ ts →
    (iApp (targetPeer c) c fuel rem a pniI gotI).1.peer.got <+: pi0
    ∧ (iApp (targetPeer c) c fuel rem a pniI gotI).2.1 <+: pt0
    ∧ ((iApp (targetPeer c) c fuel rem a pniI gotI).2.2 = none →
        (iApp (targetPeer c) c fuel rem a pniI gotI).1.peer.got = pi0
        ∧ (iApp (targetPeer c) c fuel rem a pniI gotI).2.1.length = gotI.length + rem.length)
  | [], a, pniI, gotI, g, ts, _, hA, h1, h2 => by
    unfold iApp
    exact ⟨by rw [hA.2.1, h1]; simp, by rw [h2]; simp, fun _ => ⟨by rw [hA.2.1, h1]; simp, by simp⟩⟩
  | p :: ps, a, pniI, gotI, g, ts, hlt, hA, h1, h2 => by
    unfold iApp
    have hx := exchange_sync c hdid fuel a pniI p g ts hlt hA
    generalize exchange (targetPeer c) c fuel a pniI p = r at hx ⊢
    obtain ⟨a', pni', u⟩ := r
    cases u with
    | error e =>
      refine ⟨?_, by rw [h2]; simp, fun h => by cases h⟩
      rcases hx.1 e rfl with h | h
      · show a'.peer.got <+: pi0
        rw [h, h1]; simp
      · show a'.peer.got <+: pi0
        rw [h, h1]; exact ⟨ps, by simp⟩
    | ok out =>
      obtain ⟨ts', hts, hlt', hA'⟩ := hx.2 out rfl
      have ih := iApp_sync pi0 pt0 ps a' pni' (gotI ++ [out]) (g ++ [p]) ts' hlt' hA'
        (by rw [h1]; simp) (by rw [h2, hts]; simp)
      refine ⟨ih.1, ih.2.1, fun h => ?_⟩
      have := ih.2.2 h
      exact ⟨this.1, by rw [this.2]; simp; omega⟩

omit hdid in
theorem tRx_dsl_got (t : TState) (rel : Bool) (did : Option Nat) :
    (tRx c t (.frame (if rel then .rls did else .dsl did))).1.got = t.got := by
  obtain ⟨pni, loc, depRes, tosend, got, status⟩ := t
  by_cases hr : status = .running
  · subst hr
    by_cases hd : did = c.tdid
    · cases rel <;> cases loc <;> simp [tRx, tRx.tRxActive, Pdu.didAttr, hd] <;> split <;> rfl
    · cases rel <;> cases loc <;> simp [tRx, tRx.tRxActive, Pdu.didAttr, hd]
  · cases rel <;> simp [tRx, hr]

omit hdid in
theorem deactivate_got (rel : Bool) (a : Air TState) :
    (deactivate (targetPeer c) c rel a).1.peer.got = a.peer.got := by
  unfold deactivate
  have hp := xfer_peer (targetPeer c) (fun _ => rfl) a (if rel then .rls c.idid else .dsl c.idid)
  have hx : (xfer (targetPeer c) a (if rel then .rls c.idid else .dsl c.idid)).1.peer.got = a.peer.got := by
    rcases hp with hp | hp
    · rw [hp.1]
    · rw [hp.1]; exact tRx_dsl_got c a.peer rel c.idid
  generalize xfer (targetPeer c) a (if rel then .rls c.idid else .dsl c.idid) = r at hx ⊢
  obtain ⟨a', u⟩ := r
  cases u with
  | error e => dsimp only; split <;> exact hx
  | ok _ => exact hx

/-- safety of the composed system when both sides use the same DID -/
theorem run_exactly_once (script : List Fault) (rel : Nat) (pi pt : List Bytes) :
    (run c fuel script rel pi pt).t.got <+: pi ∧ (run c fuel script rel pi pt).gotI <+: pt := by
  have h0 : PData c 0 [] [] pt (TState.init pt) :=
    ⟨rfl, rfl, rfl, Or.inl ⟨rfl, Or.inl rfl, rfl, rfl⟩⟩
  have h := iApp_sync c hdid fuel pi pt pi
    { script := script, peer := TState.init pt, expired := false, wire := [] } 0 [] [] pt (by decide) h0 rfl rfl
  unfold run
  dsimp only
  generalize iApp (targetPeer c) c fuel pi _ 0 [] = r at h ⊢
  obtain ⟨a1, got, err⟩ := r
  dsimp only at h ⊢
  split
  · exact ⟨h.1, h.2.1⟩
  · exact ⟨by rw [deactivate_got]; exact h.1, h.2.1⟩

/-- a run without error delivered everything, both ways -/
theorem run_complete (script : List Fault) (rel : Nat) (pi pt : List Bytes)
    (hok : (run c fuel script rel pi pt).errI = none) :
    (run c fuel script rel pi pt).t.got = pi ∧ (run c fuel script rel pi pt).gotI = pt.take pi.length := by
  have h0 : PData c 0 [] [] pt (TState.init pt) :=
    ⟨rfl, rfl, rfl, Or.inl ⟨rfl, Or.inl rfl, rfl, rfl⟩⟩
  have h := iApp_sync c hdid fuel pi pt pi
    { script := script, peer := TState.init pt, expired := false, wire := [] } 0 [] [] pt (by decide) h0 rfl rfl
  unfold run at hok ⊢
  dsimp only at hok ⊢
  generalize iApp (targetPeer c) c fuel pi _ 0 [] = r at h hok ⊢
  obtain ⟨a1, got, err⟩ := r
  dsimp only at h hok ⊢
  have hc := h.2.2 hok
  have hg : got = pt.take pi.length := by
    obtain ⟨rest, hr⟩ := h.2.1
    have hl : got.length = pi.length := by simpa using hc.2
    rw [← hr, ← hl]; simp
  split
  · exact ⟨hc.1, hg⟩
  · exact ⟨by rw [deactivate_got]; exact hc.1, hg⟩
end
/-- a frame whose DID differs from the Target's is never answered and never changes what was delivered -/
theorem tRx_mismatch (c : Cfg) (t : TState) (req : Pdu) (h : req.didAttr ≠ c.tdid) :
    (tRx c t (.frame req)).2 = none ∧ (tRx c t (.frame req)).1.got = t.got := by
  obtain ⟨pni, loc, depRes, tosend, got, status⟩ := t
  by_cases hr : status = .running
  · subst hr
    cases loc <;> cases req <;> simp [tRx, tRx.tRxActive, h]
  · simp [tRx, hr]

/-- ... nor changes anything in the Target, except that `clf.listen` has returned (`listen -> first`) -/
theorem tRx_foreign (c : Cfg) (t : TState) (req : Pdu) (h : req.didAttr ≠ c.tdid) :
    (tRx c t (.frame req)).2 = none ∧
    ((tRx c t (.frame req)).1 = t ∨ (t.loc = .listen ∧ (tRx c t (.frame req)).1 = { t with loc := .first })) := by
  obtain ⟨pni, loc, depRes, tosend, got, status⟩ := t
  by_cases hr : status = .running
  · subst hr
    cases loc <;> cases req <;> simp [tRx, tRx.tRxActive, h]
  · simp [tRx, hr]

theorem tRx_atn_got (c : Cfg) (t : TState) : (tRx c t (.frame (atnPdu c))).1.got = t.got := by
  have key : ∀ did, (tRx c t (.frame (.dep fATN 0 did none []))).1.got = t.got := by
    intro did
    rcases tRx_atn_state c t did with h1 | ⟨_, h1⟩ <;> rw [h1]
  rcases atn_cases c with h1 | h1 <;> rw [h1] <;> exact key _

section
variable (c : Cfg) (hne : c.tdid ≠ c.idid) (fuel : Nat)
include hne

theorem mismatchTX (g : List Bytes) (pni fmt rp : Nat) (data : Bytes) :
    TXHyp (targetPeer c) c (fun t => t.got = g) (fun t => t.got = g) none pni (.dep fmt rp c.idid c.inad data) where
  cor := fun _ => rfl
  aAtn := fun t h => by show (tRx c t _).1.got = g; rw [tRx_atn_got]; exact h
  aReq := fun t h => by
    have := tRx_mismatch c t (.dep fmt rp c.idid c.inad data) (fun h' => hne h'.symm)
    exact ⟨by show (tRx c t _).1.got = g; rw [this.2]; exact h, this.1⟩
  bReq := fun t h => by
    have := tRx_mismatch c t (.dep fmt rp c.idid c.inad data) (fun h' => hne h'.symm)
    exact ⟨by show (tRx c t _).1.got = g; rw [this.2]; exact h, Or.inl this.1⟩
  bNak := fun t h => by
    have := tRx_mismatch c t (.dep fNAK pni c.idid c.inad []) (fun h' => hne h'.symm)
    exact ⟨by show (tRx c t _).1.got = g; rw [this.2]; exact h, Or.inl this.1⟩
  bAtn := fun t h => by show (tRx c t _).1.got = g; rw [tRx_atn_got]; exact h

theorem transact_mismatch (g : List Bytes) (pni fmt : Nat) (data : Bytes) (a : Air TState) (h : a.peer.got = g) :
    (transact (targetPeer c) c fuel pni a (.dep fmt pni c.idid c.inad data)).1.peer.got = g
    ∧ ∀ res, (transact (targetPeer c) c fuel pni a (.dep fmt pni c.idid c.inad data)).2 ≠ .ok res := by
  have hx := transact_tx (mismatchTX c hne g pni fmt pni data) (fun _ h => by cases h) fuel a h
  rcases hx with ⟨h1, h2⟩ | ⟨h1, h2⟩
  · exact ⟨h1, h2⟩
  · exact ⟨h1, fun res hr => by cases h2 res hr⟩

theorem exchange_mismatch (g : List Bytes) (a : Air TState) (pni : Nat) (p : Bytes) (h : a.peer.got = g) :
    (exchange (targetPeer c) c fuel a pni p).1.peer.got = g
    ∧ ∀ out, (exchange (targetPeer c) c fuel a pni p).2.2 ≠ .ok out := by
  unfold exchange
  split
  · exact ⟨h, fun _ h => by cases h⟩
  · have hs : (sendLoop (targetPeer c) c fuel fuel a pni p).1.peer.got = g
        ∧ ∀ res, (sendLoop (targetPeer c) c fuel fuel a pni p).2.2 ≠ .ok res := by
      cases fuel with
      | zero => unfold sendLoop; exact ⟨h, fun _ h => by cases h⟩
      | succ n =>
        unfold sendLoop
        dsimp only
        have ht := transact_mismatch c hne (n+1) g pni
          (if List.drop c.imiu p ≠ [] then fMORE else fINF) (List.take c.imiu p) a h
        generalize transact (targetPeer c) c (n+1) pni a _ = r at ht ⊢
        obtain ⟨a', u⟩ := r
        cases u with
        | error e => exact ⟨ht.1, fun _ h => by cases h⟩
        | ok res => exact absurd rfl (ht.2 res)
    generalize sendLoop (targetPeer c) c fuel fuel a pni p = r at hs ⊢
    obtain ⟨a1, pni1, u⟩ := r
    cases u with
    | error e => exact ⟨hs.1, fun _ h => by cases h⟩
    | ok res => exact absurd rfl (hs.2 res)

theorem iApp_mismatch (g : List Bytes) : ∀ (rem : List Bytes) (a : Air TState) (pni : Nat) (gotI : List Bytes),
    a.peer.got = g →
    (iApp (targetPeer c) c fuel rem a pni gotI).1.peer.got = g ∧ (iApp (targetPeer c) c fuel rem a pni gotI).2.1 = gotI
  | [], a, pni, gotI, h => by unfold iApp; exact ⟨h, rfl⟩
  | p :: ps, a, pni, gotI, h => by
    unfold iApp
    have hx := exchange_mismatch c hne fuel g a pni p h
    generalize exchange (targetPeer c) c fuel a pni p = r at hx ⊢
    obtain ⟨a', pni', u⟩ := r
    cases u with
    | error e => exact ⟨hx.1, rfl⟩
    | ok out => exact absurd rfl (hx.2 out)

/-- different DIDs on the two sides: nothing is ever delivered -/
theorem run_mismatch (script : List Fault) (rel : Nat) (pi pt : List Bytes) :
    (run c fuel script rel pi pt).t.got = [] ∧ (run c fuel script rel pi pt).gotI = [] := by
  have h := iApp_mismatch c hne fuel [] pi
    { script := script, peer := TState.init pt, expired := false, wire := [] } 0 [] rfl
  unfold run
  dsimp only
  generalize iApp (targetPeer c) c fuel pi _ 0 [] = r at h ⊢
  obtain ⟨a1, got, err⟩ := r
  dsimp only at h ⊢
  split
  · exact h
  · exact ⟨by rw [deactivate_got]; exact h.1, h.2⟩
end

/-- **Exactly once, in order, intact**: for every configuration, fault script, fuel, release mode and
payload lists, what `Target.exchange` returned is a prefix of what the Initiator passed in and vice versa. -/
theorem run_prefix (c : Cfg) (fuel : Nat) (script : List Fault) (rel : Nat) (pi pt : List Bytes) :
    (run c fuel script rel pi pt).t.got <+: pi ∧ (run c fuel script rel pi pt).gotI <+: pt := by
  by_cases hdid : c.tdid = c.idid
  · exact run_exactly_once c hdid fuel script rel pi pt
  · have := run_mismatch c hdid fuel script rel pi pt
    rw [this.1, this.2]; simp
end NfcVerif.NfcDep
