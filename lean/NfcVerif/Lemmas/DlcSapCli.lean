import NfcVerif.Lemmas.DlcSapStep
/-!
# A controller that never listens emits a disciplined PDU stream

`KInv` is the invariant of a controller on which no socket ever listens (so every access point holds exactly one
socket): relative to the log `out` of everything it has sent, the CONNECT PDUs still queued on the socket of an
access point carry increasing connection numbers above everything sent from that address, and a connected socket
carries a number not below them.  Hence `Disc c.out` - whatever arrives at the controller.
-/
namespace NfcVerif.DlcSap
open NfcVerif NfcVerif.Dlc

theorem Disc.snoc {l : List WPdu} {w : WPdu} (h : Disc l) (hw : StepOk l w) : Disc (l ++ [w]) := by
  intro pre x post hl
  rcases List.eq_nil_or_concat post with rfl | ⟨post', y, rfl⟩
  · have := List.append_inj' hl rfl
    obtain ⟨h1, h2⟩ := this
    cases h2
    rw [← h1]; exact hw
  · have : l ++ [w] = (pre ++ x :: post') ++ [y] := by rw [hl]; simp
    have := List.append_inj' this rfl
    exact h pre x post' this.1

theorem hiOf_append_quiet (l : List WPdu) (w : WPdu) (p : Nat) (h : w.isConn = false) : hiOf (l ++ [w]) p = hiOf l p := by
  rw [hiOf_append, if_neg (by simp [h])]

theorem hiOf_append_other (l : List WPdu) (w : WPdu) (p : Nat) (h : w.ssap ≠ p) : hiOf (l ++ [w]) p = hiOf l p := by
  rw [hiOf_append, if_neg (fun hc => h hc.2)]

theorem hiOf_append_conn (l : List WPdu) (w : WPdu) (h : w.isConn = true) (hlt : hiOf l w.ssap < w.cid) :
    hiOf (l ++ [w]) w.ssap = w.cid := by
  rw [hiOf_append, if_pos ⟨h, rfl⟩]
  exact Nat.max_eq_left (Nat.le_of_lt hlt)

/-- a PDU that is neither a CONNECT nor numbered: DM, CC, DISC, FRMR -/
def Quiet (w : WPdu) : Prop := w.isData = false ∧ w.isConn = false

theorem quiet_dm (w : WPdu) (r : Nat) : Quiet (dmReply w r) := ⟨rfl, rfl⟩

/-- the PDUs queued outside a connection: nothing numbered; the CONNECT PDUs belong to address `p`, carry increasing
connection numbers in `H+1 .. top` -/
def LqOk (p H top : Nat) (lq : List WPdu) : Prop :=
  (∀ w ∈ lq, w.isData = false ∧ (w.isConn = true → w.ssap = p ∧ H < w.cid ∧ w.cid ≤ top)) ∧
  lq.Pairwise (fun w1 w2 => w1.isConn = true → w2.isConn = true → w1.cid < w2.cid)

structure KSock (H p ncid : Nat) (s : Sock) : Prop where
  addr : s.addr = some p
  nol : s.cs ≠ .listen
  lq : LqOk p H s.cid s.lq
  live : s.cs = .connect ∨ s.cs = .run → H ≤ s.cid
  fresh : s.cid < ncid

structure KInv (c : Ctl) : Prop where
  saps : ∀ a ∈ c.saps, (∃ s, a.socks = [s] ∧ KSock (hiOf c.out a.addr) a.addr c.ncid s) ∧ (∀ w ∈ a.sendList, Quiet w)
  distinct : c.saps.Pairwise (fun a b => a.addr ≠ b.addr)
  dmq : ∀ w ∈ c.dmq, Quiet w
  hi : ∀ p, hiOf c.out p < c.ncid
  disc : Disc c.out

/-- the invariant together with `1 ≤ ncid` (socket number 0 means "never connected") -/
def KInv1 (c : Ctl) : Prop := KInv c ∧ 1 ≤ c.ncid

theorem LqOk.nil (p H top : Nat) : LqOk p H top [] := ⟨fun w hw => (by cases hw), List.Pairwise.nil⟩

theorem LqOk.push_quiet {p H top : Nat} {lq : List WPdu} (h : LqOk p H top lq) (w : WPdu) (hq : Quiet w) :
    LqOk p H top (lq ++ [w]) := by
  refine ⟨?_, ?_⟩
  · intro x hx
    rcases List.mem_append.1 hx with hx | hx
    · exact h.1 x hx
    · have : x = w := by simpa using hx
      subst this
      exact ⟨hq.1, fun hc => by rw [hq.2] at hc; cases hc⟩
  · rw [List.pairwise_append]
    refine ⟨h.2, List.pairwise_singleton _ _, ?_⟩
    intro x _ y hy _ hc
    have : y = w := by simpa using hy
    subst this
    rw [hq.2] at hc; cases hc

theorem LqOk.tail {p H top : Nat} {h0 : WPdu} {t : List WPdu} (h : LqOk p H top (h0 :: t)) (hq : h0.isConn = false) :
    LqOk p H top t :=
  ⟨fun w hw => h.1 w (List.mem_cons_of_mem _ hw), (List.pairwise_cons.1 h.2).2⟩

theorem LqOk.tail_conn {p H top : Nat} {h0 : WPdu} {t : List WPdu} (h : LqOk p H top (h0 :: t)) (hc : h0.isConn = true) :
    LqOk p h0.cid top t := by
  refine ⟨?_, (List.pairwise_cons.1 h.2).2⟩
  intro w hw
  obtain ⟨h1, h2⟩ := h.1 w (List.mem_cons_of_mem _ hw)
  refine ⟨h1, fun hcw => ?_⟩
  obtain ⟨a1, _, a3⟩ := h2 hcw
  exact ⟨a1, (List.pairwise_cons.1 h.2).1 w hw hc hcw, a3⟩

/-! ### what a socket puts on the link -/

/-- the judgement on a PDU `w` emitted by the socket of access point `p`, and on the socket afterwards -/
def Emit (H p ncid : Nat) (s' : Sock) (w : WPdu) : Prop :=
  (w.isConn = false → (w.isData = true → w.ssap = p ∧ H ≤ w.cid) ∧ KSock H p ncid s') ∧
  (w.isConn = true → w.ssap = p ∧ H < w.cid ∧ w.cid < ncid ∧ KSock w.cid p ncid s')

theorem KSock.congr {H p ncid : Nat} {s s' : Sock} (hk : KSock H p ncid s) (h1 : s'.addr = s.addr) (h2 : s'.cs = s.cs)
    (h3 : s'.lq = s.lq) (h4 : s'.cid = s.cid) : KSock H p ncid s' :=
  ⟨by rw [h1]; exact hk.addr, by rw [h2]; exact hk.nol, by rw [h3, h4]; exact hk.lq, by rw [h2, h4]; exact hk.live,
   by rw [h4]; exact hk.fresh⟩

theorem wrap_emit {H p ncid : Nat} {s s' : Sock} (pdu : Pdu) (hk : KSock H p ncid s') (ha : s.addr = some p)
    (hl : H ≤ s.cid) : Emit H p ncid s' (s.wrap pdu) := by
  refine ⟨fun _ => ⟨fun _ => ⟨by simp [Sock.wrap, ha], hl⟩, hk⟩, fun hcn => ?_⟩
  simp [Sock.wrap, WPdu.isConn] at hcn

theorem lq_head_emit {H p ncid : Nat} {s s' : Sock} {h0 : WPdu} {t : List WPdu} (hk : KSock H p ncid s) (hlq : s.lq = h0 :: t)
    (h1 : s'.addr = s.addr) (h2 : s'.cs = s.cs) (h3 : s'.lq = t) (h4 : s'.cid = s.cid) : Emit H p ncid s' h0 := by
  have hl := hk.lq
  rw [hlq] at hl
  obtain ⟨hd, hc⟩ := hl.1 h0 (List.mem_cons_self ..)
  constructor
  · intro hq
    constructor
    · intro hdata; rw [hd] at hdata; cases hdata
    · exact ⟨by rw [h1]; exact hk.addr, by rw [h2]; exact hk.nol, by rw [h3, h4]; exact hl.tail hq,
        by rw [h2, h4]; exact hk.live, by rw [h4]; exact hk.fresh⟩
  · intro hcn
    obtain ⟨c1, c2, c3⟩ := hc hcn
    refine ⟨c1, c2, Nat.lt_of_le_of_lt c3 hk.fresh, ?_⟩
    exact ⟨by rw [h1]; exact hk.addr, by rw [h2]; exact hk.nol, by rw [h3, h4]; exact hl.tail_conn hcn,
      by rw [h4]; exact fun _ => c3, by rw [h4]; exact hk.fresh⟩

theorem dequeue_k {H p ncid : Nat} (s : Sock) (b : Int) (hk : KSock H p ncid s) :
    match (s.dequeue b).2 with
    | none => KSock H p ncid (s.dequeue b).1
    | some w => Emit H p ncid (s.dequeue b).1 w := by
  unfold Sock.dequeue
  cases hcs : s.cs with
  | run =>
    have hl : H ≤ s.cid := hk.live (Or.inr hcs)
    dsimp only
    cases hlq : s.lq with
    | nil =>
      dsimp only
      cases hr : (s.ep.deq b).2 with
      | none => simp only [Option.map]; exact hk.congr rfl hcs.symm hlq.symm rfl
      | some pdu => simp only [Option.map]; exact wrap_emit pdu (hk.congr rfl hcs.symm hlq.symm rfl) hk.addr hl
    | cons h0 t =>
      dsimp only
      by_cases h1 : s.ep.st = .established ∧ s.ep.busySent ≠ s.ep.busy
      · rw [if_pos h1]
        cases hr : (s.ep.deq b).2 with
        | none => simp only [Option.map]; exact hk.congr rfl hcs.symm hlq.symm rfl
        | some pdu => simp only [Option.map]; exact wrap_emit pdu (hk.congr rfl hcs.symm hlq.symm rfl) hk.addr hl
      · rw [if_neg h1]
        by_cases h2 : (h0.infoSize : Int) > b
        · rw [if_pos h2]
          cases hr : (({ s.ep with sq := [] } : Ep).deq b).2 with
          | none => simp only [Option.map]; exact hk.congr rfl hcs.symm hlq.symm rfl
          | some pdu => simp only [Option.map]; exact wrap_emit pdu (hk.congr rfl hcs.symm hlq.symm rfl) hk.addr hl
        · rw [if_neg h2]
          exact lq_head_emit hk hlq rfl hcs.symm rfl rfl
  | closed =>
    dsimp only
    cases hlq : s.lq with
    | nil => exact hk
    | cons h0 t =>
      dsimp only
      by_cases h2 : (h0.infoSize : Int) > b
      · rw [if_pos h2]; exact hk
      · rw [if_neg h2]; exact lq_head_emit hk hlq rfl (by rw [hcs]) rfl rfl
  | connect =>
    dsimp only
    cases hlq : s.lq with
    | nil => exact hk
    | cons h0 t =>
      dsimp only
      by_cases h2 : (h0.infoSize : Int) > b
      · rw [if_pos h2]; exact hk
      · rw [if_neg h2]; exact lq_head_emit hk hlq rfl (by rw [hcs]) rfl rfl
  | listen => exact absurd hcs hk.nol

theorem sendack_k {H p ncid : Nat} (s : Sock) (hk : KSock H p ncid s) :
    match s.sendack.2 with
    | none => KSock H p ncid s.sendack.1
    | some w => Emit H p ncid s.sendack.1 w := by
  unfold Sock.sendack
  cases hcs : s.cs with
  | run =>
    dsimp only
    cases hr : s.ep.sendack.2 with
    | none => simp only [Option.map]; exact hk.congr rfl hcs.symm rfl rfl
    | some pdu => simp only [Option.map]; exact wrap_emit pdu (hk.congr rfl hcs.symm rfl rfl) hk.addr (hk.live (Or.inr hcs))
  | closed => exact hk
  | connect => exact hk
  | listen => exact hk


theorem Emit.of_quiet {H p ncid : Nat} {s' : Sock} {w : WPdu} (hq : Quiet w) (hk : KSock H p ncid s') : Emit H p ncid s' w := by
  constructor
  · intro _
    exact ⟨fun hd => (by rw [hq.1] at hd; cases hd), hk⟩
  · intro hc
    rw [hq.2] at hc; cases hc

theorem conn_not_data (w : WPdu) (h : w.isConn = true) : w.isData = false := by
  unfold WPdu.isConn at h; unfold WPdu.isData
  cases hb : w.body <;> simp [hb] at h ⊢

/-- `ServiceAccessPoint.dequeue` of an access point with one socket -/
theorem sapDeq_k {H ncid : Nat} (a : Sap) (b : Int) (s : Sock) (hs : a.socks = [s]) (hk : KSock H a.addr ncid s)
    (hq : ∀ w ∈ a.sendList, Quiet w) :
    (a.dequeue b).1.addr = a.addr ∧ (∀ w ∈ (a.dequeue b).1.sendList, Quiet w) ∧
    ∃ s', (a.dequeue b).1.socks = [s'] ∧
      match (a.dequeue b).2 with
      | none => KSock H a.addr ncid s'
      | some w => Emit H a.addr ncid s' w := by
  have hd := dequeue_k s b hk
  have hdf : deqFirst b [s] = ([(s.dequeue b).1], (s.dequeue b).2) := by
    simp only [deqFirst]
    cases (s.dequeue b).2 <;> rfl
  unfold Sap.dequeue
  rw [hs, hdf]
  dsimp only
  cases hr : (s.dequeue b).2 with
  | some w =>
    rw [hr] at hd
    exact ⟨rfl, hq, (s.dequeue b).1, rfl, hd⟩
  | none =>
    rw [hr] at hd
    dsimp only
    cases hsl : a.sendList with
    | nil => exact ⟨rfl, fun w hw => (by cases hw), (s.dequeue b).1, rfl, hd⟩
    | cons w rest =>
      refine ⟨rfl, fun x hx => hq x (by rw [hsl]; exact List.mem_cons_of_mem _ hx), (s.dequeue b).1, rfl, ?_⟩
      exact Emit.of_quiet (hq w (by rw [hsl]; exact List.mem_cons_self ..)) hd

theorem sapAck_k {H ncid : Nat} (a : Sap) (s : Sock) (hs : a.socks = [s]) (hk : KSock H a.addr ncid s) :
    a.sendack.1.addr = a.addr ∧ a.sendack.1.sendList = a.sendList ∧
    ∃ s', a.sendack.1.socks = [s'] ∧
      match a.sendack.2 with
      | none => KSock H a.addr ncid s'
      | some w => Emit H a.addr ncid s' w := by
  have hd := sendack_k s hk
  have hdf : ackFirst [s] = ([s.sendack.1], s.sendack.2) := by
    simp only [ackFirst]
    cases s.sendack.2 <;> rfl
  unfold Sap.sendack
  rw [hs, hdf]
  exact ⟨rfl, rfl, s.sendack.1, rfl, hd⟩

theorem updSap_split (saps : List Sap) (addr : Nat) (a : Sap) (hd : saps.Pairwise (fun a b => a.addr ≠ b.addr))
    (hf : saps.find? (·.addr == addr) = some a) :
    a.addr = addr ∧ ∃ pre post, saps = pre ++ a :: post ∧ ∀ f, updSap addr f saps = pre ++ f a :: post := by
  obtain ⟨h1, pre, post, h2, h3⟩ := List.find?_eq_some_iff_append.1 hf
  have ha : a.addr = addr := by simpa using h1
  refine ⟨ha, pre, post, h2, ?_⟩
  intro f
  rw [h2] at hd
  rw [List.pairwise_append, List.pairwise_cons] at hd
  unfold updSap
  rw [h2, List.map_append, List.map_cons, if_pos ha]
  congr 1
  · rw [List.map_congr_left (g := id)]
    · simp
    · intro x hx
      have := h3 x hx
      simp at this
      simp [this]
  · congr 1
    rw [List.map_congr_left (g := id)]
    · simp
    · intro x hx
      have := hd.2.1.1 x hx
      rw [ha] at this
      simp [Ne.symm this]

/-- one access point emits `w` (or nothing, `w = none`) and is replaced -/
theorem KInv.emit {c : Ctl} (h : KInv c) (pre post : List Sap) (a a' : Sap) (hsaps : c.saps = pre ++ a :: post)
    (ha' : a'.addr = a.addr) (hq' : ∀ w ∈ a'.sendList, Quiet w) (s' : Sock) (hs' : a'.socks = [s'])
    (w : Option WPdu)
    (he : match w with
      | none => KSock (hiOf c.out a.addr) a.addr c.ncid s'
      | some w => Emit (hiOf c.out a.addr) a.addr c.ncid s' w)
    (c' : Ctl) (h1 : c'.saps = pre ++ a' :: post) (h2 : c'.out = c.out ++ w.toList) (h3 : c'.dmq = c.dmq) (h4 : c'.ncid = c.ncid) :
    KInv c' := by
  have hdist := h.distinct
  rw [hsaps, List.pairwise_append, List.pairwise_cons] at hdist
  have hother : ∀ b, b ∈ pre ∨ b ∈ post → b.addr ≠ a.addr := by
    intro b hb
    rcases hb with hb | hb
    · exact hdist.2.2 b hb a (List.mem_cons_self ..)
    · exact fun heq => hdist.2.1.1 b hb heq.symm
  have hmem : ∀ b, b ∈ pre ∨ b ∈ post → b ∈ c.saps := by
    intro b hb
    rw [hsaps]
    rcases hb with hb | hb
    · exact List.mem_append_left _ hb
    · exact List.mem_append_right _ (List.mem_cons_of_mem _ hb)
  have hdist' : c'.saps.Pairwise (fun a b => a.addr ≠ b.addr) := by
    rw [h1, List.pairwise_append, List.pairwise_cons]
    refine ⟨hdist.1, ⟨fun b hb => by rw [ha']; exact hdist.2.1.1 b hb, hdist.2.1.2⟩, ?_⟩
    intro x hx y hy
    rcases List.mem_cons.1 hy with rfl | hy
    · rw [ha']; exact hdist.2.2 x hx a (List.mem_cons_self ..)
    · exact hdist.2.2 x hx y (List.mem_cons_of_mem _ hy)
  cases w with
  | none =>
    have hout : c'.out = c.out := by simpa using h2
    refine ⟨?_, hdist', by rw [h3]; exact h.dmq, by rw [hout, h4]; exact h.hi, by rw [hout]; exact h.disc⟩
    intro b hb
    rw [h1] at hb
    rw [hout, h4]
    rcases List.mem_append.1 hb with hb | hb
    · exact h.saps b (hmem b (Or.inl hb))
    · rcases List.mem_cons.1 hb with rfl | hb
      · exact ⟨⟨s', hs', by rw [ha']; exact he⟩, hq'⟩
      · exact h.saps b (hmem b (Or.inr hb))
  | some w =>
    have hout : c'.out = c.out ++ [w] := by simpa using h2
    dsimp only at he
    cases hc : w.isConn with
    | false =>
      obtain ⟨hdata, hks⟩ := he.1 hc
      have hhi : ∀ q, hiOf c'.out q = hiOf c.out q := fun q => by rw [hout]; exact hiOf_append_quiet _ _ _ hc
      have hstep : StepOk c.out w := by
        constructor
        · intro hcn; rw [hc] at hcn; cases hcn
        · intro hd; obtain ⟨e1, e2⟩ := hdata hd; rw [e1]; exact e2
      refine ⟨?_, hdist', by rw [h3]; exact h.dmq, fun q => by rw [hhi, h4]; exact h.hi q,
        by rw [hout]; exact h.disc.snoc hstep⟩
      intro b hb
      rw [h1] at hb
      rw [hhi, h4]
      rcases List.mem_append.1 hb with hb | hb
      · exact h.saps b (hmem b (Or.inl hb))
      · rcases List.mem_cons.1 hb with rfl | hb
        · exact ⟨⟨s', hs', by rw [ha']; exact hks⟩, hq'⟩
        · exact h.saps b (hmem b (Or.inr hb))
    | true =>
      obtain ⟨e1, e2, e3, hks⟩ := he.2 hc
      have hstep : StepOk c.out w := by
        constructor
        · intro _; rw [e1]; exact e2
        · intro hd; rw [conn_not_data w hc] at hd; cases hd
      have hhip : hiOf c'.out a.addr = w.cid := by
        rw [hout, ← e1]; exact hiOf_append_conn _ _ hc (by rw [e1]; exact e2)
      have hhio : ∀ q, q ≠ a.addr → hiOf c'.out q = hiOf c.out q := fun q hq => by
        rw [hout]; exact hiOf_append_other _ _ _ (by rw [e1]; exact Ne.symm hq)
      refine ⟨?_, hdist', by rw [h3]; exact h.dmq, ?_, by rw [hout]; exact h.disc.snoc hstep⟩
      · intro b hb
        rw [h1] at hb
        rw [h4]
        rcases List.mem_append.1 hb with hb | hb
        · rw [hhio _ (hother b (Or.inl hb))]; exact h.saps b (hmem b (Or.inl hb))
        · rcases List.mem_cons.1 hb with rfl | hb
          · exact ⟨⟨s', hs', by rw [ha', hhip]; exact hks⟩, hq'⟩
          · rw [hhio _ (hother b (Or.inr hb))]; exact h.saps b (hmem b (Or.inr hb))
      · intro q
        rw [h4]
        by_cases hq : q = a.addr
        · rw [hq, hhip]; exact e3
        · rw [hhio q hq]; exact h.hi q

/-- a quiet PDU (DM of the service discovery component) leaves -/
theorem KInv.emitQuiet {c : Ctl} (h : KInv c) (w : WPdu) (hq : Quiet w) (c' : Ctl) (h1 : c'.saps = c.saps)
    (h2 : c'.out = c.out ++ [w]) (h3 : ∀ x ∈ c'.dmq, Quiet x) (h4 : c'.ncid = c.ncid) : KInv c' := by
  have hhi : ∀ q, hiOf c'.out q = hiOf c.out q := fun q => by rw [h2]; exact hiOf_append_quiet _ _ _ hq.2
  have hstep : StepOk c.out w := by
    constructor
    · intro hcn; rw [hq.2] at hcn; cases hcn
    · intro hd; rw [hq.1] at hd; cases hd
  refine ⟨?_, by rw [h1]; exact h.distinct, h3, fun q => by rw [hhi, h4]; exact h.hi q, by rw [h2]; exact h.disc.snoc hstep⟩
  intro b hb
  rw [h1] at hb
  rw [hhi, h4]
  exact h.saps b hb

theorem sdeq_k (c : Ctl) (addr : Nat) (b : Int) (h : KInv c) : KInv (c.sdeq addr b).1 := by
  unfold Ctl.sdeq
  split
  · cases hd : c.dmq with
    | nil => exact h
    | cons w rest =>
      dsimp only
      split
      · refine h.emitQuiet w (h.dmq w (by rw [hd]; exact List.mem_cons_self ..)) _ rfl rfl ?_ rfl
        intro x hx
        exact h.dmq x (by rw [hd]; exact List.mem_cons_of_mem _ hx)
      · exact h
  · cases hf : c.sap? addr with
    | none => exact h
    | some a =>
      dsimp only
      obtain ⟨ha, pre, post, h1, h2⟩ := updSap_split c.saps addr a h.distinct hf
      obtain ⟨⟨s, hs, hk⟩, hq⟩ := h.saps a (by rw [h1]; exact List.mem_append_right _ (List.mem_cons_self ..))
      obtain ⟨d1, d2, s', d3, d4⟩ := sapDeq_k a b s hs hk hq
      exact h.emit pre post a (a.dequeue b).1 h1 d1 d2 s' d3 (a.dequeue b).2 d4 _ (h2 _) rfl rfl rfl

theorem sack_k (c : Ctl) (addr : Nat) (h : KInv c) : KInv (c.sack addr).1 := by
  unfold Ctl.sack
  cases hf : c.sap? addr with
  | none => exact h
  | some a =>
    dsimp only
    obtain ⟨ha, pre, post, h1, h2⟩ := updSap_split c.saps addr a h.distinct hf
    obtain ⟨⟨s, hs, hk⟩, hq⟩ := h.saps a (by rw [h1]; exact List.mem_append_right _ (List.mem_cons_self ..))
    obtain ⟨d1, d2, s', d3, d4⟩ := sapAck_k a s hs hk
    exact h.emit pre post a a.sendack.1 h1 d1 (by rw [d2]; exact hq) s' d3 a.sendack.2 d4 _ (h2 _) rfl rfl rfl


/-! ### `collect()` is a sequence of `sdeq` / `sack` -/

theorem sdeq_ncid (c : Ctl) (addr : Nat) (b : Int) : (c.sdeq addr b).1.ncid = c.ncid := by
  unfold Ctl.sdeq
  split
  · split
    · rfl
    · split <;> rfl
  · split <;> rfl

theorem sack_ncid (c : Ctl) (addr : Nat) : (c.sack addr).1.ncid = c.ncid := by
  unfold Ctl.sack; split <;> rfl

theorem sdeq_k1 (c : Ctl) (addr : Nat) (b : Int) (h : KInv1 c) : KInv1 (c.sdeq addr b).1 :=
  ⟨sdeq_k c addr b h.1, by rw [sdeq_ncid]; exact h.2⟩

theorem sack_k1 (c : Ctl) (addr : Nat) (h : KInv1 c) : KInv1 (c.sack addr).1 :=
  ⟨sack_k c addr h.1, by rw [sack_ncid]; exact h.2⟩

theorem firstDeq_k (b : Int) (l : List Nat) (c : Ctl) (h : KInv1 c) : KInv1 (firstDeq b l c).1 := by
  induction l generalizing c with
  | nil => exact h
  | cons a r ih =>
    simp only [firstDeq]
    split
    · exact sdeq_k1 c a b h
    · exact ih _ (sdeq_k1 c a b h)

theorem firstAck_k (l : List Nat) (c : Ctl) (h : KInv1 c) : KInv1 (firstAck l c).1 := by
  induction l generalizing c with
  | nil => exact h
  | cons a r ih =>
    simp only [firstAck]
    split
    · exact sack_k1 c a h
    · exact ih _ (sack_k1 c a h)

theorem aggPass_k (link : Nat) (l : List Nat) (g : Agg) (h : KInv1 g.c) : KInv1 (aggPass link l g).c := by
  induction l generalizing g with
  | nil => exact h
  | cons a r ih =>
    simp only [aggPass]
    split
    · exact ih _ (sdeq_k1 g.c a g.budget h)
    · split
      · exact sdeq_k1 g.c a g.budget h
      · exact ih _ (sdeq_k1 g.c a g.budget h)

theorem aggLoopW_k (link : Nat) (l : List Nat) (fuel : Nat) (g : Agg) (h : KInv1 g.c) : KInv1 (aggLoopW link l fuel g).c := by
  induction fuel generalizing g with
  | zero => exact h
  | succ n ih =>
    simp only [aggLoopW]
    split
    · exact h
    · split
      · exact aggPass_k link l { g with deqNone := true } h
      · exact ih _ (aggPass_k link l { g with deqNone := true } h)

theorem ackPass_k (link : Nat) (l : List Nat) (g : Agg) (h : KInv1 g.c) : KInv1 (ackPass link l g).c := by
  induction l generalizing g with
  | nil => exact h
  | cons a r ih =>
    simp only [ackPass]
    split
    · exact ih _ (sack_k1 g.c a h)
    · split
      · exact sack_k1 g.c a h
      · exact ih _ (sack_k1 g.c a h)

theorem collect_k1 (c : Ctl) (fuel : Nat) (h : KInv1 c) : KInv1 (c.collect fuel).1 := by
  have hf : KInv1 c.collectFirst.1 := by
    unfold Ctl.collectFirst
    dsimp only
    split
    · exact firstDeq_k _ _ c h
    · exact firstAck_k _ _ (firstDeq_k _ _ c h)
  unfold Ctl.collect
  dsimp only
  split
  · exact hf
  · split
    · exact hf
    · split
      · exact hf
      · unfold collectAgg
        dsimp only
        split
        · exact ackPass_k _ _ _ (aggLoopW_k _ _ _ _ hf)
        · exact aggLoopW_k _ _ _ _ hf

/-! ### application calls -/

theorem KSock.mono {H p n n' : Nat} {s : Sock} (h : KSock H p n s) (hn : n ≤ n') : KSock H p n' s :=
  ⟨h.addr, h.nol, h.lq, h.live, Nat.lt_of_lt_of_le h.fresh hn⟩

/-- the sockets in the access points are found one per list -/
theorem KInv.found {c : Ctl} (h : KInv c) (sid : Nat) (s : Sock) (hf : sapsFind sid c.saps = some s) :
    ∃ pre a post, c.saps = pre ++ a :: post ∧ a.socks = [s] ∧ KSock (hiOf c.out a.addr) a.addr c.ncid s ∧
      (∀ w ∈ a.sendList, Quiet w) ∧ ∀ f, sapsUpd sid f c.saps = pre ++ { a with socks := [f s] } :: post := by
  obtain ⟨pre, a, post, l1, l2, h1, h2, h3⟩ := sapsFind_split sid c.saps s hf
  obtain ⟨⟨s0, hs0, hk⟩, hq⟩ := h.saps a (by rw [h1]; exact List.mem_append_right _ (List.mem_cons_self ..))
  rw [hs0] at h2
  have hl1 : l1 = [] := by
    cases l1 with
    | nil => rfl
    | cons y r =>
      simp only [List.cons_append, List.cons.injEq] at h2
      have := h2.2
      cases r <;> simp at this
  subst hl1
  simp only [List.nil_append, List.cons.injEq] at h2
  obtain ⟨rfl, h22⟩ := h2
  have hl2 : l2 = [] := h22.symm
  subst hl2
  exact ⟨pre, a, post, h1, hs0, hk, hq, fun f => by rw [h3 f]; rfl⟩

/-- updating the socket found by `sock?` when the new socket is as good as the old one -/
theorem KInv.upd {c : Ctl} (h : KInv c) (sid : Nat) (f : Sock → Sock) (s : Sock) (hs : c.sock? sid = some s) (n' : Nat)
    (hn : c.ncid ≤ n')
    (hx : ∀ H p, H < c.ncid → KSock H p c.ncid s → KSock H p n' (f s))
    (c' : Ctl) (h1 : c'.saps = (c.upd sid f).saps) (h2 : c'.out = c.out) (h3 : c'.dmq = c.dmq) (h4 : c'.ncid = n') :
    KInv c' := by
  have hbase : ∀ c'' : Ctl, c''.saps = c.saps → c''.out = c.out → c''.dmq = c.dmq → c''.ncid = n' → KInv c'' := by
    intro c'' e1 e2 e3 e4
    refine ⟨?_, by rw [e1]; exact h.distinct, by rw [e3]; exact h.dmq, fun q => by rw [e2, e4]; exact Nat.lt_of_lt_of_le (h.hi q) hn,
      by rw [e2]; exact h.disc⟩
    intro a ha
    rw [e1] at ha
    obtain ⟨⟨s0, hs0, hk⟩, hq⟩ := h.saps a ha
    rw [e2, e4]
    exact ⟨⟨s0, hs0, hk.mono hn⟩, hq⟩
  rcases sock?_cases c sid s hs with hf | ⟨hf, _⟩
  · obtain ⟨pre, a, post, e1, e2, hk, hq, e3⟩ := h.found sid s hf
    have hsaps : c'.saps = pre ++ { a with socks := [f s] } :: post := by
      rw [h1]; unfold Ctl.upd; rw [hf]; exact e3 f
    have hk' := hx _ _ (h.hi a.addr) hk
    -- first raise the counter, then replace the socket
    have hmid : KInv { c with ncid := n' } := hbase _ rfl rfl rfl rfl
    exact KInv.emit (c := { c with ncid := n' }) hmid pre post a { a with socks := [f s] } e1 rfl hq (f s) rfl none hk' c' hsaps
      (by simpa using h2) h3 h4
  · exact hbase c' (by rw [h1]; unfold Ctl.upd; rw [hf]) h2 h3 h4

theorem KInv.upd_ep {c : Ctl} (h : KInv c) (sid : Nat) (g : Ep → Ep) : KInv (c.upd sid fun s => { s with ep := g s.ep }) := by
  cases hs : c.sock? sid with
  | none =>
    unfold Ctl.upd
    unfold Ctl.sock? at hs
    cases hf : sapsFind sid c.saps with
    | some s => rw [hf] at hs; cases hs
    | none =>
      rw [hf] at hs
      exact ⟨h.saps, h.distinct, h.dmq, h.hi, h.disc⟩
  | some s =>
    refine h.upd sid _ s hs c.ncid (Nat.le_refl _) ?_ _ rfl ?_ ?_ ?_
    · intro H p _ hk; exact hk.congr rfl rfl rfl rfl
    all_goals (unfold Ctl.upd; split <;> rfl)

theorem insertSap_mem (a : Sap) (l : List Sap) (b : Sap) : b ∈ insertSap a l ↔ b = a ∨ b ∈ l := by
  induction l with
  | nil => simp [insertSap]
  | cons y r ih =>
    simp only [insertSap]
    split
    · simp
    · rw [List.mem_cons, ih, List.mem_cons]
      constructor
      · rintro (h | h | h) <;> simp [h]
      · rintro (h | h | h) <;> simp [h]

theorem insertSap_distinct (a : Sap) (l : List Sap) (h : l.Pairwise (fun x y => x.addr ≠ y.addr))
    (hn : ∀ b ∈ l, b.addr ≠ a.addr) : (insertSap a l).Pairwise (fun x y => x.addr ≠ y.addr) := by
  induction l with
  | nil => simp [insertSap]
  | cons y r ih =>
    simp only [insertSap]
    rw [List.pairwise_cons] at h
    split
    · refine List.pairwise_cons.2 ⟨?_, List.pairwise_cons.2 h⟩
      intro b hb
      exact (hn b hb).symm
    · refine List.pairwise_cons.2 ⟨?_, ih h.2 (fun b hb => hn b (List.mem_cons_of_mem _ hb))⟩
      intro b hb
      rcases (insertSap_mem a r b).1 hb with rfl | hb
      · exact hn y (List.mem_cons_self ..)
      · exact h.1 b hb

theorem KInv.addSap {c : Ctl} (h : KInv c) (hn1 : 1 ≤ c.ncid) (s : Sock) (a : Nat) (hn : ∀ b ∈ c.saps, b.addr ≠ a)
    (hs : s.addr = some a ∧ s.cs = .closed ∧ s.lq = [] ∧ s.cid = 0) (c' : Ctl)
    (h1 : c'.saps = insertSap ⟨a, [s], []⟩ c.saps) (h2 : c'.out = c.out) (h3 : c'.dmq = c.dmq) (h4 : c'.ncid = c.ncid) :
    KInv c' := by
  refine ⟨?_, by rw [h1]; exact insertSap_distinct _ _ h.distinct hn, by rw [h3]; exact h.dmq,
    by rw [h2, h4]; exact h.hi, by rw [h2]; exact h.disc⟩
  intro b hb
  rw [h1] at hb
  rw [h2, h4]
  rcases (insertSap_mem _ _ b).1 hb with rfl | hb
  · refine ⟨⟨s, rfl, ⟨hs.1, by rw [hs.2.1]; decide, by rw [hs.2.2.1]; exact LqOk.nil _ _ _, ?_, by rw [hs.2.2.2]; exact hn1⟩⟩,
      fun w hw => by cases hw⟩
    intro hc
    rw [hs.2.1] at hc
    rcases hc with hc | hc <;> cases hc
  · exact h.saps b hb

theorem newSock_k (c : Ctl) (rw miu : Nat) (to : Dest) (h : KInv1 c) : KInv1 (c.newSock rw miu to).1 := by
  have hbase : ∀ c' : Ctl, c'.saps = c.saps → c'.out = c.out → c'.dmq = c.dmq → c'.ncid = c.ncid → KInv1 c' := by
    intro c' e1 e2 e3 e4
    exact ⟨⟨by rw [e1, e2, e4]; exact h.1.saps, by rw [e1]; exact h.1.distinct, by rw [e3]; exact h.1.dmq,
      by rw [e2, e4]; exact h.1.hi, by rw [e2]; exact h.1.disc⟩, by rw [e4]; exact h.2⟩
  unfold Ctl.newSock
  dsimp only
  cases to with
  | addr a =>
    dsimp only
    split
    · exact hbase _ rfl rfl rfl rfl
    split
    · exact hbase _ rfl rfl rfl rfl
    split
    · exact hbase _ rfl rfl rfl rfl
    · rename_i hf
      exact ⟨h.1.addSap h.2 _ a (sap?_none c a (by simpa using hf)) ⟨rfl, rfl, rfl, rfl⟩ _ rfl rfl rfl rfl, h.2⟩
  | name n =>
    dsimp only
    split
    · exact hbase _ rfl rfl rfl rfl
    split
    · exact hbase _ rfl rfl rfl rfl
    · rename_i a hf
      exact ⟨h.1.addSap h.2 _ a (sap?_none c a (firstFree_spec c 16 16 a hf)) ⟨rfl, rfl, rfl, rfl⟩ _ rfl rfl rfl rfl, h.2⟩


theorem upd_fields (c : Ctl) (sid : Nat) (f : Sock → Sock) :
    (c.upd sid f).out = c.out ∧ (c.upd sid f).dmq = c.dmq ∧ (c.upd sid f).ncid = c.ncid := by
  unfold Ctl.upd; split <;> exact ⟨rfl, rfl, rfl⟩

theorem connect_k (c : Ctl) (sid : Nat) (to : Dest) (h : KInv1 c) : KInv1 (c.connect sid to).1 := by
  unfold Ctl.connect
  split
  · exact h
  rename_i s hs
  split
  · rename_i hcs
    split
    · exact h
    · rename_i hna
      refine ⟨?_, Nat.le_succ_of_le h.2⟩
      refine h.1.upd sid _ s hs (c.ncid + 1) (Nat.le_succ _) ?_ _ rfl (upd_fields ..).1 (upd_fields ..).2.1 rfl
      intro H p hH hk
      have hp : s.addr.getD 0 = p := by rw [hk.addr]; rfl
      refine ⟨hk.addr, by simp, ?_, fun _ => Nat.le_of_lt hH, Nat.lt_succ_self _⟩
      have hl := hk.lq
      constructor
      · intro w hw
        rcases List.mem_append.1 hw with hw | hw
        · obtain ⟨a1, a2⟩ := hl.1 w hw
          refine ⟨a1, fun hc => ?_⟩
          obtain ⟨b1, b2, b3⟩ := a2 hc
          exact ⟨b1, b2, Nat.le_of_lt (Nat.lt_of_le_of_lt b3 hk.fresh)⟩
        · have hw' := List.mem_singleton.1 hw
          rw [hw']
          exact ⟨rfl, fun _ => ⟨hp, hH, Nat.le_refl _⟩⟩
      · rw [List.pairwise_append]
        refine ⟨hl.2, List.pairwise_singleton _ _, ?_⟩
        intro x hx y hy hcx _
        have hy' : y.cid = c.ncid := by rw [List.mem_singleton.1 hy]
        rw [hy']
        exact Nat.lt_of_le_of_lt ((hl.1 x hx).2 hcx).2.2 hk.fresh
  · exact h
  · exact h
  · exact h

theorem connFin_k (c : Ctl) (sid : Nat) (h : KInv1 c) : KInv1 (c.connFin sid).1 := by
  unfold Ctl.connFin
  split
  · exact h
  rename_i s hs
  split
  · exact h
  rename_i hcs
  have hcs : s.cs = .connect := by simpa using hcs
  split
  · exact h
  split
  · refine ⟨h.1.upd sid _ s hs c.ncid (Nat.le_refl _) ?_ _ rfl (upd_fields ..).1 (upd_fields ..).2.1 (upd_fields ..).2.2,
      by rw [(upd_fields ..).2.2]; exact h.2⟩
    intro H p _ hk
    exact ⟨hk.addr, by simp, hk.lq, fun _ => hk.live (Or.inl hcs), hk.fresh⟩
  · refine ⟨h.1.upd sid _ s hs c.ncid (Nat.le_refl _) ?_ _ rfl (upd_fields ..).1 (upd_fields ..).2.1 (upd_fields ..).2.2,
      by rw [(upd_fields ..).2.2]; exact h.2⟩
    intro H p _ hk
    exact ⟨hk.addr, by simp, hk.lq, fun _ => hk.live (Or.inl hcs), hk.fresh⟩
  · exact h

theorem KInv1.upd_ep {c : Ctl} (h : KInv1 c) (sid : Nat) (g : Ep → Ep) : KInv1 (c.upd sid fun s => { s with ep := g s.ep }) :=
  ⟨h.1.upd_ep sid g, by rw [(upd_fields ..).2.2]; exact h.2⟩

theorem epOp_k (c : Ctl) (sid : Nat) (f : Ep → Ep × Res) (other : Sock → NRes) (h : KInv1 c) : KInv1 (c.epOp sid f other).1 := by
  unfold Ctl.epOp
  split
  · exact h
  rename_i s _
  split
  · exact h.upd_ep sid (fun _ => (f s.ep).1)
  · exact h

theorem recv_k (c : Ctl) (sid : Nat) (h : KInv1 c) : KInv1 (c.recv sid).1 := by
  unfold Ctl.recv
  split
  · exact h
  split
  · exact h
  · exact epOp_k c sid _ _ h

theorem poll_k (c : Ctl) (sid : Nat) (k : PollKind) (h : KInv1 c) : KInv1 (c.poll sid k).1 := by
  unfold Ctl.poll
  split
  · exact h
  split
  · exact h
  · exact epOp_k c sid _ _ h

theorem setBusy_k (c : Ctl) (sid : Nat) (b : Bool) (h : KInv1 c) : KInv1 (c.setBusy sid b).1 := by
  unfold Ctl.setBusy
  split
  · exact h
  · exact h.upd_ep sid (fun e => { e with busy := b })

theorem unlist_k (c : Ctl) (sid : Nat) (h : KInv1 c) : KInv1 (c.unlist sid) := by
  unfold Ctl.unlist
  split
  · exact h
  · refine ⟨⟨?_, ?_, h.1.dmq, h.1.hi, h.1.disc⟩, h.2⟩
    · intro a ha
      obtain ⟨ha1, ha2⟩ := List.mem_filter.1 ha
      obtain ⟨b, hb, rfl⟩ := List.mem_map.1 ha1
      obtain ⟨⟨s0, hs0, hk⟩, hq⟩ := h.1.saps b hb
      have : removeSid sid b.socks = [s0] := by
        rw [hs0] at ha2 ⊢
        unfold removeSid at ha2 ⊢
        rw [List.filter_cons] at ha2 ⊢
        split
        · rfl
        · rename_i hne; simp [hne] at ha2
      exact ⟨⟨s0, this, hk⟩, hq⟩
    · have hsub : ((c.saps.map fun a => ({ a with socks := removeSid sid a.socks } : Sap)).filter (!·.socks.isEmpty)).map (·.addr)
          |>.Sublist (c.saps.map (·.addr)) := by
        have : (c.saps.map fun a => ({ a with socks := removeSid sid a.socks } : Sap)).map (·.addr) = c.saps.map (·.addr) := by
          simp [List.map_map, Function.comp_def]
        rw [← this]
        exact (List.filter_sublist).map _
      have hd : (c.saps.map (·.addr)).Pairwise (· ≠ ·) := List.pairwise_map.2 h.1.distinct
      exact List.pairwise_map.1 (hd.sublist hsub)

theorem upd_free_k {c : Ctl} (h : KInv1 c) (sid : Nat) (f : Sock → Sock) (hn : sapsFind sid c.saps = none) :
    KInv1 (c.upd sid f) := by
  unfold Ctl.upd; rw [hn]
  exact ⟨⟨h.1.saps, h.1.distinct, h.1.dmq, h.1.hi, h.1.disc⟩, h.2⟩

theorem close_k (c : Ctl) (sid : Nat) (h : KInv1 c) : KInv1 (c.close sid).1 := by
  unfold Ctl.close
  split
  · exact h
  rename_i s hs
  split
  · exact h
  split
  · exact h
  · dsimp only
    have h1 := h.upd_ep sid (fun _ => (({ s.ep with bound := true } : Ep).close).1)
    split
    · exact unlist_k _ sid h1
    · exact h1
  · exact upd_free_k (unlist_k c sid h) sid _ (sapsFind_unlist c sid)

theorem closeFin_k (c : Ctl) (sid : Nat) (h : KInv1 c) : KInv1 (c.closeFin sid).1 := by
  unfold Ctl.closeFin
  split
  · exact h
  rename_i s0 _
  split
  · exact h
  · exact unlist_k _ sid (h.upd_ep sid (fun _ => s0.ep.closeFin.1))

theorem accept_k (c : Ctl) (sid : Nat) (h : KInv1 c) : KInv1 (c.accept sid).1 := by
  unfold Ctl.accept
  split
  · exact h
  rename_i s hs
  split
  · exact h
  split
  · exact h
  rename_i _ hcs
  have hcs : s.cs = .listen := by simpa using hcs
  split
  · exact h
  rename_i hlisted
  exfalso
  have hf : sapsFind sid c.saps = some s := by
    rcases sock?_cases c sid s hs with hf | ⟨hf, _⟩
    · exact hf
    · simp [Ctl.listed, hf] at hlisted
  obtain ⟨_, _, _, _, _, hk, _, _⟩ := h.1.found sid s hf
  exact hk.nol hcs


/-! ### dispatch -/

theorem enqueueSock_k {H p ncid : Nat} (s : Sock) (w : WPdu) (hk : KSock H p ncid s) : KSock H p ncid (s.enqueue w) := by
  unfold Sock.enqueue
  cases hcs : s.cs with
  | closed =>
    exact ⟨hk.addr, by simp [hcs], hk.lq.push_quiet _ (quiet_dm w 1), by simpa [hcs] using hk.live, hk.fresh⟩
  | listen => exact absurd hcs hk.nol
  | connect =>
    dsimp only
    split
    · split
      · exact hk.congr rfl (by rw [hcs]) rfl rfl
      · exact hk
    · split
      · exact hk.congr rfl (by rw [hcs]) rfl rfl
      · exact hk
    · exact hk
  | run =>
    dsimp only
    split
    · exact hk.congr rfl (by rw [hcs]) rfl rfl
    · exact hk

theorem enqueueSap_k {H ncid : Nat} (a : Sap) (w : WPdu) (s : Sock) (hs : a.socks = [s]) (hk : KSock H a.addr ncid s)
    (hq : ∀ x ∈ a.sendList, Quiet x) :
    (a.enqueue w).addr = a.addr ∧ (∀ x ∈ (a.enqueue w).sendList, Quiet x) ∧
      ∃ s', (a.enqueue w).socks = [s'] ∧ KSock H a.addr ncid s' := by
  have hpush : ∀ r, ∀ x ∈ a.sendList ++ [dmReply w r], Quiet x := by
    intro r x hx
    rcases List.mem_append.1 hx with hx | hx
    · exact hq x hx
    · have : x = dmReply w r := by simpa using hx
      rw [this]; exact quiet_dm w r
  have hnl : isListen s = false := by
    have := hk.nol
    unfold isListen
    cases hcs : s.cs <;> simp_all
  have hsingle : ∀ (p : Sock → Bool) (f : Sock → Sock), updFirst p f [s] = if p s = true then some [f s] else none := by
    intro p f
    simp only [updFirst]
    split <;> rfl
  unfold Sap.enqueue
  split
  · rw [hs, hsingle, if_neg (by simp [hnl])]
    exact ⟨rfl, hpush 2, s, rfl, hk⟩
  · rw [hs, hsingle]
    cases hm : matchPeer w.ssap s with
    | true =>
      rw [if_pos rfl]
      exact ⟨rfl, hq, s.enqueue w, rfl, enqueueSock_k s w hk⟩
    | false =>
      rw [if_neg (by simp)]
      exact ⟨rfl, hpush 1, s, rfl, hk⟩

theorem updSap_mem (addr : Nat) (f : Sap → Sap) (saps : List Sap) (b : Sap) (hb : b ∈ updSap addr f saps) :
    ∃ a ∈ saps, b = (if a.addr = addr then f a else a) := by
  obtain ⟨a, ha, rfl⟩ := List.mem_map.1 hb
  exact ⟨a, ha, rfl⟩

theorem KInv1.mapSap {c : Ctl} (h : KInv1 c) (addr : Nat) (f : Sap → Sap)
    (hf : ∀ a s, a.socks = [s] → KSock (hiOf c.out a.addr) a.addr c.ncid s → (∀ x ∈ a.sendList, Quiet x) →
      (f a).addr = a.addr ∧ (∀ x ∈ (f a).sendList, Quiet x) ∧ ∃ s', (f a).socks = [s'] ∧ KSock (hiOf c.out a.addr) a.addr c.ncid s')
    (hfa : ∀ a, (f a).addr = a.addr)
    (c' : Ctl) (h1 : c'.saps = updSap addr f c.saps) (h2 : c'.out = c.out) (h3 : ∀ x ∈ c'.dmq, Quiet x) (h4 : c'.ncid = c.ncid) :
    KInv1 c' := by
  refine ⟨⟨?_, ?_, h3, by rw [h2, h4]; exact h.1.hi, by rw [h2]; exact h.1.disc⟩, by rw [h4]; exact h.2⟩
  · intro b hb
    rw [h1] at hb
    obtain ⟨a, ha, rfl⟩ := updSap_mem addr f c.saps b hb
    obtain ⟨⟨s0, hs0, hk⟩, hq⟩ := h.1.saps a ha
    rw [h2, h4]
    split
    · obtain ⟨f1, f2, s', f3, f4⟩ := hf a s0 hs0 hk hq
      rw [f1]
      exact ⟨⟨s', f3, f4⟩, f2⟩
    · exact ⟨⟨s0, hs0, hk⟩, hq⟩
  · rw [h1]
    have hd : (c.saps.map (·.addr)).Pairwise (· ≠ ·) := List.pairwise_map.2 h.1.distinct
    have : (updSap addr f c.saps).map (·.addr) = c.saps.map (·.addr) := by
      unfold updSap
      rw [List.map_map]
      apply List.map_congr_left
      intro a _
      simp only [Function.comp]
      split
      · exact hfa a
      · rfl
    exact List.pairwise_map.1 (by rw [this]; exact hd)

theorem enqueue_addr (a : Sap) (w : WPdu) : (a.enqueue w).addr = a.addr := by
  unfold Sap.enqueue; split <;> split <;> rfl

theorem dispatch_k (c : Ctl) (w : WPdu) (h : KInv1 c) : KInv1 (c.dispatch w) := by
  have hbase : ∀ c' : Ctl, c'.saps = c.saps → c'.out = c.out → (∀ x ∈ c'.dmq, Quiet x) → c'.ncid = c.ncid → KInv1 c' := by
    intro c' e1 e2 e3 e4
    exact ⟨⟨by rw [e1, e2, e4]; exact h.1.saps, by rw [e1]; exact h.1.distinct, e3,
      by rw [e2, e4]; exact h.1.hi, by rw [e2]; exact h.1.disc⟩, by rw [e4]; exact h.2⟩
  unfold Ctl.dispatch
  dsimp only
  split
  · refine hbase _ rfl rfl ?_ rfl
    intro x hx
    rcases List.mem_append.1 hx with hx | hx
    · exact h.1.dmq x hx
    · rw [List.mem_singleton.1 hx]; exact ⟨rfl, rfl⟩
  · rename_i w' _
    split
    · exact hbase _ rfl rfl h.1.dmq rfl
    · exact h.mapSap w'.dsap (fun a => a.enqueue w') (fun a s hs hk hq => enqueueSap_k a w' s hs hk hq)
        (fun a => enqueue_addr a w') _ rfl rfl h.1.dmq rfl

theorem dispatchAll_k (c : Ctl) (frame : List WPdu) (h : KInv1 c) : KInv1 (c.dispatchAll frame) := by
  induction frame generalizing c with
  | nil => exact h
  | cons w r ih => exact ih _ (dispatch_k c w h)

/-! ### histories without `listen` -/

def isListenOp : COp → Bool
  | .listen .. => true
  | _ => false

theorem step_k (c : Ctl) (o : COp) (ho : isListenOp o = false) (h : KInv1 c) : KInv1 (c.step o).1 := by
  cases o with
  | listen sid b => simp [isListenOp] at ho
  | dlv f => exact dispatchAll_k c f h
  | sock rw miu to => exact newSock_k c rw miu to h
  | connect sid to => exact connect_k c sid to h
  | connFin sid => exact connFin_k c sid h
  | accept sid => exact accept_k c sid h
  | send sid m => exact epOp_k c sid _ _ h
  | recv sid => exact recv_k c sid h
  | busy sid b => exact setBusy_k c sid b h
  | poll sid k => exact poll_k c sid k h
  | close sid => exact close_k c sid h
  | closeFin sid => exact closeFin_k c sid h
  | sdeq addr b => exact sdeq_k1 c addr b h
  | sack addr => exact sack_k1 c addr h
  | collect => exact collect_k1 c 600 h


theorem run_k (c : Ctl) (ops : List COp) (ho : ∀ o ∈ ops, isListenOp o = false) (h : KInv1 c) : KInv1 (c.run ops) := by
  induction ops generalizing c with
  | nil => exact h
  | cons o r ih =>
    rw [run_cons]
    exact ih _ (fun o' ho' => ho o' (List.mem_cons_of_mem _ ho')) (step_k c o (ho o (List.mem_cons_self ..)) h)

theorem init_k (link : Nat) (agf : Bool) : KInv1 (Ctl.init link agf) :=
  ⟨⟨fun a ha => (by cases ha), List.Pairwise.nil, fun w hw => (by cases hw), fun p => (by simp [Ctl.init, hiOf]),
    fun pre w post hl => (by simp [Ctl.init] at hl)⟩, Nat.le_refl 1⟩

/-- **A controller on which no socket ever listens sends a disciplined stream**, whatever it receives. -/
theorem client_out_disc (link : Nat) (agf : Bool) (ops : List COp) (ho : ∀ o ∈ ops, isListenOp o = false) :
    Disc ((Ctl.init link agf).run ops).out :=
  (run_k _ ops ho (init_k link agf)).1.disc

end NfcVerif.DlcSap
