import NfcVerif.Lemmas.AdvT12
/-!
# C08 lemmas: the Type 2 reader against every tag

The unchanged `read_tlv` of tt2.py reads wherever lengths and reserved ranges lead; the bound on the
addresses (and with it: no sector number above 255, the command bound) rests on a counting argument:
among any `k` consecutive addresses at most `tot skip` are reserved (`cfree_tot`), and `tot skip`
grows by at most 256 for every 5 bytes of TLV area consumed.
-/
namespace NfcVerif.Adv
open NfcVerif.Tlv (Skip inSkip nextFree capacity ctlRange cfree countFree endAddr)

/-- total size of the reserved ranges -/
def tot : Skip → Nat
  | [] => 0
  | r :: rs => (r.2 - r.1) + tot rs

theorem tot_append (s : Skip) (r : Nat × Nat) : tot (s ++ [r]) = tot s + (r.2 - r.1) := by
  induction s with
  | nil => simp [tot]
  | cons x xs ih => simp only [List.cons_append, tot, ih]; omega

/-- addresses of `[a, a+k)` inside the range `r` -/
def cntR (r : Nat × Nat) : Nat → Nat → Nat
  | _, 0 => 0
  | a, k+1 => (if r.1 ≤ a ∧ a < r.2 then 1 else 0) + cntR r (a+1) k

theorem cntR_le (r : Nat × Nat) (k : Nat) : ∀ a, cntR r a k ≤ r.2 - max a r.1 := by
  induction k with
  | zero => intro a; simp [cntR]
  | succ k ih =>
    intro a
    simp only [cntR]
    have := ih (a+1)
    split <;> omega

theorem inSkip_cons (r : Nat × Nat) (rs : Skip) (a : Nat) :
    inSkip (r :: rs) a = ((decide (r.1 ≤ a) && decide (a < r.2)) || inSkip rs a) := by
  simp [inSkip]

/-- (L): among `k` consecutive addresses at most `tot s` are reserved -/
theorem cfree_tot (s : Skip) : ∀ (k a : Nat), k ≤ cfree s a k + tot s := by
  induction s with
  | nil =>
    intro k
    induction k with
    | zero => intro a; simp [cfree]
    | succ k ih => intro a; have := ih (a+1); simp [cfree, inSkip, tot] at this ⊢; omega
  | cons r rs ihs =>
    -- cfree (r::rs) a k ≥ cfree rs a k - cntR r a k
    have key : ∀ (k a : Nat), cfree rs a k ≤ cfree (r :: rs) a k + cntR r a k := by
      intro k
      induction k with
      | zero => intro a; simp [cfree]
      | succ k ih =>
        intro a
        have := ih (a+1)
        simp only [cfree, cntR, inSkip_cons]
        by_cases h1 : r.1 ≤ a ∧ a < r.2
        · have : (decide (r.1 ≤ a) && decide (a < r.2)) = true := by simp [h1]
          simp only [this, Bool.true_or, if_true, h1, and_self]
          split <;> omega
        · have : (decide (r.1 ≤ a) && decide (a < r.2)) = false := by
            simp only [Bool.and_eq_false_imp, decide_eq_true_eq, decide_eq_false_iff_not]
            intro h; exact fun h' => h1 ⟨h, h'⟩
          simp only [this, Bool.false_or, if_neg h1]
          split <;> omega
    intro k a
    have h1 := ihs k a
    have h2 := key k a
    have h3 := cntR_le r k a
    simp only [tot]
    omega

theorem endAddr_tot (s : Skip) (n a : Nat) : endAddr s n a ≤ a + n + tot s := by
  have h := cfree_tot s (n + tot s) a
  have := Tlv.endAddr_le_of_cfree s n a (n + tot s) (by omega)
  omega

theorem nextFree_least (s : Skip) (a x : Nat) (h1 : a ≤ x) (h2 : inSkip s x = false) : nextFree s a ≤ x := by
  apply Nat.le_of_not_lt
  intro hlt
  have := Tlv.nextFree_between s a x h1 hlt
  rw [this] at h2; cases h2

theorem nextFree_mono (s : Skip) (a b : Nat) (h : a ≤ b) : nextFree s a ≤ nextFree s b :=
  nextFree_least s a _ (Nat.le_trans h (Tlv.nextFree_ge s b)) (Tlv.nextFree_not_skip s b)

theorem endAddr_mono (s : Skip) (n : Nat) : ∀ a b, a ≤ b → endAddr s n a ≤ endAddr s n b := by
  induction n with
  | zero => intro a b h; simpa [endAddr] using h
  | succ n ih =>
    intro a b h
    simp only [endAddr]
    exact ih _ _ (by have := nextFree_mono s a b h; omega)

theorem endAddr_add (s : Skip) (m n : Nat) : ∀ a, endAddr s (m + n) a = endAddr s n (endAddr s m a) := by
  induction m with
  | zero => intro a; simp [endAddr]
  | succ m ih =>
    intro a
    have : m + 1 + n = (m + n) + 1 := by omega
    rw [this]
    simp only [endAddr]
    exact ih _

theorem endAddr_succ_gt (s : Skip) (n a : Nat) : nextFree s a < endAddr s (n + 1) a := by
  simp only [endAddr]
  have := Tlv.endAddr_ge s n (nextFree s a + 1)
  omega

theorem endAddr_le_add (s : Skip) (m n a : Nat) : endAddr s m a ≤ endAddr s (m + n) a := by
  rw [endAddr_add]
  have := Tlv.endAddr_ge s n (endAddr s m a)
  omega

/-- a value read by the unconfined value loop (Type 2): `E` = the address behind the value -/
def ValU (lo E n : Nat) (r : Option (Bytes × List Nat)) : Prop :=
  ∃ v as, r = some (v, as) ∧ v.length = n ∧ as.length = n ∧ IsBytes v ∧ ∀ a ∈ as, lo ≤ a ∧ a < E

theorem readVal_u {σ} {M : Mem σ} {J Jf : σ → Prop} {LIM : Nat} (hM : MemOK M J Jf LIM)
    (skip : Skip) (end_ lo E : Nat) (hE : E ≤ LIM) :
    ∀ (k pos : Nat) (v : Bytes) (as : List Nat) (s : σ), J s → v.length = as.length → IsBytes v →
      endAddr skip k pos = E → (∀ a ∈ as, lo ≤ a ∧ a < E) → lo ≤ pos →
      Step J Jf (readVal M false skip end_ k pos v as s) (ValU lo E (v.length + k)) := by
  intro k
  induction k with
  | zero =>
    intro pos v as s hJ hl hb _ ha hp
    unfold readVal
    refine Or.inl ⟨_, rfl, hJ, v.reverse, as.reverse, rfl, by simp, by simp [hl], ?_, ?_⟩
    · intro b h; exact hb b (by simpa using h)
    · intro a h; exact ha a (by simpa using h)
  | succ k ih =>
    intro pos v as s hJ hl hb hE' ha hp
    unfold readVal
    simp only [Bool.false_eq_true, false_and, if_false]
    have hge := Tlv.nextFree_ge skip pos
    have hlt : nextFree skip pos < E := by rw [← hE']; exact endAddr_succ_gt skip k pos
    rcases getB_step hM (nextFree skip pos) s hJ (by omega) with ⟨b, hb1, hJ', hb256⟩ | ⟨e, he, ht, hf⟩
    · rcases hg : getB M (nextFree skip pos) s with ⟨r, s'⟩
      rw [hg] at hb1 hJ'
      simp only at hb1 hJ'
      subst hb1
      simp only
      have := ih (nextFree skip pos + 1) (b :: v) (nextFree skip pos :: as) s' hJ' (by simp [hl])
        (by intro x hx; rcases List.mem_cons.mp hx with h | h
            · subst h; exact hb256
            · exact hb x h)
        (by rw [← hE']; rfl)
        (by intro a h; rcases List.mem_cons.mp h with h | h
            · subst h; omega
            · exact ha a h) (by omega)
      simpa [Nat.add_assoc, Nat.add_comm 1 k] using this
    · rcases hg : getB M (nextFree skip pos) s with ⟨r, s'⟩
      rw [hg] at he hf
      simp only at he hf
      subst he
      exact Or.inr ⟨e, rfl, ht, hf⟩

def TlvU (skip : Skip) (off : Nat) : TlvR → Prop
  | .beyond => False
  | .nul _ => True
  | .val _ l v as hdr => v.length = l ∧ as.length = l ∧ IsBytes v ∧ (hdr = 2 ∨ hdr = 4) ∧ l ≤ 65535 ∧
      ∀ a ∈ as, off + hdr ≤ a ∧ a < endAddr skip l (off + hdr)

theorem readTlvBody_u {σ} {M : Mem σ} {J Jf : σ → Prop} {LIM : Nat} (hM : MemOK M J Jf LIM)
    (skip : Skip) (end_ off : Nat) (hL : endAddr skip 65539 off ≤ LIM) (s : σ) (hJ : J s) :
    Step J Jf (readTlvBody M false skip end_ off s) (TlvU skip off) := by
  have hb1 : off + 1 ≤ LIM := by
    have := Tlv.endAddr_ge skip 65539 off; omega
  have hb4 : off + 4 ≤ LIM := by
    have := Tlv.endAddr_ge skip 65539 off; omega
  unfold readTlvBody
  simp only [Bool.false_eq_true, false_and, if_false]
  rcases getB_step hM off s hJ (by omega) with ⟨t, hb, hJ1, -⟩ | ⟨e, he, ht, hf⟩
  · rcases hg : getB M off s with ⟨r, s1⟩
    rw [hg] at hb hJ1; simp only at hb hJ1; subst hb
    simp only
    split
    · exact Or.inl ⟨_, rfl, hJ1, trivial⟩
    · rcases getB_step hM (off + 1) s1 hJ1 (by omega) with ⟨l0, hb, hJ2, hl0⟩ | ⟨e, he, ht, hf⟩
      · rcases hg2 : getB M (off + 1) s1 with ⟨r, s2⟩
        rw [hg2] at hb hJ2; simp only at hb hJ2; subst hb
        simp only
        split
        · rcases getH_step hM (off + 2) s2 hJ2 (by omega) with ⟨l, hb, hJ3, hl⟩ | ⟨e, he, ht, hf⟩
          · rcases hg3 : getH M (off + 2) s2 with ⟨r, s3⟩
            rw [hg3] at hb hJ3; simp only at hb hJ3; subst hb
            simp only
            have hEb : endAddr skip l (off + 4) ≤ LIM := by
              have h1 := endAddr_mono skip l (off + 4) (endAddr skip 4 off) (Tlv.endAddr_ge skip 4 off)
              rw [← endAddr_add] at h1
              have h2 := endAddr_le_add skip (4 + l) (65535 - l) off
              have : 4 + l + (65535 - l) = 65539 := by omega
              rw [this] at h2
              omega
            have hv := readVal_u hM skip end_ (off + 4) _ hEb l (off + 4) [] [] s3 hJ3 rfl IsBytes.nil rfl (by simp) (by omega)
            rcases hv with ⟨r, hr1, hJ4, v, as, hr, h1', h2', h3', h4'⟩ | ⟨e, he, ht, hf⟩
            · rcases hg4 : readVal M false skip end_ l (off + 4) [] [] s3 with ⟨q, s4⟩
              rw [hg4] at hr1 hJ4; simp only at hr1 hJ4; subst hr1; subst hr
              exact Or.inl ⟨_, rfl, hJ4, by simpa using h1', by simpa using h2', h3', Or.inr rfl, by omega, h4'⟩
            · rcases hg4 : readVal M false skip end_ l (off + 4) [] [] s3 with ⟨q, s4⟩
              rw [hg4] at he hf; simp only at he hf; subst he
              exact Or.inr ⟨e, rfl, ht, hf⟩
          · rcases hg3 : getH M (off + 2) s2 with ⟨r, s3⟩
            rw [hg3] at he hf; simp only at he hf; subst he
            exact Or.inr ⟨e, rfl, ht, hf⟩
        · have hEb : endAddr skip l0 (off + 2) ≤ LIM := by
            have h1 := endAddr_mono skip l0 (off + 2) (endAddr skip 2 off) (Tlv.endAddr_ge skip 2 off)
            rw [← endAddr_add] at h1
            have h2 := endAddr_le_add skip (2 + l0) (65537 - l0) off
            have : 2 + l0 + (65537 - l0) = 65539 := by omega
            rw [this] at h2
            omega
          have hv := readVal_u hM skip end_ (off + 2) _ hEb l0 (off + 2) [] [] s2 hJ2 rfl IsBytes.nil rfl (by simp) (by omega)
          rcases hv with ⟨r, hr1, hJ4, v, as, hr, h1', h2', h3', h4'⟩ | ⟨e, he, ht, hf⟩
          · rcases hg4 : readVal M false skip end_ l0 (off + 2) [] [] s2 with ⟨q, s4⟩
            rw [hg4] at hr1 hJ4; simp only at hr1 hJ4; subst hr1; subst hr
            exact Or.inl ⟨_, rfl, hJ4, by simpa using h1', by simpa using h2', h3', Or.inl rfl, by omega, h4'⟩
          · rcases hg4 : readVal M false skip end_ l0 (off + 2) [] [] s2 with ⟨q, s4⟩
            rw [hg4] at he hf; simp only at he hf; subst he
            exact Or.inr ⟨e, rfl, ht, hf⟩
      · rcases hg2 : getB M (off + 1) s1 with ⟨r, s2⟩
        rw [hg2] at he hf; simp only at he hf; subst he
        exact Or.inr ⟨e, rfl, ht, hf⟩
  · rcases hg : getB M off s with ⟨r, s1⟩
    rw [hg] at he hf; simp only at he hf; subst he
    exact Or.inr ⟨e, rfl, ht, hf⟩

theorem ctlRange_size (lock : Bool) (lim : Nat) (v : Bytes) (h : v.length = 3) (hb : IsBytes v) :
    ∃ rg, ctlRange lock lim v = .ok rg ∧ rg.2 - rg.1 ≤ 256 := by
  match v, h, hb with
  | [a, b, c], _, hb =>
    have hb' : b < 256 := hb b (by simp)
    simp only [ctlRange, idxN_cons_zero, idxN_cons_succ, Py.bind_ok]
    refine ⟨_, rfl, ?_⟩
    simp only
    cases lock <;> simp <;> split <;> omega

def FoundU (fd : Found) : Prop :=
  16 ≤ fd.off ∧ ∀ v as hdr, fd.ndef = some (v, as, hdr) → v.length = as.length ∧
    ∀ a ∈ as, fd.off + hdr ≤ a ∧ a < endAddr fd.skip v.length (fd.off + hdr)

theorem walk_u {σ} {M : Mem σ} {J Jf : σ → Prop} {LIM : Nat} (hM : MemOK M J Jf LIM) (hLIM : 172100 ≤ LIM)
    (end_ : Nat) (hE : end_ ≤ 2056) :
    ∀ (fuel off : Nat) (skip : Skip) (s : σ), J s → end_ < off + fuel → 0 < fuel → 16 ≤ off →
      5 * tot skip ≤ 256 * (off - 16) →
      ((walk M false end_ fuel off skip s).1 = .ok none ∧ Jf (walk M false end_ fuel off skip s).2) ∨
      ∃ fd, (walk M false end_ fuel off skip s).1 = .ok (some fd) ∧ Jf (walk M false end_ fuel off skip s).2 ∧
        FoundU fd := by
  intro fuel
  induction fuel with
  | zero => intro off skip s _ _ h _ _; omega
  | succ f ih =>
    intro off skip s hJ hf hpos hs htot
    unfold walk
    split
    · exact Or.inr ⟨_, rfl, hM.weaken s hJ, hs, by intro v as hdr h; simp at h⟩
    · rename_i hlt
      simp only [Bool.false_eq_true, false_and, if_false]
      have hge := Tlv.nextFree_ge skip off
      have hbound : endAddr skip 65539 (nextFree skip off) ≤ LIM := by
        have h1 := endAddr_mono skip 65539 (nextFree skip off) (nextFree skip off + 1) (by omega)
        have h2 : endAddr skip 65539 (nextFree skip off + 1) = endAddr skip (1 + 65539) off := by
          rw [endAddr_add]; rfl
        have h3 := endAddr_tot skip (1 + 65539) off
        omega
      have hbody := readTlvBody_u hM skip end_ (nextFree skip off) hbound s hJ
      unfold readTlv
      rcases hbody with ⟨r, hr, hJ', hv⟩ | ⟨e, he, ht, hfin⟩
      · rcases hg : readTlvBody M false skip end_ (nextFree skip off) s with ⟨q, s'⟩
        rw [hg] at hr hJ'; simp only at hr hJ'; subst hr
        cases r with
        | beyond => exact absurd hv (by simp [TlvU])
        | nul t =>
          simp only
          split
          · exact ih _ skip s' hJ' (by omega) (by omega) (by omega) (by omega)
          · exact Or.inr ⟨_, rfl, hM.weaken _ hJ', by simp only; omega, by intro v as hdr h; simp at h⟩
        | val t l v as hdr =>
          obtain ⟨hv1, hv2, hv3, hv4, hv5, hv6⟩ := hv
          simp only
          split
          · refine Or.inr ⟨_, rfl, hM.weaken _ hJ', by simp only; omega, ?_⟩
            intro v' as' hdr' h
            simp at h
            obtain ⟨h1, h2, h3⟩ := h
            subst h1; subst h2; subst h3
            exact ⟨by rw [hv1, hv2], by rw [hv1]; exact hv6⟩
          · split
            · rename_i hc
              obtain ⟨rg, hrg, hsz⟩ := ctlRange_size (decide (t = 1)) 0x100000 v (by rw [hv1]; exact hc.2) hv3
              simp only [hrg]
              have hl3 : l = 3 := hc.2
              subst hl3
              refine ih _ _ s' hJ' (by simp; omega) (by omega) (by simp; omega) ?_
              rw [tot_append]
              simp
              omega
            · exact ih _ _ s' hJ' (by split <;> omega) (by omega) (by split <;> omega) (by split <;> omega)
      · rcases hg : readTlvBody M false skip end_ (nextFree skip off) s with ⟨q, s'⟩
        rw [hg] at he hfin; simp only at he hfin; subst he
        simp only [Bool.false_eq_true, false_and, if_false, ht, not_false_eq_true, and_self, if_true]
        exact Or.inl ⟨by simp, hfin⟩

theorem finish_u {σ} {M : Mem σ} {J Jf : σ → Prop} {LIM : Nat} (hM : MemOK M J Jf LIM) (hLIM : 172100 ≤ LIM)
    (end_ : Nat) (hE : end_ ≤ 2056) (rw : Nat) (s : σ) (hJ : J s) :
    Jf (finish M false 16 end_ [] rw s).2 ∧
    ((finish M false 16 end_ [] rw s).1 = .ok none ∨
     ∃ d, (finish M false 16 end_ [] rw s).1 = .ok (some d) ∧ SafeA d ∧ d.lo = 16 ∧ d.hi = end_) := by
  unfold finish
  rcases walk_u hM hLIM end_ hE (end_ + 1) 16 [] s hJ (by omega) (by omega) (by omega) (by simp [tot]) with ⟨h1, h2⟩ | ⟨fd, h1, h2, h3⟩
  · rcases hg : walk M false end_ (end_ + 1) 16 [] s with ⟨r, s'⟩
    rw [hg] at h1 h2; simp only at h1 h2; subst h1
    exact ⟨h2, Or.inl rfl⟩
  · rcases hg : walk M false end_ (end_ + 1) 16 [] s with ⟨r, s'⟩
    rw [hg] at h1 h2; simp only at h1 h2; subst h1
    simp only
    cases hn : fd.ndef with
    | none => exact ⟨h2, Or.inl rfl⟩
    | some x =>
      obtain ⟨v, as, hdr⟩ := x
      have hf := h3.2 v as hdr hn
      simp only
      by_cases hfit : fits false fd.skip fd.off hdr end_ v.length = true
      · simp only [hfit, not_true_eq_false, if_false]
        refine ⟨h2, Or.inr ⟨_, rfl, ⟨rfl, hf.1.symm, ?_⟩, rfl, rfl⟩⟩
        simp only [fits, Bool.false_or, Bool.and_eq_true, decide_eq_true_eq] at hfit
        have hend := Tlv.endAddr_le_of_cfree fd.skip v.length (fd.off + hdr) (end_ - (fd.off + hdr)) hfit.2
        intro a ha
        have := hf.2 a ha
        have := h3.1
        simp only
        omega
      · simp only [hfit, Bool.false_eq_true, not_false_eq_true, if_true]
        exact ⟨h2, by simp⟩

/-! ## the Type 2 memory reader satisfies `MemOK` -/

/-- `omega`, if necessary after reducing projections of pairs -/
macro "om" : tactic => `(tactic| first | omega | (simp only; omega) | (simp; omega))


theorem trans2_spec {t : Tag} (hT : TagBytes t) (tries : Nat) (cmd : Bytes) (s : S2) :
    (trans2 t tries cmd s).2.cache = s.cache ∧ (trans2 t tries cmd s).2.sector = s.sector ∧
    s.w.n ≤ (trans2 t tries cmd s).2.w.n ∧ (trans2 t tries cmd s).2.w.n ≤ s.w.n + tries ∧
    (∀ e, (trans2 t tries cmd s).1 = .error e → isTagCmd e = true) ∧
    (∀ r, (trans2 t tries cmd s).1 = .ok r → IsBytes r) := by
  unfold trans2
  split
  · exact ⟨rfl, rfl, by om, by om, by intro e h; cases h; rfl, by intro r h; cases h⟩
  · have hn := trx_n t tries s.w cmd
    have hb := trx_bytes hT tries s.w cmd
    rcases h : trx t tries s.w cmd with ⟨r, w'⟩
    rw [h] at hn hb
    cases r with
    | some r => exact ⟨rfl, rfl, hn.1, hn.2, (by intro e h; cases h), (by intro r' h'; cases h'; exact hb r rfl)⟩
    | none => exact ⟨rfl, rfl, hn.1, hn.2, (by intro e h; cases h; rfl), (by intro r h; cases h)⟩

theorem read2_spec {t : Tag} (hT : TagBytes t) (page : Nat) (s : S2) :
    (read2 t page s).2.cache = s.cache ∧ (read2 t page s).2.w.n ≤ s.w.n + 4 ∧
    (∀ e, (read2 t page s).1 = .error e → isTagCmd e = true) ∧
    (∀ d, (read2 t page s).1 = .ok d → d.length = 16 ∧ IsBytes d) := by
  unfold read2
  have ht := trans2_spec hT 3 [0x30, page % 256] s
  rcases hr : trans2 t 3 [0x30, page % 256] s with ⟨r, s'⟩
  rw [hr] at ht
  simp only at ht
  obtain ⟨hc, hs, hn1, hn2, he, hb⟩ := ht
  cases r with
  | error e => exact ⟨hc, by om, (by intro e' h; cases h; exact he e rfl), (by intro d h; cases h)⟩
  | ok d =>
    match d with
    | [b] =>
      simp only
      split
      · simp only [xchg]
        cases t s'.w.n with
        | some x => exact ⟨hc, by om, (by intro e' h; cases h; rfl), (by intro d h; cases h)⟩
        | none => exact ⟨hc, by om, (by intro e' h; cases h; rfl), (by intro d h; cases h)⟩
      · exact ⟨hc, by om, (by intro e' h; cases h; rfl), (by intro d h; cases h)⟩
    | [] => exact ⟨hc, by om, (by intro e' h; simp at h; subst h; rfl), (by intro d h; simp at h)⟩
    | a :: b :: rest =>
      simp only
      split
      · exact ⟨hc, by om, (by intro e' h; cases h; rfl), (by intro d h; cases h)⟩
      · rename_i hl
        exact ⟨hc, by om, (by intro e' h; cases h), (by intro d h; cases h; exact ⟨by simpa using hl, hb _ rfl⟩)⟩

theorem sectorSelect_spec {t : Tag} (hT : TagBytes t) (sector : Nat) (s : S2) (hs : sector < 256) :
    (sectorSelect t sector s).2.cache = s.cache ∧ (sectorSelect t sector s).2.w.n ≤ s.w.n + 4 ∧
    (∀ e, (sectorSelect t sector s).1 = .error e → isTagCmd e = true) := by
  unfold sectorSelect
  split
  · exact ⟨rfl, by om, by simp⟩
  · rw [if_neg (by om)]
    have ht := trans2_spec hT 3 [0xC2, 0xFF] s
    rcases hr : trans2 t 3 [0xC2, 0xFF] s with ⟨r, s1⟩
    rw [hr] at ht
    simp only at ht
    obtain ⟨hc, hsx, hn1, hn2, he, hb⟩ := ht
    cases r with
    | error e => exact ⟨hc, by om, (by intro e' h; cases h; exact he e rfl)⟩
    | ok rsp =>
      simp only
      split
      · have ht2 := trans2_spec hT 1 [sector, 0, 0, 0] s1
        rcases hr2 : trans2 t 1 [sector, 0, 0, 0] s1 with ⟨r2, s2⟩
        rw [hr2] at ht2
        simp only at ht2
        obtain ⟨hc2, hsx2, hm1, hm2, he2, hb2⟩ := ht2
        cases r2 with
        | error e =>
          simp only
          split
          · exact ⟨by simp; rw [hc2, hc], by om, by simp⟩
          · exact ⟨by rw [hc2, hc], by om, (by intro e' h; cases h; exact he2 e rfl)⟩
        | ok x => exact ⟨by rw [hc2, hc], by om, (by intro e' h; cases h; rfl)⟩
      · exact ⟨hc, by om, (by intro e' h; cases h; rfl)⟩

def J2 (n0 : Nat) (s : S2) : Prop :=
  s.cache.length % 16 = 0 ∧ s.w.n ≤ n0 + 8 * (s.cache.length / 16) ∧ s.cache.length ≤ 172100 + 16 ∧ IsBytes s.cache
def Jf2 (n0 : Nat) (s : S2) : Prop := s.w.n ≤ n0 + 86066

theorem fill2_spec {t : Tag} (hT : TagBytes t) (n0 stop : Nat) (hstop : stop ≤ 172100) :
    ∀ (fuel index : Nat) (s : S2), J2 n0 s → index = s.cache.length → stop + 16 ≤ index + 16 * fuel → 0 < fuel →
      ((fill2 t stop fuel index s).1 = .ok () → J2 n0 (fill2 t stop fuel index s).2 ∧ stop ≤ (fill2 t stop fuel index s).2.cache.length) ∧
      (∀ e, (fill2 t stop fuel index s).1 = .error e → isTagCmd e = true ∧ Jf2 n0 (fill2 t stop fuel index s).2) := by
  intro fuel
  induction fuel with
  | zero => intro index s _ _ _ h; omega
  | succ f ih =>
    intro index s hJ hi hf _
    obtain ⟨hJ1, hJ2, hJ3, hJ4⟩ := hJ
    unfold fill2
    split
    · exact ⟨fun _ => ⟨⟨hJ1, hJ2, hJ3, hJ4⟩, by om⟩, by simp⟩
    · rename_i hlt
      have hsel := sectorSelect_spec hT (index / 1024) s (by omega)
      rcases hr : sectorSelect t (index / 1024) s with ⟨r, s1⟩
      rw [hr] at hsel
      simp only at hsel
      cases r with
      | error e =>
        simp only
        refine ⟨by simp, ?_⟩
        intro e' h; simp at h; subst h
        exact ⟨hsel.2.2 e rfl, by unfold Jf2; om⟩
      | ok u =>
        simp only
        have hrd := read2_spec hT (index / 4) s1
        rcases hr2 : read2 t (index / 4) s1 with ⟨r2, s2⟩
        rw [hr2] at hrd
        simp only at hrd
        cases r2 with
        | error e =>
          simp only
          refine ⟨by simp, ?_⟩
          intro e' h; simp at h; subst h
          exact ⟨hrd.2.2.1 e rfl, by unfold Jf2; om⟩
        | ok d =>
          simp only
          have hd := hrd.2.2.2 d rfl
          have hc2 : s2.cache = s.cache := by rw [hrd.1, hsel.1]
          have htake : s2.cache.take index = s.cache := by rw [hc2, hi]; exact List.take_length
          have := ih (index + 16) { s2 with cache := s2.cache.take index ++ d }
            ⟨by simp only [htake, List.length_append, hd.1]; omega,
             by simp only [htake, List.length_append, hd.1]; omega,
             by simp only [htake, List.length_append, hd.1]; omega,
             by simp only [htake]; exact IsBytes.append hJ4 hd.2⟩
            (by simp only [htake, List.length_append, hd.1]; omega) (by omega) (by omega)
          exact this

theorem mem2_ok {t : Tag} (hT : TagBytes t) (n0 : Nat) : MemOK (mem2 t) (J2 n0) (Jf2 n0) 172100 := by
  constructor
  · intro s h; obtain ⟨h1, h2, h3, -⟩ := h; unfold Jf2; omega
  · intro s h; exact h.2.2.2
  · intro stop s hJ hstop hlen
    simp only [mem2] at hlen ⊢
    have := fill2_spec hT n0 stop hstop (stop + 1) (s.cache.length / 16 * 16) s hJ
      (by have := hJ.1; omega) (by have := hJ.1; omega) (by omega)
    constructor
    · intro u s' h
      rw [h] at this
      exact this.1 rfl
    · intro e s' h
      rw [h] at this
      exact this.2 e rfl

theorem getB_len {σ} {M : Mem σ} {J Jf : σ → Prop} {LIM : Nat} (hM : MemOK M J Jf LIM)
    (a : Nat) (s : σ) (hJ : J s) (ha : a < LIM) (b : Nat) (s' : σ) (h : getB M a s = (.ok b, s')) :
    a < (M.cache s').length := by
  unfold getB at h
  split at h
  · rename_i hl
    obtain ⟨-, hs⟩ := Prod.mk.inj h
    subst hs; exact hl
  · rename_i hl
    have he := hM.ens (a + 1) s hJ (by omega) (by omega)
    rcases hr : M.ensure (a + 1) s with ⟨r, s2⟩
    rw [hr] at h
    cases r with
    | ok u =>
      simp only at h
      obtain ⟨-, hs⟩ := Prod.mk.inj h
      subst hs
      have := (he.1 u s2 hr).2
      omega
    | error e => simp at h

/-- Type 2: for every tag, `_read_ndef_data` needs at most 86066 interactions, never raises (in particular
no sector number above 255 is ever packed), and returns `None` or an object whose octets were read from
inside the data area `[16, end)` -/
theorem readNdef2_safe {t : Tag} (hT : TagBytes t) (w : W) (sector : Nat) (alive : Bool) :
    (readNdef2 t w sector alive).2.w.n ≤ w.n + 86066 ∧
    ((readNdef2 t w sector alive).1 = .ok none ∨
     ∃ d, (readNdef2 t w sector alive).1 = .ok (some d) ∧ SafeA d ∧ d.lo = 16) := by
  have hM := mem2_ok hT w.n
  have hJ0 : J2 w.n { w := w, cache := [], sector := sector, alive := alive } :=
    ⟨by simp, by simp, by simp, IsBytes.nil⟩
  unfold readNdef2
  simp only
  rcases getB_step hM 12 _ hJ0 (by omega) with ⟨b, h1, hJ1, -⟩ | ⟨e, h1, ht, hf⟩
  · rcases hg : getB (mem2 t) 12 { w := w, cache := [], sector := sector, alive := alive } with ⟨q, s1⟩
    rw [hg] at h1 hJ1; simp only at h1 hJ1; subst h1
    simp only
    -- the cache holds at least 16 octets now
    have hlen : 16 ≤ s1.cache.length := by
      have h13 : 12 < s1.cache.length := getB_len hM 12 _ hJ0 (by omega) b s1 hg
      have := hJ1.1
      omega
    obtain ⟨c0, hc0, -⟩ := idxN_lt s1.cache 12 (by omega)
    obtain ⟨c1, hc1, -⟩ := idxN_lt s1.cache 13 (by omega)
    obtain ⟨c2, hc2, hm2⟩ := idxN_lt s1.cache 14 (by omega)
    obtain ⟨c3, hc3, -⟩ := idxN_lt s1.cache 15 (by omega)
    rw [hc0, hc1, hc2, hc3]
    simp only
    split
    · exact ⟨hM.weaken _ hJ1, Or.inl rfl⟩
    · split
      · exact ⟨hM.weaken _ hJ1, Or.inl rfl⟩
      · have hc2lt : c2 < 256 := hJ1.2.2.2 c2 hm2
        have := finish_u hM (by omega) (c2 * 8 + 16) (by omega) c3 s1 hJ1
        refine ⟨this.1, ?_⟩
        rcases this.2 with h | ⟨d, h1, h2, h3, -⟩
        · exact Or.inl h
        · exact Or.inr ⟨d, h1, h2, h3⟩
  · rcases hg : getB (mem2 t) 12 { w := w, cache := [], sector := sector, alive := alive } with ⟨q, s1⟩
    rw [hg] at h1 hf; simp only at h1 hf; subst h1
    simp only [ht, if_true]
    exact ⟨hf, by simp⟩
end NfcVerif.Adv
