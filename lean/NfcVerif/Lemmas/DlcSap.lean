import NfcVerif.Model.DlcSap
/-!
# Routing of inbound PDUs among several sockets of one service access point

`SInv` is the invariant of one `sock_list`, `CInv` the invariant of a controller relative to the
log `seen` of everything that was dispatched to it.  Both only speak about the *tags* of the
sockets (who created it, peer, connection number, backlog), which most transitions leave alone.
-/
namespace NfcVerif.DlcSap
open NfcVerif NfcVerif.Dlc

/-! ## the discipline of an inbound PDU stream -/

/-- highest connection number of a CONNECT from source address `p` in a log -/
def hiOf : List WPdu → Nat → Nat
  | [], _ => 0
  | w :: rest, p => if w.isConn = true ∧ w.ssap = p then max w.cid (hiOf rest p) else hiOf rest p

/-- what a well-behaved peer guarantees for the next PDU `w` after the log `l`: a CONNECT carries a
connection number above all earlier ones from its source address, a numbered PDU (I, RR, RNR) a number
not below them -/
def StepOk (l : List WPdu) (w : WPdu) : Prop :=
  (w.isConn = true → hiOf l w.ssap < w.cid) ∧ (w.isData = true → hiOf l w.ssap ≤ w.cid)

/-- the discipline of a whole stream: every PDU is fine after everything before it -/
def Disc (l : List WPdu) : Prop := ∀ pre w post, l = pre ++ w :: post → StepOk pre w

theorem Disc.prefix {l ext : List WPdu} (h : Disc (l ++ ext)) : Disc l := by
  intro pre w post hl
  exact h pre w (post ++ ext) (by rw [hl]; simp)

theorem Disc.last {l : List WPdu} {w : WPdu} {ext : List WPdu} (h : Disc (l ++ w :: ext)) : StepOk l w :=
  h l w ext rfl

theorem hiOf_append (l : List WPdu) (w : WPdu) (p : Nat) :
    hiOf (l ++ [w]) p = if w.isConn = true ∧ w.ssap = p then max w.cid (hiOf l p) else hiOf l p := by
  induction l with
  | nil => simp [hiOf]
  | cons v l ih =>
    simp only [List.cons_append, hiOf, ih]
    split <;> split <;> simp only [Nat.max_def] <;> (repeat' split) <;> omega

theorem hiOf_le_append (l : List WPdu) (w : WPdu) (p : Nat) : hiOf l p ≤ hiOf (l ++ [w]) p := by
  rw [hiOf_append]; split
  · exact Nat.le_max_right _ _
  · exact Nat.le_refl _

theorem hiOf_mono_cons (w : WPdu) (l : List WPdu) (p : Nat) : hiOf l p ≤ hiOf (w :: l) p := by
  simp only [hiOf]; split <;> omega

/-! ## tags -/

structure Tag where
  acc : Bool
  peer : Option Nat
  cid : Nat
  lst : Bool                  -- state LISTEN
  alone : Bool                -- state CLOSED or CONNECT
  cq : List (Nat × Nat)       -- (ssap, connection number) of the CONNECT PDUs in the backlog
  addr : Option Nat
  deriving DecidableEq, Repr

def Sock.tag (s : Sock) : Tag :=
  { acc := s.acc, peer := s.peer, cid := s.cid, lst := s.cs == .listen,
    alone := s.cs == .closed || s.cs == .connect, cq := s.cq.map fun w => (w.ssap, w.cid), addr := s.addr }

def tags (l : List Sock) : List Tag := l.map Sock.tag

/-- backlog entries of one source address carry increasing numbers -/
def CqOrd (q : List (Nat × Nat)) : Prop := q.Pairwise fun e1 e2 => e1.1 = e2.1 → e1.2 < e2.2

/-- accepted sockets of one peer: the newer one stands further left -/
def AccOrd (l : List Tag) : Prop := l.Pairwise fun x y => x.peer = y.peer → x.cid > y.cid

/-- invariant of the `sock_list` of the access point with address `A`; `hi` = highest connection number
seen so far per source address -/
structure SInv (hi : Nat → Nat) (A : Nat) (t : List Tag) : Prop where
  shape : ∃ accs : List Tag, ∃ o : Option Tag, t = accs ++ o.toList ∧
    (∀ x ∈ accs, x.acc = true ∧ x.lst = false ∧ x.alone = false ∧ x.cq = [] ∧ ∃ p, x.peer = some p ∧ x.cid ≤ hi p) ∧
    AccOrd accs ∧
    (∀ x ∈ o, x.acc = false ∧ (x.lst = true ∨ x.alone = true → x.peer = none) ∧ (x.lst = false → x.cq = []) ∧
       ((x.alone = true ∨ x.peer ≠ none) → accs = []) ∧ CqOrd x.cq ∧
       ∀ e ∈ x.cq, e.2 ≤ hi e.1 ∧ ∀ y ∈ accs, y.peer = some e.1 → y.cid < e.2)
  addr : ∀ x ∈ t, x.addr = some A

theorem SInv.mono {hi hi' : Nat → Nat} {A : Nat} {t : List Tag} (h : SInv hi A t) (hle : ∀ p, hi p ≤ hi' p) :
    SInv hi' A t := by
  obtain ⟨⟨accs, o, ht, ha, hord, ho⟩, haddr⟩ := h
  refine ⟨⟨accs, o, ht, ?_, hord, ?_⟩, haddr⟩
  · intro x hx
    obtain ⟨h1, h2, h3, h4, p, h5, h6⟩ := ha x hx
    exact ⟨h1, h2, h3, h4, p, h5, Nat.le_trans h6 (hle p)⟩
  · intro x hx
    obtain ⟨h1, h2, h3, h4, h5, h6⟩ := ho x hx
    refine ⟨h1, h2, h3, h4, h5, ?_⟩
    intro e he
    exact ⟨Nat.le_trans (h6 e he).1 (hle e.1), (h6 e he).2⟩

theorem SInv.single (hi : Nat → Nat) (A : Nat) (x : Tag) (h1 : x.acc = false) (h2 : x.cq = [])
    (h3 : x.lst = true ∨ x.alone = true → x.peer = none) (h4 : x.addr = some A) : SInv hi A [x] := by
  refine ⟨⟨[], some x, rfl, ?_, List.Pairwise.nil, ?_⟩, ?_⟩
  · intro y hy; cases hy
  · intro y hy
    have : y = x := by simpa using hy.symm
    subst this
    refine ⟨h1, h3, fun _ => h2, fun _ => rfl, ?_, ?_⟩
    · rw [h2]; exact List.Pairwise.nil
    · intro e he; rw [h2] at he; cases he
  · intro y hy
    have : y = x := by simpa using hy
    subst this; exact h4

/-- removing sockets keeps the invariant -/
theorem SInv.sublist {hi : Nat → Nat} {A : Nat} {t t' : List Tag} (h : SInv hi A t) (hs : t'.Sublist t) :
    SInv hi A t' := by
  obtain ⟨⟨accs, o, ht, ha, hord, ho⟩, haddr⟩ := h
  subst ht
  obtain ⟨a', o', rfl, hsa, hso⟩ := List.sublist_append_iff.1 hs
  refine ⟨⟨a', ?_⟩, fun x hx => haddr x (hs.subset hx)⟩
  cases o with
  | none =>
    have : o' = [] := by simpa using hso
    subst this
    exact ⟨none, rfl, fun x hx => ha x (hsa.subset hx), hord.sublist hsa, fun x hx => by cases hx⟩
  | some z =>
    have hz : o' = [] ∨ o' = [z] := by
      simp only [Option.toList] at hso
      cases o' with
      | nil => exact Or.inl rfl
      | cons y r =>
        right
        cases hso with
        | cons _ h => cases h
        | cons_cons _ h => have := List.sublist_nil.1 h; subst this; rfl
    rcases hz with rfl | rfl
    · exact ⟨none, rfl, fun x hx => ha x (hsa.subset hx), hord.sublist hsa, fun x hx => by cases hx⟩
    · refine ⟨some z, rfl, fun x hx => ha x (hsa.subset hx), hord.sublist hsa, ?_⟩
      intro x hx
      obtain ⟨h1, h2, h3, h4, h5, h6⟩ := ho x hx
      refine ⟨h1, h2, h3, ?_, h5, ?_⟩
      · intro hc
        have := h4 hc
        subst this
        exact List.sublist_nil.1 hsa
      · intro e he
        exact ⟨(h6 e he).1, fun y hy => (h6 e he).2 y (hsa.subset hy)⟩


/-! ## where a PDU of a connection goes -/

theorem shape_cases {accs : List Tag} {o : Option Tag} {t1 t2 : List Tag} {x : Tag}
    (h : accs ++ o.toList = t1 ++ x :: t2) :
    (∃ a2, accs = t1 ++ x :: a2 ∧ t2 = a2 ++ o.toList) ∨ (o = some x ∧ accs = t1 ∧ t2 = []) := by
  rcases List.append_eq_append_iff.1 h with ⟨a', h1, h2⟩ | ⟨c', h1, h2⟩
  · -- t1 = accs ++ a', o.toList = a' ++ x :: t2
    cases o with
    | none => simp at h2
    | some z =>
      simp only [Option.toList] at h2
      cases a' with
      | nil =>
        simp only [List.nil_append, List.cons.injEq] at h2
        right
        exact ⟨by rw [h2.1], by simpa using h1.symm, h2.2.symm⟩
      | cons y r =>
        simp only [List.cons_append, List.cons.injEq] at h2
        have := h2.2
        cases r <;> simp at this
  · -- accs = t1 ++ c', x :: t2 = c' ++ o.toList
    cases c' with
    | nil =>
      simp only [List.nil_append] at h2
      cases o with
      | none => simp at h2
      | some z =>
        simp only [Option.toList, List.cons.injEq] at h2
        right
        exact ⟨by rw [h2.1], by simpa using h1, h2.2⟩
    | cons y r =>
      simp only [List.cons_append, List.cons.injEq] at h2
      left
      exact ⟨r, by rw [h1, h2.1], h2.2⟩

theorem tags_append (l1 l2 : List Sock) : tags (l1 ++ l2) = tags l1 ++ tags l2 := List.map_append

theorem tags_cons (s : Sock) (l : List Sock) : tags (s :: l) = s.tag :: tags l := rfl

/-- **Routing.**  In a `sock_list` that satisfies the invariant, a socket `σ` of peer `p` whose connection number
is not below anything seen from `p` is the FIRST socket that `ServiceAccessPoint.enqueue` considers for a PDU
from `p`: no socket to its left has peer `p` or no peer. -/
theorem SInv.route {hi : Nat → Nat} {A : Nat} {l : List Sock} (h : SInv hi A (tags l)) (σ : Sock) (hσ : σ ∈ l)
    (p : Nat) (hp : σ.peer = some p) (hk : hi p ≤ σ.cid) :
    ∃ pre post, l = pre ++ σ :: post ∧ ∀ τ ∈ pre, matchPeer p τ = false := by
  obtain ⟨pre, post, rfl⟩ := List.append_of_mem hσ
  refine ⟨pre, post, rfl, ?_⟩
  obtain ⟨⟨accs, o, ht, ha, hord, ho⟩, _⟩ := h
  rw [tags_append, tags_cons] at ht
  intro τ hτ
  have hτt : τ.tag ∈ tags pre := List.mem_map_of_mem hτ
  rcases shape_cases ht.symm with ⟨a2, h1, _⟩ | ⟨h1, h2, _⟩
  · -- σ is an accepted socket
    have hτa : τ.tag ∈ accs := by rw [h1]; exact List.mem_append_left _ hτt
    obtain ⟨_, _, _, _, q, hq, hle⟩ := ha τ.tag hτa
    have hq' : τ.peer = some q := hq
    by_cases hqp : q = p
    · subst hqp
      exfalso
      rw [h1] at hord
      have hp1 := List.pairwise_append.1 hord
      have := hp1.2.2 τ.tag hτt σ.tag (List.mem_cons_self ..)
      have h3 : τ.tag.cid > σ.tag.cid := this (by show τ.peer = σ.peer; rw [hq', hp])
      have h4 : τ.tag.cid = τ.cid := rfl
      have h5 : σ.tag.cid = σ.cid := rfl
      omega
    · simp only [matchPeer, hq']
      simp [hqp]
  · -- σ is the original socket of the access point and has a peer: it is alone
    have hso : σ.tag ∈ o := by rw [h1]; rfl
    obtain ⟨_, _, _, h4, _, _⟩ := ho σ.tag hso
    have : accs = [] := h4 (Or.inr (by show σ.peer ≠ none; rw [hp]; simp))
    rw [this] at h2
    have : pre = [] := by
      cases pre with
      | nil => rfl
      | cons y r => simp [tags] at h2
    subst this
    cases hτ

/-- the consequence for `updFirst`: the PDU is handed to `σ` -/
theorem updFirst_of_route (p : Sock → Bool) (f : Sock → Sock) (pre post : List Sock) (σ : Sock)
    (hpre : ∀ τ ∈ pre, p τ = false) (hσ : p σ = true) :
    updFirst p f (pre ++ σ :: post) = some (pre ++ f σ :: post) := by
  induction pre with
  | nil => simp [updFirst, hσ]
  | cons y r ih =>
    have hy := hpre y (List.mem_cons_self ..)
    simp only [List.cons_append, updFirst, hy]
    rw [ih (fun τ hτ => hpre τ (List.mem_cons_of_mem _ hτ))]
    rfl

/-! ## transitions that do not touch tags -/

theorem enqueue_tag (s : Sock) (w : WPdu) (h : w.isConn = false) : (s.enqueue w).tag = s.tag := by
  unfold Sock.enqueue
  cases hcs : s.cs <;> simp only [h]
  · simp [Sock.tag, hcs]
  · rfl
  · split
    · split <;> simp [Sock.tag, hcs]
    · split <;> simp [Sock.tag, hcs]
    · rfl
  · split <;> simp [Sock.tag, hcs]

theorem dequeue_tag (s : Sock) (b : Int) : (s.dequeue b).1.tag = s.tag := by
  unfold Sock.dequeue
  cases hcs : s.cs <;> dsimp only
  all_goals (repeat' split)
  all_goals simp [Sock.tag, hcs]

theorem sendack_tag (s : Sock) : s.sendack.1.tag = s.tag := by
  unfold Sock.sendack
  cases hcs : s.cs <;> simp [Sock.tag, hcs]

theorem deqFirst_tags (b : Int) (l : List Sock) : tags (deqFirst b l).1 = tags l := by
  induction l with
  | nil => rfl
  | cons s r ih =>
    simp only [deqFirst]
    split
    · simp [tags, dequeue_tag]
    · simp only [tags, List.map_cons, dequeue_tag] at ih ⊢
      rw [ih]

theorem ackFirst_tags (l : List Sock) : tags (ackFirst l).1 = tags l := by
  induction l with
  | nil => rfl
  | cons s r ih =>
    simp only [ackFirst]
    split
    · simp [tags, sendack_tag]
    · simp only [tags, List.map_cons, sendack_tag] at ih ⊢
      rw [ih]

theorem updFirst_tags (p : Sock → Bool) (f : Sock → Sock) (hf : ∀ s, (f s).tag = s.tag) (l l' : List Sock)
    (h : updFirst p f l = some l') : tags l' = tags l := by
  induction l generalizing l' with
  | nil => simp [updFirst] at h
  | cons s r ih =>
    simp only [updFirst] at h
    split at h
    · cases h; simp [tags, hf]
    · cases hr : updFirst p f r with
      | none => rw [hr] at h; simp at h
      | some r' =>
        rw [hr] at h
        simp only [Option.map_some, Option.some.injEq] at h
        subst h
        simp only [tags, List.map_cons] at ih ⊢
        rw [ih r' hr]

theorem updSid_tags (sid : Nat) (f : Sock → Sock) (hf : ∀ s, (f s).tag = s.tag) (l : List Sock) :
    tags (updSid sid f l) = tags l := by
  induction l with
  | nil => rfl
  | cons s r ih =>
    simp only [updSid]
    split
    · simp [tags, hf]
    · simp only [tags, List.map_cons] at ih ⊢; rw [ih]

/-- what the invariant of a controller reads -/
def skel (saps : List Sap) : List (Nat × List Tag) := saps.map fun a => (a.addr, tags a.socks)

theorem sapsUpd_skel (sid : Nat) (f : Sock → Sock) (hf : ∀ s, (f s).tag = s.tag) (saps : List Sap) :
    skel (sapsUpd sid f saps) = skel saps := by
  induction saps with
  | nil => rfl
  | cons a r ih =>
    simp only [sapsUpd]
    split
    · simp [skel, updSid_tags sid f hf]
    · simp only [skel, List.map_cons] at ih ⊢; rw [ih]

theorem updSap_skel (addr : Nat) (f : Sap → Sap) (hf : ∀ a, (f a).addr = a.addr ∧ tags (f a).socks = tags a.socks)
    (saps : List Sap) : skel (updSap addr f saps) = skel saps := by
  induction saps with
  | nil => rfl
  | cons a r ih =>
    simp only [updSap, skel, List.map_cons] at ih ⊢
    rw [ih]
    split
    · rw [(hf a).1, (hf a).2]
    · rfl

theorem dequeue_sap (a : Sap) (b : Int) : (a.dequeue b).1.addr = a.addr ∧ tags (a.dequeue b).1.socks = tags a.socks := by
  unfold Sap.dequeue
  dsimp only
  split
  · exact ⟨rfl, deqFirst_tags b a.socks⟩
  · split <;> exact ⟨rfl, deqFirst_tags b a.socks⟩

theorem sendack_sap (a : Sap) : a.sendack.1.addr = a.addr ∧ tags a.sendack.1.socks = tags a.socks :=
  ⟨rfl, ackFirst_tags a.socks⟩

theorem enqueue_sap (a : Sap) (w : WPdu) (h : w.isConn = false) :
    (a.enqueue w).addr = a.addr ∧ tags (a.enqueue w).socks = tags a.socks := by
  unfold Sap.enqueue
  rw [if_neg (by simp [h])]
  split
  · rename_i l hl
    exact ⟨rfl, updFirst_tags _ _ (fun s => enqueue_tag s w h) _ _ hl⟩
  · exact ⟨rfl, rfl⟩

end NfcVerif.DlcSap
