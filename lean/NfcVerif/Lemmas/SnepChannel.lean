import NfcVerif.Model.SnepChannel
/-! Lemmas about fragmentation (chunks) and the message pump of Model/SnepChannel.lean (C06). -/
namespace NfcVerif.Chan
open NfcVerif

theorem chunksF_flatten (miu : Nat) (hm : 0 < miu) :
    ∀ n (d : Bytes), d.length ≤ n → (chunksF miu n d).flatten = d := by
  intro n
  induction n with
  | zero => intro d h; have : d = [] := List.eq_nil_of_length_eq_zero (by omega); subst this; simp [chunksF]
  | succ n ih =>
    intro d h
    unfold chunksF
    split
    · next h0 => simp [h0]
    · rw [List.flatten_cons, ih _ (by simp; omega), List.take_append_drop]

theorem chunksF_bound (miu : Nat) (hm : 0 < miu) :
    ∀ n (d : Bytes), ∀ f ∈ chunksF miu n d, f.length ≤ miu ∧ f ≠ [] := by
  intro n
  induction n with
  | zero => intro d f hf; simp [chunksF] at hf
  | succ n ih =>
    intro d f hf
    unfold chunksF at hf
    split at hf
    · simp at hf
    · next h0 =>
      rcases List.mem_cons.mp hf with h | h
      · subst h
        refine ⟨by simp; omega, ?_⟩
        cases d with
        | nil => exact absurd rfl h0
        | cons a t =>
          obtain ⟨k, rfl⟩ : ∃ k, miu = k + 1 := ⟨miu - 1, by omega⟩
          simp
      · exact ih _ f h

theorem chunks_flatten (miu : Nat) (hm : 0 < miu) (d : Bytes) : (chunks miu d).flatten = d :=
  chunksF_flatten miu hm _ d (Nat.le_refl _)

theorem chunks_bound (miu : Nat) (hm : 0 < miu) (d : Bytes) :
    ∀ f ∈ chunks miu d, f.length ≤ miu ∧ f ≠ [] := chunksF_bound miu hm _ d

theorem chunks_nil (miu : Nat) : chunks miu [] = [] := by simp [chunks, chunksF]

theorem chunks_ne_nil (miu : Nat) (d : Bytes) (h : d ≠ []) : chunks miu d ≠ [] := by
  cases d with
  | nil => exact absurd rfl h
  | cons a t => simp [chunks, chunksF]

variable {C S D : Type}

theorem pump_add (p : Proto C S D) (a b : Nat) (n : Net C S D) :
    pump p (a + b) n = pump p b (pump p a n) := by
  induction a generalizing n with
  | zero => simp [pump]
  | succ a ih => rw [Nat.succ_add]; simp only [pump]; exact ih _

theorem step_quiet (p : Proto C S D) (n : Net C S D) (h : quiet p n) : step p n = n := by
  obtain ⟨h1, h2⟩ := h
  unfold step
  rw [h1]
  rcases h2 with h2 | h2
  · rw [h2]
  · cases hs : n.s2c with
    | nil => rfl
    | cons m q => simp [h2]

theorem pump_quiet (p : Proto C S D) (k : Nat) (n : Net C S D) (h : quiet p n) : pump p k n = n := by
  induction k with
  | zero => rfl
  | succ k ih => simp only [pump]; rw [step_quiet p n h]; exact ih

theorem pump_stable (p : Proto C S D) (N : Nat) (n m : Net C S D) (h : pump p N n = m) (hq : quiet p m) :
    ∀ fuel, N ≤ fuel → pump p fuel n = m := by
  intro fuel hf
  obtain ⟨k, rfl⟩ : ∃ k, fuel = N + k := ⟨fuel - N, by omega⟩
  rw [pump_add, h, pump_quiet p k m hq]

end NfcVerif.Chan
