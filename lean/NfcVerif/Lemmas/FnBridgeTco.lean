import NfcVerif.Gen.FnTco
import NfcVerif.Lemmas.FnBridgeBase
import NfcVerif.Model.Dlc
import NfcVerif.Model.Collect
import NfcVerif.Model.Sap
import NfcVerif.Model.FnTcoRef
/-!
Helper definitions and lemmas of the bridge theorems of group Tco (`Props/FnBridgeTco.lean`).
-/
namespace NfcVerif.FnBridge.Tco
open NfcVerif NfcVerif.PyFn

/-- a socket option value as the dynamically typed result of the regenerated `getsockopt` -/
def encOpt : FnTcoRef.OptVal → Val
  | .int n => .int n
  | .bool b => .bool b
  | .none => .none

/-- `SockOpt.ofCode` recognises exactly the six constants -/
theorem ofCode_code (o : FnTcoRef.SockOpt) : FnTcoRef.SockOpt.ofCode o.code = some o := by
  cases o <;> rfl

/-- window arithmetic: the code's `(rw - v + va) % 16` on naturals -/
theorem slots_nat (rw v va : Nat) :
    (((rw : Int) - v + va) % 16) = (((rw + 16 - v % 16 + va) % 16 : Nat) : Int) := by omega

/-- `pdu.name` of the PDU kinds of the collection model (only UI and I matter to `dequeue`) -/
def kindName : Collect.Kind → String
  | .symm => "SYMM" | .pax => "PAX" | .agf => "AGF" | .ui => "UI" | .connect => "CONNECT" | .disc => "DISC"
  | .cc => "CC" | .dm => "DM" | .frmr => "FRMR" | .snl => "SNL" | .dps => "DPS" | .i => "I" | .rr => "RR"
  | .rnr => "RNR" | .other => "UNKNOWN"

theorem kindName_ui_i (k : Collect.Kind) :
    (kindName k = "UI" ∨ kindName k = "I") ↔ (k = .ui ∨ k = .i) := by
  cases k <;> simp [kindName]


end NfcVerif.FnBridge.Tco
