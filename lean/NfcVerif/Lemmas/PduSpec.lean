import NfcVerif.Lemmas.PduRound
/-!
# The decoder agrees with the independent reading of the frame formats
(PDU types without a parameter list; the types with TLV lists and AGF are
covered by the differential tie `spec` of the check, not by a theorem)
-/
namespace NfcVerif.Pdu
open NfcVerif

/-- forget which exception was raised -/
def toOpt {α : Type} : Py α → Option α
  | .ok a => some a
  | .error _ => none

/-- PDU types whose information field is not a parameter list and not an aggregate -/
def plainType (t : Nat) : Prop :=
  t = 0 ∨ t = 3 ∨ t = 5 ∨ t = 7 ∨ t = 8 ∨ t = 11 ∨ t = 12 ∨ t = 13 ∨ t = 14 ∨ t = 15

namespace Impl

theorem decode_cons2 (b0 b1 : Nat) (info : Bytes) (h1 : b1 < 256) :
    decode (b0 :: b1 :: info) =
      match kindOf ((b0 % 4) * 4 + b1 / 64) with
      | .agf => decAgf (b0 :: b1 :: info) 0 (info.length + 2)
      | .simple dec => dec (b0 :: b1 :: info) 0 (info.length + 2) >>= fun p => pure (.simple p) := by
  unfold decode decodeAt decodePre
  have c1 : ¬ (0 + (b0 :: b1 :: info).length > (b0 :: b1 :: info).length) := by omega
  have c2 : ¬ ((b0 :: b1 :: info).length < 2) := by simp
  have e : (b0 * 256 + b1) / 64 % 16 = (b0 % 4) * 4 + b1 / 64 := by omega
  simp only [c1, c2, if_false, sliceN_all]
  simp [unpackH, e]
  rfl

theorem short_decode (b : Bytes) (h : b.length < 2) : toOpt (decode b) = Spec.decode b := by
  match b, h with
  | [], _ => rfl
  | [_], _ => rfl

theorem plain_refines (b0 b1 : Nat) (info : Bytes) (h0 : b0 < 256) (h1 : b1 < 256)
    (ht : plainType ((b0 % 4) * 4 + b1 / 64)) :
    toOpt (decode (b0 :: b1 :: info)) = Spec.decode (b0 :: b1 :: info) := by
  rw [decode_cons2 b0 b1 info h1]
  have hdrE : decodeHeader (b0 :: b1 :: info) 0 (info.length + 2) = .ok (b0 / 4, b1 % 64) := by
    simp [decodeHeader, unpackBB]
  rcases ht with hp | hp | hp | hp | hp | hp | hp | hp | hp | hp
  all_goals simp only [hp, kindOf, Spec.decode, Spec.decodeS]
  · -- SYMM
    simp only [decSymm, hdrE, Py.bind_ok]
    rcases info with _ | ⟨x, xs⟩
    · by_cases c1 : b0 / 4 = 0 <;> by_cases c2 : b1 % 64 = 0 <;> simp [c1, c2, toOpt]
    · by_cases c1 : b0 / 4 = 0 <;> by_cases c2 : b1 % 64 = 0 <;> simp [c1, c2, toOpt]
  · -- UI
    simp [decUi, hdrE, toOpt, sliceN]
  · -- DISC
    simp [decDisc, hdrE, toOpt]
  · -- DM
    rcases info with _ | ⟨r, _ | ⟨x, xs⟩⟩ <;> simp [decDm, decodeHeader, unpackBB, toOpt, unpackB]
  · -- FRMR
    rcases info with _ | ⟨x0, _ | ⟨x1, _ | ⟨x2, _ | ⟨x3, _ | ⟨x4, xs⟩⟩⟩⟩⟩ <;>
      simp [decFrmr, decodeHeader, unpackBB, toOpt, unpackBBBB]
  · -- unknown 1011
    have e : (b0 * 4 + b1 / 64) % 16 = 11 := by omega
    simp [decUnknown, hdrE, toOpt, idxN, sliceN, e]
  · -- I
    rcases info with _ | ⟨sq, sdu⟩
    · simp [decInfo, decodeHeaderN, toOpt]
    · have c : ¬ (sdu.length + 1 + 2 < 3) := by omega
      simp [decInfo, decodeHeaderN, unpackBBB, toOpt, sliceN, c]
  · -- RR
    rcases info with _ | ⟨sq, sdu⟩
    · simp [decRr, decodeHeaderN, toOpt]
    · have c : ¬ (sdu.length + 1 + 2 < 3) := by omega
      simp [decRr, decodeHeaderN, unpackBBB, toOpt, c]
  · -- RNR
    rcases info with _ | ⟨sq, sdu⟩
    · simp [decRnr, decodeHeaderN, toOpt]
    · have c : ¬ (sdu.length + 1 + 2 < 3) := by omega
      simp [decRnr, decodeHeaderN, unpackBBB, toOpt, c]
  · -- unknown 1111
    have e : (b0 * 4 + b1 / 64) % 16 = 15 := by omega
    simp [decUnknown, hdrE, toOpt, idxN, sliceN, e]

end Impl
end NfcVerif.Pdu
