import NfcVerif.Lemmas.PduRound
/-!
# The decoder agrees with the independent reading `Spec.decode` of the frame formats,
for every octet string
-/
namespace NfcVerif.Pdu
open NfcVerif

/-- forget which exception was raised -/
def toOpt {α : Type} : Py α → Option α
  | .ok a => some a
  | .error _ => none

@[simp] theorem toOpt_ok {α : Type} (a : α) : toOpt (Except.ok a : Py α) = some a := rfl
@[simp] theorem toOpt_error {α : Type} (e : Exc) : toOpt (Except.error e : Py α) = none := rfl

theorem toOpt_bind {α β : Type} (x : Py α) (f : α → Py β) :
    toOpt (x >>= f) = (toOpt x).bind (fun a => toOpt (f a)) := by
  cases x <;> rfl

theorem toOpt_eq_some {α : Type} {x : Py α} {a : α} (h : toOpt x = some a) : x = .ok a := by
  cases x with
  | ok b => simp at h; rw [h]
  | error e => simp at h

theorem toOpt_eq_none {α : Type} {x : Py α} (h : toOpt x = none) : ∃ e, x = .error e := by
  cases x with
  | ok b => simp at h
  | error e => exact ⟨e, rfl⟩

/-- PDU types whose information field is not a parameter list and not an aggregate -/
def plainType (t : Nat) : Prop :=
  t = 0 ∨ t = 3 ∨ t = 5 ∨ t = 7 ∨ t = 8 ∨ t = 11 ∨ t = 12 ∨ t = 13 ∨ t = 14 ∨ t = 15

/-- `(T, V)` of `Parameter.decode` for a parameter of the format reading -/
def tlvOf : Spec.Param → Nat × TlvV
  | .version v => (1, .num v) | .miux v => (2, .num v) | .wks v => (3, .num v) | .lto v => (4, .num v)
  | .rw v => (5, .num v) | .sn v => (6, .raw v) | .opt v => (7, .num v) | .sdreq t n => (8, .sdreq t n)
  | .sdres t s => (9, .sdres t s) | .ecpk v => (10, .raw v) | .rn v => (11, .raw v)
  | .other t v => (if 1 ≤ t ∧ t ≤ 11 then 0 else t, .raw v)

namespace Impl

/-! ## one parameter -/

theorem paramDecode_spec' (t : Nat) (v tail : Bytes) :
    toOpt (paramDecode (t :: v.length :: (v ++ tail)) 0)
      = (Spec.param t v).map (fun p => (t, v.length, (tlvOf p).2)) := by
  rw [paramDecode_eq, paramRaw_head]
  simp only [Py.bind_ok]
  by_cases h1 : t = 1
  · subst h1; rcases v with _ | ⟨x, _ | ⟨y, zs⟩⟩ <;> simp [Spec.param, tlvOf, unpackB]
  by_cases h2 : t = 2
  · subst h2; rcases v with _ | ⟨x, _ | ⟨y, _ | ⟨z, zs⟩⟩⟩ <;> simp [Spec.param, tlvOf, unpackH]
  by_cases h3 : t = 3
  · subst h3; rcases v with _ | ⟨x, _ | ⟨y, _ | ⟨z, zs⟩⟩⟩ <;> simp [Spec.param, tlvOf, unpackH]
  by_cases h4 : t = 4
  · subst h4; rcases v with _ | ⟨x, _ | ⟨y, zs⟩⟩ <;> simp [Spec.param, tlvOf, unpackB]
  by_cases h5 : t = 5
  · subst h5; rcases v with _ | ⟨x, _ | ⟨y, zs⟩⟩ <;> simp [Spec.param, tlvOf, unpackB]
  by_cases h6 : t = 6
  · subst h6; simp [Spec.param, tlvOf]
  by_cases h7 : t = 7
  · subst h7; rcases v with _ | ⟨x, _ | ⟨y, zs⟩⟩ <;> simp [Spec.param, tlvOf, unpackB]
  by_cases h8 : t = 8
  · subst h8
    rcases v with _ | ⟨x, zs⟩
    · simp [Spec.param]
    · have c : 1 + zs.length ≤ zs.length + 1 := by omega
      simp [Spec.param, tlvOf, unpackB, unpackS, c]
  by_cases h9 : t = 9
  · subst h9; rcases v with _ | ⟨x, _ | ⟨y, _ | ⟨z, zs⟩⟩⟩ <;> simp [Spec.param, tlvOf, unpackBB]
  by_cases h10 : t = 10
  · subst h10; simp [Spec.param, tlvOf]
  by_cases h11 : t = 11
  · subst h11; simp [Spec.param, tlvOf]
  simp [Spec.param, tlvOf, h1, h2, h3, h4, h5, h6, h7, h8, h9, h10, h11]

theorem param_type {t : Nat} {v : Bytes} {p : Spec.Param} (h : Spec.param t v = some p) : (tlvOf p).1 = t := by
  unfold Spec.param at h
  repeat' split at h
  all_goals first
    | (cases h; done)
    | (cases h; dsimp only [tlvOf]; omega)
    | (cases h; dsimp only [tlvOf]; split <;> omega)

/-! ## parameter lists -/

/-- what a class decoder does with one parameter of the format reading -/
def specStep {σ : Type} (app : σ → Nat → TlvV → σ) (s : σ) (p : Spec.Param) : σ :=
  app s (tlvOf p).1 (tlvOf p).2

theorem params_nil (n : Nat) : Spec.params n [] = some [] := by cases n <;> rfl
theorem params_single (n x : Nat) : Spec.params n [x] = some [] := by cases n <;> rfl
theorem params_cons (k t l : Nat) (rest : Bytes) :
    Spec.params (k + 1) (t :: l :: rest) =
      if rest.length < l then none else
      match Spec.param t (rest.take l), Spec.params k (rest.drop l) with
      | some p, some ps => some (p :: ps)
      | _, _ => none := rfl

theorem run_single {σ : Type} (app : σ → Nat → TlvV → σ) (x : Nat) (st : σ) : run app [x] st = .ok st := by
  unfold run; exact tlvLoop_done _ _ _ _ _ _ (by simp)

theorem run_error {σ : Type} (app : σ → Nat → TlvV → σ) (t l : Nat) (rest : Bytes) (st : σ) (e : Exc)
    (h : paramDecode (t :: l :: rest) 0 = .error e) : run app (t :: l :: rest) st = .error e := by
  unfold run
  have hlen : (t :: l :: rest).length = (rest.length + 1) + 1 := by simp
  rw [hlen, tlvLoop_succ _ _ _ _ _ _ (by omega), h]
  rfl

theorem paramDecode_short (t l : Nat) (rest : Bytes) (h : rest.length < l) :
    ∃ e, paramDecode (t :: l :: rest) 0 = .error e := by
  have c : ¬ (2 + l ≤ rest.length + 1 + 1) := by omega
  refine ⟨.decodeError, ?_⟩
  rw [paramDecode_eq]
  simp [paramRaw, structToDecode, wrapExc, unpackBB, unpackS, c]

theorem run_spec {σ : Type} (app : σ → Nat → TlvV → σ) (n : Nat) (info : Bytes) (st : σ) (hn : info.length ≤ n) :
    toOpt (run app info st) = (Spec.params n info).map (fun ps => ps.foldl (specStep app) st) := by
  induction n generalizing info st with
  | zero =>
    have : info = [] := by cases info <;> simp_all
    subst this
    simp [run_nil, params_nil]
  | succ k ih =>
    match info, hn with
    | [], _ => simp [run_nil, params_nil]
    | [x], _ => simp [run_single, params_single]
    | t :: l :: rest, hn =>
      rw [params_cons]
      by_cases hl : rest.length < l
      · obtain ⟨e, he⟩ := paramDecode_short t l rest hl
        simp [run_error app t l rest st e he, hl]
      · simp only [hl, if_false]
        have e1 : rest = rest.take l ++ rest.drop l := (List.take_append_drop l rest).symm
        have e2 : (rest.take l).length = l := by simp; omega
        have hspec := paramDecode_spec' t (rest.take l) (rest.drop l)
        rw [e2, ← e1] at hspec
        cases hp : Spec.param t (rest.take l) with
        | none =>
          rw [hp] at hspec
          obtain ⟨e, he⟩ := toOpt_eq_none hspec
          simp [run_error app t l rest st e he]
        | some p =>
          rw [hp] at hspec
          have hdec := toOpt_eq_some hspec
          have hrun := run_cons app (t :: l :: rest.take l) (rest.drop l) t l (tlvOf p).2 st
            (by simpa [← e1] using hdec) (by simp; omega)
          have e3 : (t :: l :: rest.take l) ++ rest.drop l = t :: l :: rest := by simp [← e1]
          rw [e3] at hrun
          have hlen : (rest.drop l).length ≤ k := by simp at hn ⊢; omega
          rw [hrun, ih (rest.drop l) _ hlen]
          have hstep : app st t (tlvOf p).2 = specStep app st p := by
            unfold specStep; rw [param_type hp]
          rw [hstep]
          cases Spec.params k (rest.drop l) <;> simp

/-! ## what the class decoders keep of a parameter list -/

/-- `match o with | some v => h v | none => d` as a named function -/
def orElse {α β : Type} (o : Option α) (h : α → β) (d : β) : β :=
  match o with
  | some v => h v
  | none => d

theorem lastSome_eq {α : Type} (f : Spec.Param → Option α) (ps : List Spec.Param) :
    Spec.lastSome f ps = ps.foldl (fun acc p => orElse (f p) some acc) none := by
  unfold Spec.lastSome
  congr 1

theorem fold_gen {σ α : Type} (step : σ → Spec.Param → σ) (proj : σ → α) (g : α → Spec.Param → α)
    (hstep : ∀ s p, proj (step s p) = g (proj s) p) (s : σ) (ps : List Spec.Param) :
    proj (ps.foldl step s) = ps.foldl g (proj s) := by
  induction ps generalizing s with
  | nil => rfl
  | cons p ps ih => simp only [List.foldl_cons]; rw [ih, hstep]

theorem lastSome_field {σ α : Type} (step : σ → Spec.Param → σ) (proj : σ → Option α) (f : Spec.Param → Option α)
    (hstep : ∀ s p, proj (step s p) = orElse (f p) some (proj s))
    (s : σ) (ps : List Spec.Param) (hs : proj s = none) :
    proj (ps.foldl step s) = Spec.lastSome f ps := by
  rw [lastSome_eq, ← hs]
  exact fold_gen step proj (fun acc p => orElse (f p) some acc) hstep s ps

theorem lastSome_nat {σ : Type} (step : σ → Spec.Param → σ) (proj : σ → Nat) (f : Spec.Param → Option Nat)
    (h : Nat → Nat) (d : Nat)
    (hstep : ∀ s p, proj (step s p) = orElse (f p) h (proj s))
    (s : σ) (ps : List Spec.Param) (hs : proj s = d) :
    proj (ps.foldl step s) = orElse (Spec.lastSome f ps) h d := by
  rw [lastSome_eq]
  have gen : ∀ (ps : List Spec.Param) (s : σ) (a : Option Nat), proj s = orElse a h d →
      proj (ps.foldl step s) = orElse (ps.foldl (fun acc p => orElse (f p) some acc) a) h d := by
    intro ps
    induction ps with
    | nil => intro s a ha; exact ha
    | cons p ps ih =>
      intro s a ha
      simp only [List.foldl_cons]
      apply ih
      rw [hstep]
      cases f p with
      | none => exact ha
      | some v => rfl
  exact gen ps s none hs

theorem filterMap_field {σ α : Type} (step : σ → Spec.Param → σ) (proj : σ → List α) (f : Spec.Param → Option α)
    (hstep : ∀ s p, proj (step s p) = orElse (f p) (fun v => proj s ++ [v]) (proj s))
    (s : σ) (ps : List Spec.Param) :
    proj (ps.foldl step s) = proj s ++ ps.filterMap f := by
  induction ps generalizing s with
  | nil => simp
  | cons p ps ih =>
    simp only [List.foldl_cons, List.filterMap_cons]
    rw [ih, hstep]
    cases f p <;> simp [orElse]

theorem paxApp_raw (s : PaxSt) (t : Nat) (v : Bytes) : paxApp s t (.raw v) = s := by
  unfold paxApp; split <;> first | rfl | simp_all
theorem paxApp_sdreq (s : PaxSt) (t a : Nat) (v : Bytes) : paxApp s t (.sdreq a v) = s := by
  unfold paxApp; split <;> first | rfl | simp_all
theorem paxApp_sdres (s : PaxSt) (t a b : Nat) : paxApp s t (.sdres a b) = s := by
  unfold paxApp; split <;> first | rfl | simp_all

theorem connApp_other (s : ConnSt) (t : Nat) (v : Bytes) (h : t ≠ 6) : connApp s t (.raw v) = s := by
  unfold connApp; split <;> first | rfl | simp_all
theorem ccApp_raw (s : ConnSt) (t : Nat) (v : Bytes) : ccApp s t (.raw v) = s := by
  unfold ccApp; split <;> first | rfl | simp_all
theorem snlApp_raw (s : SnlSt) (t : Nat) (v : Bytes) : snlApp s t (.raw v) = s := by
  unfold snlApp; split <;> first | rfl | simp_all
theorem dpsApp_other (s : DpsSt) (t : Nat) (v : Bytes) (h : t ≠ 10) (h' : t ≠ 11) : dpsApp s t (.raw v) = s := by
  unfold dpsApp; split <;> first | rfl | simp_all

theorem other_ne (t k : Nat) (hk : 1 ≤ k ∧ k ≤ 11) : (if 1 ≤ t ∧ t ≤ 11 then 0 else t) ≠ k := by
  split <;> omega

/-! ## every PDU that is not an aggregate -/

theorem tlvLoop_cons2 {σ : Type} (app : σ → Nat → TlvV → σ) (b0 b1 : Nat) (info : Bytes) (st : σ) :
    tlvLoop app (info.length + 2 - 2) (b0 :: b1 :: info) (0 + 2) (info.length + 2 - 2) st = run app info st := by
  have h : info.length + 2 - 2 = info.length := by omega
  rw [h]
  exact tlvLoop_shift app info.length [b0, b1] info 0 info.length st

theorem nested_cons2 (b0 b1 : Nat) (info : Bytes) (h1 : b1 < 256) :
    decodeNested (b0 :: b1 :: info) 0 (info.length + 2) =
      match kindOf ((b0 % 4) * 4 + b1 / 64) with
      | .agf => throw .decodeError
      | .simple dec => dec (b0 :: b1 :: info) 0 (info.length + 2) := by
  unfold decodeNested decodePre
  have c1 : ¬ (0 + (info.length + 2) > (b0 :: b1 :: info).length) := by simp
  have c2 : ¬ (info.length + 2 < 2) := by omega
  have e : (b0 * 256 + b1) / 64 % 16 = (b0 % 4) * 4 + b1 / 64 := by omega
  have sl : sliceN (b0 :: b1 :: info) 0 (0 + (info.length + 2)) = b0 :: b1 :: info := by
    have := sliceN_all (b0 :: b1 :: info)
    simpa using this
  simp only [c1, c2, if_false, sl]
  simp [unpackH, e]
  rfl

theorem decodeAt_cons2 (b0 b1 : Nat) (info : Bytes) (h1 : b1 < 256) :
    decode (b0 :: b1 :: info) =
      match kindOf ((b0 % 4) * 4 + b1 / 64) with
      | .agf => decAgf (b0 :: b1 :: info) 0 (info.length + 2)
      | .simple dec => dec (b0 :: b1 :: info) 0 (info.length + 2) >>= fun p => pure (.simple p) := by
  unfold decode decodeAt decodePre
  have c1 : ¬ (0 + (b0 :: b1 :: info).length > (b0 :: b1 :: info).length) := by omega
  have c2 : ¬ ((b0 :: b1 :: info).length < 2) := by simp
  have e : (b0 * 256 + b1) / 64 % 16 = (b0 % 4) * 4 + b1 / 64 := by omega
  simp only [c1, c2, if_false, sliceN_all]
  simp [unpackH, e]
  rfl

theorem getD_orElse (o : Option Nat) (d : Nat) : o.getD d = orElse o id d := by cases o <;> rfl
theorem add_getD_orElse (o : Option Nat) : 128 + o.getD 0 = orElse o (fun v => 128 + v) 128 := by cases o <;> rfl
theorem orElse_add (o : Option Nat) : orElse o (fun v => 128 + v) 128 = 128 + orElse o id 0 := by cases o <;> rfl

theorem nested_refines (b0 b1 : Nat) (info : Bytes) (h1 : b1 < 256) :
    toOpt (decodeNested (b0 :: b1 :: info) 0 (info.length + 2)) = Spec.decodeS (b0 :: b1 :: info) := by
  rw [nested_cons2 b0 b1 info h1]
  have hdrE : decodeHeader (b0 :: b1 :: info) 0 (info.length + 2) = .ok (b0 / 4, b1 % 64) := by
    simp [decodeHeader, unpackBB]
  have ht : (b0 % 4) * 4 + b1 / 64 = 0 ∨ (b0 % 4) * 4 + b1 / 64 = 1 ∨ (b0 % 4) * 4 + b1 / 64 = 2 ∨
      (b0 % 4) * 4 + b1 / 64 = 3 ∨ (b0 % 4) * 4 + b1 / 64 = 4 ∨ (b0 % 4) * 4 + b1 / 64 = 5 ∨
      (b0 % 4) * 4 + b1 / 64 = 6 ∨ (b0 % 4) * 4 + b1 / 64 = 7 ∨ (b0 % 4) * 4 + b1 / 64 = 8 ∨
      (b0 % 4) * 4 + b1 / 64 = 9 ∨ (b0 % 4) * 4 + b1 / 64 = 10 ∨ (b0 % 4) * 4 + b1 / 64 = 11 ∨
      (b0 % 4) * 4 + b1 / 64 = 12 ∨ (b0 % 4) * 4 + b1 / 64 = 13 ∨ (b0 % 4) * 4 + b1 / 64 = 14 ∨
      (b0 % 4) * 4 + b1 / 64 = 15 := by omega
  rcases ht with hp | hp | hp | hp | hp | hp | hp | hp | hp | hp | hp | hp | hp | hp | hp | hp
  all_goals simp only [hp, kindOf, Spec.decodeS]
  · -- SYMM
    simp only [decSymm, hdrE, Py.bind_ok]
    rcases info with _ | ⟨x, xs⟩
    · by_cases c1 : b0 / 4 = 0 <;> by_cases c2 : b1 % 64 = 0 <;> simp [c1, c2]
    · by_cases c1 : b0 / 4 = 0 <;> by_cases c2 : b1 % 64 = 0 <;> simp [c1, c2]
  · -- PAX
    simp only [decPax, hdrE, Py.bind_ok, tlvLoop_cons2]
    by_cases c : b0 / 4 = 0 ∧ b1 % 64 = 0
    · obtain ⟨c1, c2⟩ := c
      have c' : ¬ (b0 / 4 ≠ 0 ∨ b1 % 64 ≠ 0) := by omega
      rw [if_neg c', if_pos ⟨c1, c2⟩, toOpt_bind, run_spec paxApp info.length info {} (Nat.le_refl _), c1, c2]
      cases Spec.params info.length info with
      | none => rfl
      | some ps =>
        have f1 := lastSome_field (specStep paxApp) PaxSt.version Spec.Param.getVersion
          (by intro s p; cases p <;> simp [specStep, tlvOf, paxApp, orElse, Spec.Param.getVersion])
          {} ps rfl
        have f2 := lastSome_field (specStep paxApp) PaxSt.miux Spec.Param.getMiux
          (by intro s p; cases p <;> simp [specStep, tlvOf, paxApp, orElse, Spec.Param.getMiux])
          {} ps rfl
        have f3 := lastSome_field (specStep paxApp) PaxSt.wks Spec.Param.getWks
          (by intro s p; cases p <;> simp [specStep, tlvOf, paxApp, orElse, Spec.Param.getWks])
          {} ps rfl
        have f4 := lastSome_field (specStep paxApp) PaxSt.lto Spec.Param.getLto
          (by intro s p; cases p <;> simp [specStep, tlvOf, paxApp, orElse, Spec.Param.getLto])
          {} ps rfl
        have f5 := lastSome_field (specStep paxApp) PaxSt.opt Spec.Param.getOpt
          (by intro s p; cases p <;> simp [specStep, tlvOf, paxApp, orElse, Spec.Param.getOpt])
          {} ps rfl
        simp [f1, f2, f3, f4, f5]
    · have c' : (b0 / 4 ≠ 0 ∨ b1 % 64 ≠ 0) := by omega
      rw [if_pos c', if_neg c]; rfl
  · -- AGF inside an aggregate is refused
    rfl
  · -- UI
    simp [decUi, hdrE, sliceN]
  · -- CONNECT
    simp only [decConnect, hdrE, Py.bind_ok, tlvLoop_cons2, toOpt_bind,
      run_spec connApp info.length info {} (Nat.le_refl _)]
    cases Spec.params info.length info with
    | none => rfl
    | some ps =>
      have f1 := lastSome_nat (specStep connApp) ConnSt.miu Spec.Param.getMiux (fun v => 128 + v) 128
        (by intro s p; cases p <;> simp [specStep, tlvOf, connApp, orElse, Spec.Param.getMiux]
            exact congrArg _ (connApp_other _ _ _ (other_ne _ 6 (by omega))))
        {} ps rfl
      have f2 := lastSome_nat (specStep connApp) ConnSt.rw Spec.Param.getRw id 1
        (by intro s p; cases p <;> simp [specStep, tlvOf, connApp, orElse, Spec.Param.getRw]
            exact congrArg _ (connApp_other _ _ _ (other_ne _ 6 (by omega))))
        {} ps rfl
      have f3 := lastSome_field (specStep connApp) ConnSt.sn Spec.Param.getSn
        (by intro s p; cases p <;> simp [specStep, tlvOf, connApp, orElse, Spec.Param.getSn]
            exact congrArg _ (connApp_other _ _ _ (other_ne _ 6 (by omega))))
        {} ps rfl
      simp [f1, f2, f3, getD_orElse, orElse_add]
  · -- DISC
    simp [decDisc, hdrE]
  · -- CC
    simp only [decCc, hdrE, Py.bind_ok, tlvLoop_cons2, toOpt_bind,
      run_spec ccApp info.length info {} (Nat.le_refl _)]
    cases Spec.params info.length info with
    | none => rfl
    | some ps =>
      have f1 := lastSome_nat (specStep ccApp) ConnSt.miu Spec.Param.getMiux (fun v => 128 + v) 128
        (by intro s p; cases p <;> simp [specStep, tlvOf, ccApp, orElse, Spec.Param.getMiux])
        {} ps rfl
      have f2 := lastSome_nat (specStep ccApp) ConnSt.rw Spec.Param.getRw id 1
        (by intro s p; cases p <;> simp [specStep, tlvOf, ccApp, orElse, Spec.Param.getRw])
        {} ps rfl
      simp [f1, f2, getD_orElse, orElse_add]
  · -- DM
    rcases info with _ | ⟨r, _ | ⟨x, xs⟩⟩ <;> simp [decDm, decodeHeader, unpackBB, unpackB]
  · -- FRMR
    rcases info with _ | ⟨x0, _ | ⟨x1, _ | ⟨x2, _ | ⟨x3, _ | ⟨x4, xs⟩⟩⟩⟩⟩ <;>
      simp [decFrmr, decodeHeader, unpackBB, unpackBBBB]
  · -- SNL
    simp only [decSnl, hdrE, Py.bind_ok, tlvLoop_cons2]
    by_cases c : b0 / 4 = 1 ∧ b1 % 64 = 1
    · obtain ⟨c1, c2⟩ := c
      have c' : ¬ (b0 / 4 ≠ 1 ∨ b1 % 64 ≠ 1) := by omega
      rw [if_neg c', if_pos ⟨c1, c2⟩, toOpt_bind, run_spec snlApp info.length info {} (Nat.le_refl _), c1, c2]
      cases Spec.params info.length info with
      | none => rfl
      | some ps =>
        have f1 := filterMap_field (specStep snlApp) SnlSt.sdreq Spec.Param.getSdreq
          (by intro s p; cases p <;> simp [specStep, tlvOf, snlApp, orElse, Spec.Param.getSdreq])
          {} ps
        have f2 := filterMap_field (specStep snlApp) SnlSt.sdres Spec.Param.getSdres
          (by intro s p; cases p <;> simp [specStep, tlvOf, snlApp, orElse, Spec.Param.getSdres])
          {} ps
        simp [f1, f2]
    · have c' : (b0 / 4 ≠ 1 ∨ b1 % 64 ≠ 1) := by omega
      rw [if_pos c', if_neg c]; rfl
  · -- DPS
    simp only [decDps, hdrE, Py.bind_ok, tlvLoop_cons2]
    by_cases c : b0 / 4 = 0 ∧ b1 % 64 = 0
    · obtain ⟨c1, c2⟩ := c
      have c' : ¬ (b0 / 4 ≠ 0 ∨ b1 % 64 ≠ 0) := by omega
      rw [if_neg c', if_pos ⟨c1, c2⟩, toOpt_bind, run_spec dpsApp info.length info {} (Nat.le_refl _), c1, c2]
      cases Spec.params info.length info with
      | none => rfl
      | some ps =>
        have f1 := lastSome_field (specStep dpsApp) DpsSt.ecpk Spec.Param.getEcpk
          (by intro s p; cases p <;> simp [specStep, tlvOf, dpsApp, orElse, Spec.Param.getEcpk]
              exact congrArg _ (dpsApp_other _ _ _ (other_ne _ 10 (by omega)) (other_ne _ 11 (by omega))))
          {} ps rfl
        have f2 := lastSome_field (specStep dpsApp) DpsSt.rn Spec.Param.getRn
          (by intro s p; cases p <;> simp [specStep, tlvOf, dpsApp, orElse, Spec.Param.getRn]
              exact congrArg _ (dpsApp_other _ _ _ (other_ne _ 10 (by omega)) (other_ne _ 11 (by omega))))
          {} ps rfl
        simp [f1, f2]
    · have c' : (b0 / 4 ≠ 0 ∨ b1 % 64 ≠ 0) := by omega
      rw [if_pos c', if_neg c]; rfl
  · -- unknown 1011
    have e : (b0 * 4 + b1 / 64) % 16 = 11 := by omega
    simp [decUnknown, hdrE, idxN, sliceN, e]
  · -- I
    rcases info with _ | ⟨sq, sdu⟩
    · simp [decInfo, decodeHeaderN]
    · have c : ¬ (sdu.length + 1 + 2 < 3) := by omega
      simp [decInfo, decodeHeaderN, unpackBBB, sliceN, c]
  · -- RR
    rcases info with _ | ⟨sq, sdu⟩
    · simp [decRr, decodeHeaderN]
    · have c : ¬ (sdu.length + 1 + 2 < 3) := by omega
      simp [decRr, decodeHeaderN, unpackBBB, c]
  · -- RNR
    rcases info with _ | ⟨sq, sdu⟩
    · simp [decRnr, decodeHeaderN]
    · have c : ¬ (sdu.length + 1 + 2 < 3) := by omega
      simp [decRnr, decodeHeaderN, unpackBBB, c]
  · -- unknown 1111
    have e : (b0 * 4 + b1 / 64) % 16 = 15 := by omega
    simp [decUnknown, hdrE, idxN, sliceN, e]

theorem nested_refines' (e : Bytes) (he : IsBytes e) :
    toOpt (decodeNested e 0 e.length) = Spec.decodeS e := by
  match e, he with
  | [], _ => rfl
  | [_], _ => rfl
  | b0 :: b1 :: info, he => exact nested_refines b0 b1 info (he b1 (by simp))

/-! ## aggregates and the module function -/

theorem isBytes_take {l : Bytes} (h : IsBytes l) (n : Nat) : IsBytes (l.take n) :=
  fun b hb => h b (List.mem_of_mem_take hb)
theorem isBytes_drop {l : Bytes} (h : IsBytes l) (n : Nat) : IsBytes (l.drop n) :=
  fun b hb => h b (List.mem_of_mem_drop hb)

theorem aggregate_nil (sub : Bytes → Option SPdu) (n : Nat) : Spec.aggregate sub n [] = some [] := by
  cases n <;> rfl
theorem aggregate_single (sub : Bytes → Option SPdu) (n x : Nat) : Spec.aggregate sub n [x] = none := by
  cases n <;> rfl
theorem aggregate_cons (sub : Bytes → Option SPdu) (k a b : Nat) (rest : Bytes) :
    Spec.aggregate sub (k + 1) (a :: b :: rest) =
      if rest.length < a * 256 + b then none else
      match sub (rest.take (a * 256 + b)), Spec.aggregate sub k (rest.drop (a * 256 + b)) with
      | some p, some ps => some (p :: ps)
      | _, _ => none := rfl

theorem agfLoop_spec (n : Nat) (info : Bytes) (acc : List SPdu) (hn : info.length ≤ n) (hb : IsBytes info) :
    toOpt (agfLoop n info 0 info.length acc) = (Spec.aggregate Spec.decodeS n info).map (fun ps => acc ++ ps) := by
  induction n generalizing info acc with
  | zero =>
    have : info = [] := by cases info <;> simp_all
    subst this
    simp [agfLoop_done, aggregate_nil]
  | succ k ih =>
    match info, hn, hb with
    | [], _, _ => simp [agfLoop_done, aggregate_nil]
    | [x], _, _ =>
      rw [aggregate_single]
      have : agfLoop (k + 1) [x] 0 [x].length acc = .error .decodeError := by
        rw [agfLoop_succ _ _ _ _ _ (by simp)]
        simp [structToDecode, wrapExc, unpackH]
      rw [this]; rfl
    | a :: b :: rest, hn, hb =>
      rw [aggregate_cons, agfLoop_succ _ _ _ _ _ (by simp)]
      have hu : structToDecode (unpackH (a :: b :: rest) 0) = .ok (a * 256 + b) := by
        simp [structToDecode, wrapExc, unpackH]
      rw [hu]
      simp only [Py.bind_ok]
      by_cases hl : rest.length < a * 256 + b
      · have : decodeNested (a :: b :: rest) (0 + 2) (a * 256 + b) = .error .decodeError := by
          have c : 0 + 2 + (a * 256 + b) > (a :: b :: rest).length := by simp; omega
          unfold decodeNested decodePre
          rw [if_pos c]; rfl
        simp [this, hl]
      · simp only [hl, if_false]
        have e1 : rest = rest.take (a * 256 + b) ++ rest.drop (a * 256 + b) := (List.take_append_drop _ rest).symm
        have e2 : (rest.take (a * 256 + b)).length = a * 256 + b := by simp; omega
        have hloc := decodeNested_local [a, b] (rest.take (a * 256 + b)) (rest.drop (a * 256 + b))
        have e3 : [a, b] ++ rest.take (a * 256 + b) ++ rest.drop (a * 256 + b) = a :: b :: rest := by
          simp [← e1]
        rw [e3, e2] at hloc
        have hbr : IsBytes rest := fun x hx => hb x (by simp [hx])
        have href := nested_refines' (rest.take (a * 256 + b)) (isBytes_take hbr _)
        rw [e2] at href
        have hdec : toOpt (decodeNested (a :: b :: rest) (0 + 2) (a * 256 + b))
            = Spec.decodeS (rest.take (a * 256 + b)) := by
          rw [← href, ← hloc]; rfl
        rw [toOpt_bind, hdec]
        cases Spec.decodeS (rest.take (a * 256 + b)) with
        | none => rfl
        | some p =>
          simp only [Option.bind_some]
          have e4 : 0 + 2 + (a * 256 + b) = ([a, b] ++ rest.take (a * 256 + b)).length + 0 := by simp [e2]; omega
          have e5 : (a :: b :: rest).length - 2 - (a * 256 + b) = (rest.drop (a * 256 + b)).length := by simp
          have e6 : a :: b :: rest = ([a, b] ++ rest.take (a * 256 + b)) ++ rest.drop (a * 256 + b) := e3.symm
          rw [e4, e5]
          conv => lhs; rw [e6]
          rw [agfLoop_shift]
          have hlen : (rest.drop (a * 256 + b)).length ≤ k := by simp at hn ⊢; omega
          rw [ih _ _ hlen (isBytes_drop hbr _)]
          cases Spec.aggregate Spec.decodeS k (rest.drop (a * 256 + b)) <;> simp

theorem kindOf_agf {t : Nat} (h : kindOf t = .agf) : t = 2 := by
  unfold kindOf at h
  split at h <;> first | rfl | cases h

/-- for every octet string the decoder returns what the reading of the frame formats returns -/
theorem decode_refines (b : Bytes) (hb : IsBytes b) : toOpt (decode b) = Spec.decode b := by
  match b, hb with
  | [], _ => rfl
  | [_], _ => rfl
  | b0 :: b1 :: info, hb =>
    have h1 : b1 < 256 := hb b1 (by simp)
    have hinfo : IsBytes info := fun x hx => hb x (by simp [hx])
    rw [decodeAt_cons2 b0 b1 info h1]
    have hn := nested_refines b0 b1 info h1
    rw [nested_cons2 b0 b1 info h1] at hn
    by_cases ht : (b0 % 4) * 4 + b1 / 64 = 2
    · simp only [ht, show kindOf 2 = Kind.agf from rfl, Spec.decode, if_true]
      have hdrE : decodeHeader (b0 :: b1 :: info) 0 (info.length + 2) = .ok (b0 / 4, b1 % 64) := by
        simp [decodeHeader, unpackBB]
      simp only [decAgf, hdrE, Py.bind_ok]
      by_cases c : b0 / 4 = 0 ∧ b1 % 64 = 0
      · obtain ⟨c1, c2⟩ := c
        have c' : ¬ (b0 / 4 ≠ 0 ∨ b1 % 64 ≠ 0) := by omega
        have hshift : agfLoop (info.length + 2 - 2) (b0 :: b1 :: info) (0 + 2) (info.length + 2 - 2) []
            = agfLoop info.length info 0 info.length [] := by
          have h : info.length + 2 - 2 = info.length := by omega
          rw [h]
          exact agfLoop_shift info.length [b0, b1] info 0 info.length []
        rw [if_neg c', if_pos ⟨c1, c2⟩, toOpt_bind, hshift, agfLoop_spec _ _ _ (Nat.le_refl _) hinfo, c1, c2]
        cases Spec.aggregate Spec.decodeS info.length info <;> simp
      · have c' : (b0 / 4 ≠ 0 ∨ b1 % 64 ≠ 0) := by omega
        rw [if_pos c', if_neg c]; rfl
    · simp only [Spec.decode, ht, if_false]
      rw [← hn]
      cases hk : kindOf ((b0 % 4) * 4 + b1 / 64) with
      | agf => exact absurd (kindOf_agf hk) ht
      | simple dec =>
        simp only [toOpt_bind]
        cases dec (b0 :: b1 :: info) 0 (info.length + 2) <;> rfl

end Impl
end NfcVerif.Pdu
