import NfcVerif.Model.PeerT3Gen
import NfcVerif.Lemmas.PeerT3
/-!
# C07: `process_command` of the emulated Type 3 Tag is total for ANY services with total callbacks
-/
namespace NfcVerif.PeerT3
open NfcVerif.T3Emu (Step Dict dictGet dictSet countDict Call)
open NfcVerif.Peer (HasKey dictGet_of_hasKey hasKey_dictSet countDict_keys idxN_mem)

variable {σ : Type}

/-- only `IndexError` (caught by the wrapper) -/
def OnlyIndex (e : Exc) : Prop := e = .index

theorem flag1_lt (i : Nat) : flag1 i < 256 := by
  unfold flag1
  have h : i % 8 < 8 := Nat.mod_lt _ (by decide)
  calc 2 ^ (i % 8) < 2 ^ 8 := Nat.pow_lt_pow_right (by decide) h
    _ = 256 := by decide

theorem mkBytes_ok {l : List Nat} (h : ∀ b ∈ l, b < 256) : mkBytes l = .ok l := by
  unfold mkBytes
  rw [if_pos]
  rw [List.all_eq_true]
  intro b hb
  exact decide_eq_true (h b hb)

theorem mkBytes_flag (i c : Nat) (hc : c < 256) : mkBytes [flag1 i, c] = .ok [flag1 i, c] := by
  apply mkBytes_ok
  intro b hb
  simp only [List.mem_cons, List.not_mem_nil, or_false] at hb
  rcases hb with rfl | rfl
  · exact flag1_lt i
  · exact hc

theorem idxN_oi {α} (l : List α) (i : Nat) : Safe OnlyIndex (idxN l i) := by
  intro e h; unfold idxN at h; split at h
  · cases h
  · cases h; rfl

theorem parseServices_oi (has : Nat → Bool) (n : Nat) (d : Bytes) (acc : List Nat) :
    Safe OnlyIndex (parseServices has n d acc) := by
  induction n generalizing d acc with
  | zero => unfold parseServices; exact Safe.ok _
  | succ n ih =>
    unfold parseServices
    refine Safe.bind' (idxN_oi _ _) fun hi => Safe.bind' (idxN_oi _ _) fun lo => ?_
    exact Safe.ite (Safe.ok _) (ih _ _)

theorem parseServices_done (has : Nat → Bool) (n : Nat) (d : Bytes) (acc : List Nat) (r : Bytes)
    (h : parseServices has n d acc = .ok (.done r)) : r.length = 2 := by
  induction n generalizing d acc with
  | zero => unfold parseServices at h; cases h
  | succ n ih =>
    unfold parseServices at h
    obtain ⟨hi, _, h⟩ := Py.bind_eq_ok.mp h
    obtain ⟨lo, _, h⟩ := Py.bind_eq_ok.mp h
    split at h
    · cases h; rfl
    · exact ih _ _ h

theorem parseBlocks_oi (nsvc n i : Nat) (d : Bytes) (acc : List (Nat × Nat)) :
    Safe OnlyIndex (parseBlocks nsvc n i d acc) := by
  induction n generalizing i d acc with
  | zero => unfold parseBlocks; exact Safe.ok _
  | succ n ih =>
    unfold parseBlocks
    match d with
    | [] => simp only [mkBytes_flag i 0xA3 (by decide), Py.bind_ok]; exact Safe.ok _
    | b0 :: r =>
      simp only
      apply Safe.ite
      · simp only [mkBytes_flag i 0xA3 (by decide), Py.bind_ok]; exact Safe.ok _
      apply Safe.ite
      · exact Safe.bind' (idxN_oi _ _) fun bn => ih _ _ _
      · exact Safe.bind' (idxN_oi _ _) fun hi => Safe.bind' (idxN_oi _ _) fun lo => ih _ _ _

theorem parseBlocks_len (nsvc n i : Nat) (d : Bytes) (acc : List (Nat × Nat)) (bl : List (Nat × Nat)) (rest : Bytes)
    (h : parseBlocks nsvc n i d acc = .ok (.cont (bl, rest))) : bl.length = acc.length + n := by
  induction n generalizing i d acc with
  | zero => unfold parseBlocks at h; cases h; rfl
  | succ n ih =>
    unfold parseBlocks at h
    match d, h with
    | [], h => simp only [mkBytes_flag i 0xA3 (by decide), Py.bind_ok] at h; cases h
    | b0 :: r, h =>
      simp only at h
      split at h
      · simp only [mkBytes_flag i 0xA3 (by decide), Py.bind_ok] at h; cases h
      · split at h
        · obtain ⟨bn, _, h⟩ := Py.bind_eq_ok.mp h
          have := ih _ _ _ h
          simp only [List.length_append, List.length_cons, List.length_nil] at this
          omega
        · obtain ⟨hi, _, h⟩ := Py.bind_eq_ok.mp h
          obtain ⟨lo, _, h⟩ := Py.bind_eq_ok.mp h
          have := ih _ _ _ h
          simp only [List.length_append, List.length_cons, List.length_nil] at this
          omega

theorem parseBlocks_done (nsvc n i : Nat) (d : Bytes) (acc : List (Nat × Nat)) (r : Bytes)
    (h : parseBlocks nsvc n i d acc = .ok (.done r)) : r.length = 2 := by
  induction n generalizing i d acc with
  | zero => unfold parseBlocks at h; cases h
  | succ n ih =>
    unfold parseBlocks at h
    match d, h with
    | [], h => simp only [mkBytes_flag i 0xA3 (by decide), Py.bind_ok] at h; cases h; rfl
    | b0 :: r', h =>
      simp only at h
      split at h
      · simp only [mkBytes_flag i 0xA3 (by decide), Py.bind_ok] at h; cases h; rfl
      · split at h
        · obtain ⟨bn, _, h⟩ := Py.bind_eq_ok.mp h
          exact ih _ _ _ h
        · obtain ⟨hi, _, h⟩ := Py.bind_eq_ok.mp h
          obtain ⟨lo, _, h⟩ := Py.bind_eq_ok.mp h
          exact ih _ _ _ h

/-- the application's read callbacks deliver at most one block (16 octets) per call -/
def ReadOk (svc : Svc σ) : Prop :=
  ∀ s sc bn rb re blk, (svc.read s sc bn rb re).1 = some blk → blk.length ≤ 16

theorem readLoop_ok (svc : Svc σ) (hr : ReadOk svc) (svcs : List Nat) (d0 : Dict) (bl : List (Nat × Nat)) (i : Nat) (d : Dict)
    (acc : Bytes) (s : σ) (log : List Call) (hk : ∀ sc ∈ svcs, HasKey d0 sc ∧ HasKey d sc)
    (hacc : acc.length + 16 * bl.length ≤ 240) :
    Safe OnlyIndex (readLoop svc svcs d0 bl i d acc s log) ∧
    ∀ x, readLoop svc svcs d0 bl i d acc s log = .ok x → x.1.length ≤ 3 + acc.length + 16 * bl.length := by
  induction bl generalizing i d acc s log with
  | nil =>
    unfold readLoop
    have hb : mkBytes [0, 0, acc.length / 16] = .ok [0, 0, acc.length / 16] := by
      apply mkBytes_ok
      intro b hb
      simp only [List.mem_cons, List.not_mem_nil, or_false] at hb
      simp only [List.length_nil] at hacc
      rcases hb with rfl | rfl | rfl <;> omega
    simp only [hb, Py.bind_ok]
    refine ⟨Safe.ok _, ?_⟩
    intro x h; cases h; simp; omega
  | cons b rest ih =>
    obtain ⟨si, bn⟩ := b
    unfold readLoop
    cases hs : idxN svcs si with
    | error e =>
      have := idxN_oi svcs si e hs
      simp only [Py.bind_error]
      exact ⟨fun e' he => by cases he; exact this, fun x h => by cases h⟩
    | ok sc =>
      have hm := idxN_mem hs
      obtain ⟨v0, hv0⟩ := dictGet_of_hasKey (hk sc hm).1
      obtain ⟨v, hv⟩ := dictGet_of_hasKey (hk sc hm).2
      simp only [Py.bind_ok, hv0, hv]
      cases hrd : (svc.read s sc bn (decide (v0 = v)) (decide (v - 1 = 0))).1 with
      | none =>
        simp only [mkBytes_flag i 0xA2 (by decide), Py.bind_ok]
        refine ⟨Safe.ok _, ?_⟩
        intro x h; cases h
        simp only [List.length_cons, List.length_nil]; omega
      | some blk =>
        simp only
        have hb := hr _ _ _ _ _ _ hrd
        simp only [List.length_cons] at hacc
        obtain ⟨h1, h2⟩ := ih (i + 1) (dictSet d sc (v - 1)) (acc ++ blk)
          (svc.read s sc bn (decide (v0 = v)) (decide (v - 1 = 0))).2
          (log ++ [⟨false, bn, decide (v0 = v), decide (v - 1 = 0)⟩])
          (fun sc' hsc' => ⟨(hk sc' hsc').1, hasKey_dictSet _ _ _ _ (Or.inl (hk sc' hsc').2)⟩)
          (by simp only [List.length_append]; omega)
        refine ⟨h1, ?_⟩
        intro x h
        have := h2 x h
        simp only [List.length_append, List.length_cons] at this ⊢
        omega

theorem writeLoop_ok (svc : Svc σ) (svcs : List Nat) (d0 : Dict) (data : Bytes) (bl : List (Nat × Nat)) (i : Nat) (d : Dict)
    (s : σ) (log : List Call) (hk : ∀ sc ∈ svcs, HasKey d0 sc ∧ HasKey d sc) :
    Safe OnlyIndex (writeLoop svc svcs d0 data bl i d s log) ∧
    ∀ x, writeLoop svc svcs d0 data bl i d s log = .ok x → x.1.length = 2 := by
  induction bl generalizing i d s log with
  | nil =>
    unfold writeLoop
    refine ⟨Safe.ok _, ?_⟩
    intro x h; cases h; rfl
  | cons b rest ih =>
    obtain ⟨si, bn⟩ := b
    unfold writeLoop
    cases hs : idxN svcs si with
    | error e =>
      have := idxN_oi svcs si e hs
      simp only [Py.bind_error]
      exact ⟨fun e' he => by cases he; exact this, fun x h => by cases h⟩
    | ok sc =>
      have hm := idxN_mem hs
      obtain ⟨v0, hv0⟩ := dictGet_of_hasKey (hk sc hm).1
      obtain ⟨v, hv⟩ := dictGet_of_hasKey (hk sc hm).2
      simp only [Py.bind_ok, hv0, hv]
      split
      · simp only [mkBytes_flag i 0xA2 (by decide), Py.bind_ok]
        exact ⟨Safe.ok _, fun x h => by cases h; rfl⟩
      · exact ih (i + 1) (dictSet d sc (v - 1)) _ _
          (fun sc' hsc' => ⟨(hk sc' hsc').1, hasKey_dictSet _ _ _ _ (Or.inl (hk sc' hsc').2)⟩)

theorem emuRead_ok (e : Emu σ) (hr : ReadOk e.svc) (s : σ) (d : Bytes) :
    Safe OnlyIndex (emuRead e s d) ∧ ∀ x, emuRead e s d = .ok x → x.1.length ≤ 243 := by
  unfold emuRead
  cases h0 : idxN d 0 with
  | error x => exact ⟨fun e' he => by cases he; exact idxN_oi _ _ _ h0, fun _ h => by cases h⟩
  | ok nsvc =>
    simp only [Py.bind_ok]
    cases h1 : parseServices e.svc.has nsvc (d.drop 1) [] with
    | error x => exact ⟨fun e' he => by cases he; exact parseServices_oi _ _ _ _ _ h1, fun _ h => by cases h⟩
    | ok p =>
      simp only [Py.bind_ok]
      match p with
      | .done r =>
        refine ⟨Safe.ok _, ?_⟩
        intro x h; cases h
        have := parseServices_done _ _ _ _ _ h1; simp only; omega
      | .cont (svcs, d1) =>
        simp only
        cases h2 : idxN d1 0 with
        | error x => exact ⟨fun e' he => by cases he; exact idxN_oi _ _ _ h2, fun _ h => by cases h⟩
        | ok nblk =>
          simp only [Py.bind_ok]
          split
          · exact ⟨Safe.ok _, fun x h => by cases h; simp⟩
          · rename_i hn
            cases h3 : parseBlocks svcs.length nblk 0 (d1.drop 1) [] with
            | error x => exact ⟨fun e' he => by cases he; exact parseBlocks_oi _ _ _ _ _ _ h3, fun _ h => by cases h⟩
            | ok b =>
              simp only [Py.bind_ok]
              match b, h3 with
              | .done r, h3 =>
                refine ⟨Safe.ok _, ?_⟩
                intro x h; cases h
                have := parseBlocks_done _ _ _ _ _ _ h3; simp only; omega
              | .cont (blocks, rest), h3 =>
                simp only
                have hl := parseBlocks_len _ _ _ _ _ _ _ h3
                simp only [List.length_nil] at hl
                have hk : ∀ sc ∈ svcs, HasKey (countDict svcs blocks) sc ∧ HasKey (countDict svcs blocks) sc :=
                  fun sc hsc => ⟨countDict_keys _ _ _ hsc, countDict_keys _ _ _ hsc⟩
                obtain ⟨g1, g2⟩ := readLoop_ok e.svc hr svcs _ blocks 0 _ [] s [] hk
                  (by simp only [List.length_nil]; omega)
                refine ⟨g1, ?_⟩
                intro x h
                have := g2 x h
                simp only [List.length_nil] at this
                omega

theorem emuWrite_ok (e : Emu σ) (s : σ) (d : Bytes) :
    Safe OnlyIndex (emuWrite e s d) ∧ ∀ x, emuWrite e s d = .ok x → x.1.length = 2 := by
  unfold emuWrite
  cases h0 : idxN d 0 with
  | error x => exact ⟨fun e' he => by cases he; exact idxN_oi _ _ _ h0, fun _ h => by cases h⟩
  | ok nsvc =>
    simp only [Py.bind_ok]
    cases h1 : parseServices e.svc.has nsvc (d.drop 1) [] with
    | error x => exact ⟨fun e' he => by cases he; exact parseServices_oi _ _ _ _ _ h1, fun _ h => by cases h⟩
    | ok p =>
      simp only [Py.bind_ok]
      match p, h1 with
      | .done r, h1 =>
        refine ⟨Safe.ok _, ?_⟩
        intro x h; cases h
        exact parseServices_done _ _ _ _ _ h1
      | .cont (svcs, d1), _ =>
        simp only
        cases h2 : idxN d1 0 with
        | error x => exact ⟨fun e' he => by cases he; exact idxN_oi _ _ _ h2, fun _ h => by cases h⟩
        | ok nblk =>
          simp only [Py.bind_ok]
          cases h3 : parseBlocks svcs.length nblk 0 (d1.drop 1) [] with
          | error x => exact ⟨fun e' he => by cases he; exact parseBlocks_oi _ _ _ _ _ _ h3, fun _ h => by cases h⟩
          | ok b =>
            simp only [Py.bind_ok]
            match b, h3 with
            | .done r, h3 =>
              refine ⟨Safe.ok _, ?_⟩
              intro x h; cases h
              exact parseBlocks_done _ _ _ _ _ _ h3
            | .cont (blocks, data), h3 =>
              simp only
              split
              · exact ⟨Safe.ok _, fun x h => by cases h; rfl⟩
              · have hk : ∀ sc ∈ svcs, HasKey (countDict svcs blocks) sc ∧ HasKey (countDict svcs blocks) sc :=
                  fun sc hsc => ⟨countDict_keys _ _ _ hsc, countDict_keys _ _ _ hsc⟩
                exact writeLoop_ok e.svc svcs _ data blocks 0 _ s [] hk

theorem respond_ok (e : Emu σ) (c : Nat) (hc : c < 256) (r : Bytes) (h : r.length ≤ 245) :
    respond e c r = .ok ([10 + r.length, c] ++ e.idm ++ r) := by
  unfold respond
  rw [mkBytes_ok (by
    intro b hb
    simp only [List.mem_cons, List.not_mem_nil, or_false] at hb
    rcases hb with rfl | rfl <;> omega)]
  rfl

/-- the ids are slices of SENSF_RES: `sensf_res[1:9]`, `[9:17]`, `[17:19]` -/
def IdsOk (e : Emu σ) : Prop := e.idm.length ≤ 8 ∧ e.pmm.length ≤ 8 ∧ e.sys.length ≤ 2

theorem processCommand_oi (e : Emu σ) (hl : IdsOk e) (hr : ReadOk e.svc) (s : σ) (cmd : Bytes) :
    Safe OnlyIndex (processCommand e s cmd) := by
  unfold processCommand
  match cmd with
  | [] => exact Safe.ok _
  | l0 :: t =>
    refine Safe.ite (Safe.ok _) (Safe.ite ?_ (Safe.ite ?_ (Safe.ok _)))
    · refine Safe.bind' (idxN_oi _ _) fun rc => ?_
      simp only
      obtain ⟨h1, h2, h3⟩ := hl
      rw [mkBytes_ok (by
        intro b hb
        simp only [List.mem_cons, List.not_mem_nil, or_false] at hb
        rcases hb with rfl | rfl
        · split <;> simp only [List.length_append] <;> omega
        · decide)]
      exact Safe.ok _
    · refine Safe.bind' (idxN_oi _ _) fun code => ?_
      apply Safe.ite
      · rw [respond_ok e 0x05 (by decide) [0] (by decide)]; exact Safe.ok _
      apply Safe.ite
      · obtain ⟨g1, g2⟩ := emuRead_ok e hr s ((l0 :: t).drop 10)
        refine Safe.bind g1 ?_
        intro x hx
        rw [respond_ok e 0x07 (by decide) x.1 (by have := g2 x hx; omega)]
        exact Safe.ok _
      apply Safe.ite
      · obtain ⟨g1, g2⟩ := emuWrite_ok e s ((l0 :: t).drop 10)
        refine Safe.bind g1 ?_
        intro x hx
        rw [respond_ok e 0x09 (by decide) x.1 (by have := g2 x hx; omega)]
        exact Safe.ok _
      apply Safe.ite
      · rw [respond_ok e 0x0D (by decide) ([1] ++ e.sys)
          (by simp only [List.length_append, List.length_cons, List.length_nil]; have := hl.2.2; omega)]
        exact Safe.ok _
      · exact Safe.ok _

theorem processCommandR_total (e : Emu σ) (hl : IdsOk e) (hr : ReadOk e.svc) (s : σ) (cmd : Bytes) :
    ∃ r, processCommandR e s cmd = .ok r := by
  unfold processCommandR
  cases h : processCommand e s cmd with
  | ok r => exact ⟨r, rfl⟩
  | error x =>
    have := processCommand_oi e hl hr s cmd x h
    unfold OnlyIndex at this
    subst this
    exact ⟨_, rfl⟩

theorem storeSvc_readOk (tab : List (Nat × Mode)) : ReadOk (storeSvc tab) := by
  intro s sc bn rb re blk h
  unfold storeSvc at h
  simp only at h
  split at h
  · exact Peer.storeRead_len h
  · exact Peer.storeRead_len h
  · simp only at h
    split at h
    · exact Peer.storeRead_len h
    · cases h
  · cases h

/-- a reader can do what it likes - any commands, any transmission faults: the card loop ends with a normal return -/
theorem cardLoop_returns (e : Emu σ) (hl : IdsOk e) (hr : ReadOk e.svc) (script : List CardEv)
    (hs : ∀ x, CardEv.err x ∈ script → Peer.isComm x = true) (s : σ) : cardLoop e script s = .returned := by
  induction script generalizing s with
  | nil => rfl
  | cons ev rest ih =>
    have hrest : ∀ x, CardEv.err x ∈ rest → Peer.isComm x = true := fun x hx => hs x (List.mem_cons_of_mem _ hx)
    cases ev with
    | err x =>
      unfold cardLoop
      split
      · rfl
      · rw [if_pos (hs x (List.mem_cons_self ..))]
        exact ih hrest s
    | cmd c =>
      unfold cardLoop
      obtain ⟨r, hr'⟩ := processCommandR_total e hl hr s c
      rw [hr']
      exact ih hrest _

theorem cardSession_returns (e : Emu σ) (hl : IdsOk e) (hr : ReadOk e.svc) (s : σ) (first : Bytes) (script : List CardEv)
    (hs : ∀ x, CardEv.err x ∈ script → Peer.isComm x = true) : cardSession e s first script = .returned := by
  unfold cardSession
  obtain ⟨r, hr'⟩ := processCommandR_total e hl hr s first
  rw [hr']
  exact cardLoop_returns e hl hr script hs _

/-- a response frame: first octet = total length, which fits one octet -/
def Framed (r : Bytes) : Prop := r.head? = some r.length ∧ r.length ≤ 255

theorem mkBytes_eq {l r : List Nat} (h : mkBytes l = .ok r) : r = l ∧ ∀ b ∈ l, b < 256 := by
  unfold mkBytes at h
  split at h
  · rename_i ha
    cases h
    refine ⟨rfl, ?_⟩
    intro b hb
    have := List.all_eq_true.mp ha b hb
    exact of_decide_eq_true this
  · cases h

theorem respond_framed (e : Emu σ) (hi : e.idm.length = 8) (c : Nat) (rsp r : Bytes) (h : respond e c rsp = .ok r) : Framed r := by
  unfold respond at h
  obtain ⟨hd, hh, h⟩ := Py.bind_eq_ok.mp h
  obtain ⟨rfl, hb⟩ := mkBytes_eq hh
  cases h
  have := hb (10 + rsp.length) (by simp)
  constructor
  · simp [hi]; omega
  · simp [hi]; omega

theorem processCommand_framed (e : Emu σ) (hi : e.idm.length = 8) (s : σ) (cmd : Bytes) (r : Bytes) (s' : σ) (lg : List T3Emu.Call)
    (h : processCommand e s cmd = .ok (some r, s', lg)) : Framed r := by
  unfold processCommand at h
  match cmd, h with
  | [], h => cases h
  | l0 :: t, h =>
    simp only at h
    split at h
    · cases h
    split at h
    · obtain ⟨rc, _, h⟩ := Py.bind_eq_ok.mp h
      obtain ⟨hd, hh, h⟩ := Py.bind_eq_ok.mp h
      obtain ⟨rfl, hb⟩ := mkBytes_eq hh
      cases h
      have := hb _ (List.mem_cons_self ..)
      constructor
      · simp
        omega
      · simp at this ⊢; omega
    split at h
    · obtain ⟨code, _, h⟩ := Py.bind_eq_ok.mp h
      split at h
      · obtain ⟨x, hx, h⟩ := Py.bind_eq_ok.mp h
        cases h; exact respond_framed e hi _ _ _ hx
      split at h
      · obtain ⟨y, _, h⟩ := Py.bind_eq_ok.mp h
        obtain ⟨x, hx, h⟩ := Py.bind_eq_ok.mp h
        cases h; exact respond_framed e hi _ _ _ hx
      split at h
      · obtain ⟨y, _, h⟩ := Py.bind_eq_ok.mp h
        obtain ⟨x, hx, h⟩ := Py.bind_eq_ok.mp h
        cases h; exact respond_framed e hi _ _ _ hx
      split at h
      · obtain ⟨x, hx, h⟩ := Py.bind_eq_ok.mp h
        cases h; exact respond_framed e hi _ _ _ hx
      · cases h
    · cases h

theorem processCommandR_framed (e : Emu σ) (hi : e.idm.length = 8) (s : σ) (cmd : Bytes) (r : Bytes) (s' : σ) (lg : List T3Emu.Call)
    (h : processCommandR e s cmd = .ok (some r, s', lg)) : Framed r := by
  unfold processCommandR at h
  split at h
  · cases h
  · exact processCommand_framed e hi s cmd r s' lg h

end NfcVerif.PeerT3
