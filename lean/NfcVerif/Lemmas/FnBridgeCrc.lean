import NfcVerif.Gen.FnCrc
import NfcVerif.Model.Crc
import NfcVerif.Lemmas.FnBridgeBase
/-!
Helper lemmas for `Props/FnBridgeCrc.lean`: the regenerated `calculate_crc` (Python ints, `Int`)
against `Crc.crcOf` (`BitVec 16` register, `BitVec 8` octets).

Encoding: a register value `r : BitVec 16` is the Python int `r.toNat`, an octet string
`d : List (BitVec 8)` is the byte string `enc d = d.map BitVec.toNat`.
-/
namespace NfcVerif.FnBridge.Crc
open NfcVerif NfcVerif.PyFn

/-- the Nat/BitVec encoding of octet strings -/
def enc (d : List (BitVec 8)) : Bytes := d.map BitVec.toNat
/-- its inverse on byte strings -/
def dec (d : Bytes) : List (BitVec 8) := d.map (BitVec.ofNat 8)

theorem enc_isBytes (d : List (BitVec 8)) : IsBytes (enc d) := by
  intro b hb
  simp only [enc, List.mem_map] at hb
  obtain ⟨x, _, rfl⟩ := hb
  exact x.isLt

theorem enc_dec (d : Bytes) (h : IsBytes d) : enc (dec d) = d := by
  induction d with
  | nil => rfl
  | cons a t ih =>
    have := isBytes_cons.mp h
    simp only [enc, dec, List.map_cons, BitVec.toNat_ofNat] at ih ⊢
    rw [ih this.2, Nat.mod_eq_of_lt this.1]

theorem enc_length (d : List (BitVec 8)) : (enc d).length = d.length := by simp [enc]
theorem enc_take (d : List (BitVec 8)) (n : Nat) : (enc d).take n = enc (d.take n) := by simp [enc, List.map_take]
theorem enc_drop (d : List (BitVec 8)) (n : Nat) : (enc d).drop n = enc (d.drop n) := by simp [enc, List.map_drop]
theorem enc_append (a b : List (BitVec 8)) : enc (a ++ b) = enc a ++ enc b := by simp [enc]
theorem enc_inj {a b : List (BitVec 8)} (h : enc a = enc b) : a = b := by
  induction a generalizing b with
  | nil => cases b <;> simp_all [enc]
  | cons x t ih =>
    cases b with
    | nil => simp [enc] at h
    | cons y u =>
      simp only [enc, List.map_cons, List.cons.injEq] at h
      rw [BitVec.toNat_inj.mp h.1, ih h.2]

theorem bit_eq (reg o pos : Nat) :
    ((reg ^^^ ((o >>> pos) &&& 1)) &&& 1) = if (reg.testBit 0 != o.testBit pos) then 1 else 0 := by
  have h1 : ((reg ^^^ ((o >>> pos) &&& 1)) &&& 1) < 2 := by rw [Nat.and_one_is_mod]; omega
  have h2 : ((reg ^^^ ((o >>> pos) &&& 1)) &&& 1) = 1 ↔ (reg.testBit 0 != o.testBit pos) = true := by
    rw [Nat.and_one_is_mod, Nat.xor_mod_two_eq_one, Nat.and_one_is_mod, Nat.testBit_zero,
      Nat.testBit_eq_decide_div_mod_eq, Nat.shiftRight_eq_div_pow]
    have : o / 2 ^ pos % 2 % 2 = o / 2 ^ pos % 2 := by omega
    rw [this]
    by_cases a : reg % 2 = 1 <;> by_cases b : o / 2 ^ pos % 2 = 1 <;> simp [a, b]
  split
  · rename_i h; exact h2.mpr h
  · rename_i h; have := mt h2.mp h; omega

/-- one iteration of the bit loop on naturals -/
def natBitStep (reg : Nat) (b : Bool) : Nat :=
  if (reg.testBit 0 != b) then (reg >>> 1) ^^^ 0x8408 else reg >>> 1

theorem bitStep_toNat (r : BitVec 16) (b : Bool) : (Crc.bitStep r b).toNat = natBitStep r.toNat b := by
  unfold Crc.bitStep natBitStep
  have : r.getLsbD 0 = r.toNat.testBit 0 := rfl
  simp only [this]
  split <;> simp

theorem range8_cast : PyFn.range 0 8 = ([0, 1, 2, 3, 4, 5, 6, 7] : List Nat).map (fun (n : Nat) => (n : Int)) := by decide

/-- the inner `for pos in range(8)` loop, on naturals -/
theorem foldl_bits (f : Int → Int → Int) (o : Nat)
    (hf : ∀ reg p : Nat, f reg p = ((natBitStep reg (o.testBit p) : Nat) : Int)) (ps : List Nat) :
    ∀ reg : Nat, List.foldl f (reg : Int) (ps.map (fun (n : Nat) => (n : Int)))
      = ((ps.foldl (fun r p => natBitStep r (o.testBit p)) reg : Nat) : Int) := by
  induction ps with
  | nil => intro reg; rfl
  | cons a t ih => intro reg; simp only [List.map_cons, List.foldl_cons, hf, ih]

theorem byteStep_toNat (r : BitVec 16) (o : BitVec 8) :
    (Crc.byteStep r o).toNat
      = List.foldl (fun r p => natBitStep r (o.toNat.testBit p)) r.toNat [0, 1, 2, 3, 4, 5, 6, 7] := by
  have : ∀ k, o.getLsbD k = o.toNat.testBit k := fun _ => rfl
  simp only [Crc.byteStep, bitStep_toNat, List.foldl_cons, List.foldl_nil, this]

theorem lo_toNat (c : BitVec 16) : (Crc.lo c).toNat = c.toNat &&& 255 := by
  simp [Crc.lo, Nat.and_two_pow_sub_one_eq_mod _ 8]
theorem hi_toNat (c : BitVec 16) : (Crc.hi c).toNat = c.toNat >>> 8 := by
  have := c.isLt
  simp [Crc.hi, Nat.shiftRight_eq_div_pow]; omega
theorem not_toNat (c : BitVec 16) : (~~~ c).toNat = 65535 - c.toNat % 65536 := by
  have := c.isLt
  simp [BitVec.toNat_not]; omega

/-- the generic shape of the outer loop -/
theorem foldl_enc (f : Int → Int → Int) (g : BitVec 16 → BitVec 8 → BitVec 16)
    (h : ∀ r o, f (r.toNat : Int) (o.toNat : Int) = ((g r o).toNat : Int)) (d : List (BitVec 8)) :
    ∀ r : BitVec 16, List.foldl f (r.toNat : Int) (PyFn.ints (enc d)) = ((List.foldl g r d).toNat : Int) := by
  induction d with
  | nil => intro r; rfl
  | cons a t ih =>
    intro r
    simp only [enc, List.map_cons, ints_cons, List.foldl_cons] at ih ⊢
    rw [h, ih]

open NfcVerif.Crc in
theorem drop_two {α} (l : List α) (h : 2 ≤ l.length) :
    l.drop (l.length - 2) = [l[l.length - 2]'(by omega), l[l.length - 1]'(by omega)] := by
  apply List.ext_getElem
  · simp; omega
  · intro i h1 h2
    simp at h2
    have : i = 0 ∨ i = 1 := by omega
    rcases this with rfl | rfl
    · simp
    · simp; congr 1; omega

open NfcVerif.Crc in
theorem check_common (d : List (BitVec 8)) (c : BitVec 16) (crc : Int) (hc : crc = (c.toNat : Int)) :
    (PyFn.getB (enc d) (-2) >>= fun t1 => PyFn.getB (enc d) (-1) >>= fun t2 =>
      (Except.ok (decide ((t1, t2) = (PyFn.band crc 255, PyFn.shr crc 8))) : Py Bool))
    = if d.length < 2 then .error .index else .ok (d.drop (d.length - 2) == [lo c, hi c]) := by
  have g2 := getB_neg (enc d) 2 (by omega)
  have g1 := getB_neg (enc d) 1 (by omega)
  simp only [show (-((2:Nat):Int)) = -2 from rfl, show (-((1:Nat):Int)) = -1 from rfl, enc_length] at g1 g2
  rw [g2, g1]
  by_cases h : d.length < 2
  · have : ¬ 2 ≤ d.length := by omega
    simp [this, h]
  · have h2 : 2 ≤ d.length := by omega
    have h1 : 1 ≤ d.length := by omega
    have a2 : (enc d)[d.length - 2]? = some (d[d.length - 2]'(by omega)).toNat := by
      rw [enc, List.getElem?_map, List.getElem?_eq_getElem (by omega)]; rfl
    have a1 : (enc d)[d.length - 1]? = some (d[d.length - 1]'(by omega)).toNat := by
      rw [enc, List.getElem?_map, List.getElem?_eq_getElem (by omega)]; rfl
    simp only [h2, h1, if_true, a2, a1, Py.bind_ok, h, if_false, hc]
    have e1 : (255 : Int) = ((255 : Nat) : Int) := rfl
    have e2 : (8 : Int) = ((8 : Nat) : Int) := rfl
    simp only [e1, e2, band_ofNat, shr_ofNat, ← lo_toNat, ← hi_toNat]
    rw [drop_two d h2]
    congr 1
    have k : ∀ (a b : BitVec 8), decide ((a.toNat : Int) = (b.toNat : Int)) = (a == b) := by
      intro a b
      by_cases hab : a = b
      · subst hab; simp
      · have : ¬ ((a.toNat : Int) = (b.toNat : Int)) := fun hh => hab (BitVec.toNat_inj.mp (Int.ofNat_inj.mp hh))
        simp [hab, this]
    simp [k]
end NfcVerif.FnBridge.Crc
