import NfcVerif.Model.PeerDispatch
/-!
# C07: the link loop never waits while it dispatches a PDU (repaired code)
-/
namespace NfcVerif.Peer
open NfcVerif.Pdu

theorem dlcClose_shutdown (s : Sock) : ∃ s', dlcClose { s with st := .shutdown } = some s' := by
  unfold dlcClose
  simp

theorem enqueueEstablished_some (s : Sock) (p : SPdu) : ∃ s', enqueueEstablished s p = some s' := by
  unfold enqueueEstablished
  cases p <;> simp only
  all_goals first
    | exact ⟨_, rfl⟩
    | exact dlcClose_shutdown s
    | (split
       · exact ⟨_, rfl⟩
       · split <;> exact ⟨_, rfl⟩)

theorem dlcEnqueue_some (f : Fix) (hf : f.f39 = true) (s : Sock) (p : SPdu) : ∃ s', dlcEnqueue f s p = some s' := by
  unfold dlcEnqueue
  split
  · obtain ⟨s', hs⟩ := dlcClose_shutdown s
    exact ⟨_, by rw [hs]; rfl⟩
  · split
    · exact ⟨_, rfl⟩
    · split
      · split <;> exact ⟨_, rfl⟩
      · exact ⟨_, rfl⟩
    · split
      · split <;> exact ⟨_, rfl⟩
      · split <;> exact ⟨_, rfl⟩
      · exact ⟨_, rfl⟩
    · split <;> exact ⟨_, rfl⟩
    · exact enqueueEstablished_some s p
    · exact ⟨_, rfl⟩

theorem sockEnqueue_some (f : Fix) (hf : f.f39 = true) (s : Sock) (p : SPdu) : ∃ s', sockEnqueue f s p = some s' := by
  unfold sockEnqueue
  split
  · exact ⟨_, rfl⟩
  · split
    · split <;> exact ⟨_, rfl⟩
    · exact ⟨_, rfl⟩
  · exact dlcEnqueue_some f hf s p

theorem firstMatch_some (f : Fix) (hf : f.f39 = true) (sel : Sock → Bool) (p : SPdu) (l : List Sock) :
    ∃ r, firstMatch f sel p l = some r := by
  induction l with
  | nil => exact ⟨_, rfl⟩
  | cons s rest ih =>
    unfold firstMatch
    split
    · obtain ⟨s', hs⟩ := sockEnqueue_some f hf s p
      exact ⟨_, by rw [hs]; rfl⟩
    · obtain ⟨r, hr⟩ := ih
      exact ⟨_, by rw [hr]; rfl⟩

theorem sapEnqueue_some (f : Fix) (hf : f.f39 = true) (sap : Sap) (p : SPdu) : ∃ s', sapEnqueue f sap p = some s' := by
  have h1 := firstMatch_some f hf (fun s => s.st = .listen) p sap.socks
  have h2 := firstMatch_some f hf (fun s => s.peer = some p.ssap ∨ s.peer = none) p sap.socks
  obtain ⟨r1, hr1⟩ := h1
  obtain ⟨r2, hr2⟩ := h2
  unfold sapEnqueue
  cases p <;> simp only [hr1, hr2] <;> exact ⟨_, rfl⟩

theorem deliver_never_waits (f : Fix) (hf : f.f39 = true) (w : Llc) (p : SPdu) : deliver f w p ≠ .ok none := by
  unfold deliver
  intro h
  obtain ⟨e, _, h⟩ := Py.bind_eq_ok.mp h
  split at h
  · cases h
  · split at h <;> cases h
  · rename_i s _
    obtain ⟨s', hs⟩ := sapEnqueue_some f hf s p
    rw [hs] at h
    cases h

theorem rejectByName_never_waits (w : Llc) (ssap : Nat) (sn : Option Bytes) : rejectByName w ssap sn ≠ .ok none := by
  unfold rejectByName
  intro h
  obtain ⟨e1, _, h⟩ := Py.bind_eq_ok.mp h
  split at h <;> cases h

theorem dispatchS_never_waits (f : Fix) (hf : f.f39 = true) (w : Llc) (p : SPdu) : dispatchS f w p ≠ .ok none := by
  unfold dispatchS
  intro h
  split at h
  · cases h
  · split at h
    · exact rejectByName_never_waits _ _ _ h
    · exact rejectByName_never_waits _ _ _ h
    · obtain ⟨ea, _, h⟩ := Py.bind_eq_ok.mp h
      split at h
      · exact rejectByName_never_waits _ _ _ h
      · exact deliver_never_waits f hf _ _ h
  · exact deliver_never_waits f hf _ _ h

theorem dispatchAll_never_waits (f : Fix) (hf : f.f39 = true) (w : Llc) (ps : List SPdu) : dispatchAll f w ps ≠ .ok none := by
  induction ps generalizing w with
  | nil => unfold dispatchAll; intro h; cases h
  | cons p ps ih =>
    unfold dispatchAll
    intro h
    obtain ⟨r, hr, h⟩ := Py.bind_eq_ok.mp h
    match r, hr, h with
    | none, hr, _ => exact dispatchS_never_waits f hf w p hr
    | some w', _, h => exact ih w' h

theorem dispatch_never_waits (f : Fix) (hf : f.f39 = true) (w : Llc) (p : Pdu) : dispatch f w p ≠ .ok none := by
  unfold dispatch
  match p with
  | .simple q => exact dispatchS_never_waits f hf w q
  | .agf d s items =>
    simp only
    split
    · exact dispatchAll_never_waits f hf w items
    · intro h; cases h
end NfcVerif.Peer
