import NfcVerif.Model.PeerDispatch
/-!
# C07: the link loop never waits while it dispatches a PDU (repaired code)
-/
namespace NfcVerif.Peer
open NfcVerif.Pdu

theorem dlcClose_shutdown (s : Sock) : ∃ s', dlcClose { s with st := .shutdown } = some s' := by
  unfold dlcClose
  simp

theorem enqueueEstablished_some (s : Sock) (p : SPdu) : ∃ s', enqueueEstablished s p = some s' := by
  unfold enqueueEstablished
  cases p <;> simp only
  all_goals first
    | exact ⟨_, rfl⟩
    | exact dlcClose_shutdown s
    | (split
       · exact ⟨_, rfl⟩
       · split <;> exact ⟨_, rfl⟩)

theorem dlcEnqueue_some (f : Fix) (hf : f.f39 = true) (s : Sock) (p : SPdu) : ∃ s', dlcEnqueue f s p = some s' := by
  unfold dlcEnqueue
  split
  · obtain ⟨s', hs⟩ := dlcClose_shutdown s
    exact ⟨_, by rw [hs]; rfl⟩
  · split
    · exact ⟨_, rfl⟩
    · split
      · split <;> exact ⟨_, rfl⟩
      · exact ⟨_, rfl⟩
    · split
      · split <;> exact ⟨_, rfl⟩
      · split <;> exact ⟨_, rfl⟩
      · exact ⟨_, rfl⟩
    · split <;> exact ⟨_, rfl⟩
    · exact enqueueEstablished_some s p
    · exact ⟨_, rfl⟩

theorem sockEnqueue_some (f : Fix) (hf : f.f39 = true) (s : Sock) (p : SPdu) : ∃ s', sockEnqueue f s p = some s' := by
  unfold sockEnqueue
  split
  · exact ⟨_, rfl⟩
  · split
    · split <;> exact ⟨_, rfl⟩
    · exact ⟨_, rfl⟩
  · exact dlcEnqueue_some f hf s p

theorem firstMatch_some (f : Fix) (hf : f.f39 = true) (sel : Sock → Bool) (p : SPdu) (l : List Sock) :
    ∃ r, firstMatch f sel p l = some r := by
  induction l with
  | nil => exact ⟨_, rfl⟩
  | cons s rest ih =>
    unfold firstMatch
    split
    · obtain ⟨s', hs⟩ := sockEnqueue_some f hf s p
      exact ⟨_, by rw [hs]; rfl⟩
    · obtain ⟨r, hr⟩ := ih
      exact ⟨_, by rw [hr]; rfl⟩

theorem sapEnqueue_some (f : Fix) (hf : f.f39 = true) (sap : Sap) (p : SPdu) : ∃ s', sapEnqueue f sap p = some s' := by
  have h1 := firstMatch_some f hf (fun s => s.st = .listen) p sap.socks
  have h2 := firstMatch_some f hf (fun s => s.peer = some p.ssap ∨ s.peer = none) p sap.socks
  obtain ⟨r1, hr1⟩ := h1
  obtain ⟨r2, hr2⟩ := h2
  unfold sapEnqueue
  cases p <;> simp only [hr1, hr2] <;> exact ⟨_, rfl⟩

theorem deliver_never_waits (f : Fix) (hf : f.f39 = true) (w : Llc) (p : SPdu) : deliver f w p ≠ .ok none := by
  unfold deliver
  intro h
  obtain ⟨e, _, h⟩ := Py.bind_eq_ok.mp h
  split at h
  · cases h
  · split at h <;> cases h
  · rename_i s _
    obtain ⟨s', hs⟩ := sapEnqueue_some f hf s p
    rw [hs] at h
    cases h

theorem rejectByName_never_waits (w : Llc) (ssap : Nat) (sn : Option Bytes) : rejectByName w ssap sn ≠ .ok none := by
  unfold rejectByName
  intro h
  obtain ⟨e1, _, h⟩ := Py.bind_eq_ok.mp h
  split at h <;> cases h

theorem dispatchS_never_waits (f : Fix) (hf : f.f39 = true) (w : Llc) (p : SPdu) : dispatchS f w p ≠ .ok none := by
  unfold dispatchS
  intro h
  split at h
  · cases h
  · split at h
    · exact rejectByName_never_waits _ _ _ h
    · exact rejectByName_never_waits _ _ _ h
    · obtain ⟨ea, _, h⟩ := Py.bind_eq_ok.mp h
      split at h
      · exact rejectByName_never_waits _ _ _ h
      · exact deliver_never_waits f hf _ _ h
  · exact deliver_never_waits f hf _ _ h

theorem dispatchAll_never_waits (f : Fix) (hf : f.f39 = true) (w : Llc) (ps : List SPdu) : dispatchAll f w ps ≠ .ok none := by
  induction ps generalizing w with
  | nil => unfold dispatchAll; intro h; cases h
  | cons p ps ih =>
    unfold dispatchAll
    intro h
    obtain ⟨r, hr, h⟩ := Py.bind_eq_ok.mp h
    match r, hr, h with
    | none, hr, _ => exact dispatchS_never_waits f hf w p hr
    | some w', _, h => exact ih w' h

theorem dispatch_never_waits (f : Fix) (hf : f.f39 = true) (w : Llc) (p : Pdu) : dispatch f w p ≠ .ok none := by
  unfold dispatch
  match p with
  | .simple q => exact dispatchS_never_waits f hf w q
  | .agf d s items =>
    simp only
    split
    · exact dispatchAll_never_waits f hf w items
    · intro h; cases h

/-! ## dispatch never raises and keeps the table well formed -/

theorem idxN_lt {α} (l : List α) (i : Nat) (h : i < l.length) : ∃ a, idxN l i = .ok a ∧ l[i]? = some a := by
  unfold idxN
  have : l[i]? = some l[i] := List.getElem?_eq_getElem h
  rw [this]; exact ⟨_, rfl, rfl⟩

theorem llcOk_set (w : Llc) (hw : LlcOk w) (i : Nat) (e : Entry)
    (h1 : i = 1 → ∃ dm n, e = .sdp dm n) : LlcOk { w with tab := setEntry w.tab i e } := by
  obtain ⟨hl, ⟨dm, n, hs⟩, hn⟩ := hw
  refine ⟨by simp [setEntry, hl], ?_, hn⟩
  by_cases hi : i = 1
  · obtain ⟨dm', n', he⟩ := h1 hi
    subst hi; subst he
    exact ⟨dm', n', by simp [setEntry, hl]⟩
  · exact ⟨dm, n, by simp only [setEntry]; rw [List.getElem?_set_ne hi]; exact hs⟩

theorem deliver_total (f : Fix) (hf : f.f39 = true) (w : Llc) (hw : LlcOk w) (p : SPdu) (hp : p.dsap < 64) :
    ∃ w', deliver f w p = .ok (some w') ∧ LlcOk w' := by
  obtain ⟨e, he, hget⟩ := idxN_lt w.tab p.dsap (by rw [hw.len]; exact hp)
  unfold deliver
  rw [he]
  simp only [Py.bind_ok]
  match e, hget with
  | .empty, _ => exact ⟨w, rfl, hw⟩
  | .sdp dm nres, _ =>
    simp only
    split
    · exact ⟨_, rfl, llcOk_set w hw _ _ (fun _ => ⟨_, _, rfl⟩)⟩
    · exact ⟨w, rfl, hw⟩
  | .sap s, hget =>
    simp only
    obtain ⟨s', hs⟩ := sapEnqueue_some f hf s p
    rw [hs]
    refine ⟨_, rfl, llcOk_set w hw _ _ ?_⟩
    intro h1
    obtain ⟨dm, n, hsd⟩ := hw.sdp
    rw [h1] at hget
    rw [hsd] at hget
    cases hget

theorem rejectByName_total (w : Llc) (hw : LlcOk w) (ssap : Nat) (sn : Option Bytes) :
    ∃ w', rejectByName w ssap sn = .ok (some w') ∧ LlcOk w' := by
  obtain ⟨dm, n, hsd⟩ := hw.sdp
  obtain ⟨e, he, hget⟩ := idxN_lt w.tab 1 (by rw [hw.len]; omega)
  rw [hsd] at hget
  cases hget
  unfold rejectByName
  rw [he]
  exact ⟨_, rfl, llcOk_set w hw _ _ (fun _ => ⟨_, _, rfl⟩)⟩

theorem lookupName_lt (w : Llc) (hw : LlcOk w) (sn : Option Bytes) (a : Nat) (h : lookupName w.snl sn = some a) : a < 64 := by
  unfold lookupName at h
  match sn, h with
  | some n, h =>
    simp only [Option.map_eq_some_iff] at h
    obtain ⟨e, hf, rfl⟩ := h
    exact hw.names e (List.mem_of_find?_eq_some hf)

theorem dispatchS_total (f : Fix) (hf : f.f39 = true) (w : Llc) (hw : LlcOk w) (p : SPdu) (hp : SPduOk p) :
    ∃ w', dispatchS f w p = .ok (some w') ∧ LlcOk w' := by
  unfold dispatchS
  split
  · exact ⟨w, rfl, hw⟩
  · split
    · exact rejectByName_total w hw _ _
    · exact rejectByName_total w hw _ _
    · rename_i a _ hlk
      have ha := lookupName_lt w hw _ a hlk
      obtain ⟨e, he, _⟩ := idxN_lt w.tab a (by rw [hw.len]; exact ha)
      rw [he]
      simp only [Py.bind_ok]
      split
      · exact rejectByName_total w hw _ _
      · exact deliver_total f hf w hw _ ha
  · exact deliver_total f hf w hw p hp

theorem dispatchAll_total (f : Fix) (hf : f.f39 = true) (ps : List SPdu) (w : Llc) (hw : LlcOk w)
    (hp : ∀ q ∈ ps, SPduOk q) : ∃ w', dispatchAll f w ps = .ok (some w') ∧ LlcOk w' := by
  induction ps generalizing w with
  | nil => exact ⟨w, rfl, hw⟩
  | cons p ps ih =>
    obtain ⟨w1, h1, hw1⟩ := dispatchS_total f hf w hw p (hp p (by simp))
    unfold dispatchAll
    rw [h1]
    simp only [Py.bind_ok]
    exact ih w1 hw1 (fun q hq => hp q (by simp [hq]))

theorem dispatch_total (f : Fix) (hf : f.f39 = true) (w : Llc) (hw : LlcOk w) (p : Pdu) (hp : PduOk p) :
    ∃ w', dispatch f w p = .ok (some w') ∧ LlcOk w' := by
  unfold dispatch
  match p, hp with
  | .simple q, hp => exact dispatchS_total f hf w hw q hp
  | .agf d s items, hp =>
    simp only
    split
    · exact dispatchAll_total f hf items w hw hp
    · exact ⟨w, rfl, hw⟩
end NfcVerif.Peer
