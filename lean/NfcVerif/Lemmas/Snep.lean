import NfcVerif.Lemmas.SnepChannel
import NfcVerif.Model.Snep
/-! Proofs about the SNEP client/server model (C06): reassembly loops, request and response delivery. -/
namespace NfcVerif.Snep
open NfcVerif NfcVerif.Chan

theorem toBE4 (n : Nat) : toBE 4 n = [n / 16777216 % 256, n / 65536 % 256, n / 256 % 256, n % 256] := by
  simp [toBE, Nat.div_div_eq_div_mul]

theorem beNat4 (n : Nat) (h : n < 2 ^ 32) :
    beNat [n / 16777216 % 256, n / 65536 % 256, n / 256 % 256, n % 256] = n := by
  simp [beNat]; omega

/-- the server's reassembly loop consumes exactly the queued fragments -/
theorem srv_reasm (cfg : SCfg) (length : Nat) :
    ∀ (fs : List Bytes) (data : Bytes) (c : CState) (q lc ls : List Bytes) (dl : List (Op × Bytes)),
      fs ≠ [] → (∀ f ∈ fs, f ≠ []) → data.length + fs.flatten.length = 6 + length → 6 ≤ data.length →
      pump (proto cfg) fs.length
        { cst := c, sst := .reasm data length, c2s := fs, s2c := q, logC := lc, logS := ls, dl := dl } =
      { cst := c, sst := (srvFinish cfg (data ++ fs.flatten)).1, c2s := [],
        s2c := q ++ (srvFinish cfg (data ++ fs.flatten)).2.1, logC := lc,
        logS := ls ++ (srvFinish cfg (data ++ fs.flatten)).2.1,
        dl := dl ++ (srvFinish cfg (data ++ fs.flatten)).2.2 } := by
  intro fs
  induction fs with
  | nil => intro _ _ _ _ _ _ h; exact absurd rfl h
  | cons f rest ih =>
    intro data c q lc ls dl _ hne htot h6
    have hf : f ≠ [] := hne f (by simp)
    have hfl : 0 < f.length := List.length_pos_iff.mpr hf
    cases rest with
    | nil =>
      simp only [List.flatten_cons, List.flatten_nil, List.append_nil, List.length_append] at htot ⊢
      simp only [List.length_cons, List.length_nil, pump, step, proto, swait, srvOnRecv]
      have : ¬ (data.length + f.length - 6 < length) := by omega
      simp [this]
    | cons g rest =>
      have hg : g ≠ [] := hne g (by simp)
      have hgl : 0 < g.length := List.length_pos_iff.mpr hg
      simp only [List.flatten_cons, List.length_append] at htot
      have hlt : (data ++ f).length - 6 < length := by simp; omega
      have := ih (data ++ f) c (q ++ []) lc (ls ++ []) (dl ++ []) (by simp)
        (fun x hx => hne x (List.mem_cons_of_mem _ hx))
        (by simp only [List.flatten_cons, List.length_append]; omega) (by simp; omega)
      rw [List.length_cons]
      simp only [pump]
      conv => lhs; arg 3; simp only [step, proto, swait, srvOnRecv, hlt, if_true]
      rw [this]
      simp [List.append_assoc]


/-- the client's reassembly loop (fragmented response) -/
theorem cli_reasm (cfg : SCfg) (op : Op) (length : Nat) :
    ∀ (fs : List Bytes) (buf : Bytes) (st : SState) (lc ls : List Bytes) (dl : List (Op × Bytes)),
      fs ≠ [] → (∀ f ∈ fs, f ≠ []) → buf.length + fs.flatten.length = 6 + length → 6 ≤ buf.length →
      pump (proto cfg) fs.length
        { cst := .reasm op buf length, sst := st, c2s := [], s2c := fs, logC := lc, logS := ls, dl := dl } =
      { cst := .done (cliFinish op (buf ++ fs.flatten)), sst := st, c2s := [], s2c := [], logC := lc, logS := ls, dl := dl } := by
  intro fs
  induction fs with
  | nil => intro _ _ _ _ _ h; exact absurd rfl h
  | cons f rest ih =>
    intro buf st lc ls dl _ hne htot h6
    have hf : f ≠ [] := hne f (by simp)
    have hfl : 0 < f.length := List.length_pos_iff.mpr hf
    cases rest with
    | nil =>
      simp only [List.flatten_cons, List.flatten_nil, List.append_nil] at htot ⊢
      simp only [List.length_cons, List.length_nil, pump, step, proto, cwait, cliOnRecv, List.length_append]
      have : ¬ (buf.length + f.length - 6 < length) := by omega
      simp [this]
    | cons g rest =>
      have hg : g ≠ [] := hne g (by simp)
      have hgl : 0 < g.length := List.length_pos_iff.mpr hg
      simp only [List.flatten_cons, List.length_append] at htot
      have hlt : (buf ++ f).length - 6 < length := by simp; omega
      have := ih (buf ++ f) st (lc ++ []) ls dl (by simp)
        (fun x hx => hne x (List.mem_cons_of_mem _ hx))
        (by simp only [List.flatten_cons, List.length_append]; omega) (by simp; omega)
      rw [List.length_cons]
      simp only [pump]
      conv => lhs; arg 3; simp only [step, proto, cwait, cliOnRecv, hlt, if_true, List.append_nil, List.nil_append]
      simp only [List.append_nil] at this
      rw [this]
      simp [List.append_assoc]

/-- a complete Put request reaches `process_snep_request` -/
theorem srvFinish_put (cfg : SCfg) (a b c d : Nat) (msg : Bytes) (hs : 6 ≤ cfg.smiu)
    (hv : cfg.h.valid msg = true) :
    srvFinish cfg (0x10 :: 0x02 :: a :: b :: c :: d :: msg) =
      (.idle, [hdr (cfg.h.put msg) 0], [(Op.put, msg)]) := by
  simp [srvFinish, process, hv, respond, hdr, toBE, hs]



/-- Phase 1: a request `req = 10 code <be32 |body|> body` is fragmented by the client with
send MIU `miu ≥ 6`, the server answers the first fragment with Continue, collects the rest and
calls `process_snep_request` on exactly `req`. -/
theorem deliver_req (cfg : SCfg) (miu : Nat) (op : Op) (acc code a b c d : Nat) (body : Bytes)
    (lc ls : List Bytes) (dl0 : List (Op × Bytes))
    (hc : 6 ≤ miu) (hbe : beNat [a, b, c, d] = body.length) (hacc : body.length ≤ cfg.maxAcc) :
    let req := 0x10 :: code :: a :: b :: c :: d :: body
    ∃ N, pump (proto cfg) N
        { cst := (cliSend miu acc op req).1, sst := .idle, c2s := (cliSend miu acc op req).2, s2c := [],
          logC := lc ++ (cliSend miu acc op req).2, logS := ls, dl := dl0 } =
      { cst := .awaitResp op (respAcc acc op), sst := (srvFinish cfg req).1, c2s := [],
        s2c := (srvFinish cfg req).2.1,
        logC := lc ++ fragments miu req,
        logS := ls ++ (if req.length ≤ miu then [] else [contRsp]) ++ (srvFinish cfg req).2.1,
        dl := dl0 ++ (srvFinish cfg req).2.2 } := by
  intro req
  have hrl : req.length = body.length + 6 := by simp [req]
  by_cases hsingle : req.length ≤ miu
  · refine ⟨1, ?_⟩
    have htake : fragments miu req = [req] := by
      simp [fragments, List.take_of_length_le hsingle, List.drop_of_length_le hsingle, chunks_nil]
    rw [htake]
    have hsrv : srvOnRecv cfg .idle req = srvFinish cfg req := by
      simp only [req, srvOnRecv, hbe]
      rw [if_neg (by decide), if_neg (by omega), if_neg (by simp)]
    simp [cliSend, hsingle, pump, step, proto, swait, hsrv]
  · obtain ⟨k, hk⟩ : ∃ k, miu = k + 6 := ⟨miu - 6, by omega⟩
    have hgt : miu < req.length := by omega
    have hfirst : req.take miu = 0x10 :: code :: a :: b :: c :: d :: body.take k := by
      rw [hk]; simp [req, List.take_succ_cons]
    have hfl : (req.take miu).length = miu := by
      rw [List.length_take]; omega
    have hrest_ne : chunks miu (req.drop miu) ≠ [] := by
      apply chunks_ne_nil
      intro h
      have := congrArg List.length h
      simp at this; omega
    have hrest_b := chunks_bound miu (by omega) (req.drop miu)
    have hrest_f := chunks_flatten miu (by omega) (req.drop miu)
    have hsrv1 : srvOnRecv cfg .idle (req.take miu) = (.reasm (req.take miu) body.length, [contRsp], []) := by
      have hl := hfl
      rw [hfirst] at hl ⊢
      simp only [srvOnRecv, hbe]
      rw [if_neg (by decide), if_neg (by omega), if_pos (by rw [hl]; omega)]
    have hre := srv_reasm cfg body.length (chunks miu (req.drop miu)) (req.take miu)
      (.awaitResp op (respAcc acc op)) [] (lc ++ fragments miu req) (ls ++ [contRsp]) dl0 hrest_ne
      (fun f hf => (hrest_b f hf).2) (by rw [hrest_f, hfl, List.length_drop]; omega) (by rw [hfl]; exact hc)
    rw [hrest_f, List.take_append_drop] at hre
    refine ⟨2 + (chunks miu (req.drop miu)).length, ?_⟩
    simp only [cliSend, hsingle, if_false]
    rw [pump_add]
    have h2 : pump (proto cfg) 2
        { cst := .awaitCont op (respAcc acc op) (chunks miu (req.drop miu)), sst := .idle,
          c2s := [req.take miu], s2c := [], logC := lc ++ [req.take miu], logS := ls, dl := dl0 } =
        { cst := .awaitResp op (respAcc acc op), sst := .reasm (req.take miu) body.length,
          c2s := chunks miu (req.drop miu), s2c := [],
          logC := lc ++ fragments miu req, logS := ls ++ [contRsp], dl := dl0 } := by
      simp [pump, step, proto, swait, cwait, hsrv1, cliOnRecv, fragments]
    rw [h2, hre]
    simp

/-- Phase 2: a response `resp = 10 status <be32 |rd|> rd` with `|rd|` acceptable to the client
is fragmented by the server with send MIU `smiu ≥ 6`; the client asks for the rest with
Continue, collects it and ends with exactly `resp`. -/
theorem deliver_resp (cfg : SCfg) (op : Op) (racc st a b c d : Nat) (rd : Bytes)
    (lc ls : List Bytes) (dl0 : List (Op × Bytes))
    (hs : 6 ≤ cfg.smiu) (hbe : beNat [a, b, c, d] = rd.length) (hacc : rd.length ≤ racc) :
    let resp := 0x10 :: st :: a :: b :: c :: d :: rd
    ∃ N, pump (proto cfg) N
        { cst := .awaitResp op racc, sst := (respond cfg.smiu resp).1, c2s := [], s2c := (respond cfg.smiu resp).2,
          logC := lc, logS := ls ++ (respond cfg.smiu resp).2, dl := dl0 } =
      { cst := .done (cliFinish op resp), sst := .idle, c2s := [], s2c := [],
        logC := lc ++ (if resp.length ≤ cfg.smiu then [] else [contReq]),
        logS := ls ++ fragments cfg.smiu resp, dl := dl0 } := by
  intro resp
  have hrl : resp.length = rd.length + 6 := by simp [resp]
  by_cases hsingle : resp.length ≤ cfg.smiu
  · refine ⟨1, ?_⟩
    have htake : fragments cfg.smiu resp = [resp] := by
      simp [fragments, List.take_of_length_le hsingle, List.drop_of_length_le hsingle, chunks_nil]
    rw [htake]
    have hcli : cliOnRecv (.awaitResp op racc) resp = (.done (cliFinish op resp), []) := by
      simp only [resp, cliOnRecv, hbe]
      rw [if_neg (by omega), if_neg (by simp)]
    simp [respond, hsingle, pump, step, proto, cwait, hcli]
  · obtain ⟨k, hk⟩ : ∃ k, cfg.smiu = k + 6 := ⟨cfg.smiu - 6, by omega⟩
    have hgt : cfg.smiu < resp.length := by omega
    have hfirst : resp.take cfg.smiu = 0x10 :: st :: a :: b :: c :: d :: rd.take k := by
      rw [hk]; simp [resp, List.take_succ_cons]
    have hfl : (resp.take cfg.smiu).length = cfg.smiu := by
      rw [List.length_take]; omega
    have hrest_ne : chunks cfg.smiu (resp.drop cfg.smiu) ≠ [] := by
      apply chunks_ne_nil
      intro h
      have := congrArg List.length h
      simp at this; omega
    have hrest_b := chunks_bound cfg.smiu (by omega) (resp.drop cfg.smiu)
    have hrest_f := chunks_flatten cfg.smiu (by omega) (resp.drop cfg.smiu)
    have hcli1 : cliOnRecv (.awaitResp op racc) (resp.take cfg.smiu) =
        (.reasm op (resp.take cfg.smiu) rd.length, [contReq]) := by
      have hl := hfl
      rw [hfirst] at hl ⊢
      simp only [cliOnRecv, hbe]
      rw [if_neg (by omega), if_pos (by rw [hl]; omega)]
    have hre := cli_reasm cfg op rd.length (chunks cfg.smiu (resp.drop cfg.smiu)) (resp.take cfg.smiu)
      .idle (lc ++ [contReq]) (ls ++ fragments cfg.smiu resp) dl0 hrest_ne
      (fun f hf => (hrest_b f hf).2) (by rw [hrest_f, hfl, List.length_drop]; omega) (by rw [hfl]; exact hs)
    rw [hrest_f, List.take_append_drop] at hre
    refine ⟨2 + (chunks cfg.smiu (resp.drop cfg.smiu)).length, ?_⟩
    simp only [respond, hsingle, if_false]
    rw [pump_add]
    have h2 : pump (proto cfg) 2
        { cst := .awaitResp op racc, sst := .awaitCont (chunks cfg.smiu (resp.drop cfg.smiu)),
          c2s := [], s2c := [resp.take cfg.smiu], logC := lc, logS := ls ++ [resp.take cfg.smiu], dl := dl0 } =
        { cst := .reasm op (resp.take cfg.smiu) rd.length, sst := .idle,
          c2s := [], s2c := chunks cfg.smiu (resp.drop cfg.smiu),
          logC := lc ++ [contReq], logS := ls ++ fragments cfg.smiu resp, dl := dl0 } := by
      simp [pump, step, proto, swait, cwait, hcli1, srvOnRecv, fragments]
    rw [h2, hre]


/-- request octets of `put_octets` -/
def putReq (msg : Bytes) : Bytes := [0x10, 0x02] ++ toBE 4 msg.length ++ msg
/-- request octets of `get_octets` -/
def getReq (acc : Nat) (msg : Bytes) : Bytes := [0x10, 0x01] ++ toBE 4 (4 + msg.length) ++ toBE 4 acc ++ msg

/-- outcome of `put_octets` for the response code the application returned -/
def putRes (code : Nat) : CRes := if code = 0x81 then .okTrue else .snepError code

theorem put_run (cfg : SCfg) (cc : CCfg) (msg : Bytes) (c0 : CState) (lc ls : List Bytes)
    (dl0 : List (Op × Bytes))
    (hc : 6 ≤ cc.miu) (hs : 6 ≤ cfg.smiu) (hlen : msg.length < 2 ^ 32) (hacc : msg.length ≤ cfg.maxAcc)
    (hv : cfg.h.valid msg = true) :
    ∃ N, ∀ fuel, N ≤ fuel →
      runOp cfg cc fuel { cst := c0, sst := .idle, c2s := [], s2c := [], logC := lc, logS := ls, dl := dl0 } .put msg =
      { cst := .done (putRes (cfg.h.put msg)), sst := .idle, c2s := [], s2c := [],
        logC := lc ++ fragments cc.miu (putReq msg),
        logS := ls ++ (if (putReq msg).length ≤ cc.miu then [] else [contRsp]) ++ [hdr (cfg.h.put msg) 0],
        dl := dl0 ++ [(Op.put, msg)] } := by
  have hreq : request cc.acc .put msg = .ok (putReq msg) := by
    simp only [request, putReq]; rw [if_neg (by omega)]
  have hcons : putReq msg = 0x10 :: 0x02 :: (msg.length / 16777216 % 256) :: (msg.length / 65536 % 256)
      :: (msg.length / 256 % 256) :: (msg.length % 256) :: msg := by
    simp [putReq, toBE4]
  have hbe := beNat4 msg.length hlen
  generalize msg.length / 16777216 % 256 = a at hcons hbe
  generalize msg.length / 65536 % 256 = b at hcons hbe
  generalize msg.length / 256 % 256 = c at hcons hbe
  generalize msg.length % 256 = d at hcons hbe
  obtain ⟨N, hN⟩ := deliver_req cfg cc.miu .put cc.acc 0x02 a b c d msg lc ls dl0 hc hbe hacc
  simp only [← hcons] at hN
  have hfinish : srvFinish cfg (putReq msg) = (.idle, [hdr (cfg.h.put msg) 0], [(Op.put, msg)]) := by
    rw [hcons]; exact srvFinish_put cfg a b c d msg hs hv
  rw [hfinish] at hN
  have hfin : cliOnRecv (.awaitResp .put 0) (hdr (cfg.h.put msg) 0) = (.done (putRes (cfg.h.put msg)), []) := by
    simp [cliOnRecv, hdr, toBE, beNat, cliFinish, putRes]
  refine ⟨N + 1, pump_stable _ _ _ _ ?_ (by simp [quiet])⟩
  simp only [runOp, startOp, cliStart, hreq, List.nil_append]
  rw [pump_add, hN]
  simp [pump, step, proto, swait, cwait, hfin, respAcc]

/-- the server's answer to the first fragment of a message that is too long -/
theorem srv_oversize (cfg : SCfg) (v x a b c d : Nat) (tl : Bytes) (hv : v / 16 ≤ 1)
    (hlen : cfg.maxAcc < beNat [a, b, c, d]) :
    srvOnRecv cfg .idle (v :: x :: a :: b :: c :: d :: tl) = (.idle, [rejectRsp], []) := by
  simp only [srvOnRecv]
  rw [if_neg (by omega), if_pos hlen]

theorem put_oversize_run (cfg : SCfg) (cc : CCfg) (msg : Bytes) (c0 : CState) (lc ls : List Bytes)
    (dl0 : List (Op × Bytes))
    (hc : 6 ≤ cc.miu) (hlen : msg.length < 2 ^ 32) (hacc : cfg.maxAcc < msg.length) :
    ∃ N, ∀ fuel, N ≤ fuel →
      runOp cfg cc fuel { cst := c0, sst := .idle, c2s := [], s2c := [], logC := lc, logS := ls, dl := dl0 } .put msg =
      { cst := .done (if (putReq msg).length ≤ cc.miu then .snepError 0xFF else .okFalse), sst := .idle,
        c2s := [], s2c := [],
        logC := lc ++ [(putReq msg).take cc.miu], logS := ls ++ [rejectRsp], dl := dl0 } := by
  have hreq : request cc.acc .put msg = .ok (putReq msg) := by
    simp only [request, putReq]; rw [if_neg (by omega)]
  have hcons : putReq msg = 0x10 :: 0x02 :: (msg.length / 16777216 % 256) :: (msg.length / 65536 % 256)
      :: (msg.length / 256 % 256) :: (msg.length % 256) :: msg := by
    simp [putReq, toBE4]
  have hbe := beNat4 msg.length hlen
  generalize msg.length / 16777216 % 256 = a at hcons hbe
  generalize msg.length / 65536 % 256 = b at hcons hbe
  generalize msg.length / 256 % 256 = c at hcons hbe
  generalize msg.length % 256 = d at hcons hbe
  obtain ⟨k, hk⟩ : ∃ k, cc.miu = k + 6 := ⟨cc.miu - 6, by omega⟩
  have hfirst : (putReq msg).take cc.miu = 0x10 :: 0x02 :: a :: b :: c :: d :: msg.take k := by
    rw [hcons, hk]; simp [List.take_succ_cons]
  have hsrv : srvOnRecv cfg .idle ((putReq msg).take cc.miu) = (.idle, [rejectRsp], []) := by
    rw [hfirst]; exact srv_oversize cfg _ _ a b c d _ (by decide) (by omega)
  refine ⟨2, pump_stable _ _ _ _ ?_ (by simp [quiet])⟩
  simp only [runOp, startOp, cliStart, hreq, List.nil_append, cliSend]
  by_cases hsingle : (putReq msg).length ≤ cc.miu
  · have ht : (putReq msg).take cc.miu = putReq msg := List.take_of_length_le hsingle
    rw [ht] at hsrv
    simp [hsingle, ht, pump, step, proto, swait, cwait, hsrv, cliOnRecv, rejectRsp, beNat, cliFinish, respAcc]
  · simp [hsingle, pump, step, proto, swait, cwait, hsrv, cliOnRecv, rejectRsp, contRsp, sendFailed]

/-- what `process_snep_request` answers to a Get whose handler returned the message `rd` -/
def getAnswer (acc : Nat) (rd : Bytes) : Nat × Bytes := if rd.length > acc then (0xC1, []) else (0x81, rd)

theorem srvFinish_get (cfg : SCfg) (a b c d a' b' c' d' : Nat) (msg rd : Bytes) (acc : Nat)
    (hbe : beNat [a', b', c', d'] = acc)
    (hv : cfg.h.valid msg = true) (hget : cfg.h.get msg = .inr rd) :
    srvFinish cfg (0x10 :: 0x01 :: a :: b :: c :: d :: a' :: b' :: c' :: d' :: msg) =
      ((respond cfg.smiu (hdr (getAnswer acc rd).1 (getAnswer acc rd).2.length ++ (getAnswer acc rd).2)).1,
       (respond cfg.smiu (hdr (getAnswer acc rd).1 (getAnswer acc rd).2.length ++ (getAnswer acc rd).2)).2,
       [(Op.get, msg)]) := by
  simp [srvFinish, process, hv, hget, hbe, getAnswer]

theorem get_run (cfg : SCfg) (cc : CCfg) (msg rd : Bytes) (c0 : CState) (lc ls : List Bytes)
    (dl0 : List (Op × Bytes))
    (hc : 6 ≤ cc.miu) (hs : 6 ≤ cfg.smiu) (hlen : 4 + msg.length < 2 ^ 32) (hcacc : cc.acc < 2 ^ 32)
    (hacc : 4 + msg.length ≤ cfg.maxAcc) (hv : cfg.h.valid msg = true)
    (hget : cfg.h.get msg = .inr rd) (hrd : rd.length < 2 ^ 32) :
    let ans := getAnswer cc.acc rd
    let resp := hdr ans.1 ans.2.length ++ ans.2
    ∃ N, ∀ fuel, N ≤ fuel →
      runOp cfg cc fuel { cst := c0, sst := .idle, c2s := [], s2c := [], logC := lc, logS := ls, dl := dl0 } .get msg =
      { cst := .done (if ans.1 = 0x81 then .okData ans.2 else .snepError ans.1), sst := .idle, c2s := [], s2c := [],
        logC := lc ++ fragments cc.miu (getReq cc.acc msg) ++ (if resp.length ≤ cfg.smiu then [] else [contReq]),
        logS := ls ++ (if (getReq cc.acc msg).length ≤ cc.miu then [] else [contRsp]) ++ fragments cfg.smiu resp,
        dl := dl0 ++ [(Op.get, msg)] } := by
  intro ans resp
  have hreq : request cc.acc .get msg = .ok (getReq cc.acc msg) := by
    simp only [request, getReq]; rw [if_neg (by omega)]
  have hbe := beNat4 (4 + msg.length) hlen
  have hbe' := beNat4 cc.acc hcacc
  have hcons : getReq cc.acc msg = 0x10 :: 0x01 :: ((4 + msg.length) / 16777216 % 256) :: ((4 + msg.length) / 65536 % 256)
      :: ((4 + msg.length) / 256 % 256) :: ((4 + msg.length) % 256) ::
      ((cc.acc / 16777216 % 256) :: (cc.acc / 65536 % 256) :: (cc.acc / 256 % 256) :: (cc.acc % 256) :: msg) := by
    simp [getReq, toBE4]
  generalize (4 + msg.length) / 16777216 % 256 = a at hcons hbe
  generalize (4 + msg.length) / 65536 % 256 = b at hcons hbe
  generalize (4 + msg.length) / 256 % 256 = c at hcons hbe
  generalize (4 + msg.length) % 256 = d at hcons hbe
  generalize cc.acc / 16777216 % 256 = a' at hcons hbe'
  generalize cc.acc / 65536 % 256 = b' at hcons hbe'
  generalize cc.acc / 256 % 256 = c' at hcons hbe'
  generalize cc.acc % 256 = d' at hcons hbe'
  obtain ⟨N, hN⟩ := deliver_req cfg cc.miu .get cc.acc 0x01 a b c d (a' :: b' :: c' :: d' :: msg) lc ls dl0 hc
    (by rw [hbe]; simp; omega) (by simp; omega)
  simp only [← hcons] at hN
  have hfinish := srvFinish_get cfg a b c d a' b' c' d' msg rd cc.acc hbe' hv hget
  rw [← hcons] at hfinish
  rw [hfinish] at hN
  -- the response
  have hal : ans.2.length ≤ cc.acc ∧ ans.2.length < 2 ^ 32 := by
    simp only [ans, getAnswer]; split <;> simp <;> omega
  have hbe2 := beNat4 ans.2.length hal.2
  have hrcons : resp = 0x10 :: ans.1 :: (ans.2.length / 16777216 % 256) :: (ans.2.length / 65536 % 256)
      :: (ans.2.length / 256 % 256) :: (ans.2.length % 256) :: ans.2 := by
    simp [resp, hdr, toBE4]
  generalize ans.2.length / 16777216 % 256 = e at hrcons hbe2
  generalize ans.2.length / 65536 % 256 = f at hrcons hbe2
  generalize ans.2.length / 256 % 256 = g at hrcons hbe2
  generalize ans.2.length % 256 = h at hrcons hbe2
  obtain ⟨M, hM⟩ := deliver_resp cfg .get cc.acc ans.1 e f g h ans.2
    (lc ++ fragments cc.miu (getReq cc.acc msg))
    (ls ++ (if (getReq cc.acc msg).length ≤ cc.miu then [] else [contRsp])) (dl0 ++ [(Op.get, msg)]) hs hbe2 hal.1
  simp only [← hrcons] at hM
  have hcf : cliFinish .get resp = (if ans.1 = 0x81 then .okData ans.2 else .snepError ans.1) := by
    rw [hrcons]; simp [cliFinish]
  rw [hcf] at hM
  refine ⟨N + M, pump_stable _ _ _ _ ?_ (by simp [quiet])⟩
  simp only [runOp, startOp, cliStart, hreq, List.nil_append]
  rw [pump_add, hN]
  simp only [respAcc]
  exact hM

theorem puts_run (cfg : SCfg) (cc : CCfg) (hc : 6 ≤ cc.miu) (hs : 6 ≤ cfg.smiu) :
    ∀ (msgs : List Bytes) (n : SNet), n.sst = .idle → n.c2s = [] → n.s2c = [] →
      (∀ m ∈ msgs, m.length < 2 ^ 32 ∧ m.length ≤ cfg.maxAcc ∧ cfg.h.valid m = true) →
      ∃ N, ∀ fuel, N ≤ fuel →
        (runOps cfg cc fuel n (msgs.map fun m => (Op.put, m))).1 = msgs.map (fun m => putRes (cfg.h.put m)) ∧
        (runOps cfg cc fuel n (msgs.map fun m => (Op.put, m))).2.dl = n.dl ++ msgs.map (fun m => (Op.put, m)) ∧
        (runOps cfg cc fuel n (msgs.map fun m => (Op.put, m))).2.sst = .idle ∧
        (runOps cfg cc fuel n (msgs.map fun m => (Op.put, m))).2.c2s = [] ∧
        (runOps cfg cc fuel n (msgs.map fun m => (Op.put, m))).2.s2c = [] := by
  intro msgs
  induction msgs with
  | nil => intro n h1 h2 h3 _; exact ⟨0, fun _ _ => by simp [runOps, h1, h2, h3]⟩
  | cons m rest ih =>
    intro n h1 h2 h3 hall
    obtain ⟨c0, st, q1, q2, lc, ls, dl0⟩ := n
    simp only at h1 h2 h3
    subst h1 h2 h3
    obtain ⟨hl, ha, hv⟩ := hall m (by simp)
    obtain ⟨N1, hN1⟩ := put_run cfg cc m c0 lc ls dl0 hc hs hl ha hv
    obtain ⟨N2, hN2⟩ := ih
      { cst := .done (putRes (cfg.h.put m)), sst := .idle, c2s := [], s2c := [],
        logC := lc ++ fragments cc.miu (putReq m),
        logS := ls ++ (if (putReq m).length ≤ cc.miu then [] else [contRsp]) ++ [hdr (cfg.h.put m) 0],
        dl := dl0 ++ [(Op.put, m)] } rfl rfl rfl (fun x hx => hall x (List.mem_cons_of_mem _ hx))
    refine ⟨max N1 N2, fun fuel hf => ?_⟩
    have h1 := hN1 fuel (by omega)
    have h2 := hN2 fuel (by omega)
    simp only [List.map_cons, runOps, h1, result, cliOnTimeout]
    simp only [List.append_assoc, List.singleton_append] at h2 ⊢
    exact ⟨by rw [h2.1], h2.2⟩

end NfcVerif.Snep
