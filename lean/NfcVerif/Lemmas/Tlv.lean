import NfcVerif.Model.Tlv
namespace NfcVerif.Tlv
open NfcVerif

/-! ### skip set, nextFree -/
theorem nf_ge (s : Skip) (f a : Nat) : a ≤ nf s f a := by
  induction f generalizing a with
  | zero => simp [nf]
  | succ f ih =>
    simp only [nf]; split
    · have := ih (a+1); omega
    · omega

theorem inSkip_lt_skipMax (s : Skip) (a : Nat) (h : inSkip s a = true) : a < skipMax s := by
  induction s with
  | nil => simp [inSkip] at h
  | cons r rs ih =>
    simp only [inSkip, List.any_cons, Bool.or_eq_true, Bool.and_eq_true, decide_eq_true_eq] at h
    simp only [skipMax]
    rcases h with h | h
    · omega
    · have := ih (by simpa [inSkip] using h); omega

theorem nf_not_skip (s : Skip) (f a : Nat) (h : skipMax s - a ≤ f) : inSkip s (nf s f a) = false := by
  induction f generalizing a with
  | zero =>
    simp only [nf]
    cases hs : inSkip s a with
    | false => rfl
    | true => have := inSkip_lt_skipMax s a hs; omega
  | succ f ih =>
    simp only [nf]; split
    · exact ih (a+1) (by omega)
    · rename_i hn; simpa using hn

theorem nf_between (s : Skip) (f a x : Nat) (h1 : a ≤ x) (h2 : x < nf s f a) : inSkip s x = true := by
  induction f generalizing a with
  | zero => simp [nf] at h2; omega
  | succ f ih =>
    simp only [nf] at h2; split at h2
    · rename_i hs
      by_cases hx : x = a
      · subst hx; exact hs
      · exact ih (a+1) (by omega) h2
    · omega

theorem nextFree_ge (s : Skip) (a : Nat) : a ≤ nextFree s a := nf_ge _ _ _
theorem nextFree_not_skip (s : Skip) (a : Nat) : inSkip s (nextFree s a) = false := nf_not_skip _ _ _ (Nat.le_refl _)
theorem nextFree_between (s : Skip) (a x : Nat) (h1 : a ≤ x) (h2 : x < nextFree s a) : inSkip s x = true :=
  nf_between _ _ _ _ h1 h2
theorem nextFree_eq_self (s : Skip) (a : Nat) (h : inSkip s a = false) : nextFree s a = a := by
  have h1 := nextFree_ge s a
  by_cases h2 : a < nextFree s a
  · have := nextFree_between s a a (Nat.le_refl _) h2; simp [h] at this
  · omega

/-- address after `n` value bytes placed from `a` -/
def endAddr (s : Skip) : Nat → Nat → Nat
  | 0, a => a
  | n+1, a => endAddr s n (nextFree s a + 1)

theorem endAddr_ge (s : Skip) (n a : Nat) : a + n ≤ endAddr s n a := by
  induction n generalizing a with
  | zero => simp [endAddr]
  | succ n ih =>
    simp only [endAddr]
    have := ih (nextFree s a + 1); have := nextFree_ge s a; omega

theorem cfree_le (s : Skip) (a k : Nat) : cfree s a k ≤ k := by
  induction k generalizing a with
  | zero => simp [cfree]
  | succ k ih => simp only [cfree]; have := ih (a+1); split <;> omega

/-- if `n+1` free addresses exist in `[a, a+k)` the next free address lies inside and `n` remain behind it -/
theorem nf_cfree (s : Skip) (n : Nat) (f a k : Nat) (h : n + 1 ≤ cfree s a k)
    (hf : inSkip s (nf s f a) = false) :
    nf s f a < a + k ∧ n ≤ cfree s (nf s f a + 1) (a + k - (nf s f a + 1)) := by
  induction f generalizing a k with
  | zero =>
    simp only [nf] at hf ⊢
    cases k with
    | zero => simp [cfree] at h
    | succ k =>
      simp only [cfree, hf] at h
      refine ⟨by omega, ?_⟩
      have : a + (k+1) - (a+1) = k := by omega
      rw [this]; simp at h; omega
  | succ f ih =>
    cases k with
    | zero => simp [cfree] at h
    | succ k =>
      simp only [nf] at hf ⊢
      split
      · rename_i hs
        rw [if_pos hs] at hf
        simp only [cfree, hs, if_true] at h
        have := ih (a+1) k (by omega) hf
        have e : a + 1 + k = a + (k+1) := by omega
        rw [e] at this; exact this
      · rename_i hs
        rw [if_neg hs] at hf
        simp only [cfree, hf] at h
        refine ⟨by omega, ?_⟩
        have : a + (k+1) - (a+1) = k := by omega
        rw [this]; simp at h; omega

theorem endAddr_le_of_cfree (s : Skip) (n a k : Nat) (h : n ≤ cfree s a k) : endAddr s n a ≤ a + k := by
  induction n generalizing a k with
  | zero => simp [endAddr]
  | succ n ih =>
    simp only [endAddr]
    have := nf_cfree s n (skipMax s - a) a k h (nextFree_not_skip s a)
    have h2 := ih (nextFree s a + 1) (a + k - (nextFree s a + 1)) this.2
    have h3 : nextFree s a < a + k := this.1
    omega

theorem cfree_split (s : Skip) (a j k : Nat) : cfree s a (j + k) = cfree s a j + cfree s (a + j) k := by
  induction j generalizing a with
  | zero => simp [cfree]
  | succ j ih =>
    have : j + 1 + k = (j + k) + 1 := by omega
    rw [this]; simp only [cfree]
    rw [ih (a+1)]
    have : a + 1 + j = a + (j + 1) := by omega
    rw [this]; omega


/-! ### memory -/
theorem rd_ok_iff (c : Cfg) (m : Bytes) (a v : Nat) : rd c m a = .ok v ↔ m[a]? = some v := by
  unfold rd; split <;> simp_all

theorem rd_congr (c : Cfg) (m m' : Bytes) (a : Nat) (h : m'[a]? = m[a]?) : rd c m' a = rd c m a := by
  unfold rd; rw [h]

theorem rd_of_lt (c : Cfg) (m : Bytes) (a : Nat) (h : a < m.length) : rd c m a = .ok m[a] := by
  unfold rd; simp [h]

theorem wr_ok (c : Cfg) (m : Bytes) (a v : Nat) (h : a < m.length) : wr c m a v = .ok (m.set a v) := by
  simp [wr, h]

theorem wr_inv (c : Cfg) (m m' : Bytes) (a v : Nat) (h : wr c m a v = .ok m') : a < m.length ∧ m' = m.set a v := by
  unfold wr at h; split at h
  · rename_i hl; cases h; exact ⟨hl, rfl⟩
  · cases h

theorem get_set_ne (m : Bytes) (a v x : Nat) (h : a ≠ x) : (m.set a v)[x]? = m[x]? := by
  simp [h]

theorem get_set_eq (m : Bytes) (a v : Nat) (h : a < m.length) : (m.set a v)[a]? = some v := by
  simp [h]

/-! ### fetch / place -/
theorem fetch_congr (c : Cfg) (s : Skip) (m m' : Bytes) (n a : Nat)
    (h : ∀ x, a ≤ x → x < endAddr s n a → m'[x]? = m[x]?) :
    fetch (rd c m') s n a = fetch (rd c m) s n a := by
  induction n generalizing a with
  | zero => simp [fetch]
  | succ n ih =>
    simp only [fetch]
    have hb := nextFree_ge s a
    have he := endAddr_ge s n (nextFree s a + 1)
    rw [rd_congr c m m' _ (h _ hb (by simp only [endAddr]; omega))]
    rw [ih (nextFree s a + 1) (fun x h1 h2 => h x (by omega) (by simpa [endAddr] using h2))]

theorem place_spec (c : Cfg) (s : Skip) (ds : Bytes) (m : Bytes) (a : Nat)
    (hfit : endAddr s ds.length a ≤ m.length) :
    ∃ m', place c s m a ds = .ok (m', endAddr s ds.length a) ∧ m'.length = m.length
      ∧ (∀ x, (x < a ∨ inSkip s x = true ∨ endAddr s ds.length a ≤ x) → m'[x]? = m[x]?)
      ∧ fetch (rd c m') s ds.length a = .ok ds := by
  induction ds generalizing m a with
  | nil => exact ⟨m, by simp [place, endAddr], rfl, fun _ _ => rfl, by simp [fetch]⟩
  | cons d ds ih =>
    simp only [List.length_cons, endAddr] at hfit ⊢
    have hb := nextFree_ge s a
    have he := endAddr_ge s ds.length (nextFree s a + 1)
    have hlt : nextFree s a < m.length := by omega
    obtain ⟨m', hp, hl, hsame, hf⟩ := ih (m.set (nextFree s a) d) (nextFree s a + 1) (by simpa using hfit)
    refine ⟨m', ?_, by simpa using hl, ?_, ?_⟩
    · simp only [place, wr_ok c m _ d hlt, Py.bind_ok, hp]
    · intro x hx
      have hne : nextFree s a ≠ x := by
        rcases hx with hx | hx | hx
        · omega
        · intro e; rw [← e, nextFree_not_skip] at hx; cases hx
        · omega
      have hx' : x < nextFree s a + 1 ∨ inSkip s x = true ∨ endAddr s ds.length (nextFree s a + 1) ≤ x := by
        rcases hx with hx | hx | hx
        · exact Or.inl (by omega)
        · exact Or.inr (Or.inl hx)
        · exact Or.inr (Or.inr hx)
      rw [hsame x hx']
      exact get_set_ne m _ d x hne
    · simp only [fetch]
      have : m'[nextFree s a]? = some d := by
        rw [hsame _ (Or.inl (Nat.lt_succ_self _))]; exact get_set_eq m _ d hlt
      rw [(rd_ok_iff c m' _ d).2 this, Py.bind_ok, hf]; rfl

/-! ### reads restricted below a bound; monotonicity of the reader in the read function -/
def RdLe (r r' : Rd) : Prop := ∀ a v, r a = .ok v → r' a = .ok v

theorem rdB_le (c : Cfg) (B : Nat) (m : Bytes) : RdLe (rdB c B m) (rd c m) := by
  intro a v h; unfold rdB at h; split at h
  · exact h
  · cases h

theorem rdB_congr (c : Cfg) (B : Nat) (m m' : Bytes) (h : ∀ x, x < B → m'[x]? = m[x]?) :
    rdB c B m' = rdB c B m := by
  funext a; unfold rdB; split
  · rename_i hl; exact rd_congr c m m' a (h a hl)
  · rfl

theorem readLen_mono {r r' : Rd} (h : RdLe r r') (a : Nat) (x : Nat × Nat) (hx : readLen r a = .ok x) :
    readLen r' a = .ok x := by
  unfold readLen at hx ⊢
  obtain ⟨l, hl, hx⟩ := Py.bind_eq_ok.1 hx
  rw [h _ _ hl, Py.bind_ok]
  split at hx
  · rename_i h255
    obtain ⟨hi, hhi, hx⟩ := Py.bind_eq_ok.1 hx
    obtain ⟨lo, hlo, hx⟩ := Py.bind_eq_ok.1 hx
    rw [if_pos h255, h _ _ hhi, Py.bind_ok, h _ _ hlo, Py.bind_ok]; exact hx
  · rename_i h255; rw [if_neg h255]; exact hx

theorem fetch_mono {r r' : Rd} (h : RdLe r r') (s : Skip) (n a : Nat) (x : Bytes) (hx : fetch r s n a = .ok x) :
    fetch r' s n a = .ok x := by
  induction n generalizing a x with
  | zero => simpa [fetch] using hx
  | succ n ih =>
    simp only [fetch] at hx ⊢
    obtain ⟨b, hb, hx⟩ := Py.bind_eq_ok.1 hx
    obtain ⟨xs, hxs, hx⟩ := Py.bind_eq_ok.1 hx
    rw [h _ _ hb, Py.bind_ok, ih _ _ hxs, Py.bind_ok]; exact hx

theorem walkPre_mono (c : Cfg) {r r' : Rd} (h : RdLe r r') (e : Nat) (fuel off : Nat) (skip : Skip)
    (o : Nat) (sk : Skip) (hx : walkPre c r e fuel off skip = .ok (.found o sk)) :
    walkPre c r' e fuel off skip = .ok (.found o sk) := by
  induction fuel generalizing off skip with
  | zero => simp [walkPre] at hx
  | succ fuel ih =>
    simp only [walkPre] at hx ⊢
    split
    · rename_i h1; rw [if_pos h1] at hx; exact hx
    · rename_i h1; rw [if_neg h1] at hx
      split
      · rename_i h2; rw [if_pos h2] at hx; exact ih _ _ hx
      · rename_i h2; rw [if_neg h2] at hx
        generalize ho : (if c.t1 = true then off else nextFree skip off) = oo at hx ⊢
        cases hr : r oo with
        | error ex =>
          rw [hr] at hx; simp only at hx
          split at hx <;> cases hx
        | ok t =>
          rw [hr] at hx; simp only at hx
          rw [h _ _ hr]; simp only
          split
          · rename_i h3; rw [if_pos h3] at hx; exact ih _ _ hx
          · rename_i h3; rw [if_neg h3] at hx
            split
            · rename_i h4; rw [if_pos h4] at hx; exact hx
            · rename_i h4; rw [if_neg h4] at hx
              split
              · rename_i h5; rw [if_pos h5] at hx; exact hx
              · rename_i h5; rw [if_neg h5] at hx
                obtain ⟨lv, hlv, hx⟩ := Py.bind_eq_ok.1 hx
                obtain ⟨v, hv, hx⟩ := Py.bind_eq_ok.1 hx
                rw [readLen_mono h _ _ hlv, Py.bind_ok, fetch_mono h _ _ _ _ hv, Py.bind_ok]
                split
                · rename_i h6; rw [if_pos h6] at hx
                  split
                  · rename_i h7; rw [if_pos h7] at hx
                    obtain ⟨rg, hrg, hx⟩ := Py.bind_eq_ok.1 hx
                    rw [hrg, Py.bind_ok]; exact ih _ _ hx
                  · rename_i h7; rw [if_neg h7] at hx; exact ih _ _ hx
                · rename_i h6; rw [if_neg h6] at hx; exact ih _ _ hx


/-! ### what `_read_ndef_data` returning `L` means -/
structure ReadsAs (c : Cfg) (m : Bytes) (L : Layout) : Prop where
  magic : rd c m c.ccBase = .ok 0xE1
  ver : ∃ v, rd c m (c.ccBase + 1) = .ok v ∧ v / 16 = 1
  acc : ∃ a, rd c m (c.ccBase + 3) = .ok a ∧ L.readable = decide (a / 16 = 0) ∧ L.writeable = decide (a % 16 = 0)
  size : ∃ sz, rd c m (c.ccBase + 2) = .ok sz ∧ L.areaEnd = c.areaEnd sz
  pre : walkPre c (rd c m) L.areaEnd (L.areaEnd + 1) c.dataStart (c.initSkip L.areaEnd) = .ok (.found L.off L.skip)
  value : ∃ lv, readLen (rd c m) (L.off + 1) = .ok lv ∧ fetch (rd c m) L.skip lv.1 lv.2 = .ok L.ndef
  cap : L.cap = capacity L.skip L.off L.areaEnd

theorem readNdefRaw_iff (c : Cfg) (m : Bytes) (L : Layout) :
    readNdefRaw c m = .ok (some L) ↔ ReadsAs c m L := by
  constructor
  · intro h
    unfold readNdefRaw at h
    obtain ⟨magic, hmagic, h⟩ := Py.bind_eq_ok.1 h
    split at h
    · cases h
    rename_i hm
    obtain ⟨ver, hver, h⟩ := Py.bind_eq_ok.1 h
    split at h
    · cases h
    rename_i hv
    obtain ⟨acc, hacc, h⟩ := Py.bind_eq_ok.1 h
    obtain ⟨sz, hsz, h⟩ := Py.bind_eq_ok.1 h
    obtain ⟨p, hp, h⟩ := Py.bind_eq_ok.1 h
    cases p with
    | absent o s => cases h
    | found off skip =>
      simp only at h
      obtain ⟨lv, hlv, h⟩ := Py.bind_eq_ok.1 h
      obtain ⟨v, hv', h⟩ := Py.bind_eq_ok.1 h
      injection h with h; injection h with h; subst h
      simp only [Decidable.not_not] at hm hv
      exact ⟨by rw [hmagic, hm], ⟨ver, hver, hv⟩, ⟨acc, hacc, rfl, rfl⟩, ⟨sz, hsz, rfl⟩, hp, ⟨lv, hlv, hv'⟩, rfl⟩
  · intro ⟨hmagic, ⟨ver, hver, hv⟩, ⟨acc, hacc, hr, hw⟩, ⟨sz, hsz, he⟩, hp, ⟨lv, hlv, hv'⟩, hc⟩
    unfold readNdefRaw
    rw [hmagic, Py.bind_ok, if_neg (by simp), hver, Py.bind_ok, if_neg (by simp [hv]), hacc, Py.bind_ok, hsz, Py.bind_ok]
    simp only
    rw [← he, hp, Py.bind_ok]
    simp only
    rw [hlv, Py.bind_ok, hv', Py.bind_ok]
    cases L; simp_all

theorem readNdef_some (c : Cfg) (m : Bytes) (L : Layout) :
    readNdef c m = .ok (some L) ↔ ReadsAs c m L := by
  rw [← readNdefRaw_iff]
  unfold readNdef
  constructor
  · intro h; split at h
    · split at h <;> cases h
    · exact h
  · intro h; rw [h]


theorem countFree_le (s : Skip) (a b : Nat) : countFree s a b ≤ b - a := cfree_le _ _ _

/-- arithmetic content of `get_capacity`: a message that respects the capacity fits with its header -/
theorem cap_fits (s : Skip) (off e n : Nat) (h : (n : Int) ≤ capacity s off e) :
    n + hdrLen n ≤ countFree s off e := by
  have hc : capacity s off e = if countFree s off e > 256 then (countFree s off e : Int) - 4
      else (countFree s off e : Int) - 2 := rfl
  rw [hc] at h
  unfold hdrLen
  split at h <;> split <;> omega

theorem endAddr_le_area (s : Skip) (off e n : Nat) (h : (n : Int) ≤ capacity s off e) :
    off + hdrLen n + n ≤ e ∧ endAddr s n (off + hdrLen n) ≤ e := by
  have h1 := cap_fits s off e n h
  have h2 := countFree_le s off e
  have hh2 : 2 ≤ hdrLen n := by unfold hdrLen; split <;> omega
  have hh : hdrLen n ≤ e - off := by omega
  refine ⟨by omega, ?_⟩
  have hs := cfree_split s off (hdrLen n) (e - off - hdrLen n)
  have h3 := cfree_le s off (hdrLen n)
  have e1 : hdrLen n + (e - off - hdrLen n) = e - off := by omega
  rw [e1] at hs
  unfold countFree at h1
  have := endAddr_le_of_cfree s n (off + hdrLen n) (e - off - hdrLen n) (by omega)
  omega

/-- the image after the preparation step `phase3a`, as a pure function -/
def pre3 (u : Nat) (m2 : Bytes) (off n : Nat) : Bytes :=
  if n < 255 then m2
  else if (off + 1) / u ≠ (off + 2) / u ∧ (off + 2) / u = (off + 3) / u then (m2.set (off + 2) 0).set (off + 3) 0
  else
    let x := if (off + 2) / u ≠ (off + 1) / u then m2.set (off + 2) (n / 256) else m2
    if (off + 3) / u ≠ (off + 1) / u then x.set (off + 3) (n % 256) else x

theorem pre3_length (u : Nat) (m2 : Bytes) (off n : Nat) : (pre3 u m2 off n).length = m2.length := by
  unfold pre3; split
  · rfl
  · split
    · simp
    · simp only; split <;> split <;> simp

/-- the preparation step touches only the two extra bytes of the 3-byte length field -/
theorem pre3_get (u : Nat) (m2 : Bytes) (off n x : Nat) (h2 : x ≠ off + 2) (h3 : x ≠ off + 3) :
    (pre3 u m2 off n)[x]? = m2[x]? := by
  unfold pre3; split
  · rfl
  · split
    · rw [get_set_ne _ _ _ _ (fun e => h3 e.symm), get_set_ne _ _ _ _ (fun e => h2 e.symm)]
    · simp only; split <;> split <;>
        simp only [get_set_ne _ _ _ _ (fun e => h3 e.symm), get_set_ne _ _ _ _ (fun e => h2 e.symm)]

/-- the final length field overwrites whatever the preparation step stored -/
theorem final_over_pre3 (u : Nat) (m2 : Bytes) (off n : Nat) (a b c : Nat) :
    (((pre3 u m2 off n).set (off + 1) a).set (off + 2) b).set (off + 3) c
      = ((m2.set (off + 1) a).set (off + 2) b).set (off + 3) c := by
  apply List.ext_getElem?
  intro x
  simp only [List.getElem?_set, List.length_set, pre3_length]
  by_cases h3 : off + 3 = x
  · simp [h3]
  · by_cases h2 : off + 2 = x
    · simp [h2, h3]
    · by_cases h1 : off + 1 = x
      · simp [h1, h2, h3]
      · simp only [if_neg h3, if_neg h2, if_neg h1]
        exact pre3_get u m2 off n x (Ne.symm h2) (Ne.symm h3)

theorem phase3a_ok (c : Cfg) (m2 : Bytes) (off n : Nat) (h : 255 ≤ n → off + 3 < m2.length) :
    phase3a c m2 off n = .ok (pre3 c.unit m2 off n) := by
  unfold phase3a pre3
  split
  · rfl
  · rename_i hn
    have hl := h (by omega)
    split
    · rw [wr_ok c m2 _ _ (by omega), Py.bind_ok, wr_ok c _ _ _ (by simp; omega)]
    · split
      · rw [wr_ok c m2 _ _ (by omega), Py.bind_ok]
        simp only
        split
        · rw [wr_ok c _ _ _ (by simp; omega)]
        · rfl
      · rw [Py.bind_ok]
        simp only
        split
        · rw [wr_ok c _ _ _ (by omega)]
        · rfl

/-- everything later proofs need to know about the three images of a write -/
structure WriteSpec (c : Cfg) (m : Bytes) (L : Layout) (data : Bytes) (m1 m2 m3a m3 : Bytes) : Prop where
  p1 : phase1 c m L.off = .ok m1
  p2 : phase2 c m1 L.off L.skip L.areaEnd data = .ok m2
  p3a : phase3a c m2 L.off data.length = .ok m3a
  p3 : phase3 c m3a L.off data.length = .ok m3
  m3a_eq : m3a = pre3 c.unit m2 L.off data.length
  m1_eq : m1 = m.set (L.off + 1) 0
  len2 : m2.length = m.length
  /-- phase 2 changes only free bytes of the area behind the length field -/
  m2_same : ∀ x, m2[x]? ≠ m1[x]? → L.off + hdrLen data.length ≤ x ∧ x < L.areaEnd ∧ inSkip L.skip x = false
  m2_val : fetch (rd c m2) L.skip data.length (L.off + hdrLen data.length) = .ok data
  m3_eq : m3 = if data.length < 255 then m2.set (L.off + 1) data.length
               else ((m2.set (L.off + 1) 0xFF).set (L.off + 2) (data.length / 256)).set (L.off + 3) (data.length % 256)
  fits : L.off + hdrLen data.length + data.length ≤ L.areaEnd
  endv : endAddr L.skip data.length (L.off + hdrLen data.length) ≤ L.areaEnd
  area : L.areaEnd ≤ m.length

theorem write_spec (c : Cfg) (m : Bytes) (L : Layout) (data : Bytes)
    (hcapEq : L.cap = capacity L.skip L.off L.areaEnd) (harea : L.areaEnd ≤ m.length)
    (hcap : (data.length : Int) ≤ L.cap) :
    ∃ m1 m2 m3a m3, WriteSpec c m L data m1 m2 m3a m3 := by
  rw [hcapEq] at hcap
  obtain ⟨hfit, hend⟩ := endAddr_le_area L.skip L.off L.areaEnd data.length hcap
  have hh2 : 2 ≤ hdrLen data.length := by unfold hdrLen; split <;> omega
  have l1 : (m.set (L.off + 1) 0).length = m.length := by simp
  obtain ⟨m2', hp, hl2, hsame, hf⟩ := place_spec c L.skip data (m.set (L.off + 1) 0) (L.off + hdrLen data.length)
    (by rw [l1]; omega)
  -- terminator
  have hphase2 : ∃ m2, phase2 c (m.set (L.off + 1) 0) L.off L.skip L.areaEnd data = .ok m2 ∧ m2.length = m.length ∧
      (∀ x, m2[x]? ≠ (m.set (L.off + 1) 0)[x]? → L.off + hdrLen data.length ≤ x ∧ x < L.areaEnd ∧ inSkip L.skip x = false) ∧
      fetch (rd c m2) L.skip data.length (L.off + hdrLen data.length) = .ok data := by
    have hchg : ∀ x, m2'[x]? ≠ (m.set (L.off + 1) 0)[x]? →
        L.off + hdrLen data.length ≤ x ∧ x < L.areaEnd ∧ inSkip L.skip x = false := by
      intro x hx
      have h1 : ¬ x < L.off + hdrLen data.length := fun h => hx (hsame x (Or.inl h))
      have h2 : ¬ inSkip L.skip x = true := fun h => hx (hsame x (Or.inr (Or.inl h)))
      have h3 : ¬ endAddr L.skip data.length (L.off + hdrLen data.length) ≤ x := fun h => hx (hsame x (Or.inr (Or.inr h)))
      refine ⟨by omega, by omega, by simpa using h2⟩
    unfold phase2
    rw [hp, Py.bind_ok]
    simp only
    split
    · rename_i ht
      have htge := nextFree_ge L.skip (endAddr L.skip data.length (L.off + hdrLen data.length))
      have hege := endAddr_ge L.skip data.length (L.off + hdrLen data.length)
      rw [wr_ok c m2' _ _ (by rw [hl2, l1]; omega)]
      refine ⟨_, rfl, by simp [hl2], ?_, ?_⟩
      · intro x hx
        by_cases hxt : nextFree L.skip (endAddr L.skip data.length (L.off + hdrLen data.length)) = x
        · subst hxt
          exact ⟨by omega, ht, nextFree_not_skip _ _⟩
        · rw [get_set_ne _ _ _ _ hxt] at hx; exact hchg x hx
      · rw [fetch_congr c L.skip m2' _ _ _ (fun x h1 h2 => get_set_ne _ _ _ _ (by omega))]; exact hf
    · exact ⟨m2', rfl, by rw [hl2, l1], hchg, hf⟩
  obtain ⟨m2, hp2, hlen2, hm2same, hm2val⟩ := hphase2
  have hp1 : phase1 c m L.off = .ok (m.set (L.off + 1) 0) := wr_ok c m _ _ (by omega)
  have hp3a : phase3a c m2 L.off data.length = .ok (pre3 c.unit m2 L.off data.length) :=
    phase3a_ok c m2 L.off data.length (fun h => by
      have h4 : hdrLen data.length = 4 := by unfold hdrLen; rw [if_neg (by omega)]
      omega)
  have hl3a := pre3_length c.unit m2 L.off data.length
  by_cases hn : data.length < 255
  · have hpre : pre3 c.unit m2 L.off data.length = m2 := by unfold pre3; rw [if_pos hn]
    refine ⟨_, m2, _, m2.set (L.off + 1) data.length, hp1, hp2, hp3a, ?_, rfl, rfl, hlen2, hm2same, hm2val,
      by simp [hn], hfit, hend, harea⟩
    rw [hpre]; unfold phase3; rw [if_pos hn]; exact wr_ok c m2 _ _ (by omega)
  · have h4 : hdrLen data.length = 4 := by unfold hdrLen; simp [hn]
    refine ⟨_, m2, _, ((m2.set (L.off + 1) 0xFF).set (L.off + 2) (data.length / 256)).set (L.off + 3) (data.length % 256),
      hp1, hp2, hp3a, ?_, rfl, rfl, hlen2, hm2same, hm2val, by simp [hn], hfit, hend, harea⟩
    unfold phase3; rw [if_neg hn]
    rw [wr_ok c _ _ _ (by omega), Py.bind_ok, wr_ok c _ _ _ (by simp; omega), Py.bind_ok,
      wr_ok c _ _ _ (by simp; omega), final_over_pre3]


theorem WriteSpec.len1 {c m L data m1 m2 m3a m3} (w : WriteSpec c m L data m1 m2 m3a m3) : m1.length = m.length := by
  rw [w.m1_eq]; simp

theorem WriteSpec.len3 {c m L data m1 m2 m3a m3} (w : WriteSpec c m L data m1 m2 m3a m3) : m3.length = m.length := by
  rw [w.m3_eq, ← w.len2]; split <;> simp

theorem hdrLen_ge (n : Nat) : 2 ≤ hdrLen n := by unfold hdrLen; split <;> omega

/-- phase 2 leaves everything in front of the value untouched -/
theorem WriteSpec.m2_below {c m L data m1 m2 m3a m3} (w : WriteSpec c m L data m1 m2 m3a m3) (x : Nat)
    (h : x < L.off + hdrLen data.length) : m2[x]? = m1[x]? := by
  by_cases hx : m2[x]? = m1[x]?
  · exact hx
  · have := w.m2_same x hx; omega

/-- the final image differs from phase 2 only inside the length field -/
theorem WriteSpec.m3_out {c m L data m1 m2 m3a m3} (w : WriteSpec c m L data m1 m2 m3a m3) (x : Nat)
    (h : x < L.off + 1 ∨ L.off + hdrLen data.length ≤ x) : m3[x]? = m2[x]? := by
  rw [w.m3_eq]
  split
  · rename_i hn
    have : hdrLen data.length = 2 := by unfold hdrLen; simp [hn]
    exact get_set_ne _ _ _ _ (by omega)
  · rename_i hn
    have : hdrLen data.length = 4 := by unfold hdrLen; simp [hn]
    rw [get_set_ne _ _ _ _ (by omega), get_set_ne _ _ _ _ (by omega), get_set_ne _ _ _ _ (by omega)]

theorem WriteSpec.below {c m L data m1 m2 m3a m3} (w : WriteSpec c m L data m1 m2 m3a m3) (x : Nat) (h : x < L.off + 1) :
    m1[x]? = m[x]? ∧ m2[x]? = m[x]? ∧ m3[x]? = m[x]? := by
  have h1 : m1[x]? = m[x]? := by rw [w.m1_eq]; exact get_set_ne _ _ _ _ (by omega)
  have hh := hdrLen_ge data.length
  have h2 : m2[x]? = m[x]? := by rw [w.m2_below x (by omega), h1]
  exact ⟨h1, h2, by rw [w.m3_out x (Or.inl h), h2]⟩

/-- the header of the walk (everything in front of the NDEF TLV's length field) is stable
under changes behind it -/
theorem pre_stable (c : Cfg) (m m' : Bytes) (L : Layout) (hwf : WF c m L)
    (h : ∀ x, x < L.off + 1 → m'[x]? = m[x]?) :
    walkPre c (rd c m') L.areaEnd (L.areaEnd + 1) c.dataStart (c.initSkip L.areaEnd) = .ok (.found L.off L.skip) := by
  obtain ⟨_, _, _, _, hdr, _⟩ := hwf
  rw [← rdB_congr c (L.off + 1) m m' h] at hdr
  exact walkPre_mono c (rdB_le c _ m') _ _ _ _ _ _ hdr

theorem readLen_written {c m L data m1 m2 m3a m3} (w : WriteSpec c m L data m1 m2 m3a m3) :
    readLen (rd c m3) (L.off + 1) = .ok (data.length, L.off + hdrLen data.length) := by
  have hfit := w.fits
  have hl2 := w.len2
  have har := w.area
  unfold readLen
  by_cases hn : data.length < 255
  · have h2 : hdrLen data.length = 2 := by unfold hdrLen; simp [hn]
    have : m3[L.off + 1]? = some data.length := by
      rw [w.m3_eq, if_pos hn]; exact get_set_eq _ _ _ (by omega)
    rw [(rd_ok_iff c m3 _ _).2 this, Py.bind_ok, if_neg (by omega), h2]
  · have h4 : hdrLen data.length = 4 := by unfold hdrLen; simp [hn]
    have e1 : m3[L.off + 1]? = some 255 := by
      rw [w.m3_eq, if_neg hn, get_set_ne _ _ _ _ (by omega), get_set_ne _ _ _ _ (by omega)]
      exact get_set_eq _ _ _ (by omega)
    have e2 : m3[L.off + 1 + 1]? = some (data.length / 256) := by
      rw [w.m3_eq, if_neg hn, get_set_ne _ _ _ _ (by omega)]
      exact get_set_eq _ _ _ (by simp; omega)
    have e3 : m3[L.off + 1 + 2]? = some (data.length % 256) := by
      rw [w.m3_eq, if_neg hn]
      exact get_set_eq _ _ _ (by simp; omega)
    rw [(rd_ok_iff c m3 _ _).2 e1, Py.bind_ok, if_pos rfl, (rd_ok_iff c m3 _ _).2 e2, Py.bind_ok,
      (rd_ok_iff c m3 _ _).2 e3, Py.bind_ok, h4]
    have := Nat.div_add_mod data.length 256
    congr 2 <;> omega

theorem roundtrip (c : Cfg) (m : Bytes) (L : Layout) (data : Bytes)
    (hr : ReadsAs c m L) (hwf : WF c m L) (hcap : (data.length : Int) ≤ L.cap) :
    ∃ m1 m2 m3a m3, WriteSpec c m L data m1 m2 m3a m3 ∧ ReadsAs c m3 { L with ndef := data } := by
  obtain ⟨m1, m2, m3a, m3, w⟩ := write_spec c m L data hr.cap hwf.2.2.2.1 hcap
  refine ⟨m1, m2, m3a, m3, w, ?_⟩
  have hcc := hwf.1
  have hst := hwf.2.2.1
  have hb : ∀ x, x < L.off + 1 → m3[x]? = m[x]? := fun x hx => (w.below x hx).2.2
  have hrd : ∀ x, x < L.off + 1 → rd c m3 x = rd c m x := fun x hx => rd_congr c m m3 x (hb x hx)
  refine ⟨by rw [hrd _ (by omega)]; exact hr.magic, ?_, ?_, ?_, pre_stable c m m3 L hwf hb, ?_, hr.cap⟩
  · rw [hrd _ (by omega)]; exact hr.ver
  · rw [hrd _ (by omega)]; exact hr.acc
  · rw [hrd _ (by omega)]; exact hr.size
  · have hrl := readLen_written w
    refine ⟨(data.length, L.off + hdrLen data.length), hrl, ?_⟩
    show fetch (rd c m3) L.skip data.length (L.off + hdrLen data.length) = .ok data
    rw [fetch_congr c L.skip m2 m3 _ _ (fun x h1 _ => w.m3_out x (Or.inr h1))]
    exact w.m2_val

end NfcVerif.Tlv
