import NfcVerif.Model.Tlv
namespace NfcVerif.Tlv
open NfcVerif

/-! ### skip set, nextFree -/
theorem nf_ge (s : Skip) (f a : Nat) : a ≤ nf s f a := by
  induction f generalizing a with
  | zero => simp [nf]
  | succ f ih =>
    simp only [nf]; split
    · have := ih (a+1); omega
    · omega

theorem inSkip_lt_skipMax (s : Skip) (a : Nat) (h : inSkip s a = true) : a < skipMax s := by
  induction s with
  | nil => simp [inSkip] at h
  | cons r rs ih =>
    simp only [inSkip, List.any_cons, Bool.or_eq_true, Bool.and_eq_true, decide_eq_true_eq] at h
    simp only [skipMax]
    rcases h with h | h
    · omega
    · have := ih (by simpa [inSkip] using h); omega

theorem nf_not_skip (s : Skip) (f a : Nat) (h : skipMax s - a ≤ f) : inSkip s (nf s f a) = false := by
  induction f generalizing a with
  | zero =>
    simp only [nf]
    cases hs : inSkip s a with
    | false => rfl
    | true => have := inSkip_lt_skipMax s a hs; omega
  | succ f ih =>
    simp only [nf]; split
    · exact ih (a+1) (by omega)
    · rename_i hn; simpa using hn

theorem nf_between (s : Skip) (f a x : Nat) (h1 : a ≤ x) (h2 : x < nf s f a) : inSkip s x = true := by
  induction f generalizing a with
  | zero => simp [nf] at h2; omega
  | succ f ih =>
    simp only [nf] at h2; split at h2
    · rename_i hs
      by_cases hx : x = a
      · subst hx; exact hs
      · exact ih (a+1) (by omega) h2
    · omega

theorem nextFree_ge (s : Skip) (a : Nat) : a ≤ nextFree s a := nf_ge _ _ _
theorem nextFree_not_skip (s : Skip) (a : Nat) : inSkip s (nextFree s a) = false := nf_not_skip _ _ _ (Nat.le_refl _)
theorem nextFree_between (s : Skip) (a x : Nat) (h1 : a ≤ x) (h2 : x < nextFree s a) : inSkip s x = true :=
  nf_between _ _ _ _ h1 h2
theorem nextFree_eq_self (s : Skip) (a : Nat) (h : inSkip s a = false) : nextFree s a = a := by
  have h1 := nextFree_ge s a
  by_cases h2 : a < nextFree s a
  · have := nextFree_between s a a (Nat.le_refl _) h2; simp [h] at this
  · omega

/-- address after `n` value bytes placed from `a` -/
def endAddr (s : Skip) : Nat → Nat → Nat
  | 0, a => a
  | n+1, a => endAddr s n (nextFree s a + 1)

theorem endAddr_ge (s : Skip) (n a : Nat) : a + n ≤ endAddr s n a := by
  induction n generalizing a with
  | zero => simp [endAddr]
  | succ n ih =>
    simp only [endAddr]
    have := ih (nextFree s a + 1); have := nextFree_ge s a; omega

theorem cfree_le (s : Skip) (a k : Nat) : cfree s a k ≤ k := by
  induction k generalizing a with
  | zero => simp [cfree]
  | succ k ih => simp only [cfree]; have := ih (a+1); split <;> omega

/-- if `n+1` free addresses exist in `[a, a+k)` the next free address lies inside and `n` remain behind it -/
theorem nf_cfree (s : Skip) (n : Nat) (f a k : Nat) (h : n + 1 ≤ cfree s a k)
    (hf : inSkip s (nf s f a) = false) :
    nf s f a < a + k ∧ n ≤ cfree s (nf s f a + 1) (a + k - (nf s f a + 1)) := by
  induction f generalizing a k with
  | zero =>
    simp only [nf] at hf ⊢
    cases k with
    | zero => simp [cfree] at h
    | succ k =>
      simp only [cfree, hf] at h
      refine ⟨by omega, ?_⟩
      have : a + (k+1) - (a+1) = k := by omega
      rw [this]; simp at h; omega
  | succ f ih =>
    cases k with
    | zero => simp [cfree] at h
    | succ k =>
      simp only [nf] at hf ⊢
      split
      · rename_i hs
        rw [if_pos hs] at hf
        simp only [cfree, hs, if_true] at h
        have := ih (a+1) k (by omega) hf
        have e : a + 1 + k = a + (k+1) := by omega
        rw [e] at this; exact this
      · rename_i hs
        rw [if_neg hs] at hf
        simp only [cfree, hf] at h
        refine ⟨by omega, ?_⟩
        have : a + (k+1) - (a+1) = k := by omega
        rw [this]; simp at h; omega

theorem endAddr_le_of_cfree (s : Skip) (n a k : Nat) (h : n ≤ cfree s a k) : endAddr s n a ≤ a + k := by
  induction n generalizing a k with
  | zero => simp [endAddr]
  | succ n ih =>
    simp only [endAddr]
    have := nf_cfree s n (skipMax s - a) a k h (nextFree_not_skip s a)
    have h2 := ih (nextFree s a + 1) (a + k - (nextFree s a + 1)) this.2
    have h3 : nextFree s a < a + k := this.1
    omega

theorem cfree_split (s : Skip) (a j k : Nat) : cfree s a (j + k) = cfree s a j + cfree s (a + j) k := by
  induction j generalizing a with
  | zero => simp [cfree]
  | succ j ih =>
    have : j + 1 + k = (j + k) + 1 := by omega
    rw [this]; simp only [cfree]
    rw [ih (a+1)]
    have : a + 1 + j = a + (j + 1) := by omega
    rw [this]; omega


/-! ### memory -/
theorem rd_ok_iff (c : Cfg) (m : Bytes) (a v : Nat) : rd c m a = .ok v ↔ m[a]? = some v := by
  unfold rd; split <;> simp_all

theorem rd_congr (c : Cfg) (m m' : Bytes) (a : Nat) (h : m'[a]? = m[a]?) : rd c m' a = rd c m a := by
  unfold rd; rw [h]

theorem rd_of_lt (c : Cfg) (m : Bytes) (a : Nat) (h : a < m.length) : rd c m a = .ok m[a] := by
  unfold rd; simp [h]

theorem wr_ok (c : Cfg) (m : Bytes) (a v : Nat) (h : a < m.length) : wr c m a v = .ok (m.set a v) := by
  simp [wr, h]

theorem wr_inv (c : Cfg) (m m' : Bytes) (a v : Nat) (h : wr c m a v = .ok m') : a < m.length ∧ m' = m.set a v := by
  unfold wr at h; split at h
  · rename_i hl; cases h; exact ⟨hl, rfl⟩
  · cases h

theorem get_set_ne (m : Bytes) (a v x : Nat) (h : a ≠ x) : (m.set a v)[x]? = m[x]? := by
  simp [h]

theorem get_set_eq (m : Bytes) (a v : Nat) (h : a < m.length) : (m.set a v)[a]? = some v := by
  simp [h]

/-! ### fetch / place -/
theorem fetch_congr (c : Cfg) (s : Skip) (m m' : Bytes) (n a : Nat)
    (h : ∀ x, a ≤ x → x < endAddr s n a → m'[x]? = m[x]?) :
    fetch (rd c m') s n a = fetch (rd c m) s n a := by
  induction n generalizing a with
  | zero => simp [fetch]
  | succ n ih =>
    simp only [fetch]
    have hb := nextFree_ge s a
    have he := endAddr_ge s n (nextFree s a + 1)
    rw [rd_congr c m m' _ (h _ hb (by simp only [endAddr]; omega))]
    rw [ih (nextFree s a + 1) (fun x h1 h2 => h x (by omega) (by simpa [endAddr] using h2))]

theorem place_spec (c : Cfg) (s : Skip) (ds : Bytes) (m : Bytes) (a : Nat)
    (hfit : endAddr s ds.length a ≤ m.length) :
    ∃ m', place c s m a ds = .ok (m', endAddr s ds.length a) ∧ m'.length = m.length
      ∧ (∀ x, (x < a ∨ inSkip s x = true ∨ endAddr s ds.length a ≤ x) → m'[x]? = m[x]?)
      ∧ fetch (rd c m') s ds.length a = .ok ds := by
  induction ds generalizing m a with
  | nil => exact ⟨m, by simp [place, endAddr], rfl, fun _ _ => rfl, by simp [fetch]⟩
  | cons d ds ih =>
    simp only [List.length_cons, endAddr] at hfit ⊢
    have hb := nextFree_ge s a
    have he := endAddr_ge s ds.length (nextFree s a + 1)
    have hlt : nextFree s a < m.length := by omega
    obtain ⟨m', hp, hl, hsame, hf⟩ := ih (m.set (nextFree s a) d) (nextFree s a + 1) (by simpa using hfit)
    refine ⟨m', ?_, by simpa using hl, ?_, ?_⟩
    · simp only [place, wr_ok c m _ d hlt, Py.bind_ok, hp]
    · intro x hx
      have hne : nextFree s a ≠ x := by
        rcases hx with hx | hx | hx
        · omega
        · intro e; rw [← e, nextFree_not_skip] at hx; cases hx
        · omega
      have hx' : x < nextFree s a + 1 ∨ inSkip s x = true ∨ endAddr s ds.length (nextFree s a + 1) ≤ x := by
        rcases hx with hx | hx | hx
        · exact Or.inl (by omega)
        · exact Or.inr (Or.inl hx)
        · exact Or.inr (Or.inr hx)
      rw [hsame x hx']
      exact get_set_ne m _ d x hne
    · simp only [fetch]
      have : m'[nextFree s a]? = some d := by
        rw [hsame _ (Or.inl (Nat.lt_succ_self _))]; exact get_set_eq m _ d hlt
      rw [(rd_ok_iff c m' _ d).2 this, Py.bind_ok, hf]; rfl

/-! ### reads restricted below a bound; monotonicity of the reader in the read function -/
def RdLe (r r' : Rd) : Prop := ∀ a v, r a = .ok v → r' a = .ok v

theorem rdB_le (c : Cfg) (B : Nat) (m : Bytes) : RdLe (rdB c B m) (rd c m) := by
  intro a v h; unfold rdB at h; split at h
  · exact h
  · cases h

theorem rdB_congr (c : Cfg) (B : Nat) (m m' : Bytes) (h : ∀ x, x < B → m'[x]? = m[x]?) :
    rdB c B m' = rdB c B m := by
  funext a; unfold rdB; split
  · rename_i hl; exact rd_congr c m m' a (h a hl)
  · rfl

theorem readLen_mono {r r' : Rd} (h : RdLe r r') (a : Nat) (x : Nat × Nat) (hx : readLen r a = .ok x) :
    readLen r' a = .ok x := by
  unfold readLen at hx ⊢
  obtain ⟨l, hl, hx⟩ := Py.bind_eq_ok.1 hx
  rw [h _ _ hl, Py.bind_ok]
  split at hx
  · rename_i h255
    obtain ⟨hi, hhi, hx⟩ := Py.bind_eq_ok.1 hx
    obtain ⟨lo, hlo, hx⟩ := Py.bind_eq_ok.1 hx
    rw [if_pos h255, h _ _ hhi, Py.bind_ok, h _ _ hlo, Py.bind_ok]; exact hx
  · rename_i h255; rw [if_neg h255]; exact hx

theorem fetch_mono {r r' : Rd} (h : RdLe r r') (s : Skip) (n a : Nat) (x : Bytes) (hx : fetch r s n a = .ok x) :
    fetch r' s n a = .ok x := by
  induction n generalizing a x with
  | zero => simpa [fetch] using hx
  | succ n ih =>
    simp only [fetch] at hx ⊢
    obtain ⟨b, hb, hx⟩ := Py.bind_eq_ok.1 hx
    obtain ⟨xs, hxs, hx⟩ := Py.bind_eq_ok.1 hx
    rw [h _ _ hb, Py.bind_ok, ih _ _ hxs, Py.bind_ok]; exact hx

theorem walkPre_mono (c : Cfg) {r r' : Rd} (h : RdLe r r') (e : Nat) (fuel off : Nat) (skip : Skip)
    (o : Nat) (sk : Skip) (hx : walkPre c r e fuel off skip = .ok (.found o sk)) :
    walkPre c r' e fuel off skip = .ok (.found o sk) := by
  induction fuel generalizing off skip with
  | zero => simp [walkPre] at hx
  | succ fuel ih =>
    simp only [walkPre] at hx ⊢
    split
    · rename_i h1; rw [if_pos h1] at hx; exact hx
    · rename_i h1; rw [if_neg h1] at hx
      split
      · rename_i h2; rw [if_pos h2] at hx; exact ih _ _ hx
      · rename_i h2; rw [if_neg h2] at hx
        generalize ho : (if c.t1 = true then off else nextFree skip off) = oo at hx ⊢
        cases hr : r oo with
        | error ex =>
          rw [hr] at hx; simp only at hx
          split at hx <;> cases hx
        | ok t =>
          rw [hr] at hx; simp only at hx
          rw [h _ _ hr]; simp only
          split
          · rename_i h3; rw [if_pos h3] at hx; exact ih _ _ hx
          · rename_i h3; rw [if_neg h3] at hx
            split
            · rename_i h4; rw [if_pos h4] at hx; exact hx
            · rename_i h4; rw [if_neg h4] at hx
              split
              · rename_i h5; rw [if_pos h5] at hx; exact hx
              · rename_i h5; rw [if_neg h5] at hx
                obtain ⟨lv, hlv, hx⟩ := Py.bind_eq_ok.1 hx
                obtain ⟨v, hv, hx⟩ := Py.bind_eq_ok.1 hx
                rw [readLen_mono h _ _ hlv, Py.bind_ok, fetch_mono h _ _ _ _ hv, Py.bind_ok]
                split
                · rename_i h6; rw [if_pos h6] at hx
                  split
                  · rename_i h7; rw [if_pos h7] at hx
                    obtain ⟨rg, hrg, hx⟩ := Py.bind_eq_ok.1 hx
                    rw [hrg, Py.bind_ok]; exact ih _ _ hx
                  · rename_i h7; rw [if_neg h7] at hx; exact ih _ _ hx
                · rename_i h6; rw [if_neg h6] at hx; exact ih _ _ hx

end NfcVerif.Tlv
