import NfcVerif.Model.Lock
/-!
Soundness of the lock-discipline checker (C15).
-/
namespace NfcVerif.Lock

theorem mrun_append (m : Mon) (a b : List Ev) :
    mrun m (a ++ b) = (mrun m a).bind (fun m' => mrun m' b) := by
  induction a generalizing m with
  | nil => simp [mrun]
  | cons e es ih => simp only [List.cons_append, mrun]; cases mstep m e <;> simp [ih]

/-- the monitor state `m` is at least as informed as the abstract state `st` -/
def Le (st : St) (m : Mon) : Prop := m.locked = st.locked ∧ (st.known = true → m.known = true) ∧ m.inDev = false

theorem meet_le {x y r : St} (h : meet x y = some r) :
    x.locked = y.locked ∧ r.locked = x.locked ∧ (r.known = true → x.known = true ∧ y.known = true) := by
  unfold meet at h
  split at h
  · rename_i hl; cases h; simp [hl]
  · cases h

/-- what `chk` guarantees for a loop: an invariant abstract state -/
theorem chk_loop {st r : St} {s : Stmt} (h : chk st (.loop s) = some r) :
    ∃ st1, chk r s = some st1 ∧ st1.locked = r.locked ∧ (r.known = true → st1.known = true)
      ∧ r.locked = st.locked ∧ (r.known = true → st.known = true) := by
  have weak : ∀ st'' , chk ⟨st.locked, false⟩ s = some st'' →
      (if st''.locked = st.locked then some (⟨st.locked, false⟩ : St) else none) = some r →
      ∃ st1, chk r s = some st1 ∧ st1.locked = r.locked ∧ (r.known = true → st1.known = true)
        ∧ r.locked = st.locked ∧ (r.known = true → st.known = true) := by
    intro st'' h1 h2
    split at h2
    · rename_i hl; cases h2
      exact ⟨st'', h1, hl, by simp, rfl, by simp⟩
    · cases h2
  simp only [chk] at h
  split at h
  · rename_i st' h1
    split at h
    · rename_i hc
      cases h
      simp at hc
      refine ⟨st', h1, hc.1, ?_, rfl, fun x => x⟩
      intro hk; rcases hc.2 with h2 | h2
      · simp [hk] at h2
      · exact h2
    · split at h
      · rename_i st'' h2; exact weak st'' h2 h
      · cases h
  · split at h
    · rename_i st'' h2; exact weak st'' h2 h
    · cases h

theorem mrun_cons {m m' : Mon} {e : Ev} (es : List Ev) (h : mstep m e = some m') :
    mrun m (e :: es) = mrun m' es := by rw [mrun, h]

/-- Result of running a checked statement under the monitor. -/
def Post (st st' : St) (s : Stmt) (m : Mon) (tr : List Ev) (c : Bool) : Prop :=
  ∃ m', mrun m tr = some m' ∧ m'.locked = st.locked ∧ m'.inDev = false
    ∧ (c = true → Le st' m') ∧ (assigns s = false → m.locked = true → m.known = true → m'.known = true)

theorem chk_sound (P : List Stmt) (hP : ∀ s ∈ P, entryOk s = true) :
    ∀ s tr c, Runs P s tr c → ∀ st st' m, chk st s = some st' → Le st m → Post st st' s m tr c := by
  intro s tr c hr
  induction hr with
  | @dev n c =>
    intro st st' m h hle
    simp only [chk] at h
    split at h
    · rename_i hc; cases h
      simp at hc
      obtain ⟨hl, hk, hd⟩ := hle
      have hmk := hk hc.2
      refine ⟨m, ?_, hl, hd, fun _ => ⟨hl, hk, hd⟩, fun _ _ h => h⟩
      rcases m with ⟨ml, mk, md⟩
      simp at hl hmk hd
      simp [mrun, mstep, hl, hc.1, hmk, hd]
    · cases h
  | assign =>
    intro st st' m h hle
    simp only [chk] at h
    split at h
    · rename_i hc; cases h
      obtain ⟨hl, hk, hd⟩ := hle
      refine ⟨{ m with known := false }, ?_, hl, hd, fun _ => ⟨by simp [hl, hc], by simp, hd⟩, by simp [assigns]⟩
      simp [mrun, mstep, hl, hc, hd]
    · cases h
  | assignRaise =>
    intro st st' m h hle
    obtain ⟨hl, hk, hd⟩ := hle
    exact ⟨m, rfl, hl, hd, by simp, fun _ _ h => h⟩
  | @withLock s0 tr0 c0 hr ih =>
    intro st st' m h hle
    simp only [chk] at h
    split at h
    · cases h
    rename_i hnl
    split at h
    · rename_i st1 h1
      split at h
      · rename_i hl1
        cases h
        obtain ⟨hl, hk, hd⟩ := hle
        simp at hnl
        have hml : m.locked = false := by rw [hl, hnl]
        obtain ⟨m1, hrun, h1l, h1d, h1c, _⟩ := ih ⟨true, false⟩ st1 ⟨true, false, false⟩ h1 ⟨rfl, by simp, rfl⟩
        refine ⟨⟨false, false, false⟩, ?_, by simp [hnl], rfl, fun _ => ⟨by simp, by simp, rfl⟩, ?_⟩
        · have e1 : mstep m .acq = some ⟨true, false, false⟩ := by simp [mstep, hml]
          have e2 : mstep m1 .rel = some ⟨false, false, false⟩ := by
            have h1l' : m1.locked = true := h1l
            simp [mstep, h1l', h1d]
          show mrun m (Ev.acq :: (tr0 ++ [Ev.rel])) = _
          rw [mrun, e1]
          show mrun _ (tr0 ++ [Ev.rel]) = _
          rw [mrun_append, hrun]
          show mrun m1 [Ev.rel] = _
          rw [mrun, e2]; rfl
        · intro _ hml'
          rw [hml] at hml'; cases hml'
      · cases h
    · cases h
  | @ifT a b tr0 c0 hr ih =>
    intro st st' m h hle
    simp only [chk] at h
    split at h
    · rename_i sa sb ha hb
      obtain ⟨hmeet1, hmeet2, hmeet3⟩ := meet_le h
      obtain ⟨hl, hk, hd⟩ := hle
      have e1 : mstep m (.tst true) = some { m with known := m.locked || m.known } := rfl
      have hle1 : Le ⟨st.locked, st.locked || st.known⟩ { m with known := m.locked || m.known } := by
        refine ⟨hl, ?_, hd⟩
        intro hx; simp at hx ⊢
        rcases hx with hx | hx
        · left; rw [hl]; exact hx
        · right; exact hk hx
      obtain ⟨m1, hrun, h1l, h1d, h1c, h1p⟩ := ih _ sa _ ha hle1
      refine ⟨m1, ?_, h1l, h1d, ?_, ?_⟩
      · rw [mrun_cons _ e1]; exact hrun
      · intro hc
        obtain ⟨x1, x2, x3⟩ := h1c hc
        refine ⟨by rw [x1, hmeet2], fun hx => x2 (hmeet3 hx).1, x3⟩
      · intro hna hml hmk
        simp [assigns] at hna
        exact h1p hna.1 hml (by simp [hmk])
    · cases h
  | @ifF a b tr0 c0 hr ih =>
    intro st st' m h hle
    simp only [chk] at h
    split at h
    · rename_i sa sb ha hb
      obtain ⟨hmeet1, hmeet2, hmeet3⟩ := meet_le h
      have e1 : mstep m (.tst false) = some m := rfl
      obtain ⟨m1, hrun, h1l, h1d, h1c, h1p⟩ := ih _ sb _ hb hle
      refine ⟨m1, ?_, h1l, h1d, ?_, ?_⟩
      · rw [mrun_cons _ e1]; exact hrun
      · intro hc
        obtain ⟨x1, x2, x3⟩ := h1c hc
        refine ⟨by rw [x1, hmeet2, hmeet1], fun hx => x2 (hmeet3 hx).2, x3⟩
      · intro hna hml hmk
        simp [assigns] at hna
        exact h1p hna.2 hml hmk
    · cases h
  | @seqAbort a b ta hr ih =>
    intro st st' m h hle
    simp only [chk] at h
    split at h
    · rename_i st1 ha
      obtain ⟨m1, hrun, h1l, h1d, h1c, h1p⟩ := ih _ st1 _ ha hle
      refine ⟨m1, hrun, h1l, h1d, by simp, ?_⟩
      intro hna hml hmk
      simp [assigns] at hna
      exact h1p hna.1 hml hmk
    · cases h
  | @seq a b ta tb c0 hra hrb iha ihb =>
    intro st st' m h hle
    simp only [chk] at h
    split at h
    · rename_i st1 ha
      obtain ⟨m1, hrun, h1l, h1d, h1c, h1p⟩ := iha _ st1 _ ha hle
      have hle1 := h1c rfl
      obtain ⟨m2, hrun2, h2l, h2d, h2c, h2p⟩ := ihb _ st' _ h hle1
      refine ⟨m2, ?_, ?_, h2d, h2c, ?_⟩
      · rw [mrun_append, hrun]; exact hrun2
      · rw [h2l, ← hle1.1, h1l]
      · intro hna hml hmk
        simp [assigns] at hna
        have := h1p hna.1 hml hmk
        exact h2p hna.2 (by rw [h1l, ← hle.1]; exact hml) this
    · cases h
  | @brL a b t c0 hr ih =>
    intro st st' m h hle
    simp only [chk] at h
    split at h
    · rename_i sa sb ha hb
      obtain ⟨hmeet1, hmeet2, hmeet3⟩ := meet_le h
      obtain ⟨m1, hrun, h1l, h1d, h1c, h1p⟩ := ih _ sa _ ha hle
      refine ⟨m1, hrun, h1l, h1d, ?_, ?_⟩
      · intro hc
        obtain ⟨x1, x2, x3⟩ := h1c hc
        exact ⟨by rw [x1, hmeet2], fun hx => x2 (hmeet3 hx).1, x3⟩
      · intro hna hml hmk
        simp [assigns] at hna
        exact h1p hna.1 hml hmk
    · cases h
  | @brR a b t c0 hr ih =>
    intro st st' m h hle
    simp only [chk] at h
    split at h
    · rename_i sa sb ha hb
      obtain ⟨hmeet1, hmeet2, hmeet3⟩ := meet_le h
      obtain ⟨m1, hrun, h1l, h1d, h1c, h1p⟩ := ih _ sb _ hb hle
      refine ⟨m1, hrun, h1l, h1d, ?_, ?_⟩
      · intro hc
        obtain ⟨x1, x2, x3⟩ := h1c hc
        exact ⟨by rw [x1, hmeet2, hmeet1], fun hx => x2 (hmeet3 hx).2, x3⟩
      · intro hna hml hmk
        simp [assigns] at hna
        exact h1p hna.2 hml hmk
    · cases h
  | @loop0 s0 =>
    intro st st' m h hle
    obtain ⟨st1, hb, hb1, hb2, hr1, hr2⟩ := chk_loop h
    obtain ⟨hl, hk, hd⟩ := hle
    exact ⟨m, rfl, hl, hd, fun _ => ⟨by rw [hl, hr1], fun hx => hk (hr2 hx), hd⟩, fun _ _ h => h⟩
  | @loopAbort s0 t hr ih =>
    intro st st' m h hle
    obtain ⟨st1, hb, hb1, hb2, hr1, hr2⟩ := chk_loop h
    obtain ⟨hl, hk, hd⟩ := hle
    have hle' : Le st' m := ⟨by rw [hl, hr1], fun hx => hk (hr2 hx), hd⟩
    obtain ⟨m1, hrun, h1l, h1d, h1c, h1p⟩ := ih _ st1 _ hb hle'
    exact ⟨m1, hrun, by rw [h1l, hr1], h1d, by simp, fun hna => h1p (by simpa [assigns] using hna)⟩
  | @loopS s0 t u c0 hrs hrl ihs ihl =>
    intro st st' m h hle
    obtain ⟨st1, hb, hb1, hb2, hr1, hr2⟩ := chk_loop h
    obtain ⟨hl, hk, hd⟩ := hle
    have hle' : Le st' m := ⟨by rw [hl, hr1], fun hx => hk (hr2 hx), hd⟩
    obtain ⟨m1, hrun, h1l, h1d, h1c, h1p⟩ := ihs _ st1 _ hb hle'
    obtain ⟨y1, y2, y3⟩ := h1c rfl
    have hle1 : Le st' m1 := ⟨by rw [y1, hb1], fun hx => y2 (hb2 hx), y3⟩
    -- the loop statement checks from its own invariant state
    have hinv : chk st' (.loop s0) = some st' := by
      simp only [chk, hb]
      have : (st1.locked = st'.locked && (!st'.known || st1.known)) = true := by
        simp [hb1]
        cases hk' : st'.known
        · simp
        · simp [hb2 hk']
      simp [this]
    obtain ⟨m2, hrun2, h2l, h2d, h2c, h2p⟩ := ihl _ st' _ hinv hle1
    refine ⟨m2, ?_, by rw [h2l, hr1], h2d, h2c, ?_⟩
    · rw [mrun_append, hrun]; exact hrun2
    · intro hna hml hmk
      have hna' : assigns s0 = false := by simpa [assigns] using hna
      have := h1p hna' hml hmk
      exact h2p hna (by rw [y1, hb1, ← hr1, ← hl] at *; exact hml) this
  | @tryOk a b t hr ih =>
    intro st st' m h hle
    simp only [chk] at h
    split at h
    · rename_i sa sb ha hb
      obtain ⟨hmeet1, hmeet2, hmeet3⟩ := meet_le h
      obtain ⟨m1, hrun, h1l, h1d, h1c, h1p⟩ := ih _ sa _ ha hle
      refine ⟨m1, hrun, h1l, h1d, ?_, ?_⟩
      · intro hc
        obtain ⟨x1, x2, x3⟩ := h1c hc
        exact ⟨by rw [x1, hmeet2], fun hx => x2 (hmeet3 hx).1, x3⟩
      · intro hna hml hmk
        simp [assigns] at hna
        exact h1p hna.1 hml hmk
    · cases h
  | @tryUncaught a b t hr ih =>
    intro st st' m h hle
    simp only [chk] at h
    split at h
    · rename_i sa sb ha hb
      obtain ⟨m1, hrun, h1l, h1d, h1c, h1p⟩ := ih _ sa _ ha hle
      refine ⟨m1, hrun, h1l, h1d, by simp, ?_⟩
      intro hna hml hmk
      simp [assigns] at hna
      exact h1p hna.1 hml hmk
    · cases h
  | @tryCaught a b t u c0 hra hrb iha ihb =>
    intro st st' m h hle
    simp only [chk] at h
    split at h
    · rename_i sa sb ha hb
      obtain ⟨hmeet1, hmeet2, hmeet3⟩ := meet_le h
      obtain ⟨m1, hrun, h1l, h1d, h1c, h1p⟩ := iha _ sa _ ha hle
      obtain ⟨hl, hk, hd⟩ := hle
      have hle1 : Le ⟨st.locked, st.locked && st.known && !assigns a⟩ m1 := by
        refine ⟨h1l, ?_, h1d⟩
        intro hx
        simp at hx
        exact h1p hx.2 (by rw [hl]; exact hx.1.1) (hk hx.1.2)
      obtain ⟨m2, hrun2, h2l, h2d, h2c, h2p⟩ := ihb _ sb _ hb hle1
      refine ⟨m2, ?_, h2l, h2d, ?_, ?_⟩
      · rw [mrun_append, hrun]; exact hrun2
      · intro hc
        obtain ⟨x1, x2, x3⟩ := h2c hc
        exact ⟨by rw [x1, hmeet2, hmeet1], fun hx => x2 (hmeet3 hx).2, x3⟩
      · intro hna hml hmk
        simp [assigns] at hna
        have := h1p hna.1 hml hmk
        exact h2p hna.2 (by rw [h1l, ← hl]; exact hml) this
    · cases h
  | exit =>
    intro st st' m h hle
    obtain ⟨hl, hk, hd⟩ := hle
    exact ⟨m, rfl, hl, hd, by simp, fun _ _ h => h⟩
  | skip =>
    intro st st' m h hle
    simp only [chk] at h
    cases h
    obtain ⟨hl, hk, hd⟩ := hle
    exact ⟨m, rfl, hl, hd, fun _ => ⟨hl, hk, hd⟩, fun _ _ h => h⟩
  | @cbNil c0 =>
    intro st st' m h hle
    simp only [chk] at h
    split at h
    · cases h
    · rename_i hnl
      cases h
      obtain ⟨hl, hk, hd⟩ := hle
      simp at hnl
      exact ⟨m, rfl, hl, hd, fun _ => ⟨by rw [hl, hnl], by simp, hd⟩, fun _ _ h => h⟩
  | @cbCons s0 t c1 u c0 hmem hrs hrc ihs ihc =>
    intro st st' m h hle
    have h0 := h
    simp only [chk] at h
    split at h
    · cases h
    · rename_i hnl
      cases h
      obtain ⟨hl, hk, hd⟩ := hle
      have hok := hP s0 hmem
      unfold entryOk at hok
      split at hok
      · rename_i ste hse
        simp at hok hnl
        have hle0 : Le ⟨false, false⟩ m := ⟨by rw [hl, hnl], by simp, hd⟩
        obtain ⟨m1, hrun, h1l, h1d, h1c, h1p⟩ := ihs _ ste _ hse hle0
        have hle1 : Le ⟨false, false⟩ m1 := ⟨h1l, by simp, h1d⟩
        have hc0 : chk ⟨false, false⟩ .callback = some ⟨false, false⟩ := by simp [chk]
        obtain ⟨m2, hrun2, h2l, h2d, h2c, h2p⟩ := ihc _ _ _ hc0 hle1
        refine ⟨m2, ?_, by rw [h2l, hnl], h2d, h2c, by simp [assigns]⟩
        rw [mrun_append, hrun]; exact hrun2
      · cases hok
  | @other src c0 =>
    intro st st' m h hle
    simp [chk] at h

/-- joint invariant of the global state and the ghost monitors -/
structure J {n} (g : G n) (ms : Fin n → Mon) : Prop where
  hold : ∀ i, (ms i).locked = true → g.holder = some i
  indev : ∀ i, (ms i).inDev = g.inDev i
  devl : ∀ i, (ms i).inDev = true → (ms i).locked = true
  known : ∀ i, (ms i).locked = true → (ms i).known = true → g.device = true

def upd {n} (ms : Fin n → Mon) (t : Fin n) (m : Mon) : Fin n → Mon := fun i => if i = t then m else ms i

theorem step_inv {n} (g g' : G n) (ms : Fin n → Mon) (t : Fin n) (e : Ev) (v : Bool) (m' : Mon)
    (hj : J g ms) (hm : mstep (ms t) e = some m') (hg : gstep g t e v = some g') :
    J g' (upd ms t m') ∧ (e = .devB → SafeAt g t) := by
  obtain ⟨hold, indev, devl, known⟩ := hj
  have others : ∀ i, i ≠ t → (ms t).locked = true → (ms i).locked = false := by
    intro i hit hl
    cases hli : (ms i).locked
    · rfl
    · have a := hold i hli
      have b := hold t hl
      rw [a] at b; cases b; exact absurd rfl hit
  cases e with
  | acq =>
    simp only [mstep] at hm
    split at hm
    · cases hm
    rename_i hnl
    cases hm
    simp only [gstep] at hg
    split at hg
    · rename_i hh
      cases hg
      refine ⟨⟨?_, ?_, ?_, ?_⟩, by simp⟩
      · intro i hi
        by_cases hit : i = t
        · subst hit; rfl
        · simp [upd, hit] at hi; have := hold i hi; rw [hh] at this; cases this
      · intro i
        by_cases hit : i = t
        · subst hit; simp [upd]
          have := indev i
          cases hd : (ms i).inDev
          · rw [hd] at this; exact this.symm
          · have := devl i hd; simp at hnl; rw [hnl] at this; cases this
        · simp [upd, hit]; exact indev i
      · intro i hi
        by_cases hit : i = t
        · subst hit; simp [upd] at hi
        · simp [upd, hit] at hi ⊢; exact devl i hi
      · intro i hl hk
        by_cases hit : i = t
        · subst hit; simp [upd] at hk
        · simp [upd, hit] at hl hk; exact known i hl hk
    · cases hg
  | rel =>
    simp only [mstep] at hm
    split at hm
    · rename_i hc
      cases hm
      simp at hc
      simp only [gstep] at hg
      cases hg
      refine ⟨⟨?_, ?_, ?_, ?_⟩, by simp⟩
      · intro i hi
        by_cases hit : i = t
        · subst hit; simp [upd] at hi
        · simp [upd, hit] at hi; have := others i hit hc.1; rw [this] at hi; cases hi
      · intro i
        by_cases hit : i = t
        · subst hit; simp [upd]; rw [← indev i]; exact hc.2
        · simp [upd, hit]; exact indev i
      · intro i hi
        by_cases hit : i = t
        · subst hit; simp [upd] at hi
        · simp [upd, hit] at hi ⊢; exact devl i hi
      · intro i hl hk
        by_cases hit : i = t
        · subst hit; simp [upd] at hl
        · simp [upd, hit] at hl hk; exact known i hl hk
    · cases hm
  | devB =>
    simp only [mstep] at hm
    split at hm
    · rename_i hc
      cases hm
      simp at hc
      simp only [gstep] at hg
      cases hg
      refine ⟨⟨?_, ?_, ?_, ?_⟩, ?_⟩
      · intro i hi
        by_cases hit : i = t
        · subst hit; exact hold i hc.1.1
        · simp [upd, hit] at hi; exact hold i hi
      · intro i
        by_cases hit : i = t
        · subst hit; simp [upd]
        · simp [upd, hit]; exact indev i
      · intro i hi
        by_cases hit : i = t
        · subst hit; simp [upd]; exact hc.1.1
        · simp [upd, hit] at hi ⊢; exact devl i hi
      · intro i hl hk
        by_cases hit : i = t
        · subst hit; exact known i hc.1.1 hc.1.2
        · simp [upd, hit] at hl hk; exact known i hl hk
      · intro _
        refine ⟨known t hc.1.1 hc.1.2, ?_⟩
        intro j hj
        cases hd : g.inDev j
        · rfl
        · have h1 : (ms j).inDev = true := by rw [indev j]; exact hd
          have h2 := devl j h1
          have h3 := others j hj hc.1.1
          rw [h3] at h2; cases h2
    · cases hm
  | devE =>
    simp only [mstep] at hm
    split at hm
    · rename_i hc
      cases hm
      simp only [gstep] at hg
      cases hg
      have htl := devl t hc
      refine ⟨⟨?_, ?_, ?_, ?_⟩, by simp⟩
      · intro i hi
        by_cases hit : i = t
        · subst hit; exact hold i htl
        · simp [upd, hit] at hi; exact hold i hi
      · intro i
        by_cases hit : i = t
        · subst hit; simp [upd]
        · simp [upd, hit]; exact indev i
      · intro i hi
        by_cases hit : i = t
        · subst hit; simp [upd] at hi
        · simp [upd, hit] at hi ⊢; exact devl i hi
      · intro i hl hk
        by_cases hit : i = t
        · subst hit; simp [upd] at hl hk; exact known i hl hk
        · simp [upd, hit] at hl hk; exact known i hl hk
    · cases hm
  | setDev =>
    simp only [mstep] at hm
    split at hm
    · rename_i hc
      cases hm
      simp at hc
      simp only [gstep] at hg
      cases hg
      refine ⟨⟨?_, ?_, ?_, ?_⟩, by simp⟩
      · intro i hi
        by_cases hit : i = t
        · subst hit; exact hold i hc.1
        · simp [upd, hit] at hi; exact hold i hi
      · intro i
        by_cases hit : i = t
        · subst hit; simp [upd]; exact indev i
        · simp [upd, hit]; exact indev i
      · intro i hi
        by_cases hit : i = t
        · subst hit; simp [upd] at hi ⊢; exact hc.1
        · simp [upd, hit] at hi ⊢; exact devl i hi
      · intro i hl hk
        by_cases hit : i = t
        · subst hit; simp [upd] at hk
        · simp [upd, hit] at hl; have := others i hit hc.1; rw [this] at hl; cases hl
    · cases hm
  | tst b =>
    simp only [gstep] at hg
    split at hg
    · rename_i hb
      cases hg
      cases b with
      | false =>
        simp only [mstep] at hm
        cases hm
        refine ⟨⟨?_, ?_, ?_, ?_⟩, by simp⟩
        · intro i hi
          by_cases hit : i = t
          · subst hit; simp [upd] at hi; exact hold i hi
          · simp [upd, hit] at hi; exact hold i hi
        · intro i
          by_cases hit : i = t
          · subst hit; simp [upd]; exact indev i
          · simp [upd, hit]; exact indev i
        · intro i hi
          by_cases hit : i = t
          · subst hit; simp [upd] at hi ⊢; exact devl i hi
          · simp [upd, hit] at hi ⊢; exact devl i hi
        · intro i hl hk
          by_cases hit : i = t
          · subst hit; simp [upd] at hl hk; exact known i hl hk
          · simp [upd, hit] at hl hk; exact known i hl hk
      | true =>
        simp only [mstep] at hm
        cases hm
        refine ⟨⟨?_, ?_, ?_, ?_⟩, by simp⟩
        · intro i hi
          by_cases hit : i = t
          · subst hit; simp [upd] at hi; exact hold i hi
          · simp [upd, hit] at hi; exact hold i hi
        · intro i
          by_cases hit : i = t
          · subst hit; simp [upd]; exact indev i
          · simp [upd, hit]; exact indev i
        · intro i hi
          by_cases hit : i = t
          · subst hit; simp [upd] at hi ⊢; exact devl i hi
          · simp [upd, hit] at hi ⊢; exact devl i hi
        · intro i hl hk
          by_cases hit : i = t
          · subst hit; exact hb.symm
          · simp [upd, hit] at hl hk; exact known i hl hk
    · cases hg

/-- the monitor accepts `l` followed by some continuation -/
def Acc (m : Mon) (l : List Ev) : Prop := ∃ ext m', mrun m (l ++ ext) = some m'

theorem acc_cons {m : Mon} {e : Ev} {l : List Ev} (h : Acc m (e :: l)) :
    ∃ m1, mstep m e = some m1 ∧ Acc m1 l := by
  obtain ⟨ext, m', h⟩ := h
  simp only [List.cons_append, mrun] at h
  split at h
  · rename_i m1 h1; exact ⟨m1, h1, ext, m', h⟩
  · cases h

theorem proj_cons_same {n} (t : Fin n) (e : Ev) (v : Bool) (rest : Sched n) :
    proj ((t, e, v) :: rest) t = e :: proj rest t := by simp [proj]

theorem proj_cons_other {n} (t i : Fin n) (e : Ev) (v : Bool) (rest : Sched n) (h : t ≠ i) :
    proj ((t, e, v) :: rest) i = proj rest i := by simp [proj, h]

theorem run_safe {n} (σ : Sched n) : ∀ (g : G n) (ms : Fin n → Mon), J g ms →
    (∀ i, Acc (ms i) (proj σ i)) → safeRun g σ := by
  induction σ with
  | nil => intro g ms _ _; trivial
  | cons x rest ih =>
    obtain ⟨t, e, v⟩ := x
    intro g ms hj hacc
    simp only [safeRun]
    split
    · trivial
    · rename_i g' hg
      have ht := hacc t
      rw [proj_cons_same] at ht
      obtain ⟨m1, hm1, hacc1⟩ := acc_cons ht
      obtain ⟨hj', hsafe⟩ := step_inv g g' ms t e v m1 hj hm1 hg
      refine ⟨hsafe, ih g' (upd ms t m1) hj' ?_⟩
      intro i
      by_cases hit : i = t
      · subst hit; simpa [upd] using hacc1
      · have := hacc i
        rw [proj_cons_other t i e v rest (fun h => hit h.symm)] at this
        simpa [upd, hit] using this

/-- **Soundness of the lock discipline.** If every entry point of the program passes the
syntactic check, then for any number of threads, each running any sequence of entry points
(with exceptions and early exits anywhere), under every interleaving: whenever a thread enters
the device driver the device is open and no other thread is inside the driver. -/
theorem lock_sound (P : List Stmt) (hP : wellLocked P = true) (n : Nat) (σ : Sched n) (d0 : Bool)
    (hthreads : ∀ i, ∃ full c, Runs P .callback full c ∧ ∃ ext, proj σ i ++ ext = full) :
    safeRun ⟨none, d0, fun _ => false⟩ σ := by
  have hP' : ∀ s ∈ P, entryOk s = true := by
    simpa [wellLocked, List.all_eq_true] using hP
  apply run_safe σ _ (fun _ => ⟨false, false, false⟩)
  · exact ⟨by simp, by simp, by simp, by simp⟩
  · intro i
    obtain ⟨full, c, hr, ext, hext⟩ := hthreads i
    have hc : chk ⟨false, false⟩ .callback = some ⟨false, false⟩ := by simp [chk]
    obtain ⟨m', hrun, _⟩ := chk_sound P hP' _ _ _ hr ⟨false, false⟩ _ ⟨false, false, false⟩ hc ⟨rfl, by simp, rfl⟩
    exact ⟨ext, m', by rw [hext]; exact hrun⟩

end NfcVerif.Lock
