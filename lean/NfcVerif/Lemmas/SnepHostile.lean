import NfcVerif.Lemmas.Snep
/-!
The SNEP server against an arbitrary peer (`Snep.srvFeed`): whatever sequence of messages arrives,
the application callbacks only get requests whose header announced a length within
`max_acceptable_length` (the check of C06-m2 / C06-r2m1 as an invariant of the server alone).
Property C06.
-/
namespace NfcVerif.Snep
open NfcVerif NfcVerif.Chan

/-- the length the first six octets of a request announce -/
def announced (data : Bytes) : Nat := beNat ((data.drop 2).take 4)

/-- what the application may see: the octets behind the header of a request `data` whose header
announces a length within the limit -/
def Admissible (cfg : SCfg) (e : Op × Bytes) : Prop :=
  ∃ data : Bytes, 6 ≤ data.length ∧ announced data ≤ cfg.maxAcc ∧ (e.2 = data.drop 6 ∨ e.2 = data.drop 10)

theorem process_admissible (cfg : SCfg) (data resp : Bytes) (dl : List (Op × Bytes)) (h6 : 6 ≤ data.length)
    (ha : announced data ≤ cfg.maxAcc) (hp : process cfg.h data = .ok (resp, dl)) :
    ∀ e ∈ dl, Admissible cfg e := by
  unfold process at hp
  cases h1 : idxN data 1 with
  | error e => simp [h1] at hp
  | ok code =>
    simp only [h1, bind, Except.bind] at hp
    split at hp
    · split at hp
      · simp at hp; obtain ⟨_, rfl⟩ := hp; simp
      · simp at hp; obtain ⟨_, rfl⟩ := hp
        intro e he; simp at he; subst he
        exact ⟨data, h6, ha, Or.inr rfl⟩
    · split at hp
      · split at hp
        · simp at hp; obtain ⟨_, rfl⟩ := hp; simp
        · simp at hp; obtain ⟨_, rfl⟩ := hp
          intro e he; simp at he; subst he
          exact ⟨data, h6, ha, Or.inl rfl⟩
      · simp at hp; obtain ⟨_, rfl⟩ := hp; simp

theorem announced_append (data m : Bytes) (h6 : 6 ≤ data.length) : announced (data ++ m) = announced data := by
  unfold announced
  rw [List.drop_append_of_le_length (by omega)]
  rw [List.take_append_of_le_length (by simp; omega)]

/-- the server only collects fragments for a request whose header it has accepted -/
def SInv (cfg : SCfg) : SState → Prop
  | .reasm data _ => 6 ≤ data.length ∧ announced data ≤ cfg.maxAcc
  | _ => True

theorem srvFinish_admissible (cfg : SCfg) (data : Bytes) (h6 : 6 ≤ data.length) (ha : announced data ≤ cfg.maxAcc) :
    SInv cfg (srvFinish cfg data).1 ∧ ∀ e ∈ (srvFinish cfg data).2.2, Admissible cfg e := by
  unfold srvFinish
  cases hp : process cfg.h data with
  | error e => simp [SInv]
  | ok r =>
    obtain ⟨resp, dl⟩ := r
    refine ⟨?_, process_admissible cfg data resp dl h6 ha hp⟩
    simp only [respond]
    split <;> simp [SInv]

theorem srvOnRecv_admissible (cfg : SCfg) (st : SState) (m : Bytes) (hi : SInv cfg st) :
    SInv cfg (srvOnRecv cfg st m).1 ∧ ∀ e ∈ (srvOnRecv cfg st m).2.2, Admissible cfg e := by
  cases st with
  | idle =>
    match m with
    | [] | [_] | [_, _] | [_, _, _] | [_, _, _, _] | [_, _, _, _, _] => simp [srvOnRecv, SInv]
    | v :: x :: a :: b :: c :: d :: tl =>
      have han : announced (v :: x :: a :: b :: c :: d :: tl) = beNat [a, b, c, d] := by simp [announced]
      simp only [srvOnRecv]
      split
      · simp [SInv]
      · split
        · simp [SInv]
        · next hle =>
          split
          · exact ⟨⟨by simp, by rw [han]; omega⟩, by simp⟩
          · exact srvFinish_admissible cfg _ (by simp) (by rw [han]; omega)
  | reasm data length =>
    obtain ⟨h6, ha⟩ := hi
    simp only [srvOnRecv]
    split
    · exact ⟨⟨by simp; omega, by rw [announced_append _ _ h6]; exact ha⟩, by simp⟩
    · exact srvFinish_admissible cfg _ (by simp; omega) (by rw [announced_append _ _ h6]; exact ha)
  | awaitCont rest =>
    simp only [srvOnRecv]
    split <;> simp [SInv]
  | closed => simp [srvOnRecv, SInv]
  | crashed e => simp [srvOnRecv, SInv]

/-- **whatever the peer sends** - any sequence of messages, any state the server is in - the
application callbacks only ever get requests whose header announced a length within the limit -/
theorem srvFeed_admissible (cfg : SCfg) : ∀ (ms : List Bytes) (st : SState), SInv cfg st →
    SInv cfg (srvFeed cfg st ms).1 ∧ ∀ e ∈ (srvFeed cfg st ms).2.2, Admissible cfg e := by
  intro ms
  induction ms with
  | nil => intro st hi; exact ⟨hi, by simp [srvFeed]⟩
  | cons m rest ih =>
    intro st hi
    simp only [srvFeed]
    split
    · obtain ⟨h1, h2⟩ := srvOnRecv_admissible cfg st m hi
      obtain ⟨h3, h4⟩ := ih _ h1
      refine ⟨h3, fun e he => ?_⟩
      rcases List.mem_append.mp he with h | h
      · exact h2 e h
      · exact h4 e h
    · exact ih st hi

theorem srvOnClose_admissible (cfg : SCfg) (st : SState) (hi : SInv cfg st) :
    ∀ e ∈ (srvOnClose cfg st).2, Admissible cfg e := by
  cases st with
  | reasm data length =>
    obtain ⟨h6, ha⟩ := hi
    simp only [srvOnClose]
    cases hp : process cfg.h data with
    | error e => simp
    | ok r => obtain ⟨resp, dl⟩ := r; exact process_admissible cfg data resp dl h6 ha hp
  | idle => simp [srvOnClose]
  | awaitCont rest => simp [srvOnClose]
  | closed => simp [srvOnClose]
  | crashed e => simp [srvOnClose]

end NfcVerif.Snep
