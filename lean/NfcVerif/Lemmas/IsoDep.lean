import NfcVerif.Model.IsoDep
/-!
# ISO-DEP: the invariant behind C12

One *round* is: the PCD wants the card to take a block `req` and to answer `B`
(an I-block of the command and its R(ACK) / first response block, or an R(ACK) and the
next response block).  `Round.Ok` states what the PICC rules give for the
three kinds of block the PCD sends in that round (`req`, the retry block `rty`, the echo of
an S(WTX) request).  `xchgW_post`/`blockLoop_post` prove, for every fault script, that a
retry loop of `IsoDepInitiator.exchange` either returns exactly `B` with the card having
taken `req` exactly once, or fails with a `Type4TagCommandError` leaving the card before or
after that single step - the generalisation of the spike invariant (A)/(B) of DESIGN C.5
to chaining in both directions, S(WTX) and the retry budgets.  `sendChunks_post`,
`recvChain_post` and `exchange_post` chain the rounds.
-/
namespace NfcVerif.IsoDep
open NfcVerif

/-! ### bit facts for block numbers 0/1 -/
theorem bn_cases {p : Nat} (h : p < 2) : p = 0 ∨ p = 1 := by omega

theorem tog_tog {p : Nat} (h : p < 2) : ((p + 1) % 2 + 1) % 2 = p := by omega
theorem tog_lt (p : Nat) : (p + 1) % 2 < 2 := by omega
theorem tog_ne {p : Nat} (_h : p < 2) : (p + 1) % 2 ≠ p := by omega

structure Core where
  bn : Nat
  rxbuf : Bytes
  txq : Bytes
  log : List Bytes

def Card.core (c : Card) : Core := ⟨c.bn, c.rxbuf, c.txq, c.log⟩

def Done (k : Core) (B : Bytes) (c : Card) : Prop := c.core = k ∧ c.last = some B ∧ c.pend = none
def Pending (cfg : CardCfg) (k : Core) (B : Bytes) (c : Card) : Prop :=
  c.core = k ∧ c.last = some (wtxBlock cfg) ∧ ∃ n, c.pend = some (B, n)
def Em (cfg : CardCfg) (k : Core) (B : Bytes) (c : Card) : Prop := Done k B c ∨ Pending cfg k B c

def Emitted (cfg : CardCfg) (k : Core) (B : Bytes) (r : Card × Option Bytes) : Prop :=
  (Done k B r.1 ∧ r.2 = some B) ∨ (Pending cfg k B r.1 ∧ r.2 = some (wtxBlock cfg))

theorem emit_emitted (cfg : CardCfg) (c : Card) (B : Bytes) (nw : Nat) :
    Emitted cfg c.core B (Card.emit cfg c B nw) := by
  cases nw <;> simp [Card.emit, Emitted, Done, Pending, Card.core]

theorem rx_echo_pending (cfg : CardCfg) {k B c} (h : Pending cfg k B c) :
    Emitted cfg k B (Card.rx cfg c (wtxBlock cfg)) := by
  obtain ⟨hk, _, n, hp⟩ := h
  have := emit_emitted cfg c B n
  simp [Card.rx, wtxBlock, hp, hk] at this ⊢
  exact this

theorem rx_rblock_same (cfg : CardCfg) (c : Card) (h : c.bn < 2) (x : Nat) (hx : x = 0xA2 ∨ x = 0xB2) :
    Card.rx cfg c [x ||| c.bn] = (c, c.last) := by
  rcases bn_cases h with hb | hb <;> rcases hx with rfl | rfl <;> simp [Card.rx, hb]

theorem rx_nak_other (cfg : CardCfg) (c : Card) (p : Nat) (hp : p < 2) (hne : p ≠ c.bn) (h : c.bn < 2) :
    Card.rx cfg c [0xB2 ||| p] = (c, some [0xA2 ||| c.bn]) := by
  rcases bn_cases h with hb | hb <;> rcases bn_cases hp with rfl | rfl <;> simp [Card.rx, hb] at hne ⊢

theorem rx_iblk_more (cfg : CardCfg) (c : Card) (p : Nat) (hp : p < 2) (inf : Bytes) :
    Card.rx cfg c ((0x12 ||| p) :: inf) =
      Card.emit cfg { c with bn := (c.bn + 1) % 2, rxbuf := c.rxbuf ++ inf, txq := [], pend := none }
        [0xA2 ||| ((c.bn + 1) % 2)] cfg.wtxAck := by
  rcases bn_cases hp with rfl | rfl <;> simp [Card.rx]

theorem rx_iblk_last (cfg : CardCfg) (c : Card) (p : Nat) (hp : p < 2) (inf : Bytes) :
    Card.rx cfg c ((0x02 ||| p) :: inf) =
      Card.emit cfg { c with bn := (c.bn + 1) % 2, rxbuf := [], txq := (cfg.app c.log.length (c.rxbuf ++ inf)).drop cfg.chunk,
                              pend := none, log := c.log ++ [c.rxbuf ++ inf] }
        (iBlock ((c.bn + 1) % 2) (decide (cfg.chunk < (cfg.app c.log.length (c.rxbuf ++ inf)).length))
          ((cfg.app c.log.length (c.rxbuf ++ inf)).take cfg.chunk)) cfg.wtxI := by
  rcases bn_cases hp with rfl | rfl <;> simp [Card.rx]

theorem rx_ack_other (cfg : CardCfg) (c : Card) (p : Nat) (hp : p < 2) (hne : p ≠ c.bn) (ht : c.txq ≠ []) :
    Card.rx cfg c [0xA2 ||| p] =
      Card.emit cfg { c with bn := (c.bn + 1) % 2, txq := c.txq.drop cfg.chunk, pend := none }
        (iBlock ((c.bn + 1) % 2) (decide (cfg.chunk < c.txq.length)) (c.txq.take cfg.chunk)) cfg.wtxChain := by
  rcases bn_cases hp with rfl | rfl <;> simp [Card.rx, ht] <;> intro h <;> simp [h] at hne


/-! ### one round: the PCD wants the card to take `req` and answer `B` -/
structure Round where
  req : Bytes
  rty : Bytes
  resend : Option Nat
  Pre : Card → Prop
  post : Core
  B : Bytes

structure Round.Ok (cfg : CardCfg) (R : Round) : Prop where
  hreq : ∀ c, R.Pre c → Emitted cfg R.post R.B (Card.rx cfg c R.req)
  hrtyPre : R.rty = R.req ∨ ∀ c, R.Pre c → ∃ a, Card.rx cfg c R.rty = (c, some [a]) ∧ R.resend = some a
  hrtyPost : ∀ c, c.core = R.post → Card.rx cfg c R.rty = (c, c.last)
  hB : ∃ a t, R.B = a :: t ∧ R.resend ≠ some a ∧ isWtx R.B = false

def St (cfg : CardCfg) (R : Round) (c : Card) : Prop := R.Pre c ∨ Em cfg R.post R.B c

/-- what `_exchange` can return -/
def WPost (cfg : CardCfg) (R : Round) (c : Card) : Rx → Prop
  | .data [] => St cfg R c
  | .data (a :: t) => (Done R.post R.B c ∧ a :: t = R.B) ∨ (R.Pre c ∧ t = [] ∧ R.resend = some a)
  | _ => St cfg R c

/-- what a single `clf.exchange` can return: either an S(WTX) request that will be answered, or a final outcome -/
def APost (cfg : CardCfg) (R : Round) (c : Card) (r : Rx) : Prop :=
  (r = .data (wtxBlock cfg) ∧ Pending cfg R.post R.B c) ∨
  ((∀ d, r = .data d → isWtx d = false) ∧ WPost cfg R c r)

theorem isWtx_wtxBlock (cfg : CardCfg) : isWtx (wtxBlock cfg) = true := by
  simp [isWtx, wtxBlock]

theorem legBack_emitted (cfg : CardCfg) (R : Round) (hR : R.Ok cfg) (f : Fault) (c : Card) (o : Bytes)
    (h : (Done R.post R.B c ∧ o = R.B) ∨ (Pending cfg R.post R.B c ∧ o = wtxBlock cfg)) :
    APost cfg R c (legBack f o) := by
  obtain ⟨a, t, hB, _, hBw⟩ := hR.hB
  rcases h with ⟨hd, rfl⟩ | ⟨hp, rfl⟩
  · have hst : St cfg R c := Or.inr (Or.inl hd)
    cases f <;> simp only [legBack]
    · right; refine ⟨?_, ?_⟩
      · intro d hd'; cases hd'; exact hBw
      · rw [hB]; simp only [WPost]; left; exact ⟨hd, hB.symm⟩
    all_goals (right; refine ⟨by intro d hd'; cases hd' <;> rfl, ?_⟩; simpa [WPost] using hst)
  · have hst : St cfg R c := Or.inr (Or.inr hp)
    cases f <;> simp only [legBack]
    · left; exact ⟨rfl, hp⟩
    all_goals (right; refine ⟨by intro d hd'; cases hd' <;> rfl, ?_⟩; simpa [WPost] using hst)

theorem legBack_resend (cfg : CardCfg) (R : Round) (f : Fault) (c : Card) (a : Nat)
    (hc : R.Pre c) (ha : R.resend = some a) : APost cfg R c (legBack f [a]) := by
  have hst : St cfg R c := Or.inl hc
  cases f <;> simp only [legBack]
  · right; refine ⟨by intro d hd'; cases hd'; rfl, ?_⟩
    exact Or.inr ⟨hc, rfl, ha⟩
  all_goals (right; refine ⟨by intro d hd'; cases hd' <;> rfl, ?_⟩; simpa [WPost] using hst)

/-- the blocks the PCD may send, depending on what the card has seen -/
def Allowed (cfg : CardCfg) (R : Round) (c : Card) (out : Bytes) : Prop :=
  (R.Pre c ∧ (out = R.req ∨ out = R.rty)) ∨ (Em cfg R.post R.B c ∧ out = R.rty) ∨
  (Pending cfg R.post R.B c ∧ out = wtxBlock cfg)

theorem rx_allowed (cfg : CardCfg) (R : Round) (hR : R.Ok cfg) (c : Card) (out : Bytes) (h : Allowed cfg R c out) :
    ∃ c' o, Card.rx cfg c out = (c', some o) ∧
      ((Done R.post R.B c' ∧ o = R.B) ∨ (Pending cfg R.post R.B c' ∧ o = wtxBlock cfg) ∨
       (R.Pre c' ∧ ∃ a, o = [a] ∧ R.resend = some a)) := by
  have emitted : ∀ r : Card × Option Bytes, Emitted cfg R.post R.B r →
      ∃ c' o, r = (c', some o) ∧ ((Done R.post R.B c' ∧ o = R.B) ∨ (Pending cfg R.post R.B c' ∧ o = wtxBlock cfg) ∨
       (R.Pre c' ∧ ∃ a, o = [a] ∧ R.resend = some a)) := by
    rintro ⟨c', o⟩ (⟨hd, ho⟩ | ⟨hp, ho⟩)
    · simp only at ho; subst ho; exact ⟨c', _, rfl, Or.inl ⟨hd, rfl⟩⟩
    · simp only at ho; subst ho; exact ⟨c', _, rfl, Or.inr (Or.inl ⟨hp, rfl⟩)⟩
  rcases h with ⟨hpre, rfl | rfl⟩ | ⟨hem, rfl⟩ | ⟨hp, rfl⟩
  · exact emitted _ (hR.hreq c hpre)
  · rcases hR.hrtyPre with heq | hr
    · rw [heq]; exact emitted _ (hR.hreq c hpre)
    · obtain ⟨a, hrx, ha⟩ := hr c hpre
      exact ⟨c, [a], hrx, Or.inr (Or.inr ⟨hpre, a, rfl, ha⟩)⟩
  · have hcore : c.core = R.post := by rcases hem with h | h <;> exact h.1
    rw [hR.hrtyPost c hcore]
    rcases hem with h | h
    · exact ⟨c, R.B, by rw [h.2.1], Or.inl ⟨h, rfl⟩⟩
    · exact ⟨c, wtxBlock cfg, by rw [h.2.1], Or.inr (Or.inl ⟨h, rfl⟩)⟩
  · exact emitted _ (rx_echo_pending cfg hp)

theorem allowed_st {cfg : CardCfg} {R : Round} {c : Card} {out : Bytes} (h : Allowed cfg R c out) : St cfg R c := by
  rcases h with ⟨h, _⟩ | ⟨h, _⟩ | ⟨h, _⟩
  · exact Or.inl h
  · exact Or.inr h
  · exact Or.inr (Or.inr h)

/-- one `clf.exchange` in a round -/
theorem xchg_post (cfg : CardCfg) (R : Round) (hR : R.Ok cfg) (w : World Card) (out : Bytes)
    (h : Allowed cfg R w.card out) :
    APost cfg R (w.xchg (isoPeer cfg) out).1.card (w.xchg (isoPeer cfg) out).2 ∧
    (w.xchg (isoPeer cfg) out).1.trace = w.trace ++ [out] := by
  obtain ⟨c', o, hrx, ho⟩ := rx_allowed cfg R hR w.card out h
  unfold World.xchg
  simp only [isoPeer, hrx]
  split
  · refine ⟨Or.inr ⟨(by intro d hd; cases hd), ?_⟩, rfl⟩
    simpa [WPost] using allowed_st h
  · refine ⟨?_, rfl⟩
    simp only
    rcases ho with h1 | h1 | ⟨hpre, a, rfl, ha⟩
    · exact legBack_emitted cfg R hR _ c' o (Or.inl h1)
    · exact legBack_emitted cfg R hR _ c' o (Or.inr h1)
    · exact legBack_resend cfg R _ c' a hpre ha


/-- `_exchange` in a round: S(WTX) requests are answered, the outcome is final -/
theorem xchgW_post (cfg : CardCfg) (R : Round) (hR : R.Ok cfg) (Q : Bytes → Prop)
    (hQ : Q R.req ∧ Q R.rty ∧ Q (wtxBlock cfg)) :
    ∀ (F : Nat) (w : World Card) (out : Bytes), Allowed cfg R w.card out → (∀ b ∈ w.trace, Q b) →
      WPost cfg R (xchgW (isoPeer cfg) F w out).1.card (xchgW (isoPeer cfg) F w out).2 ∧
      (∀ b ∈ (xchgW (isoPeer cfg) F w out).1.trace, Q b) := by
  intro F
  induction F with
  | zero =>
    intro w out h hq
    simp only [xchgW]
    exact ⟨by simpa [WPost] using allowed_st h, hq⟩
  | succ F ih =>
    intro w out h hq
    have hout : Q out := by
      rcases h with ⟨_, rfl | rfl⟩ | ⟨_, rfl⟩ | ⟨_, rfl⟩
      · exact hQ.1
      · exact hQ.2.1
      · exact hQ.2.1
      · exact hQ.2.2
    obtain ⟨hA, htr⟩ := xchg_post cfg R hR w out h
    have hq1 : ∀ b ∈ (w.xchg (isoPeer cfg) out).1.trace, Q b := by
      rw [htr]; intro b hb
      rcases List.mem_append.mp hb with hb | hb
      · exact hq b hb
      · simp at hb; subst hb; exact hout
    unfold xchgW
    generalize w.xchg (isoPeer cfg) out = r1 at hA hq1
    obtain ⟨w1, r⟩ := r1
    simp only at hA hq1 ⊢
    rcases hA with ⟨rfl, hp⟩ | ⟨hnw, hw⟩
    · simp only [isWtx_wtxBlock, if_true]
      exact ih w1 (wtxBlock cfg) (Or.inr (Or.inr ⟨hp, rfl⟩)) hq1
    · cases r with
      | data d => simp only [hnw d rfl]; exact ⟨hw, hq1⟩
      | timeout => exact ⟨hw, hq1⟩
      | transmission => exact ⟨hw, hq1⟩
      | protocol => exact ⟨hw, hq1⟩
      | fuel => exact ⟨hw, hq1⟩

/-- what a retry loop can return -/
def LPost (cfg : CardCfg) (R : Round) (c : Card) : Py Bytes → Prop
  | .ok d => Done R.post R.B c ∧ d = R.B
  | .error e => St cfg R c ∧ (e = .outOfFuel ∨ e = .tagCmd TIMEOUT_ERROR ∨ e = .tagCmd RECEIVE_ERROR ∨ e = .tagCmd PROTOCOL_ERROR)

theorem blockLoop_post (cfg : CardCfg) (R : Round) (hR : R.Ok cfg) (Q : Bytes → Prop)
    (hQ : Q R.req ∧ Q R.rty ∧ Q (wtxBlock cfg)) (F n : Nat) :
    ∀ (f i : Nat) (out : Bytes) (w : World Card),
      ((R.Pre w.card ∧ (out = R.req ∨ out = R.rty)) ∨ (Em cfg R.post R.B w.card ∧ out = R.rty)) →
      (∀ b ∈ w.trace, Q b) →
      LPost cfg R (blockLoop (isoPeer cfg) F n R.resend R.req R.rty f i out w).1.card
                  (blockLoop (isoPeer cfg) F n R.resend R.req R.rty f i out w).2 ∧
      (∀ b ∈ (blockLoop (isoPeer cfg) F n R.resend R.req R.rty f i out w).1.trace, Q b) := by
  intro f
  induction f with
  | zero =>
    intro i out w h hq
    simp only [blockLoop, LPost]
    refine ⟨⟨?_, by simp⟩, hq⟩
    rcases h with ⟨h, _⟩ | ⟨h, _⟩
    · exact Or.inl h
    · exact Or.inr h
  | succ f ih =>
    intro i out w h hq
    have hall : Allowed cfg R w.card out := by
      rcases h with h | h
      · exact Or.inl h
      · exact Or.inr (Or.inl h)
    obtain ⟨hw, hq1⟩ := xchgW_post cfg R hR Q hQ F w out hall hq
    unfold blockLoop
    generalize xchgW (isoPeer cfg) F w out = r1 at hw hq1
    obtain ⟨w1, r⟩ := r1
    simp only at hw hq1 ⊢
    have retry : ∀ (e : Exc), St cfg R w1.card →
        (e = .outOfFuel ∨ e = .tagCmd TIMEOUT_ERROR ∨ e = .tagCmd RECEIVE_ERROR ∨ e = .tagCmd PROTOCOL_ERROR) →
        LPost cfg R (if i ≤ n then blockLoop (isoPeer cfg) F n R.resend R.req R.rty f (i+1) R.rty w1 else (w1, .error e)).1.card
          (if i ≤ n then blockLoop (isoPeer cfg) F n R.resend R.req R.rty f (i+1) R.rty w1 else (w1, .error e)).2 ∧
        (∀ b ∈ (if i ≤ n then blockLoop (isoPeer cfg) F n R.resend R.req R.rty f (i+1) R.rty w1 else (w1, .error e)).1.trace, Q b) := by
      intro e hst he
      split
      · refine ih (i+1) R.rty w1 ?_ hq1
        rcases hst with h | h
        · exact Or.inl ⟨h, Or.inr rfl⟩
        · exact Or.inr ⟨h, rfl⟩
      · exact ⟨⟨hst, he⟩, hq1⟩
    cases r with
    | data d =>
      cases d with
      | nil => exact retry _ (by simpa [WPost] using hw) (by simp)
      | cons a t =>
        simp only
        obtain ⟨a', t', hB, hne, _⟩ := hR.hB
        rcases hw with ⟨hd, hab⟩ | ⟨hpre, rfl, hres⟩
        · have : a = a' := by rw [hB] at hab; cases hab; rfl
          subst this
          rw [if_neg hne]
          exact ⟨⟨hd, hab⟩, hq1⟩
        · rw [if_pos hres]
          exact ih (i+1) R.req w1 (Or.inl ⟨hpre, Or.inl rfl⟩) hq1
    | timeout => exact retry _ (by simpa [WPost] using hw) (by simp)
    | transmission => exact retry _ (by simpa [WPost] using hw) (by simp)
    | protocol => exact ⟨⟨by simpa [WPost] using hw, by simp⟩, hq1⟩
    | fuel => exact ⟨⟨by simpa [WPost] using hw, by simp⟩, hq1⟩


theorem isWtx_iBlock {p : Nat} (hp : p < 2) (more : Bool) (inf : Bytes) : isWtx (iBlock p more inf) = false := by
  rcases bn_cases hp with rfl | rfl <;> cases more <;> cases inf <;> simp [isWtx, iBlock]

theorem emit_emitted' (cfg : CardCfg) {c : Card} {k : Core} {B B' : Bytes} (nw : Nat) (h1 : c.core = k) (h2 : B' = B) :
    Emitted cfg k B (Card.emit cfg c B' nw) := by
  subst h1 h2; exact emit_emitted cfg c B' nw

theorem iBlock_cons (p : Nat) (more : Bool) (inf : Bytes) :
    iBlock p more inf = ((if more then 0x12 else 0x02) ||| p) :: inf := rfl

/-- command block that is not the last one of the chain -/
abbrev cmdRoundMore (pni : Nat) (acc : Bytes) (L : List Bytes) (c : Bytes) : Round where
  req := (0x12 ||| pni) :: c
  rty := [0xB2 ||| pni]
  resend := some (0xA2 ||| ((pni + 1) % 2))
  Pre := fun k => k.bn = (pni + 1) % 2 ∧ k.rxbuf = acc ∧ k.log = L
  post := ⟨pni, acc ++ c, [], L⟩
  B := [0xA2 ||| pni]

theorem cmdRoundMore_ok (cfg : CardCfg) {pni : Nat} (hp : pni < 2) (acc : Bytes) (L : List Bytes) (c : Bytes) :
    (cmdRoundMore pni acc L c).Ok cfg where
  hreq := by
    rintro k ⟨hb, hr, hl⟩
    simp only
    rw [rx_iblk_more cfg k pni hp c]
    apply emit_emitted' <;> simp [Card.core, hb, hr, hl, tog_tog hp]
  hrtyPre := by
    right
    rintro k ⟨hb, _, _⟩
    refine ⟨0xA2 ||| k.bn, ?_, by simp [hb]⟩
    exact rx_nak_other cfg k pni hp (by rw [hb]; exact (tog_ne hp).symm) (by rw [hb]; exact tog_lt pni)
  hrtyPost := by
    intro k hk
    have hb : k.bn = pni := by simpa [Card.core] using congrArg Core.bn hk
    simp only
    rw [← hb]
    exact rx_rblock_same cfg k (by rw [hb]; exact hp) 0xB2 (Or.inr rfl)
  hB := by
    refine ⟨0xA2 ||| pni, [], rfl, ?_, rfl⟩
    rcases bn_cases hp with rfl | rfl <;> simp

/-- last (or only) command block -/
abbrev cmdRoundLast (cfg : CardCfg) (pni : Nat) (acc : Bytes) (L : List Bytes) (c : Bytes) : Round where
  req := (0x02 ||| pni) :: c
  rty := [0xB2 ||| pni]
  resend := some (0xA2 ||| ((pni + 1) % 2))
  Pre := fun k => k.bn = (pni + 1) % 2 ∧ k.rxbuf = acc ∧ k.log = L
  post := ⟨pni, [], (cfg.app L.length (acc ++ c)).drop cfg.chunk, L ++ [acc ++ c]⟩
  B := iBlock pni (decide (cfg.chunk < (cfg.app L.length (acc ++ c)).length)) ((cfg.app L.length (acc ++ c)).take cfg.chunk)

theorem cmdRoundLast_ok (cfg : CardCfg) {pni : Nat} (hp : pni < 2) (acc : Bytes) (L : List Bytes) (c : Bytes) :
    (cmdRoundLast cfg pni acc L c).Ok cfg where
  hreq := by
    rintro k ⟨hb, hr, hl⟩
    simp only
    rw [rx_iblk_last cfg k pni hp c]
    apply emit_emitted' <;> simp [Card.core, hb, hr, hl, tog_tog hp]
  hrtyPre := by
    right
    rintro k ⟨hb, _, _⟩
    refine ⟨0xA2 ||| k.bn, ?_, by simp [hb]⟩
    exact rx_nak_other cfg k pni hp (by rw [hb]; exact (tog_ne hp).symm) (by rw [hb]; exact tog_lt pni)
  hrtyPost := by
    intro k hk
    have hb : k.bn = pni := by simpa [Card.core] using congrArg Core.bn hk
    simp only
    rw [← hb]
    exact rx_rblock_same cfg k (by rw [hb]; exact hp) 0xB2 (Or.inr rfl)
  hB := by
    refine ⟨_, _, iBlock_cons _ _ _, ?_, isWtx_iBlock hp _ _⟩
    rcases bn_cases hp with rfl | rfl <;>
      cases (decide (cfg.chunk < (cfg.app L.length (acc ++ c)).length)) <;> simp

/-- response chaining: R(ACK) asks for the next block of the remaining response `T` -/
abbrev ackRound (cfg : CardCfg) (pni : Nat) (T : Bytes) (L : List Bytes) : Round where
  req := [0xA2 ||| pni]
  rty := [0xA2 ||| pni]
  resend := none
  Pre := fun k => k.core = ⟨(pni + 1) % 2, [], T, L⟩
  post := ⟨pni, [], T.drop cfg.chunk, L⟩
  B := iBlock pni (decide (cfg.chunk < T.length)) (T.take cfg.chunk)

theorem ackRound_ok (cfg : CardCfg) {pni : Nat} (hp : pni < 2) (T : Bytes) (hT : T ≠ []) (L : List Bytes) :
    (ackRound cfg pni T L).Ok cfg where
  hreq := by
    intro k hk
    simp only [Card.core, Core.mk.injEq] at hk
    obtain ⟨hb, hr, ht, hl⟩ := hk
    simp only
    rw [rx_ack_other cfg k pni hp (by rw [hb]; exact (tog_ne hp).symm) (by rw [ht]; exact hT)]
    apply emit_emitted' <;> simp [Card.core, hb, hr, hl, ht, tog_tog hp]
  hrtyPre := Or.inl rfl
  hrtyPost := by
    intro k hk
    have hb : k.bn = pni := by simpa [Card.core] using congrArg Core.bn hk
    simp only
    rw [← hb]
    exact rx_rblock_same cfg k (by rw [hb]; exact hp) 0xA2 (Or.inl rfl)
  hB := ⟨_, _, iBlock_cons _ _ _, by simp, isWtx_iBlock hp _ _⟩


theorem ihead_and1 {p : Nat} (hp : p < 2) (more : Bool) : ((if more then 0x12 else 0x02) ||| p) &&& 0x01 = p := by
  rcases bn_cases hp with rfl | rfl <;> cases more <;> decide
theorem ihead_andEE {p : Nat} (hp : p < 2) (more : Bool) : ((if more then 0x12 else 0x02) ||| p) &&& 0xEE = 0x02 := by
  rcases bn_cases hp with rfl | rfl <;> cases more <;> decide
theorem ihead_and10 {p : Nat} (hp : p < 2) (more : Bool) :
    (((if more then 0x12 else 0x02) ||| p) &&& 0x10 = 0) ↔ more = false := by
  rcases bn_cases hp with rfl | rfl <;> cases more <;> decide
theorem ack_and1 {p : Nat} (hp : p < 2) : (0xA2 ||| p) &&& 0x01 = p := by
  rcases bn_cases hp with rfl | rfl <;> decide
theorem ack_andFE {p : Nat} (hp : p < 2) : (0xA2 ||| p) &&& 0xFE = 0xA2 := by
  rcases bn_cases hp with rfl | rfl <;> decide

/-- exceptions `exchange` raises on purpose (and the model's own fuel marker) -/
def ErrKind (e : Exc) : Prop :=
  e = .outOfFuel ∨ e = .tagCmd TIMEOUT_ERROR ∨ e = .tagCmd RECEIVE_ERROR ∨ e = .tagCmd PROTOCOL_ERROR

/-- the command `full` has just been executed (log `L` before), the first response block `d` was received -/
def CmdDone (cfg : CardCfg) (L : List Bytes) (full : Bytes) (pni' : Nat) (d : Bytes) (c : Card) : Prop :=
  pni' < 2 ∧
  d = iBlock ((pni' + 1) % 2) (decide (cfg.chunk < (cfg.app L.length full).length)) ((cfg.app L.length full).take cfg.chunk) ∧
  Done ⟨(pni' + 1) % 2, [], (cfg.app L.length full).drop cfg.chunk, L ++ [full]⟩ d c

def SendPost (cfg : CardCfg) (L : List Bytes) (full : Bytes) (Q : Bytes → Prop) (r : World Card × Nat × Py Bytes) : Prop :=
  (∀ b ∈ r.1.trace, Q b) ∧
  match r.2.2 with
  | .ok d => CmdDone cfg L full r.2.1 d r.1.card
  | .error e => ErrKind e ∧ (r.1.card.log = L ∨ r.1.card.log = L ++ [full])

theorem st_log_more (cfg : CardCfg) {pni acc L c k} (h : St cfg (cmdRoundMore pni acc L c) k) : k.log = L := by
  rcases h with h | h | h
  · exact h.2.2
  · simpa [Card.core] using congrArg Core.log h.1
  · simpa [Card.core] using congrArg Core.log h.1

theorem st_log_last (cfg : CardCfg) {pni acc L c k} (h : St cfg (cmdRoundLast cfg pni acc L c) k) :
    k.log = L ∨ k.log = L ++ [acc ++ c] := by
  rcases h with h | h | h
  · exact Or.inl h.2.2
  · right; simpa [Card.core] using congrArg Core.log h.1
  · right; simpa [Card.core] using congrArg Core.log h.1

theorem sendChunks_post (cfg : CardCfg) (m F nNak : Nat) (hm : 1 ≤ m) (L : List Bytes) (Q : Bytes → Prop)
    (hQ : ∀ b : Bytes, b.length ≤ m + 1 → Q b) :
    ∀ (cs : List Bytes) (pni : Nat) (acc : Bytes) (w : World Card), cs ≠ [] → pni < 2 →
      w.card.bn = (pni + 1) % 2 → w.card.rxbuf = acc → w.card.log = L →
      (∀ c ∈ cs, c.length ≤ m) → (∀ b ∈ w.trace, Q b) →
      SendPost cfg L (acc ++ cs.flatten) Q (sendChunks (isoPeer cfg) F nNak cs pni w) := by
  intro cs
  induction cs with
  | nil => intro _ _ _ h; exact absurd rfl h
  | cons c rest ih =>
    intro pni acc w _ hp hb hr hl hcs hq
    have hc : c.length ≤ m := hcs c (by simp)
    cases rest with
    | nil =>
      have hpost := blockLoop_post cfg (cmdRoundLast cfg pni acc L c) (cmdRoundLast_ok cfg hp acc L c)
        Q ⟨hQ _ (by simp; omega), hQ _ (by simp), hQ _ (by simp [wtxBlock]; omega)⟩
        F nNak F 1 ((0x02 ||| pni) :: c) w (Or.inl ⟨⟨hb, hr, hl⟩, Or.inl rfl⟩) hq
      unfold sendChunks
      simp only [List.isEmpty_nil, Bool.not_true, Bool.false_eq_true, if_false]
      simp only at hpost
      generalize blockLoop _ _ _ _ _ _ _ _ _ _ = r1 at hpost ⊢
      obtain ⟨w1, res⟩ := r1
      obtain ⟨hl1, hq1⟩ := hpost
      cases res with
      | error e =>
        simp only [SendPost]
        refine ⟨hq1, hl1.2, ?_⟩
        have := st_log_last cfg hl1.1
        simpa using this
      | ok d =>
        obtain ⟨hd, rfl⟩ := hl1
        simp only [iBlock_cons]
        have h1 := ihead_and1 hp (decide (cfg.chunk < (cfg.app L.length (acc ++ c)).length))
        have h2 := ihead_andEE hp (decide (cfg.chunk < (cfg.app L.length (acc ++ c)).length))
        simp only [h1, h2, ne_eq, not_true_eq_false, if_false, if_true, SendPost]
        refine ⟨hq1, tog_lt pni, ?_, ?_⟩
        · simp [tog_tog hp, iBlock_cons]
        · simpa [tog_tog hp, iBlock_cons] using hd
    | cons c2 rest2 =>
      have hpost := blockLoop_post cfg (cmdRoundMore pni acc L c) (cmdRoundMore_ok cfg hp acc L c)
        Q ⟨hQ _ (by simp; omega), hQ _ (by simp), hQ _ (by simp [wtxBlock]; omega)⟩
        F nNak F 1 ((0x12 ||| pni) :: c) w (Or.inl ⟨⟨hb, hr, hl⟩, Or.inl rfl⟩) hq
      unfold sendChunks
      simp only [List.isEmpty_cons, Bool.not_false, if_true]
      simp only at hpost
      generalize blockLoop _ _ _ _ _ _ _ _ _ _ = r1 at hpost ⊢
      obtain ⟨w1, res⟩ := r1
      obtain ⟨hl1, hq1⟩ := hpost
      cases res with
      | error e =>
        simp only [SendPost]
        refine ⟨hq1, hl1.2, Or.inl ?_⟩
        exact st_log_more cfg hl1.1
      | ok d =>
        obtain ⟨hd, rfl⟩ := hl1
        simp only [ack_and1 hp, ack_andFE hp, ne_eq, not_true_eq_false, if_false, if_true]
        have hcore := hd.1
        simp only [Card.core, Core.mk.injEq] at hcore
        have := ih ((pni + 1) % 2) (acc ++ c) w1 (by simp) (tog_lt pni)
          (by rw [tog_tog hp]; exact hcore.1) hcore.2.1 hcore.2.2.2
          (fun x hx => hcs x (List.mem_cons_of_mem _ hx)) hq1
        simpa [List.append_assoc] using this


def RecvPost (L' : List Bytes) (rsp : Bytes) (Q : Bytes → Prop) (r : World Card × Nat × Py Bytes) : Prop :=
  (∀ b ∈ r.1.trace, Q b) ∧ r.1.card.log = L' ∧
  match r.2.2 with
  | .ok x => x = rsp ∧ r.2.1 < 2 ∧ r.1.card.bn = (r.2.1 + 1) % 2 ∧ r.1.card.rxbuf = []
  | .error e => ErrKind e

theorem st_log_ack (cfg : CardCfg) {pni T L k} (h : St cfg (ackRound cfg pni T L) k) : k.log = L := by
  rcases h with h | h | h
  · simpa [Card.core] using congrArg Core.log h
  · simpa [Card.core] using congrArg Core.log h.1
  · simpa [Card.core] using congrArg Core.log h.1

theorem recvChain_post (cfg : CardCfg) (m F nAck : Nat) (hm : 1 ≤ m) (L' : List Bytes) (rsp : Bytes) (Q : Bytes → Prop)
    (hQ : ∀ b : Bytes, b.length ≤ m + 1 → Q b) :
    ∀ (f pni : Nat) (data resp : Bytes) (w : World Card) (T : Bytes) (more : Bool) (inf : Bytes),
      pni < 2 → data = iBlock ((pni + 1) % 2) more inf → (more = true ↔ T ≠ []) →
      Done ⟨(pni + 1) % 2, [], T, L'⟩ data w.card → resp ++ T = rsp →
      (∀ b ∈ w.trace, Q b) →
      RecvPost L' rsp Q (recvChain (isoPeer cfg) F nAck f pni data resp w) := by
  intro f
  induction f with
  | zero =>
    intro pni data resp w T more inf _ _ _ hd _ hq
    simp only [recvChain, RecvPost]
    refine ⟨hq, ?_, Or.inl rfl⟩
    simpa [Card.core] using congrArg Core.log hd.1
  | succ f ih =>
    intro pni data resp w T more inf hp hdata hmore hd hresp hq
    have hcore := hd.1
    simp only [Card.core, Core.mk.injEq] at hcore
    subst hdata
    unfold recvChain
    simp only [iBlock_cons]
    cases more with
    | false =>
      have h10 := (ihead_and10 (tog_lt pni) false).mpr rfl
      simp only [Bool.false_eq_true, if_false] at h10 ⊢
      simp only [h10, if_true, RecvPost]
      have hT : T = [] := by
        cases T with
        | nil => rfl
        | cons x xs => exact absurd (hmore.mpr (by simp)) (by simp)
      subst hT
      exact ⟨hq, hcore.2.2.2, by simpa using hresp, hp, hcore.1, hcore.2.1⟩
    | true =>
      have h10 : ¬ (((if true = true then 0x12 else 0x02) ||| ((pni + 1) % 2)) &&& 0x10 = 0) := by
        intro h; exact absurd ((ihead_and10 (tog_lt pni) true).mp h) (by simp)
      simp only [if_true] at h10 ⊢
      simp only [h10, if_false]
      have hT : T ≠ [] := hmore.mp rfl
      have hpost := blockLoop_post cfg (ackRound cfg pni T L') (ackRound_ok cfg hp T hT L')
        Q ⟨hQ _ (by simp), hQ _ (by simp), hQ _ (by simp [wtxBlock]; omega)⟩
        F nAck F 1 [0xA2 ||| pni] w (Or.inl ⟨hd.1, Or.inl rfl⟩) hq
      generalize blockLoop _ _ _ _ _ _ _ _ _ _ = r1 at hpost ⊢
      obtain ⟨w1, res⟩ := r1
      obtain ⟨hl1, hq1⟩ := hpost
      cases res with
      | error e =>
        simp only [RecvPost]
        exact ⟨hq1, st_log_ack cfg hl1.1, hl1.2⟩
      | ok d =>
        obtain ⟨hd1, rfl⟩ := hl1
        simp only [iBlock_cons]
        simp only [ihead_and1 hp, ne_eq, not_true_eq_false, if_false]
        refine ih ((pni + 1) % 2) _ _ w1 (T.drop cfg.chunk) (decide (cfg.chunk < T.length)) (T.take cfg.chunk)
          (tog_lt pni) ?_ ?_ ?_ ?_ hq1
        · simp [tog_tog hp, iBlock_cons]
        · simp [List.drop_eq_nil_iff]
        · simpa [tog_tog hp, iBlock_cons] using hd1
        · simpa [List.append_assoc] using hresp


theorem chunksAux_spec (miu : Nat) (hm : 1 ≤ miu) : ∀ (f : Nat) (l : Bytes), l.length ≤ f → l ≠ [] →
    (chunksAux miu f l).flatten = l ∧ chunksAux miu f l ≠ [] ∧ ∀ c ∈ chunksAux miu f l, c.length ≤ miu := by
  intro f
  induction f with
  | zero =>
    intro l hl hne
    cases l with
    | nil => exact absurd rfl hne
    | cons a t => simp at hl
  | succ f ih =>
    intro l hl hne
    unfold chunksAux
    split
    · rename_i h; simp [h]
    · rename_i h
      have hd : (l.drop miu).length ≤ f := by simp; omega
      have hdn : l.drop miu ≠ [] := by
        intro h0; have := congrArg List.length h0; simp at this; omega
      obtain ⟨h1, _, h3⟩ := ih (l.drop miu) hd hdn
      refine ⟨by simp [h1], by simp, ?_⟩
      intro c hc
      rcases List.mem_cons.mp hc with rfl | hc
      · simp; omega
      · exact h3 c hc

theorem chunks_spec (miu : Nat) (hm : 1 ≤ miu) (l : Bytes) (hne : l ≠ []) :
    (chunks miu l).flatten = l ∧ chunks miu l ≠ [] ∧ ∀ c ∈ chunks miu l, c.length ≤ miu := by
  unfold chunks
  rw [if_neg hne]
  exact chunksAux_spec miu hm l.length l (Nat.le_refl _) hne

/-- card and reader are in step: the card's block number is the other one, no partial command chain is held -/
def Sync (pni : Nat) (c : Card) : Prop := c.bn = (pni + 1) % 2 ∧ c.rxbuf = []

/-- everything `exchange` guarantees against the ISO/IEC 14443-4 card, for every fault script -/
def ExchPost (cfg : CardCfg) (cmd : Bytes) (Q : Bytes → Prop) (w : World Card) (r : World Card × Pcd × Py Bytes) : Prop :=
  (∀ b ∈ r.1.trace, Q b) ∧
  match r.2.2 with
  | .ok x => r.1.card.log = w.card.log ++ [cmd] ∧ x = cfg.app w.card.log.length cmd ∧
             r.2.1.pni < 2 ∧ Sync r.2.1.pni r.1.card
  | .error e => ErrKind e ∧ (r.1.card.log = w.card.log ∨ r.1.card.log = w.card.log ++ [cmd])

theorem exchangeCmd_post (cfg : CardCfg) (F : Nat) (pcd : Pcd) (cmd : Bytes) (w : World Card) (m : Nat)
    (hmiu : pcd.miu = (m : Int)) (hm : 1 ≤ m) (hcmd : cmd ≠ []) (hp : pcd.pni < 2)
    (hs : Sync pcd.pni w.card) (Q : Bytes → Prop) (hQ : ∀ b : Bytes, b.length ≤ m + 1 → Q b) (hq : ∀ b ∈ w.trace, Q b) :
    ExchPost cfg cmd Q w (exchangeCmd (isoPeer cfg) F pcd cmd w) := by
  have h0 : ¬ pcd.miu = 0 := by omega
  have h1 : ¬ (pcd.miu < 0 ∨ cmd = []) := by
    intro h; rcases h with h | h
    · omega
    · exact hcmd h
  have ht : pcd.miu.toNat = m := by omega
  obtain ⟨hfl, hne, hlen⟩ := chunks_spec m hm cmd hcmd
  have hsend := sendChunks_post cfg m F pcd.nNak hm w.card.log Q hQ (chunks m cmd) pcd.pni [] w hne hp hs.1 hs.2 rfl hlen hq
  unfold exchangeCmd
  simp only [h0, h1, if_false, ht]
  rw [hfl, List.nil_append] at hsend
  generalize sendChunks _ _ _ _ _ _ = r1 at hsend ⊢
  obtain ⟨w1, pni1, res⟩ := r1
  obtain ⟨hq1, hres⟩ := hsend
  cases res with
  | error e => exact ⟨hq1, hres⟩
  | ok d =>
    obtain ⟨hp1, hd, hdone⟩ := hres
    simp only at hp1 hd hdone hq1 ⊢
    have hrecv := recvChain_post cfg m F pcd.nAck hm (w.card.log ++ [cmd]) (cfg.app w.card.log.length cmd) Q hQ
      F pni1 d (d.drop 1) w1 ((cfg.app w.card.log.length cmd).drop cfg.chunk)
      (decide (cfg.chunk < (cfg.app w.card.log.length cmd).length)) ((cfg.app w.card.log.length cmd).take cfg.chunk)
      hp1 hd (by simp [List.drop_eq_nil_iff]) hdone (by rw [hd]; simp [iBlock_cons]) hq1
    generalize recvChain _ _ _ _ _ _ _ _ = r2 at hrecv ⊢
    obtain ⟨w2, pni2, res2⟩ := r2
    obtain ⟨hq2, hlog2, hres2⟩ := hrecv
    cases res2 with
    | error e => exact ⟨hq2, hres2, Or.inr hlog2⟩
    | ok x =>
      obtain ⟨hx, hp2, hb2, hr2⟩ := hres2
      exact ⟨hq2, hlog2, hx, hp2, hb2, hr2⟩


/-! ### exception classes, for every card whatsoever -/

/-- a non-empty block, or one of the documented errors -/
def SafeRes : Py Bytes → Prop
  | .ok d => d ≠ []
  | .error e => ErrKind e

theorem blockLoop_safe {σ} (P : Peer σ) (F n : Nat) (resend : Option Nat) (req rty : Bytes) :
    ∀ (f i : Nat) (out : Bytes) (w : World σ),
      SafeRes (blockLoop P F n resend req rty f i out w).2 := by
  intro f
  induction f with
  | zero => intro i out w; simp [blockLoop, ErrKind, SafeRes]
  | succ f ih =>
    intro i out w
    unfold blockLoop
    generalize xchgW P F w out = r
    obtain ⟨w1, rx⟩ := r
    cases rx with
    | data d =>
      cases d with
      | nil =>
        simp only
        split
        · exact ih _ _ _
        · simp [ErrKind, SafeRes]
      | cons a t =>
        simp only
        split
        · exact ih _ _ _
        · simp [SafeRes]
    | timeout =>
      simp only
      split
      · exact ih _ _ _
      · simp [ErrKind, SafeRes]
    | transmission =>
      simp only
      split
      · exact ih _ _ _
      · simp [ErrKind, SafeRes]
    | protocol => simp [ErrKind, SafeRes]
    | fuel => simp [ErrKind, SafeRes]

theorem sendChunks_safe {σ} (P : Peer σ) (F nNak : Nat) :
    ∀ (cs : List Bytes) (pni : Nat) (w : World σ), cs ≠ [] →
      SafeRes (sendChunks P F nNak cs pni w).2.2 := by
  intro cs
  induction cs with
  | nil => intro _ _ h; exact absurd rfl h
  | cons c rest ih =>
    intro pni w _
    unfold sendChunks
    simp only
    have hb := blockLoop_safe P F nNak (some (0xA2 ||| ((pni + 1) % 2)))
      (((if (!rest.isEmpty) = true then 0x12 else 0x02) ||| pni) :: c) [0xB2 ||| pni] F 1
      (((if (!rest.isEmpty) = true then 0x12 else 0x02) ||| pni) :: c) w
    generalize blockLoop _ _ _ _ _ _ _ _ _ _ = r at hb ⊢
    obtain ⟨w1, res⟩ := r
    cases res with
    | error e => simpa [SafeRes] using hb
    | ok d =>
      cases d with
      | nil => simp [SafeRes] at hb
      | cons a t =>
        simp only
        split
        · simp [ErrKind, SafeRes]
        · split
          · split
            · cases rest with
              | nil => simp_all
              | cons c2 r2 => exact ih _ _ (by simp)
            · simp [ErrKind, SafeRes]
          · split
            · simp [SafeRes]
            · simp [ErrKind, SafeRes]

theorem recvChain_safe {σ} (P : Peer σ) (F nAck : Nat) :
    ∀ (f pni : Nat) (data resp : Bytes) (w : World σ), data ≠ [] →
      ∀ e, (recvChain P F nAck f pni data resp w).2.2 = .error e → ErrKind e := by
  intro f
  induction f with
  | zero => intro pni data resp w _ e h; simp [recvChain] at h; simp [ErrKind, ← h]
  | succ f ih =>
    intro pni data resp w hne e
    unfold recvChain
    cases data with
    | nil => exact absurd rfl hne
    | cons a t =>
      simp only
      split
      · intro h; cases h
      · have hb := blockLoop_safe P F nAck none [0xA2 ||| pni] [0xA2 ||| pni] F 1 [0xA2 ||| pni] w
        generalize blockLoop _ _ _ _ _ _ _ _ _ _ = r at hb ⊢
        obtain ⟨w1, res⟩ := r
        cases res with
        | error e' => intro h; cases h; simpa [SafeRes] using hb
        | ok d =>
          cases d with
          | nil => simp [SafeRes] at hb
          | cons b t2 =>
            simp only
            split
            · intro h; cases h; simp [ErrKind]
            · exact ih _ _ _ _ (by simp) e

/-- `exchange` raises nothing but `Type4TagCommandError(TIMEOUT|RECEIVE|PROTOCOL)`, whatever the card
does (`outOfFuel` is the model's marker for a card that never stops asking for more) -/
theorem exchangeCmd_error_kind_any {σ} (P : Peer σ) (F : Nat) (pcd : Pcd) (cmd : Bytes) (w : World σ)
    (hm : 0 < pcd.miu) (hcmd : cmd ≠ []) (e : Exc) (h : (exchangeCmd P F pcd cmd w).2.2 = .error e) : ErrKind e := by
  have h0 : ¬ pcd.miu = 0 := by omega
  have h1 : ¬ (pcd.miu < 0 ∨ cmd = []) := by
    intro h; rcases h with h | h
    · omega
    · exact hcmd h
  have hne : chunks pcd.miu.toNat cmd ≠ [] := (chunks_spec pcd.miu.toNat (by omega) cmd hcmd).2.1
  unfold exchangeCmd at h
  simp only [h0, h1, if_false] at h
  have hs := sendChunks_safe P F pcd.nNak (chunks pcd.miu.toNat cmd) pcd.pni w hne
  generalize sendChunks _ _ _ _ _ _ = r at hs h
  obtain ⟨w1, p1, res⟩ := r
  cases res with
  | error e' => simp only [SafeRes] at h hs; cases h; exact hs
  | ok d =>
    simp only [SafeRes] at h hs
    exact recvChain_safe P F pcd.nAck F p1 d (d.drop 1) w1 hs e h

/-- `_exchange_command` never touches the error flag -/
theorem exchangeCmd_failed {σ} (P : Peer σ) (F : Nat) (pcd : Pcd) (cmd : Bytes) (w : World σ) :
    (exchangeCmd P F pcd cmd w).2.1.failed = pcd.failed := by
  unfold exchangeCmd
  split
  · rfl
  · split
    · rfl
    · simp only
      split <;> rfl

end NfcVerif.IsoDep
