import NfcVerif.Model.HistC01
import NfcVerif.Lemmas.TlvRetry
/-! C01: the memory reader's write-back with faults (`syncUnits`), attempts and histories on Type 1 / Type 2 Tags -/
namespace NfcVerif.Hist
open NfcVerif NfcVerif.Tlv

/-- no fault of the `late` kind (the tag never executes a command whose failure the reader sees) -/
def NoLate (f : Option Fault) : Prop := ∀ x, f = some x → x.late = false

theorem NoLate.none : NoLate none := by intro x h; cases h

theorem NoLate.pred {f : Option Fault} (h : NoLate f) : NoLate (f.map fun x => ⟨x.k - 1, x.late⟩) := by
  intro x hx
  cases f with
  | none => cases hx
  | some y => simp only [Option.map_some, Option.some.injEq] at hx; subst hx; exact h y rfl

/-- all three images have the length `n` -/
structure Len (st : RS) (n : Nat) : Prop where
  tag : st.tag.length = n
  belief : st.belief.length = n
  cache : st.cache.length = n

/-! ### `syncUnits` -/

theorem syncUnits_cache (u : Nat) (is : List Nat) (st : RS) (f : Option Fault) :
    (syncUnits u is st f).st.cache = st.cache := by
  induction is generalizing st f with
  | nil => rfl
  | cons i is ih =>
    simp only [syncUnits]
    split
    · split
      · split <;> rfl
      · simp only [ih]
    · exact ih st f

theorem syncUnits_len (u : Nat) (is : List Nat) (st : RS) (f : Option Fault) (n : Nat) (h : Len st n) :
    Len (syncUnits u is st f).st n := by
  induction is generalizing st f with
  | nil => exact h
  | cons i is ih =>
    simp only [syncUnits]
    split
    · split
      · split
        · exact ⟨by simp only [writeAt_length]; exact h.tag, h.belief, h.cache⟩
        · exact h
      · exact ih _ _ ⟨by simp only [writeAt_length]; exact h.tag, by simp only [writeAt_length]; exact h.belief, h.cache⟩
    · exact ih st f h

/-- the pending fault keeps its kind -/
theorem syncUnits_nolate (u : Nat) (is : List Nat) (st : RS) (f : Option Fault) (h : NoLate f) :
    NoLate (syncUnits u is st f).fault := by
  induction is generalizing st f with
  | nil => exact h
  | cons i is ih =>
    simp only [syncUnits]
    split
    · split
      · split <;> exact NoLate.none
      · exact ih _ _ h.pred
    · exact ih st f h

/-- without a fault the write-back never fails -/
theorem syncUnits_none (u : Nat) (is : List Nat) (st : RS) :
    (syncUnits u is st none).failed = false ∧ (syncUnits u is st none).fault = none := by
  induction is generalizing st with
  | nil => exact ⟨rfl, rfl⟩
  | cons i is ih =>
    simp only [syncUnits]
    split
    · exact ih _
    · exact ih st

/-- **cache coherence**: as long as the tag executes no command whose failure the reader sees, the picture
`_data_from_tag` equals the tag after every `synchronize()`, failed or not -/
theorem syncUnits_coherent (u : Nat) (is : List Nat) (st : RS) (f : Option Fault) (hf : NoLate f)
    (h : st.tag = st.belief) : (syncUnits u is st f).st.tag = (syncUnits u is st f).st.belief := by
  induction is generalizing st f with
  | nil => exact h
  | cons i is ih =>
    by_cases hne : sliceN st.cache (i * u) (i * u + u) ≠ sliceN st.belief (i * u) (i * u + u)
    · rcases f with _ | ⟨k, late⟩
      · simp only [syncUnits, if_pos hne]
        exact ih _ _ hf.pred (by simp only [h])
      · cases k with
        | zero =>
          have : late = false := hf _ rfl
          subst this
          simp only [syncUnits, if_pos hne]
          exact h
        | succ k =>
          simp only [syncUnits, if_pos hne]
          exact ih _ _ hf.pred (by simp only [h])
    · simp only [syncUnits, if_neg hne]
      exact ih st f hf h

/-- tag and picture keep agreeing with `m` below `B` when the cache does -/
theorem syncUnits_below (u : Nat) (is : List Nat) (st : RS) (f : Option Fault) (m : Bytes) (B : Nat)
    (hl : Len st m.length) (hc : ∀ x, x < B → st.cache[x]? = m[x]?)
    (ht : ∀ x, x < B → st.tag[x]? = m[x]?) (hb : ∀ x, x < B → st.belief[x]? = m[x]?) :
    (∀ x, x < B → (syncUnits u is st f).st.tag[x]? = m[x]?) ∧
    (∀ x, x < B → (syncUnits u is st f).st.belief[x]? = m[x]?) := by
  induction is generalizing st f with
  | nil => exact ⟨ht, hb⟩
  | cons i is ih =>
    have hwt : ∀ x, x < B → (writeAt st.tag (i * u) (sliceN st.cache (i * u) (i * u + u)))[x]? = m[x]? := by
      intro x hx
      rw [writeAt_slice_get _ _ _ _ _ (by rw [hl.tag, hl.cache])]
      split
      · exact hc x hx
      · exact ht x hx
    have hwb : ∀ x, x < B → (writeAt st.belief (i * u) (sliceN st.cache (i * u) (i * u + u)))[x]? = m[x]? := by
      intro x hx
      rw [writeAt_slice_get _ _ _ _ _ (by rw [hl.belief, hl.cache])]
      split
      · exact hc x hx
      · exact hb x hx
    simp only [syncUnits]
    split
    · split
      · split
        · exact ⟨hwt, hb⟩
        · exact ⟨ht, hb⟩
      · exact ih _ _ ⟨by simp only [writeAt_length]; exact hl.tag, by simp only [writeAt_length]; exact hl.belief, hl.cache⟩
          hc hwt hwb
    · exact ih st f hl hc ht hb

/-- unit `i` of an image is not touched by writing unit `j ≠ i` -/
theorem slice_writeAt_other (b c : Bytes) (u i j : Nat) (hij : i ≠ j) (hl : b.length = c.length) :
    sliceN (writeAt b (j * u) (sliceN c (j * u) (j * u + u))) (i * u) (i * u + u) = sliceN b (i * u) (i * u + u) := by
  apply sliceN_eq_of
  intro k hk
  rw [writeAt_slice_get _ _ _ _ _ hl]
  rw [if_neg]
  intro ⟨h1, h2⟩
  rcases Nat.lt_or_gt_of_ne hij with h | h
  · have : (i + 1) * u ≤ j * u := Nat.mul_le_mul_right u h
    rw [Nat.add_mul] at this; omega
  · have : (j + 1) * u ≤ i * u := Nat.mul_le_mul_right u h
    rw [Nat.add_mul] at this; omega

/-- the picture after a write-back that did not fail: every handled unit holds the cache content -/
theorem syncUnits_done (u : Nat) (is : List Nat) (st : RS) (f : Option Fault) (n : Nat) (hl : Len st n)
    (hok : (syncUnits u is st f).failed = false) :
    ∀ x, (syncUnits u is st f).st.belief[x]? =
      if ∃ i ∈ is, i * u ≤ x ∧ x < i * u + u then st.cache[x]? else st.belief[x]? := by
  induction is generalizing st f with
  | nil => intro x; simp [syncUnits]
  | cons i is ih =>
    intro x
    have hl' : Len ({ tag := writeAt st.tag (i * u) (sliceN st.cache (i * u) (i * u + u)),
                      belief := writeAt st.belief (i * u) (sliceN st.cache (i * u) (i * u + u)),
                      cache := st.cache } : RS) n :=
      ⟨by simp only [writeAt_length]; exact hl.tag, by simp only [writeAt_length]; exact hl.belief, hl.cache⟩
    have step : ∀ (s1 : RS) f', s1 = (⟨writeAt st.tag (i * u) (sliceN st.cache (i * u) (i * u + u)),
          writeAt st.belief (i * u) (sliceN st.cache (i * u) (i * u + u)), st.cache⟩ : RS) →
        (syncUnits u is s1 f').failed = false →
        (syncUnits u is s1 f').st.belief[x]? =
          if ∃ a ∈ i :: is, a * u ≤ x ∧ x < a * u + u then st.cache[x]? else st.belief[x]? := by
      intro s1 f' hs1 hok'
      subst hs1
      rw [ih _ _ hl' hok' x]
      simp only [List.mem_cons, exists_eq_or_imp]
      by_cases h2 : ∃ a ∈ is, a * u ≤ x ∧ x < a * u + u
      · rw [if_pos h2, if_pos (Or.inr h2)]
      · rw [if_neg h2, writeAt_slice_get _ _ _ _ _ (by rw [hl.belief, hl.cache])]
        by_cases h1 : i * u ≤ x ∧ x < i * u + u
        · rw [if_pos h1, if_pos (Or.inl h1)]
        · rw [if_neg h1, if_neg (by rintro (h | h); exact h1 h; exact h2 h)]
    by_cases hne : sliceN st.cache (i * u) (i * u + u) ≠ sliceN st.belief (i * u) (i * u + u)
    · rcases f with _ | ⟨k, late⟩
      · simp only [syncUnits, if_pos hne] at hok ⊢
        exact step _ _ rfl hok
      · cases k with
        | zero =>
          simp only [syncUnits, if_pos hne] at hok
          split at hok <;> cases hok
        | succ k =>
          simp only [syncUnits, if_pos hne] at hok ⊢
          exact step _ _ rfl hok
    · simp only [syncUnits, if_neg hne] at hok ⊢
      rw [ih st f hl hok x]
      simp only [List.mem_cons, exists_eq_or_imp]
      by_cases h2 : ∃ a ∈ is, a * u ≤ x ∧ x < a * u + u
      · rw [if_pos h2, if_pos (Or.inr h2)]
      · rw [if_neg h2]
        by_cases h1 : i * u ≤ x ∧ x < i * u + u
        · rw [if_pos (Or.inl h1)]
          have heq' : sliceN st.cache (i * u) (i * u + u) = sliceN st.belief (i * u) (i * u + u) := by
            simpa using hne
          have := congrArg (fun l => l[x - i * u]?) heq'
          simp only [sliceN_get, if_pos (show x - i * u < u by omega)] at this
          have e : i * u + (x - i * u) = x := by omega
          rw [e] at this; exact this.symm
        · rw [if_neg (by rintro (h | h); exact h1 h; exact h2 h)]

/-- `synchronize()` that did not fail: the picture is the cache -/
theorem sync_done (u : Nat) (hu : 0 < u) (st : RS) (f : Option Fault) (n : Nat) (hl : Len st n)
    (hok : (sync u st f).failed = false) : (sync u st f).st.belief = st.cache := by
  apply List.ext_getElem?
  intro x
  unfold sync at hok ⊢
  rw [syncUnits_done u _ st f n hl hok x]
  by_cases hx : x < n
  · rw [if_pos]
    refine ⟨x / u, ?_, ?_⟩
    · rw [List.mem_range, hl.belief]
      have h1 := Nat.div_add_mod x u
      have h2 := Nat.mod_lt x hu
      have h3 := Nat.div_add_mod (n + u - 1) u
      have h4 := Nat.mod_lt (n + u - 1) hu
      apply Classical.byContradiction
      intro hge
      have hge : (n + u - 1) / u ≤ x / u := by omega
      have := Nat.mul_le_mul_left u hge
      omega
    · have := div_bounds x u hu; omega
  · have e1 : st.cache[x]? = none := List.getElem?_eq_none (by rw [hl.cache]; omega)
    have e2 : st.belief[x]? = none := List.getElem?_eq_none (by rw [hl.belief]; omega)
    rw [e1, e2]; split <;> rfl

/-! ### one attempt -/

/-- what holds of the object's state throughout a history (relative to the image `m` found at activation):
the three images have the size of `m`, the picture equals the tag, tag and cache equal `m` below `B` -/
structure Inv (m : Bytes) (B : Nat) (st : RS) : Prop where
  len : Len st m.length
  coh : st.tag = st.belief
  tag : ∀ x, x < B → st.tag[x]? = m[x]?
  cache : ∀ x, x < B → st.cache[x]? = m[x]?

theorem Inv.withCache {m : Bytes} {B : Nat} {st : RS} (hi : Inv m B st) (C : Bytes) (hl : C.length = m.length)
    (hb : ∀ x, x < B → C[x]? = m[x]?) : Inv m B { st with cache := C } :=
  ⟨⟨hi.len.tag, hi.len.belief, hl⟩, hi.coh, hi.tag, hb⟩

theorem Inv.fresh (m : Bytes) (B : Nat) : Inv m B (fresh m) :=
  ⟨⟨rfl, rfl, rfl⟩, rfl, fun _ _ => rfl, fun _ _ => rfl⟩

theorem sync_step (u : Nat) (hu : 0 < u) (m : Bytes) (B : Nat) (s : RS) (f : Option Fault) (hi : Inv m B s)
    (hf : NoLate f) :
    Inv m B (sync u s f).st ∧ NoLate (sync u s f).fault ∧ (sync u s f).st.cache = s.cache ∧
    ((sync u s f).failed = false → (sync u s f).st.tag = s.cache ∧ (sync u s f).st.belief = s.cache) ∧
    (f = none → (sync u s f).failed = false ∧ (sync u s f).fault = none) := by
  have hlen := syncUnits_len u (List.range ((s.belief.length + u - 1) / u)) s f m.length hi.len
  have hcoh := syncUnits_coherent u (List.range ((s.belief.length + u - 1) / u)) s f hf hi.coh
  have hbel := syncUnits_below u (List.range ((s.belief.length + u - 1) / u)) s f m B hi.len hi.cache hi.tag
    (by intro x hx; rw [← hi.coh]; exact hi.tag x hx)
  have hca := syncUnits_cache u (List.range ((s.belief.length + u - 1) / u)) s f
  refine ⟨⟨hlen, hcoh, hbel.1, ?_⟩, syncUnits_nolate u _ s f hf, hca, ?_, ?_⟩
  · intro x hx; unfold sync; rw [hca]; exact hi.cache x hx
  · intro hok
    have := sync_done u hu s f m.length hi.len hok
    exact ⟨by unfold sync at this ⊢; rw [hcoh]; exact this, this⟩
  · intro hn; subst hn; exact syncUnits_none u _ s

theorem writeFrom_spec (c : Cfg) (m : Bytes) (L : Layout) (data : Bytes) (st : RS) (f : Option Fault)
    (hr : ReadsAs c m L) (hwf : WF c m L) (hcap : (data.length : Int) ≤ L.cap)
    (hi : Inv m (L.off + 1) st) (hf : NoLate f) :
    Inv m (L.off + 1) (writeFrom c L st data f).st ∧
    ((writeFrom c L st data f).res = .ok () →
      ReadsAs c (writeFrom c L st data f).st.tag { L with ndef := data } ∧
      (writeFrom c L st data f).st.tag[L.off + 1]? = some (if data.length < 255 then data.length else 255)) ∧
    (f = none → (writeFrom c L st data f).res = .ok ()) := by
  have hu : 0 < c.unit := hwf.2.1
  have harea := hwf.2.2.2.1
  have hcap' := hcap
  rw [hr.cap] at hcap'
  have hfit := (endAddr_le_area L.skip L.off L.areaEnd data.length hcap').1
  have hh := hdrLen_ge data.length
  have hCl := hi.len.cache
  have hlt : L.off + 1 < st.cache.length := by omega
  have hC1l : (st.cache.set (L.off + 1) 0).length = m.length := by simp [hCl]
  have hC1b : ∀ x, x < L.off + 1 → (st.cache.set (L.off + 1) 0)[x]? = m[x]? := fun x hx => by
    rw [get_set_ne _ _ _ _ (by omega)]; exact hi.cache x hx
  have hC10 : (st.cache.set (L.off + 1) 0)[L.off + 1]? = some 0 := get_set_eq _ _ _ hlt
  have hr1 : ReadsAs c (st.cache.set (L.off + 1) 0) { L with ndef := [] } := empty_view c m _ L hr hwf hC1b hC10
  have hwf1 : WF c (st.cache.set (L.off + 1) 0) { L with ndef := [] } := wf_transfer c m _ L hwf hC1l hC1b
  obtain ⟨m1, m2, m3a, m3, w, hnew⟩ := roundtrip c (st.cache.set (L.off + 1) 0) { L with ndef := [] } data hr1 hwf1 hcap
  have hm1 : m1 = st.cache.set (L.off + 1) 0 := by rw [w.m1_eq]; simp
  have hp1 : phase1 c st.cache L.off = .ok (st.cache.set (L.off + 1) 0) := wr_ok c _ _ _ hlt
  have hp2 : phase2 c (st.cache.set (L.off + 1) 0) L.off L.skip L.areaEnd data = .ok m2 := by
    have := w.p2; rw [hm1] at this; exact this
  have hp3a : phase3a c m2 L.off data.length = .ok m3a := w.p3a
  have hp3 : phase3 c m3a L.off data.length = .ok m3 := w.p3
  have hl2 : m2.length = m.length := by rw [w.len2, hC1l]
  have hl3 : m3.length = m.length := by rw [w.len3, hC1l]
  have hl3a : m3a.length = m.length := by rw [w.m3a_eq, pre3_length, hl2]
  have b2 : ∀ x, x < L.off + 1 → m2[x]? = m[x]? := fun x hx => by rw [(w.below x hx).2.1]; exact hC1b x hx
  have b3 : ∀ x, x < L.off + 1 → m3[x]? = m[x]? := fun x hx => by rw [(w.below x hx).2.2]; exact hC1b x hx
  have b3a : ∀ x, x < L.off + 1 → m3a[x]? = m[x]? := fun x hx => by
    rw [w.m3a_eq, pre3_get _ _ _ _ x (by show x ≠ L.off + 2; omega) (by show x ≠ L.off + 3; omega)]; exact b2 x hx
  unfold writeFrom
  rw [hp1]
  simp only
  obtain ⟨i1, n1, c1, d1, e1⟩ := sync_step c.unit hu m (L.off + 1) { st with cache := st.cache.set (L.off + 1) 0 } f
    (hi.withCache _ hC1l hC1b) hf
  split
  · rename_i hfail
    refine ⟨i1, (fun h => nomatch h), fun hn => ?_⟩
    rw [(e1 hn).1] at hfail; cases hfail
  rename_i hok1
  have hok1 : (sync c.unit { st with cache := st.cache.set (L.off + 1) 0 } f).failed = false := by simpa using hok1
  rw [hp2]
  simp only
  obtain ⟨i2, n2, c2, d2, e2⟩ := sync_step c.unit hu m (L.off + 1)
    { (sync c.unit { st with cache := st.cache.set (L.off + 1) 0 } f).st with cache := m2 }
    (sync c.unit { st with cache := st.cache.set (L.off + 1) 0 } f).fault (i1.withCache _ hl2 b2) n1
  split
  · rename_i hfail
    refine ⟨i2, (fun h => nomatch h), fun hn => ?_⟩
    rw [(e2 (e1 hn).2).1] at hfail; cases hfail
  rename_i hok2
  rw [hp3a]
  simp only
  obtain ⟨i3a, n3a, c3a, d3a, e3a⟩ := sync_step c.unit hu m (L.off + 1)
    { (sync c.unit { (sync c.unit { st with cache := st.cache.set (L.off + 1) 0 } f).st with cache := m2 }
        (sync c.unit { st with cache := st.cache.set (L.off + 1) 0 } f).fault).st with cache := m3a }
    (sync c.unit { (sync c.unit { st with cache := st.cache.set (L.off + 1) 0 } f).st with cache := m2 }
        (sync c.unit { st with cache := st.cache.set (L.off + 1) 0 } f).fault).fault (i2.withCache _ hl3a b3a) n2
  split
  · rename_i hfail
    refine ⟨i3a, (fun h => nomatch h), fun hn => ?_⟩
    rw [(e3a (e2 (e1 hn).2).2).1] at hfail; cases hfail
  rename_i hok3a
  rw [hp3]
  simp only
  obtain ⟨i3, n3, c3, d3, e3⟩ := sync_step c.unit hu m (L.off + 1)
    { (sync c.unit { (sync c.unit { (sync c.unit { st with cache := st.cache.set (L.off + 1) 0 } f).st with cache := m2 }
        (sync c.unit { st with cache := st.cache.set (L.off + 1) 0 } f).fault).st with cache := m3a }
        (sync c.unit { (sync c.unit { st with cache := st.cache.set (L.off + 1) 0 } f).st with cache := m2 }
        (sync c.unit { st with cache := st.cache.set (L.off + 1) 0 } f).fault).fault).st with cache := m3 }
    (sync c.unit { (sync c.unit { (sync c.unit { st with cache := st.cache.set (L.off + 1) 0 } f).st with cache := m2 }
        (sync c.unit { st with cache := st.cache.set (L.off + 1) 0 } f).fault).st with cache := m3a }
        (sync c.unit { (sync c.unit { st with cache := st.cache.set (L.off + 1) 0 } f).st with cache := m2 }
        (sync c.unit { st with cache := st.cache.set (L.off + 1) 0 } f).fault).fault).fault (i3a.withCache _ hl3 b3) n3a
  refine ⟨i3, ?_, fun hn => ?_⟩
  · intro hres
    split at hres
    · cases hres
    · rename_i hok3
      rw [(d3 (by simpa using hok3)).1]
      refine ⟨hnew, ?_⟩
      have hlt2 : L.off + 1 < m2.length := by omega
      rw [w.m3_eq]
      split
      · exact get_set_eq _ _ _ hlt2
      · rw [get_set_ne _ _ _ _ (by show L.off + 3 ≠ L.off + 1; omega), get_set_ne _ _ _ _ (by show L.off + 2 ≠ L.off + 1; omega)]
        exact get_set_eq _ _ _ hlt2
  · rw [(e3 (e3a (e2 (e1 hn).2).2).2).1]; rfl

/-! ### histories -/

theorem attempt_inv (c : Cfg) (m : Bytes) (L : Layout) (data : Bytes) (st : RS) (f : Option Fault)
    (hr : ReadsAs c m L) (hwf : WF c m L) (hi : Inv m (L.off + 1) st) (hf : NoLate f) :
    Inv m (L.off + 1) (attempt c L st data f).st := by
  unfold attempt
  split
  · exact hi
  · split
    · exact hi
    · rename_i hc
      exact (writeFrom_spec c m L data st f hr hwf (by omega) hi hf).1

theorem history_inv (c : Cfg) (m : Bytes) (L : Layout) (hr : ReadsAs c m L) (hwf : WF c m L)
    (hs : List (Bytes × Option Fault)) (hnl : ∀ a ∈ hs, NoLate a.2) (st : RS) (hi : Inv m (L.off + 1) st) :
    Inv m (L.off + 1) (history c L st hs).1 := by
  induction hs generalizing st with
  | nil => exact hi
  | cons a rest ih =>
    obtain ⟨d, f⟩ := a
    simp only [history]
    exact ih (fun b hb => hnl b (List.mem_cons_of_mem _ hb)) _
      (attempt_inv c m L d st f hr hwf hi (hnl (d, f) List.mem_cons_self))

/-- **a completed assignment is read back, whatever failed before it** -/
theorem history_roundtrip (c : Cfg) (m : Bytes) (L : Layout) (hr : ReadsAs c m L) (hwf : WF c m L)
    (hw : L.writeable = true) (hs : List (Bytes × Option Fault)) (hnl : ∀ a ∈ hs, NoLate a.2)
    (data : Bytes) (hcap : (data.length : Int) ≤ L.cap) :
    (attempt c L (history c L (fresh m) hs).1 data none).res = .ok () ∧
    ReadsAs c (attempt c L (history c L (fresh m) hs).1 data none).st.tag { L with ndef := data } ∧
    readBack c (attempt c L (history c L (fresh m) hs).1 data none).st.tag = .ok (some { L with ndef := data }) := by
  have hi := history_inv c m L hr hwf hs hnl (fresh m) (Inv.fresh m _)
  have hsp := writeFrom_spec c m L data _ none hr hwf hcap hi NoLate.none
  unfold attempt
  rw [if_neg (by simp [hw]), if_neg (by omega)]
  obtain ⟨hra, hlen⟩ := hsp.2.1 (hsp.2.2 rfl)
  refine ⟨hsp.2.2 rfl, hra, ?_⟩
  unfold readBack
  rw [(readNdef_some c _ _).2 hra]
  simp only [hlen]
  have hcap' := hcap
  rw [hr.cap] at hcap'
  have hfit := cap_fits L.skip L.off L.areaEnd data.length hcap'
  have hend := (endAddr_le_area L.skip L.off L.areaEnd data.length hcap').1
  have hsplit : countFree L.skip L.off L.areaEnd
      = cfree L.skip L.off (hdrLen data.length) + countFree L.skip (L.off + hdrLen data.length) L.areaEnd := by
    unfold countFree
    rw [show L.areaEnd - L.off = hdrLen data.length + (L.areaEnd - (L.off + hdrLen data.length)) by omega]
    exact cfree_split _ _ _ _
  have hle := cfree_le L.skip L.off (hdrLen data.length)
  have hh : (if (if data.length < 255 then data.length else 255) = 255 then 4 else 2) = hdrLen data.length := by
    unfold hdrLen; split <;> simp_all <;> omega
  have hh' : (if some (if data.length < 255 then data.length else 255) = some 255 then 4 else 2) = hdrLen data.length := by
    simpa using hh
  rw [hh']
  rw [if_pos ⟨by omega, by omega⟩]

/-! ### without a fault the attempt is the writer of `Model/Tlv.lean` -/

theorem filterMap_congr' {α β} (f g : α → Option β) (l : List α) (h : ∀ a ∈ l, f a = g a) :
    l.filterMap f = l.filterMap g := by
  induction l with
  | nil => rfl
  | cons a l ih =>
    simp only [List.filterMap_cons, h a List.mem_cons_self, ih (fun b hb => h b (List.mem_cons_of_mem _ hb))]

theorem syncUnits_cmds_none (u : Nat) (N : Nat) : ∀ (n s : Nat) (st : RS), Len st N →
    (syncUnits u (List.range' s n) st none).cmds = (List.range' s n).filterMap fun i =>
      if sliceN st.belief (i * u) (i * u + u) ≠ sliceN st.cache (i * u) (i * u + u)
      then some (i * u, sliceN st.cache (i * u) (i * u + u)) else none := by
  intro n
  induction n with
  | zero => intro s st _; rfl
  | succ n ih =>
    intro s st hl
    rw [List.range'_succ]
    by_cases hne : sliceN st.cache (s * u) (s * u + u) ≠ sliceN st.belief (s * u) (s * u + u)
    · simp only [syncUnits, if_pos hne, Option.map_none, List.filterMap_cons, if_pos (Ne.symm hne)]
      rw [ih (s + 1) ⟨writeAt st.tag (s * u) (sliceN st.cache (s * u) (s * u + u)),
        writeAt st.belief (s * u) (sliceN st.cache (s * u) (s * u + u)), st.cache⟩
        ⟨by rw [writeAt_length]; exact hl.tag, by rw [writeAt_length]; exact hl.belief, hl.cache⟩]
      congr 1
      apply filterMap_congr'
      intro i hi
      rw [List.mem_range'_1] at hi
      rw [slice_writeAt_other st.belief st.cache u i s (by omega) (by rw [hl.belief, hl.cache])]
    · simp only [syncUnits, if_neg hne, List.filterMap_cons]
      have heq : sliceN st.belief (s * u) (s * u + u) = sliceN st.cache (s * u) (s * u + u) := by
        have : sliceN st.cache (s * u) (s * u + u) = sliceN st.belief (s * u) (s * u + u) := by simpa using hne
        exact this.symm
      rw [if_neg (by simp [heq])]
      exact ih (s + 1) st hl

theorem sync_cmds_none (u : Nat) (st : RS) (N : Nat) (hl : Len st N) :
    (sync u st none).cmds = diffUnits u st.belief st.cache := by
  unfold sync diffUnits
  rw [List.range_eq_range', syncUnits_cmds_none u N _ 0 st hl]

theorem place_length (c : Cfg) (s : Skip) : ∀ (ds m : Bytes) (a : Nat) (r : Bytes × Nat),
    place c s m a ds = .ok r → r.1.length = m.length := by
  intro ds
  induction ds with
  | nil => intro m a r h; simp only [place] at h; cases h; rfl
  | cons d ds ih =>
    intro m a r h
    simp only [place] at h
    obtain ⟨m', h1, h2⟩ := Py.bind_eq_ok.1 h
    obtain ⟨_, rfl⟩ := wr_inv c m m' _ _ h1
    rw [ih _ _ _ h2]; simp

theorem phase2_length (c : Cfg) (m1 : Bytes) (off : Nat) (skip : Skip) (e : Nat) (data m2 : Bytes)
    (h : phase2 c m1 off skip e data = .ok m2) : m2.length = m1.length := by
  unfold phase2 at h
  obtain ⟨pe, h1, h2⟩ := Py.bind_eq_ok.1 h
  have hl := place_length c skip data m1 _ pe h1
  split at h2
  · obtain ⟨_, rfl⟩ := wr_inv c _ _ _ _ h2; simp [hl]
  · cases h2; exact hl

theorem phase3a_length (c : Cfg) (m2 : Bytes) (off n : Nat) (m3a : Bytes)
    (h : phase3a c m2 off n = .ok m3a) : m3a.length = m2.length := by
  unfold phase3a at h
  split at h
  · cases h; rfl
  · split at h
    · obtain ⟨x, h1, h2⟩ := Py.bind_eq_ok.1 h
      obtain ⟨_, rfl⟩ := wr_inv c _ _ _ _ h1
      obtain ⟨_, rfl⟩ := wr_inv c _ _ _ _ h2
      simp
    · obtain ⟨x, h1, h2⟩ := Py.bind_eq_ok.1 h
      have hx : x.length = m2.length := by
        split at h1
        · obtain ⟨_, rfl⟩ := wr_inv c _ _ _ _ h1; simp
        · cases h1; rfl
      split at h2
      · obtain ⟨_, rfl⟩ := wr_inv c _ _ _ _ h2; simp [hx]
      · cases h2; exact hx

theorem phase3_length (c : Cfg) (m3a : Bytes) (off n : Nat) (m3 : Bytes)
    (h : phase3 c m3a off n = .ok m3) : m3.length = m3a.length := by
  unfold phase3 at h
  split at h
  · obtain ⟨_, rfl⟩ := wr_inv c _ _ _ _ h; simp
  · obtain ⟨x, h1, h⟩ := Py.bind_eq_ok.1 h
    obtain ⟨y, h2, h3⟩ := Py.bind_eq_ok.1 h
    obtain ⟨_, rfl⟩ := wr_inv c _ _ _ _ h1
    obtain ⟨_, rfl⟩ := wr_inv c _ _ _ _ h2
    obtain ⟨_, rfl⟩ := wr_inv c _ _ _ _ h3
    simp

/-- a `synchronize()` without a fault from a state whose picture equals the tag: the commands are the units
in which picture and cache differ, afterwards tag = picture = cache -/
theorem sync_clean (u : Nat) (hu : 0 < u) (b C : Bytes) (hl : C.length = b.length) :
    (sync u ⟨b, b, C⟩ none).cmds = diffUnits u b C ∧ (sync u ⟨b, b, C⟩ none).st = ⟨C, C, C⟩ ∧
    (sync u ⟨b, b, C⟩ none).failed = false ∧ (sync u ⟨b, b, C⟩ none).fault = none := by
  have hlen : Len (⟨b, b, C⟩ : RS) b.length := ⟨rfl, rfl, hl⟩
  have hn := syncUnits_none u (List.range ((b.length + u - 1) / u)) ⟨b, b, C⟩
  have hd := sync_done u hu ⟨b, b, C⟩ none b.length hlen hn.1
  have hc := syncUnits_coherent u (List.range ((b.length + u - 1) / u)) ⟨b, b, C⟩ none NoLate.none rfl
  have hca := syncUnits_cache u (List.range ((b.length + u - 1) / u)) ⟨b, b, C⟩ none
  refine ⟨sync_cmds_none u _ _ hlen, ?_, hn.1, hn.2⟩
  unfold sync at hd ⊢
  generalize syncUnits u (List.range ((b.length + u - 1) / u)) ⟨b, b, C⟩ none = r at *
  obtain ⟨⟨t, bl, ca⟩, _, _, _⟩ := r
  simp only at hd hc hca
  subst hd hca hc
  rfl

theorem writeFrom_clean (c : Cfg) (hu : 0 < c.unit) (m : Bytes) (L : Layout) (data : Bytes) :
    (writeFrom c L (fresh m) data none).cmds = (writeCmds c m L data).cmds ∧
    (writeFrom c L (fresh m) data none).res = (writeCmds c m L data).res := by
  unfold writeFrom writeCmds fresh
  cases h1 : phase1 c m L.off with
  | error e => exact ⟨rfl, rfl⟩
  | ok m1 =>
    have hl1 : m1.length = m.length := by
      unfold phase1 at h1; obtain ⟨_, rfl⟩ := wr_inv c _ _ _ _ h1; simp
    obtain ⟨a1, b1, c1, d1⟩ := sync_clean c.unit hu m m1 hl1
    simp only [a1, b1, c1, d1]
    cases h2 : phase2 c m1 L.off L.skip L.areaEnd data with
    | error e => exact ⟨rfl, rfl⟩
    | ok m2 =>
      have hl2 := phase2_length c _ _ _ _ _ _ h2
      obtain ⟨a2, b2, c2, d2⟩ := sync_clean c.unit hu m1 m2 hl2
      simp only [a2, b2, c2, d2]
      cases h3a : phase3a c m2 L.off data.length with
      | error e => exact ⟨rfl, rfl⟩
      | ok m3a =>
        have hl3a := phase3a_length c _ _ _ _ h3a
        obtain ⟨a3a, b3a, c3a, d3a⟩ := sync_clean c.unit hu m2 m3a hl3a
        simp only [a3a, b3a, c3a, d3a]
        cases h3 : phase3 c m3a L.off data.length with
        | error e => exact ⟨rfl, rfl⟩
        | ok m3 =>
          have hl3 := phase3_length c _ _ _ _ h3
          obtain ⟨a3, b3, c3, d3⟩ := sync_clean c.unit hu m3a m3 hl3
          simp only [a3, b3, c3]
          exact ⟨rfl, rfl⟩

theorem attempt_clean (c : Cfg) (hu : 0 < c.unit) (m : Bytes) (L : Layout) (data : Bytes) :
    (attempt c L (fresh m) data none).cmds = (setOctets c m L data).cmds ∧
    (attempt c L (fresh m) data none).res = (setOctets c m L data).res := by
  unfold attempt setOctets
  split
  · exact ⟨rfl, rfl⟩
  · split
    · exact ⟨rfl, rfl⟩
    · exact writeFrom_clean c hu m L data

end NfcVerif.Hist
