import NfcVerif.Model.Crc
/-!
Helper lemmas for the CRC theorems of C14.

`byteStep_eq_iso` (the eight-iteration bit loop of `calculate_crc` equals the
ISO/IEC 14443-3 Annex B byte update for every register value and every octet,
2^24 cases) is proved without enumeration of the product space: both functions
are GF(2)-linear in (register, octet), hence determined by their values on the
three 8-bit "axes" (low register byte, high register byte, octet), and on
each axis the 256 cases are checked by kernel evaluation (`decide +kernel`).
-/
namespace NfcVerif.Crc

theorem xor_cancel2 (k x y : BitVec 16) : x ^^^ k ^^^ (y ^^^ k) = x ^^^ y := by
  have : x ^^^ k ^^^ (y ^^^ k) = (k ^^^ k) ^^^ (x ^^^ y) := by ac_rfl
  rw [this, BitVec.xor_self, BitVec.zero_xor]

theorem bitStep_xor (r s : BitVec 16) (a b : Bool) :
    bitStep (r ^^^ s) (a != b) = bitStep r a ^^^ bitStep s b := by
  unfold bitStep
  simp only [BitVec.getLsbD_xor, BitVec.ushiftRight_xor_distrib]
  cases r.getLsbD 0 <;> cases s.getLsbD 0 <;> cases a <;> cases b <;> simp <;>
    first | ac_rfl | (rw [xor_cancel2])

theorem byteStep_xor (r s : BitVec 16) (a b : BitVec 8) :
    byteStep (r ^^^ s) (a ^^^ b) = byteStep r a ^^^ byteStep s b := by
  unfold byteStep
  simp only [BitVec.getLsbD_xor, bitStep_xor]

theorem isoUpdate_xor (r s : BitVec 16) (a b : BitVec 8) :
    isoUpdate (r ^^^ s) (a ^^^ b) = isoUpdate r a ^^^ isoUpdate s b := by
  unfold isoUpdate
  simp only [BitVec.setWidth_xor, BitVec.shiftLeft_xor_distrib, BitVec.ushiftRight_xor_distrib]
  ac_rfl

/-- agreement on the three 256-element "axes" -/
theorem agree_lo : ∀ x : BitVec 8, byteStep (x.setWidth 16) 0#8 = isoUpdate (x.setWidth 16) 0#8 := by decide +kernel
theorem agree_hi : ∀ x : BitVec 8, byteStep (x.setWidth 16 <<< 8) 0#8 = isoUpdate (x.setWidth 16 <<< 8) 0#8 := by decide +kernel
theorem agree_ch : ∀ x : BitVec 8, byteStep 0#16 x = isoUpdate 0#16 x := by decide +kernel

theorem split16 (r : BitVec 16) : r = ((r >>> 8).setWidth 8).setWidth 16 <<< 8 ^^^ (r.setWidth 8).setWidth 16 := by
  apply BitVec.eq_of_getLsbD_eq
  intro i hi
  simp only [BitVec.getLsbD_xor, BitVec.getLsbD_shiftLeft, BitVec.getLsbD_setWidth, BitVec.getLsbD_ushiftRight]
  by_cases h : i < 8
  · simp [h, hi]
  · have h3 : 8 + (i - 8) = i := by omega
    have h4 : i - 8 < 8 := by omega
    simp [h, h3, h4, hi]
    intro _; omega

theorem byteStep_eq_iso (r : BitVec 16) (c : BitVec 8) : byteStep r c = isoUpdate r c := by
  have h1 : r = (((r >>> 8).setWidth 8).setWidth 16 <<< 8 ^^^ (r.setWidth 8).setWidth 16) ^^^ 0#16 := by
    rw [BitVec.xor_zero]; exact split16 r
  have h2 : c = (0#8 ^^^ 0#8) ^^^ c := by simp
  rw [h1, h2, byteStep_xor, byteStep_xor, isoUpdate_xor, isoUpdate_xor]
  rw [agree_lo (BitVec.setWidth 8 r), agree_hi (BitVec.setWidth 8 (r >>> 8)), agree_ch c]

theorem crcOf_eq_iso (init : BitVec 16) (d : List (BitVec 8)) : crcOf init d = isoCrcOf init d := by
  unfold crcOf isoCrcOf
  induction d generalizing init with
  | nil => rfl
  | cons a t ih => simp only [List.foldl_cons, byteStep_eq_iso, ih]

end NfcVerif.Crc
