import NfcVerif.Model.Crc
/-!
Helper lemmas for the CRC theorems of C14.

`byteStep_eq_iso` (the eight-iteration bit loop of `calculate_crc` equals the
ISO/IEC 14443-3 Annex B byte update for every register value and every octet,
2^24 cases) is proved without enumeration of the product space: both functions
are GF(2)-linear in (register, octet), hence determined by their values on the
three 8-bit "axes" (low register byte, high register byte, octet), and on
each axis the 256 cases are checked by kernel evaluation (`decide +kernel`).
-/
namespace NfcVerif.Crc

theorem xor_cancel2 (k x y : BitVec 16) : x ^^^ k ^^^ (y ^^^ k) = x ^^^ y := by
  have : x ^^^ k ^^^ (y ^^^ k) = (k ^^^ k) ^^^ (x ^^^ y) := by ac_rfl
  rw [this, BitVec.xor_self, BitVec.zero_xor]

theorem bitStep_xor (r s : BitVec 16) (a b : Bool) :
    bitStep (r ^^^ s) (a != b) = bitStep r a ^^^ bitStep s b := by
  unfold bitStep
  simp only [BitVec.getLsbD_xor, BitVec.ushiftRight_xor_distrib]
  cases r.getLsbD 0 <;> cases s.getLsbD 0 <;> cases a <;> cases b <;> simp <;>
    first | ac_rfl | (rw [xor_cancel2])

theorem byteStep_xor (r s : BitVec 16) (a b : BitVec 8) :
    byteStep (r ^^^ s) (a ^^^ b) = byteStep r a ^^^ byteStep s b := by
  unfold byteStep
  simp only [BitVec.getLsbD_xor, bitStep_xor]

theorem isoUpdate_xor (r s : BitVec 16) (a b : BitVec 8) :
    isoUpdate (r ^^^ s) (a ^^^ b) = isoUpdate r a ^^^ isoUpdate s b := by
  unfold isoUpdate
  simp only [BitVec.setWidth_xor, BitVec.shiftLeft_xor_distrib, BitVec.ushiftRight_xor_distrib]
  ac_rfl

/-- agreement on the three 256-element "axes" -/
theorem agree_lo : ∀ x : BitVec 8, byteStep (x.setWidth 16) 0#8 = isoUpdate (x.setWidth 16) 0#8 := by decide +kernel
theorem agree_hi : ∀ x : BitVec 8, byteStep (x.setWidth 16 <<< 8) 0#8 = isoUpdate (x.setWidth 16 <<< 8) 0#8 := by decide +kernel
theorem agree_ch : ∀ x : BitVec 8, byteStep 0#16 x = isoUpdate 0#16 x := by decide +kernel

theorem split16 (r : BitVec 16) : r = ((r >>> 8).setWidth 8).setWidth 16 <<< 8 ^^^ (r.setWidth 8).setWidth 16 := by
  apply BitVec.eq_of_getLsbD_eq
  intro i hi
  simp only [BitVec.getLsbD_xor, BitVec.getLsbD_shiftLeft, BitVec.getLsbD_setWidth, BitVec.getLsbD_ushiftRight]
  by_cases h : i < 8
  · simp [h, hi]
  · have h3 : 8 + (i - 8) = i := by omega
    have h4 : i - 8 < 8 := by omega
    simp [h, h3, h4, hi]
    intro _; omega

theorem byteStep_eq_iso (r : BitVec 16) (c : BitVec 8) : byteStep r c = isoUpdate r c := by
  have h1 : r = (((r >>> 8).setWidth 8).setWidth 16 <<< 8 ^^^ (r.setWidth 8).setWidth 16) ^^^ 0#16 := by
    rw [BitVec.xor_zero]; exact split16 r
  have h2 : c = (0#8 ^^^ 0#8) ^^^ c := by simp
  rw [h1, h2, byteStep_xor, byteStep_xor, isoUpdate_xor, isoUpdate_xor]
  rw [agree_lo (BitVec.setWidth 8 r), agree_hi (BitVec.setWidth 8 (r >>> 8)), agree_ch c]

theorem crcOf_eq_iso (init : BitVec 16) (d : List (BitVec 8)) : crcOf init d = isoCrcOf init d := by
  unfold crcOf isoCrcOf
  induction d generalizing init with
  | nil => rfl
  | cons a t ih => simp only [List.foldl_cons, byteStep_eq_iso, ih]

theorem bitStep_zero_inj (r : BitVec 16) (h : bitStep r false = 0#16) : r = 0#16 := by
  unfold bitStep at h
  have e0 : r.getLsbD 0 = r[0] := BitVec.getLsbD_eq_getElem (by omega)
  cases h0 : r[0]
  · simp [e0, h0] at h
    apply BitVec.eq_of_getLsbD_eq
    intro i hi
    cases i with
    | zero => rw [e0, h0]; simp
    | succ j =>
      have := congrArg (fun x => x.getLsbD j) h
      simp only [BitVec.getLsbD_ushiftRight, BitVec.getLsbD_zero] at this
      rw [Nat.add_comm] at this
      simpa using this
  · simp [e0, h0] at h
    have := congrArg (fun x => x.getLsbD 15) h
    simp [BitVec.getLsbD_xor, BitVec.getLsbD_ushiftRight] at this

theorem byteStep_zero_inj (r : BitVec 16) (h : byteStep r 0#8 = 0#16) : r = 0#16 := by
  unfold byteStep at h
  simp only [BitVec.getLsbD_zero] at h
  exact bitStep_zero_inj _ (bitStep_zero_inj _ (bitStep_zero_inj _ (bitStep_zero_inj _
    (bitStep_zero_inj _ (bitStep_zero_inj _ (bitStep_zero_inj _ (bitStep_zero_inj _ h)))))))

theorem crcOf_xor (d e : List (BitVec 8)) : ∀ (r s : BitVec 16), d.length = e.length →
    crcOf (r ^^^ s) (List.zipWith (· ^^^ ·) d e) = crcOf r d ^^^ crcOf s e := by
  induction d generalizing e with
  | nil => intro r s h; cases e with
    | nil => simp [crcOf]
    | cons _ _ => simp at h
  | cons a t ih =>
    intro r s h
    cases e with
    | nil => simp at h
    | cons b u =>
      simp only [List.zipWith_cons_cons, crcOf, List.foldl_cons]
      rw [byteStep_xor]
      have := ih u (byteStep r a) (byteStep s b) (by simpa using h)
      simpa [crcOf] using this

theorem crcOf_append (r : BitVec 16) (a b : List (BitVec 8)) : crcOf r (a ++ b) = crcOf (crcOf r a) b := by
  simp [crcOf, List.foldl_append]

theorem byteStep_zero_zero : byteStep 0#16 0#8 = 0#16 := by decide +kernel

theorem crcOf_zeros_zero (n : Nat) : crcOf 0#16 (List.replicate n 0#8) = 0#16 := by
  induction n with
  | zero => rfl
  | succ n ih => simp only [List.replicate_succ, crcOf, List.foldl_cons, byteStep_zero_zero]; exact ih

theorem crcOf_zeros_ne (n : Nat) (x : BitVec 16) (hx : x ≠ 0#16) : crcOf x (List.replicate n 0#8) ≠ 0#16 := by
  induction n generalizing x with
  | zero => simpa [crcOf] using hx
  | succ n ih =>
    simp only [List.replicate_succ, crcOf, List.foldl_cons]
    exact ih _ (fun h => hx (byteStep_zero_inj x h))

/-- the all-zero message of length `n` with octet `e` at position `i` -/
def unit (n i : Nat) (e : BitVec 8) : List (BitVec 8) := (List.replicate n 0#8).set i e

theorem unit_split (n i : Nat) (e : BitVec 8) (hi : i < n) :
    unit n i e = List.replicate i 0#8 ++ e :: List.replicate (n - i - 1) 0#8 := by
  unfold unit
  apply List.ext_getElem
  · simp; omega
  · intro k h1 h2
    simp only [List.getElem_set, List.getElem_replicate, List.getElem_append, List.length_replicate]
    by_cases hk : i = k
    · subst hk; simp
    · simp only [hk, if_false]
      by_cases hlt : k < i
      · simp [hlt]
      · simp only [hlt, dite_false]
        have : k - i = (k - i - 1) + 1 := by omega
        rw [List.getElem_cons]
        simp [show ¬ (k - i = 0) by omega]

theorem crcOf_unit_ne (n i : Nat) (e : BitVec 8) (hi : i < n) (he : byteStep 0#16 e ≠ 0#16) :
    crcOf 0#16 (unit n i e) ≠ 0#16 := by
  rw [unit_split n i e hi, crcOf_append, crcOf_zeros_zero]
  simp only [crcOf, List.foldl_cons]
  exact crcOf_zeros_ne _ _ he

theorem set_eq_xor_unit (d : List (BitVec 8)) (i : Nat) (e : BitVec 8) (hi : i < d.length) :
    d.set i (d[i] ^^^ e) = List.zipWith (· ^^^ ·) d (unit d.length i e) := by
  apply List.ext_getElem
  · simp [unit]
  · intro k h1 h2
    simp only [List.getElem_set, List.getElem_zipWith, unit, List.getElem_replicate]
    by_cases hk : i = k
    · subst hk; simp
    · simp [hk]

theorem bit_ne (b : Fin 8) : byteStep 0#16 (1#8 <<< b.val) ≠ 0#16 := by
  revert b; decide +kernel

/-- changing exactly one bit of the message changes the CRC register, for every initial value -/
theorem crcOf_flip_ne (init : BitVec 16) (d : List (BitVec 8)) (i : Nat) (b : Fin 8) (hi : i < d.length) :
    crcOf init (d.set i (d[i] ^^^ (1#8 <<< b.val))) ≠ crcOf init d := by
  rw [set_eq_xor_unit d i _ hi]
  have h := crcOf_xor d (unit d.length i (1#8 <<< b.val)) init 0#16 (by simp [unit])
  rw [BitVec.xor_zero] at h
  rw [h]
  intro hc
  have hne := crcOf_unit_ne d.length i (1#8 <<< b.val) hi (bit_ne b)
  apply hne
  have : crcOf init d ^^^ crcOf 0#16 (unit d.length i (1#8 <<< b.val)) ^^^ crcOf init d = crcOf init d ^^^ crcOf init d := by
    rw [hc]
  rw [BitVec.xor_self] at this
  rw [BitVec.xor_comm (crcOf init d), BitVec.xor_assoc, BitVec.xor_self, BitVec.xor_zero] at this
  exact this

def flipBit (l : List (BitVec 8)) (i : Nat) (b : Fin 8) : List (BitVec 8) :=
  match l[i]? with
  | some x => l.set i (x ^^^ (1#8 <<< b.val))
  | none => l

theorem lo_hi_inj (a b : BitVec 16) (h1 : lo a = lo b) (h2 : hi a = hi b) : a = b := by
  rw [split16 a, split16 b]
  unfold lo at h1; unfold hi at h2
  rw [h1, h2]

theorem one_shift_ne_zero (b : Fin 8) : (1#8 <<< b.val) ≠ 0#8 := by revert b; decide

theorem xor_ne_self (x e : BitVec 8) (he : e ≠ 0#8) : x ^^^ e ≠ x := by
  intro h
  apply he
  have : x ^^^ (x ^^^ e) = x ^^^ x := by rw [h]
  rw [← BitVec.xor_assoc, BitVec.xor_self, BitVec.zero_xor] at this
  exact this

/-- generic form: `c` is any function of the CRC register that is injective (identity for CRC_A,
complement for CRC_B) -/
theorem check_flip_false (init : BitVec 16) (g : BitVec 16 → BitVec 16) (hg : ∀ a b, g a = g b → a = b)
    (d : List (BitVec 8)) (i : Nat) (b : Fin 8) (hlt : i < d.length + 2) :
    let f := flipBit (d ++ [lo (g (crcOf init d)), hi (g (crcOf init d))]) i b
    (f.drop (f.length - 2) == [lo (g (crcOf init (f.take (f.length - 2)))), hi (g (crcOf init (f.take (f.length - 2))))]) = false := by
  intro f
  have hlen : f.length = d.length + 2 := by
    simp only [f, flipBit]; split <;> simp
  by_cases hd : i < d.length
  · -- the flipped bit is in the message
    have hf : f = d.set i (d[i] ^^^ (1#8 <<< b.val)) ++ [lo (g (crcOf init d)), hi (g (crcOf init d))] := by
      simp only [f, flipBit]
      rw [List.getElem?_append_left hd, List.getElem?_eq_getElem hd]
      simp only
      rw [List.set_append_left _ _ hd]
    have htake : f.take (f.length - 2) = d.set i (d[i] ^^^ (1#8 <<< b.val)) := by
      rw [hlen, hf]; simp
    have hdrop : f.drop (f.length - 2) = [lo (g (crcOf init d)), hi (g (crcOf init d))] := by
      rw [hlen, hf]; simp
    rw [htake, hdrop]
    have hne := crcOf_flip_ne init d i b hd
    simp only [beq_eq_false_iff_ne, ne_eq, List.cons.injEq, and_true, not_and]
    intro h1 h2
    exact hne (hg _ _ (lo_hi_inj _ _ h1 h2)).symm
  · -- the flipped bit is in one of the two CRC octets
    have hcase : i = d.length ∨ i = d.length + 1 := by omega
    have he := one_shift_ne_zero b
    rcases hcase with rfl | rfl
    · have hf : f = d ++ [lo (g (crcOf init d)) ^^^ (1#8 <<< b.val), hi (g (crcOf init d))] := by
        simp [f, flipBit]
      have htake : f.take (f.length - 2) = d := by rw [hlen, hf]; simp
      have hdrop : f.drop (f.length - 2) = [lo (g (crcOf init d)) ^^^ (1#8 <<< b.val), hi (g (crcOf init d))] := by
        rw [hlen, hf]; simp
      rw [htake, hdrop]
      simp only [beq_eq_false_iff_ne, ne_eq, List.cons.injEq, and_true, not_and]
      intro h1
      exact absurd h1 (xor_ne_self _ _ he)
    · have hf : f = d ++ [lo (g (crcOf init d)), hi (g (crcOf init d)) ^^^ (1#8 <<< b.val)] := by
        simp [f, flipBit]
      have htake : f.take (f.length - 2) = d := by rw [hlen, hf]; simp
      have hdrop : f.drop (f.length - 2) = [lo (g (crcOf init d)), hi (g (crcOf init d)) ^^^ (1#8 <<< b.val)] := by
        rw [hlen, hf]; simp
      rw [htake, hdrop]
      simp only [beq_eq_false_iff_ne, ne_eq, List.cons.injEq, and_true, not_and]
      intro _ h2
      exact absurd h2 (xor_ne_self _ _ he)

theorem flipBit_length (l : List (BitVec 8)) (i : Nat) (b : Fin 8) : (flipBit l i b).length = l.length := by
  unfold flipBit; split <;> simp

theorem checkA_flip (d : List (BitVec 8)) (i : Nat) (b : Fin 8) (h : i < d.length + 2) :
    checkCrcA (flipBit (addCrcA d) i b) = .ok false := by
  have hl : (flipBit (addCrcA d) i b).length = d.length + 2 := by rw [flipBit_length]; simp [addCrcA]
  have := check_flip_false (0x6363#16) id (fun a b h => h) d i b h
  simp only [id] at this
  unfold checkCrcA
  rw [if_neg (by omega)]
  simp only [addCrcA] at this ⊢
  rw [this]; rfl

theorem checkB_flip (d : List (BitVec 8)) (i : Nat) (b : Fin 8) (h : i < d.length + 2) :
    checkCrcB (flipBit (addCrcB d) i b) = .ok false := by
  have hl : (flipBit (addCrcB d) i b).length = d.length + 2 := by rw [flipBit_length]; simp [addCrcB]
  have hinj : ∀ a b : BitVec 16, ~~~a = ~~~b → a = b := by
    intro a b h
    have := congrArg (fun x => ~~~x) h
    simpa using this
  have := check_flip_false (0xFFFF#16) (fun x => ~~~x) hinj d i b h
  unfold checkCrcB
  rw [if_neg (by omega)]
  simp only [addCrcB] at this ⊢
  rw [this]; rfl

end NfcVerif.Crc
