import NfcVerif.Model.AdvT12
import NfcVerif.Lemmas.Tlv
/-!
# C08 lemmas: the TLV walker over an abstract lazily filled memory (`MemOK`), and the Type 1
memory reader as an instance (amortised command bound `F1`)
-/
namespace NfcVerif.Adv
open NfcVerif.Tlv (Skip inSkip nextFree capacity ctlRange)

/-- what the walker needs from a memory reader: `J` holds while everything went well, `Jf` after the
first failure (no further command is sent then); requests stay below `LIM` -/
structure MemOK {σ} (M : Mem σ) (J Jf : σ → Prop) (LIM : Nat) : Prop where
  weaken : ∀ s, J s → Jf s
  bytes : ∀ s, J s → IsBytes (M.cache s)
  ens : ∀ stop s, J s → stop ≤ LIM → (M.cache s).length < stop →
    (∀ u s', M.ensure stop s = (.ok u, s') → J s' ∧ stop ≤ (M.cache s').length) ∧
    (∀ e s', M.ensure stop s = (.error e, s') → isTagCmd e = true ∧ Jf s')

/-- outcome of one reading step started in a `J` state -/
def Step {σ α} (J Jf : σ → Prop) (x : Py α × σ) (P : α → Prop) : Prop :=
  (∃ v, x.1 = .ok v ∧ J x.2 ∧ P v) ∨ (∃ e, x.1 = .error e ∧ isTagCmd e = true ∧ Jf x.2)

theorem idxN_lt {α} (l : List α) (a : Nat) (h : a < l.length) : ∃ b, idxN l a = .ok b ∧ b ∈ l := by
  unfold idxN; rw [List.getElem?_eq_getElem h]; exact ⟨_, rfl, List.getElem_mem h⟩

theorem getB_step {σ} {M : Mem σ} {J Jf : σ → Prop} {LIM : Nat} (hM : MemOK M J Jf LIM)
    (a : Nat) (s : σ) (hJ : J s) (ha : a < LIM) : Step J Jf (getB M a s) (fun b => b < 256) := by
  unfold getB
  split
  · rename_i h
    obtain ⟨b, hb, hm⟩ := idxN_lt _ a h
    exact Or.inl ⟨b, hb, hJ, hM.bytes s hJ b hm⟩
  · have he := hM.ens (a + 1) s hJ (by omega) (by omega)
    rcases hr : M.ensure (a + 1) s with ⟨r, s'⟩
    cases r with
    | ok u =>
      have := he.1 u s' hr
      obtain ⟨b, hb, hm⟩ := idxN_lt (M.cache s') a (by omega)
      exact Or.inl ⟨b, hb, this.1, hM.bytes s' this.1 b hm⟩
    | error e =>
      have := he.2 e s' hr
      exact Or.inr ⟨e, rfl, this.1, this.2⟩

theorem unpackH_slice (c : Bytes) (o : Nat) (h : o + 2 ≤ c.length) : ∃ v, unpackH (sliceN c o (o + 2)) 0 = .ok v := by
  have hl : (sliceN c o (o + 2)).length = 2 := by simp [sliceN]; omega
  match hs : sliceN c o (o + 2), hl with
  | [a, b], _ => exact ⟨a * 256 + b, by simp [unpackH]⟩

theorem unpackH_slice_lt (c : Bytes) (o : Nat) (h : o + 2 ≤ c.length) (hb : IsBytes c) :
    ∃ v, unpackH (sliceN c o (o + 2)) 0 = .ok v ∧ v < 65536 := by
  have hl : (sliceN c o (o + 2)).length = 2 := by simp [sliceN]; omega
  have hm : ∀ x ∈ sliceN c o (o + 2), x < 256 := by
    intro x hx
    exact hb x (List.mem_of_mem_drop (List.mem_of_mem_take hx))
  match hs : sliceN c o (o + 2), hl, hm with
  | [a, b], _, hm =>
    have ha := hm a (by simp)
    have hb' := hm b (by simp)
    exact ⟨a * 256 + b, by simp [unpackH], by omega⟩

theorem getH_step {σ} {M : Mem σ} {J Jf : σ → Prop} {LIM : Nat} (hM : MemOK M J Jf LIM)
    (o : Nat) (s : σ) (hJ : J s) (ha : o + 2 ≤ LIM) : Step J Jf (getH M o s) (fun v => v < 65536) := by
  unfold getH
  split
  · rename_i h
    obtain ⟨b, hb, hlt⟩ := unpackH_slice_lt _ o h (hM.bytes s hJ)
    exact Or.inl ⟨b, hb, hJ, hlt⟩
  · have he := hM.ens (o + 2) s hJ ha (by omega)
    rcases hr : M.ensure (o + 2) s with ⟨r, s'⟩
    cases r with
    | ok u =>
      have := he.1 u s' hr
      obtain ⟨b, hb, hlt⟩ := unpackH_slice_lt (M.cache s') o this.2 (hM.bytes s' this.1)
      exact Or.inl ⟨b, hb, this.1, hlt⟩
    | error e =>
      have := he.2 e s' hr
      exact Or.inr ⟨e, rfl, this.1, this.2⟩

/-- a value read by the confined value loop -/
def ValOK (lo end_ n : Nat) (r : Option (Bytes × List Nat)) : Prop :=
  r = none ∨ ∃ v as, r = some (v, as) ∧ v.length = n ∧ as.length = n ∧ ∀ a ∈ as, lo ≤ a ∧ a < end_

theorem readVal_c {σ} {M : Mem σ} {J Jf : σ → Prop} {LIM : Nat} (hM : MemOK M J Jf LIM)
    (skip : Skip) (end_ lo : Nat) (hE : end_ ≤ LIM) :
    ∀ (k pos : Nat) (v : Bytes) (as : List Nat) (s : σ), J s → v.length = as.length →
      (∀ a ∈ as, lo ≤ a ∧ a < end_) → lo ≤ pos →
      Step J Jf (readVal M true skip end_ k pos v as s) (ValOK lo end_ (v.length + k)) := by
  intro k
  induction k with
  | zero =>
    intro pos v as s hJ hl ha hp
    unfold readVal
    refine Or.inl ⟨_, rfl, hJ, Or.inr ⟨v.reverse, as.reverse, rfl, by simp, by simp [hl], ?_⟩⟩
    intro a h; exact ha a (by simpa using h)
  | succ k ih =>
    intro pos v as s hJ hl ha hp
    unfold readVal
    simp only [true_and]
    split
    · exact Or.inl ⟨none, rfl, hJ, Or.inl rfl⟩
    · rename_i hlt
      have hge := Tlv.nextFree_ge skip pos
      rcases getB_step hM (nextFree skip pos) s hJ (by omega) with ⟨b, hb, hJ', -⟩ | ⟨e, he, ht, hf⟩
      · rcases hg : getB M (nextFree skip pos) s with ⟨r, s'⟩
        rw [hg] at hb hJ'
        simp only at hb hJ'
        subst hb
        simp only
        have := ih (nextFree skip pos + 1) (b :: v) (nextFree skip pos :: as) s' hJ' (by simp [hl])
          (by intro a h; rcases List.mem_cons.mp h with h | h
              · subst h; omega
              · exact ha a h) (by omega)
        simpa [Nat.add_assoc, Nat.add_comm 1 k] using this
      · rcases hg : getB M (nextFree skip pos) s with ⟨r, s'⟩
        rw [hg] at he hf
        simp only at he hf
        subst he
        exact Or.inr ⟨e, rfl, ht, hf⟩

def TlvOK (end_ off : Nat) : TlvR → Prop
  | .beyond => True
  | .nul _ => True
  | .val _ l v as _ => v.length = l ∧ as.length = l ∧ ∀ a ∈ as, off + 2 ≤ a ∧ a < end_

theorem step_mono {σ α} {J Jf : σ → Prop} {x : Py α × σ} {P Q : α → Prop} (h : Step J Jf x P)
    (hpq : ∀ v, P v → Q v) : Step J Jf x Q := by
  rcases h with ⟨v, h1, h2, h3⟩ | h
  · exact Or.inl ⟨v, h1, h2, hpq v h3⟩
  · exact Or.inr h

theorem readTlvBody_c {σ} {M : Mem σ} {J Jf : σ → Prop} {LIM : Nat} (hM : MemOK M J Jf LIM)
    (skip : Skip) (end_ off : Nat) (hE : end_ ≤ LIM) (s : σ) (hJ : J s) :
    Step J Jf (readTlvBody M true skip end_ off s) (TlvOK end_ off) := by
  unfold readTlvBody
  simp only [true_and]
  split
  · exact Or.inl ⟨_, rfl, hJ, trivial⟩
  · rename_i h0
    rcases getB_step hM off s hJ (by omega) with ⟨t, hb, hJ1, -⟩ | ⟨e, he, ht, hf⟩
    · rcases hg : getB M off s with ⟨r, s1⟩
      rw [hg] at hb hJ1; simp only at hb hJ1; subst hb
      simp only
      split
      · exact Or.inl ⟨_, rfl, hJ1, trivial⟩
      · split
        · exact Or.inl ⟨_, rfl, hJ1, trivial⟩
        · rename_i h1
          rcases getB_step hM (off + 1) s1 hJ1 (by omega) with ⟨l0, hb, hJ2, -⟩ | ⟨e, he, ht, hf⟩
          · rcases hg2 : getB M (off + 1) s1 with ⟨r, s2⟩
            rw [hg2] at hb hJ2; simp only at hb hJ2; subst hb
            simp only
            split
            · split
              · exact Or.inl ⟨_, rfl, hJ2, trivial⟩
              · rename_i h4
                rcases getH_step hM (off + 2) s2 hJ2 (by omega) with ⟨l, hb, hJ3, -⟩ | ⟨e, he, ht, hf⟩
                · rcases hg3 : getH M (off + 2) s2 with ⟨r, s3⟩
                  rw [hg3] at hb hJ3; simp only at hb hJ3; subst hb
                  simp only
                  have hv := readVal_c hM skip end_ (off + 2) hE l (off + 4) [] [] s3 hJ3 rfl (by simp) (by omega)
                  rcases hv with ⟨r, hr1, hJ4, hr2⟩ | ⟨e, he, ht, hf⟩
                  · rcases hg4 : readVal M true skip end_ l (off + 4) [] [] s3 with ⟨q, s4⟩
                    rw [hg4] at hr1 hJ4; simp only at hr1 hJ4; subst hr1
                    rcases hr2 with h | ⟨v, as, h, h1', h2', h3'⟩
                    · subst h; exact Or.inl ⟨_, rfl, hJ4, trivial⟩
                    · subst h
                      exact Or.inl ⟨_, rfl, hJ4, by simpa using h1', by simpa using h2', h3'⟩
                  · rcases hg4 : readVal M true skip end_ l (off + 4) [] [] s3 with ⟨q, s4⟩
                    rw [hg4] at he hf; simp only at he hf; subst he
                    exact Or.inr ⟨e, rfl, ht, hf⟩
                · rcases hg3 : getH M (off + 2) s2 with ⟨r, s3⟩
                  rw [hg3] at he hf; simp only at he hf; subst he
                  exact Or.inr ⟨e, rfl, ht, hf⟩
            · have hv := readVal_c hM skip end_ (off + 2) hE l0 (off + 2) [] [] s2 hJ2 rfl (by simp) (by omega)
              rcases hv with ⟨r, hr1, hJ4, hr2⟩ | ⟨e, he, ht, hf⟩
              · rcases hg4 : readVal M true skip end_ l0 (off + 2) [] [] s2 with ⟨q, s4⟩
                rw [hg4] at hr1 hJ4; simp only at hr1 hJ4; subst hr1
                rcases hr2 with h | ⟨v, as, h, h1', h2', h3'⟩
                · subst h; exact Or.inl ⟨_, rfl, hJ4, trivial⟩
                · subst h
                  exact Or.inl ⟨_, rfl, hJ4, by simpa using h1', by simpa using h2', h3'⟩
              · rcases hg4 : readVal M true skip end_ l0 (off + 2) [] [] s2 with ⟨q, s4⟩
                rw [hg4] at he hf; simp only at he hf; subst he
                exact Or.inr ⟨e, rfl, ht, hf⟩
          · rcases hg2 : getB M (off + 1) s1 with ⟨r, s2⟩
            rw [hg2] at he hf; simp only at he hf; subst he
            exact Or.inr ⟨e, rfl, ht, hf⟩
    · rcases hg : getB M off s with ⟨r, s1⟩
      rw [hg] at he hf; simp only at he hf; subst he
      exact Or.inr ⟨e, rfl, ht, hf⟩

theorem readTlv_c {σ} {M : Mem σ} {J Jf : σ → Prop} {LIM : Nat} (hM : MemOK M J Jf LIM)
    (skip : Skip) (end_ off : Nat) (hE : end_ ≤ LIM) (s : σ) (hJ : J s) :
    ∃ r, (readTlv M true skip end_ off s).1 = .ok r ∧
      ((r = .beyond ∧ Jf (readTlv M true skip end_ off s).2) ∨
       (J (readTlv M true skip end_ off s).2 ∧ TlvOK end_ off r)) := by
  unfold readTlv
  rcases readTlvBody_c hM skip end_ off hE s hJ with ⟨r, h1, h2, h3⟩ | ⟨e, he, ht, hf⟩
  · rcases hg : readTlvBody M true skip end_ off s with ⟨q, s'⟩
    rw [hg] at h1 h2; simp only at h1 h2; subst h1
    exact ⟨r, rfl, Or.inr ⟨h2, h3⟩⟩
  · rcases hg : readTlvBody M true skip end_ off s with ⟨q, s'⟩
    rw [hg] at he hf; simp only at he hf; subst he
    simp only [ht, and_self, if_true]
    exact ⟨.beyond, rfl, Or.inl ⟨rfl, hf⟩⟩

theorem ctlRange_ok (lock : Bool) (lim : Nat) (v : Bytes) (h : v.length = 3) : ∃ rg, ctlRange lock lim v = .ok rg := by
  match v, h with
  | [a, b, c], _ => simp [ctlRange]

def FoundOK (start end_ : Nat) (fd : Found) : Prop :=
  ∀ v as hdr, fd.ndef = some (v, as, hdr) → v.length = as.length ∧ ∀ a ∈ as, start ≤ a ∧ a < end_

theorem walk_c {σ} {M : Mem σ} {J Jf : σ → Prop} {LIM : Nat} (hM : MemOK M J Jf LIM)
    (start end_ : Nat) (hE : end_ ≤ LIM) :
    ∀ (fuel off : Nat) (skip : Skip) (s : σ), J s → end_ < off + fuel → 0 < fuel → start ≤ off →
      ((walk M true end_ fuel off skip s).1 = .ok none ∧ Jf (walk M true end_ fuel off skip s).2) ∨
      ∃ fd, (walk M true end_ fuel off skip s).1 = .ok (some fd) ∧ Jf (walk M true end_ fuel off skip s).2 ∧
        FoundOK start end_ fd := by
  intro fuel
  induction fuel with
  | zero => intro off skip s _ _ h _; omega
  | succ f ih =>
    intro off skip s hJ hf hpos hs
    unfold walk
    split
    · exact Or.inr ⟨_, rfl, hM.weaken s hJ, by intro v as hdr h; simp at h⟩
    · rename_i hlt
      simp only [true_and, if_true]
      split
      · exact ih (off + 1) skip s hJ (by omega) (by omega) (by omega)
      · obtain ⟨r, hr, hcase⟩ := readTlv_c hM skip end_ off hE s hJ
        rcases hg : readTlv M true skip end_ off s with ⟨q, s'⟩
        rw [hg] at hr hcase; simp only at hr hcase; subst hr
        cases r with
        | beyond =>
          refine Or.inl ⟨rfl, ?_⟩
          rcases hcase with ⟨-, h⟩ | ⟨h, -⟩
          · exact h
          · exact hM.weaken _ h
        | nul t =>
          rcases hcase with ⟨h, -⟩ | ⟨hJ', -⟩
          · cases h
          · simp only
            split
            · exact ih (off + 1) skip s' hJ' (by omega) (by omega) (by omega)
            · exact Or.inr ⟨_, rfl, hM.weaken _ hJ', by intro v as hdr h; simp at h⟩
        | val t l v as hdr =>
          rcases hcase with ⟨h, -⟩ | ⟨hJ', hv⟩
          · cases h
          · simp only
            split
            · refine Or.inr ⟨_, rfl, hM.weaken _ hJ', ?_⟩
              intro v' as' hdr' h
              simp at h
              obtain ⟨h1, h2, -⟩ := h
              subst h1; subst h2
              refine ⟨by rw [hv.1, hv.2.1], ?_⟩
              intro a ha
              have := hv.2.2 a ha
              omega
            · split
              · rename_i hc
                obtain ⟨rg, hrg⟩ := ctlRange_ok (decide (t = 1)) 0x800 v (by rw [hv.1]; exact hc.2)
                simp only [hrg]
                exact ih _ _ s' hJ' (by split <;> omega) (by omega) (by split <;> omega)
              · exact ih _ _ s' hJ' (by split <;> omega) (by omega) (by split <;> omega)

/-! ## the Type 1 memory reader satisfies `MemOK` -/

/-- the tag answers with octets -/
def TagBytes (t : Tag) : Prop := ∀ n b, t n = some b → IsBytes b

theorem IsBytes.take {l : Bytes} (h : IsBytes l) (n : Nat) : IsBytes (l.take n) :=
  fun b hb => h b (List.mem_of_mem_take hb)
theorem IsBytes.drop {l : Bytes} (h : IsBytes l) (n : Nat) : IsBytes (l.drop n) :=
  fun b hb => h b (List.mem_of_mem_drop hb)
theorem IsBytes.append {l m : Bytes} (h : IsBytes l) (h' : IsBytes m) : IsBytes (l ++ m) := by
  intro b hb; rcases List.mem_append.mp hb with x | x
  · exact h b x
  · exact h' b x
theorem IsBytes.nil : IsBytes [] := by intro b hb; cases hb

theorem trx_bytes {t : Tag} (ht : TagBytes t) : ∀ (k : Nat) (w : W) (cmd r : Bytes), (trx t k w cmd).1 = some r → IsBytes r := by
  intro k
  induction k with
  | zero => intro w cmd r h; simp [trx] at h
  | succ k ih =>
    intro w cmd r h
    unfold trx at h
    simp only [xchg] at h
    cases hq : t w.n with
    | some q => rw [hq] at h; simp at h; subst h; exact ht _ _ hq
    | none => rw [hq] at h; exact ih _ _ _ h

theorem trx_n (t : Tag) : ∀ (k : Nat) (w : W) (cmd : Bytes), w.n ≤ (trx t k w cmd).2.n ∧ (trx t k w cmd).2.n ≤ w.n + k := by
  intro k
  induction k with
  | zero => intro w cmd; simp [trx]
  | succ k ih =>
    intro w cmd
    unfold trx
    simp only [xchg]
    cases t w.n with
    | some r => simp
    | none =>
      have := ih ⟨w.n + 1, cmd :: w.log⟩ cmd
      simp only at this ⊢
      omega

theorem trans1_spec (t : Tag) (cmd : Bytes) (s : S1) :
    (trans1 t cmd s).2.cache = s.cache ∧ s.w.n ≤ (trans1 t cmd s).2.w.n ∧ (trans1 t cmd s).2.w.n ≤ s.w.n + 3 ∧
    (∀ e, (trans1 t cmd s).1 = .error e → isTagCmd e = true) ∧
    (TagBytes t → ∀ r, (trans1 t cmd s).1 = .ok r → IsBytes r) ∧ (trans1 t cmd s).2.hdr = s.hdr := by
  unfold trans1
  have := trx_n t 3 s.w cmd
  have hb := fun ht => trx_bytes (t := t) ht 3 s.w cmd
  rcases h : trx t 3 s.w cmd with ⟨r, w'⟩
  rw [h] at this hb
  cases r with
  | some r => exact ⟨rfl, this.1, this.2, by simp, by intro ht r' hr; simp at hr; subst hr; exact hb ht r rfl, rfl⟩
  | none => exact ⟨rfl, this.1, this.2, by intro e he; simp at he; subst he; rfl, by simp, rfl⟩

theorem segLoop_spec {t : Tag} (hT : TagBytes t) (uid : Bytes) (stop : Nat) (hs : stop ≤ 2048) :
    ∀ (fuel : Nat) (s : S1), stop + 128 ≤ s.cache.length + 128 * fuel → 0 < fuel → IsBytes s.cache →
      ((segLoop t uid stop fuel s).1 = .ok () ∧ IsBytes (segLoop t uid stop fuel s).2.cache ∧
        (segLoop t uid stop fuel s).2.hdr = s.hdr ∧
        ∃ k, (segLoop t uid stop fuel s).2.cache.length = s.cache.length + 128 * k ∧
          (segLoop t uid stop fuel s).2.w.n ≤ s.w.n + 3 * k ∧ stop ≤ (segLoop t uid stop fuel s).2.cache.length ∧
          (k = 0 ∨ s.cache.length + 128 * (k - 1) < stop)) ∨
      (∃ e, (segLoop t uid stop fuel s).1 = .error e ∧ isTagCmd e = true ∧
          ∃ k, (segLoop t uid stop fuel s).2.w.n ≤ s.w.n + 3 * (k + 1) ∧ s.cache.length + 128 * k < stop) := by
  intro fuel
  induction fuel with
  | zero => intro s _ h; omega
  | succ f ih =>
    intro s hf _ hb
    unfold segLoop
    split
    · exact Or.inl ⟨rfl, hb, rfl, 0, by simp, by simp, by assumption, Or.inl rfl⟩
    · rename_i hlt
      simp only
      split
      · omega
      · have ht := trans1_spec t ([0x10, s.cache.length / 128 * 16] ++ zeros8 ++ uid) s
        rcases hr : trans1 t ([0x10, s.cache.length / 128 * 16] ++ zeros8 ++ uid) s with ⟨r, s1⟩
        rw [hr] at ht
        obtain ⟨w1, c1, hd1⟩ := s1
        simp only at ht
        obtain ⟨hc, hn1, hn2, hterr, hbytes, hhd⟩ := ht
        subst hc
        cases r with
        | error e =>
          exact Or.inr ⟨e, rfl, hterr e rfl, 0, by simp; omega, by omega⟩
        | ok rsp =>
          simp only
          split
          · exact Or.inr ⟨_, rfl, rfl, 0, by simp; omega, by omega⟩
          · rename_i hl
            have hlen : ((rsp.drop 1).take 128).length = 128 := by simp; omega
            have hrb : IsBytes rsp := hbytes hT rsp rfl
            have := ih { w := w1, cache := s.cache ++ (rsp.drop 1).take 128, hdr := hd1 }
              (by simp only [List.length_append, hlen]; omega)
              (by omega) (IsBytes.append hb (IsBytes.take (IsBytes.drop hrb 1) 128))
            simp only [List.length_append, hlen] at this
            rcases this with ⟨h1, hb', hh, k, h2, h3, h4, h5⟩ | ⟨e, h1, h2, k, h3, h4⟩
            · refine Or.inl ⟨h1, hb', by rw [hh, hhd], k + 1, by omega, by omega, h4, Or.inr ?_⟩
              rcases h5 with h | h
              · subst h; simp; omega
              · simp; omega
            · exact Or.inr ⟨e, h1, h2, k + 1, by omega, by omega⟩

theorem stageA_spec {t : Tag} (hT : TagBytes t) (uid : Bytes) (s : S1) :
    s.w.n ≤ (stageA t uid s).2.w.n ∧
    (stageA t uid s).2.w.n ≤ s.w.n + (if s.cache.length < 120 then 3 else 0) ∧
    (120 ≤ s.cache.length → (stageA t uid s).2.cache = s.cache ∧ (stageA t uid s).2.hdr = s.hdr) ∧
    (∀ e, (stageA t uid s).1 = .error e → isTagCmd e = true) ∧
    (IsBytes s.cache → IsBytes (stageA t uid s).2.cache) ∧
    (s.cache.length < 120 → (stageA t uid s).1 = .ok () → (stageA t uid s).2.hdr.length = 2) := by
  unfold stageA
  split
  · rename_i h
    have ht := trans1_spec t ([0, 0, 0] ++ uid) s
    rcases hr : trans1 t ([0, 0, 0] ++ uid) s with ⟨r, s1⟩
    rw [hr] at ht
    obtain ⟨w1, c1, hd1⟩ := s1
    simp only at ht
    obtain ⟨hc, hn1, hn2, hterr, hbytes, hhd⟩ := ht
    subst hc
    cases r with
    | error e => exact ⟨hn1, hn2, by omega, by intro e' h'; simp at h'; subst h'; exact hterr e rfl, by simp, by simp⟩
    | ok rsp =>
      simp only
      split
      · exact ⟨hn1, hn2, by omega, by intro e' h'; simp at h'; subst h'; rfl, by simp, by simp⟩
      · exact ⟨hn1, hn2, by omega, by simp, by intro _; exact IsBytes.drop (hbytes hT rsp rfl) 2,
          by intro _ _; simp; omega⟩
  · exact ⟨by simp, by simp, by simp, by simp, by simp, by intro h; omega⟩

theorem stageB_spec {t : Tag} (hT : TagBytes t) (uid : Bytes) (stop : Nat) (s : S1) :
    s.w.n ≤ (stageB t uid stop s).2.w.n ∧ (stageB t uid stop s).2.w.n ≤ s.w.n + 3 ∧
    (∀ e, (stageB t uid stop s).1 = .error e → isTagCmd e = true) ∧
    ((stageB t uid stop s).1 = .ok () →
      if stop > 120 ∧ s.cache.length < 128 then (stageB t uid stop s).2.cache.length = min s.cache.length 120 + 8
      else (stageB t uid stop s).2.cache = s.cache ∧ (stageB t uid stop s).2.w.n = s.w.n) ∧
    (IsBytes s.cache → IsBytes (stageB t uid stop s).2.cache) ∧ (stageB t uid stop s).2.hdr = s.hdr := by
  unfold stageB
  split
  · rename_i h
    have ht := trans1_spec t ([0x02, 15] ++ zeros8 ++ uid) s
    rcases hr : trans1 t ([0x02, 15] ++ zeros8 ++ uid) s with ⟨r, s1⟩
    rw [hr] at ht
    obtain ⟨w1, c1, hd1⟩ := s1
    simp only at ht
    obtain ⟨hc, hn1, hn2, hterr, hbytes, hhd⟩ := ht
    subst hc
    cases r with
    | error e => exact ⟨hn1, hn2, by intro e' h'; simp at h'; subst h'; exact hterr e rfl, by simp, by simp, hhd⟩
    | ok rsp =>
      simp only
      split
      · exact ⟨hn1, hn2, by intro e' h'; simp at h'; subst h'; rfl, by simp, by simp, hhd⟩
      · rename_i hl
        refine ⟨hn1, hn2, by simp, ?_, ?_, hhd⟩
        · intro _
          simp only [List.length_append, List.length_take, List.length_drop]
          omega
        · intro hb
          exact IsBytes.append (IsBytes.append (IsBytes.take hb 120) (IsBytes.take (IsBytes.drop (hbytes hT rsp rfl) 1) 8))
            (IsBytes.drop hb 128)
  · rename_i h
    refine ⟨by simp, by simp, by simp, ?_, by simp, rfl⟩
    intro _
    exact ⟨rfl, rfl⟩

def F1 (len : Nat) : Nat := 9 * min len 120 + 9 * min (len / 128) 17
def J1 (n0 : Nat) (s : S1) : Prop := s.w.n ≤ n0 + F1 s.cache.length ∧ IsBytes s.cache
def Jf1 (n0 : Nat) (s : S1) : Prop := s.w.n ≤ n0 + 1300

theorem fill1_spec {t : Tag} (hT : TagBytes t) (uid : Bytes) (n0 stop : Nat) (s : S1) (hJ : J1 n0 s)
    (hstop : stop ≤ 2048) (hlen : s.cache.length < stop) :
    ((fill1 t uid stop s).1 = .ok () → J1 n0 (fill1 t uid stop s).2 ∧ stop ≤ (fill1 t uid stop s).2.cache.length ∧
        (s.cache.length < 120 → (fill1 t uid stop s).2.hdr.length = 2)) ∧
    (∀ e, (fill1 t uid stop s).1 = .error e → isTagCmd e = true ∧ Jf1 n0 (fill1 t uid stop s).2) := by
  obtain ⟨hJn, hJb⟩ := hJ
  have hA := stageA_spec hT uid s
  unfold fill1
  rcases hrA : stageA t uid s with ⟨rA, sA⟩
  rw [hrA] at hA
  simp only at hA
  unfold F1 at hJn
  cases rA with
  | error e =>
    simp only
    refine ⟨by simp, ?_⟩
    intro e' he'; simp at he'; subst he'
    refine ⟨hA.2.2.2.1 e rfl, ?_⟩
    unfold Jf1
    have := hA.2.1; split at this <;> omega
  | ok u =>
    simp only
    have hB := stageB_spec hT uid stop sA
    rcases hrB : stageB t uid stop sA with ⟨rB, sB⟩
    rw [hrB] at hB
    simp only at hB
    cases rB with
    | error e =>
      simp only
      refine ⟨by simp, ?_⟩
      intro e' he'; simp at he'; subst he'
      refine ⟨hB.2.2.1 e rfl, ?_⟩
      unfold Jf1
      have := hA.2.1; split at this <;> omega
    | ok u2 =>
      simp only
      have hBok := hB.2.2.2.1 rfl
      have hbB : IsBytes sB.cache := hB.2.2.2.2.1 (hA.2.2.2.2.1 hJb)
      have hC := segLoop_spec hT uid stop hstop (stop + 1) sB (by omega) (by omega) hbB
      have hA1 := hA.2.1
      have hA2 := hA.2.2.1
      rcases hC with ⟨hok, hbC, hhdC, k, hk1, hk2, hk3, hk4⟩ | ⟨e, he, hte, k, hk1, hk2⟩
      · refine ⟨?_, (by intro e he; rw [hok] at he; cases he)⟩
        intro _
        refine ⟨⟨?_, hbC⟩, hk3, ?_⟩
        · unfold F1
          by_cases hl : s.cache.length < 120
          · rw [if_pos hl] at hA1
            split at hBok
            · rename_i hb
              rcases hk4 with h0 | hlt <;> omega
            · obtain ⟨hc, hn⟩ := hBok
              rw [hc] at hk1 hk4
              rcases hk4 with h0 | hlt <;> omega
          · rw [if_neg hl] at hA1
            have hcA := (hA2 (by omega)).1
            rw [hcA] at hBok
            split at hBok
            · rename_i hb
              rcases hk4 with h0 | hlt <;> omega
            · obtain ⟨hc, hn⟩ := hBok
              rw [hc] at hk1 hk4
              rcases hk4 with h0 | hlt <;> omega
        · intro hl
          rw [hhdC, hB.2.2.2.2.2]
          exact hA.2.2.2.2.2 hl rfl
      · refine ⟨(by intro h; rw [he] at h; cases h), ?_⟩
        intro e' he'
        rw [he] at he'
        cases he'
        refine ⟨hte, ?_⟩
        unfold Jf1
        have hB2 := hB.2.1
        split at hA1 <;> omega

theorem mem1_ok {t : Tag} (hT : TagBytes t) (uid : Bytes) (n0 : Nat) : MemOK (mem1 t uid) (J1 n0) (Jf1 n0) 2048 := by
  constructor
  · intro s h; obtain ⟨h, -⟩ := h; unfold F1 at h; unfold Jf1; omega
  · intro s h; exact h.2
  · intro stop s hJ hstop hlen
    simp only [mem1] at hlen ⊢
    have := fill1_spec hT uid n0 stop s hJ hstop hlen
    constructor
    · intro u s' h
      rw [h] at this
      have := this.1 rfl
      exact ⟨this.1, this.2.1⟩
    · intro e s' h
      rw [h] at this
      exact this.2 e rfl

/-- the octets of a returned object come from inside the data area -/
def SafeA (d : Ndef) : Prop :=
  d.octets.length = d.length ∧ d.addrs.length = d.length ∧ ∀ a ∈ d.addrs, d.lo ≤ a ∧ a < d.hi

theorem finish_c {σ} {M : Mem σ} {J Jf : σ → Prop} {LIM : Nat} (hM : MemOK M J Jf LIM)
    (start end_ : Nat) (hE : end_ ≤ LIM) (skip0 : Skip) (rw : Nat) (s : σ) (hJ : J s) :
    Jf (finish M true start end_ skip0 rw s).2 ∧
    ((finish M true start end_ skip0 rw s).1 = .ok none ∨
     ∃ d, (finish M true start end_ skip0 rw s).1 = .ok (some d) ∧ SafeA d ∧ d.lo = start ∧ d.hi = end_) := by
  unfold finish
  rcases walk_c hM start end_ hE (end_ + 1) start skip0 s hJ (by omega) (by omega) (by omega) with ⟨h1, h2⟩ | ⟨fd, h1, h2, h3⟩
  · rcases hg : walk M true end_ (end_ + 1) start skip0 s with ⟨r, s'⟩
    rw [hg] at h1 h2; simp only at h1 h2; subst h1
    exact ⟨h2, Or.inl rfl⟩
  · rcases hg : walk M true end_ (end_ + 1) start skip0 s with ⟨r, s'⟩
    rw [hg] at h1 h2; simp only at h1 h2; subst h1
    simp only
    cases hn : fd.ndef with
    | none => exact ⟨h2, Or.inl rfl⟩
    | some x =>
      obtain ⟨v, as, hdr⟩ := x
      have := h3 v as hdr hn
      simp only [fits, Bool.true_or, not_true_eq_false, if_false]
      exact ⟨h2, Or.inr ⟨_, rfl, ⟨rfl, this.1.symm, this.2⟩, rfl, rfl⟩⟩

/-- Type 1: for every tag, `_read_ndef_data` needs at most 1300 interactions, never raises, and returns
`None` or an object whose octets were read from inside the data area `[12, end)` -/
theorem readNdef1_safe {t : Tag} (hT : TagBytes t) (uid : Bytes) (w : W) :
    (readNdef1 t uid w).2.w.n ≤ w.n + 1300 ∧
    ((readNdef1 t uid w).1 = .ok none ∨ ∃ d, (readNdef1 t uid w).1 = .ok (some d) ∧ SafeA d ∧ d.lo = 12) := by
  have hM := mem1_ok hT uid w.n
  have hJ0 : J1 w.n { w := w, cache := [], hdr := [] } := ⟨by simp [F1], IsBytes.nil⟩
  have hf := fill1_spec hT uid w.n 1 { w := w, cache := [], hdr := [] } hJ0 (by omega) (by simp)
  unfold readNdef1
  simp only
  rcases hr : fill1 t uid 1 { w := w, cache := [], hdr := [] } with ⟨r, s1⟩
  rw [hr] at hf
  simp only at hf
  cases r with
  | error e =>
    have := hf.2 e rfl
    simp only [this.1, if_true]
    exact ⟨this.2, by simp⟩
  | ok u =>
    have hf1 := hf.1 rfl
    have hJ1 := hf1.1
    have hh : s1.hdr.length = 2 := hf1.2.2 (by simp)
    simp only
    obtain ⟨h0, hh0, -⟩ := idxN_lt s1.hdr 0 (by omega)
    rw [hh0]
    simp only
    split
    · exact ⟨hM.weaken _ hJ1, Or.inl rfl⟩
    · -- four header bytes
      have key : ∀ (a : Nat) (s : S1), J1 w.n s → a < 2048 →
          (∃ b s', getB (mem1 t uid) a s = (.ok b, s') ∧ J1 w.n s' ∧ b < 256) ∨
          (∃ e s', getB (mem1 t uid) a s = (.error e, s') ∧ isTagCmd e = true ∧ Jf1 w.n s') := by
        intro a s hJ ha
        rcases getB_step hM a s hJ ha with ⟨b, h1, h2, h3⟩ | ⟨e, h1, h2, h3⟩
        · rcases hg : getB (mem1 t uid) a s with ⟨q, s'⟩
          rw [hg] at h1 h2; simp only at h1 h2; subst h1
          exact Or.inl ⟨b, s', rfl, h2, h3⟩
        · rcases hg : getB (mem1 t uid) a s with ⟨q, s'⟩
          rw [hg] at h1 h3; simp only at h1 h3; subst h1
          exact Or.inr ⟨e, s', rfl, h2, h3⟩
      rcases key 8 s1 hJ1 (by omega) with ⟨c0, s2, hg, hJ2, -⟩ | ⟨e, s2, hg, ht, hf2⟩
      · rw [hg]; simp only
        split
        · exact ⟨hM.weaken _ hJ2, Or.inl rfl⟩
        · rcases key 9 s2 hJ2 (by omega) with ⟨c1, s3, hg, hJ3, -⟩ | ⟨e, s3, hg, ht, hf3⟩
          · rw [hg]; simp only
            split
            · exact ⟨hM.weaken _ hJ3, Or.inl rfl⟩
            · rcases key 11 s3 hJ3 (by omega) with ⟨c3, s4, hg, hJ4, -⟩ | ⟨e, s4, hg, ht, hf4⟩
              · rw [hg]; simp only
                rcases key 10 s4 hJ4 (by omega) with ⟨c2, s5, hg, hJ5, hc2⟩ | ⟨e, s5, hg, ht, hf5⟩
                · rw [hg]; simp only
                  have := finish_c hM 12 ((c2 + 1) * 8) (by omega) [(104, if (c2 + 1) * 8 = 120 then 120 else 128)] c3 s5 hJ5
                  refine ⟨this.1, ?_⟩
                  rcases this.2 with h | ⟨d, h1, h2, h3, -⟩
                  · exact Or.inl h
                  · exact Or.inr ⟨d, h1, h2, h3⟩
                · rw [hg]; simp only [ht, if_true]; exact ⟨hf5, by simp⟩
              · rw [hg]; simp only [ht, if_true]; exact ⟨hf4, by simp⟩
          · rw [hg]; simp only [ht, if_true]; exact ⟨hf3, by simp⟩
      · rw [hg]; simp only [ht, if_true]; exact ⟨hf2, by simp⟩
end NfcVerif.Adv
