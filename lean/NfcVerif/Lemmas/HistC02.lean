import NfcVerif.Lemmas.HistC01R
/-!
# C02: cut safety over histories of assignments with faults (Type 1 / Type 2, repaired memory reader)

`Model/HistC01.lean` (`syncUnitsR`, `writeFromR`, `historyR`) is the memory reader with the repair of
`t12-empty-after-unacknowledged-length-write` (the unit of a write command that did not return is sent again).
This file proves what a FRESH reader sees on the tag after any history of attempts, each aborted at any
state-changing command by a fault of either kind (not executed / executed but unacknowledged) or completed:
the message found at activation, an empty message, or the complete message of one of the attempts.

Key step (`syncR_prefix`): whatever the fault, the tag content after a `synchronize()` is the content before it
with a PREFIX of `diffUnits tag cache` applied - units the reader only believes to differ (or resends because they
are unconfirmed) do not change the tag.  From there the cut-safety theorem of single writes (`cut_safe`) applies.
-/
namespace NfcVerif.Hist
open NfcVerif NfcVerif.Tlv

/-- the tag after a write-back over the units `a, a+1, .., a+len-1`, failed at any command or not: the cache
content from unit `a` up to a unit boundary `j`, the previous content elsewhere -/
theorem syncUnitsR_threshold (u : Nat) (n : Nat) : ∀ (len a : Nat) (st : RSR) (f : Option Fault), LenR st n →
    UnitSync u st →
    ∃ j, a ≤ j ∧ j ≤ a + len ∧ ∀ x, (syncUnitsR u (List.range' a len) st f).st.tag[x]? =
      if a * u ≤ x ∧ x < j * u then st.cache[x]? else st.tag[x]? := by
  intro len
  induction len with
  | zero =>
    intro a st f _ _
    exact ⟨a, Nat.le_refl _, Nat.le_refl _, fun x => by simp [syncUnitsR]; intro h1 h2; omega⟩
  | succ len ih =>
    intro a st f hl hs
    have hau : (a + 1) * u = a * u + u := by rw [Nat.succ_mul]
    -- the unit is sent and acknowledged, the loop goes on
    have step : ∀ f', ∃ j, a ≤ j ∧ j ≤ a + (len + 1) ∧ ∀ x,
        (syncUnitsR u (List.range' (a + 1) len)
          { tag := writeAt st.tag (a * u) (sliceN st.cache (a * u) (a * u + u)),
            belief := writeAt st.belief (a * u) (sliceN st.cache (a * u) (a * u + u)),
            cache := st.cache, dirty := st.dirty.filter (· ≠ a) } f').st.tag[x]? =
        if a * u ≤ x ∧ x < j * u then st.cache[x]? else st.tag[x]? := by
      intro f'
      obtain ⟨j, hj1, hj2, hj⟩ := ih (a + 1)
        { tag := writeAt st.tag (a * u) (sliceN st.cache (a * u) (a * u + u)),
          belief := writeAt st.belief (a * u) (sliceN st.cache (a * u) (a * u + u)),
          cache := st.cache, dirty := st.dirty.filter (· ≠ a) } f'
        ⟨by simp only [writeAt_length]; exact hl.tag, by simp only [writeAt_length]; exact hl.belief, hl.cache⟩
        (unitSync_step u st a n hl hs)
      refine ⟨j, by omega, by omega, fun x => ?_⟩
      rw [hj x]
      simp only
      rw [writeAt_slice_get _ _ _ _ _ (by rw [hl.tag, hl.cache]), hau]
      have hju : a * u + u ≤ j * u := by rw [← hau]; exact Nat.mul_le_mul_right u hj1
      by_cases h1 : a * u + u ≤ x ∧ x < j * u
      · rw [if_pos h1, if_pos ⟨by omega, h1.2⟩]
      · rw [if_neg h1]
        by_cases h2 : a * u ≤ x ∧ x < a * u + u
        · rw [if_pos h2, if_pos ⟨h2.1, by omega⟩]
        · rw [if_neg h2, if_neg (by omega)]
    by_cases hne : sliceN st.cache (a * u) (a * u + u) ≠ sliceN st.belief (a * u) (a * u + u) ∨ a ∈ st.dirty
    · rcases f with _ | ⟨k, late⟩
      · simp only [List.range'_succ, syncUnitsR, if_pos hne, Option.map_none]
        exact step none
      · cases k with
        | zero =>
          simp only [List.range'_succ, syncUnitsR, if_pos hne]
          cases late with
          | true =>
            refine ⟨a + 1, by omega, by omega, fun x => ?_⟩
            simp only [if_true]
            rw [writeAt_slice_get _ _ _ _ _ (by rw [hl.tag, hl.cache]), hau]
          | false =>
            refine ⟨a, by omega, by omega, fun x => ?_⟩
            simp only [Bool.false_eq_true, if_false]
            rw [if_neg (by omega)]
        | succ k =>
          simp only [List.range'_succ, syncUnitsR, if_pos hne, Option.map_some]
          exact step _
    · simp only [List.range'_succ, syncUnitsR, if_neg hne]
      obtain ⟨j, hj1, hj2, hj⟩ := ih (a + 1) st f hl hs
      refine ⟨j, by omega, by omega, fun x => ?_⟩
      rw [hj x, hau]
      have hju : a * u + u ≤ j * u := by rw [← hau]; exact Nat.mul_le_mul_right u hj1
      have hne' : sliceN st.cache (a * u) (a * u + u) = sliceN st.belief (a * u) (a * u + u) ∧ a ∉ st.dirty := by
        constructor
        · apply Classical.byContradiction; intro hc; exact hne (Or.inl hc)
        · intro hc; exact hne (Or.inr hc)
      by_cases h1 : a * u + u ≤ x ∧ x < j * u
      · rw [if_pos h1, if_pos ⟨by omega, h1.2⟩]
      · rw [if_neg h1]
        by_cases h2 : a * u ≤ x ∧ x < a * u + u
        · rw [if_pos ⟨h2.1, by omega⟩]
          -- the unit was not sent: the tag holds the cache content already
          have heq : sliceN st.tag (a * u) (a * u + u) = sliceN st.cache (a * u) (a * u + u) := by
            rw [hs a hne'.2, hne'.1]
          have := congrArg (fun l => l[x - a * u]?) heq
          simp only [sliceN_get, if_pos (show x - a * u < u by omega)] at this
          have e : a * u + (x - a * u) = x := by omega
          rw [e] at this; exact this
        · rw [if_neg (by omega)]

/-- the first `j` units of a write-back are a prefix of it -/
theorem filterMap_range_prefix {α} (f : Nat → Option α) (j N : Nat) (h : j ≤ N) :
    ∃ k, ((List.range N).filterMap f).take k = (List.range j).filterMap f := by
  refine ⟨((List.range j).filterMap f).length, ?_⟩
  obtain ⟨d, rfl⟩ := Nat.exists_eq_add_of_le h
  rw [List.range_add, List.filterMap_append, List.take_left']
  rfl

/-- **a `synchronize()` changes the tag by a prefix of the units in which tag and cache differ** - for every fault
position and kind, and also when unconfirmed units are sent again -/
theorem syncR_prefix (u : Nat) (hu : 0 < u) (st : RSR) (f : Option Fault) (n : Nat) (hl : LenR st n) (hs : UnitSync u st) :
    ∃ k, (syncR u st f).st.tag = apply st.tag ((diffUnits u st.tag st.cache).take k) := by
  unfold syncR
  rw [List.range_eq_range', hl.belief]
  obtain ⟨j, _, hj2, hj⟩ := syncUnitsR_threshold u n ((n + u - 1) / u) 0 st f hl hs
  unfold diffUnits
  rw [hl.tag]
  obtain ⟨k, hk⟩ := filterMap_range_prefix (fun i =>
      if sliceN st.tag (i * u) (i * u + u) ≠ sliceN st.cache (i * u) (i * u + u)
      then some (i * u, sliceN st.cache (i * u) (i * u + u)) else none) j ((n + u - 1) / u) (by omega)
  refine ⟨k, ?_⟩
  rw [hk]
  apply List.ext_getElem?
  intro x
  rw [hj x, (apply_diff_prefix u hu st.tag st.cache (by rw [hl.tag, hl.cache]) j).2 x]
  simp

theorem take_prefix_left {α} (a b : List α) (k : Nat) : ∃ k', a.take k = (a ++ b).take k' := by
  refine ⟨min k a.length, ?_⟩
  rw [List.take_append_of_le_length (Nat.min_le_right _ _)]
  by_cases h : k ≤ a.length
  · rw [Nat.min_eq_left h]
  · rw [Nat.min_eq_right (by omega), List.take_of_length_le (by omega), List.take_of_length_le (Nat.le_refl _)]

theorem take_prefix_right {α} (a b : List α) (k : Nat) : ∃ k', a ++ b.take k = (a ++ b).take k' := by
  refine ⟨a.length + k, ?_⟩
  rw [List.take_append, List.take_of_length_le (l := a) (by omega)]
  congr 2
  omega

/-- **one attempt, any fault**: whatever command of the assignment fails and however (or none), the tag afterwards
holds what it held before, or shows an empty message, or shows the complete new message - on every state a history
of attempts through the same object can reach (`InvR`). -/
theorem writeFromR_view (c : Cfg) (m : Bytes) (L : Layout) (data : Bytes) (st : RSR) (f : Option Fault)
    (hr : ReadsAs c m L) (hwf : WF c m L) (hcap : (data.length : Int) ≤ L.cap)
    (hi : InvR c.unit m (L.off + 1) st) :
    (writeFromR c L st data f).st.tag = st.tag
    ∨ ReadsAs c (writeFromR c L st data f).st.tag { L with ndef := [] }
    ∨ ReadsAs c (writeFromR c L st data f).st.tag { L with ndef := data } := by
  have hu : 0 < c.unit := hwf.2.1
  have harea := hwf.2.2.2.1
  have hcap' := hcap
  rw [hr.cap] at hcap'
  have hfit := (endAddr_le_area L.skip L.off L.areaEnd data.length hcap').1
  have hh := hdrLen_ge data.length
  have hCl := hi.len.cache
  have hlt : L.off + 1 < st.cache.length := by omega
  have hC1l : (st.cache.set (L.off + 1) 0).length = m.length := by simp [hCl]
  have hC1b : ∀ x, x < L.off + 1 → (st.cache.set (L.off + 1) 0)[x]? = m[x]? := fun x hx => by
    rw [get_set_ne _ _ _ _ (by omega)]; exact hi.cache x hx
  have hC10 : (st.cache.set (L.off + 1) 0)[L.off + 1]? = some 0 := get_set_eq _ _ _ hlt
  have hr1 : ReadsAs c (st.cache.set (L.off + 1) 0) { L with ndef := [] } := empty_view c m _ L hr hwf hC1b hC10
  have hwf1 : WF c (st.cache.set (L.off + 1) 0) { L with ndef := [] } := wf_transfer c m _ L hwf hC1l hC1b
  obtain ⟨m1, m2, m3a, m3, w, hnew⟩ := roundtrip c (st.cache.set (L.off + 1) 0) { L with ndef := [] } data hr1 hwf1 hcap
  have hm1 : m1 = st.cache.set (L.off + 1) 0 := by rw [w.m1_eq]; simp
  have hp1 : phase1 c st.cache L.off = .ok (st.cache.set (L.off + 1) 0) := wr_ok c _ _ _ hlt
  have hp2 : phase2 c (st.cache.set (L.off + 1) 0) L.off L.skip L.areaEnd data = .ok m2 := by
    have := w.p2; rw [hm1] at this; exact this
  have hp3a : phase3a c m2 L.off data.length = .ok m3a := w.p3a
  have hp3 : phase3 c m3a L.off data.length = .ok m3 := w.p3
  have hl2 : m2.length = m.length := by rw [w.len2, hC1l]
  have hl3 : m3.length = m.length := by rw [w.len3, hC1l]
  have hl3a : m3a.length = m.length := by rw [w.m3a_eq, pre3_length, hl2]
  have b2 : ∀ x, x < L.off + 1 → m2[x]? = m[x]? := fun x hx => by rw [(w.below x hx).2.1]; exact hC1b x hx
  have b3 : ∀ x, x < L.off + 1 → m3[x]? = m[x]? := fun x hx => by rw [(w.below x hx).2.2]; exact hC1b x hx
  have b3a : ∀ x, x < L.off + 1 → m3a[x]? = m[x]? := fun x hx => by
    rw [w.m3a_eq, pre3_get _ _ _ _ x (by show x ≠ L.off + 2; omega) (by show x ≠ L.off + 3; omega)]; exact b2 x hx
  -- the commands of an undisturbed write on the image with length byte 0
  have hnorm : (writeCmds c (st.cache.set (L.off + 1) 0) { L with ndef := [] } data).cmds =
      diffUnits c.unit (st.cache.set (L.off + 1) 0) m2 ++ diffUnits c.unit m2 m3a ++ diffUnits c.unit m3a m3 := by
    rw [writeCmds_eq w, hm1, diffUnits_self]; simp
  have a2 : apply (st.cache.set (L.off + 1) 0) (diffUnits c.unit (st.cache.set (L.off + 1) 0) m2) = m2 :=
    apply_diff _ hu _ _ (by omega)
  have a3a : apply m2 (diffUnits c.unit m2 m3a) = m3a := apply_diff _ hu _ _ (by omega)
  -- every prefix of those commands leaves an empty or the new message
  have hcut : ∀ k, ReadsAs c (apply (st.cache.set (L.off + 1) 0)
        ((diffUnits c.unit (st.cache.set (L.off + 1) 0) m2 ++ diffUnits c.unit m2 m3a ++ diffUnits c.unit m3a m3).take k))
        { L with ndef := [] }
      ∨ ReadsAs c (apply (st.cache.set (L.off + 1) 0)
        ((diffUnits c.unit (st.cache.set (L.off + 1) 0) m2 ++ diffUnits c.unit m2 m3a ++ diffUnits c.unit m3a m3).take k))
        { L with ndef := data } := by
    intro k
    rw [← hnorm]
    rcases cut_safe c (st.cache.set (L.off + 1) 0) { L with ndef := [] } data hr1 hwf1 hcap k with e | e | e
    · exact Or.inl e
    · exact Or.inl e
    · exact Or.inr e
  unfold writeFromR
  rw [hp1]
  simp only
  obtain ⟨i1, c1, d1, _⟩ := syncR_step c.unit hu m (L.off + 1) { st with cache := st.cache.set (L.off + 1) 0 } f
    (hi.withCache _ hC1l hC1b)
  obtain ⟨k1, q1⟩ := syncR_prefix c.unit hu { st with cache := st.cache.set (L.off + 1) 0 } f m.length
    (hi.withCache _ hC1l hC1b).len (hi.withCache _ hC1l hC1b).sync
  generalize syncR c.unit { st with cache := st.cache.set (L.off + 1) 0 } f = s1 at i1 c1 d1 q1 ⊢
  simp only at c1 d1 q1
  split
  · -- the first synchronize() fails: the new image below a unit boundary, the old tag content above
    simp only
    rw [q1]
    obtain ⟨j, hj⟩ := prefix_threshold c.unit hu st.tag (st.cache.set (L.off + 1) 0) (by rw [hi.len.tag, hC1l]) k1
    by_cases hB : j * c.unit ≤ L.off + 1
    · left
      apply List.ext_getElem?; intro x; rw [hj x]
      split
      · rw [hC1b x (by omega), hi.tag x (by omega)]
      · rfl
    · right; left
      refine empty_view c m _ L hr hwf (fun x hx => ?_) ?_
      · rw [hj x]; split
        · exact hC1b x hx
        · exact hi.tag x hx
      · rw [hj _, if_pos (by omega)]; exact hC10
  rename_i hok1
  have t1 : s1.st.tag = st.cache.set (L.off + 1) 0 := d1 (by simpa using hok1)
  rw [hp2]
  simp only
  obtain ⟨i2, c2, d2, _⟩ := syncR_step c.unit hu m (L.off + 1) { s1.st with cache := m2 } s1.fault (i1.withCache _ hl2 b2)
  obtain ⟨k2, q2⟩ := syncR_prefix c.unit hu { s1.st with cache := m2 } s1.fault m.length
    (i1.withCache _ hl2 b2).len (i1.withCache _ hl2 b2).sync
  generalize syncR c.unit { s1.st with cache := m2 } s1.fault = s2 at i2 c2 d2 q2 ⊢
  simp only at c2 d2 q2
  rw [t1] at q2
  split
  · simp only
    rw [q2]
    obtain ⟨k', hk'⟩ := take_prefix_left (diffUnits c.unit (st.cache.set (L.off + 1) 0) m2)
      (diffUnits c.unit m2 m3a ++ diffUnits c.unit m3a m3) k2
    rw [hk', ← List.append_assoc]
    exact Or.inr (hcut k')
  rename_i hok2
  have t2 : s2.st.tag = m2 := d2 (by simpa using hok2)
  rw [hp3a]
  simp only
  obtain ⟨i3a, c3a, d3a, _⟩ := syncR_step c.unit hu m (L.off + 1) { s2.st with cache := m3a } s2.fault (i2.withCache _ hl3a b3a)
  obtain ⟨k3a, q3a⟩ := syncR_prefix c.unit hu { s2.st with cache := m3a } s2.fault m.length
    (i2.withCache _ hl3a b3a).len (i2.withCache _ hl3a b3a).sync
  generalize syncR c.unit { s2.st with cache := m3a } s2.fault = s3a at i3a c3a d3a q3a ⊢
  simp only at c3a d3a q3a
  rw [t2] at q3a
  split
  · simp only
    have e : apply m2 ((diffUnits c.unit m2 m3a).take k3a) = apply (st.cache.set (L.off + 1) 0)
        (diffUnits c.unit (st.cache.set (L.off + 1) 0) m2 ++ (diffUnits c.unit m2 m3a).take k3a) := by
      rw [apply_append, a2]
    rw [q3a, e]
    obtain ⟨k', hk'⟩ := take_prefix_right (diffUnits c.unit (st.cache.set (L.off + 1) 0) m2) (diffUnits c.unit m2 m3a) k3a
    obtain ⟨k'', hk''⟩ := take_prefix_left (diffUnits c.unit (st.cache.set (L.off + 1) 0) m2 ++ diffUnits c.unit m2 m3a)
      (diffUnits c.unit m3a m3) k'
    rw [hk', hk'']
    exact Or.inr (hcut k'')
  rename_i hok3a
  have t3a : s3a.st.tag = m3a := d3a (by simpa using hok3a)
  rw [hp3]
  simp only
  obtain ⟨k3, q3⟩ := syncR_prefix c.unit hu { s3a.st with cache := m3 } s3a.fault m.length
    (i3a.withCache _ hl3 b3).len (i3a.withCache _ hl3 b3).sync
  simp only at q3
  have e : apply m3a ((diffUnits c.unit m3a m3).take k3) = apply (st.cache.set (L.off + 1) 0)
      ((diffUnits c.unit (st.cache.set (L.off + 1) 0) m2 ++ diffUnits c.unit m2 m3a) ++ (diffUnits c.unit m3a m3).take k3) := by
    rw [apply_append, apply_append, a2, a3a]
  obtain ⟨k', hk'⟩ := take_prefix_right (diffUnits c.unit (st.cache.set (L.off + 1) 0) m2 ++ diffUnits c.unit m2 m3a)
    (diffUnits c.unit m3a m3) k3
  rw [q3, t3a, e, hk']
  exact Or.inr (hcut k')

/-- the messages of a history whose assignment is not refused as oversize (only those send commands) -/
def sentMsgs (L : Layout) (hs : List (Bytes × Option Fault)) : List Bytes :=
  (hs.filter fun a => decide ((a.1.length : Int) ≤ L.cap)).map (·.1)

theorem attemptR_view (c : Cfg) (m : Bytes) (L : Layout) (data : Bytes) (st : RSR) (f : Option Fault)
    (hr : ReadsAs c m L) (hwf : WF c m L) (hi : InvR c.unit m (L.off + 1) st) :
    (attemptR c L st data f).st.tag = st.tag
    ∨ ReadsAs c (attemptR c L st data f).st.tag { L with ndef := [] }
    ∨ ((data.length : Int) ≤ L.cap ∧ ReadsAs c (attemptR c L st data f).st.tag { L with ndef := data }) := by
  unfold attemptR
  split
  · exact Or.inl rfl
  · split
    · exact Or.inl rfl
    · rename_i hc
      rcases writeFromR_view c m L data st f hr hwf (by omega) hi with h | h | h
      · exact Or.inl h
      · exact Or.inr (Or.inl h)
      · exact Or.inr (Or.inr ⟨by omega, h⟩)

/-- **cut safety over histories**: after any list of attempts through one object - each completed or aborted at any
command by a fault of either kind - the tag holds what it held before, or shows an empty message, or shows the
complete message of one of the attempts -/
theorem historyR_view (c : Cfg) (m : Bytes) (L : Layout) (hr : ReadsAs c m L) (hwf : WF c m L)
    (hs : List (Bytes × Option Fault)) (st : RSR) (hi : InvR c.unit m (L.off + 1) st) :
    (historyR c L st hs).1.tag = st.tag
    ∨ ∃ x, (x = [] ∨ x ∈ sentMsgs L hs) ∧ ReadsAs c (historyR c L st hs).1.tag { L with ndef := x } := by
  induction hs generalizing st with
  | nil => exact Or.inl rfl
  | cons a rest ih =>
    obtain ⟨d, f⟩ := a
    simp only [historyR]
    have hsub : ∀ x, x ∈ sentMsgs L rest → x ∈ sentMsgs L ((d, f) :: rest) := by
      intro x hx
      unfold sentMsgs at hx ⊢
      rw [List.filter_cons]
      split
      · exact List.mem_cons_of_mem _ hx
      · exact hx
    rcases ih _ (attemptR_inv c m L d st f hr hwf hi) with h | ⟨x, hx, h⟩
    · rw [h]
      rcases attemptR_view c m L d st f hr hwf hi with e | e | ⟨hc, e⟩
      · exact Or.inl e
      · exact Or.inr ⟨[], Or.inl rfl, e⟩
      · refine Or.inr ⟨d, Or.inr ?_, e⟩
        unfold sentMsgs
        rw [List.filter_cons, if_pos (by simpa using hc)]
        exact List.mem_cons_self
    · rcases hx with hx | hx
      · exact Or.inr ⟨x, Or.inl hx, h⟩
      · exact Or.inr ⟨x, Or.inr (hsub x hx), h⟩

/-! ## a fault is a cut: the commands of a disturbed attempt are a prefix of the undisturbed attempt's -/
/-- the tag executes exactly the recorded commands -/
theorem syncUnitsR_tag_apply (u : Nat) (is : List Nat) : ∀ (st : RSR) (f : Option Fault),
    (syncUnitsR u is st f).st.tag = apply st.tag (syncUnitsR u is st f).cmds := by
  induction is with
  | nil => intro st f; rfl
  | cons i is ih =>
    intro st f
    by_cases hne : sliceN st.cache (i * u) (i * u + u) ≠ sliceN st.belief (i * u) (i * u + u) ∨ i ∈ st.dirty
    · rcases f with _ | ⟨k, late⟩
      · simp only [syncUnitsR, if_pos hne, Option.map_none]
        rw [ih]; simp [apply]
      · cases k with
        | zero =>
          simp only [syncUnitsR, if_pos hne]
          cases late <;> simp [apply]
        | succ k =>
          simp only [syncUnitsR, if_pos hne, Option.map_some]
          rw [ih]; simp [apply]
    · simp only [syncUnitsR, if_neg hne]
      exact ih st f

/-- a fault on command `k` of a write-back: the commands of the undisturbed write-back up to the failing one
(included when the tag executes it); when the write-back has fewer commands it runs undisturbed and hands the fault on -/
theorem syncUnitsR_fault (u : Nat) (is : List Nat) : ∀ (st : RSR) (k : Nat) (late : Bool),
    (k < (syncUnitsR u is st none).cmds.length →
      (syncUnitsR u is st (some ⟨k, late⟩)).cmds = (syncUnitsR u is st none).cmds.take (k + late.toNat) ∧
      (syncUnitsR u is st (some ⟨k, late⟩)).failed = true) ∧
    ((syncUnitsR u is st none).cmds.length ≤ k →
      syncUnitsR u is st (some ⟨k, late⟩) =
        ⟨(syncUnitsR u is st none).st, (syncUnitsR u is st none).cmds,
          some ⟨k - (syncUnitsR u is st none).cmds.length, late⟩, false⟩) := by
  induction is with
  | nil =>
    intro st k late
    simp [syncUnitsR]
  | cons i is ih =>
    intro st k late
    by_cases hne : sliceN st.cache (i * u) (i * u + u) ≠ sliceN st.belief (i * u) (i * u + u) ∨ i ∈ st.dirty
    · cases k with
      | zero =>
        simp only [syncUnitsR, if_pos hne, Option.map_none]
        constructor
        · intro _
          cases late <;> simp
        · intro h; simp at h
      | succ k =>
        simp only [syncUnitsR, if_pos hne, Option.map_none, Option.map_some, Nat.add_sub_cancel]
        obtain ⟨h1, h2⟩ := ih
          { tag := writeAt st.tag (i * u) (sliceN st.cache (i * u) (i * u + u)),
            belief := writeAt st.belief (i * u) (sliceN st.cache (i * u) (i * u + u)),
            cache := st.cache, dirty := st.dirty.filter (· ≠ i) } k late
        constructor
        · intro hk
          simp only [List.length_cons] at hk
          obtain ⟨e1, e2⟩ := h1 (by omega)
          rw [e1, e2]
          refine ⟨?_, rfl⟩
          rw [show k + 1 + late.toNat = (k + late.toNat) + 1 by omega, List.take_succ_cons]
        · intro hk
          simp only [List.length_cons] at hk
          rw [h2 (by omega)]
          simp only [List.length_cons, Nat.add_sub_add_right]
    · simp only [syncUnitsR, if_neg hne]
      exact ih st k late



theorem syncR_tag_apply (u : Nat) (st : RSR) (f : Option Fault) :
    (syncR u st f).st.tag = apply st.tag (syncR u st f).cmds := syncUnitsR_tag_apply u _ st f

theorem syncR_fault (u : Nat) (st : RSR) (k : Nat) (late : Bool) :
    (k < (syncR u st none).cmds.length →
      (syncR u st (some ⟨k, late⟩)).cmds = (syncR u st none).cmds.take (k + late.toNat) ∧
      (syncR u st (some ⟨k, late⟩)).failed = true) ∧
    ((syncR u st none).cmds.length ≤ k →
      syncR u st (some ⟨k, late⟩) =
        ⟨(syncR u st none).st, (syncR u st none).cmds, some ⟨k - (syncR u st none).cmds.length, late⟩, false⟩) :=
  syncUnitsR_fault u _ st k late

theorem take_mid {α} (pre x post : List α) (k t : Nat) (h1 : pre.length ≤ k) (h2 : k - pre.length + t ≤ x.length) :
    pre ++ x.take (k - pre.length + t) = (pre ++ x ++ post).take (k + t) := by
  rw [List.append_assoc, List.take_append, List.take_of_length_le (l := pre) (by omega),
    List.take_append_of_le_length (by omega)]
  congr 2
  omega



theorem take_mid' {α} (all pre x post : List α) (hall : all = pre ++ x ++ post) (k t : Nat) (h1 : pre.length ≤ k)
    (h2 : k - pre.length + t ≤ x.length) : pre ++ x.take (k - pre.length + t) = all.take (k + t) := by
  rw [hall]; exact take_mid pre x post k t h1 h2

/-- **a fault is a cut**: the commands the tag executes during an attempt with a fault on command `k` are the first
`k` commands of the undisturbed attempt (`k + 1` when the tag executes the failing command) -/
theorem writeFromR_fault (c : Cfg) (m : Bytes) (L : Layout) (data : Bytes) (st : RSR) (k : Nat) (late : Bool)
    (hr : ReadsAs c m L) (hwf : WF c m L) (hcap : (data.length : Int) ≤ L.cap)
    (hi : InvR c.unit m (L.off + 1) st) :
    (writeFromR c L st data (some ⟨k, late⟩)).cmds = (writeFromR c L st data none).cmds.take (k + late.toNat) := by
  have hu : 0 < c.unit := hwf.2.1
  have harea := hwf.2.2.2.1
  have hcap' := hcap
  rw [hr.cap] at hcap'
  have hfit := (endAddr_le_area L.skip L.off L.areaEnd data.length hcap').1
  have hh := hdrLen_ge data.length
  have hCl := hi.len.cache
  have hlt : L.off + 1 < st.cache.length := by omega
  have hC1l : (st.cache.set (L.off + 1) 0).length = m.length := by simp [hCl]
  have hC1b : ∀ x, x < L.off + 1 → (st.cache.set (L.off + 1) 0)[x]? = m[x]? := fun x hx => by
    rw [get_set_ne _ _ _ _ (by omega)]; exact hi.cache x hx
  have hC10 : (st.cache.set (L.off + 1) 0)[L.off + 1]? = some 0 := get_set_eq _ _ _ hlt
  have hr1 : ReadsAs c (st.cache.set (L.off + 1) 0) { L with ndef := [] } := empty_view c m _ L hr hwf hC1b hC10
  have hwf1 : WF c (st.cache.set (L.off + 1) 0) { L with ndef := [] } := wf_transfer c m _ L hwf hC1l hC1b
  obtain ⟨m1, m2, m3a, m3, w, _⟩ := roundtrip c (st.cache.set (L.off + 1) 0) { L with ndef := [] } data hr1 hwf1 hcap
  have hm1 : m1 = st.cache.set (L.off + 1) 0 := by rw [w.m1_eq]; simp
  have hp1 : phase1 c st.cache L.off = .ok (st.cache.set (L.off + 1) 0) := wr_ok c _ _ _ hlt
  have hp2 : phase2 c (st.cache.set (L.off + 1) 0) L.off L.skip L.areaEnd data = .ok m2 := by
    have := w.p2; rw [hm1] at this; exact this
  have hp3a : phase3a c m2 L.off data.length = .ok m3a := w.p3a
  have hp3 : phase3 c m3a L.off data.length = .ok m3 := w.p3
  have hlate : late.toNat ≤ 1 := by cases late <;> simp
  unfold writeFromR
  rw [hp1]
  simp only
  rw [hp2]
  simp only
  rw [hp3a]
  simp only
  rw [hp3]
  simp only
  -- the undisturbed attempt
  have n1 := syncUnitsR_none c.unit (List.range ((({ st with cache := st.cache.set (L.off + 1) 0 } : RSR).belief.length + c.unit - 1) / c.unit))
    { st with cache := st.cache.set (L.off + 1) 0 }
  have f1 := syncR_fault c.unit { st with cache := st.cache.set (L.off + 1) 0 } k late
  change (syncR c.unit { st with cache := st.cache.set (L.off + 1) 0 } none).failed = false ∧
    (syncR c.unit { st with cache := st.cache.set (L.off + 1) 0 } none).fault = none at n1
  generalize syncR c.unit { st with cache := st.cache.set (L.off + 1) 0 } none = R1 at n1 f1 ⊢
  simp only [n1.1, n1.2, Bool.false_eq_true, if_false]
  have n2 := syncUnitsR_none c.unit (List.range ((({ R1.st with cache := m2 } : RSR).belief.length + c.unit - 1) / c.unit))
    { R1.st with cache := m2 }
  change (syncR c.unit { R1.st with cache := m2 } none).failed = false ∧
    (syncR c.unit { R1.st with cache := m2 } none).fault = none at n2
  have f2 := fun k' => syncR_fault c.unit { R1.st with cache := m2 } k' late
  generalize syncR c.unit { R1.st with cache := m2 } none = R2 at n2 f2 ⊢
  simp only [n2.1, n2.2, Bool.false_eq_true, if_false]
  have n3a := syncUnitsR_none c.unit (List.range ((({ R2.st with cache := m3a } : RSR).belief.length + c.unit - 1) / c.unit))
    { R2.st with cache := m3a }
  change (syncR c.unit { R2.st with cache := m3a } none).failed = false ∧
    (syncR c.unit { R2.st with cache := m3a } none).fault = none at n3a
  have f3a := fun k' => syncR_fault c.unit { R2.st with cache := m3a } k' late
  generalize syncR c.unit { R2.st with cache := m3a } none = R3a at n3a f3a ⊢
  simp only [n3a.1, n3a.2, Bool.false_eq_true, if_false]
  have f3 := fun k' => syncR_fault c.unit { R3a.st with cache := m3 } k' late
  generalize syncR c.unit { R3a.st with cache := m3 } none = R3 at f3 ⊢
  -- the disturbed attempt, stage by stage
  rcases Nat.lt_or_ge k R1.cmds.length with h1 | h1
  · obtain ⟨e1, e2⟩ := f1.1 h1
    rw [e2]
    simp only [if_true]
    rw [e1]
    have := take_mid' (R1.cmds ++ R2.cmds ++ R3a.cmds ++ R3.cmds) [] R1.cmds (R2.cmds ++ R3a.cmds ++ R3.cmds)
      (by simp [List.append_assoc]) k late.toNat (by simp) (by simp; omega)
    simpa using this
  rw [f1.2 h1]
  simp only [Bool.false_eq_true, if_false]
  rcases Nat.lt_or_ge (k - R1.cmds.length) R2.cmds.length with h2 | h2
  · obtain ⟨e1, e2⟩ := (f2 _).1 h2
    rw [e2]
    simp only [if_true]
    rw [e1]
    exact take_mid' (R1.cmds ++ R2.cmds ++ R3a.cmds ++ R3.cmds) R1.cmds R2.cmds (R3a.cmds ++ R3.cmds)
      (by simp [List.append_assoc]) k late.toNat h1 (by omega)
  rw [(f2 _).2 h2]
  simp only [Bool.false_eq_true, if_false]
  rcases Nat.lt_or_ge (k - R1.cmds.length - R2.cmds.length) R3a.cmds.length with h3a | h3a
  · obtain ⟨e1, e2⟩ := (f3a _).1 h3a
    rw [e2]
    simp only [if_true]
    rw [e1]
    have := take_mid' (R1.cmds ++ R2.cmds ++ R3a.cmds ++ R3.cmds) (R1.cmds ++ R2.cmds) R3a.cmds R3.cmds
      rfl k late.toNat (by simp; omega) (by simp; omega)
    simp only [List.length_append] at this
    rw [show k - (R1.cmds.length + R2.cmds.length) = k - R1.cmds.length - R2.cmds.length by omega] at this
    exact this
  rw [(f3a _).2 h3a]
  simp only [Bool.false_eq_true, if_false]
  rcases Nat.lt_or_ge (k - R1.cmds.length - R2.cmds.length - R3a.cmds.length) R3.cmds.length with h3 | h3
  · obtain ⟨e1, _⟩ := (f3 _).1 h3
    rw [e1]
    have := take_mid' (R1.cmds ++ R2.cmds ++ R3a.cmds ++ R3.cmds) (R1.cmds ++ R2.cmds ++ R3a.cmds) R3.cmds []
      (by simp) k late.toNat (by simp; omega) (by simp; omega)
    simp only [List.length_append] at this
    rw [show k - (R1.cmds.length + R2.cmds.length + R3a.cmds.length)
      = k - R1.cmds.length - R2.cmds.length - R3a.cmds.length by omega] at this
    exact this
  rw [(f3 _).2 h3]
  simp only
  rw [List.take_of_length_le (by simp; omega)]

/-- the tag executes exactly the recorded commands of an attempt -/
theorem writeFromR_tag_apply (c : Cfg) (L : Layout) (st : RSR) (data : Bytes) (f : Option Fault) :
    (writeFromR c L st data f).st.tag = apply st.tag (writeFromR c L st data f).cmds := by
  unfold writeFromR
  cases phase1 c st.cache L.off with
  | error e => rfl
  | ok m1 =>
    simp only
    have a1 := syncR_tag_apply c.unit { st with cache := m1 } f
    generalize syncR c.unit { st with cache := m1 } f = s1 at a1 ⊢
    simp only at a1
    by_cases h1 : s1.failed = true
    · simp only [h1, if_true]; exact a1
    simp only [h1, Bool.false_eq_true, if_false]
    cases phase2 c m1 L.off L.skip L.areaEnd data with
    | error e => exact a1
    | ok m2 =>
      simp only
      have a2 := syncR_tag_apply c.unit { s1.st with cache := m2 } s1.fault
      generalize syncR c.unit { s1.st with cache := m2 } s1.fault = s2 at a2 ⊢
      simp only at a2
      by_cases h2 : s2.failed = true
      · simp only [h2, if_true]; rw [a2, a1, apply_append]
      simp only [h2, Bool.false_eq_true, if_false]
      cases phase3a c m2 L.off data.length with
      | error e => simp only; rw [a2, a1, apply_append]
      | ok m3a =>
        simp only
        have a3a := syncR_tag_apply c.unit { s2.st with cache := m3a } s2.fault
        generalize syncR c.unit { s2.st with cache := m3a } s2.fault = s3a at a3a ⊢
        simp only at a3a
        by_cases h3a : s3a.failed = true
        · simp only [h3a, if_true]; rw [a3a, a2, a1, apply_append, apply_append]
        simp only [h3a, Bool.false_eq_true, if_false]
        cases phase3 c m3a L.off data.length with
        | error e => simp only; rw [a3a, a2, a1, apply_append, apply_append]
        | ok m3 =>
          simp only
          have a3 := syncR_tag_apply c.unit { s3a.st with cache := m3 } s3a.fault
          simp only at a3
          rw [a3, a3a, a2, a1, apply_append, apply_append, apply_append]

end NfcVerif.Hist
