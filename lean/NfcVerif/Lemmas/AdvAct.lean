import NfcVerif.Lemmas.AdvT12
import NfcVerif.Lemmas.AdvT34
/-!
# C08 lemmas: `nfc.tag.activate` on well-framed activation data never raises
-/
namespace NfcVerif.Adv

theorem xchg_n (t : Tag) (w : W) (c : Bytes) : (xchg t w c).2.n = w.n + 1 := rfl

theorem activateNxp_n (t : Tag) (w : W) : (activateNxp t w).2.n ≤ w.n + 4 := by
  unfold activateNxp
  simp only
  split
  · simp [xchg_n]
  · split
    · simp [xchg_n]
    · split
      · simp [xchg_n]
      · split
        · simp [xchg_n]
        · split <;> simp [xchg_n]

/-- the activation inputs have the lengths the drivers deliver -/
def WellFramed (g : Target) : Prop :=
  (g.tech = 0 → g.sens.length = 2 ∧ g.sel.length = 1 ∧ 0 < g.sdd.length) ∧
  (g.tech = 1 → 12 ≤ g.sensb.length) ∧
  (g.tech ≠ 0 → g.tech ≠ 1 → g.sensf.length = 17 ∨ g.sensf.length = 19)

theorem activate_ok (t : Tag) (maxSend maxRecv : Nat) (g : Target) (w : W) (hg : WellFramed g) :
    (∃ o, (activate t maxSend maxRecv g w).1 = .ok o) ∧ (activate t maxSend maxRecv g w).2.n ≤ w.n + 5 := by
  unfold activate
  by_cases h0 : g.tech = 0
  · rw [if_pos h0]
    obtain ⟨hs, hl, hd⟩ := hg.1 h0
    obtain ⟨s1, hs1, -⟩ := idxN_lt g.sens 1 (by omega)
    obtain ⟨sl, hsl, -⟩ := idxN_lt g.sel 0 (by omega)
    obtain ⟨m, hm, -⟩ := idxN_lt g.sdd 0 hd
    rw [hs1]
    simp only
    split
    · exact ⟨⟨_, rfl⟩, by simp⟩
    · rw [hsl]
      simp only
      split
      · rw [hm]
        simp only
        split
        · have hn := activateNxp_n t w
          rcases hq : activateNxp t w with ⟨c, w'⟩
          rw [hq] at hn
          cases c with
          | some c => exact ⟨⟨_, rfl⟩, by simp at hn ⊢; omega⟩
          | none =>
            simp only [xchg]
            cases t w'.n with
            | some x => exact ⟨⟨_, rfl⟩, by simp at hn ⊢; omega⟩
            | none => exact ⟨⟨_, rfl⟩, by simp at hn ⊢; omega⟩
        · exact ⟨⟨_, rfl⟩, by simp⟩
      · split
        · simp only [xchg]
          cases t w.n with
          | none => exact ⟨⟨_, rfl⟩, by simp⟩
          | some ats => exact ⟨⟨_, rfl⟩, by simp⟩
        · exact ⟨⟨_, rfl⟩, by simp⟩
  · rw [if_neg h0]
    by_cases h1 : g.tech = 1
    · rw [if_pos h1]
      have hb := hg.2.1 h1
      simp only [xchg]
      cases t w.n with
      | none => exact ⟨⟨_, rfl⟩, by simp⟩
      | some x =>
        simp only
        obtain ⟨a, ha, -⟩ := idxN_lt g.sensb 10 (by omega)
        obtain ⟨b, hb', -⟩ := idxN_lt g.sensb 11 (by omega)
        simp only [IsoDep.activateB, ha, hb', Py.bind_ok]
        exact ⟨⟨_, rfl⟩, by simp⟩
    · rw [if_neg h1]
      have hf := hg.2.2 h0 h1
      split
      · exact ⟨⟨_, rfl⟩, by simp⟩
      · obtain ⟨ic, hic, -⟩ := idxN_lt g.sensf 10 (by omega)
        rw [hic]
        simp only
        rcases hf with hf | hf
        · rw [if_neg (by omega)]
          exact ⟨⟨_, rfl⟩, by simp⟩
        · rw [if_pos (by omega)]
          obtain ⟨v, hv⟩ := unpackH_slice g.sensf 17 (by omega)
          rw [hv]
          exact ⟨⟨_, rfl⟩, by simp⟩
end NfcVerif.Adv
