import NfcVerif.Gen.FnTagCmd
import NfcVerif.Model.FnTagCmdRef
import NfcVerif.Model.AdvT34
import NfcVerif.Model.Auth
import NfcVerif.Model.T3Emu
import NfcVerif.Model.CtlC03
import NfcVerif.Lemmas.FnBridgeTagCmdPrelude
import NfcVerif.Lemmas.FnBridgeTlv
import NfcVerif.Lemmas.Tlv
import NfcVerif.Lemmas.AdvT2
/-!
Helper lemmas for `Props/FnBridgeTagCmd.lean` (`nfc/tag/tt1.py`, `tt2.py`, `tt3.py` against
`Model/FnTagCmdRef.lean`, `Model/AdvT12.lean`, `Model/AdvT34.lean`, `Model/Auth.lean`, `Model/Tlv.lean`):
prelude primitives on cast naturals (`mkBytes`, `pack`, slices) and the statements that the model
functions send / check exactly the reference commands.
-/
set_option linter.unusedSimpArgs false
set_option linter.unusedVariables false
namespace NfcVerif.FnBridge.TagCmd
open NfcVerif NfcVerif.PyFn

/-! ## what the adversarial-tag reader models of C08 send and check, in terms of the reference commands -/

open NfcVerif.Adv NfcVerif.TagCmdRef

/-- RALL of `Type1TagMemoryReader._read_from_tag` -/
theorem stageA_cmd (t : Tag) (uid : Bytes) (s : S1) :
    stageA t uid s =
      if s.cache.length < 120 then
        match trans1 t (t1Rall uid) s with
        | (.error e, s1) => (.error e, s1)
        | (.ok rsp, s1) =>
          if rsp.length < 2 then (.error (.tagCmd 2), s1)
          else (.ok (), { s1 with hdr := rsp.take 2, cache := rsp.drop 2 })
      else (.ok (), s) := rfl

/-- READ8 of block 15: the command is `t1Read8 15`, the answer is checked by `t1Read8Rsp` -/
theorem stageB_cmd (t : Tag) (uid : Bytes) (stop : Nat) (s1 : S1) :
    stageB t uid stop s1 =
      if stop > 120 ∧ s1.cache.length < 128 then
        match t1Read8 15 uid with
        | .error e => (.error e, s1)
        | .ok cmd =>
          match trans1 t cmd s1 with
          | (.error e, s2) => (.error e, s2)
          | (.ok rsp, s2) =>
            match t1Read8Rsp rsp with
            | .error e => (.error e, s2)
            | .ok d => (.ok (), { s2 with cache := s2.cache.take 120 ++ d ++ s2.cache.drop 128 })
      else (.ok (), s1) := by
  unfold stageB
  by_cases h : stop > 120 ∧ s1.cache.length < 128
  · simp only [h, and_self, if_true]
    have hc : t1Read8 15 uid = .ok ([0x02, 15] ++ Adv.zeros8 ++ uid) := by
      simp [t1Read8, TagCmdRef.zeros8, Adv.zeros8]
    rw [hc]
    simp only []
    generalize trans1 t ([0x02, 15] ++ Adv.zeros8 ++ uid) s1 = r
    rcases r with ⟨r, s2⟩
    cases r with
    | error e => rfl
    | ok rsp =>
      unfold t1Read8Rsp
      by_cases hl : rsp.length < 9 <;> simp [hl]
  · simp only [h, if_false]

/-- one round of `while len(self) < stop: read_segment(len(self) >> 7)` -/
theorem segLoop_cmd (t : Tag) (uid : Bytes) (stop f : Nat) (s : S1) :
    segLoop t uid stop (f + 1) s =
      if s.cache.length ≥ stop then (.ok (), s)
      else
        match t1Rseg ((s.cache.length / 128 : Nat) : Int) uid with
        | .error e => (.error e, s)
        | .ok cmd =>
          match trans1 t cmd s with
          | (.error e, s1) => (.error e, s1)
          | (.ok rsp, s1) =>
            match t1RsegRsp rsp with
            | .error e => (.error e, s1)
            | .ok d => segLoop t uid stop f { s1 with cache := s1.cache ++ d } := by
  rw [segLoop]
  by_cases h : s.cache.length ≥ stop
  · simp only [h, if_true]
  · simp only [h, if_false]
    unfold t1Rseg
    by_cases hs : s.cache.length / 128 > 15
    · have : ((s.cache.length / 128 : Nat) : Int) < 0 ∨ ((s.cache.length / 128 : Nat) : Int) > 15 := by omega
      simp only [hs, if_true, this]
    · have : ¬ (((s.cache.length / 128 : Nat) : Int) < 0 ∨ ((s.cache.length / 128 : Nat) : Int) > 15) := by omega
      simp only [hs, if_false, this, Int.toNat_natCast]
      have hz : TagCmdRef.zeros8 = Adv.zeros8 := rfl
      rw [hz]
      generalize trans1 t ([0x10, s.cache.length / 128 * 16] ++ Adv.zeros8 ++ uid) s = r
      rcases r with ⟨r, s1⟩
      cases r with
      | error e => rfl
      | ok rsp =>
        unfold t1RsegRsp
        by_cases hl : rsp.length < 129 <;> simp [hl]

/-- `Type2Tag.read`: command `t2ReadCmd`, NAK recognition `t2IsNak`, length check `t2ReadRsp` -/
theorem read2_cmd (t : Tag) (page : Nat) (s : S2) :
    read2 t page s =
      match trans2 t 3 (t2ReadCmd (page : Int)) s with
      | (.error e, s') => (.error e, s')
      | (.ok d, s') =>
        if t2IsNak d then
          match xchg t s'.w [] with
          | (some _, w') => (.error (.tagCmd 2), { s' with w := w', alive := true, sector := 0 })
          | (none, w') => (.error (.tagCmd (-1)), { s' with w := w', alive := false, sector := 0 })
        else (t2ReadRsp d, s') := by
  unfold read2
  have hc : t2ReadCmd (page : Int) = [0x30, page % 256] := by
    unfold t2ReadCmd
    have : ((page : Int) % 256).toNat = page % 256 := by omega
    rw [this]
  rw [hc]
  rcases trans2 t 3 [0x30, page % 256] s with ⟨r, s'⟩
  cases r with
  | error e => rfl
  | ok d =>
    match d with
    | [] => simp [t2IsNak, t2ReadRsp]
    | [b] =>
      by_cases hb : b &&& 0xFA = 0
      · simp [t2IsNak, hb]; rfl
      · simp [t2IsNak, hb, t2ReadRsp]
    | a :: b :: r =>
      simp only [t2IsNak, t2ReadRsp]
      by_cases hl : (a :: b :: r).length ≠ 16 <;> simp [hl]
      all_goals (split <;> rfl)

/-- the frame of `Type3Tag.send_cmd_recv_rsp` as the C20 model builds it -/
theorem t3Command_frame (idm : Bytes) (code : Nat) (data : Bytes) :
    Auth.t3Command idm code data =
      if 2 + idm.length + data.length > 255 then .error .value
      else .ok ([2 + idm.length + data.length, code] ++ idm ++ data) := rfl


/-! ## Type 3: response checks and block list elements -/


/-- the response checks of the C20 model are the reference checks (commands with IDm and status flags) -/
theorem t3Response_eq (idm : Bytes) (code : Nat) (rsp : Bytes) :
    Auth.t3Response idm code rsp = t3CheckRsp code true true idm rsp := by
  unfold Auth.t3Response t3CheckRsp
  simp only [at0_eq, not_true_eq_false, if_false, if_true, true_and]
  by_cases hl : rsp.length < 12
  · simp [hl]
  · have e0 := idx_nat rsp 0 (by omega)
    have e1 := idx_nat rsp 1 (by omega)
    have e10 := idx_nat rsp 10 (by omega)
    have hs : slice rsp 2 10 = (rsp.drop 2).take 8 := slice_nat rsp 2 10
    have hsl : slice rsp 10 12 = [at0 rsp 10, at0 rsp 11] := slice2_at rsp 10 (by omega)
    rw [show ((0 : Nat) : Int) = 0 from rfl] at e0
    rw [show ((1 : Nat) : Int) = 1 from rfl] at e1
    rw [show ((10 : Nat) : Int) = 10 from rfl] at e10
    rw [e0, e1, e10, hs, hsl]
    simp only [hl, if_false, Py.bind_ok, false_or]



/-- the response checks of the C08 model are the reference checks with `check_status=True` -/
theorem checkRsp3_eq (code : Nat) (sendIdm : Bool) (idm rsp : Bytes) :
    Adv.checkRsp3 code sendIdm idm rsp = t3CheckRsp code sendIdm true idm rsp := by
  unfold Adv.checkRsp3 t3CheckRsp
  match rsp with
  | [] => cases sendIdm <;> simp
  | [a] => cases sendIdm <;> simp
  | r0 :: r1 :: rest =>
    simp only [List.getElem?_cons_zero, List.getElem?_cons_succ, Option.getD_some, List.drop_succ_cons, List.drop_zero, sliceN,
      List.length_cons, if_true]
    cases sendIdm
    · simp
      have : ¬ rest.length + 1 + 1 < 2 := by omega
      by_cases h0 : r0 = rest.length + 1 + 1 <;> simp [h0, this]
    · simp only [true_and, not_true_eq_false, if_false, ne_eq]
      by_cases hl : rest.length + 1 + 1 < 12
      · simp [hl]
      · have h10 : (r0 :: r1 :: rest)[10]? = some (((r0 :: r1 :: rest)[10]?).getD 0) := getD_of_lt _ 10 (by simp; omega)
        have h11 : (r0 :: r1 :: rest)[11]? = some (((r0 :: r1 :: rest)[11]?).getD 0) := getD_of_lt _ 11 (by simp; omega)
        simp only [List.getElem?_cons_succ] at h10 h11
        rw [h10, h11]
        simp only [hl, false_or]
        by_cases h0 : r0 = rest.length + 1 + 1 <;> by_cases h1 : r1 = code + 1 <;>
          by_cases hc : List.take 8 rest = idm <;> by_cases hd : (rest[8]?).getD 0 = 0 <;> simp [h0, h1, hc, hd]


/-- `BlockCode(n).pack()` of the C08 model (access mode 0, service index 0) -/
theorem blockCode_eq (bn : Nat) : Adv.blockCode bn = t3BlockCode bn 0 0 := by
  unfold Adv.blockCode t3BlockCode
  by_cases h1 : bn < 256
  · simp [h1]
  · by_cases h2 : bn < 65536 <;> simp [h1, h2]

/-- ... and of the C20 model (block numbers below 256) -/
theorem blockList_eq : ∀ (bl : List Nat), (∀ b ∈ bl, b < 256) →
    (bl.mapM fun b => t3BlockCode b 0 0) = .ok (bl.map fun b => [0x80, b])
  | [], _ => rfl
  | b :: bl, h => by
    have hb : b < 256 := h b (by simp)
    have ih := blockList_eq bl (fun x hx => h x (by simp [hx]))
    have e : t3BlockCode b 0 0 = .ok [0x80, b] := by simp [t3BlockCode, hb]
    simp only [List.mapM_cons, ih, e, List.map_cons]
    rfl

/-! ## Type 2: sector / page arithmetic of the memory reader -/

/-- `Type2TagMemoryReader._read_from_tag`: sector `index >> 10`, page `index >> 2` -/
theorem fill2_cmd (t : Tag) (stop f index : Nat) (s : S2) :
    fill2 t stop (f + 1) index s =
      if index ≥ stop then (.ok (), s)
      else
        match sectorSelect t (t2Sector index) s with
        | (.error e, s1) => (.error e, s1)
        | (.ok _, s1) =>
          match read2 t (t2Page index) s1 with
          | (.error e, s2) => (.error e, s2)
          | (.ok d, s2) => fill2 t stop f (index + 16) { s2 with cache := s2.cache.take index ++ d } := rfl

/-- `index = (len(self) >> 4) << 4` -/
theorem mem2_start (t : Tag) (stop : Nat) (s : S2) :
    (mem2 t).ensure stop s = fill2 t stop (stop + 1) (t2ReadStart s.cache.length) s := rfl

/-- `Type2Tag.sector_select`: packet 2 is `t2SectorSelect2`, the ACK of packet 1 is `t2SectorAck` -/
theorem sectorSelect_cmd (t : Tag) (sector : Nat) (s : S2) :
    sectorSelect t sector s =
      if sector = s.sector then (.ok (), s)
      else
        match t2SectorSelect2 (sector : Int) with
        | .error e => (.error e, s)
        | .ok p2 =>
          match trans2 t 3 [0xC2, 0xFF] s with
          | (.error e, s1) => (.error e, s1)
          | (.ok rsp, s1) =>
            if t2SectorAck rsp then
              match trans2 t 1 p2 s1 with
              | (.error e, s2) =>
                if e = .tagCmd 0 then (.ok (), { s2 with sector := sector })
                else (.error e, s2)
              | (.ok _, s2) => (.error (.tagCmd 1), s2)
            else (.error (.tagCmd 1), s1) := by
  unfold sectorSelect t2SectorSelect2 t2SectorAck
  by_cases h0 : sector = s.sector
  · simp only [h0, if_true]
  · simp only [h0, if_false]
    by_cases h1 : sector ≥ 256
    · have : ((sector : Int) < 0 ∨ (sector : Int) > 255) := by omega
      simp only [h1, if_true, this]
    · have : ¬ ((sector : Int) < 0 ∨ (sector : Int) > 255) := by omega
      simp only [h1, if_false, this, Int.toNat_natCast, decide_eq_true_eq]
      generalize trans2 t 3 [0xC2, 0xFF] s = r
      rcases r with ⟨r, s1⟩
      cases r with
      | error e => rfl
      | ok rsp =>
        by_cases hr : rsp = [0x0A]
        · simp only [hr, if_true]
          generalize trans2 t 1 [sector, 0, 0, 0] s1 = r2
          rcases r2 with ⟨r2, s2⟩
          cases r2 <;> rfl
        · simp only [hr, if_false]

/-! ## NDEF writer: data placement around the reserved bytes (`Tlv.place`, `Tlv.phase2`) -/
section placement
open NfcVerif.Tlv NfcVerif.FnBridge.Tlv

/-- stepping over one reserved byte does not change the next free address -/
theorem nextFree_succ_of_skip (s : Skip) (a : Nat) (h : inSkip s a = true) : nextFree s a = nextFree s (a + 1) := by
  apply Nat.le_antisymm
  · exact Adv.nextFree_least s a (nextFree s (a + 1)) (by have := nextFree_ge s (a + 1); omega) (nextFree_not_skip s (a + 1))
  · apply Adv.nextFree_least s (a + 1) (nextFree s a) _ (nextFree_not_skip s a)
    have h1 := nextFree_ge s a
    by_cases he : nextFree s a = a
    · have := nextFree_not_skip s a; rw [he] at this; rw [this] at h; cases h
    · omega

/-- `while offset + i in skip_bytes: offset += 1` ends at the next free address (enough fuel: one more
than the distance to the end of the last reserved range) -/
theorem while_skip (s : Skip) (sk : List Int) (h : SameSkip s sk) (i : Int) :
    ∀ (fuel a : Nat), skipMax s - a < fuel →
      whileM fuel ((a : Int) - i) (fun (o : Int) => Except.ok (decide ((o + i) ∈ sk)))
        (fun (o : Int) => Except.ok (o + 1)) = .ok ((nextFree s a : Int) - i)
  | 0, a, hf => by omega
  | f + 1, a, hf => by
    unfold whileM
    have e : (a : Int) - i + i = (a : Int) := by omega
    simp only [e]
    by_cases hs : inSkip s a = true
    · have hm : ((a : Int) ∈ sk) := (h a).mpr hs
      have hlt := inSkip_lt_skipMax s a hs
      simp only [hm, decide_true]
      have ih := while_skip s sk h i f (a + 1) (by omega)
      have e2 : (a : Int) - i + 1 = ((a + 1 : Nat) : Int) - i := by omega
      rw [e2, ih, nextFree_succ_of_skip s a hs]
    · have hm : ¬ ((a : Int) ∈ sk) := fun hm => hs ((h a).mp hm)
      simp only [hm, decide_false]
      rw [nextFree_eq_self s a (by simpa using hs)]


/-- body of the copy loop of `_write_ndef_data` (as generated) -/
def placeBody (fuel : Nat) (sk : List Int) (data : Bytes) (st : Int × Bytes) (i : Int) : Py (Int × Bytes) :=
  match st with
  | (offset_1, tag_memory_1) =>
    PyFn.whileM fuel offset_1
      (fun (offset_2 : Int) => Except.ok (decide ((offset_2 + i) ∈ sk)))
      (fun (offset_3 : Int) => Except.ok (let offset_4 := (offset_3 + 1)
       offset_4)) >>= fun offset_5 =>
    PyFn.getB data i >>= fun t1 =>
    PyFn.setB tag_memory_1 (offset_5 + i) t1 >>= fun tag_memory_2 =>
    Except.ok (offset_5, tag_memory_2)

/-- the result of the model's `place` as the loop state of the source: the Python `offset` lags behind the
address by the number of octets copied; a write beyond the image is `IndexError` there and the command
error of the fetch in the model -/
def placeState (k : Nat) (r : Py (Bytes × Nat)) : Py (Int × Bytes) :=
  match r with
  | .ok (m', a') => .ok ((a' : Int) - (k : Int), m')
  | .error _ => .error .index

theorem place_forM (c : Cfg) (s : Skip) (sk : List Int) (h : SameSkip s sk) (fuel : Nat) (hf : skipMax s < fuel)
    (data : Bytes) (hb : IsBytes data) :
    ∀ (ds : Bytes) (k a : Nat) (mem : Bytes), data.drop k = ds →
      PyFn.forM ((List.range' k ds.length).map fun (n : Nat) => (n : Int)) ((a : Int) - (k : Int), mem) (placeBody fuel sk data)
        = placeState (k + ds.length) (Tlv.place c s mem a ds)
  | [], k, a, mem, _ => by
    simp [PyFn.forM, Tlv.place, placeState]
  | d :: ds, k, a, mem, hd => by
    have hk : k < data.length := by
      have : (data.drop k).length = (d :: ds).length := by rw [hd]
      simp at this; omega
    have hdk : data[k]? = some d := by
      have := congrArg (fun l => l[0]?) hd
      simpa [List.getElem?_drop] using this
    have hd' : data.drop (k + 1) = ds := by
      have := congrArg List.tail hd
      simpa [List.tail_drop] using this
    have hdb : d < 256 := by
      have : d ∈ data := by rw [List.getElem?_eq_some_iff] at hdk; obtain ⟨_, rfl⟩ := hdk; exact List.getElem_mem _
      exact hb d this
    simp only [List.length_cons, List.range'_succ, List.map_cons, PyFn.forM]
    -- one round of the body
    have hw := while_skip s sk h (k : Int) fuel a (by omega)
    have hg : getB data (k : Int) = .ok (d : Int) := by
      rw [getB_ofNat, hdk]
    have step : placeBody fuel sk data ((a : Int) - (k : Int), mem) (k : Int) =
        (PyFn.setB mem ((nextFree s a : Nat) : Int) (d : Int) >>= fun m2 => .ok (((nextFree s a : Nat) : Int) - (k : Int), m2)) := by
      unfold placeBody
      simp only []
      rw [show (fun (offset_3 : Int) => (Except.ok (let offset_4 := offset_3 + 1; offset_4) : Py Int)) = fun (o : Int) => Except.ok (o + 1) from rfl]
      rw [hw, hg]
      simp only [Py.bind_ok]
      have : ((nextFree s a : Nat) : Int) - (k : Int) + (k : Int) = ((nextFree s a : Nat) : Int) := by omega
      rw [this]
    rw [step]
    unfold Tlv.place Tlv.wr
    by_cases hp : nextFree s a < mem.length
    · rw [setB_nat mem (nextFree s a) d hp hdb]
      simp only [hp, if_true, Py.bind_ok]
      have e : ((nextFree s a : Nat) : Int) - (k : Int) = ((nextFree s a + 1 : Nat) : Int) - ((k + 1 : Nat) : Int) := by omega
      rw [e, place_forM c s sk h fuel hf data hb ds (k + 1) (nextFree s a + 1) (mem.set (nextFree s a) d) hd']
      have : k + 1 + ds.length = k + (ds.length + 1) := by omega
      rw [this]
    · have hs : PyFn.setB mem ((nextFree s a : Nat) : Int) (d : Int) = .error .index := by
        unfold PyFn.setB
        have h1 : ¬ (((nextFree s a : Nat) : Int) < 0) := by omega
        have h2 : (((nextFree s a : Nat) : Int) ≥ (mem.length : Int)) := by omega
        simp only [h1, if_false, h2, or_true, if_true]
      rw [hs]
      simp only [hp, if_false, Py.bind_error, placeState]


/-- `tag_memory[a] = v` on the cached image, as the model's `wr` -/
def wrState (r : Py Bytes) : Py Bytes :=
  match r with
  | .ok m => .ok m
  | .error _ => .error .index

theorem setB_wr (c : Cfg) (mem : Bytes) (p v : Nat) (hv : v < 256) :
    PyFn.setB mem (p : Int) (v : Int) = wrState (Tlv.wr c mem p v) := by
  unfold Tlv.wr
  by_cases hp : p < mem.length
  · rw [setB_nat mem p v hp hv]; simp [hp, wrState]
  · unfold PyFn.setB
    have h1 : ¬ ((p : Int) < 0) := by omega
    have h2 : ((p : Int) ≥ (mem.length : Int)) := by omega
    simp only [h1, if_false, h2, or_true, if_true, hp, wrState]

theorem while_skip0 (s : Skip) (sk : List Int) (h : SameSkip s sk) (fuel a : Nat) (hf : skipMax s - a < fuel) :
    whileM fuel (a : Int) (fun (o : Int) => Except.ok (decide (o ∈ sk))) (fun (o : Int) => Except.ok (o + 1))
      = .ok ((nextFree s a : Nat) : Int) := by
  have := while_skip s sk h 0 fuel a hf
  simp only [Int.sub_zero, Int.add_zero] at this
  exact this

/-- the `while offset < size: if offset not in skip: mem[offset] = 0xFE; break; offset += 1` loop -/
theorem term_loop (s : Skip) (sk : List Int) (h : SameSkip s sk) (size : Nat) (mem : Bytes) :
    ∀ (fuel a : Nat), size - a < fuel →
      (PyFn.whileC (ρ := Empty) fuel (mem, (a : Int))
        (fun (st : (Bytes × Int)) =>
          match st with
          | (tag_memory_1, offset_2) => Except.ok (decide (offset_2 < (size : Int))))
        (fun (st : (Bytes × Int)) =>
          match st with
          | (tag_memory_2, offset_3) =>
            if (¬ (offset_3 ∈ sk)) then
              (PyFn.setB tag_memory_2 offset_3 254 >>= fun tag_memory_3 =>
               Except.ok ((PyFn.Ctl.brk (tag_memory_3, offset_3))))
            else
            Except.ok (let offset_4 := (offset_3 + 1)
             (PyFn.Ctl.next (tag_memory_2, offset_4)))) >>= fun c =>
      match c with
      | .inr r => nomatch r
      | .inl (tag_memory_4, offset_5) => Except.ok tag_memory_4)
      = if nextFree s a < size then PyFn.setB mem ((nextFree s a : Nat) : Int) 254 else .ok mem
  | 0, a, hf => by omega
  | f + 1, a, hf => by
    unfold PyFn.whileC
    simp only []
    by_cases hlt : a < size
    · have hlt' : ((a : Int) < (size : Int)) := by omega
      simp only [hlt', decide_true]
      by_cases hs : inSkip s a = true
      · have hm : ((a : Int) ∈ sk) := (h a).mpr hs
        simp only [hm, not_true_eq_false, if_false]
        have ih := term_loop s sk h size mem f (a + 1) (by omega)
        rw [show ((a : Int) + 1) = ((a + 1 : Nat) : Int) from by omega]
        rw [ih, nextFree_succ_of_skip s a hs]
      · have hm : ¬ ((a : Int) ∈ sk) := fun hm => hs ((h a).mp hm)
        have hnf : nextFree s a = a := nextFree_eq_self s a (by simpa using hs)
        simp only [hm, not_false_eq_true, if_true, hnf, hlt]
        cases PyFn.setB mem (a : Int) 254 <;> rfl
    · have hlt' : ¬ ((a : Int) < (size : Int)) := by omega
      have hge := nextFree_ge s a
      have : ¬ nextFree s a < size := by omega
      simp only [hlt', decide_false, this, if_false]
      rfl


theorem forM_congr {α σ} (f g : σ → α → Py σ) : ∀ (l : List α) (s : σ), (∀ x ∈ l, ∀ t, f t x = g t x) →
    PyFn.forM l s f = PyFn.forM l s g
  | [], s, _ => rfl
  | x :: xs, s, h => by
    simp only [PyFn.forM]
    rw [h x (by simp) s]
    cases g s x with
    | error e => rfl
    | ok s' => exact forM_congr f g xs s' (fun y hy t => h y (by simp [hy]) t)

/-- body of the copy loop of the Type 2 writer (`for index, octet in enumerate(data)`, as generated) -/
def placeBody2 (fuel : Nat) (sk : List Int) (data : Bytes) (st : Int × Bytes) (index : Int) : Py (Int × Bytes) :=
  match st with
  | (offset_1, tag_memory_1) =>
    PyFn.getB data index >>= fun t1 =>
    let octet := t1
    PyFn.whileM fuel offset_1
      (fun (offset_2 : Int) => Except.ok (decide ((offset_2 + index) ∈ sk)))
      (fun (offset_3 : Int) => Except.ok (let offset_4 := (offset_3 + 1)
       offset_4)) >>= fun offset_5 =>
    PyFn.setB tag_memory_1 (offset_5 + index) octet >>= fun tag_memory_2 =>
    Except.ok (offset_5, tag_memory_2)

/-- the octet is read before the reserved bytes are skipped instead of after: no difference inside the data -/
theorem placeBody2_eq (fuel : Nat) (sk : List Int) (data : Bytes) (k : Nat) (hk : k < data.length) (st : Int × Bytes) :
    placeBody2 fuel sk data st (k : Int) = placeBody fuel sk data st (k : Int) := by
  unfold placeBody2 placeBody
  have hg : getB data (k : Int) = .ok ((at0 data k : Nat) : Int) := by rw [getB_nat]; simp [hk]
  obtain ⟨o, m⟩ := st
  simp only [hg, Py.bind_ok]


/-- `Tlv.place` writes only at addresses from `a` on -/
theorem place_below (c : Cfg) (s : Skip) : ∀ (ds : Bytes) (m : Bytes) (a : Nat) (m' : Bytes) (a' : Nat) (j : Nat),
    Tlv.place c s m a ds = .ok (m', a') → j < a → m'.length = m.length ∧ at0 m' j = at0 m j
  | [], m, a, m', a', j, h, _ => by
    simp only [Tlv.place] at h; cases h; exact ⟨rfl, rfl⟩
  | d :: ds, m, a, m', a', j, h, hj => by
    simp only [Tlv.place, Tlv.wr] at h
    by_cases hp : nextFree s a < m.length
    · simp only [hp, if_true, Py.bind_ok] at h
      have hge := nextFree_ge s a
      obtain ⟨h1, h2⟩ := place_below c s ds (m.set (nextFree s a) d) (nextFree s a + 1) m' a' j h (by omega)
      refine ⟨by rw [h1]; simp, ?_⟩
      rw [h2]
      unfold at0
      rw [List.getElem?_set_ne (by omega)]
    · simp only [hp, if_false, Py.bind_error] at h
      cases h


/-- the result of a computation when it succeeds (which exception a failed read of the cached image raises differs
between a bytearray and the memory reader of the model) -/
def okOnly {α} (x : Py α) : Option α :=
  match x with
  | .ok a => some a
  | .error _ => none

@[simp] theorem okOnly_ok {α} (a : α) : okOnly (.ok a : Py α) = some a := rfl
@[simp] theorem okOnly_error {α} (e : Exc) : okOnly (.error e : Py α) = none := rfl

/-- body of the value loop of `read_tlv` (as generated) -/
def fetchBody (fuel : Nat) (sk : List Int) (memory : Bytes) (st : Int × Bytes) (i : Int) : Py (Int × Bytes) :=
  match st with
  | (offset_5, tlv_v_1) =>
    PyFn.whileM fuel offset_5
      (fun (offset_6 : Int) => Except.ok (decide ((offset_6 + i) ∈ sk)))
      (fun (offset_7 : Int) => Except.ok (let offset_8 := (offset_7 + 1)
       offset_8)) >>= fun offset_9 =>
    PyFn.getB memory (offset_9 + i) >>= fun t4 =>
    PyFn.setB tlv_v_1 i t4 >>= fun tlv_v_2 =>
    Except.ok (offset_9, tlv_v_2)

theorem rd_nat (c : Cfg) (m : Bytes) (p : Nat) : rd c m p = if p < m.length then .ok (at0 m p) else .error c.rdErr := by
  unfold rd at0
  by_cases h : p < m.length
  · simp [h, List.getElem?_eq_getElem h]
  · simp [h, List.getElem?_eq_none (by omega : m.length ≤ p)]

/-- the value loop collects what `Tlv.fetch` collects -/
theorem fetch_forM (c : Cfg) (s : Skip) (sk : List Int) (h : SameSkip s sk) (fuel : Nat) (hf : skipMax s < fuel)
    (m : Bytes) (hm : IsBytes m) :
    ∀ (n k a : Nat) (v : Bytes), v.length = k + n →
      okOnly (PyFn.forM ((List.range' k n).map fun (j : Nat) => (j : Int)) ((a : Int) - (k : Int), v) (fetchBody fuel sk m)
        >>= fun st => Except.ok st.2)
        = (okOnly (Tlv.fetch (rd c m) s n a)).map fun xs => v.take k ++ xs
  | 0, k, a, v, hv => by
    simp [PyFn.forM, Tlv.fetch, List.take_of_length_le (by omega : v.length ≤ k)]
  | n + 1, k, a, v, hv => by
    simp only [List.range'_succ, List.map_cons, PyFn.forM, Tlv.fetch]
    have hw := while_skip s sk h (k : Int) fuel a (by omega)
    have step : fetchBody fuel sk m ((a : Int) - (k : Int), v) (k : Int) =
        (PyFn.getB m ((nextFree s a : Nat) : Int) >>= fun t4 => PyFn.setB v (k : Int) t4 >>= fun v2 =>
          .ok (((nextFree s a : Nat) : Int) - (k : Int), v2)) := by
      unfold fetchBody
      simp only []
      rw [show (fun (offset_7 : Int) => (Except.ok (let offset_8 := offset_7 + 1; offset_8) : Py Int)) = fun (o : Int) => Except.ok (o + 1) from rfl]
      rw [hw]
      simp only [Py.bind_ok]
      have : ((nextFree s a : Nat) : Int) - (k : Int) + (k : Int) = ((nextFree s a : Nat) : Int) := by omega
      rw [this]
    rw [step, getB_nat, rd_nat]
    by_cases hp : nextFree s a < m.length
    · have hx : at0 m (nextFree s a) < 256 := at0_lt_256 hm _
      simp only [hp, if_true, Py.bind_ok]
      rw [setB_nat v k _ (by omega) hx]
      simp only [Py.bind_ok]
      have e : ((nextFree s a : Nat) : Int) - (k : Int) = ((nextFree s a + 1 : Nat) : Int) - ((k + 1 : Nat) : Int) := by omega
      rw [e]
      have ih := fetch_forM c s sk h fuel hf m hm n (k + 1) (nextFree s a + 1) (v.set k (at0 m (nextFree s a))) (by simp; omega)
      rw [ih]
      have ht : (v.set k (at0 m (nextFree s a))).take (k + 1) = v.take k ++ [at0 m (nextFree s a)] := by
        rw [List.take_add_one, List.take_set_of_le (by omega)]
        simp [List.getElem?_set_self (by omega : k < v.length)]
      cases hfe : Tlv.fetch (rd c m) s n (nextFree s a + 1) with
      | error e => simp
      | ok xs => simp [ht]
    · simp only [hp, if_false, Py.bind_error, okOnly_error, Option.map_none]


theorem okOnly_bind {α β} (x : Py α) (f : α → Py β) : okOnly (x >>= f) = (okOnly x).bind (fun a => okOnly (f a)) := by
  cases x <;> rfl

theorem range0_cast (n : Nat) : PyFn.range 0 (n : Int) = (List.range' 0 n).map fun (j : Nat) => (j : Int) := by
  have := range_ofNat 0 n
  simp only [Nat.sub_zero] at this
  rw [show (0 : Int) = ((0 : Nat) : Int) from rfl, this, List.range_eq_range']
  apply List.map_congr_left
  intro i _
  omega

/-- `read_tlv` of the Type 2 reader in terms of the model functions that `Tlv.walkPre` / `Tlv.readNdefRaw` apply to a
TLV: tag octet, `readLen`, `fetch` -/
def readTlvRef (c : Cfg) (m : Bytes) (s : Skip) (off : Nat) : Py (Int × Int × Option Bytes) :=
  rd c m off >>= fun t =>
  if t = 0 ∨ t = 0xFE then .ok ((t : Int), -1, none) else
  readLen (rd c m) (off + 1) >>= fun lv =>
  fetch (rd c m) s lv.1 lv.2 >>= fun v => .ok ((t : Int), (lv.1 : Int), some v)

/-- the length field: one octet, or `FF` and two octets big-endian -/
theorem readLen_gen (c : Cfg) (m : Bytes) (a : Nat) (l : Nat) (hl : rd c m a = .ok l) :
    okOnly ((if (l : Int) = 255 then
        (PyFn.needExact (slice m ((a : Int) + 1) ((a : Int) + 1 + 2)) (2) >>= fun _ =>
          Except.ok ((PyFn.ube (slice m ((a : Int) + 1) ((a : Int) + 1 + 2)) 0 2), ((a : Int) + 1 + 2)))
      else Except.ok ((l : Int), ((a : Int) + 1))) : Py (Int × Int))
      = (okOnly (readLen (rd c m) a)).map fun lv => ((lv.1 : Int), (lv.2 : Int)) := by
  unfold readLen
  rw [hl]
  simp only [Py.bind_ok]
  by_cases h255 : l = 255
  · have : ((l : Int) = 255) := by omega
    rw [if_pos this, if_pos h255]
    rw [rd_nat, rd_nat]
    have e1 : ((a : Int) + 1) = ((a + 1 : Nat) : Int) := by omega
    have e2 : ((a : Int) + 1 + 2) = ((a + 1 + 2 : Nat) : Int) := by omega
    rw [e2, e1]
    by_cases hlen : a + 1 + 2 ≤ m.length
    · have hs := slice2_at m (a + 1) hlen
      rw [hs, needExact_pair', ube_pair']
      have h1 : a + 1 < m.length := by omega
      have h2 : a + 2 < m.length := by omega
      simp [h1, h2]
      omega
    · rw [slice_nat]
      have hne : needExact (sliceN m (a + 1) (a + 1 + 2)) 2 = .error .struct := by
        rw [show (2 : Int) = ((2 : Nat) : Int) from rfl, needExact_nat]
        have : (sliceN m (a + 1) (a + 1 + 2)).length ≠ 2 := by simp [sliceN]; omega
        simp [this]
      rw [hne]
      by_cases h1 : a + 1 < m.length
      · have h2 : ¬ a + 2 < m.length := by omega
        simp [h1, h2]
      · simp [h1]
  · have : ¬ ((l : Int) = 255) := by omega
    simp [h255, this]


theorem okOnly_map_snd {σ β} (x : Py (Int × σ)) (f : σ → β) :
    okOnly (x >>= fun st => Except.ok (f st.2)) = (okOnly (x >>= fun st => Except.ok st.2)).map f := by
  cases x <;> rfl


end placement

end NfcVerif.FnBridge.TagCmd
