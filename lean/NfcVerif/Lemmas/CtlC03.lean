import NfcVerif.Model.CtlC03
import NfcVerif.Lemmas.TlvSync
import NfcVerif.Lemmas.T1Format
namespace NfcVerif.Tlv
open NfcVerif

/-! ### control TLV value field -/

theorem inSkip_single (r : Nat × Nat) (a : Nat) : inSkip [r] a = true ↔ r.1 ≤ a ∧ a < r.2 := by
  simp [inSkip]

theorem inSkip_append (s1 s2 : Skip) (a : Nat) : inSkip (s1 ++ s2) a = (inSkip s1 a || inSkip s2 a) := by
  simp [inSkip, List.any_append]

theorem inSkip_append_false (s1 s2 : Skip) (a : Nat) (h : inSkip (s1 ++ s2) a = false) :
    inSkip s1 a = false ∧ inSkip s2 a = false := by
  rw [inSkip_append] at h; simpa using h

/-- `get_lock_byte_range` / `get_rsvd_byte_range` + `slice.indices(limit)` compute the specified range -/
theorem ctlRange_eq (lock : Bool) (limit d0 d1 d2 : Nat) (rest : Bytes) :
    ctlRange lock limit (d0 :: d1 :: d2 :: rest) = .ok (Ctl.range limit (lock, d0, d1, d2)) := by
  unfold ctlRange Ctl.range specFirst specCount specBits
  simp only [idxN_cons_zero, idxN_cons_succ, Py.bind_ok]
  by_cases h : d1 = 0
  · subst h; simp
  · have : d1 > 0 := by omega
    simp [h, this]

theorem range_mem (limit : Nat) (t : Ctl) (a : Nat) :
    inSkip [Ctl.range limit t] a = true ↔
      (specFirst t.2.1 t.2.2.2 ≤ a ∧ a < specFirst t.2.1 t.2.2.2 + specCount t.1 t.2.2.1 ∧ a < limit) := by
  rw [inSkip_single]; unfold Ctl.range; simp only; omega

theorem specCount_bounds (lock : Bool) (d1 : Nat) (h : d1 < 256) :
    1 ≤ specCount lock d1 ∧ specCount true d1 ≤ 32 ∧ specCount false d1 ≤ 256
    ∧ specBits d1 ≤ 8 * specCount true d1 ∧ 8 * specCount true d1 < specBits d1 + 8 := by
  unfold specCount specBits
  by_cases h0 : d1 = 0
  · subst h0; cases lock <;> simp
  · cases lock <;> simp [h0] <;> omega

/-! ### the reader on a chain of control TLVs -/

theorem chain_le (m : Bytes) : ∀ (fuel o : Nat) (cs : List Ctl) (off : Nat),
    chainParse m fuel o = some (cs, off) → o ≤ off := by
  intro fuel
  induction fuel with
  | zero => intro o cs off h; simp [chainParse] at h
  | succ fuel ih =>
    intro o cs off h
    simp only [chainParse] at h
    split at h
    · cases h
    · rename_i t ht
      split at h
      · injection h with h; injection h with _ h2; omega
      · split at h
        · have := ih _ _ _ h; omega
        · split at h
          · split at h
            · split at h
              · split at h
                · rename_i cs' off' hrec
                  injection h with h; injection h with _ h2
                  have := ih _ _ _ hrec; omega
                · cases h
              · cases h
            · cases h
          · cases h

theorem rdB_of (c : Cfg) (B : Nat) (m : Bytes) (a v : Nat) (hB : a < B) (h : m[a]? = some v) :
    rdB c B m a = .ok v := by
  unfold rdB; rw [if_pos hB]; exact (rd_ok_iff c m a v).2 h

/-- the walk of `_read_ndef_data` over a chain of control / NULL TLVs that no declared range touches:
it arrives at the NDEF TLV with exactly the specified ranges in the skip set, reading only bytes in
front of the NDEF TLV's length byte -/
theorem chain_reads (c : Cfg) (m : Bytes) (e B : Nat) :
    ∀ (fuel o : Nat) (skip : Skip) (cs : List Ctl) (off : Nat),
      chainParse m fuel o = some (cs, off) → off < e → off < B →
      (∀ a, o ≤ a → a < off + 2 → inSkip (skip ++ cs.map (Ctl.range c.limit)) a = false) →
      ∀ fuel', e - o < fuel' →
        walkPre c (rdB c B m) e fuel' o skip = .ok (.found off (skip ++ cs.map (Ctl.range c.limit))) := by
  intro fuel
  induction fuel with
  | zero => intro o skip cs off h; simp [chainParse] at h
  | succ fuel ih =>
    intro o skip cs off h he hB hfree fuel' hfuel
    have hle := chain_le m _ _ _ _ h
    simp only [chainParse] at h
    cases fuel' with
    | zero => omega
    | succ fuel' =>
    have hso : inSkip skip o = false := (inSkip_append_false _ _ _ (hfree o (Nat.le_refl _) (by omega))).1
    have hoo : (if c.t1 = true then o else nextFree skip o) = o := by
      split
      · rfl
      · exact nextFree_eq_self _ _ hso
    simp only [walkPre]
    rw [if_neg (by omega), hso, Bool.and_false, if_neg (by simp), hoo]
    split at h
    · cases h
    · rename_i t ht
      rw [rdB_of c B m o t (by omega) ht]
      simp only
      split at h
      · -- NDEF TLV
        rename_i h3
        injection h with h; injection h with h1 h2
        subst h1; subst h2; subst h3
        rw [if_neg (by decide), if_neg (by decide), if_pos rfl]
        simp
      · rename_i h3
        split at h
        · -- NULL TLV
          rename_i h0
          rw [if_pos h0]
          have hle' := chain_le m _ _ _ _ h
          exact ih _ _ _ _ h he hB (fun a ha1 ha2 => hfree a (by omega) ha2) fuel' (by omega)
        · rename_i h0
          split at h
          · rename_i h12
            split at h
            · rename_i l d0 d1 d2 hl hd0 hd1 hd2
              split at h
              · rename_i hl3
                split at h
                · rename_i cs' off' hrec
                  injection h with h; injection h with h1 h2
                  subst h1; subst h2; subst hl3
                  have hle' := chain_le m _ _ _ _ hrec
                  rw [if_neg h0, if_neg (by rcases h12 with h | h <;> omega), if_neg h3]
                  -- length field and value
                  have hr1 : rdB c B m (o + 1) = .ok 3 := rdB_of c B m _ _ (by omega) hl
                  have hlen : readLen (rdB c B m) (o + 1) = .ok (3, o + 2) := by
                    unfold readLen; rw [hr1, Py.bind_ok, if_neg (by decide)]
                  have hs : ∀ a, o ≤ a → a < off' + 2 → inSkip skip a = false :=
                    fun a h1 h2 => (inSkip_append_false _ _ _ (hfree a h1 h2)).1
                  have hfetch : fetch (rdB c B m) skip 3 (o + 2) = .ok [d0, d1, d2] := by
                    simp only [fetch]
                    rw [nextFree_eq_self _ _ (hs (o + 2) (by omega) (by omega)),
                      rdB_of c B m _ _ (by omega) hd0, Py.bind_ok,
                      nextFree_eq_self _ _ (hs (o + 2 + 1) (by omega) (by omega)),
                      rdB_of c B m (o + 2 + 1) d1 (by omega) hd1, Py.bind_ok,
                      nextFree_eq_self _ _ (hs (o + 2 + 1 + 1) (by omega) (by omega)),
                      rdB_of c B m (o + 2 + 1 + 1) d2 (by omega) hd2, Py.bind_ok]
                    rfl
                  rw [hlen, Py.bind_ok, hfetch, Py.bind_ok]
                  simp only
                  rw [if_pos h12, if_pos (Or.inr trivial), ctlRange_eq, Py.bind_ok]
                  have hnext : o + 3 + 1 + (if 3 < 255 then 1 else 3) = o + 5 := by simp
                  rw [hnext]
                  have := ih (o + 5) (skip ++ [Ctl.range c.limit (decide (t = 1), d0, d1, d2)]) cs' off' hrec he hB
                    (fun a ha1 ha2 => by
                      have := hfree a (by omega) ha2
                      simpa [List.append_assoc] using this)
                    fuel' (by omega)
                  rw [this]
                  simp [List.append_assoc]
                · cases h
              · cases h
            · cases h
          · cases h

/-- the reader's skip set only grows along the walk -/
theorem walkPre_skip_mono (c : Cfg) (r : Rd) (e : Nat) (fuel off : Nat) (skip : Skip) (o : Nat) (sk : Skip)
    (hx : walkPre c r e fuel off skip = .ok (.found o sk)) (a : Nat) (ha : inSkip skip a = true) :
    inSkip sk a = true := by
  induction fuel generalizing off skip with
  | zero => simp [walkPre] at hx
  | succ fuel ih =>
    simp only [walkPre] at hx
    split at hx
    · cases hx
    · split at hx
      · exact ih _ _ hx ha
      · generalize (if c.t1 = true then off else nextFree skip off) = oo at hx
        cases hr : r oo with
        | error ex => rw [hr] at hx; simp only at hx; split at hx <;> cases hx
        | ok t =>
          rw [hr] at hx; simp only at hx
          split at hx
          · exact ih _ _ hx ha
          · split at hx
            · cases hx
            · split at hx
              · injection hx with hx; injection hx with h1 h2; subst h2; exact ha
              · obtain ⟨lv, _, hx⟩ := Py.bind_eq_ok.1 hx
                obtain ⟨v, _, hx⟩ := Py.bind_eq_ok.1 hx
                split at hx
                · split at hx
                  · obtain ⟨rg, _, hx⟩ := Py.bind_eq_ok.1 hx
                    exact ih _ _ hx (by rw [inSkip_append, ha]; rfl)
                  · exact ih _ _ hx ha
                · exact ih _ _ hx ha

theorem inSkip_of_mem (s : Skip) (r : Nat × Nat) (a : Nat) (hr : r ∈ s) (ha : inSkip [r] a = true) :
    inSkip s a = true := by
  rw [inSkip_single] at ha
  unfold inSkip
  rw [List.any_eq_true]
  exact ⟨r, hr, by simp [ha.1, ha.2]⟩

/-- what `chainOk` says -/
theorem chainOk_iff (c : Cfg) (m : Bytes) (e : Nat) (cs : List Ctl) (off : Nat)
    (hchain : chainParse m (e + 1) c.dataStart = some (cs, off)) (hok : chainOk c m e = true) :
    off + 1 < e ∧ ∀ a, c.dataStart ≤ a → a < off + 2 →
      inSkip (c.initSkip e ++ cs.map (Ctl.range c.limit)) a = false := by
  unfold chainOk at hok
  rw [hchain] at hok
  simp only [Bool.and_eq_true, decide_eq_true_eq, List.all_eq_true, List.mem_range, Bool.not_eq_true'] at hok
  refine ⟨hok.1, fun a h1 h2 => ?_⟩
  have := hok.2 (a - c.dataStart) (by omega)
  rwa [show c.dataStart + (a - c.dataStart) = a by omega] at this

/-- a tag image whose TLV area is a chain of control / NULL TLVs that no declared range touches is
well-formed, and the layout the reader computes has exactly the specified ranges in its skip set -/
theorem chain_wf (c : Cfg) (m : Bytes) (L : Layout) (cs : List Ctl) (off : Nat)
    (hc : c.ccBase + 4 ≤ c.dataStart ∧ 0 < c.unit)
    (hread : readNdef c m = .ok (some L)) (hlen : L.areaEnd ≤ m.length)
    (hchain : chainParse m (L.areaEnd + 1) c.dataStart = some (cs, off))
    (hok : chainOk c m L.areaEnd = true) :
    L.off = off ∧ L.skip = c.initSkip L.areaEnd ++ cs.map (Ctl.range c.limit) ∧ WF c m L := by
  obtain ⟨hoff, hfree⟩ := chainOk_iff c m _ cs off hchain hok
  have hw := chain_reads c m L.areaEnd (off + 1) _ _ (c.initSkip L.areaEnd) cs off hchain (by omega) (by omega)
    hfree (L.areaEnd + 1) (by omega)
  have hw' := walkPre_mono c (rdB_le c (off + 1) m) _ _ _ _ _ _ hw
  have hpre := ((readNdef_some c m L).1 hread).pre
  rw [hpre] at hw'
  injection hw' with hw'; injection hw' with h1 h2
  have hle := chain_le m _ _ _ _ hchain
  refine ⟨h1, h2, hc.1, hc.2, by omega, hlen, ?_, ?_⟩
  · rw [h1, h2]; exact hw
  · rw [h1, h2]; exact hfree (off + 1) (by omega) (by omega)

/-- every byte a control TLV of the chain declares (below the reader's clipping limit) is in the skip
set of the layout, hence outside the NDEF area -/
theorem chain_not_area (c : Cfg) (L : Layout) (cs : List Ctl)
    (hskip : L.skip = c.initSkip L.areaEnd ++ cs.map (Ctl.range c.limit)) (t : Ctl) (ht : t ∈ cs) (x : Nat)
    (h1 : specFirst t.2.1 t.2.2.2 ≤ x) (h2 : x < specFirst t.2.1 t.2.2.2 + specCount t.1 t.2.2.1)
    (h3 : x < c.limit) : ¬ Area L x := by
  intro ⟨_, _, hs⟩
  have : inSkip L.skip x = true := by
    rw [hskip]
    exact inSkip_of_mem _ (Ctl.range c.limit t) x
      (List.mem_append_right _ (List.mem_map_of_mem ht)) ((range_mem c.limit t x).2 ⟨h1, h2, h3⟩)
  rw [this] at hs; cases hs

/-! ### Topaz / Topaz-512 format with a version argument -/

theorem set_changed (m : Bytes) (a v x : Nat) (h : (m.set a v)[x]? ≠ m[x]?) : x = a := by
  apply Classical.byContradiction; intro hne
  exact h (get_set_ne m a v x (fun e => hne e.symm))

theorem formatTopazV_spec (m : Bytes) (version wipe : Option Nat) (r : Option Bytes)
    (hfac : ∀ i, i < 5 → i ≠ 1 → m[8 + i]? = topazHdr[i]?)
    (hver : version = none → m[9]? = some 0x10)
    (h : formatTopazV m version wipe = .ok r) :
    match r with
    | none => ∃ v, version = some v ∧ v / 16 ≠ 1
    | some m' => m'.length = m.length ∧
        (∀ x, m'[x]? ≠ m[x]? → (x = 9 ∧ version ≠ none) ∨ Area topazLayout x) ∧
        (∀ v, version = some v → m'[9]? = some v) := by
  unfold formatTopazV at h
  obtain ⟨x1, h1, h⟩ := Py.bind_eq_ok.1 h
  obtain ⟨hl1, rfl⟩ := setSlice_inv _ _ _ _ _ h1
  have hl1' : 14 ≤ m.length := by simpa [topazHdr] using hl1
  have c1 : ∀ x, (writeAt m 8 topazHdr)[x]? ≠ m[x]? → (x = 9 ∧ version ≠ none) ∨ Area topazLayout x := by
    intro x hx
    obtain ⟨a, b, c⟩ := writeAt_changed m 8 topazHdr x hx
    have hb : x < 14 := by simpa [topazHdr] using b
    by_cases h9 : x = 9
    · subst h9
      refine Or.inl ⟨rfl, fun hv => ?_⟩
      have := hver hv
      rw [this] at c; simp [topazHdr] at c
    · have : x = 13 := by
        apply Classical.byContradiction; intro hne
        have := hfac (x - 8) (by omega) (by omega)
        have e : 8 + (x - 8) = x := by omega
        rw [e] at this; exact c this.symm
      subst this; exact Or.inr (area_topaz 13 (by omega) (by omega))
  -- the wipe step, common to both version branches
  have wipeStep : ∀ (y : Bytes) (w : Nat) (z : Bytes), y.length = m.length →
      (∀ x, y[x]? ≠ m[x]? → (x = 9 ∧ version ≠ none) ∨ Area topazLayout x) →
      setSlice (t1Cfg 1) y 14 (List.replicate 90 (w % 256)) = .ok z →
      z.length = m.length ∧ (∀ x, z[x]? ≠ m[x]? → (x = 9 ∧ version ≠ none) ∨ Area topazLayout x)
      ∧ z[9]? = y[9]? := by
    intro y w z hy cy hz
    generalize hv : List.replicate 90 (w % 256) = v2 at hz
    have hvl : v2.length = 90 := by rw [← hv]; exact List.length_replicate
    obtain ⟨_, e⟩ := setSlice_inv _ _ _ _ _ hz
    subst e
    refine ⟨by rw [writeAt_length, hy], fun x hx => ?_, ?_⟩
    · by_cases h2 : (writeAt y 14 v2)[x]? = y[x]?
      · rw [h2] at hx; exact cy x hx
      · obtain ⟨a, b, _⟩ := writeAt_changed _ _ _ x h2
        exact Or.inr (area_topaz x (by omega) (by omega))
    · rw [writeAt_get, if_neg (by omega)]
  cases version with
  | none =>
    simp only at h
    cases wipe with
    | none =>
      simp only at h; cases h
      exact ⟨writeAt_length _ _ _, c1, fun v hv => by cases hv⟩
    | some w =>
      simp only at h
      obtain ⟨z, hz, h⟩ := Py.bind_eq_ok.1 h
      cases h
      obtain ⟨a, b, _⟩ := wipeStep _ w z (writeAt_length _ _ _) c1 hz
      exact ⟨a, b, fun v hv => by cases hv⟩
  | some v =>
    simp only at h
    split at h
    · obtain ⟨y, hy, h⟩ := Py.bind_eq_ok.1 h
      obtain ⟨hlt, rfl⟩ := wr_inv _ _ _ _ _ hy
      have cy : ∀ x, ((writeAt m 8 topazHdr).set 9 v)[x]? ≠ m[x]? → (x = 9 ∧ some v ≠ none) ∨ Area topazLayout x := by
        intro x hx
        by_cases h9 : x = 9
        · exact Or.inl ⟨h9, by simp⟩
        · rw [get_set_ne _ _ _ _ (fun e => h9 e.symm)] at hx; exact c1 x hx
      have h9 : ((writeAt m 8 topazHdr).set 9 v)[9]? = some v := get_set_eq _ _ _ hlt
      cases wipe with
      | none =>
        simp only at h; cases h
        exact ⟨by simp [writeAt_length], cy, fun v' hv' => by cases hv'; exact h9⟩
      | some w =>
        simp only at h
        obtain ⟨z, hz, h⟩ := Py.bind_eq_ok.1 h
        cases h
        obtain ⟨a, b, c⟩ := wipeStep _ w z (by simp [writeAt_length]) cy hz
        exact ⟨a, b, fun v' hv' => by cases hv'; rw [c]; exact h9⟩
    · rename_i hv; cases h; exact ⟨v, rfl, hv⟩

theorem formatTopaz512V_spec (m : Bytes) (version wipe : Option Nat) (r : Option Bytes)
    (hfac : ∀ i, i < 15 → i ≠ 1 → m[8 + i]? = topaz512Hdr[i]?)
    (hver : version = none → m[9]? = some 0x10)
    (h : formatTopaz512V m version wipe = .ok r) :
    match r with
    | none => ∃ v, version = some v ∧ v / 16 ≠ 1
    | some m' => m'.length = m.length ∧
        (∀ x, m'[x]? ≠ m[x]? → (x = 9 ∧ version ≠ none) ∨ Area topaz512Layout x) ∧
        (∀ v, version = some v → m'[9]? = some v) := by
  unfold formatTopaz512V at h
  obtain ⟨x1, h1, h⟩ := Py.bind_eq_ok.1 h
  obtain ⟨hl1, rfl⟩ := setSlice_inv _ _ _ _ _ h1
  have c1 : ∀ x, (writeAt m 8 topaz512Hdr)[x]? ≠ m[x]? → (x = 9 ∧ version ≠ none) ∨ Area topaz512Layout x := by
    intro x hx
    obtain ⟨a, b, c⟩ := writeAt_changed m 8 topaz512Hdr x hx
    have hb : x < 24 := by simpa [topaz512Hdr] using b
    by_cases h9 : x = 9
    · subst h9
      refine Or.inl ⟨rfl, fun hv => ?_⟩
      have := hver hv
      rw [this] at c; simp [topaz512Hdr] at c
    · have : x = 23 := by
        apply Classical.byContradiction; intro hne
        have := hfac (x - 8) (by omega) (by omega)
        have e : 8 + (x - 8) = x := by omega
        rw [e] at this; exact c this.symm
      subst this; exact Or.inr (area_topaz512 23 (by omega) (by omega))
  obtain ⟨oy, hoy, h⟩ := Py.bind_eq_ok.1 h
  -- the version step
  have vstep : match oy with
      | none => ∃ v, version = some v ∧ v / 16 ≠ 1
      | some y => y.length = m.length ∧
          (∀ x, y[x]? ≠ m[x]? → (x = 9 ∧ version ≠ none) ∨ Area topaz512Layout x) ∧
          (∀ v, version = some v → y[9]? = some v) := by
    cases version with
    | none =>
      simp only at hoy; cases hoy
      exact ⟨writeAt_length _ _ _, c1, fun v hv => by cases hv⟩
    | some v =>
      simp only at hoy
      split at hoy
      · obtain ⟨y, hy, hoy⟩ := Py.bind_eq_ok.1 hoy
        cases hoy
        obtain ⟨hlt, rfl⟩ := wr_inv _ _ _ _ _ hy
        refine ⟨by simp [writeAt_length], fun x hx => ?_, fun v' hv' => by cases hv'; exact get_set_eq _ _ _ hlt⟩
        by_cases h9 : x = 9
        · exact Or.inl ⟨h9, by simp⟩
        · rw [get_set_ne _ _ _ _ (fun e => h9 e.symm)] at hx; exact c1 x hx
      · rename_i hv; cases hoy; exact ⟨v, rfl, hv⟩
  cases oy with
  | none => simp only at h; cases h; exact vstep
  | some y =>
    obtain ⟨hyl, cy, hy9⟩ := vstep
    simp only at h
    cases wipe with
    | none => simp only at h; cases h; exact ⟨hyl, cy, hy9⟩
    | some w =>
      simp only at h
      generalize hv : List.replicate 80 (w % 256) = v2 at h
      generalize hv' : List.replicate 384 (w % 256) = v3 at h
      have hvl : v2.length = 80 := by rw [← hv]; exact List.length_replicate
      have hvl' : v3.length = 384 := by rw [← hv']; exact List.length_replicate
      obtain ⟨z, hz, h⟩ := Py.bind_eq_ok.1 h
      obtain ⟨_, e2⟩ := setSlice_inv _ _ _ _ _ hz
      subst e2
      obtain ⟨z', hz', h⟩ := Py.bind_eq_ok.1 h
      obtain ⟨_, e3⟩ := setSlice_inv _ _ _ _ _ hz'
      subst e3
      cases h
      refine ⟨by rw [writeAt_length, writeAt_length, hyl], fun x hx => ?_, fun v hvv => ?_⟩
      · by_cases e3 : (writeAt (writeAt y 24 v2) 128 v3)[x]? = (writeAt y 24 v2)[x]?
        · rw [e3] at hx
          by_cases e2 : (writeAt y 24 v2)[x]? = y[x]?
          · rw [e2] at hx; exact cy x hx
          · obtain ⟨a, b, _⟩ := writeAt_changed _ _ _ x e2
            exact Or.inr (area_topaz512 x (by omega) (Or.inl (by omega)))
        · obtain ⟨a, b, _⟩ := writeAt_changed _ _ _ x e3
          exact Or.inr (area_topaz512 x (by omega) (Or.inr ⟨a, by omega⟩))
      · rw [writeAt_get, if_neg (by omega), writeAt_get, if_neg (by omega)]; exact hy9 v hvv

/-! ### vendor format (NTAG classes) -/

theorem writePage_inv (m m' : Bytes) (p : Nat) (d : Bytes) (h : writePage m p d = .ok m') :
    p * 4 < m.length ∧ m' = writeAt m (p * 4) d := by
  unfold writePage at h; split at h
  · rename_i hl; cases h; exact ⟨hl, rfl⟩
  · cases h

/-- with NDEF management data present the vendor `_format` is `Type2Tag._format` -/
theorem formatNxp_present (f m : Bytes) (wipe : Option Nat) (L : Layout)
    (h : readNdefT2 m = .ok (some L)) : formatNxp f m wipe = formatT2Out m wipe := by
  unfold formatNxp; rw [h]

theorem formatT2Out_ok (m : Bytes) (wipe : Option Nat) (L : Layout) (m' : Bytes)
    (hr : readNdefT2 m = .ok (some L)) (hw : L.writeable = true) (hf : formatT2 m L wipe = .ok m') :
    formatT2Out m wipe = ⟨diffUnits 4 m m', .ok true⟩ := by
  unfold formatT2Out; rw [hr]; simp only [hw]; rw [hf]; simp

/-- without NDEF: two WRITE commands for pages 4 and 5 (bytes 16..23), then `Type2Tag._format` on
the result -/
theorem formatNxp_blank (f m : Bytes) (wipe : Option Nat) (m4 m5 : Bytes)
    (hn : readNdefT2 m = .ok none)
    (h4 : writePage m 4 (f.take 4) = .ok m4) (h5 : writePage m4 5 ((f.drop 4).take 4) = .ok m5) :
    formatNxp f m wipe = ⟨[(16, f.take 4), (20, (f.drop 4).take 4)] ++ (formatT2Out m5 wipe).cmds, (formatT2Out m5 wipe).res⟩
    ∧ apply m [(16, f.take 4), (20, (f.drop 4).take 4)] = m5 ∧ m5.length = m.length
    ∧ ∀ x, m5[x]? ≠ m[x]? → 16 ≤ x ∧ x < 24 := by
  obtain ⟨_, e4⟩ := writePage_inv _ _ _ _ h4
  obtain ⟨_, e5⟩ := writePage_inv _ _ _ _ h5
  refine ⟨by unfold formatNxp; rw [hn]; simp only; rw [h4]; simp only; rw [h5], ?_, ?_, ?_⟩
  · subst e4; subst e5; rfl
  · subst e4; subst e5; rw [writeAt_length, writeAt_length]
  · intro x hx
    subst e4; subst e5
    by_cases e : (writeAt (writeAt m (4 * 4) (f.take 4)) (5 * 4) ((f.drop 4).take 4))[x]? = (writeAt m (4 * 4) (f.take 4))[x]?
    · rw [e] at hx
      obtain ⟨a, b, _⟩ := writeAt_changed _ _ _ x hx
      have : (f.take 4).length ≤ 4 := by simp; omega
      omega
    · obtain ⟨a, b, _⟩ := writeAt_changed _ _ _ x e
      have : ((f.drop 4).take 4).length ≤ 4 := by simp; omega
      omega

/-! ### protect -/

theorem neCmds_mem (m : Bytes) (addrs : List (Nat × Nat)) (cmd : Cmd) (h : cmd ∈ (neCmds m addrs).1) :
    ∃ a v b, (a, v) ∈ addrs ∧ m[a]? = some b ∧ cmd = (a, [b ||| v]) := by
  induction addrs with
  | nil => simp [neCmds] at h
  | cons av rest ih =>
    obtain ⟨a, v⟩ := av
    simp only [neCmds] at h
    split at h
    · simp at h
    · rename_i b hb
      simp only [List.mem_cons] at h
      rcases h with h | h
      · exact ⟨a, v, b, List.mem_cons_self, hb, h⟩
      · obtain ⟨a', v', b', hm, hb', e⟩ := ih h
        exact ⟨a', v', b', List.mem_cons_of_mem _ hm, hb', e⟩

theorem walkPre_found_ge (c : Cfg) (r : Rd) (e : Nat) (fuel off : Nat) (skip : Skip) (o : Nat) (sk : Skip)
    (hx : walkPre c r e fuel off skip = .ok (.found o sk)) : off ≤ o := by
  induction fuel generalizing off skip with
  | zero => simp [walkPre] at hx
  | succ fuel ih =>
    simp only [walkPre] at hx
    split at hx
    · cases hx
    · split at hx
      · have := ih _ _ hx; omega
      · have hoo : off ≤ (if c.t1 = true then off else nextFree skip off) := by
          split
          · exact Nat.le_refl _
          · exact nextFree_ge _ _
        generalize (if c.t1 = true then off else nextFree skip off) = oo at hx hoo
        cases hr : r oo with
        | error ex => rw [hr] at hx; simp only at hx; split at hx <;> cases hx
        | ok t =>
          rw [hr] at hx; simp only at hx
          split at hx
          · have := ih _ _ hx; omega
          · split at hx
            · cases hx
            · split at hx
              · injection hx with hx; injection hx with h1 h2; omega
              · obtain ⟨lv, _, hx⟩ := Py.bind_eq_ok.1 hx
                obtain ⟨v, _, hx⟩ := Py.bind_eq_ok.1 hx
                split at hx
                · split at hx
                  · obtain ⟨rg, _, hx⟩ := Py.bind_eq_ok.1 hx
                    have := ih _ _ hx; omega
                  · have := ih _ _ hx; omega
                · have := ih _ _ hx; omega

/-- `Type1Tag._protect` / `Topaz._protect` / `Topaz512._protect`: single byte WRITE-NE commands to the
access byte of the capability container (11) and to static lock / reserved bytes - never to a byte of
the NDEF area of the layout the reader computes -/
theorem protectT1_spec (k : T1Kind) (u : Nat) (m : Bytes) (L : Layout)
    (hr : readNdef (t1Cfg u) m = .ok (some L)) :
    ∀ cmd ∈ (protectT1 k u m).cmds, cmd.2.length = 1 ∧
      (cmd.1 = 11 ∨ cmd.1 = 112 ∨ cmd.1 = 113 ∨ (k = .topaz512 ∧ (cmd.1 = 120 ∨ cmd.1 = 121))) ∧ ¬ Area L cmd.1 := by
  intro cmd hc
  have hR := (readNdef_some _ _ _).1 hr
  have hge := walkPre_found_ge _ _ _ _ _ _ _ _ hR.pre
  have hmono := walkPre_skip_mono _ _ _ _ _ _ _ _ hR.pre
  have hds : (t1Cfg u).dataStart = 12 := rfl
  have hlock : ∀ x, 104 ≤ x → x < 120 → inSkip L.skip x = true := by
    intro x h1 h2
    apply hmono
    simp only [Cfg.initSkip, t1Cfg, if_true, inSkip, List.any_cons, List.any_nil, Bool.or_false,
      Bool.and_eq_true, decide_eq_true_eq]
    refine ⟨h1, ?_⟩
    split <;> omega
  have hlock2 : ∀ x, 120 ≤ x → x < 128 → ¬ Area L x := by
    intro x h1 h2 ⟨_, hA, hS⟩
    by_cases he : L.areaEnd = 120
    · omega
    · have : inSkip L.skip x = true := by
        apply hmono
        simp only [Cfg.initSkip, t1Cfg, if_true, inSkip, List.any_cons, List.any_nil, Bool.or_false,
          Bool.and_eq_true, decide_eq_true_eq]
        rw [if_neg he]; omega
      rw [this] at hS; cases hS
  have hna : ∀ x, 104 ≤ x → x < 120 → ¬ Area L x := by
    intro x h1 h2 ⟨_, _, hS⟩; rw [hlock x h1 h2] at hS; cases hS
  have h11 : ¬ Area L 11 := by intro ⟨h, _, _⟩; omega
  cases k with
  | generic =>
    unfold protectT1 at hc; rw [hr] at hc; simp only at hc
    have hc' : cmd ∈ (neCmds m [(11, 0x0F)]).1 := by split at hc <;> exact hc
    obtain ⟨a, v, b, hm, _, rfl⟩ := neCmds_mem _ _ _ hc'
    simp only [List.mem_cons, List.mem_nil_iff, Prod.mk.injEq, or_false] at hm
    obtain ⟨rfl, _⟩ := hm
    exact ⟨rfl, Or.inl rfl, h11⟩
  | topaz =>
    unfold protectT1 at hc; rw [hr] at hc; simp only at hc
    have hc' : cmd ∈ (neCmds m [(11, 0x0F), (112, 0xFF), (113, 0xFF)]).1 := by split at hc <;> exact hc
    obtain ⟨a, v, b, hm, _, rfl⟩ := neCmds_mem _ _ _ hc'
    simp only [List.mem_cons, List.mem_nil_iff, Prod.mk.injEq, or_false] at hm
    rcases hm with ⟨rfl, _⟩ | ⟨rfl, _⟩ | ⟨rfl, _⟩
    · exact ⟨rfl, Or.inl rfl, h11⟩
    · exact ⟨rfl, Or.inr (Or.inl rfl), hna _ (by omega) (by omega)⟩
    · exact ⟨rfl, Or.inr (Or.inr (Or.inl rfl)), hna _ (by omega) (by omega)⟩
  | topaz512 =>
    unfold protectT1 at hc; rw [hr] at hc; simp only at hc
    have hc' : cmd ∈ (neCmds m [(11, 0x0F), (112, 0xFF), (113, 0xFF), (120, 0xFF), (121, 0xFF)]).1 := by
      split at hc <;> exact hc
    obtain ⟨a, v, b, hm, _, rfl⟩ := neCmds_mem _ _ _ hc'
    simp only [List.mem_cons, List.mem_nil_iff, Prod.mk.injEq, or_false] at hm
    rcases hm with ⟨rfl, _⟩ | ⟨rfl, _⟩ | ⟨rfl, _⟩ | ⟨rfl, _⟩ | ⟨rfl, _⟩
    · exact ⟨rfl, Or.inl rfl, h11⟩
    · exact ⟨rfl, Or.inr (Or.inl rfl), hna _ (by omega) (by omega)⟩
    · exact ⟨rfl, Or.inr (Or.inr (Or.inl rfl)), hna _ (by omega) (by omega)⟩
    · exact ⟨rfl, Or.inr (Or.inr (Or.inr ⟨rfl, Or.inl rfl⟩)), hlock2 _ (by omega) (by omega)⟩
    · exact ⟨rfl, Or.inr (Or.inr (Or.inr ⟨rfl, Or.inr rfl⟩)), hlock2 _ (by omega) (by omega)⟩

/-! ### NXP lock-bit protect -/

theorem keepByte_length (m m' : Bytes) (a : Nat) : (keepByte m m' a).length = m'.length := by
  unfold keepByte; split <;> simp

theorem keepByte_get (m m' : Bytes) (a x : Nat) (hl : m'.length = m.length) :
    (keepByte m m' a)[x]? = if x = a then m[x]? else m'[x]? := by
  unfold keepByte
  split
  · rename_i v hv
    by_cases hx : x = a
    · subst hx
      have hlt : x < m.length := by
        apply Classical.byContradiction; intro hge
        have : m[x]? = none := List.getElem?_eq_none (by omega)
        rw [this] at hv; cases hv
      rw [if_pos rfl, get_set_eq _ _ _ (by omega), hv]
    · rw [if_neg hx, get_set_ne _ _ _ _ (fun e => hx e.symm)]
  · rename_i hn
    by_cases hx : x = a
    · subst hx
      rw [if_pos rfl, hn]
      have hge : m.length ≤ x := by
        apply Classical.byContradiction; intro hlt
        have : m[x]? = some (m[x]'(by omega)) := List.getElem?_eq_getElem (by omega)
        rw [this] at hn; cases hn
      exact List.getElem?_eq_none (by omega)
    · rw [if_neg hx]

theorem nxpStore_length (m : Bytes) (c : Cmd) : (nxpStore m c).length = m.length := by
  unfold nxpStore
  split
  · rw [keepByte_length, keepByte_length, writeAt_length]
  · exact writeAt_length _ _ _

theorem nxpStore_changed (m : Bytes) (c : Cmd) (x : Nat) (h : (nxpStore m c)[x]? ≠ m[x]?) :
    c.1 ≤ x ∧ x < c.1 + c.2.length ∧ ¬ (c.1 = 8 ∧ (x = 8 ∨ x = 9)) := by
  unfold nxpStore at h
  split at h
  · rw [keepByte_get _ _ _ _ (by rw [keepByte_length, writeAt_length])] at h
    split at h
    · exact absurd rfl h
    · rename_i h9
      rw [keepByte_get _ _ _ _ (writeAt_length _ _ _)] at h
      split at h
      · exact absurd rfl h
      · rename_i h8
        obtain ⟨p, q, _⟩ := writeAt_changed _ _ _ x h
        exact ⟨p, q, fun hh => by omega⟩
  · rename_i hne
    obtain ⟨p, q, _⟩ := writeAt_changed _ _ _ x h
    exact ⟨p, q, fun hh => hne hh.1⟩

theorem nxpApply_changed (cmds : List Cmd) (m : Bytes) (x : Nat) (h : (nxpApply m cmds)[x]? ≠ m[x]?) :
    ∃ c ∈ cmds, c.1 ≤ x ∧ x < c.1 + c.2.length ∧ ¬ (c.1 = 8 ∧ (x = 8 ∨ x = 9)) := by
  induction cmds generalizing m with
  | nil => exact absurd rfl h
  | cons c cs ih =>
    simp only [nxpApply, List.foldl_cons] at h
    by_cases e : (List.foldl nxpStore (nxpStore m c) cs)[x]? = (nxpStore m c)[x]?
    · rw [e] at h
      exact ⟨c, List.mem_cons_self, nxpStore_changed m c x h⟩
    · obtain ⟨c', hc', hh⟩ := ih (nxpStore m c) e
      exact ⟨c', List.mem_cons_of_mem _ hc', hh⟩

theorem mem_takeWhile_mem {α} (p : α → Bool) (l : List α) (x : α) (h : x ∈ l.takeWhile p) : x ∈ l := by
  induction l with
  | nil => simp at h
  | cons a l ih =>
    simp only [List.takeWhile] at h
    split at h
    · simp only [List.mem_cons] at h ⊢
      rcases h with h | h
      · exact Or.inl h
      · exact Or.inr (ih h)
    · simp at h

/-- the WRITE commands of `_protect_with_lockbits`: page 3 (capability container with access byte
`0F`, the other three bytes as read), page 2 (static lock bytes), the dynamic lock page (40 resp.
`cfgpage - 1`) and the ACCESS page `cfgpage + 1` - nothing else -/
theorem protectNxp_cmds (k : NxpKind) (m : Bytes) :
    ∀ cmd ∈ (protectNxp k m).cmds, cmd.2.length = 4 ∧
      ((cmd.1 = 12 ∧ ∃ c0 c1 c2, m[12]? = some c0 ∧ m[13]? = some c1 ∧ m[14]? = some c2 ∧ cmd.2 = [c0, c1, c2, 0x0F])
       ∨ cmd = (8, [0, 0, 0xFF, 0xFF])
       ∨ match k with
         | .ulc => cmd.1 = 160
         | .n203 => cmd.1 = 160
         | .n21x p => (16 < p ∧ cmd.1 = (p - 1) * 4) ∨ cmd.1 = (p + 1) * 4) := by
  intro cmd hc
  unfold protectNxp at hc
  split at hc
  · rename_i c0 c1 c2 c3 h12 h13 h14 h15
    have hst : ∀ cmd, cmd ∈ ((if c0 = 0xE1 ∧ c1 / 16 = 1 then [((12 : Nat), [c0, c1, c2, 0x0F])] else []) ++ [((8 : Nat), [0, 0, 0xFF, 0xFF])] : List Cmd) →
        cmd.2.length = 4 ∧ ((cmd.1 = 12 ∧ ∃ c0 c1 c2, m[12]? = some c0 ∧ m[13]? = some c1 ∧ m[14]? = some c2 ∧ cmd.2 = [c0, c1, c2, 0x0F])
          ∨ cmd = (8, [0, 0, 0xFF, 0xFF])) := by
      intro cmd h
      simp only [List.mem_append, List.mem_cons, List.mem_nil_iff, or_false] at h
      rcases h with h | h
      · split at h
        · simp only [List.mem_cons, List.mem_nil_iff, or_false] at h; subst h
          exact ⟨rfl, Or.inl ⟨rfl, c0, c1, c2, h12, h13, h14, rfl⟩⟩
        · simp at h
      · subst h; exact ⟨rfl, Or.inr rfl⟩
    dsimp only at hc
    generalize hL : ((if c0 = 0xE1 ∧ c1 / 16 = 1 then [((12 : Nat), [c0, c1, c2, 0x0F])] else []) ++ [((8 : Nat), [0, 0, 0xFF, 0xFF])] : List Cmd) = st at hc hst
    cases k with
    | ulc =>
      simp only [sendPages] at hc
      have := mem_takeWhile_mem _ _ _ hc
      rw [List.mem_append] at this
      rcases this with h | h
      · obtain ⟨a, b⟩ := hst cmd h
        exact ⟨a, b.elim Or.inl (fun e => Or.inr (Or.inl e))⟩
      · simp only [List.mem_cons, List.mem_nil_iff, or_false] at h; subst h
        exact ⟨rfl, Or.inr (Or.inr rfl)⟩
    | n203 =>
      simp only [sendPages] at hc
      have := mem_takeWhile_mem _ _ _ hc
      rw [List.mem_append] at this
      rcases this with h | h
      · obtain ⟨a, b⟩ := hst cmd h
        exact ⟨a, b.elim Or.inl (fun e => Or.inr (Or.inl e))⟩
      · simp only [List.mem_cons, List.mem_nil_iff, or_false] at h; subst h
        exact ⟨rfl, Or.inr (Or.inr rfl)⟩
    | n21x p =>
      simp only at hc
      have hdl : ∀ cmd, cmd ∈ (if p > 16 then [((p - 1) * 4, [0xFF, 0xFF, 0xFF, 0])] else [] : List Cmd) →
          cmd.2.length = 4 ∧ 16 < p ∧ cmd.1 = (p - 1) * 4 := by
        intro cmd h
        split at h
        · rename_i hp
          simp only [List.mem_cons, List.mem_nil_iff, or_false] at h; subst h
          exact ⟨rfl, hp, rfl⟩
        · simp at h
      generalize hD : (if p > 16 then [((p - 1) * 4, [0xFF, 0xFF, 0xFF, 0])] else [] : List Cmd) = dl at hc hdl
      have hpre : ∀ cmd, cmd ∈ (sendPages m (st ++ dl)).1 →
          cmd.2.length = 4 ∧ ((cmd.1 = 12 ∧ ∃ c0 c1 c2, m[12]? = some c0 ∧ m[13]? = some c1 ∧ m[14]? = some c2 ∧ cmd.2 = [c0, c1, c2, 0x0F])
            ∨ cmd = (8, [0, 0, 0xFF, 0xFF]) ∨ ((16 < p ∧ cmd.1 = (p - 1) * 4) ∨ cmd.1 = (p + 1) * 4)) := by
        intro cmd h
        simp only [sendPages] at h
        have := mem_takeWhile_mem _ _ _ h
        rw [List.mem_append] at this
        rcases this with h | h
        · obtain ⟨a, b⟩ := hst cmd h
          exact ⟨a, b.elim Or.inl (fun e => Or.inr (Or.inl e))⟩
        · obtain ⟨a, b, c⟩ := hdl cmd h
          exact ⟨a, Or.inr (Or.inr (Or.inl ⟨b, c⟩))⟩
      generalize hS : sendPages m (st ++ dl) = sp at hc hpre
      split at hc
      · exact hpre cmd hc
      · split at hc
        · split at hc
          · rw [List.mem_append] at hc
            rcases hc with h | h
            · exact hpre cmd h
            · simp only [List.mem_cons, List.mem_nil_iff, or_false] at h; subst h
              exact ⟨rfl, Or.inr (Or.inr (Or.inr rfl))⟩
          · exact hpre cmd hc
        · exact hpre cmd hc
  · simp at hc

/-! ### `Type2Tag._protect` -/

theorem setLocks_spec (addr bits : Nat) : ∀ (n j : Nat) (m m' : Bytes),
    setLocks m addr bits n j = .ok m' →
    m'.length = m.length ∧ ∀ x, m'[x]? ≠ m[x]? → addr + j ≤ x ∧ x < addr + j + n := by
  intro n
  induction n with
  | zero => intro j m m' h; simp only [setLocks] at h; cases h; exact ⟨rfl, fun x hx => absurd rfl hx⟩
  | succ n ih =>
    intro j m m' h
    simp only [setLocks] at h
    obtain ⟨m1, h1, h⟩ := Py.bind_eq_ok.1 h
    obtain ⟨_, rfl⟩ := wr_inv _ _ _ _ _ h1
    obtain ⟨hl, hc⟩ := ih _ _ _ h
    refine ⟨by rw [hl]; simp, fun x hx => ?_⟩
    by_cases e : m'[x]? = (m.set (addr + j) (lockByteVal bits j))[x]?
    · rw [e] at hx
      have := set_changed _ _ _ _ hx
      omega
    · have := hc x e; omega

theorem setAllLocks_spec : ∀ (locks : List (Nat × Nat)) (m m' : Bytes),
    setAllLocks m locks = .ok m' →
    m'.length = m.length ∧ ∀ x, m'[x]? ≠ m[x]? → ∃ l ∈ locks, l.1 ≤ x ∧ x < l.1 + (l.2 + 7) / 8 := by
  intro locks
  induction locks with
  | nil => intro m m' h; simp only [setAllLocks] at h; cases h; exact ⟨rfl, fun x hx => absurd rfl hx⟩
  | cons l rest ih =>
    intro m m' h
    obtain ⟨a, b⟩ := l
    simp only [setAllLocks] at h
    obtain ⟨m1, h1, h⟩ := Py.bind_eq_ok.1 h
    obtain ⟨hl1, hc1⟩ := setLocks_spec _ _ _ _ _ _ h1
    obtain ⟨hl, hc⟩ := ih _ _ h
    refine ⟨by rw [hl, hl1], fun x hx => ?_⟩
    by_cases e : m'[x]? = m1[x]?
    · rw [e] at hx
      have := hc1 x hx
      exact ⟨(a, b), List.mem_cons_self, by simp only; omega, by simp only; omega⟩
    · obtain ⟨l, hl', hh⟩ := hc x e
      exact ⟨l, List.mem_cons_of_mem _ hl', hh⟩

theorem readLen_congr_ge {r r' : Rd} (lo : Nat) (h : ∀ a, lo ≤ a → r a = r' a) (a : Nat) (ha : lo ≤ a) :
    readLen r a = readLen r' a := by
  unfold readLen
  rw [h a ha, h (a + 1) (by omega), h (a + 2) (by omega)]

theorem fetch_congr_ge {r r' : Rd} (lo : Nat) (h : ∀ a, lo ≤ a → r a = r' a) (s : Skip) (n a : Nat) (ha : lo ≤ a) :
    fetch r s n a = fetch r' s n a := by
  induction n generalizing a with
  | zero => rfl
  | succ n ih =>
    simp only [fetch]
    have := nextFree_ge s a
    rw [h _ (by omega), ih _ (by omega)]

theorem readLen_next_ge {r : Rd} (a : Nat) (lv : Nat × Nat) (h : readLen r a = .ok lv) : a < lv.2 := by
  unfold readLen at h
  obtain ⟨l, _, h⟩ := Py.bind_eq_ok.1 h
  split at h
  · obtain ⟨hi, _, h⟩ := Py.bind_eq_ok.1 h
    obtain ⟨lo, _, h⟩ := Py.bind_eq_ok.1 h
    cases h; simp
  · cases h; simp

theorem protWalk_congr {r r' : Rd} (lo : Nat) (h : ∀ a, lo ≤ a → r a = r' a) (e : Nat) :
    ∀ (fuel off : Nat) (acc : List (Nat × Nat)), lo ≤ off → protWalk r e fuel off acc = protWalk r' e fuel off acc := by
  intro fuel
  induction fuel with
  | zero => intros; rfl
  | succ fuel ih =>
    intro off acc hoff
    simp only [protWalk]
    split
    · rfl
    · rw [h off hoff]
      cases hr : r' off with
      | error ex => rfl
      | ok t =>
        simp only [Py.bind_ok]
        split
        · exact ih _ _ (by omega)
        · split
          · rfl
          · rw [readLen_congr_ge lo h (off + 1) (by omega)]
            cases hlv : readLen r' (off + 1) with
            | error ex => rfl
            | ok lv =>
              simp only [Py.bind_ok]
              have := readLen_next_ge _ _ hlv
              rw [fetch_congr_ge lo h [] lv.1 lv.2 (by omega)]
              cases hv : fetch r' [] lv.1 lv.2 with
              | error ex => rfl
              | ok v =>
                simp only [Py.bind_ok]
                split
                · rfl
                · split
                  · cases idxN v 0 with
                    | error ex => rfl
                    | ok d0 =>
                      simp only [Py.bind_ok]
                      cases idxN v 2 with
                      | error ex => rfl
                      | ok d2 =>
                        simp only [Py.bind_ok]
                        cases idxN v 1 with
                        | error ex => rfl
                        | ok d1 =>
                          simp only [Py.bind_ok]
                          exact ih _ _ (by omega)
                  · exact ih _ _ (by omega)

/-- `Type2Tag._protect` that returns `True`: the two `synchronize()` calls turn the tag image into one
that differs from the old image only in the access byte of the capability container (15), the static
lock bytes (10, 11) and the lock bytes of the Lock Control TLVs the walk finds (or, without any, the
default dynamic lock bytes right behind the data area) -/
theorem protectT2_spec (m : Bytes) (cmds : List Cmd) (h : protectT2 m = ⟨cmds, .ok true⟩) :
    ∃ sz walked, m[14]? = some sz ∧
      protWalk (rd t2Cfg m) (sz * 8 + 16) (sz * 8 + 17) 16 [] = .ok walked ∧
      (apply m cmds).length = m.length ∧
      ∀ x, (apply m cmds)[x]? ≠ m[x]? → x = 15 ∨ x = 10 ∨ x = 11 ∨
        ∃ l ∈ defaultLocks sz walked, l.1 ≤ x ∧ x < l.1 + (l.2 + 7) / 8 := by
  unfold protectT2 at h
  split at h
  · cases h
  · cases h
  · split at h
    · cases h
    · rename_i m1 hm1
      split at h
      · cases h
      · rename_i m2 hm2
        injection h with hcm _
        obtain ⟨acc, hacc, hm1⟩ := Py.bind_eq_ok.1 hm1
        obtain ⟨_, e1⟩ := wr_inv _ _ _ _ _ hm1
        obtain ⟨a, ha, hm2⟩ := Py.bind_eq_ok.1 hm2
        obtain ⟨_, ea⟩ := wr_inv _ _ _ _ _ ha
        obtain ⟨b, hb, hm2⟩ := Py.bind_eq_ok.1 hm2
        obtain ⟨_, eb⟩ := wr_inv _ _ _ _ _ hb
        obtain ⟨sz, hsz, hm2⟩ := Py.bind_eq_ok.1 hm2
        obtain ⟨walked, hwalk, hm2⟩ := Py.bind_eq_ok.1 hm2
        obtain ⟨hl2, hc2⟩ := setAllLocks_spec _ _ _ hm2
        have hl1 : m1.length = m.length := by rw [e1]; simp
        have hlb : b.length = m.length := by rw [eb, ea]; simp [hl1]
        -- b agrees with m outside 10, 11, 15
        have hbm : ∀ x, x ≠ 15 → x ≠ 10 → x ≠ 11 → b[x]? = m[x]? := by
          intro x h15 h10 h11
          rw [eb, get_set_ne _ _ _ _ (fun e => h11 e.symm), ea, get_set_ne _ _ _ _ (fun e => h10 e.symm),
            e1, get_set_ne _ _ _ _ (fun e => h15 e.symm)]
        have hrd : ∀ a, 16 ≤ a → rd t2Cfg b a = rd t2Cfg m a := fun a ha => rd_congr _ _ _ _ (hbm a (by omega) (by omega) (by omega))
        have hsz' : m[14]? = some sz := by
          rw [← hbm 14 (by omega) (by omega) (by omega)]; exact (rd_ok_iff _ _ _ _).1 hsz
        have hfin : apply m cmds = m2 := by
          rw [← hcm, apply_append, apply_diff 4 (by omega) m m1 hl1.symm,
            apply_diff 4 (by omega) m1 m2 (by rw [hl2, hlb, hl1])]
        refine ⟨sz, walked, hsz', ?_, by rw [hfin, hl2, hlb], fun x hx => ?_⟩
        · rw [← protWalk_congr 16 hrd _ _ _ _ (Nat.le_refl _)]; exact hwalk
        · rw [hfin] at hx
          by_cases e : m2[x]? = b[x]?
          · rw [e] at hx
            apply Classical.byContradiction; intro hn
            exact hx (hbm x (fun e => hn (Or.inl e)) (fun e => hn (Or.inr (Or.inl e))) (fun e => hn (Or.inr (Or.inr (Or.inl e)))))
          · exact Or.inr (Or.inr (Or.inr (hc2 x e)))

/-! ### `_protect` on a chain of control TLVs -/

theorem nextFree_nil (a : Nat) : nextFree [] a = a := by
  simp [nextFree, skipMax, nf]

theorem fetch_nil_ok (c : Cfg) (m : Bytes) : ∀ (n a : Nat), a + n ≤ m.length →
    ∃ v, fetch (rd c m) [] n a = .ok v := by
  intro n
  induction n with
  | zero => intro a _; exact ⟨[], rfl⟩
  | succ n ih =>
    intro a ha
    obtain ⟨v, hv⟩ := ih (a + 1) (by omega)
    refine ⟨m[a]'(by omega) :: v, ?_⟩
    simp only [fetch, nextFree_nil]
    rw [rd_of_lt c m a (by omega), Py.bind_ok, hv, Py.bind_ok]

/-- (first lock byte, lock bits) of the Lock Control TLVs of a chain -/
def lockList : List Ctl → List (Nat × Nat)
  | [] => []
  | t :: cs => if t.1 then (specFirst t.2.1 t.2.2.2, specBits t.2.2.1) :: lockList cs else lockList cs

theorem lockList_mem (cs : List Ctl) (l : Nat × Nat) (h : l ∈ lockList cs) :
    ∃ t ∈ cs, t.1 = true ∧ l = (specFirst t.2.1 t.2.2.2, specBits t.2.2.1) := by
  induction cs with
  | nil => simp [lockList] at h
  | cons t cs ih =>
    simp only [lockList] at h
    split at h
    · rename_i ht
      simp only [List.mem_cons] at h
      rcases h with h | h
      · exact ⟨t, List.mem_cons_self, ht, h⟩
      · obtain ⟨t', a, b⟩ := ih h; exact ⟨t', List.mem_cons_of_mem _ a, b⟩
    · obtain ⟨t', a, b⟩ := ih h; exact ⟨t', List.mem_cons_of_mem _ a, b⟩

theorem chain_protWalk (m : Bytes) (e : Nat) :
    ∀ (fuel o : Nat) (cs : List Ctl) (off : Nat),
      chainParse m fuel o = some (cs, off) → off < e →
      (∃ lv v, readLen (rd t2Cfg m) (off + 1) = .ok lv ∧ fetch (rd t2Cfg m) [] lv.1 lv.2 = .ok v) →
      ∀ (fuel' : Nat) (acc : List (Nat × Nat)), e - o < fuel' →
        protWalk (rd t2Cfg m) e fuel' o acc = .ok (acc ++ lockList cs) := by
  intro fuel
  induction fuel with
  | zero => intro o cs off h; simp [chainParse] at h
  | succ fuel ih =>
    intro o cs off h he hnd fuel' acc hfuel
    have hle := chain_le m _ _ _ _ h
    simp only [chainParse] at h
    cases fuel' with
    | zero => omega
    | succ fuel' =>
    simp only [protWalk]
    rw [if_neg (by omega)]
    split at h
    · cases h
    · rename_i t ht
      rw [(rd_ok_iff t2Cfg m o t).2 ht, Py.bind_ok]
      split at h
      · rename_i h3
        injection h with h; injection h with h1 h2
        subst h1; subst h2; subst h3
        obtain ⟨lv, v, hlv, hv⟩ := hnd
        rw [if_neg (by decide), if_neg (by decide), hlv, Py.bind_ok, hv, Py.bind_ok, if_pos rfl]
        simp [lockList]
      · rename_i h3
        split at h
        · rename_i h0
          rw [if_pos h0]
          have hle' := chain_le m _ _ _ _ h
          exact ih _ _ _ h he hnd fuel' acc (by omega)
        · rename_i h0
          split at h
          · rename_i h12
            split at h
            · rename_i l d0 d1 d2 hl hd0 hd1 hd2
              split at h
              · rename_i hl3
                split at h
                · rename_i cs' off' hrec
                  injection h with h; injection h with h1 h2
                  subst h1; subst h2; subst hl3
                  have hle' := chain_le m _ _ _ _ hrec
                  rw [if_neg h0, if_neg (by rcases h12 with h | h <;> omega)]
                  have hlen : readLen (rd t2Cfg m) (o + 1) = .ok (3, o + 2) := by
                    unfold readLen; rw [(rd_ok_iff t2Cfg m _ _).2 hl, Py.bind_ok, if_neg (by decide)]
                  have hfetch : fetch (rd t2Cfg m) [] 3 (o + 2) = .ok [d0, d1, d2] := by
                    simp only [fetch, nextFree_nil]
                    rw [(rd_ok_iff t2Cfg m _ _).2 hd0, Py.bind_ok,
                      (rd_ok_iff t2Cfg m (o + 2 + 1) d1).2 hd1, Py.bind_ok,
                      (rd_ok_iff t2Cfg m (o + 2 + 1 + 1) d2).2 hd2, Py.bind_ok]
                    rfl
                  rw [hlen, Py.bind_ok, hfetch, Py.bind_ok, if_neg h3]
                  simp only [idxN_cons_zero, idxN_cons_succ, Py.bind_ok]
                  have hnext : o + 3 + 1 + (if 3 < 255 then 1 else 3) = o + 5 := by simp
                  rw [hnext]
                  by_cases h1 : t = 1
                  · rw [if_pos h1, ih _ _ _ hrec he hnd fuel' _ (by omega)]
                    simp [lockList, h1, List.append_assoc]
                  · rw [if_neg h1, ih _ _ _ hrec he hnd fuel' _ (by omega)]
                    simp [lockList, h1]
                · cases h
              · cases h
            · cases h
          · cases h

theorem readNdefT2_some (m : Bytes) (L : Layout) (h : readNdefT2 m = .ok (some L)) :
    readNdef t2Cfg m = .ok (some L) ∧
    L.off + (if m[L.off + 1]? = some 0xFF then 4 else 2) ≤ L.areaEnd ∧
    L.ndef.length ≤ countFree L.skip (L.off + (if m[L.off + 1]? = some 0xFF then 4 else 2)) L.areaEnd := by
  unfold readNdefT2 at h
  split at h
  · rename_i L' hr
    dsimp only at h
    by_cases hc : (L'.off + (if m[L'.off + 1]? = some 0xFF then 4 else 2) > L'.areaEnd ∨
        L'.ndef.length > countFree L'.skip (L'.off + (if m[L'.off + 1]? = some 0xFF then 4 else 2)) L'.areaEnd)
    · rw [if_pos hc] at h; cases h
    · rw [if_neg hc] at h
      injection h with h; injection h with h; subst h
      exact ⟨hr, by omega, by omega⟩
  · rename_i x hx
    rw [h] at hx
    exact absurd rfl (hx L)

theorem fetch_length (r : Rd) (s : Skip) : ∀ (n a : Nat) (v : Bytes), fetch r s n a = .ok v → v.length = n := by
  intro n
  induction n with
  | zero => intro a v h; simp only [fetch] at h; cases h; rfl
  | succ n ih =>
    intro a v h
    simp only [fetch] at h
    obtain ⟨x, _, h⟩ := Py.bind_eq_ok.1 h
    obtain ⟨xs, hxs, h⟩ := Py.bind_eq_ok.1 h
    cases h
    simp [ih _ _ hxs]

/-- the NDEF TLV that `readNdefT2` accepts can be read by `_protect`'s skip-less `read_tlv` -/
theorem ndef_tlv_plain (m : Bytes) (L : Layout) (h : readNdefT2 m = .ok (some L)) (hlen : L.areaEnd ≤ m.length) :
    ∃ lv v, readLen (rd t2Cfg m) (L.off + 1) = .ok lv ∧ fetch (rd t2Cfg m) [] lv.1 lv.2 = .ok v := by
  obtain ⟨hr, hhead, hroom⟩ := readNdefT2_some m L h
  obtain ⟨lv, hlv, hv⟩ := ((readNdef_some _ _ _).1 hr).value
  have hn := fetch_length _ _ _ _ _ hv
  have hcf := countFree_le L.skip (L.off + (if m[L.off + 1]? = some 0xFF then 4 else 2)) L.areaEnd
  -- lv.2 is the head address
  have hhd : lv.2 = L.off + (if m[L.off + 1]? = some 0xFF then 4 else 2) := by
    unfold readLen at hlv
    obtain ⟨l, hl, hlv⟩ := Py.bind_eq_ok.1 hlv
    have hl' := (rd_ok_iff _ _ _ _).1 hl
    split at hlv
    · rename_i h255
      obtain ⟨hi, _, hlv⟩ := Py.bind_eq_ok.1 hlv
      obtain ⟨lo, _, hlv⟩ := Py.bind_eq_ok.1 hlv
      cases hlv
      rw [hl', h255]; simp
    · rename_i h255
      cases hlv
      rw [hl']; simp [h255]
  obtain ⟨v, hv'⟩ := fetch_nil_ok t2Cfg m lv.1 lv.2 (by omega)
  exact ⟨lv, v, hlv, hv'⟩

/-- on a well-formed chain layout `_protect` leaves every byte of the NDEF area alone: the lock bytes
it sets are the ones the reader put into the skip set, or lie behind the data area -/
theorem protectT2_area (m : Bytes) (cmds : List Cmd) (h : protectT2 m = ⟨cmds, .ok true⟩)
    (L : Layout) (cs : List Ctl) (off : Nat)
    (hr : readNdefT2 m = .ok (some L)) (hlen : L.areaEnd ≤ m.length) (hlim : L.areaEnd ≤ t2Cfg.limit)
    (hchain : chainParse m (L.areaEnd + 1) t2Cfg.dataStart = some (cs, off))
    (hok : chainOk t2Cfg m L.areaEnd = true) :
    ∀ x, Area L x → (apply m cmds)[x]? = m[x]? := by
  obtain ⟨sz, walked, hsz, hwalk, _, hch⟩ := protectT2_spec m cmds h
  obtain ⟨hrd, _, _⟩ := readNdefT2_some m L hr
  obtain ⟨hoffeq, hskip, hwf⟩ := chain_wf t2Cfg m L cs off ⟨by decide, by decide⟩ hrd hlen hchain hok
  have hR := (readNdef_some _ _ _).1 hrd
  obtain ⟨sz', hsz', hae⟩ := hR.size
  have hszeq : sz' = sz := by
    have := (rd_ok_iff _ _ _ _).1 hsz'
    have e : t2Cfg.ccBase + 2 = 14 := rfl
    rw [e, hsz] at this; injection this with this; exact this.symm
  subst hszeq
  have hae' : L.areaEnd = sz' * 8 + 16 := by rw [hae]; rfl
  obtain ⟨hoff1, _⟩ := chainOk_iff t2Cfg m _ cs off hchain hok
  have hnd := ndef_tlv_plain m L hr hlen
  rw [hoffeq] at hnd
  have hw := chain_protWalk m L.areaEnd _ _ _ _ hchain (by omega) hnd (L.areaEnd + 1) [] (by omega)
  have e16 : t2Cfg.dataStart = 16 := rfl
  rw [e16] at hw
  rw [hae'] at hw
  rw [hw] at hwalk
  injection hwalk with hwalk
  simp only [List.nil_append] at hwalk
  intro x hA
  apply Classical.byContradiction; intro hne
  have hds : 16 ≤ L.off := by have := hwf.2.2.1; rw [e16] at this; exact this
  rcases hch x hne with e | e | e | ⟨l, hl, h1, h2⟩
  · have := hA.1; omega
  · have := hA.1; omega
  · have := hA.1; omega
  · unfold defaultLocks at hl
    split at hl
    · simp only [List.mem_cons, List.mem_nil_iff, or_false] at hl
      subst hl
      have := hA.2.1; simp only at h1; omega
    · rw [← hwalk] at hl
      obtain ⟨t, ht, htl, rfl⟩ := lockList_mem cs l hl
      refine chain_not_area t2Cfg L cs hskip t ht x h1 ?_ (by have := hA.2.1; omega) hA
      simp only at h2
      unfold specCount; rw [htl]; simpa using h2

end NfcVerif.Tlv
