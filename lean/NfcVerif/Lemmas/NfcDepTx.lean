import NfcVerif.Lemmas.NfcDep
/-!
# NFC-DEP: one `send_dep_req_recv_dep_res` makes the peer accept the request at most once

Generic over the peer: `A` = states before the request was accepted (closed under ATN), `B` = states after
(retransmission of the request, NAK and ATN leave them unchanged and return the stored answer `r1`).
For every fault script and fuel the call ends in `A` without a result, or in `B`, and a result is `r1`.
-/
namespace NfcVerif.NfcDep
open NfcVerif
variable {σ : Type}

/-- where the peer state can be after one `xfer`, and what an `ok`/transmission error reveals -/
theorem xfer_peer (P : Peer σ) (hcor : ∀ s, (P.rx s .corrupt).1 = s) (a : Air σ) (q : Pdu) :
    ((xfer P a q).1.peer = a.peer ∧ (∀ res, (xfer P a q).2 ≠ .ok res) ∧ (xfer P a q).2 ≠ .error .transmission)
    ∨ ((xfer P a q).1.peer = (P.rx a.peer (.frame q)).1
        ∧ (∀ res, (xfer P a q).2 = .ok res → (P.rx a.peer (.frame q)).2 = some res)
        ∧ ((xfer P a q).2 = .error .transmission → (P.rx a.peer (.frame q)).2 ≠ none)) := by
  unfold xfer
  split
  · exact Or.inl ⟨rfl, (fun _ h => by cases h), (fun h => by cases h)⟩
  · simp only [next_peer]
    split
    · exact Or.inl ⟨rfl, (fun _ h => by cases h), (fun h => by cases h)⟩
    · exact Or.inl ⟨rfl, (fun _ h => by cases h), (fun h => by cases h)⟩
    · exact Or.inl ⟨hcor _, (fun _ h => by cases h), (fun h => by cases h)⟩
    · right
      generalize P.rx a.peer (.frame q) = r
      obtain ⟨s', o⟩ := r
      cases o with
      | none => exact ⟨rfl, (fun _ h => by cases h), (fun h => by cases h)⟩
      | some res =>
        dsimp only
        split
        · exact ⟨rfl, (fun _ h => by cases h), (fun _ => by simp)⟩
        · exact ⟨rfl, (fun _ h => by cases h), (fun _ => by simp)⟩
        · exact ⟨rfl, (fun _ h => by cases h), (fun _ => by simp)⟩
        · split
          · exact ⟨rfl, (fun _ h => by cases h), (fun _ => by simp)⟩
          · exact ⟨rfl, (fun r h => by cases h; rfl), (fun _ => by simp)⟩

section tx
variable (P : Peer σ) (c : Cfg) (A B : σ → Prop) (r1 : Option Pdu) (pni : Nat) (req : Pdu)

/-- result of one `send_dep_req_recv_dep_res`: the peer accepted the request at most once -/
def TXPost (r : Air σ × Py Pdu) : Prop :=
  (A r.1.peer ∧ ∀ res, r.2 ≠ .ok res) ∨ (B r.1.peer ∧ ∀ res, r.2 = .ok res → r1 = some res)

structure TXHyp : Prop where
  cor : ∀ s, (P.rx s .corrupt).1 = s
  aAtn : ∀ s, A s → A (P.rx s (.frame (atnPdu c))).1
  aReq : ∀ s, A s → B (P.rx s (.frame req)).1 ∧ (P.rx s (.frame req)).2 = r1
  bReq : ∀ s, B s → B (P.rx s (.frame req)).1 ∧ ((P.rx s (.frame req)).2 = r1 ∨ (P.rx s (.frame req)).2 = none)
  bNak : ∀ s, B s → B (P.rx s (.frame (.dep fNAK pni c.idid c.inad []))).1 ∧
    ((P.rx s (.frame (.dep fNAK pni c.idid c.inad []))).2 = r1 ∨ (P.rx s (.frame (.dep fNAK pni c.idid c.inad []))).2 = none)
  bAtn : ∀ s, B s → B (P.rx s (.frame (atnPdu c))).1

variable {P c A B r1 pni req}

theorem reqAttention_phase (X : σ → Prop) (hcor : ∀ s, (P.rx s .corrupt).1 = s)
    (hX : ∀ s, X s → X (P.rx s (.frame (atnPdu c))).1) : ∀ n (a : Air σ), X a.peer → X (reqAttention P c n a).1.peer
  | 0, a, h => by unfold reqAttention; exact h
  | n+1, a, h => by
    unfold reqAttention
    split
    · exact h
    · have hp := xfer_peer P hcor a (atnPdu c)
      have hx : X (xfer P a (atnPdu c)).1.peer := by
        rcases hp with hp | hp
        · rw [hp.1]; exact h
        · rw [hp.1]; exact hX _ h
      generalize xfer P a (atnPdu c) = r at hx ⊢
      obtain ⟨a', u⟩ := r
      cases u with
      | error e =>
        dsimp only
        split
        · exact reqAttention_phase X hcor hX n a' hx
        · exact hx
      | ok p =>
        cases p with
        | dep fmt pni did nad data =>
          dsimp only
          split
          · exact hx
          · split <;> exact hx
        | _ => exact hx

theorem reqRetrans_phase (H : TXHyp P c A B r1 pni req) (ch : Bool) : ∀ n (a : Air σ), B a.peer →
    B (reqRetrans P c pni ch n a).1.peer ∧ ∀ res, (reqRetrans P c pni ch n a).2 = .ok res → r1 = some res
  | 0, a, h => by unfold reqRetrans; exact ⟨h, fun _ h => by cases h⟩
  | n+1, a, h => by
    unfold reqRetrans
    split
    · exact ⟨h, fun _ h => by cases h⟩
    · have hp := xfer_peer P H.cor a (.dep fNAK pni c.idid c.inad [])
      have hb := H.bNak a.peer h
      have hx : B (xfer P a (.dep fNAK pni c.idid c.inad [])).1.peer ∧
          ∀ res, (xfer P a (.dep fNAK pni c.idid c.inad [])).2 = .ok res → r1 = some res := by
        rcases hp with hp | hp
        · rw [hp.1]; exact ⟨h, fun res hr => absurd hr (hp.2.1 res)⟩
        · rw [hp.1]
          refine ⟨hb.1, fun res hr => ?_⟩
          have := hp.2.1 res hr
          rcases hb.2 with h2 | h2
          · rw [← h2]; exact this
          · rw [h2] at this; cases this
      generalize xfer P a (.dep fNAK pni c.idid c.inad []) = r at hx ⊢
      obtain ⟨a', u⟩ := r
      cases u with
      | error e =>
        dsimp only
        split
        · exact reqRetrans_phase H ch n a' hx.1
        · exact ⟨hx.1, fun _ h => by cases h⟩
      | ok p =>
        have hr := hx.2 p rfl
        cases p with
        | dep fmt rp did nad data =>
          dsimp only
          split
          · exact ⟨hx.1, fun _ h => by cases h⟩
          · split
            · exact ⟨hx.1, fun res h => by cases h; exact hr⟩
            · exact ⟨hx.1, fun _ h => by cases h⟩
        | _ => exact ⟨hx.1, fun _ h => by cases h⟩

theorem nakCheck_tx (a : Air σ) (res : Pdu) (hb : B a.peer) (hr : r1 = some res) :
    TXPost A B r1 (nakCheck a res) := by
  unfold nakCheck
  cases res with
  | dep fmt rp did nad data =>
    dsimp only
    split
    · exact Or.inr ⟨hb, fun _ h => by cases h⟩
    · exact Or.inr ⟨hb, fun _ h => by cases h; exact hr⟩
  | _ => exact Or.inr ⟨hb, fun _ h => by cases h⟩

theorem sendDepLoop_tx (H : TXHyp P c A B r1 pni req) : ∀ fuel (a : Air σ), (A a.peer ∨ B a.peer) →
    TXPost A B r1 (sendDepLoop P c pni req fuel a)
  | 0, a, h => by
    unfold sendDepLoop
    rcases h with h | h
    · exact Or.inl ⟨h, fun _ h => by cases h⟩
    · exact Or.inr ⟨h, fun _ h => by cases h⟩
  | fuel+1, a, h => by
    have stay : ∀ (a' : Air σ) (e : Exc), (A a'.peer ∨ B a'.peer) → TXPost A B r1 (a', .error e) := by
      intro a' e h
      rcases h with h | h
      · exact Or.inl ⟨h, fun _ h => by cases h⟩
      · exact Or.inr ⟨h, fun _ h => by cases h⟩
    unfold sendDepLoop
    split
    · exact stay _ _ h
    · have hp := xfer_peer P H.cor a req
      -- phase after the transfer
      have hx : (A (xfer P a req).1.peer ∧ (∀ res, (xfer P a req).2 ≠ .ok res) ∧ (xfer P a req).2 ≠ .error .transmission)
          ∨ (B (xfer P a req).1.peer ∧ ∀ res, (xfer P a req).2 = .ok res → r1 = some res) := by
        rcases h with h | h
        · rcases hp with hp | hp
          · left; rw [hp.1]; exact ⟨h, hp.2⟩
          · right; rw [hp.1]
            have ha := H.aReq a.peer h
            exact ⟨ha.1, fun res hr => by rw [← ha.2]; exact hp.2.1 res hr⟩
        · right
          have hb := H.bReq a.peer h
          rcases hp with hp | hp
          · rw [hp.1]; exact ⟨h, fun res hr => absurd hr (hp.2.1 res)⟩
          · rw [hp.1]
            refine ⟨hb.1, fun res hr => ?_⟩
            have := hp.2.1 res hr
            rcases hb.2 with h2 | h2
            · rw [← h2]; exact this
            · rw [h2] at this; cases this
      generalize xfer P a req = r at hx ⊢
      obtain ⟨a1, u⟩ := r
      have hAB : A a1.peer ∨ B a1.peer := by
        rcases hx with hx | hx
        · exact Or.inl hx.1
        · exact Or.inr hx.1
      cases u with
      | ok res =>
        dsimp only
        rcases hx with hx | hx
        · exact absurd rfl (hx.2.1 res)
        · exact nakCheck_tx a1 res hx.1 (hx.2 res rfl)
      | error e =>
        cases e <;> try (exact stay _ _ hAB)
        · -- timeout
          dsimp only
          have ha : A (reqAttention P c 2 a1).1.peer ∨ B (reqAttention P c 2 a1).1.peer := by
            rcases hAB with h' | h'
            · exact Or.inl (reqAttention_phase A H.cor H.aAtn 2 a1 h')
            · exact Or.inr (reqAttention_phase B H.cor H.bAtn 2 a1 h')
          generalize reqAttention P c 2 a1 = r2 at ha ⊢
          obtain ⟨a2, u⟩ := r2
          cases u with
          | ok _ => exact sendDepLoop_tx H fuel a2 ha
          | error e2 => exact stay _ _ ha
        · -- transmission
          dsimp only
          rcases hx with hx | hx
          · exact absurd rfl hx.2.2
          · have hr := reqRetrans_phase H (decide (req.fmt? = some fMORE)) 2 a1 hx.1
            generalize reqRetrans P c pni (decide (req.fmt? = some fMORE)) 2 a1 = r2 at hr ⊢
            obtain ⟨a2, u⟩ := r2
            cases u with
            | ok res => exact nakCheck_tx a2 res hr.1 (hr.2 res rfl)
            | error e2 => exact stay _ _ (Or.inr hr.1)

/-- `transact` (with the timeout extension handling) when the peer's answer is never an RTOX -/
theorem transact_tx (H : TXHyp P c A B r1 pni req) (hnt : ∀ res, r1 = some res → res.fmt? ≠ some fTOX)
    (fuel : Nat) (a : Air σ) (h : A a.peer) : TXPost A B r1 (transact P c fuel pni a req) := by
  unfold transact sendDep
  have hs := sendDepLoop_tx H fuel { a with expired := false } (Or.inl h)
  generalize sendDepLoop P c pni req fuel { a with expired := false } = r at hs ⊢
  obtain ⟨a', u⟩ := r
  cases u with
  | error e => exact hs
  | ok res =>
    dsimp only
    rcases hs with hs | hs
    · exact absurd rfl (hs.2 res)
    · have := hnt res (hs.2 res rfl)
      simp only [this, if_false]
      exact Or.inr hs
end tx
end NfcVerif.NfcDep
