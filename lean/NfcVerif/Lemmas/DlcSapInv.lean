import NfcVerif.Lemmas.DlcSap
/-!
# The controller invariant is preserved by every operation
-/
namespace NfcVerif.DlcSap
open NfcVerif NfcVerif.Dlc

def SkInv (hi : Nat → Nat) (sk : List (Nat × List Tag)) : Prop :=
  (∀ e ∈ sk, SInv hi e.1 e.2) ∧ sk.Pairwise (fun a b => a.1 ≠ b.1)

/-- invariant of a controller: every `sock_list` satisfies `SInv` relative to what was dispatched so far, and
no two access points have the same address -/
def CInv (c : Ctl) : Prop := SkInv (hiOf c.seen) (skel c.saps)

theorem SkInv.mono {hi hi' : Nat → Nat} {sk : List (Nat × List Tag)} (h : SkInv hi sk) (hle : ∀ p, hi p ≤ hi' p) :
    SkInv hi' sk := ⟨fun e he => (h.1 e he).mono hle, h.2⟩

theorem CInv.of_eq {c c' : Ctl} (h : CInv c) (h1 : skel c'.saps = skel c.saps) (h2 : c'.seen = c.seen) : CInv c' := by
  unfold CInv; rw [h1, h2]; exact h

theorem skel_append (l1 l2 : List Sap) : skel (l1 ++ l2) = skel l1 ++ skel l2 := List.map_append

theorem skel_cons (a : Sap) (l : List Sap) : skel (a :: l) = (a.addr, tags a.socks) :: skel l := rfl

theorem SkInv.replace {hi : Nat → Nat} {p1 p2 : List (Nat × List Tag)} {A : Nat} {t t' : List Tag}
    (h : SkInv hi (p1 ++ (A, t) :: p2)) (ht : SInv hi A t') : SkInv hi (p1 ++ (A, t') :: p2) := by
  refine ⟨?_, ?_⟩
  · intro e he
    rcases List.mem_append.1 he with he | he
    · exact h.1 e (List.mem_append_left _ he)
    · rcases List.mem_cons.1 he with rfl | he
      · exact ht
      · exact h.1 e (List.mem_append_right _ (List.mem_cons_of_mem _ he))
  · have := h.2
    rw [List.pairwise_append] at this ⊢
    obtain ⟨a1, a2, a3⟩ := this
    rw [List.pairwise_cons] at a2 ⊢
    refine ⟨a1, ⟨fun b hb => a2.1 b hb, a2.2⟩, ?_⟩
    intro x hx y hy
    rcases List.mem_cons.1 hy with rfl | hy
    · exact a3 x hx (A, t) (List.mem_cons_self ..)
    · exact a3 x hx y (List.mem_cons_of_mem _ hy)

/-! ### finding and updating a socket -/

theorem findSock_split (sid : Nat) (l : List Sock) (s : Sock) (h : findSock sid l = some s) :
    ∃ l1 l2, l = l1 ++ s :: l2 ∧ ∀ f, updSid sid f l = l1 ++ f s :: l2 := by
  induction l with
  | nil => simp [findSock] at h
  | cons y r ih =>
    simp only [findSock] at h
    split at h
    · rename_i hy
      cases h
      exact ⟨[], r, rfl, fun f => by simp [updSid, hy]⟩
    · rename_i hy
      obtain ⟨l1, l2, h1, h2⟩ := ih h
      exact ⟨y :: l1, l2, by rw [h1]; rfl, fun f => by simp [updSid, hy, h2]⟩

theorem sapsFind_split (sid : Nat) (saps : List Sap) (s : Sock) (h : sapsFind sid saps = some s) :
    ∃ pre a post l1 l2, saps = pre ++ a :: post ∧ a.socks = l1 ++ s :: l2 ∧
      ∀ f, sapsUpd sid f saps = pre ++ { a with socks := l1 ++ f s :: l2 } :: post := by
  induction saps with
  | nil => simp [sapsFind] at h
  | cons a r ih =>
    simp only [sapsFind] at h
    cases hf : findSock sid a.socks with
    | some s' =>
      rw [hf] at h
      cases h
      obtain ⟨l1, l2, h1, h2⟩ := findSock_split sid a.socks s hf
      exact ⟨[], a, r, l1, l2, rfl, h1, fun f => by simp [sapsUpd, hf, h2]⟩
    | none =>
      rw [hf] at h
      obtain ⟨pre, b, post, l1, l2, h1, h2, h3⟩ := ih h
      exact ⟨a :: pre, b, post, l1, l2, by rw [h1]; rfl, h2, fun f => by simp [sapsUpd, hf, h3]⟩

theorem sock?_cases (c : Ctl) (sid : Nat) (s : Sock) (h : c.sock? sid = some s) :
    sapsFind sid c.saps = some s ∨ (sapsFind sid c.saps = none ∧ findSock sid c.free = some s) := by
  unfold Ctl.sock? at h
  cases hf : sapsFind sid c.saps with
  | some s' => rw [hf] at h; cases h; exact Or.inl rfl
  | none => rw [hf] at h; exact Or.inr ⟨rfl, h⟩

/-- updating the socket found by `sock?`: the invariant survives when the new tag is as good as the old one
in every list position -/
theorem CInv.upd {c : Ctl} (h : CInv c) (sid : Nat) (f : Sock → Sock) (s : Sock) (hs : c.sock? sid = some s)
    (hx : ∀ A t1 t2, SInv (hiOf c.seen) A (t1 ++ s.tag :: t2) → SInv (hiOf c.seen) A (t1 ++ (f s).tag :: t2)) :
    CInv (c.upd sid f) := by
  unfold Ctl.upd
  rcases sock?_cases c sid s hs with hf | ⟨hf, _⟩
  · rw [hf]
    obtain ⟨pre, a, post, l1, l2, h1, h2, h3⟩ := sapsFind_split sid c.saps s hf
    show SkInv (hiOf c.seen) (skel (sapsUpd sid f c.saps))
    rw [h3 f, skel_append, skel_cons]
    unfold CInv at h
    rw [h1, skel_append, skel_cons, h2] at h
    simp only [tags_append, tags_cons] at h ⊢
    exact h.replace (hx _ _ _ (h.1 _ (List.mem_append_right _ (List.mem_cons_self ..))))
  · rw [hf]; exact h

theorem CInv.upd_tag {c : Ctl} (h : CInv c) (sid : Nat) (f : Sock → Sock) (hf : ∀ s, (f s).tag = s.tag) :
    CInv (c.upd sid f) := by
  unfold Ctl.upd
  split
  · exact h.of_eq (sapsUpd_skel sid f hf c.saps) rfl
  · exact h

/-- a socket in state CLOSED or CONNECT is the only one in its list -/
theorem SInv.alone {hi : Nat → Nat} {A : Nat} {t1 t2 : List Tag} {x : Tag} (h : SInv hi A (t1 ++ x :: t2))
    (ha : x.alone = true) : t1 = [] ∧ t2 = [] ∧ x.acc = false ∧ x.peer = none ∧ (x.lst = false → x.cq = []) ∧
      x.addr = some A := by
  obtain ⟨⟨accs, o, ht, hacc, _, ho⟩, haddr⟩ := h
  have hxa := haddr x (List.mem_append_right _ (List.mem_cons_self ..))
  rcases shape_cases ht.symm with ⟨a2, h1, _⟩ | ⟨h1, h2, h3⟩
  · have := (hacc x (by rw [h1]; exact List.mem_append_right _ (List.mem_cons_self ..))).2.2.1
    rw [ha] at this; cases this
  · obtain ⟨o1, o2, o3, o4, _, _⟩ := ho x (by rw [h1]; rfl)
    have := o4 (Or.inl ha)
    rw [this] at h2
    exact ⟨h2.symm, h3, o1, o2 (Or.inr ha), o3, hxa⟩

/-- a listening socket is the last of its list, everything to its left was accepted -/
theorem SInv.listener {hi : Nat → Nat} {A : Nat} {t1 t2 : List Tag} {x : Tag} (h : SInv hi A (t1 ++ x :: t2))
    (hl : x.lst = true) : t2 = [] ∧ x.acc = false ∧ x.peer = none ∧ x.addr = some A ∧ CqOrd x.cq ∧ AccOrd t1 ∧
      (∀ y ∈ t1, y.acc = true ∧ y.lst = false ∧ y.alone = false ∧ y.cq = [] ∧ ∃ p, y.peer = some p ∧ y.cid ≤ hi p) ∧
      (∀ e ∈ x.cq, e.2 ≤ hi e.1 ∧ ∀ y ∈ t1, y.peer = some e.1 → y.cid < e.2) ∧
      (x.alone = true → t1 = []) := by
  obtain ⟨⟨accs, o, ht, hacc, hord, ho⟩, haddr⟩ := h
  have hxa := haddr x (List.mem_append_right _ (List.mem_cons_self ..))
  rcases shape_cases ht.symm with ⟨a2, h1, _⟩ | ⟨h1, h2, h3⟩
  · have := (hacc x (by rw [h1]; exact List.mem_append_right _ (List.mem_cons_self ..))).2.1
    rw [hl] at this; cases this
  · obtain ⟨o1, o2, _, o4, o5, o6⟩ := ho x (by rw [h1]; rfl)
    subst h2
    exact ⟨h3, o1, o2 (Or.inl hl), hxa, o5, hord, hacc, o6, fun ha => o4 (Or.inl ha)⟩

/-! ### application operations -/

theorem newSock_tag (sid rw miu a : Nat) : ({ Sock.new sid rw miu with addr := some a } : Sock).tag =
    { acc := false, peer := none, cid := 0, lst := false, alone := true, cq := [], addr := some a } := rfl

theorem insertSap_skel_mem (a : Sap) (l : List Sap) (e : Nat × List Tag) :
    e ∈ skel (insertSap a l) ↔ e = (a.addr, tags a.socks) ∨ e ∈ skel l := by
  induction l with
  | nil => simp [insertSap, skel]
  | cons b r ih =>
    simp only [insertSap]
    split
    · simp [skel]
    · rw [skel_cons, List.mem_cons, ih, skel_cons, List.mem_cons]
      constructor
      · rintro (h | h | h) <;> simp [h]
      · rintro (h | h | h) <;> simp [h]

theorem insertSap_pairwise (a : Sap) (l : List Sap) (h : (skel l).Pairwise (fun x y => x.1 ≠ y.1))
    (hn : ∀ b ∈ l, b.addr ≠ a.addr) : (skel (insertSap a l)).Pairwise (fun x y => x.1 ≠ y.1) := by
  induction l with
  | nil => simp [insertSap, skel]
  | cons b r ih =>
    simp only [insertSap]
    rw [skel_cons, List.pairwise_cons] at h
    split
    · rw [skel_cons, List.pairwise_cons, skel_cons, List.pairwise_cons]
      refine ⟨?_, h⟩
      intro e he
      rcases List.mem_cons.1 he with rfl | he
      · exact fun heq => hn b (List.mem_cons_self ..) heq.symm
      · obtain ⟨x, hx, rfl⟩ := List.mem_map.1 he
        exact fun heq => hn x (List.mem_cons_of_mem _ hx) heq.symm
    · rw [skel_cons, List.pairwise_cons]
      refine ⟨?_, ih h.2 (fun x hx => hn x (List.mem_cons_of_mem _ hx))⟩
      intro e he
      rcases (insertSap_skel_mem a r e).1 he with rfl | he
      · exact hn b (List.mem_cons_self ..)
      · exact h.1 e he

theorem sap?_none (c : Ctl) (a : Nat) (h : (c.sap? a).isSome = false) : ∀ b ∈ c.saps, b.addr ≠ a := by
  intro b hb heq
  unfold Ctl.sap? at h
  have := List.find?_eq_none.1 (by simpa using h : c.saps.find? (·.addr == a) = none) b hb
  simp [heq] at this

theorem CInv.addSap {c : Ctl} (h : CInv c) (s : Sock) (a : Nat) (hn : ∀ b ∈ c.saps, b.addr ≠ a)
    (hs : SInv (hiOf c.seen) a [s.tag]) (c' : Ctl) (h1 : c'.saps = insertSap ⟨a, [s], []⟩ c.saps) (h2 : c'.seen = c.seen) :
    CInv c' := by
  unfold CInv
  rw [h1, h2]
  refine ⟨?_, insertSap_pairwise _ _ h.2 hn⟩
  intro e he
  rcases (insertSap_skel_mem _ _ e).1 he with rfl | he
  · exact hs
  · exact h.1 e he

theorem firstFree_spec (c : Ctl) (lo n a : Nat) (h : firstFree c lo n = some a) : (c.sap? a).isSome = false := by
  induction n generalizing lo with
  | zero => simp [firstFree] at h
  | succ n ih =>
    simp only [firstFree] at h
    split at h
    · rename_i hf
      cases h
      simpa using hf
    · exact ih _ h

theorem newSock_inv (c : Ctl) (rw miu : Nat) (to : Dest) (h : CInv c) :
    CInv (c.newSock rw miu to).1 ∧ (c.newSock rw miu to).1.seen = c.seen := by
  have hsingle : ∀ a, SInv (hiOf c.seen) a [({ Sock.new c.nsock rw (min miu c.link) with addr := some a } : Sock).tag] :=
    fun a => SInv.single _ _ _ rfl rfl (fun _ => rfl) rfl
  unfold Ctl.newSock
  dsimp only
  cases to with
  | addr a =>
    dsimp only
    split
    · exact ⟨h.of_eq rfl rfl, rfl⟩
    split
    · exact ⟨h.of_eq rfl rfl, rfl⟩
    split
    · exact ⟨h.of_eq rfl rfl, rfl⟩
    · rename_i hf
      exact ⟨h.addSap _ a (sap?_none c a (by simpa using hf)) (hsingle a) _ rfl rfl, rfl⟩
  | name n =>
    dsimp only
    split
    · exact ⟨h.of_eq rfl rfl, rfl⟩
    split
    · exact ⟨h.of_eq rfl rfl, rfl⟩
    · rename_i a hf
      exact ⟨h.addSap _ a (sap?_none c a (firstFree_spec c 16 16 a hf)) (hsingle a) _ rfl rfl, rfl⟩

theorem upd_seen (c : Ctl) (sid : Nat) (f : Sock → Sock) : (c.upd sid f).seen = c.seen := by
  unfold Ctl.upd; split <;> rfl

theorem listen_inv (c : Ctl) (sid b : Nat) (h : CInv c) : CInv (c.listen sid b).1 ∧ (c.listen sid b).1.seen = c.seen := by
  unfold Ctl.listen
  split
  · exact ⟨h, rfl⟩
  rename_i s hs
  split
  · exact ⟨h, rfl⟩
  split
  · exact ⟨h, rfl⟩
  split
  · exact ⟨h, rfl⟩
  rename_i _ hcs _
  have hcs : s.cs = .closed := by simpa using hcs
  refine ⟨h.upd sid _ s hs ?_, upd_seen ..⟩
  intro A t1 t2 hi
  obtain ⟨e1, e2, h1, h2, h3, h4⟩ := hi.alone (by simp [Sock.tag, hcs])
  subst e1 e2
  exact SInv.single _ _ _ h1 (h3 (by simp [Sock.tag, hcs])) (fun _ => h2) h4

theorem connect_inv (c : Ctl) (sid : Nat) (to : Dest) (h : CInv c) :
    CInv (c.connect sid to).1 ∧ (c.connect sid to).1.seen = c.seen := by
  unfold Ctl.connect
  split
  · exact ⟨h, rfl⟩
  rename_i s hs
  split
  · rename_i hcs
    split
    · exact ⟨h, rfl⟩
    · refine ⟨CInv.of_eq (c := c.upd sid _) (h.upd sid _ s hs ?_) rfl rfl, upd_seen ..⟩
      intro A t1 t2 hi
      obtain ⟨e1, e2, h1, h2, h3, h4⟩ := hi.alone (by simp [Sock.tag, hcs])
      subst e1 e2
      exact SInv.single _ _ _ h1 (by have := h3 (by simp [Sock.tag, hcs]); simpa [Sock.tag] using this)
        (fun _ => h2) h4
  · exact ⟨h, rfl⟩
  · exact ⟨h, rfl⟩
  · exact ⟨h, rfl⟩

theorem connFin_inv (c : Ctl) (sid : Nat) (h : CInv c) : CInv (c.connFin sid).1 ∧ (c.connFin sid).1.seen = c.seen := by
  unfold Ctl.connFin
  split
  · exact ⟨h, rfl⟩
  rename_i s hs
  split
  · exact ⟨h, rfl⟩
  rename_i hcs
  have hcs : s.cs = .connect := by simpa using hcs
  split
  · exact ⟨h, rfl⟩
  split
  · refine ⟨h.upd sid _ s hs ?_, upd_seen ..⟩
    intro A t1 t2 hi
    obtain ⟨e1, e2, h1, h2, h3, h4⟩ := hi.alone (by simp [Sock.tag, hcs])
    subst e1 e2
    exact SInv.single _ _ _ h1 (by have := h3 (by simp [Sock.tag, hcs]); simpa [Sock.tag] using this)
      (fun hc => by simp [Sock.tag] at hc) h4
  · refine ⟨h.upd sid _ s hs ?_, upd_seen ..⟩
    intro A t1 t2 hi
    have : ({ s with cs := CSt.closed, ans := none } : Sock).tag = s.tag := by simp [Sock.tag, hcs]; decide
    rw [this]; exact hi
  · exact ⟨h, rfl⟩


theorem epOp_inv (c : Ctl) (sid : Nat) (f : Ep → Ep × Res) (other : Sock → NRes) (h : CInv c) :
    CInv (c.epOp sid f other).1 ∧ (c.epOp sid f other).1.seen = c.seen := by
  unfold Ctl.epOp
  split
  · exact ⟨h, rfl⟩
  split
  · exact ⟨h.upd_tag sid _ (fun s => rfl), upd_seen ..⟩
  · exact ⟨h, rfl⟩

theorem recv_inv (c : Ctl) (sid : Nat) (h : CInv c) : CInv (c.recv sid).1 ∧ (c.recv sid).1.seen = c.seen := by
  unfold Ctl.recv
  split
  · exact ⟨h, rfl⟩
  split
  · exact ⟨h, rfl⟩
  · exact epOp_inv c sid _ _ h

theorem poll_inv (c : Ctl) (sid : Nat) (k : PollKind) (h : CInv c) : CInv (c.poll sid k).1 ∧ (c.poll sid k).1.seen = c.seen := by
  unfold Ctl.poll
  split
  · exact ⟨h, rfl⟩
  split
  · exact ⟨h, rfl⟩
  · exact epOp_inv c sid _ _ h

theorem setBusy_inv (c : Ctl) (sid : Nat) (b : Bool) (h : CInv c) :
    CInv (c.setBusy sid b).1 ∧ (c.setBusy sid b).1.seen = c.seen := by
  unfold Ctl.setBusy
  split
  · exact ⟨h, rfl⟩
  · exact ⟨h.upd_tag sid _ (fun s => rfl), upd_seen ..⟩

/-! ### removing a socket from its list -/

theorem removeSid_tags_sublist (sid : Nat) (l : List Sock) : (tags (removeSid sid l)).Sublist (tags l) :=
  (List.filter_sublist).map _

theorem skel_unlist_mem (sid : Nat) (saps : List Sap) (e : Nat × List Tag)
    (he : e ∈ skel ((saps.map fun a => { a with socks := removeSid sid a.socks }).filter (!·.socks.isEmpty))) :
    ∃ b ∈ saps, e.1 = b.addr ∧ e.2.Sublist (tags b.socks) := by
  obtain ⟨a', ha', rfl⟩ := List.mem_map.1 he
  obtain ⟨ha1, _⟩ := List.mem_filter.1 ha'
  obtain ⟨b, hb, rfl⟩ := List.mem_map.1 ha1
  exact ⟨b, hb, rfl, removeSid_tags_sublist sid b.socks⟩

theorem SkInv.unlist {hi : Nat → Nat} (sid : Nat) (saps : List Sap) (h : SkInv hi (skel saps)) :
    SkInv hi (skel ((saps.map fun a => { a with socks := removeSid sid a.socks }).filter (!·.socks.isEmpty))) := by
  induction saps with
  | nil => exact h
  | cons a r ih =>
    rw [skel_cons] at h
    have hr : SkInv hi (skel r) := ⟨fun e he => h.1 e (List.mem_cons_of_mem _ he), (List.pairwise_cons.1 h.2).2⟩
    have ih := ih hr
    simp only [List.map_cons, List.filter_cons]
    split
    · rw [skel_cons]
      refine ⟨?_, ?_⟩
      · intro e he
        rcases List.mem_cons.1 he with rfl | he
        · exact (h.1 _ (List.mem_cons_self ..)).sublist (removeSid_tags_sublist sid a.socks)
        · exact ih.1 e he
      · rw [List.pairwise_cons]
        refine ⟨?_, ih.2⟩
        intro e he
        obtain ⟨b, hb, h1, _⟩ := skel_unlist_mem sid r e he
        have := (List.pairwise_cons.1 h.2).1 (b.addr, tags b.socks) (List.mem_map_of_mem hb)
        simpa [h1] using this
    · exact ih

theorem unlist_inv (c : Ctl) (sid : Nat) (h : CInv c) : CInv (c.unlist sid) ∧ (c.unlist sid).seen = c.seen := by
  unfold Ctl.unlist
  split
  · exact ⟨h, rfl⟩
  · exact ⟨SkInv.unlist sid c.saps h, rfl⟩

/-- `Sock.dead` forgets the backlog and leaves LISTEN / CLOSED -/
theorem SInv.dead {hi : Nat → Nat} {A : Nat} {t1 t2 : List Tag} {x : Tag} (h : SInv hi A (t1 ++ x :: t2)) :
    SInv hi A (t1 ++ { x with lst := false, alone := false, cq := [] } :: t2) := by
  obtain ⟨⟨accs, o, ht, hacc, hord, ho⟩, haddr⟩ := h
  have haddr' : ∀ y ∈ t1 ++ { x with lst := false, alone := false, cq := [] } :: t2, y.addr = some A := by
    intro y hy
    rcases List.mem_append.1 hy with hy | hy
    · exact haddr y (List.mem_append_left _ hy)
    · rcases List.mem_cons.1 hy with rfl | hy
      · exact haddr x (List.mem_append_right _ (List.mem_cons_self ..))
      · exact haddr y (List.mem_append_right _ (List.mem_cons_of_mem _ hy))
  rcases shape_cases ht.symm with ⟨a2, h1, h2⟩ | ⟨h1, h2, h3⟩
  · -- an accepted socket: nothing changes
    obtain ⟨_, x2, x3, x4, _⟩ := hacc x (by rw [h1]; exact List.mem_append_right _ (List.mem_cons_self ..))
    have : ({ x with lst := false, alone := false, cq := [] } : Tag) = x := by
      cases x; simp only [Tag.mk.injEq] at *; simp_all
    rw [this]
    exact ⟨⟨accs, o, ht, hacc, hord, ho⟩, haddr⟩
  · subst h1 h2 h3
    obtain ⟨o1, o2, o3, o4, o5, o6⟩ := ho x rfl
    refine ⟨⟨accs, some { x with lst := false, alone := false, cq := [] }, rfl, hacc, hord, ?_⟩, haddr'⟩
    intro y hy
    have : y = { x with lst := false, alone := false, cq := [] } := by simpa using hy.symm
    subst this
    refine ⟨o1, ?_, fun _ => rfl, ?_, List.Pairwise.nil, ?_⟩
    · intro hc; simp at hc
    · intro hc
      rcases hc with hc | hc
      · simp at hc
      · exact o4 (Or.inr hc)
    · intro e he; cases he

theorem dead_tag (s : Sock) : s.dead.tag = { s.tag with lst := false, alone := false, cq := [] } := by
  simp [Sock.dead, Sock.tag]

theorem findSock_removeSid (sid : Nat) (l : List Sock) : findSock sid (removeSid sid l) = none := by
  induction l with
  | nil => rfl
  | cons y r ih =>
    unfold removeSid at ih ⊢
    rw [List.filter_cons]
    split
    · rename_i hy
      have : y.sid ≠ sid := by simpa using hy
      simp only [findSock, this, if_false]
      exact ih
    · exact ih

theorem sapsFind_none_of (sid : Nat) (saps : List Sap) (h : ∀ a ∈ saps, findSock sid a.socks = none) :
    sapsFind sid saps = none := by
  induction saps with
  | nil => rfl
  | cons a r ih =>
    simp only [sapsFind, h a (List.mem_cons_self ..)]
    exact ih (fun b hb => h b (List.mem_cons_of_mem _ hb))

/-- after `unlist` no access point holds a socket with that handle -/
theorem sapsFind_unlist (c : Ctl) (sid : Nat) : sapsFind sid (c.unlist sid).saps = none := by
  unfold Ctl.unlist
  split
  · rename_i h; exact h
  · apply sapsFind_none_of
    intro a ha
    obtain ⟨ha1, _⟩ := List.mem_filter.1 ha
    obtain ⟨b, _, rfl⟩ := List.mem_map.1 ha1
    exact findSock_removeSid sid b.socks

theorem CInv.upd_free {c : Ctl} (h : CInv c) (sid : Nat) (f : Sock → Sock) (hn : sapsFind sid c.saps = none) :
    CInv (c.upd sid f) := by
  unfold Ctl.upd; rw [hn]; exact h

theorem close_inv (c : Ctl) (sid : Nat) (h : CInv c) : CInv (c.close sid).1 ∧ (c.close sid).1.seen = c.seen := by
  unfold Ctl.close
  split
  · exact ⟨h, rfl⟩
  rename_i s hs
  split
  · exact ⟨h, rfl⟩
  split
  · exact ⟨h, rfl⟩
  · dsimp only
    have h1 : CInv (c.upd sid fun s' => { s' with ep := ({ s.ep with bound := true }).close.1 }) :=
      h.upd_tag sid _ (fun s => rfl)
    split
    · exact ⟨(unlist_inv _ sid h1).1, by rw [(unlist_inv _ sid h1).2, upd_seen]⟩
    · exact ⟨h1, upd_seen ..⟩
  · exact ⟨(unlist_inv c sid h).1.upd_free sid _ (sapsFind_unlist c sid), by rw [upd_seen, (unlist_inv c sid h).2]⟩

theorem closeFin_inv (c : Ctl) (sid : Nat) (h : CInv c) : CInv (c.closeFin sid).1 ∧ (c.closeFin sid).1.seen = c.seen := by
  unfold Ctl.closeFin
  split
  · exact ⟨h, rfl⟩
  rename_i s0 _
  split
  · exact ⟨h, rfl⟩
  · dsimp only
    have h1 := h.upd_tag sid (fun s' => { s' with ep := (s0.ep.closeFin).1 }) (fun s => rfl)
    exact ⟨(unlist_inv _ sid h1).1, by rw [(unlist_inv _ sid h1).2, upd_seen]⟩

end NfcVerif.DlcSap
