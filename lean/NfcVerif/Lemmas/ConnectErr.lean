import NfcVerif.Lemmas.Connect
/-!
# Which exceptions leave `connect()` (C18)
-/
namespace NfcVerif.Clf

theorem presenceLoop_err (ts : List Bool) (s : St) (e : Exc) (h : (presenceLoop ts s).1 = .error e) :
    e = .io 5 ∨ e = .keyboardInterrupt := by
  induction ts generalizing s with
  | nil => simp [presenceLoop] at h
  | cons b rest ih =>
    cases b with
    | true => simp [presenceLoop] at h
    | false =>
      unfold presenceLoop at h
      have hx := exchange_err (s.emit (.term false))
      rcases hr : exchange (s.emit (.term false)) with ⟨r1, s1⟩
      rw [hr] at h hx
      cases r1 with
      | error e1 =>
        simp only at h
        by_cases hc : isCommErr e1 = true
        · simp [hc] at h
        · simp only [hc] at h
          cases h
          rcases hx e rfl with h1 | h1 | h1
          · exact Or.inl h1
          · exact Or.inr h1
          · exact absurd h1 hc
      | ok o =>
        cases o with
        | none => simp at h
        | some x => exact ih _ h

theorem cardLoop_err (ts : List Bool) (s : St) (e : Exc) (h : (cardLoop ts s).1 = .error e) :
    e = .io 5 ∨ e = .keyboardInterrupt := by
  induction ts generalizing s with
  | nil => simp [cardLoop] at h
  | cons b rest ih =>
    cases b with
    | true => simp [cardLoop] at h
    | false =>
      unfold cardLoop at h
      have hx := exchange_err (s.emit (.term false))
      rcases hr : exchange (s.emit (.term false)) with ⟨r1, s1⟩
      rw [hr] at h hx
      cases r1 with
      | error e1 =>
        simp only at h
        by_cases hb : e1 = .brokenLink
        · simp [hb] at h
        · by_cases hc : isCommErr e1 = true
          · simp only [hb, hc, if_true, if_false] at h; exact ih _ h
          · simp only [hb, hc, if_false] at h
            cases h
            rcases hx e rfl with h1 | h1 | h1
            · exact Or.inl h1
            · exact Or.inr h1
            · exact absurd h1 hc
      | ok o => exact ih _ h

/-- exceptions that can leave a step; `V`: when a ValueError is possible -/
def ErrPost (V : Prop) (e : Exc) (s' : St) : Prop :=
  e = .io 5 ∨ e = .keyboardInterrupt ∨ e = .unsupportedTarget ∨ (e = .value ∧ V) ∨
  (e = .systemExit ∧ s'.log.getLast? = some (.call .llcRun .sysExit))

theorem ErrPost.dev {V : Prop} {e : Exc} {s' : St} (h : e = .io 5 ∨ e = .keyboardInterrupt) : ErrPost V e s' := by
  rcases h with h | h
  · exact Or.inl h
  · exact Or.inr (Or.inl h)

theorem rdwrStep_err (o : RdwrOpts) (ts : List Bool) (s : St) (e : Exc) (h : (rdwrStep o ts s).1 = .error e) :
    ErrPost (o.targets.length = 1 ∨ o.targets.any (· == .notTarget) = true) e (rdwrStep o ts s).2.1 := by
  unfold rdwrStep at h ⊢
  have hs := sense_err o.targets o.iters s
  rcases hr : sense o.targets o.iters s with ⟨r1, s1⟩
  rw [hr] at h hs
  cases r1 with
  | error e1 =>
    simp only at h; cases h
    rcases hs e rfl with h1 | h1 | h1 | h1
    · exact Or.inl h1
    · exact Or.inr (Or.inl h1)
    · exact Or.inr (Or.inr (Or.inl h1))
    · exact Or.inr (Or.inr (Or.inr (Or.inl h1)))
  | ok o1 =>
    cases o1 with
    | none => simp at h
    | some x =>
      obtain ⟨id, f⟩ := x
      simp only at h ⊢
      obtain ⟨b1, hd⟩ := Cb.run_eq o.discover (defaultDiscover f) .rdwr .discover s1
      rw [hd] at h ⊢
      simp only at h ⊢
      generalize (o.discover.run (defaultDiscover f) .rdwr .discover s1).1 = dv at *
      cases hdv : dv.truthy with
      | false => simp [hdv] at h
      | true =>
        simp only [hdv, Bool.not_true, Bool.false_eq_true, if_false] at h ⊢
        have hT : HasT (s1.emit (.cb .rdwr .discover dv.code b1)) :=
          ⟨id, sense_some_target _ _ _ _ _ hr⟩
        have hact := (tagActivate_act f _ hT).2
        rcases hta : tagActivate f (s1.emit (.cb .rdwr .discover dv.code b1)) with ⟨a, s3⟩
        rw [hta] at h hact
        cases a with
        | error e3 =>
          simp only at h; cases h
          rcases hact e rfl with hd | hd | hd
          · exact Or.inl hd
          · exact Or.inr (Or.inl hd)
          · exact Or.inr (Or.inr (Or.inl hd))
        | ok ot =>
        cases ot with
        | none => simp at h
        | some tt =>
          simp only at h ⊢
          obtain ⟨b2, hc⟩ := Cb.run_eq o.connect .true_ .rdwr .connect s3
          rw [hc] at h ⊢
          simp only at h ⊢
          generalize (o.connect.run .true_ .rdwr .connect s3).1 = cv at *
          cases hcv : cv.truthy with
          | false => simp [hcv] at h
          | true =>
            simp only [hcv, Bool.not_true, Bool.false_eq_true, if_false] at h ⊢
            have hled : ∀ r5 s5, (if o.beep then simpleCall .ledOn (s3.emit (.cb .rdwr .connect cv.code b2)) else (.ok (), s3.emit (.cb .rdwr .connect cv.code b2))) = (r5, s5) →
                ∀ e', r5 = .error e' → e' = .io 5 ∨ e' = .keyboardInterrupt := by
              intro r5 s5 hh e' he'
              split at hh
              · have := simpleCall_err .ledOn (s3.emit (.cb .rdwr .connect cv.code b2)) e'
                rw [hh] at this; exact this he'
              · cases hh; cases he'
            rcases hl : (if o.beep then simpleCall .ledOn (s3.emit (.cb .rdwr .connect cv.code b2)) else (.ok (), s3.emit (.cb .rdwr .connect cv.code b2))) with ⟨r5, s5⟩
            rw [hl] at h
            have hled' := hled r5 s5 hl
            cases r5 with
            | error e5 => simp only at h; cases h; exact ErrPost.dev (hled' e rfl)
            | ok u =>
              simp only at h ⊢
              have hp := presenceLoop_err ts s5
              rcases hpl : presenceLoop ts s5 with ⟨r6, s6, ts1⟩
              rw [hpl] at h hp
              cases r6 with
              | error e6 => simp only at h; cases h; exact ErrPost.dev (hp e rfl)
              | ok u2 =>
                simp only at h ⊢
                have hoff := simpleCall_err .ledOff s6
                rcases hlo : simpleCall .ledOff s6 with ⟨r7, s7⟩
                rw [hlo] at h hoff
                cases r7 with
                | error e7 => simp only at h; cases h; exact ErrPost.dev (hoff e rfl)
                | ok u3 =>
                  simp only at h
                  obtain ⟨b3, hrel⟩ := Cb.run_eq o.release .true_ .rdwr .release s7
                  rw [hrel] at h
                  simp at h

theorem llcpRole_err (o : LlcpOpts) (ini : Bool) (ts : List Bool) (s : St) (e : Exc)
    (h : (llcpRole o ini ts s).1 = some (.error e)) : ErrPost False e (llcpRole o ini ts s).2.1 := by
  unfold llcpRole at h ⊢
  rcases hask : s.ask (.llcActivate ini) with ⟨a, s1⟩
  rw [hask] at h
  simp only at h ⊢
  cases a with
  | found f =>
    simp only at h ⊢
    obtain ⟨b2, hc⟩ := Cb.run_eq o.connect .true_ .llcp .connect s1
    rw [hc] at h ⊢
    simp only at h ⊢
    generalize (o.connect.run .true_ .llcp .connect s1).1 = cv at *
    cases hcv : cv.truthy with
    | false => simp [hcv] at h
    | true =>
      simp only [hcv, Bool.not_true, Bool.false_eq_true, if_false] at h ⊢
      obtain ⟨a2, hask2⟩ := ask_spec (s1.emit (.cb .llcp .connect cv.code b2)) .llcRun
      rw [hask2] at h ⊢
      simp only at h ⊢
      cases a2 with
      | ioError => simp only at h; cases h; exact Or.inl rfl
      | kbd => simp only at h; cases h; exact Or.inr (Or.inl rfl)
      | sysExit =>
        simp only at h; cases h
        refine Or.inr (Or.inr (Or.inr (Or.inr ⟨rfl, ?_⟩)))
        simp [List.getLast?_append]
      | _ => simp at h
  | ioError => simp only at h; cases h; exact Or.inl rfl
  | kbd => simp only at h; cases h; exact Or.inr (Or.inl rfl)
  | _ => simp at h

theorem llcpStep_err (o : LlcpOpts) (ts : List Bool) (s : St) (e : Exc) (h : (llcpStep o ts s).1 = .error e) :
    ErrPost False e (llcpStep o ts s).2.1 := by
  unfold llcpStep at h ⊢
  have first : ∀ e', (if o.role = .both ∨ o.role = .target then llcpRole o false ts s else (none, s, ts)).1 = some (.error e') →
      ErrPost False e' (if o.role = .both ∨ o.role = .target then llcpRole o false ts s else (none, s, ts)).2.1 := by
    intro e' he'
    by_cases hro : o.role = .both ∨ o.role = .target
    · simp only [hro, if_true] at he' ⊢; exact llcpRole_err o false ts s e' he'
    · simp only [hro, if_false] at he'; cases he'
  rcases h1 : (if o.role = .both ∨ o.role = .target then llcpRole o false ts s else (none, s, ts)) with ⟨r1, s1, ts1⟩
  rw [h1] at h first
  cases r1 with
  | some r =>
    simp only at h ⊢
    subst h
    exact first e rfl
  | none =>
    simp only at h ⊢
    have second : ∀ e', (if o.role = .both ∨ o.role = .initiator then llcpRole o true ts1 s1 else (none, s1, ts1)).1 = some (.error e') →
        ErrPost False e' (if o.role = .both ∨ o.role = .initiator then llcpRole o true ts1 s1 else (none, s1, ts1)).2.1 := by
      intro e' he'
      by_cases hro : o.role = .both ∨ o.role = .initiator
      · simp only [hro, if_true] at he' ⊢; exact llcpRole_err o true ts1 s1 e' he'
      · simp only [hro, if_false] at he'; cases he'
    rcases h2 : (if o.role = .both ∨ o.role = .initiator then llcpRole o true ts1 s1 else (none, s1, ts1)) with ⟨r2, s2, ts2⟩
    rw [h2] at h second
    cases r2 with
    | some r => simp only at h ⊢; subst h; exact second e rfl
    | none => simp at h

theorem cardStep_err (o : CardOpts) (ts : List Bool) (s : St) (e : Exc) (h : (cardStep o ts s).1 = .error e) :
    ErrPost (o.target = .other) e (cardStep o ts s).2.1 := by
  unfold cardStep at h ⊢
  have hs := listen_err o.target s
  rcases hr : listen o.target s with ⟨r1, s1⟩
  rw [hr] at h hs
  cases r1 with
  | error e1 =>
    simp only at h ⊢
    by_cases hce : isCommErr e1 = true
    · simp [hce] at h
    · simp only [hce] at h ⊢
      cases h
      rcases hs e rfl with h1 | h1 | h1 | h1 | h1
      · exact Or.inl h1
      · exact Or.inr (Or.inl h1)
      · exact Or.inr (Or.inr (Or.inl h1))
      · subst h1; simp [isCommErr] at hce
      · exact Or.inr (Or.inr (Or.inr (Or.inl h1)))
  | ok o1 =>
    cases o1 with
    | none => simp at h
    | some x =>
      simp only at h ⊢
      obtain ⟨b1, hd⟩ := Cb.run_eq o.discover .true_ .card .discover s1
      rw [hd] at h ⊢
      simp only at h ⊢
      generalize (o.discover.run .true_ .card .discover s1).1 = dv at *
      cases hdv : dv.truthy with
      | false => simp [hdv] at h
      | true =>
        simp only [hdv, Bool.not_true, Bool.false_eq_true, if_false] at h ⊢
        obtain ⟨id, f⟩ := x
        generalize hs3 : (s1.emit (.cb .card .discover dv.code b1)).emit (.call .emulate (.found f)) = s3 at *
        cases hem : emulates o.target f with
        | false => simp [hem] at h
        | true =>
          simp only [hem, Bool.not_true, Bool.false_eq_true, if_false] at h ⊢
          obtain ⟨b2, hc⟩ := Cb.run_eq o.connect .true_ .card .connect s3
          rw [hc] at h ⊢
          simp only at h ⊢
          generalize (o.connect.run .true_ .card .connect s3).1 = cv at *
          cases hcv : cv.truthy with
          | false => simp [hcv] at h
          | true =>
            simp only [hcv, Bool.not_true, Bool.false_eq_true, if_false] at h ⊢
            have hp := cardLoop_err ts (s3.emit (.cb .card .connect cv.code b2))
            rcases hpl : cardLoop ts (s3.emit (.cb .card .connect cv.code b2)) with ⟨r6, s6, ts1⟩
            rw [hpl] at h hp
            cases r6 with
            | error e6 => simp only at h; cases h; exact ErrPost.dev (hp e rfl)
            | ok u2 =>
              simp only at h
              obtain ⟨b3, hrel⟩ := Cb.run_eq o.release .true_ .card .release s6
              rw [hrel] at h
              simp at h

theorem ErrPost.mono {V V' : Prop} {e : Exc} {s : St} (hv : V → V') (h : ErrPost V e s) : ErrPost V' e s := by
  rcases h with h | h | h | ⟨h, v⟩ | h
  · exact Or.inl h
  · exact Or.inr (Or.inl h)
  · exact Or.inr (Or.inr (Or.inl h))
  · exact Or.inr (Or.inr (Or.inr (Or.inl ⟨h, hv v⟩)))
  · exact Or.inr (Or.inr (Or.inr (Or.inr h)))

theorem tryStep_err {V : Prop} (f : Option (List Bool → St → StepOut))
    (hf : ∀ g, f = some g → ∀ ts s e, (g ts s).1 = .error e → ErrPost V e (g ts s).2.1)
    (ts : List Bool) (s : St) (e : Exc) (s1 : St) (h : (tryStep f ts s).1 = some (.error e, s1)) :
    ErrPost V e s1 := by
  cases f with
  | none => simp [tryStep] at h
  | some g =>
    have hg := hf g rfl ts s
    simp only [tryStep] at h
    rcases hr : g ts s with ⟨r, s2, ts2⟩
    rw [hr] at h hg
    cases r with
    | error e2 =>
      simp only at h
      cases h
      exact hg e rfl
    | ok v =>
      simp only at h
      split at h <;> simp at h

/-- when a ValueError can leave connect(): a single target whose own error is raised (documented for
sense()), an argument that is not a RemoteTarget, or a LocalTarget of unknown technology -/
def LiveV (l : Live) : Prop :=
  (∃ r, l.rdwr = some r ∧ (r.targets.length = 1 ∨ r.targets.any (· == .notTarget) = true)) ∨
  (∃ c, l.card = some c ∧ c.target = .other)

theorem mainLoop_err (l : Live) (k : Nat) (ts : List Bool) (s : St) (e : Exc) (s' : St)
    (h : mainLoop l k ts s = some (.error e, s')) : ErrPost (LiveV l) e s' := by
  induction k generalizing ts s with
  | zero => simp [mainLoop] at h
  | succ k ih =>
    unfold mainLoop at h
    cases ts with
    | nil => simp [askTerm] at h
    | cons b rest =>
      cases b with
      | true => simp [askTerm] at h
      | false =>
        simp only [askTerm] at h
        have e1 := tryStep_err (V := LiveV l) (l.rdwr.map rdwrStep)
          (by intro g hg ts s e he
              cases hr : l.rdwr with
              | none => simp [hr] at hg
              | some o =>
                simp [hr] at hg; subst hg
                exact (rdwrStep_err o ts s e he).mono (fun v => Or.inl ⟨o, hr, v⟩))
          rest (s.emit (.term false)) e
        rcases h1 : tryStep (l.rdwr.map rdwrStep) rest (s.emit (.term false)) with ⟨r1, s1, ts1⟩
        rw [h1] at h e1
        cases r1 with
        | some x => simp only at h; cases h; exact e1 _ rfl
        | none =>
          simp only at h
          have e2 := tryStep_err (V := LiveV l) (l.llcp.map llcpStep)
            (by intro g hg ts s e he
                cases hr : l.llcp with
                | none => simp [hr] at hg
                | some o =>
                  simp [hr] at hg; subst hg
                  exact (llcpStep_err o ts s e he).mono (fun v => v.elim))
            ts1 s1 e
          rcases h2 : tryStep (l.llcp.map llcpStep) ts1 s1 with ⟨r2, s2, ts2⟩
          rw [h2] at h e2
          cases r2 with
          | some x => simp only at h; cases h; exact e2 _ rfl
          | none =>
            simp only at h
            have e3 := tryStep_err (V := LiveV l) (l.card.map cardStep)
              (by intro g hg ts s e he
                  cases hr : l.card with
                  | none => simp [hr] at hg
                  | some o =>
                    simp [hr] at hg; subst hg
                    exact (cardStep_err o ts s e he).mono (fun v => Or.inr ⟨o, hr, v⟩))
              ts2 s2 e
            rcases h3 : tryStep (l.card.map cardStep) ts2 s2 with ⟨r3, s3, ts3⟩
            rw [h3] at h e3
            cases r3 with
            | some x => simp only at h; cases h; exact e3 _ rfl
            | none => simp only at h; exact ih ts3 s3 h

/-- the same condition on the option record given to connect() -/
def OptsV (o : Opts) : Prop :=
  (∃ r, o.rdwr = some r ∧ (r.targets.length = 1 ∨ r.targets.any (· == .notTarget) = true)) ∨
  (∃ c, o.card = some c ∧ c.target = .other)

def NonIterableStartup (o : Opts) : Prop := ∃ r c, o.rdwr = some r ∧ r.startup = some (.nonIterable, c)

theorem startupRest_live (o : Opts) (ll : Option LlcpOpts) (s1 : St) :
    (∀ l s, startupRest o ll s1 = (.ok l, s) → (LiveV l → OptsV o)) ∧
    (∀ e s, startupRest o ll s1 = (.error e, s) → e = .type_ ∧ NonIterableStartup o) := by
  unfold startupRest
  cases hr : o.rdwr with
  | none =>
    cases hc : o.card with
    | none =>
      refine ⟨?_, by simp⟩
      intro l s h; simp at h; obtain ⟨h, _⟩ := h; subst h
      intro hv; rcases hv with ⟨r, h1, _⟩ | ⟨c, h1, _⟩ <;> simp at h1
    | some c =>
      refine ⟨?_, by simp⟩
      intro l s h; simp at h; obtain ⟨h, _⟩ := h; subst h
      intro hv
      rcases hv with ⟨r, h1, _⟩ | ⟨c', h1, h2⟩
      · simp at h1
      · simp at h1; exact Or.inr ⟨c, by simp [hc], by rw [h1.2]; exact h2⟩
  | some r =>
    simp only
    split
    · rename_i hni
      refine ⟨by simp, ?_⟩
      intro e s h; simp at h
      refine ⟨h.1.symm, r, ?_⟩
      cases hsu : r.startup with
      | none => simp [hsu] at hni
      | some x =>
        obtain ⟨a, c⟩ := x
        cases a <;> simp [hsu] at hni
        exact ⟨c, by simp [hr], rfl⟩
    · cases hc : o.card with
      | none =>
        refine ⟨?_, by simp⟩
        intro l s h; simp at h; obtain ⟨h, _⟩ := h; subst h
        intro hv
        rcases hv with ⟨r', h1, h2⟩ | ⟨c, h1, _⟩
        · simp at h1; exact Or.inl ⟨r, by simp [hr], by rw [h1.2]; exact h2⟩
        · simp at h1
      | some c =>
        refine ⟨?_, by simp⟩
        intro l s h; simp at h; obtain ⟨h, _⟩ := h; subst h
        intro hv
        rcases hv with ⟨r', h1, h2⟩ | ⟨c', h1, h2⟩
        · simp at h1; exact Or.inl ⟨r, by simp [hr], by rw [h1.2]; exact h2⟩
        · simp at h1; exact Or.inr ⟨c, by simp [hc], by rw [h1.2]; exact h2⟩

theorem startupPhase_live (o : Opts) (s0 : St) :
    (∀ l s, startupPhase o s0 = (.ok l, s) → (LiveV l → OptsV o)) ∧
    (∀ e s, startupPhase o s0 = (.error e, s) → e = .type_ ∧ NonIterableStartup o) := by
  unfold startupPhase
  cases o.llcp with
  | none => exact startupRest_live o _ _
  | some l => exact startupRest_live o _ _

/-- every exception that leaves connect() -/
theorem connect_raised (o : Opts) (env : List Ans) (ts : List Bool) (e : Exc)
    (h : (connect o env ts).1 = .raised e) :
    (e = .type_ ∧ NonIterableStartup o) ∨ (e = .value ∧ OptsV o) ∨
    (e = .systemExit ∧ (connect o env ts).2.log.getLast? = some (.call .llcRun .sysExit)) := by
  obtain ⟨⟨k, hk⟩, _⟩ := startupPhase_mon o env
  obtain ⟨hlive, herr⟩ := startupPhase_live o (St.init env)
  unfold connect at h ⊢
  rcases hs : startupPhase o (St.init env) with ⟨r0, s0⟩
  rw [hs] at h hk
  cases r0 with
  | error e0 =>
    simp only at h; cases h
    exact Or.inl (herr e s0 hs)
  | ok l =>
    simp only at h hk ⊢
    by_cases hemp : l.isEmpty = true
    · simp [hemp] at h
    · simp only [hemp] at h ⊢
      obtain ⟨r, s', hm, _⟩ := mainLoop_spec l (ts.length + 1) ts s0 (.su k) (by omega) hk rfl
      rw [hm] at h ⊢
      cases r with
      | ok v => simp at h
      | error e1 =>
        simp only at h ⊢
        by_cases hc : isCaught e1 = true
        · simp [hc] at h
        · simp only [hc] at h ⊢
          cases h
          rcases mainLoop_err l _ ts s0 e s' hm with h1 | h1 | h1 | ⟨h1, v⟩ | h1
          · subst h1; simp [isCaught] at hc
          · subst h1; simp [isCaught] at hc
          · subst h1; simp [isCaught] at hc
          · exact Or.inr (Or.inl ⟨h1, hlive l s0 hs v⟩)
          · exact Or.inr (Or.inr h1)
end NfcVerif.Clf
