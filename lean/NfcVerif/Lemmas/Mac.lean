import NfcVerif.Model.Mac
/-!
# The FeliCa Lite MAC distinguishes messages that differ in one 8-byte group

For every cipher that maps blocks to blocks injectively (`BlockCipher`).
-/
namespace NfcVerif.Mac
open NfcVerif

/-- what the theorems need of the cipher: under every key, blocks go to blocks, injectively -/
def BlockCipher (C : Cipher) : Prop :=
  ∀ k, (∀ b, Block b → Block (C k b)) ∧ (∀ a b, Block a → Block b → C k a = C k b → a = b)

/-! ## xor, reverse -/

theorem nat_xor_cancel_right {a b c : Nat} (h : a ^^^ c = b ^^^ c) : a = b := by
  have := congrArg (· ^^^ c) h
  simpa [Nat.xor_assoc, Nat.xor_self, Nat.xor_zero] using this

theorem xorB_length (a b : Bytes) (h : a.length = b.length) : (xorB a b).length = a.length := by
  simp [xorB, h]

theorem xorB_isBytes (a b : Bytes) (ha : IsBytes a) (hb : IsBytes b) : IsBytes (xorB a b) := by
  induction a generalizing b with
  | nil => intro x hx; simp [xorB] at hx
  | cons x xs ih =>
    cases b with
    | nil => intro y hy; simp [xorB] at hy
    | cons y ys =>
      intro z hz
      simp only [xorB, List.zipWith_cons_cons, List.mem_cons] at hz
      rcases hz with rfl | hz
      · exact Nat.xor_lt_two_pow (n := 8) (ha x (by simp)) (hb y (by simp))
      · exact ih ys (fun w hw => ha w (by simp [hw])) (fun w hw => hb w (by simp [hw])) z hz

theorem xorB_block {a b : Bytes} (ha : Block a) (hb : Block b) : Block (xorB a b) :=
  ⟨by rw [xorB_length a b (by rw [ha.1, hb.1]), ha.1], xorB_isBytes a b ha.2 hb.2⟩

theorem xorB_cancel_right (a b x : Bytes) (ha : a.length = x.length) (hb : b.length = x.length)
    (h : xorB a x = xorB b x) : a = b := by
  induction x generalizing a b with
  | nil =>
    have : a = [] := List.length_eq_zero_iff.mp (by simpa using ha)
    have : b = [] := List.length_eq_zero_iff.mp (by simpa using hb)
    simp_all
  | cons y ys ih =>
    cases a with
    | nil => simp at ha
    | cons a0 as =>
      cases b with
      | nil => simp at hb
      | cons b0 bs =>
        simp only [xorB, List.zipWith_cons_cons, List.cons.injEq] at h
        have h0 := nat_xor_cancel_right h.1
        have := ih as bs (by simpa using ha) (by simpa using hb) h.2
        rw [h0, this]

theorem xorB_comm (a b : Bytes) : xorB a b = xorB b a := by
  induction a generalizing b with
  | nil => cases b <;> simp [xorB]
  | cons x xs ih =>
    cases b with
    | nil => simp [xorB]
    | cons y ys =>
      simp only [xorB, List.zipWith_cons_cons, List.cons.injEq]
      exact ⟨Nat.xor_comm x y, ih ys⟩

theorem xorB_cancel_left (a b x : Bytes) (ha : a.length = x.length) (hb : b.length = x.length)
    (h : xorB x a = xorB x b) : a = b := by
  rw [xorB_comm x a, xorB_comm x b] at h
  exact xorB_cancel_right a b x ha hb h

theorem xorB_zeros (b : Bytes) : xorB b (List.replicate b.length 0) = b := by
  induction b with
  | nil => rfl
  | cons x xs ih =>
    simp only [List.length_cons, List.replicate_succ, xorB, List.zipWith_cons_cons, Nat.xor_zero, List.cons.injEq, true_and]
    exact ih

theorem reverse_block {b : Bytes} (h : Block b) : Block b.reverse :=
  ⟨by simp [h.1], fun x hx => h.2 x (by simpa using hx)⟩

/-! ## the CBC chain -/

theorem cbcLast_append (E : Bytes → Bytes) (iv : Bytes) (p q : List Bytes) :
    cbcLast E iv (p ++ q) = cbcLast E (cbcLast E iv p) q := by
  induction p generalizing iv with
  | nil => rfl
  | cons b rest ih => simp [cbcLast, ih]

theorem cbcLast_block {E : Bytes → Bytes} (hE : ∀ b, Block b → Block (E b)) (iv : Bytes) (l : List Bytes)
    (hiv : Block iv) (hl : ∀ b ∈ l, Block b) : Block (cbcLast E iv l) := by
  induction l generalizing iv with
  | nil => exact hiv
  | cons b rest ih =>
    simp only [cbcLast]
    exact ih _ (hE _ (xorB_block (hl b (by simp)) hiv)) (fun c hc => hl c (by simp [hc]))

/-- two different chaining values stay different through any common tail -/
theorem cbcLast_ne {E : Bytes → Bytes} (hE : ∀ b, Block b → Block (E b))
    (hinj : ∀ a b, Block a → Block b → E a = E b → a = b) (x y : Bytes) (l : List Bytes)
    (hx : Block x) (hy : Block y) (hne : x ≠ y) (hl : ∀ b ∈ l, Block b) :
    cbcLast E x l ≠ cbcLast E y l := by
  induction l generalizing x y with
  | nil => exact hne
  | cons b rest ih =>
    simp only [cbcLast]
    have hb := hl b (by simp)
    apply ih _ _ (hE _ (xorB_block hb hx)) (hE _ (xorB_block hb hy)) _ (fun c hc => hl c (by simp [hc]))
    intro h
    have := hinj _ _ (xorB_block hb hx) (xorB_block hb hy) h
    exact hne (xorB_cancel_left x y b (by rw [hx.1, hb.1]) (by rw [hy.1, hb.1]) this)

/-- the MAC of group lists that differ in exactly one group differs -/
theorem macBlocks_ne (C : Cipher) (hC : BlockCipher C) (key iv : Bytes) (pre post : List Bytes) (b b' : Bytes)
    (hiv : Block iv) (hpre : ∀ g ∈ pre, Block g) (hpost : ∀ g ∈ post, Block g)
    (hb : Block b) (hb' : Block b') (hne : b ≠ b') :
    macBlocks C key iv (pre ++ [b] ++ post) ≠ macBlocks C key iv (pre ++ [b'] ++ post) := by
  obtain ⟨hE, hinj⟩ := hC key
  have hne1 : pre ++ [b] ++ post ≠ [] := by simp
  have hne2 : pre ++ [b'] ++ post ≠ [] := by simp
  simp only [macBlocks, hne1, hne2, if_false]
  intro h
  have h := List.reverse_inj.mp h
  simp only [List.map_append, List.map_cons, List.map_nil, cbcLast_append, cbcLast] at h
  have hrev : ∀ l : List Bytes, (∀ g ∈ l, Block g) → ∀ g ∈ l.map List.reverse, Block g := by
    intro l hl g hg
    rw [List.mem_map] at hg
    obtain ⟨a, ha, rfl⟩ := hg
    exact reverse_block (hl a ha)
  have hx := cbcLast_block hE iv (pre.map List.reverse) hiv (hrev pre hpre)
  refine cbcLast_ne hE hinj _ _ _ (hE _ (xorB_block (reverse_block hb) hx)) (hE _ (xorB_block (reverse_block hb') hx)) ?_
    (hrev post hpost) h
  intro h2
  have := hinj _ _ (xorB_block (reverse_block hb) hx) (xorB_block (reverse_block hb') hx) h2
  have := xorB_cancel_right b.reverse b'.reverse _ (by simp [hb.1, hx.1]) (by simp [hb'.1, hx.1]) this
  exact hne (List.reverse_inj.mp this)

/-! ## 8-byte groups of a byte string -/

theorem chunksAux_append (m n : Nat) (a b : Bytes) (ha : a.length = 8 * m) :
    chunksAux (m + n) (a ++ b) = chunksAux m a ++ chunksAux n b := by
  induction m generalizing a with
  | zero =>
    have : a = [] := List.length_eq_zero_iff.mp (by simpa using ha)
    simp [this, chunksAux]
  | succ k ih =>
    have h8 : 8 ≤ a.length := by omega
    rw [show k + 1 + n = (k + n) + 1 by omega]
    simp only [chunksAux]
    rw [List.take_append_of_le_length h8, List.drop_append_of_le_length h8, ih (a.drop 8) (by simp; omega)]
    rfl

theorem chunks8_append (a b : Bytes) (ha : a.length % 8 = 0) : chunks8 (a ++ b) = chunks8 a ++ chunks8 b := by
  unfold chunks8
  have h1 : a.length = 8 * (a.length / 8) := by omega
  have h2 : (a ++ b).length / 8 = a.length / 8 + b.length / 8 := by simp; omega
  rw [h2, chunksAux_append _ _ a b h1]

theorem chunks8_block (b : Bytes) (h : b.length = 8) : chunks8 b = [b] := by
  simp [chunks8, h, chunksAux, List.take_of_length_le (Nat.le_of_eq h)]

theorem chunksAux_blocks (n : Nat) (d : Bytes) (hn : 8 * n ≤ d.length) (hd : IsBytes d) :
    ∀ g ∈ chunksAux n d, Block g := by
  induction n generalizing d with
  | zero => intro g hg; simp [chunksAux] at hg
  | succ k ih =>
    intro g hg
    simp only [chunksAux, List.mem_cons] at hg
    rcases hg with rfl | hg
    · exact ⟨by simp; omega, fun x hx => hd x (List.mem_of_mem_take hx)⟩
    · exact ih (d.drop 8) (by simp; omega) (fun x hx => hd x (List.mem_of_mem_drop hx)) g hg

theorem chunks8_blocks (d : Bytes) (hd : IsBytes d) : ∀ g ∈ chunks8 d, Block g :=
  chunksAux_blocks _ d (by omega) hd

theorem isBytes_append {a b : Bytes} (ha : IsBytes a) (hb : IsBytes b) : IsBytes (a ++ b) := by
  intro x hx
  rcases List.mem_append.mp hx with h | h
  · exact ha x h
  · exact hb x h

/-- `generateMac` for well-sized arguments -/
theorem generateMac_ok (C : Cipher) (data key iv : Bytes) (flip : Bool)
    (hd : data.length % 8 = 0) (hk : key.length = 16) (hiv : iv.length = 8) :
    generateMac C data key iv flip
      = .ok (macBlocks C (if flip then key.drop 8 ++ key.take 8 else key) iv (chunks8 data)) := by
  simp [generateMac, hd, hk, hiv]

/-- messages that differ in exactly one 8-byte group have different MACs -/
theorem generateMac_ne (C : Cipher) (hC : BlockCipher C) (key iv pre post b b' : Bytes) (flip : Bool)
    (hk : key.length = 16) (hiv : Block iv)
    (hpre : pre.length % 8 = 0) (hpost : post.length % 8 = 0) (hpreB : IsBytes pre) (hpostB : IsBytes post)
    (hb : Block b) (hb' : Block b') (hne : b ≠ b') :
    generateMac C (pre ++ b ++ post) key iv flip ≠ generateMac C (pre ++ b' ++ post) key iv flip := by
  have hl : (pre ++ b ++ post).length % 8 = 0 := by simp [hb.1]; omega
  have hl' : (pre ++ b' ++ post).length % 8 = 0 := by simp [hb'.1]; omega
  rw [generateMac_ok C _ key iv flip hl hk hiv.1, generateMac_ok C _ key iv flip hl' hk hiv.1]
  have e1 : chunks8 (pre ++ b ++ post) = chunks8 pre ++ [b] ++ chunks8 post := by
    rw [chunks8_append (pre ++ b) post (by simp [hb.1]; omega), chunks8_append pre b hpre, chunks8_block b hb.1]
  have e2 : chunks8 (pre ++ b' ++ post) = chunks8 pre ++ [b'] ++ chunks8 post := by
    rw [chunks8_append (pre ++ b') post (by simp [hb'.1]; omega), chunks8_append pre b' hpre, chunks8_block b' hb'.1]
  rw [e1, e2]
  intro h
  exact macBlocks_ne C hC _ iv _ _ b b' hiv (chunks8_blocks pre hpreB) (chunks8_blocks post hpostB) hb hb' hne
    (Except.ok.inj h)

end NfcVerif.Mac
