import NfcVerif.Lemmas.Sap
/-!
# C17: the source address of a datagram is the address its sender is bound to

Invariant over all histories: every UI PDU waiting in the send queue of a
logical-data-link socket carries that socket's own address as SSAP.  Together
with `collect` taking PDUs unchanged from a queue and `dispatch` appending the
very PDU it is given, this makes the source address intact from `sendto` to
`recvfrom`.
-/
namespace NfcVerif.Sap
open NfcVerif

def SrcOk (s : Sock) : Prop :=
  s.kind = .ldl → ∀ d sa m, Pdu.ui d sa m ∈ s.sendq → s.addr = some sa

def SrcInv (c : Llc) : Prop := ∀ id, SrcOk (c.sock id)

/-- per-socket preservation; holds for every step of the model -/
def SrcStep (c c' : Llc) : Prop := ∀ id, SrcOk (c.sock id) → SrcOk (c'.sock id)

theorem SrcStep.refl (c : Llc) : SrcStep c c := fun _ h => h
theorem SrcStep.trans {c1 c2 c3 : Llc} (h1 : SrcStep c1 c2) (h2 : SrcStep c2 c3) : SrcStep c1 c3 :=
  fun id h => h2 id (h1 id h)

theorem srcOk_sub {s s' : Sock} (hk : s'.kind = s.kind) (ha : s'.addr = s.addr)
    (hq : ∀ q ∈ s'.sendq, q ∈ s.sendq) (h : SrcOk s) : SrcOk s' := by
  intro hl d sa m hm
  rw [ha]; exact h (hk ▸ hl) d sa m (hq _ hm)

/-- same kind and address, no new UI PDU in the send queue -/
theorem srcOk_ui {s s' : Sock} (hk : s'.kind = s.kind) (ha : s'.addr = s.addr)
    (hq : ∀ d sa m, Pdu.ui d sa m ∈ s'.sendq → Pdu.ui d sa m ∈ s.sendq) (h : SrcOk s) : SrcOk s' := by
  intro hl d sa m hm
  rw [ha]; exact h (hk ▸ hl) d sa m (hq _ _ _ hm)

theorem srcOk_notLdl {s : Sock} (hk : s.kind ≠ .ldl) : SrcOk s := fun hl => absurd hl hk

theorem srcStep_setSock (c : Llc) (id : Nat) (s' : Sock) (h : SrcOk (c.sock id) → SrcOk s') :
    SrcStep c (setSock c id s') := by
  intro j hj
  simp only [setSock, upd]
  split
  · subst_vars; exact h hj
  · exact hj

theorem srcStep_sockless (c c' : Llc) (h : c'.sock = c.sock) : SrcStep c c' := by
  intro j hj; rw [h]; exact hj

theorem sockEnqueue_src {s s' : Sock} {p : Pdu} (h : sockEnqueue s p = some s') (hs : SrcOk s) : SrcOk s' := by
  cases hk : s.kind with
  | ldl =>
    unfold sockEnqueue at h
    simp only [hk] at h
    have : s' = s ∨ s' = appendRecv s p := by
      split at h
      · split at h
        · cases h; exact .inl rfl
        · cases h; exact .inr rfl
      · cases h; exact .inl rfl
    rcases this with rfl | rfl
    · exact hs
    · refine srcOk_sub ?_ ?_ ?_ hs <;> (simp only [appendRecv]; split <;> simp)
  | raw =>
    have : s'.kind = .raw := by
      unfold sockEnqueue at h; simp only [hk] at h; cases h
      simp only [appendRecv]; split <;> simp [hk]
    exact srcOk_notLdl (by rw [this]; decide)
  | dlc =>
    have : s'.kind = .dlc := by
      have := sockEnqueue_addr h
      unfold sockEnqueue at h; simp only [hk] at h
      repeat' split at h
      all_goals first | (cases h; done) | (cases h; simp [baseClose, hk])
    exact srcOk_notLdl (by rw [this]; decide)

theorem sockDequeue_src {s s' : Sock} {p : Pdu} (h : sockDequeue s = some (p, s')) (hs : SrcOk s) : SrcOk s' := by
  unfold sockDequeue at h
  split at h
  · cases h
  · rename_i q rest hq
    have hsub : ∀ x ∈ rest, x ∈ s.sendq := by intro x hx; rw [hq]; exact List.mem_cons_of_mem _ hx
    repeat' split at h
    all_goals
      cases h
      first
        | exact srcOk_sub (s := s) rfl rfl hsub hs
        | exact srcOk_sub (s := s) rfl rfl (by intro x hx; simp [baseClose] at hx) hs

theorem sapEnqueue_src {c c' : Llc} {a : Nat} {e : SapEntry} {p : Pdu}
    (h : sapEnqueue c a e p = .ok c') : SrcStep c c' := by
  unfold sapEnqueue at h
  repeat' split at h
  all_goals first | (cases h; done) | skip
  · rename_i s' hq
    cases h
    exact srcStep_setSock _ _ _ (sockEnqueue_src hq)
  · cases h; exact srcStep_sockless _ _ rfl
  · cases h; exact srcStep_sockless _ _ rfl
  · cases h; exact SrcStep.refl _

theorem dispatch_src {c c' : Llc} {p : Pdu} (h : dispatch c p = .ok c') : SrcStep c c' := by
  unfold dispatch at h
  repeat' split at h
  all_goals first | (cases h; exact srcStep_sockless _ _ rfl) | exact sapEnqueue_src h

theorem socksDequeue_src {c c' : Llc} {p : Pdu} : ∀ {l : List Nat}, socksDequeue c l = some (p, c') → SrcStep c c'
  | [], h => by simp [socksDequeue] at h
  | id :: t, h => by
    unfold socksDequeue at h
    split at h
    · rename_i q s' hq
      cases h
      exact srcStep_setSock _ _ _ (sockDequeue_src hq)
    · exact socksDequeue_src h

theorem sapDequeue_src {c c' : Llc} {a : Nat} {e : SapEntry} {p : Pdu}
    (h : sapDequeue c a e = some (p, c')) : SrcStep c c' := by
  unfold sapDequeue at h
  split at h
  · cases h; rename_i hq; exact socksDequeue_src hq
  · split at h
    · cases h
    · cases h; exact srcStep_sockless _ _ rfl

theorem collectFrom_src {c c' : Llc} {p : Pdu} : ∀ {l : List Nat}, collectFrom c l = some (p, c') → SrcStep c c'
  | [], h => by simp [collectFrom] at h
  | a :: t, h => by
    unfold collectFrom at h
    repeat' split at h
    all_goals first | (cases h; exact srcStep_sockless _ _ rfl) | exact collectFrom_src h | skip
    · cases h; rename_i hq; exact sapDequeue_src hq

def PSrc (p p' : Pair) : Prop := SrcStep p.a p'.a ∧ SrcStep p.b p'.b

theorem PSrc.refl (p : Pair) : PSrc p p := ⟨.refl _, .refl _⟩
theorem PSrc.trans {p1 p2 p3 : Pair} (h1 : PSrc p1 p2) (h2 : PSrc p2 p3) : PSrc p1 p3 :=
  ⟨h1.1.trans h2.1, h1.2.trans h2.2⟩

theorem psrc_set (p : Pair) (x : Side) (c : Llc) (h : SrcStep (p.get x) c) : PSrc p (p.set x c) := by
  cases x <;> simp only [Pair.get, Pair.set] at * <;> exact ⟨by first | exact h | exact .refl _, by first | exact h | exact .refl _⟩

theorem psrc_setSock (p : Pair) (x : Side) (id : Nat) (s' : Sock) (h : SrcOk ((p.get x).sock id) → SrcOk s') :
    PSrc p (p.set x (setSock (p.get x) id s')) := psrc_set p x _ (srcStep_setSock _ _ _ h)

theorem xfer_src {p p' : Pair} {x : Side} {m : Bool} (h : xfer p x = .ok (p', m)) : PSrc p p' := by
  unfold xfer at h
  split at h
  · cases h; exact .refl _
  · rename_i pdu cx hc
    simp only [Py.bind_eq_ok] at h
    obtain ⟨cy, hd, h⟩ := h
    cases h
    have h1 := psrc_set p x cx (collectFrom_src hc)
    have h2 := psrc_set (p.set x cx) (!x) cy (dispatch_src hd)
    exact ⟨(h1.trans h2).1, (h1.trans h2).2⟩

theorem pump_src : ∀ (k : Nat) {p p' : Pair}, pump k p = .ok p' → PSrc p p'
  | 0, p, p', h => by cases h; exact .refl _
  | k + 1, p, p', h => by
    unfold pump at h
    simp only [Py.bind_eq_ok] at h
    obtain ⟨r1, h1, r2, h2, h⟩ := h
    have s1 := xfer_src (p' := r1.1) (m := r1.2) h1
    have s2 := xfer_src (p' := r2.1) (m := r2.2) h2
    split at h
    · cases h; exact s1.trans s2
    · exact (s1.trans s2).trans (pump_src k h)

/-- a record update that keeps kind, address and send queue -/
theorem srcOk_same {s s' : Sock} (hk : s'.kind = s.kind) (ha : s'.addr = s.addr) (hq : s'.sendq = s.sendq)
    (h : SrcOk s) : SrcOk s' := srcOk_sub hk ha (by rw [hq]; exact fun _ h => h) h

theorem popOrPump_src {p : Pair} {x : Side} {id : Nat} {r : Pair × Option Pdu}
    (h : popOrPump p x id = .ok r) : PSrc p r.1 := by
  unfold popOrPump at h
  split at h
  · cases h; exact psrc_setSock _ _ _ _ (srcOk_same rfl rfl rfl)
  · simp only [Py.bind_eq_ok] at h
    obtain ⟨p1, hp, h⟩ := h
    have s1 := pump_src _ hp
    split at h
    · cases h; exact s1.trans (psrc_setSock _ _ _ _ (srcOk_same rfl rfl rfl))
    · cases h; exact s1

theorem bind_src {c c' : Llc} {id : Nat} {arg : BindArg} (h : bind c id arg = .ok c') : SrcStep c c' := by
  obtain ⟨hu, a, _, _, h1 | ⟨nm, _, _, _, _, h1⟩⟩ := bind_ok_form h
  all_goals
    subst h1
    intro j hj
    simp only [bindAt, upd]
    split
    · subst_vars
      intro hl d sa m hm
      have := hj hl d sa m hm
      rw [hu] at this; cases this
    · exact hj

theorem src_withBound {p : Pair} {x : Side} {id : Nat} {k : Pair → Step} {r : Pair × Py Out}
    (h : withBound p x id k = .ok r) (hk : ∀ p1, k p1 = .ok r → PSrc p1 r.1) : PSrc p r.1 := by
  unfold withBound at h
  split at h
  · rename_i c hb
    refine (psrc_set p x c ?_).trans (hk _ h)
    unfold bindIfUnbound at hb
    split at hb
    · cases hb; exact .refl _
    · exact bind_src hb
  · cases h; exact .refl _

/-- appending a PDU that is not a UI PDU -/
theorem mem_append_nonUi {l : List Pdu} {q : Pdu} (hq : ∀ d sa m, q ≠ .ui d sa m) {d sa : Nat} {m : Bytes}
    (h : Pdu.ui d sa m ∈ l ++ [q]) : Pdu.ui d sa m ∈ l := by
  simp only [List.mem_append, List.mem_singleton] at h
  rcases h with h | h
  · exact h
  · exact absurd h.symm (hq d sa m)

theorem connectPdu_nonUi (a : Nat) (dest : Dest) : ∀ d sa m, connectPdu a dest ≠ .ui d sa m := by
  intro d sa m; cases dest <;> simp [connectPdu]

theorem src_listen {p : Pair} {x : Side} {id bl : Nat} {r : Pair × Py Out}
    (h : apiListen p x id bl = .ok r) : PSrc p r.1 := by
  unfold apiListen at h
  split at h
  · cases h; exact .refl _
  · refine src_withBound h (fun p1 hk => ?_)
    dsimp only at hk
    repeat' split at hk
    all_goals first | (cases hk; exact .refl _) | (cases hk; exact psrc_setSock _ _ _ _ (srcOk_same rfl rfl rfl))

theorem src_sendto {p : Pair} {x : Side} {id : Nat} {m : Bytes} {d : Nat} {r : Pair × Py Out}
    (h : apiSendto p x id m d = .ok r) : PSrc p r.1 := by
  unfold apiSendto at h
  split at h
  · cases h; exact .refl _
  · refine src_withBound h (fun p1 hk => ?_)
    dsimp only at hk
    repeat' split at hk
    all_goals first | (cases hk; done) | (cases hk; exact .refl _) | skip
    rename_i a ha
    cases hk
    refine psrc_setSock _ _ _ _ (fun hs => ?_)
    intro hl d' sa m' hm
    simp only [List.mem_append, List.mem_singleton] at hm
    rcases hm with hm | hm
    · exact hs hl d' sa m' hm
    · cases hm; exact ha
  · repeat' split at h
    all_goals first | (cases h; done) | (cases h; exact .refl _)

theorem src_sendpdu {p : Pair} {x : Side} {id : Nat} {q : Pdu} {r : Pair × Py Out}
    (h : apiSendPdu p x id q = .ok r) : PSrc p r.1 := by
  unfold apiSendPdu at h
  split at h
  · cases h
  · rename_i hraw
    have hraw : ((p.get x).sock id).kind = .raw := by simpa using hraw
    unfold withBound at h
    split at h
    · rename_i c hb
      have hkc : (c.sock id).kind = .raw := by
        unfold bindIfUnbound at hb
        split at hb
        · cases hb; exact hraw
        · obtain ⟨_, a, _, _, h1 | ⟨nm, _, _, _, _, h1⟩⟩ := bind_ok_form hb <;> (subst h1; simp [bindAt, upd, hraw])
      have s1 : PSrc p (p.set x c) := by
        refine psrc_set p x c ?_
        unfold bindIfUnbound at hb
        split at hb
        · cases hb; exact .refl _
        · exact bind_src hb
      dsimp only at h
      repeat' split at h
      all_goals first | (cases h; exact s1) | skip
      cases h
      refine s1.trans (psrc_setSock _ _ _ _ (fun _ => srcOk_notLdl ?_))
      simp only [get_set]; rw [hkc]; decide
    · cases h; exact .refl _

theorem src_connect {p : Pair} {x : Side} {id : Nat} {d : Dest} {r : Pair × Py Out}
    (h : apiConnect p x id d = .ok r) : PSrc p r.1 := by
  unfold apiConnect at h
  refine src_withBound h (fun p1 hk => ?_)
  simp only at hk
  split at hk
  · cases hk; exact .refl _
  · repeat' split at hk
    all_goals first | (cases hk; done) | (cases hk; exact .refl _) | (cases hk; exact psrc_setSock _ _ _ _ (srcOk_same rfl rfl rfl))
  · repeat' split at hk
    all_goals first | (cases hk; done) | (cases hk; exact .refl _) | skip
    all_goals
      simp only [Py.bind_eq_ok] at hk
      obtain ⟨r1, hpop, hk⟩ := hk
      have s0 := popOrPump_src hpop
      have s1 : PSrc p1 r1.1 := (psrc_set _ _ _ (srcStep_setSock _ _ _
        (srcOk_ui (by rfl) (by rfl) (fun _ _ _ hm => mem_append_nonUi (connectPdu_nonUi _ _) hm)))).trans s0
      repeat' split at hk
      all_goals first | (cases hk; exact s1) | (cases hk; exact s1.trans (psrc_setSock _ _ _ _ (srcOk_same rfl rfl rfl)))

theorem src_accept {p : Pair} {x : Side} {id : Nat} {r : Pair × Py Out}
    (h : apiAccept p x id = .ok r) : PSrc p r.1 := by
  unfold apiAccept at h
  simp only at h
  repeat' split at h
  all_goals first | (cases h; exact .refl _) | skip
  simp only [Py.bind_eq_ok] at h
  obtain ⟨r1, hpop, h⟩ := h
  have s0 := popOrPump_src hpop
  have s1 : PSrc p r1.1 := (psrc_set _ _ _ (srcStep_setSock _ _ _ (srcOk_same (by rfl) (by rfl) (by rfl)))).trans s0
  have child : ∀ (c : Llc) (s' ch : Sock), (SrcOk (c.sock id) → SrcOk s') → ch.kind = .dlc →
      ∀ (c' : Llc), c'.sock = upd (upd c.sock id s') c.n ch → SrcStep c c' := by
    intro c s' ch hs' hch c' hc' j hj
    rw [hc']
    simp only [upd]
    split
    · exact srcOk_notLdl (by rw [hch]; decide)
    · split
      · subst_vars; exact hs' hj
      · exact hj
  repeat' split at h
  all_goals first | (cases h; done) | (cases h; exact s1) | skip
  all_goals
    cases h
    refine s1.trans (psrc_set _ _ _ (child _ _ _ ?_ rfl _ rfl))
    exact srcOk_ui rfl rfl (fun _ _ _ hm => mem_append_nonUi (by intro d sa m; simp) hm)

theorem srcOk_baseClose {s : Sock} (h : SrcOk s) : SrcOk (baseClose s) :=
  srcOk_sub (s := s) rfl rfl (by intro q hq; simp [baseClose] at hq) h

theorem src_recvfrom {p : Pair} {x : Side} {id : Nat} {r : Pair × Py Out}
    (h : apiRecvfrom p x id = .ok r) : PSrc p r.1 := by
  unfold apiRecvfrom at h
  simp only at h
  repeat' split at h
  all_goals first | (cases h; exact .refl _) | skip
  all_goals
    simp only [Py.bind_eq_ok] at h
    obtain ⟨r1, hpop, h⟩ := h
    have hr1 := popOrPump_src hpop
    repeat' split at h
    all_goals first | (cases h; exact hr1) | (cases h; exact hr1.trans (psrc_setSock _ _ _ _ srcOk_baseClose))

theorem src_resolve {p : Pair} {x : Side} {nm : Bytes} {r : Pair × Py Out}
    (h : apiResolve p x nm = .ok r) : PSrc p r.1 := by
  unfold apiResolve at h
  simp only at h
  repeat' split at h
  all_goals first | (cases h; exact .refl _) | skip
  simp only [Py.bind_eq_ok] at h
  obtain ⟨p1, hpump, h⟩ := h
  have s0 := pump_src _ hpump
  have s1 : PSrc p p1 := (psrc_set _ _ _ (srcStep_sockless _ _ (by rfl))).trans s0
  repeat' split at h
  all_goals first | (cases h; done) | (cases h; exact s1)

theorem src_resolveMany {p : Pair} {x : Side} {nms : List Bytes} {r : Pair × Py Out}
    (h : apiResolveMany p x nms = .ok r) : PSrc p r.1 := by
  unfold apiResolveMany at h
  simp only at h
  split at h
  · cases h
  · simp only [Py.bind_eq_ok] at h
    obtain ⟨p1, hpump, h⟩ := h
    have s1 : PSrc p p1 := by
      split at hpump
      · cases hpump; exact .refl _
      · exact (psrc_set _ _ _ (srcStep_sockless _ _ (by rfl))).trans (pump_src _ hpump)
    split at h
    · cases h; exact s1
    · cases h

theorem sockClose_src {p p' : Pair} {x : Side} {id : Nat} (h : sockClose p x id = .ok p') : PSrc p p' := by
  unfold sockClose at h
  simp only at h
  repeat' split at h
  all_goals first | (cases h; done) | (cases h; exact psrc_setSock _ _ _ _ srcOk_baseClose) | skip
  simp only [Py.bind_eq_ok] at h
  obtain ⟨r1, hpop, h⟩ := h
  cases h
  have s0 := popOrPump_src hpop
  refine ((psrc_set _ _ _ (srcStep_setSock _ _ _ ?_)).trans s0).trans (psrc_setSock _ _ _ _ srcOk_baseClose)
  exact srcOk_ui rfl rfl (fun _ _ _ hm => mem_append_nonUi (by intro d sa m; simp) hm)

theorem removeSocket_src (c : Llc) (id a : Nat) (e : SapEntry) : SrcStep c (removeSocket c id a e (c.sock id)) := by
  intro j hj
  have : (removeSocket c id a e (c.sock id)).sock j = c.sock j := by
    simp only [removeSocket]
    split <;> (simp only [setSock, upd]; split <;> simp_all)
  rw [this]; exact hj

theorem src_close {p : Pair} {x : Side} {id : Nat} {r : Pair × Py Out}
    (h : apiClose p x id = .ok r) : PSrc p r.1 := by
  unfold apiClose at h
  repeat' split at h
  all_goals
    simp only [Py.bind_eq_ok] at h
    obtain ⟨p1, hc, h⟩ := h
    have s1 := sockClose_src hc
    first
      | (cases h; exact s1)
      | (repeat' split at h
         all_goals first | (cases h; exact s1) | (cases h; exact s1.trans (psrc_set _ _ _ (removeSocket_src _ _ _ _))))

theorem src_socket {p : Pair} {x : Side} {k : Kind} {r : Pair × Py Out}
    (h : apiSocket p x k = .ok r) : PSrc p r.1 := by
  cases h
  refine psrc_set _ _ _ ?_
  intro j hj
  simp only [newSocket, upd]
  split
  · intro _ d sa m hm; simp at hm
  · exact hj

theorem applyOp_src {p : Pair} {op : Op} {r : Pair × Py Out} (h : applyOp p op = .ok r) : PSrc p r.1 := by
  cases op with
  | socket x k => exact src_socket h
  | bind x id arg =>
    simp only [applyOp, apiBind] at h
    split at h
    · rename_i c hb; cases h; exact psrc_set _ _ _ (bind_src hb)
    · cases h; exact .refl _
  | listen x id bl => exact src_listen h
  | connect x id d => exact src_connect h
  | accept x id => exact src_accept h
  | sendto x id m d => exact src_sendto h
  | sendpdu x id d s m => exact src_sendpdu h
  | recvfrom x id => exact src_recvfrom h
  | resolve x nm => exact src_resolve h
  | close x id => exact src_close h
  | xfer x =>
    simp only [applyOp, apiXfer, Py.bind_eq_ok] at h
    obtain ⟨r1, hx, h⟩ := h
    cases h
    exact xfer_src (p' := r1.1) (m := r1.2) hx
  | resolveMany x nms => exact src_resolveMany h
  | sendsnl x id rq rs => exact src_sendpdu h

/-- in every reachable state every UI PDU queued at a logical-data-link socket carries
the address that socket is bound to as its source -/
theorem run_src : ∀ (ops : List Op) {p : Pair}, SrcInv p.a ∧ SrcInv p.b →
    SrcInv (run p ops).a ∧ SrcInv (run p ops).b
  | [], _, hp => hp
  | op :: t, p, hp => by
    unfold run
    split
    · rename_i p1 r h
      refine run_src t ?_
      unfold apply at h
      split at h
      · have s := applyOp_src h
        exact ⟨fun id => s.1 id (hp.1 id), fun id => s.2 id (hp.2 id)⟩
      · cases h
    · exact hp

theorem init_src : SrcInv Sap.init := by
  intro id _ d sa m hm; simp [Sap.init] at hm

theorem reach_src (ops : List Op) (x : Side) : SrcInv ((run Pair.init ops).get x) := by
  have := run_src ops (p := Pair.init) ⟨init_src, init_src⟩
  cases x <;> simp [Pair.get] <;> first | exact this.1 | exact this.2
end NfcVerif.Sap
