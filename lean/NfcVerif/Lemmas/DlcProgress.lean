import NfcVerif.Lemmas.DlcLlc
/-!
# Progress: while a message is in flight between two established endpoints some step
other than `send` is enabled (changes the state)
-/
namespace NfcVerif.Dlc

theorem recv_progress (e : Ep) (hb : e.bound = true) (hst : e.st = .established) (hrq : e.rq ≠ []) :
    e.recv.1.rq.length < e.rq.length := by
  unfold Ep.recv
  rw [if_neg (by simp [hb]), if_neg (by simp [hst])]
  split
  · rename_i h; exact absurd h hrq
  · rename_i d rest h; split <;> simp [h]
  · rename_i rest h; simp [Ep.shut, h]
  · rename_i rest h; simp [h]

theorem deq_progress (e : Ep) (p : Out) (rest : List Out) (hsq : e.sq = p :: rest) :
    (e.deq p.infoSize).2.isSome = true := by
  unfold Ep.deq
  split
  · rfl
  · dsimp only
    split
    · rename_i h; rw [hsq] at h; cases h
    · rename_i p' rest' h
      rw [hsq] at h
      obtain ⟨rfl, rfl⟩ := List.cons.inj h
      rw [if_neg (by omega)]
      cases p <;> dsimp only
      · split <;> rfl
      · rfl
      · split <;> rfl
      · rfl

theorem Sys.swap_swap (s : Sys) : s.swap.swap = s := rfl

/-- progress for the direction A -> B -/
theorem no_stuck_ab (s : Sys) (h : Inv s) (ha : s.a.st = .established) (hb : s.b.st = .established)
    (hne : s.a.accepted ≠ s.b.delivered) :
    ∃ x op, (∀ m, op ≠ .send m) ∧ (step s x op).1 ≠ s := by
  obtain ⟨t, c1, c2⟩ := h.1.cons
  rw [if_pos hb, c2 ha hb] at c1
  by_cases hq : s.b.rq = []
  · by_cases hw : s.wab = []
    · by_cases hs : s.a.sq = []
      · exfalso; apply hne; rw [c1, hq, hw, hs]; simp [rqMsgs, iPart, sqI]
      · -- the head of the send queue can be dequeued
        obtain ⟨p, rest, hsq⟩ := List.exists_cons_of_ne_nil hs
        refine ⟨.A, .deq p.infoSize, fun m => by simp, ?_⟩
        intro heq
        have h1 := congrArg (fun s => s.wab.length) heq
        have h2 := deq_progress s.a p rest hsq
        simp only [step, stepA] at h1
        cases hr : (s.a.deq p.infoSize).2 with
        | none => rw [hr] at h2; cases h2
        | some q => rw [hr] at h1; simp at h1
    · -- a PDU is on the wire: it can be delivered
      obtain ⟨p, rest, hwab⟩ := List.exists_cons_of_ne_nil hw
      refine ⟨.B, .dlv, fun m => by simp, ?_⟩
      intro heq
      have h1 := congrArg (fun s => s.wab.length) heq
      simp only [step, stepA, Sys.swap, hwab] at h1
      simp at h1
  · -- a message waits in the receive queue: recv is enabled
    refine ⟨.B, .recv, fun m => by simp, ?_⟩
    intro heq
    have h1 := congrArg (fun s => s.b.rq.length) heq
    have hbd : s.b.bound = true := by
      cases hbb : s.b.bound with
      | true => rfl
      | false => have := h.1.bnd hbb; rw [hb] at this; cases this
    have h2 := recv_progress s.b hbd hb hq
    simp only [step, stepA, Sys.swap] at h1
    omega

theorem no_stuck_ba (s : Sys) (h : Inv s) (ha : s.a.st = .established) (hb : s.b.st = .established)
    (hne : s.b.accepted ≠ s.a.delivered) :
    ∃ x op, (∀ m, op ≠ .send m) ∧ (step s x op).1 ≠ s := by
  obtain ⟨x, op, h1, h2⟩ := no_stuck_ab s.swap h.swap hb ha hne
  cases x with
  | A =>
    refine ⟨.B, op, h1, ?_⟩
    intro heq
    apply h2
    have := congrArg Sys.swap heq
    simpa [step, Sys.swap_swap] using this
  | B =>
    refine ⟨.A, op, h1, ?_⟩
    intro heq
    apply h2
    simp only [step, Sys.swap_swap] at heq ⊢
    rw [heq]

end NfcVerif.Dlc
