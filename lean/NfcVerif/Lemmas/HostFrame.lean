import NfcVerif.Model.HostFrame
/-! Helper lemmas for the frame theorems of C14. -/
namespace NfcVerif.HostFrame

theorem sum_append (a b : Bytes) : sum (a ++ b) = sum a + sum b := by
  unfold sum
  rw [List.foldl_append]
  generalize List.foldl (· + ·) 0 a = x
  induction b generalizing x with
  | nil => simp
  | cons h t ih => simp only [List.foldl_cons]; rw [ih, ih (0 + h)]; omega

theorem sum_cons (a : Nat) (b : Bytes) : sum (a :: b) = a + sum b := by
  have := sum_append [a] b
  simpa [sum] using this

@[simp] theorem sum_nil : sum [] = 0 := rfl

theorem body_ok (tfi code : Nat) (d : Bytes) :
    Spec.body ([tfi, code] ++ d ++ [(256 - sum ([tfi, code] ++ d) % 256) % 256, 0]) = some (tfi, code, d) := by
  simp only [List.cons_append, List.nil_append, Spec.body, List.reverse_append, List.reverse_cons, List.reverse_nil,
    List.reverse_reverse]
  simp [sum_cons]
  omega

theorem pn_build_valid (cmd : Nat) (d : Bytes) (h : d.length + 2 < 65536) :
    Spec.parse (pnBuild cmd d) = some (0xD4, cmd, d) := by
  have hb := body_ok 0xD4 cmd d
  unfold pnBuild
  by_cases hn : d.length < 254
  · simp only [hn, if_true, sof, List.cons_append, List.nil_append]
    unfold Spec.parse
    split
    · rename_i heq
      simp at heq
      omega
    · rename_i heq
      simp at heq
      obtain ⟨h1, h2, h3⟩ := heq
      subst h1 h2 h3
      simp only [List.cons_append, List.nil_append] at hb
      rw [if_pos, hb]
      constructor
      · omega
      · simp
    · rename_i h1 h2
      exfalso
      exact h2 _ _ _ rfl
  · simp only [hn, if_false, sof, List.cons_append, List.nil_append]
    unfold Spec.parse
    split
    · rename_i heq
      simp at heq
      obtain ⟨h1, h2, h3, h4⟩ := heq
      subst h1 h2 h3 h4
      simp only [List.cons_append, List.nil_append] at hb
      rw [if_pos, hb]
      constructor
      · omega
      · simp; omega
    · rename_i h1 h2
      exfalso
      simp at h2
      obtain ⟨e1, e2, e3⟩ := h2
      exact h1 _ _ _ _ e1.symm e2.symm e3.symm
    · rename_i h1 h2
      exfalso
      exact h1 _ _ _ _ rfl

theorem startsWith_iff (l p : Bytes) : startsWith l p = true ↔ ∃ t, l = p ++ t := by
  unfold startsWith
  rw [List.isPrefixOf_iff_prefix]
  constructor
  · rintro ⟨t, ht⟩; exact ⟨t, ht.symm⟩
  · rintro ⟨t, ht⟩; exact ⟨t, ht.symm⟩

theorem pnStrip_ok (f body : Bytes) (h : pnStrip f = .ok body) :
    Spec.parse f = Spec.body body := by
  unfold pnStrip at h
  split at h
  · rename_i hs
    obtain ⟨t, rfl⟩ := (startsWith_iff _ _).1 hs
    split at h
    · cases h
    · split at h
      · cases h
      · rename_i hsum hlen
        simp [sof] at hlen
        rcases t with _ | ⟨lm, _ | ⟨ll, _ | ⟨lcs, rest⟩⟩⟩
        · simp at hlen
        · simp at hlen
        · simp at hlen
        · simp [sof, sliceN, unpackH, sum] at h hsum
          try simp only [bind, Except.bind] at h
          split at h
          · rename_i hl
            cases h
            simp [sof, Spec.parse, hsum]
            omega
          · cases h
  · rename_i hs
    split at h
    · rename_i hs2
      obtain ⟨t, rfl⟩ := (startsWith_iff _ _).1 hs2
      split at h
      · cases h
      · split at h
        · cases h
        · rename_i hsum hlen
          simp [sof] at hlen
          rcases t with _ | ⟨len, _ | ⟨lcs, rest⟩⟩
          · simp at hlen
          · simp at hlen
          · simp [sof, sliceN, idxN, sum] at h hsum
            try simp only [bind, Except.bind] at h
            split at h
            · rename_i hl
              cases h
              simp [startsWith, sof] at hs
              simp only [sof, List.cons_append, List.nil_append]
              unfold Spec.parse
              split
              · rename_i heq
                simp at heq
                obtain ⟨e1, e2, _⟩ := heq
                exact absurd e2.symm (hs e1.symm)
              · rename_i heq
                simp at heq
                obtain ⟨e1, e2, e3⟩ := heq
                subst e1 e2 e3
                simp [hsum]
                omega
              · rename_i h2
                exact absurd rfl (h2 _ _ _)
            · cases h
    · cases h

theorem exists_snoc2 (l : Bytes) (h : 2 ≤ l.length) : ∃ m y z, l = m ++ [y, z] := by
  rcases List.eq_nil_or_concat l with rfl | ⟨l1, z, rfl⟩
  · simp at h
  · rcases List.eq_nil_or_concat l1 with rfl | ⟨l2, y, rfl⟩
    · simp at h
    · exact ⟨l2, y, z, by simp⟩

theorem idx_last (m : Bytes) (a b y z : Nat) : idx (a :: b :: (m ++ [y, z])) (-1) = .ok z := by
  unfold idx
  simp
  split
  · omega
  · have : (-1 + ((m.length : Int) + 2 + 1 + 1)).toNat = m.length + 3 := by omega
    rw [this]
    have : (a :: b :: (m ++ [y, z]))[m.length + 3]? = some z := by
      simp
    rw [this]

theorem slice_mid (m : Bytes) (a b y z : Nat) : slice (a :: b :: (m ++ [y, z])) 2 (-2) = m := by
  unfold slice clampBound
  simp
  have h1 : ¬ ((m.length : Int) + 2 + 1 + 1 < 2) := by omega
  have h2 : ¬ (-2 + ((m.length : Int) + 2 + 1 + 1) < 0) := by omega
  have h3 : ¬ ((m.length : Int) + 2 + 1 + 1 < -2 + ((m.length : Int) + 2 + 1 + 1)) := by omega
  have h4 : (-2 + ((m.length : Int) + 2 + 1 + 1)).toNat - 2 = m.length := by omega
  simp only [h1, h2, h3, if_false, h4, List.drop_succ_cons, List.drop_zero]
  simp


theorem pnBody_ok (cmd : Nat) (body data : Bytes) (h : pnBody cmd body = .ok data) :
    Spec.body body = some (0xD5, cmd + 1, data) := by
  unfold pnBody at h
  split at h
  · simp at h
  rename_i h3
  by_cases h4 : body.length < 4
  · -- length 3: either error frame or refused
    rw [Py.bind_eq_ok] at h
    obtain ⟨last, _, h⟩ := h
    split at h
    · simp at h
    split at h
    · simp at h
    rw [Py.bind_eq_ok] at h
    obtain ⟨tfi, _, h⟩ := h
    split at h
    · simp at h
    simp [h4] at h
  · obtain ⟨a, b, rest, rfl⟩ : ∃ a b rest, body = a :: b :: rest := by
      rcases body with _ | ⟨a, _ | ⟨b, rest⟩⟩
      · simp at h3
      · simp at h3
      · exact ⟨a, b, rest, rfl⟩
    obtain ⟨m, y, z, rfl⟩ := exists_snoc2 rest (by simp at h4; omega)
    rw [idx_last, slice_mid] at h
    simp only [Py.bind_ok, idxN_cons_zero, idxN_cons_succ] at h
    split at h
    · simp at h
    rename_i hz
    split at h
    · simp at h
    rename_i hsum
    split at h
    · simp at h
    split at h
    · simp at h
    rename_i hor
    split at h
    · simp at h
    rename_i hb
    simp at h hz hor hb
    subst h hz hb
    subst hor
    simp [Spec.body]
    simp [sum_cons, sum_append] at hsum
    omega

theorem pn_accept_sound (cmd : Nat) (f data : Bytes) (h : pnAccept cmd f = .ok data) :
    Spec.parse f = some (0xD5, cmd + 1, data) := by
  unfold pnAccept at h
  rw [Py.bind_eq_ok] at h
  obtain ⟨body, h1, h2⟩ := h
  rw [pnStrip_ok f body h1, pnBody_ok cmd body data h2]

theorem idxN_ok_of_lt {α} (l : List α) (n : Nat) (h : n < l.length) : ∃ a, idxN l n = .ok a := by
  unfold idxN
  rw [List.getElem?_eq_getElem h]
  exact ⟨_, rfl⟩

theorem idx_neg_ok {α} (l : List α) (k : Nat) (h1 : 0 < k) (h2 : k ≤ l.length) : ∃ a, idx l (-(k : Int)) = .ok a := by
  unfold idx
  simp only
  have h3 : (-(k:Int) < 0) := by omega
  simp only [h3, if_true]
  have h4 : ¬ (-(k:Int) + (l.length : Int) < 0 ∨ -(k:Int) + (l.length : Int) ≥ l.length) := by omega
  simp only [h4, if_false]
  have h5 : (-(k:Int) + (l.length : Int)).toNat < l.length := by omega
  rw [List.getElem?_eq_getElem h5]
  exact ⟨_, rfl⟩

def Doc (e : Exc) : Prop := e = EIO ∨ e = .chipsetError 0x7F

theorem pnStrip_doc (f : Bytes) : Safe (· = EIO) (pnStrip f) := by
  unfold pnStrip
  apply Safe.ite
  · apply Safe.ite (Safe.throw' (S := (· = EIO)) rfl)
    apply Safe.dite
    · intro _; exact Safe.throw' (S := (· = EIO)) rfl
    · intro hl
      have : ∃ v, unpackH (sliceN f 5 7) 0 = .ok v := by
        unfold unpackH sliceN
        have h1 : ((f.drop 5).take (7-5))[0]? = some (f[5]'(by omega)) := by
          simp [List.getElem?_take, List.getElem?_drop]
        have h2 : ((f.drop 5).take (7-5))[0+1]? = some (f[6]'(by omega)) := by
          simp [List.getElem?_take, List.getElem?_drop]
        rw [h1, h2]; exact ⟨_, rfl⟩
      obtain ⟨v, hv⟩ := this
      rw [hv]
      simp only [Py.bind_ok]
      exact Safe.ite (Safe.throw' (S := (· = EIO)) rfl) (Safe.pure _)
  · apply Safe.ite
    · apply Safe.ite (Safe.throw' (S := (· = EIO)) rfl)
      apply Safe.dite
      · intro _; exact Safe.throw' (S := (· = EIO)) rfl
      · intro hl
        obtain ⟨v, hv⟩ := idxN_ok_of_lt f 3 (by omega)
        rw [hv]
        simp only [Py.bind_ok]
        exact Safe.ite (Safe.throw' (S := (· = EIO)) rfl) (Safe.pure _)
    · exact Safe.throw' (S := (· = EIO)) rfl

theorem pnBody_doc (cmd : Nat) (body : Bytes) : Safe Doc (pnBody cmd body) := by
  unfold pnBody
  apply Safe.dite
  · intro _; exact Safe.throw' (S := Doc) (Or.inl rfl)
  · intro hl
    obtain ⟨last, hlast⟩ := idx_neg_ok body 1 (by omega) (by omega)
    obtain ⟨tfi, htfi⟩ := idxN_ok_of_lt body 0 (by omega)
    have hl' : idx body (-1) = .ok last := hlast
    rw [hl', htfi]
    simp only [Py.bind_ok]
    apply Safe.ite (Safe.throw' (S := Doc) (Or.inl rfl))
    apply Safe.ite (Safe.throw' (S := Doc) (Or.inl rfl))
    apply Safe.ite (Safe.throw' (S := Doc) (Or.inr rfl))
    apply Safe.dite
    · intro _; exact Safe.throw' (S := Doc) (Or.inl rfl)
    · intro h4
      obtain ⟨code, hcode⟩ := idxN_ok_of_lt body 1 (by omega)
      rw [hcode]
      simp only [Py.bind_ok]
      exact Safe.ite (Safe.throw' (S := Doc) (Or.inl rfl)) (Safe.pure _)

theorem pn_accept_doc (cmd : Nat) (f : Bytes) : Safe Doc (pnAccept cmd f) := by
  unfold pnAccept
  exact Safe.bind' ((pnStrip_doc f).mono (fun e h => Or.inl h)) (fun b => pnBody_doc cmd b)

theorem unLe32_le32 (n : Nat) (h : n < 4294967296) : unLe32 (le32 n) = n := by
  simp [unLe32, le32]; omega

theorem ccid_build_valid (x : Bytes) (h : x.length < 4294967296) : Spec.ccidEscape (ccidBuild x) = some x := by
  have := unLe32_le32 x.length h
  simp only [le32] at this
  simp [ccidBuild, Spec.ccidEscape, le32, this]

theorem acr_build_valid (cmd : Nat) (d w : Bytes) (h : acrBuild cmd d = .ok w) :
    Spec.acrCommand w = some (cmd, d) := by
  unfold acrBuild at h
  simp only at h
  split at h
  · simp at h
  · rename_i hl
    simp at h hl
    subst h
    unfold Spec.acrCommand
    rw [ccid_build_valid _ (by simp; omega)]
    simp
    omega

theorem rcs_build_valid (d : Bytes) (h : d.length < 65536) : Spec.rcsParse (rcsBuild d) = some d := by
  unfold rcsBuild Spec.rcsParse
  simp
  constructor
  · omega
  · omega

theorem idx_last2 (m : Bytes) (a b y z : Nat) : idx (a :: b :: (m ++ [y, z])) (-2) = .ok y := by
  unfold idx
  simp
  split
  · omega
  · have : (-2 + ((m.length : Int) + 2 + 1 + 1)).toNat = m.length + 2 := by omega
    rw [this]
    have : (a :: b :: (m ++ [y, z]))[m.length + 2]? = some y := by
      simp
    rw [this]

theorem acrBody_ok (cmd : Nat) (f data : Bytes) (h : acrBody cmd f = .ok data) :
    f = 0xD5 :: (cmd + 1) :: (data ++ [0x90, 0]) := by
  unfold acrBody at h
  split at h
  · simp at h
  rename_i h4
  obtain ⟨a, b, rest, rfl⟩ : ∃ a b rest, f = a :: b :: rest := by
    rcases f with _ | ⟨a, _ | ⟨b, rest⟩⟩
    · simp at h4
    · simp at h4
    · exact ⟨a, b, rest, rfl⟩
  obtain ⟨m, y, z, rfl⟩ := exists_snoc2 rest (by simp at h4; omega)
  rw [idx_last, idx_last2, slice_mid] at h
  simp only [Py.bind_ok, idxN_cons_zero, idxN_cons_succ] at h
  split at h
  · simp at h
  rename_i hab
  split at h
  · simp at h
  rename_i hyz
  simp at h hab hyz
  obtain ⟨rfl, rfl⟩ := hab
  obtain ⟨rfl, rfl⟩ := hyz
  subst h
  rfl

theorem ccidAccept_ok (raw f : Bytes) (h : ccidAccept raw = .ok f) :
    ∃ l0 l1 l2 l3 s q st er ch, raw = 0x80 :: l0 :: l1 :: l2 :: l3 :: s :: q :: st :: er :: ch :: f
      ∧ f.length = unLe32 [l0, l1, l2, l3] := by
  unfold ccidAccept at h
  split at h
  · simp at h
  rename_i hl
  rcases raw with _ | ⟨t, _ | ⟨l0, _ | ⟨l1, _ | ⟨l2, _ | ⟨l3, _ | ⟨s, _ | ⟨q, _ | ⟨st, _ | ⟨er, _ | ⟨ch, rest⟩⟩⟩⟩⟩⟩⟩⟩⟩⟩ <;>
    simp at hl
  simp only [Py.bind_ok, idxN_cons_zero] at h
  split at h
  · simp at h
  rename_i ht
  split at h
  · simp at h
  rename_i hlen
  simp [sliceN] at h ht hlen
  subst h ht
  exact ⟨l0, l1, l2, l3, s, q, st, er, ch, rfl, by omega⟩

theorem acr_accept_sound (cmd : Nat) (raw data : Bytes) (h : acrAccept cmd raw = .ok data) :
    Spec.acrResponse raw = some (cmd + 1, data) := by
  unfold acrAccept at h
  rw [Py.bind_eq_ok] at h
  obtain ⟨f, h1, h2⟩ := h
  obtain ⟨l0, l1, l2, l3, s, q, st, er, ch, rfl, hlen⟩ := ccidAccept_ok raw f h1
  have := acrBody_ok cmd f data h2
  subst this
  simp [Spec.acrResponse]
  simp at hlen
  omega

theorem acr_accept_doc (cmd : Nat) (raw : Bytes) : Safe (· = EIO) (acrAccept cmd raw) := by
  unfold acrAccept
  apply Safe.bind'
  · unfold ccidAccept
    apply Safe.dite
    · intro _; exact Safe.throw' (S := (· = EIO)) rfl
    · intro hl
      obtain ⟨t, ht⟩ := idxN_ok_of_lt raw 0 (by omega)
      rw [ht]; simp only [Py.bind_ok]
      exact Safe.ite (Safe.throw' (S := (· = EIO)) rfl) (Safe.ite (Safe.throw' (S := (· = EIO)) rfl) (Safe.pure _))
  · intro f
    unfold acrBody
    apply Safe.dite
    · intro _; exact Safe.throw' (S := (· = EIO)) rfl
    · intro hl
      obtain ⟨a, ha⟩ := idxN_ok_of_lt f 0 (by omega)
      obtain ⟨b, hb⟩ := idxN_ok_of_lt f 1 (by omega)
      obtain ⟨y, hy⟩ := idx_neg_ok f 2 (by omega) (by omega)
      obtain ⟨z, hz⟩ := idx_neg_ok f 1 (by omega) (by omega)
      have hy' : idx f (-2) = .ok y := hy
      have hz' : idx f (-1) = .ok z := hz
      rw [ha, hb, hy', hz']; simp only [Py.bind_ok]
      exact Safe.ite (Safe.throw' (S := (· = EIO)) rfl) (Safe.ite (Safe.throw' (S := (· = EIO)) rfl) (Safe.pure _))
theorem body_some {rest : Bytes} {tfi code : Nat} {data : Bytes} (h : Spec.body rest = some (tfi, code, data)) :
    ∃ dcs, rest = tfi :: code :: (data ++ [dcs, 0]) ∧ (tfi + code + sum data + dcs) % 256 = 0 := by
  unfold Spec.body at h
  split at h
  · rename_i t c more
    split at h
    · rename_i post dcs rdata hrev
      simp only at h
      split at h
      · rename_i hc
        simp at h
        obtain ⟨rfl, rfl, rfl⟩ := h
        have hm : more = rdata.reverse ++ [dcs, post] := by
          have := congrArg List.reverse hrev
          simpa using this
        obtain ⟨hp, hs⟩ := hc
        subst hp
        exact ⟨dcs, by rw [hm], hs⟩
      · cases h
    · cases h
  · cases h

theorem pnBody_complete (cmd : Nat) (data : Bytes) (dcs : Nat)
    (hs : (0xD5 + (cmd + 1) + sum data + dcs) % 256 = 0) :
    pnBody cmd (0xD5 :: (cmd + 1) :: (data ++ [dcs, 0])) = .ok data := by
  unfold pnBody
  have hlen : ¬ (0xD5 :: (cmd + 1) :: (data ++ [dcs, 0])).length < 3 := by simp
  rw [if_neg hlen, idx_last, slice_mid]
  simp only [Py.bind_ok, idxN_cons_zero, idxN_cons_succ]
  have hsum : sum (0xD5 :: (cmd + 1) :: (data ++ [dcs, 0])) % 256 = 0 := by
    simp [sum_cons, sum_append]; omega
  simp [hsum]

theorem pnStrip_complete (f : Bytes) (r : Nat × Nat × Bytes) (h : Spec.parse f = some r) :
    ∃ body, pnStrip f = .ok body ∧ Spec.body body = some r := by
  unfold Spec.parse at h
  split at h
  · -- extended frame
    rename_i lm ll lcs rest
    split at h
    · rename_i hc
      refine ⟨rest, ?_, h⟩
      obtain ⟨hsum, hlen⟩ := hc
      unfold pnStrip
      have hsw : startsWith (0 :: 0 :: 255 :: 255 :: 255 :: lm :: ll :: lcs :: rest) (sof ++ [255, 255]) = true := by
        simp [startsWith, sof]
      rw [if_pos hsw]
      have h1 : sum (sliceN (0 :: 0 :: 255 :: 255 :: 255 :: lm :: ll :: lcs :: rest) 5 8) = lm + ll + lcs := by
        simp [sliceN, sum]
      rw [h1]
      rw [if_neg (by simpa using hsum)]
      rw [if_neg (by simp; omega)]
      have h2 : unpackH (sliceN (0 :: 0 :: 255 :: 255 :: 255 :: lm :: ll :: lcs :: rest) 5 7) 0 = .ok (lm * 256 + ll) := by
        simp [sliceN, unpackH]
      rw [h2]
      simp only [Py.bind_ok]
      rw [if_neg (by simp; omega)]
      simp
    · cases h
  · -- normal frame
    rename_i len lcs rest hne
    split at h
    · rename_i hc
      refine ⟨rest, ?_, h⟩
      obtain ⟨hsum, hlen⟩ := hc
      unfold pnStrip
      have hnot : ¬ (len = 255 ∧ lcs = 255) := by
        intro ⟨a, b⟩; subst a b; simp at hsum
      have hsw : ¬ startsWith (0 :: 0 :: 255 :: len :: lcs :: rest) (sof ++ [255, 255]) = true := by
        simp [startsWith, sof]
        intro a b; exact hnot ⟨a.symm, b.symm⟩
      rw [if_neg hsw]
      have hsw2 : startsWith (0 :: 0 :: 255 :: len :: lcs :: rest) sof = true := by simp [startsWith, sof]
      rw [if_pos hsw2]
      have h1 : sum (sliceN (0 :: 0 :: 255 :: len :: lcs :: rest) 3 5) = len + lcs := by simp [sliceN, sum]
      rw [h1, if_neg (by simpa using hsum), if_neg (by simp; omega)]
      simp only [idxN_cons_succ, idxN_cons_zero, Py.bind_ok]
      rw [if_neg (by simp; omega)]
      simp
    · cases h
  · cases h

/-- completeness: every frame the independent validator reads as `D5, cmd+1, data` is accepted -/
theorem pn_accept_complete (cmd : Nat) (f data : Bytes) (h : Spec.parse f = some (0xD5, cmd + 1, data)) :
    pnAccept cmd f = .ok data := by
  obtain ⟨body, hs, hb⟩ := pnStrip_complete f _ h
  obtain ⟨dcs, rfl, hsum⟩ := body_some hb
  unfold pnAccept
  rw [hs]
  simp only [Py.bind_ok]
  exact pnBody_complete cmd data dcs hsum

end NfcVerif.HostFrame
