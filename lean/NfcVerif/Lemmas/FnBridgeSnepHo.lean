import NfcVerif.Props.FnBridgeHoClient
import NfcVerif.Gen.FnSnepHo
import NfcVerif.Model.FnSnepHoRef
/-!
# Group SnepHo: loop lemmas and compositions

* `forM_sendEach`, `forC_sendWhile`, `whileC_reasm`: the regenerated `for` / `while` loops over oracle sockets are the
  structurally recursive reference functions of `Model/FnSnepHoRef.lean`;
* `putReleaseGen`, `getReleaseGen`, `requestGen`, `hoStepGen`: the hand-written control skeleton around the regenerated
  tests and assignments (the translator refuses the `try .. except ..: return` / `continue` statements they sit in).
-/
namespace NfcVerif.FnBridge.SnepHo
open NfcVerif NfcVerif.PyFn NfcVerif.Chan NfcVerif.Snep NfcVerif.FnSnepHoRef NfcVerif.FnBridge NfcVerif.FnBridge.Snep

/-- the regenerated `for offset in parts: send(f offset)` offers `parts.map f` in order -/
theorem forM_sendEach {α} (send : Bytes → Py Bool) (f : α → Bytes) : ∀ (l : List α),
    PyFn.forM l () (fun (() : Unit) (o : α) => send (f o) >>= fun _ => Except.ok ()) = sendEach send (l.map f) := by
  intro l
  induction l with
  | nil => rfl
  | cons a t ih =>
    simp only [PyFn.forM, List.map_cons, sendEach]
    cases send (f a) with
    | error e => rfl
    | ok b => simpa using ih

theorem forC_sendWhile {α} (send : Bytes → Py Bool) (f : α → Bytes) : ∀ (l : List α),
    PyFn.forC (ρ := Option Int) l () (fun (() : Unit) (o : α) =>
      send (f o) >>= fun t2 => Except.ok (if (¬ (t2 = true)) then (PyFn.Ctl.ret ((none : (Option Int)))) else (PyFn.Ctl.next ())))
    = match sendWhile send (l.map f) with
      | .error e => .error e
      | .ok true => .ok (.inl ())
      | .ok false => .ok (.inr none) := by
  intro l
  induction l with
  | nil => rfl
  | cons a t ih =>
    simp only [PyFn.forC, List.map_cons, sendWhile]
    cases send (f a) with
    | error e => rfl
    | ok b =>
      cases b with
      | false => rfl
      | true => simpa using ih

theorem whileC_reasm (poll : Py Bool) (recv : Py Bytes) (length : Nat) : ∀ (fuel : Nat) (buf : Bytes),
    (PyFn.whileC (ρ := (Option Bytes)) fuel buf
          (fun (s : Bytes) => Except.ok (decide (((PyFn.len s) - 6) < (length : Int))))
          (fun (s : Bytes) =>
            poll >>= fun t4 =>
            if (t4 = true) then
              (recv >>= fun t5 =>
               Except.ok (let s3 := (s ++ t5)
                (PyFn.Ctl.next s3)))
            else
            Except.ok ((PyFn.Ctl.ret ((none : (Option Bytes)))))) >>= fun c =>
        match c with
        | .inr r => Except.ok r
        | .inl s4 => Except.ok (some s4))
      = reasm poll recv length fuel buf := by
  intro fuel
  induction fuel with
  | zero => intro buf; rfl
  | succ n ih =>
    intro buf
    unfold reasm
    rw [← len_eq buf]
    simp only [PyFn.whileC]
    by_cases hc : PyFn.len buf - 6 < (length : Int)
    · simp only [hc, decide_true, if_true]
      cases poll with
      | error e => rfl
      | ok b =>
        cases b with
        | false => rfl
        | true =>
          cases recv with
          | error e => rfl
          | ok m => simpa using ih (buf ++ m)
    · simp [hc]


/-! ## compositions -/

/-- a socket object (truthy) / None as the marker the regenerated tests read -/
def sockTok {α} (s : Option α) : Option Int := s.map (fun _ => 1)

/-- `release_connection` after statement 0 of `put_octets`: the regenerated test and the two regenerated assignments -/
def putReleaseGen (sock : Option Int) : Bool :=
  if Gen.Fn.sh_put_need_connect sock = true then Gen.Fn.sh_put_release_opened else Gen.Fn.sh_put_release_kept

/-- the same for statement 1 of `get_octets` -/
def getReleaseGen (sock : Option Int) : Bool :=
  if Gen.Fn.sh_get_need_connect sock = true then Gen.Fn.sh_get_release_opened else Gen.Fn.sh_get_release_kept

/-- `put_octets` / `get_octets` of the C06 object model with the regenerated connection test and `release_connection`
values (hand written: `connect`, `exchange`) -/
def requestGen (w : SnepObj.World) (fuel : Nat) (o : SnepObj.Obj) (op : Op) (octets : Bytes) : SnepObj.Obj × SnepObj.HRes :=
  if Gen.Fn.sh_put_need_connect (sockTok o.sock) = true then
    match SnepObj.connect w o 0 with
    | (o1, .unit) => SnepObj.exchange w fuel o1 Gen.Fn.sh_put_release_opened op octets
    | (o1, _) => (o1, .res (sendFailed op))
  else SnepObj.exchange w fuel o Gen.Fn.sh_put_release_kept op octets

/-- `HandoverServer.serve` behind `request += socket.recv()`: the regenerated guard in front of the completeness test -/
def hoStepGen (complete : Bytes → Bool) (request : Bytes) : HoStep :=
  if Gen.Fn.sh_ho_guard request = true then .needData else if complete request then .process else .needMore

end NfcVerif.FnBridge.SnepHo
