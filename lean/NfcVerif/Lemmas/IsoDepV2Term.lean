import NfcVerif.Model.IsoDepV2
/-!
# ISO-DEP, repaired initiator: every loop ends against EVERY card

`Peer σ` is any card whatsoever (any state, any answer to any block), the fault script is arbitrary.  With the
three repairs every loop of `IsoDepInitiator.exchange` has a measure:

* `_exchange`: every granted S(WTX) request has a multiplier of at least 1 and the sum may not exceed
  `max_wtxm_sum` - at most `1 + max_wtxm_sum` frames (`xchgW_spec`);
* the retry loops: the counter `i` advances in every round, also for a retransmission after R(ACK), and a round
  is only started while `i ≤ n` - at most `n + 1` rounds (`blockLoop_spec`);
* the response loop: every chained block brings at least one octet and the response may not grow beyond
  65538 octets before a further block is asked for - at most 65539 rounds (`recvChain_spec`).

`exchange_spec`: no fuel is used up once `F ≥ fuelNeed pcd`, the outcome is a response or
`Type4TagCommandError` with one of the three documented reasons, at most `exchFrames` frames are sent, the block
number stays a block number and nothing that activation fixed is changed.
-/
namespace NfcVerif.IsoDep2
open NfcVerif NfcVerif.IsoDep

/-- frames handed to `clf.exchange` so far -/
def frames {σ} (w : World σ) : Nat := w.trace.length

theorem xchg_frames {σ} (P : Peer σ) (w : World σ) (out : Bytes) : frames (w.xchg P out).1 = frames w + 1 := by
  unfold World.xchg frames
  simp only
  split
  · simp
  · split <;> simp

theorem legBack_ne_fuel (f : Fault) (b : Bytes) : legBack f b ≠ .fuel := by
  cases f <;> simp [legBack]

theorem xchg_ne_fuel {σ} (P : Peer σ) (w : World σ) (out : Bytes) : (w.xchg P out).2 ≠ .fuel := by
  unfold World.xchg
  simp only
  split
  · simp
  · split
    · simp
    · exact legBack_ne_fuel _ _

/-- `_exchange` with the S(WTX) limit `L`: no fuel is used up when `L - sum < f`, and at most
`1 + (L - sum)` frames are sent (every granted request has a multiplier of at least 1) -/
theorem xchgW_spec {σ} (P : Peer σ) (L : Nat) : ∀ (f sum : Nat) (w : World σ) (out : Bytes),
    sum ≤ L → L - sum < f →
    (xchgW P L f sum w out).2 ≠ .fuel ∧
    frames w + 1 ≤ frames (xchgW P L f sum w out).1 ∧
    frames (xchgW P L f sum w out).1 ≤ frames w + 1 + (L - sum) := by
  intro f
  induction f with
  | zero => intro sum w out _ h; omega
  | succ f ih =>
    intro sum w out hs hf
    unfold xchgW
    have hfr := xchg_frames P w out
    have hnf := xchg_ne_fuel P w out
    generalize w.xchg P out = r1 at hfr hnf
    obtain ⟨w', r⟩ := r1
    simp only at hfr hnf ⊢
    cases r with
    | data d =>
      simp only
      cases hm : wtxmOf d with
      | none => simp only; exact ⟨by simp, by omega, by omega⟩
      | some m =>
        simp only
        split
        · simp only; exact ⟨by simp, by omega, by omega⟩
        · rename_i hm0
          split
          · simp only; exact ⟨by simp, by omega, by omega⟩
          · have := ih (sum + m) w' d (by omega) (by omega)
            exact ⟨this.1, by omega, by omega⟩
    | timeout => simp only; exact ⟨by simp, by omega, by omega⟩
    | transmission => simp only; exact ⟨by simp, by omega, by omega⟩
    | protocol => simp only; exact ⟨by simp, by omega, by omega⟩
    | fuel => exact absurd rfl hnf

/-- the three documented reasons of `Type4TagCommandError` -/
def Err3 (e : Exc) : Prop := e = .tagCmd TIMEOUT_ERROR ∨ e = .tagCmd RECEIVE_ERROR ∨ e = .tagCmd PROTOCOL_ERROR

/-- a non-empty block or a `Type4TagCommandError` -/
def BlockRes : Py Bytes → Prop
  | .ok d => d ≠ []
  | .error e => Err3 e

/-- a response or a `Type4TagCommandError` -/
def CmdRes : Py Bytes → Prop
  | .ok _ => True
  | .error e => Err3 e

theorem resendMax_le (n : Nat) : resendMax n ≤ n + 1 := by unfold resendMax; omega

theorem roundsMax_ge (n : Nat) : n + 1 ≤ roundsMax n ∧ resendMax n + 1 ≤ roundsMax n ∧ roundsMax n ≤ n + 2 := by
  have := resendMax_le n
  unfold roundsMax
  omega

/-- one retry loop with the retransmissions counted: at most `roundsMax n + 1 - i` rounds of at most `L + 1` frames -/
theorem blockLoop_spec {σ} (P : Peer σ) (F L : Nat) (hF : L < F) (n : Nat) (resend : Option Nat) (req rty : Bytes) :
    ∀ (f i : Nat) (out : Bytes) (w : World σ), i ≤ roundsMax n → roundsMax n + 1 ≤ i + f →
      BlockRes (blockLoop P F L n resend req rty f i out w).2 ∧
      frames w ≤ frames (blockLoop P F L n resend req rty f i out w).1 ∧
      frames (blockLoop P F L n resend req rty f i out w).1 ≤ frames w + (roundsMax n + 1 - i) * (L + 1) := by
  obtain ⟨hR1, hR2, _⟩ := roundsMax_ge n
  generalize roundsMax n = R at *
  intro f
  induction f with
  | zero => intro i out w h1 h2; omega
  | succ f ih =>
    intro i out w hi hf
    unfold blockLoop
    have hx := xchgW_spec P L F 0 w out (by omega) (by omega)
    generalize xchgW P L F 0 w out = r1 at hx
    obtain ⟨w', r⟩ := r1
    simp only at hx ⊢
    generalize hK : L + 1 = K at *
    have hk1 : K ≤ (R + 1 - i) * K := Nat.le_mul_of_pos_left K (by omega)
    have hstep : i + 1 ≤ R → (R + 1 - i) * K = (R + 1 - (i + 1)) * K + K := by
      intro h
      rw [show R + 1 - i = (R + 1 - (i + 1)) + 1 by omega, Nat.add_mul, Nat.one_mul]
    have hrec : i + 1 ≤ R → ∀ (o : Bytes),
        BlockRes (blockLoop P F L n resend req rty f (i + 1) o w').2 ∧
        frames w ≤ frames (blockLoop P F L n resend req rty f (i + 1) o w').1 ∧
        frames (blockLoop P F L n resend req rty f (i + 1) o w').1 ≤ frames w + (R + 1 - i) * K := by
      intro h o
      have := ih (i + 1) o w' (by omega) (by omega)
      have hs := hstep h
      exact ⟨this.1, by omega, by omega⟩
    have hend : ∀ e, Err3 e → BlockRes (Except.error e : Py Bytes) ∧ frames w ≤ frames w' ∧
        frames w' ≤ frames w + (R + 1 - i) * K := fun e he => ⟨he, by omega, by omega⟩
    cases r with
    | data d =>
      cases d with
      | nil =>
        simp only
        split
        · rename_i h; exact hrec (by omega) _
        · exact hend _ (Or.inr (Or.inl rfl))
      | cons a t =>
        simp only
        split
        · split
          · exact hend _ (Or.inr (Or.inr rfl))
          · rename_i h; exact hrec (by omega) _
        · simp only; exact ⟨by simp [BlockRes], by omega, by omega⟩
    | timeout =>
      simp only
      split
      · rename_i h; exact hrec (by omega) _
      · exact hend _ (Or.inl rfl)
    | transmission =>
      simp only
      split
      · rename_i h; exact hrec (by omega) _
      · exact hend _ (Or.inr (Or.inl rfl))
    | protocol => exact hend _ (Or.inr (Or.inr rfl))
    | waited => exact hend _ (Or.inl rfl)
    | fuel => exact absurd rfl hx.1

/-- the command phase: one retry loop per command block -/
theorem sendChunks_spec {σ} (P : Peer σ) (F L : Nat) (hF : L < F) (nNak : Nat) (hN : roundsMax nNak ≤ F) :
    ∀ (cs : List Bytes) (pni : Nat) (w : World σ), cs ≠ [] → pni < 2 →
      BlockRes (sendChunks P F L nNak cs pni w).2.2 ∧ (sendChunks P F L nNak cs pni w).2.1 < 2 ∧
      frames w ≤ frames (sendChunks P F L nNak cs pni w).1 ∧
      frames (sendChunks P F L nNak cs pni w).1 ≤ frames w + cs.length * loopFrames L nNak := by
  intro cs
  induction cs with
  | nil => intro pni w h; exact absurd rfl h
  | cons ch rest ih =>
    intro pni w _ hp
    unfold sendChunks
    simp only
    generalize hib : (((if (!rest.isEmpty) = true then 0x12 else 0x02) ||| pni) :: ch) = iblk
    have hb := blockLoop_spec P F L hF nNak (some (0xA2 ||| ((pni + 1) % 2))) iblk [0xB2 ||| pni] F 1 iblk w
      (by have := (roundsMax_ge nNak).1; omega) (by omega)
    rw [show roundsMax nNak + 1 - 1 = roundsMax nNak by omega] at hb
    generalize blockLoop P F L nNak (some (0xA2 ||| ((pni + 1) % 2))) iblk [0xB2 ||| pni] F 1 iblk w = r1 at hb
    obtain ⟨w', r⟩ := r1
    simp only at hb ⊢
    unfold loopFrames
    generalize hQ : roundsMax nNak * (L + 1) = Q at *
    have hlen : (ch :: rest).length * Q = rest.length * Q + Q := by
      rw [List.length_cons, Nat.add_mul, Nat.one_mul]
    have hend : ∀ e, Err3 e → BlockRes (Except.error e : Py Bytes) ∧ pni < 2 ∧ frames w ≤ frames w' ∧
        frames w' ≤ frames w + (ch :: rest).length * Q := fun e he => ⟨he, hp, by omega, by omega⟩
    cases r with
    | error e =>
      simp only
      exact ⟨hb.1, hp, by omega, by omega⟩
    | ok d =>
      cases d with
      | nil => exact absurd rfl hb.1
      | cons a t =>
        simp only
        split
        · exact hend _ (Or.inr (Or.inr rfl))
        · split
          · rename_i hmore
            split
            · have hr : rest ≠ [] := by
                intro h; subst h; simp at hmore
              have := ih ((pni + 1) % 2) w' hr (by omega)
              unfold loopFrames at this
              rw [hQ] at this
              exact ⟨this.1, this.2.1, by omega, by omega⟩
            · exact hend _ (Or.inr (Or.inr rfl))
          · split
            · simp only; exact ⟨by simp [BlockRes], by omega, by omega, by omega⟩
            · exact hend _ (Or.inr (Or.inr rfl))

/-- the response phase: every chained block must bring at least one octet and the response may not exceed
65538 octets when a further block is asked for, so there are at most 65539 rounds -/
theorem recvChain_spec {σ} (P : Peer σ) (F L : Nat) (hF : L < F) (nAck : Nat) (hA : roundsMax nAck ≤ F) :
    ∀ (f pni : Nat) (data resp : Bytes) (w : World σ), data ≠ [] → data.length - 1 ≤ resp.length → pni < 2 →
      65539 - (resp.length - (data.length - 1)) + 1 ≤ f →
      CmdRes (recvChain P F L nAck f pni data resp w).2.2 ∧ (recvChain P F L nAck f pni data resp w).2.1 < 2 ∧
      frames w ≤ frames (recvChain P F L nAck f pni data resp w).1 ∧
      frames (recvChain P F L nAck f pni data resp w).1 ≤
        frames w + (65539 - (resp.length - (data.length - 1))) * loopFrames L nAck := by
  intro f
  induction f with
  | zero => intro pni data resp w _ _ _ h; omega
  | succ f ih =>
    intro pni data resp w hne hlen hp hf
    unfold recvChain
    cases data with
    | nil => exact absurd rfl hne
    | cons a inf =>
      simp only [List.length_cons, Nat.add_sub_cancel] at hlen hf ⊢
      split
      · simp only; exact ⟨trivial, hp, by omega, by omega⟩
      · split
        · simp only; exact ⟨Or.inr (Or.inr rfl), hp, by omega, by omega⟩
        · rename_i hpass
          have hinf : inf ≠ [] := fun h => hpass (Or.inl h)
          have hinf1 : 1 ≤ inf.length := by
            cases inf with
            | nil => exact absurd rfl hinf
            | cons x y => simp
          have hresp : resp.length ≤ 65538 := by
            apply Nat.le_of_not_gt; intro h; exact hpass (Or.inr h)
          have hb := blockLoop_spec P F L hF nAck none [0xA2 ||| pni] [0xA2 ||| pni] F 1 [0xA2 ||| pni] w
            (by have := (roundsMax_ge nAck).1; omega) (by omega)
          rw [show roundsMax nAck + 1 - 1 = roundsMax nAck by omega] at hb
          generalize blockLoop P F L nAck none [0xA2 ||| pni] [0xA2 ||| pni] F 1 [0xA2 ||| pni] w = r1 at hb
          obtain ⟨w', r⟩ := r1
          simp only at hb ⊢
          unfold loopFrames
          generalize hQ : roundsMax nAck * (L + 1) = Q at *
          generalize hM : 65539 - (resp.length - inf.length) = M at *
          have hM2 : 65539 - resp.length + 1 ≤ M := by omega
          have hmul : (65539 - resp.length) * Q + Q ≤ M * Q := by
            have := Nat.mul_le_mul_right Q hM2
            rw [Nat.add_mul, Nat.one_mul] at this
            exact this
          have hQM : Q ≤ M * Q := Nat.le_mul_of_pos_left Q (by omega)
          cases r with
          | error e =>
            simp only
            exact ⟨hb.1, hp, by omega, by omega⟩
          | ok d =>
            cases d with
            | nil => exact absurd rfl hb.1
            | cons b t =>
              simp only
              split
              · simp only; exact ⟨Or.inr (Or.inr rfl), hp, by omega, by omega⟩
              · have := ih ((pni + 1) % 2) (b :: t) (resp ++ t) w' (by simp)
                  (by simp only [List.length_cons, Nat.add_sub_cancel, List.length_append]; omega) (by omega)
                  (by simp only [List.length_cons, Nat.add_sub_cancel, List.length_append]; omega)
                simp only [List.length_cons, Nat.add_sub_cancel, List.length_append] at this
                unfold loopFrames at this
                rw [hQ] at this
                exact ⟨this.1, this.2.1, by omega, by omega⟩

theorem chunksAux_len (m : Nat) (hm : 1 ≤ m) : ∀ (f : Nat) (l : Bytes), l.length ≤ f → l ≠ [] →
    chunksAux m f l ≠ [] ∧ (chunksAux m f l).length ≤ l.length := by
  intro f
  induction f with
  | zero =>
    intro l hl hne
    cases l with
    | nil => exact absurd rfl hne
    | cons a t => simp at hl
  | succ f ih =>
    intro l hl hne
    unfold chunksAux
    split
    · refine ⟨by simp, ?_⟩
      cases l with
      | nil => exact absurd rfl hne
      | cons a t => simp
    · rename_i h
      have hd : (l.drop m).length ≤ f := by simp; omega
      have hdn : l.drop m ≠ [] := by
        intro h0; have := congrArg List.length h0; simp at this; omega
      have := ih (l.drop m) hd hdn
      refine ⟨by simp, ?_⟩
      simp only [List.length_cons]
      have h2 := this.2
      simp only [List.length_drop] at h2
      omega

theorem chunks_len (m : Nat) (hm : 1 ≤ m) (l : Bytes) (hne : l ≠ []) :
    chunks m l ≠ [] ∧ (chunks m l).length ≤ l.length := by
  unfold chunks
  rw [if_neg hne]
  exact chunksAux_len m hm l.length l (Nat.le_refl _) hne

theorem fuelNeed_le {pcd : Pcd} {F : Nat} (h : fuelNeed pcd ≤ F) :
    pcd.wlim < F ∧ roundsMax pcd.nNak ≤ F ∧ roundsMax pcd.nAck ≤ F ∧ 65540 ≤ F := by
  unfold fuelNeed at h
  omega

/-- one command: a response or a `Type4TagCommandError`, at most `exchFrames` frames -/
theorem exchangeCmd_spec {σ} (P : Peer σ) (F : Nat) (pcd : Pcd) (hF : fuelNeed pcd ≤ F)
    (hm : 0 < pcd.miu) (hp : pcd.pni < 2) (cmd : Bytes) (hc : cmd ≠ []) (w : World σ) :
    CmdRes (exchangeCmd P F pcd cmd w).2.2 ∧ (exchangeCmd P F pcd cmd w).2.1.pni < 2 ∧
    frames w ≤ frames (exchangeCmd P F pcd cmd w).1 ∧
    frames (exchangeCmd P F pcd cmd w).1 ≤ frames w + exchFrames pcd cmd.length := by
  obtain ⟨fW, fN, fA, fC⟩ := fuelNeed_le hF
  unfold exchangeCmd
  rw [if_neg (by omega), if_neg (by intro h; rcases h with h | h; omega; exact hc h)]
  have hch := chunks_len pcd.miu.toNat (by omega) cmd hc
  have hs := sendChunks_spec P F pcd.wlim fW pcd.nNak fN (chunks pcd.miu.toNat cmd) pcd.pni w hch.1 hp
  generalize sendChunks P F pcd.wlim pcd.nNak (chunks pcd.miu.toNat cmd) pcd.pni w = r1 at hs
  obtain ⟨w1, pni1, r⟩ := r1
  simp only at hs ⊢
  unfold exchFrames
  have hmul : (chunks pcd.miu.toNat cmd).length * loopFrames pcd.wlim pcd.nNak ≤ cmd.length * loopFrames pcd.wlim pcd.nNak :=
    Nat.mul_le_mul_right _ hch.2
  generalize (chunks pcd.miu.toNat cmd).length * loopFrames pcd.wlim pcd.nNak = X at *
  generalize cmd.length * loopFrames pcd.wlim pcd.nNak = Y at *
  cases r with
  | error e =>
    simp only
    exact ⟨hs.1, hs.2.1, by omega, by omega⟩
  | ok d =>
    simp only
    have hd : d ≠ [] := hs.1
    have hr := recvChain_spec P F pcd.wlim fW pcd.nAck fA F pni1 d (d.drop 1) w1 hd
      (by simp) hs.2.1 (by simp only [List.length_drop]; omega)
    simp only [List.length_drop, Nat.sub_self, Nat.sub_zero] at hr
    generalize recvChain P F pcd.wlim pcd.nAck F pni1 d (d.drop 1) w1 = r2 at hr
    obtain ⟨w2, pni2, r2'⟩ := r2
    simp only at hr ⊢
    exact ⟨hr.1, hr.2.1, by omega, by omega⟩

/-- `_exchange_command` never touches the error flag, the frame size, the budgets or the S(WTX) limit -/
theorem exchangeCmd_static {σ} (P : Peer σ) (F : Nat) (pcd : Pcd) (cmd : Bytes) (w : World σ) :
    (exchangeCmd P F pcd cmd w).2.1.failed = pcd.failed ∧ (exchangeCmd P F pcd cmd w).2.1.miu = pcd.miu ∧
    (exchangeCmd P F pcd cmd w).2.1.nNak = pcd.nNak ∧ (exchangeCmd P F pcd cmd w).2.1.nAck = pcd.nAck ∧
    (exchangeCmd P F pcd cmd w).2.1.wlim = pcd.wlim := by
  unfold exchangeCmd
  split
  · exact ⟨rfl, rfl, rfl, rfl, rfl⟩
  · split
    · exact ⟨rfl, rfl, rfl, rfl, rfl⟩
    · simp only
      split <;> exact ⟨rfl, rfl, rfl, rfl, rfl⟩

theorem exchangeCmd_failed {σ} (P : Peer σ) (F : Nat) (pcd : Pcd) (cmd : Bytes) (w : World σ) :
    (exchangeCmd P F pcd cmd w).2.1.failed = pcd.failed := (exchangeCmd_static P F pcd cmd w).1

/-- the wrapper `exchange` returns what `_exchange_command` returns (it only records the error) -/
theorem exchange_unfailed {σ} (P : Peer σ) (F : Nat) (pcd : Pcd) (cmd : Bytes) (w : World σ) (h : pcd.failed = none) :
    (exchange P F pcd cmd w).2.2 = (exchangeCmd P F pcd cmd w).2.2 ∧
    (exchange P F pcd cmd w).1 = (exchangeCmd P F pcd cmd w).1 ∧
    (exchange P F pcd cmd w).2.1.pni = (exchangeCmd P F pcd cmd w).2.1.pni := by
  unfold exchange
  simp only [h]
  generalize exchangeCmd P F pcd cmd w = r
  obtain ⟨w1, p1, res⟩ := r
  cases res with
  | ok x => exact ⟨rfl, rfl, rfl⟩
  | error e => cases e <;> exact ⟨rfl, rfl, rfl⟩


/-- `IsoDepInitiator.exchange` with the three repairs, against EVERY card and for every command (also the empty
string): no fuel is used up, at most `exchFrames` frames, the block number stays a block number, what activation
fixed (MIU, retry counts, S(WTX) limit) stays; for a command APDU (non-empty, MIU positive) the outcome is a
response or a `Type4TagCommandError` with one of the three documented reasons -/
theorem exchange_spec {σ} (P : Peer σ) (F : Nat) (pcd : Pcd) (hF : fuelNeed pcd ≤ F) (hp : pcd.pni < 2)
    (cmd : Bytes) (w : World σ) :
    (exchange P F pcd cmd w).2.2 ≠ .error .outOfFuel ∧ (exchange P F pcd cmd w).2.1.pni < 2 ∧
    frames w ≤ frames (exchange P F pcd cmd w).1 ∧
    frames (exchange P F pcd cmd w).1 ≤ frames w + exchFrames pcd cmd.length ∧
    ((exchange P F pcd cmd w).2.1.miu = pcd.miu ∧ (exchange P F pcd cmd w).2.1.nNak = pcd.nNak ∧
     (exchange P F pcd cmd w).2.1.nAck = pcd.nAck ∧ (exchange P F pcd cmd w).2.1.wlim = pcd.wlim) ∧
    (0 < pcd.miu → cmd ≠ [] → (∀ e, pcd.failed = some e → Err3 (.tagCmd e)) → CmdRes (exchange P F pcd cmd w).2.2) := by
  unfold exchange
  cases hf : pcd.failed with
  | some e =>
    simp only
    exact ⟨by simp, hp, by omega, by omega, by simp, fun _ _ h => h e rfl⟩
  | none =>
    simp only
    have hst := exchangeCmd_static P F pcd cmd w
    by_cases hcase : 0 < pcd.miu ∧ cmd ≠ []
    · have he := exchangeCmd_spec P F pcd hF hcase.1 hp cmd hcase.2 w
      generalize exchangeCmd P F pcd cmd w = r at he hst
      obtain ⟨w', pcd', r⟩ := r
      simp only at he hst ⊢
      cases r with
      | ok d => exact ⟨by simp, he.2.1, he.2.2.1, he.2.2.2, ⟨hst.2.1, hst.2.2.1, hst.2.2.2.1, hst.2.2.2.2⟩, fun _ _ _ => trivial⟩
      | error e =>
        rcases he.1 with rfl | rfl | rfl <;>
          exact ⟨by simp, he.2.1, he.2.2.1, he.2.2.2, ⟨hst.2.1, hst.2.2.1, hst.2.2.2.1, hst.2.2.2.2⟩, fun _ _ _ => by simp [CmdRes, Err3]⟩
    · have hun : exchangeCmd P F pcd cmd w = (w, pcd, .error .value) ∨
          exchangeCmd P F pcd cmd w = (w, pcd, .error .unbound) := by
        unfold exchangeCmd
        by_cases h0 : pcd.miu = 0
        · left; simp [h0]
        · right
          have : pcd.miu < 0 ∨ cmd = [] := by
            by_cases hc : cmd = []
            · exact Or.inr hc
            · left
              have : ¬ 0 < pcd.miu := fun h => hcase ⟨h, hc⟩
              omega
          simp [h0, this]
      rcases hun with hun | hun <;> rw [hun] <;> simp only <;>
        exact ⟨by simp, hp, by omega, by omega, by simp, fun h1 h2 _ => absurd ⟨h1, h2⟩ hcase⟩

/-- the block number stays a block number, whatever happens (also when the model's fuel is used up) -/
theorem sendChunks_pni_lt {σ} (P : Peer σ) (F L nNak : Nat) :
    ∀ (cs : List Bytes) (pni : Nat) (w : World σ), pni < 2 → (sendChunks P F L nNak cs pni w).2.1 < 2 := by
  intro cs
  induction cs with
  | nil => intro pni w hp; exact hp
  | cons c rest ih =>
    intro pni w hp
    unfold sendChunks
    simp only
    generalize blockLoop _ _ _ _ _ _ _ _ _ _ _ = r
    obtain ⟨w', res⟩ := r
    cases res with
    | error e => exact hp
    | ok d =>
      cases d with
      | nil => exact hp
      | cons a t =>
        simp only
        split
        · exact hp
        · split
          · split
            · exact ih _ _ (by omega)
            · exact hp
          · split
            · simp only; omega
            · exact hp

theorem recvChain_pni_lt {σ} (P : Peer σ) (F L nAck : Nat) :
    ∀ (f pni : Nat) (data resp : Bytes) (w : World σ), pni < 2 → (recvChain P F L nAck f pni data resp w).2.1 < 2 := by
  intro f
  induction f with
  | zero => intro pni data resp w hp; exact hp
  | succ f ih =>
    intro pni data resp w hp
    unfold recvChain
    cases data with
    | nil => exact hp
    | cons a inf =>
      simp only
      split
      · exact hp
      · split
        · exact hp
        · generalize blockLoop _ _ _ _ _ _ _ _ _ _ _ = r
          obtain ⟨w', res⟩ := r
          cases res with
          | error e => exact hp
          | ok d =>
            cases d with
            | nil => exact hp
            | cons b t =>
              simp only
              split
              · exact hp
              · exact ih _ _ _ _ (by omega)

theorem exchange_pni_lt {σ} (P : Peer σ) (F : Nat) (pcd : Pcd) (cmd : Bytes) (w : World σ) (hp : pcd.pni < 2) :
    (exchange P F pcd cmd w).2.1.pni < 2 := by
  have hcmd : (exchangeCmd P F pcd cmd w).2.1.pni < 2 := by
    unfold exchangeCmd
    split
    · exact hp
    · split
      · exact hp
      · have h1 := sendChunks_pni_lt P F pcd.wlim pcd.nNak (chunks pcd.miu.toNat cmd) pcd.pni w hp
        generalize sendChunks _ _ _ _ _ _ _ = r at h1
        obtain ⟨w1, pni1, res⟩ := r
        cases res with
        | error e => exact h1
        | ok d => exact recvChain_pni_lt P F pcd.wlim pcd.nAck F pni1 d (d.drop 1) w1 h1
  unfold exchange
  cases pcd.failed with
  | some e => exact hp
  | none =>
    simp only
    generalize exchangeCmd P F pcd cmd w = r at hcmd
    obtain ⟨w', pcd', res⟩ := r
    cases res with
    | ok d => exact hcmd
    | error e => cases e <;> exact hcmd

/-- one `clf.exchange` appends exactly the block to the trace; the card is left alone or has reacted to the block -/
theorem xchg_trace {σ} (P : Peer σ) (w : World σ) (out : Bytes) : (w.xchg P out).1.trace = w.trace ++ [out] := by
  unfold World.xchg
  simp only
  split
  · rfl
  · split <;> rfl

theorem xchg_card {σ} (P : Peer σ) (w : World σ) (out : Bytes) :
    (w.xchg P out).1.card = w.card ∨ (w.xchg P out).1.card = (P.rx w.card out).1 := by
  unfold World.xchg
  simp only
  split
  · left; rfl
  · right; split <;> rfl

/-- the presence check is one `clf.exchange` of R(NAK) -/
theorem presence_world {σ} (P : Peer σ) (pcd : Pcd) (w : World σ) :
    (presence P pcd w).1 = (w.xchg P [0xB2 ||| pcd.pni]).1 := by
  unfold presence
  simp only
  generalize w.xchg P [0xB2 ||| pcd.pni] = r
  obtain ⟨w', rx⟩ := r
  cases rx <;> rfl

/-! ## block sizes, against every card -/

theorem xchgW_fits {σ} (P : Peer σ) (L : Nat) (Q : Bytes → Prop) (hW : ∀ b : Bytes, (wtxmOf b).isSome → Q b) : ∀ (f sum : Nat) (w : World σ) (out : Bytes),
    Q out → (∀ b ∈ w.trace, Q b) → ∀ b ∈ (xchgW P L f sum w out).1.trace, Q b := by
  intro f
  induction f with
  | zero => intro sum w out _ hq; exact hq
  | succ f ih =>
    intro sum w out ho hq
    have htr := xchg_trace P w out
    have hq1 : ∀ b ∈ (w.xchg P out).1.trace, Q b := by
      rw [htr]; intro b hb
      rcases List.mem_append.mp hb with hb | hb
      · exact hq b hb
      · simp at hb; subst hb; exact ho
    unfold xchgW
    generalize w.xchg P out = r1 at hq1
    obtain ⟨w', r⟩ := r1
    simp only at hq1 ⊢
    cases r with
    | data d =>
      simp only
      cases hm : wtxmOf d with
      | none => exact hq1
      | some k =>
        simp only
        split
        · exact hq1
        · split
          · exact hq1
          · exact ih _ w' d (hW d (by simp [hm])) hq1
    | timeout => exact hq1
    | transmission => exact hq1
    | protocol => exact hq1
    | fuel => exact hq1

theorem blockLoop_fits {σ} (P : Peer σ) (F L n : Nat) (Q : Bytes → Prop) (hW : ∀ b : Bytes, (wtxmOf b).isSome → Q b)
    (resend : Option Nat) (req rty : Bytes) (hreq : Q req) (hrty : Q rty) :
    ∀ (f i : Nat) (out : Bytes) (w : World σ), Q out → (∀ b ∈ w.trace, Q b) →
      ∀ b ∈ (blockLoop P F L n resend req rty f i out w).1.trace, Q b := by
  intro f
  induction f with
  | zero => intro i out w _ hq; exact hq
  | succ f ih =>
    intro i out w ho hq
    have hx := xchgW_fits P L Q hW F 0 w out ho hq
    unfold blockLoop
    generalize xchgW P L F 0 w out = r1 at hx
    obtain ⟨w', r⟩ := r1
    simp only at hx ⊢
    cases r with
    | data d =>
      cases d with
      | nil => simp only; split; exact ih _ _ _ hrty hx; exact hx
      | cons a t =>
        simp only
        split
        · split
          · exact hx
          · exact ih _ _ _ hreq hx
        · exact hx
    | timeout => simp only; split; exact ih _ _ _ hrty hx; exact hx
    | transmission => simp only; split; exact ih _ _ _ hrty hx; exact hx
    | protocol => exact hx
    | waited => exact hx
    | fuel => exact hx

theorem sendChunks_fits {σ} (P : Peer σ) (F L m nNak : Nat) (Q : Bytes → Prop) (hI : ∀ b : Bytes, b.length ≤ m + 1 → Q b)
    (hW : ∀ b : Bytes, (wtxmOf b).isSome → Q b) :
    ∀ (cs : List Bytes) (pni : Nat) (w : World σ), (∀ c ∈ cs, c.length ≤ m) → (∀ b ∈ w.trace, Q b) →
      ∀ b ∈ (sendChunks P F L nNak cs pni w).1.trace, Q b := by
  intro cs
  induction cs with
  | nil => intro pni w _ hq; exact hq
  | cons c rest ih =>
    intro pni w hcs hq
    have hc : c.length ≤ m := hcs c (by simp)
    unfold sendChunks
    simp only
    have hi : Q (((if (!rest.isEmpty) = true then 0x12 else 0x02) ||| pni) :: c) := hI _ (by simp; omega)
    have hb := blockLoop_fits P F L nNak Q hW (some (0xA2 ||| ((pni + 1) % 2))) _ [0xB2 ||| pni] hi (hI _ (by simp)) F 1 _ w hi hq
    generalize blockLoop _ _ _ _ _ _ _ _ _ _ _ = r at hb
    obtain ⟨w', res⟩ := r
    cases res with
    | error e => exact hb
    | ok d =>
      cases d with
      | nil => exact hb
      | cons a t =>
        simp only
        split
        · exact hb
        · split
          · split
            · exact ih _ _ (fun x hx => hcs x (List.mem_cons_of_mem _ hx)) hb
            · exact hb
          · split <;> exact hb

theorem recvChain_fits {σ} (P : Peer σ) (F L m nAck : Nat) (Q : Bytes → Prop) (hI : ∀ b : Bytes, b.length ≤ m + 1 → Q b)
    (hW : ∀ b : Bytes, (wtxmOf b).isSome → Q b) :
    ∀ (f pni : Nat) (data resp : Bytes) (w : World σ), (∀ b ∈ w.trace, Q b) →
      ∀ b ∈ (recvChain P F L nAck f pni data resp w).1.trace, Q b := by
  intro f
  induction f with
  | zero => intro pni data resp w hq; exact hq
  | succ f ih =>
    intro pni data resp w hq
    unfold recvChain
    cases data with
    | nil => exact hq
    | cons a inf =>
      simp only
      split
      · exact hq
      · split
        · exact hq
        · have hack : Q [0xA2 ||| pni] := hI _ (by simp)
          have hb := blockLoop_fits P F L nAck Q hW none _ _ hack hack F 1 _ w hack hq
          generalize blockLoop _ _ _ _ _ _ _ _ _ _ _ = r at hb
          obtain ⟨w', res⟩ := r
          cases res with
          | error e => exact hb
          | ok d =>
            cases d with
            | nil => exact hb
            | cons b t =>
              simp only
              split
              · exact hb
              · exact ih _ _ _ _ hb

/-- **every block, every card**: whatever the card does, a block handed to the reader during `exchange` is one the
initiator built itself - an I-block with at most MIU octets of the command, R(ACK), R(NAK): at most `MIU + 1 = FSC - 2`
octets - or the repetition of an S(WTX) request exactly as the card sent it -/
theorem exchange_fits {σ} (P : Peer σ) (F : Nat) (pcd : Pcd) (cmd : Bytes) (w : World σ) (m : Nat)
    (hm : pcd.miu = (m : Int)) (Q : Bytes → Prop) (hI : ∀ b : Bytes, b.length ≤ m + 1 → Q b)
    (hW : ∀ b : Bytes, (wtxmOf b).isSome → Q b) (hq : ∀ b ∈ w.trace, Q b) :
    ∀ b ∈ (exchange P F pcd cmd w).1.trace, Q b := by
  have hcmd : ∀ b ∈ (exchangeCmd P F pcd cmd w).1.trace, Q b := by
    unfold exchangeCmd
    split
    · exact hq
    · split
      · exact hq
      · rename_i h0 h1
        have hmt : pcd.miu.toNat = m := by omega
        have hc : cmd ≠ [] := fun h => h1 (Or.inr h)
        have hm1 : 1 ≤ m := by omega
        have hlen : ∀ c ∈ chunks m cmd, c.length ≤ m := by
          unfold chunks
          rw [if_neg hc]
          have aux : ∀ (f : Nat) (l : Bytes), ∀ c ∈ chunksAux m f l, c.length ≤ m := by
            intro f
            induction f with
            | zero => intro l c hc'; simp [chunksAux] at hc'
            | succ f ih =>
              intro l c hc'
              unfold chunksAux at hc'
              split at hc'
              · simp at hc'; subst hc'; assumption
              · rcases List.mem_cons.mp hc' with rfl | h
                · simp; omega
                · exact ih _ c h
          exact aux _ _
        rw [hmt]
        have h1' := sendChunks_fits P F pcd.wlim m pcd.nNak Q hI hW (chunks m cmd) pcd.pni w hlen hq
        generalize sendChunks _ _ _ _ _ _ _ = r at h1'
        obtain ⟨w1, pni1, res⟩ := r
        cases res with
        | error e => exact h1'
        | ok d => exact recvChain_fits P F pcd.wlim m pcd.nAck Q hI hW F pni1 d (d.drop 1) w1 h1'
  unfold exchange
  cases pcd.failed with
  | some e => exact hq
  | none =>
    simp only
    generalize exchangeCmd P F pcd cmd w = r at hcmd
    obtain ⟨w', pcd', res⟩ := r
    cases res with
    | ok d => exact hcmd
    | error e => cases e <;> exact hcmd

end NfcVerif.IsoDep2
