import NfcVerif.Lemmas.T3
/-! Type 3 Tag: specification of `writeNdef` / `setOctets`, round trip, cut safety, confinement. -/
namespace NfcVerif.T3
open NfcVerif.T34

/-- well-formed Type 3 layout: valid attribute block `a` in block 0 of memory `m` -/
structure WF (m : Bytes) (a : Attr) : Prop where
  dec : decodeAttr (m.take 16) = .ok (some a)
  range : AttrRange a
  ver : a.ver / 16 = 1
  nbr : 1 ≤ a.nbr ∧ a.nbr ≤ 80
  nbw : 1 ≤ a.nbw
  fits : WriteFits a.nbw a.nmaxb
  rw : a.rwflag ≠ 0
  mem : 16 * (a.nmaxb + 1) ≤ m.length
  ln : a.ln ≤ 16 * a.nmaxb

theorem readNdef_spec (m : Bytes) (a : Attr) (hdec : decodeAttr (m.take 16) = .ok (some a)) (hver : a.ver / 16 = 1)
    (hnbr : 1 ≤ a.nbr ∧ a.nbr ≤ 80) (hmem : 16 * (1 + (a.ln + 15) / 16) ≤ m.length) (h65 : (a.ln + 15) / 16 < 65536) :
    readNdef m = .ok (some { attr := a, seen := { capacity := (a.nmaxb * 16 : Nat),
                                                  readable := decide (a.writef = 0 ∧ a.nbr > 0),
                                                  writeable := decide (a.rwflag ≠ 0 ∧ a.nbw > 0),
                                                  data := (sliceN m 16 (16 * (1 + (a.ln + 15) / 16))).take a.ln } }) := by
  unfold readNdef
  rw [readBlocks_ok m 0 1 (by omega) (by omega) (by omega)]
  simp only [Nat.mul_zero, Nat.zero_add, Nat.mul_one, sliceN_zero_take, hdec, Py.bind_ok]
  rw [if_neg (by omega), if_neg (by omega)]
  rw [readLoop_spec m a.nbr _ hnbr hmem (by omega) _ 1 [] (by omega) (by omega) (by omega)]
  simp

theorem splice0_take (m d : Bytes) (h : d.length ≤ m.length) : (splice m 0 d).take d.length = d := by
  have := sliceN_splice_same m 0 d (by omega)
  simpa [sliceN_zero_take] using this

theorem take_padded (data : Bytes) : (padded data).take data.length = data := by
  simp [padded]

/-- memory after a complete write -/
def finalMem (m : Bytes) (a : Attr) (data : Bytes) : Bytes :=
  splice (splice (splice m 0 (encodeAttr { a with writef := 0x0F })) 16 (padded data)) 0
    (encodeAttr { a with writef := 0, ln := data.length })

theorem writeNdef_spec (m data : Bytes) (a : Attr) (wf : WF m a) (hlen : data.length ≤ 16 * a.nmaxb) :
    writeNdef m data = ⟨planWrite a data, finalMem m a data, .ok ()⟩ := by
  have hnm := wf.range.nmaxb
  unfold writeNdef
  rw [readBlocks_ok m 0 1 (by omega) (by have := wf.mem; omega) (by omega)]
  simp only [Nat.mul_zero, Nat.zero_add, Nat.mul_one, sliceN_zero_take, wf.dec, Py.bind_ok]
  rw [if_neg (by have := wf.nbw; omega)]
  unfold planWrite
  simp only []
  have hmem := wf.mem
  have hs0 := sendW_ok m ⟨0, 1, encodeAttr { a with writef := 0x0F }⟩ a.nbw a.nmaxb
    (by simp only []; have := wf.nbw; omega) wf.fits hnm (by simp only []; omega) hmem (by simp [encodeAttr_length])
  have hl0 : (splice m 0 (encodeAttr { a with writef := 0x0F })).length = m.length :=
    splice_length _ _ _ (by rw [encodeAttr_length]; omega)
  have hr0 : runW m [⟨0, 1, encodeAttr { a with writef := 0x0F }⟩]
      = ⟨[⟨0, 1, encodeAttr { a with writef := 0x0F }⟩], splice m 0 (encodeAttr { a with writef := 0x0F }), .ok ()⟩ := by
    rw [runW_cons_ok _ hs0]; simp [runW]
  rw [List.append_assoc, runW_append_ok _ _ _ _ hr0]
  have hpl : (padded data).length = 16 * (1 + (data.length + 15) / 16 - 1) := by
    rw [padded_length]; congr 1; omega
  have hd := dataCmds_run (padded data) a.nbw (1 + (data.length + 15) / 16) a.nmaxb wf.nbw wf.fits hnm
    (by omega) hpl (1 + (data.length + 15) / 16) 1 (splice m 0 (encodeAttr { a with writef := 0x0F }))
    (by omega) (by omega) (by omega) (by rw [hl0]; exact hmem)
  simp only [Nat.sub_self, Nat.mul_zero, List.drop_zero, Nat.mul_one] at hd
  rw [runW_append_ok _ _ _ _ hd]
  have hl1 : (splice (splice m 0 (encodeAttr { a with writef := 0x0F })) 16 (padded data)).length = m.length := by
    rw [splice_length _ _ _ (by rw [hl0, padded_length]; omega), hl0]
  have hs2 := sendW_ok (splice (splice m 0 (encodeAttr { a with writef := 0x0F })) 16 (padded data))
    ⟨0, 1, encodeAttr { a with writef := 0, ln := data.length }⟩ a.nbw a.nmaxb
    (by simp only []; have := wf.nbw; omega) wf.fits hnm (by simp only []; omega) (by rw [hl1]; exact hmem)
    (by simp [encodeAttr_length])
  rw [runW_cons_ok _ hs2]
  simp [runW, finalMem]

theorem finalMem_length (m data : Bytes) (a : Attr) (hmem : 16 * (a.nmaxb + 1) ≤ m.length)
    (hlen : data.length ≤ 16 * a.nmaxb) : (finalMem m a data).length = m.length := by
  unfold finalMem
  have hl0 : (splice m 0 (encodeAttr { a with writef := 0x0F })).length = m.length :=
    splice_length _ _ _ (by rw [encodeAttr_length]; omega)
  have hl1 : (splice (splice m 0 (encodeAttr { a with writef := 0x0F })) 16 (padded data)).length = m.length := by
    rw [splice_length _ _ _ (by rw [hl0, padded_length]; omega), hl0]
  rw [splice_length _ _ _ (by rw [hl1, encodeAttr_length]; omega), hl1]

theorem finalMem_attr (m data : Bytes) (a : Attr) (hmem : 16 * (a.nmaxb + 1) ≤ m.length)
    (hlen : data.length ≤ 16 * a.nmaxb) :
    (finalMem m a data).take 16 = encodeAttr { a with writef := 0, ln := data.length } := by
  unfold finalMem
  have hl0 : (splice m 0 (encodeAttr { a with writef := 0x0F })).length = m.length :=
    splice_length _ _ _ (by rw [encodeAttr_length]; omega)
  have hl1 : (splice (splice m 0 (encodeAttr { a with writef := 0x0F })) 16 (padded data)).length = m.length := by
    rw [splice_length _ _ _ (by rw [hl0, padded_length]; omega), hl0]
  have := splice0_take (splice (splice m 0 (encodeAttr { a with writef := 0x0F })) 16 (padded data))
    (encodeAttr { a with writef := 0, ln := data.length }) (by rw [hl1, encodeAttr_length]; omega)
  rwa [encodeAttr_length] at this

theorem finalMem_data (m data : Bytes) (a : Attr) (hmem : 16 * (a.nmaxb + 1) ≤ m.length)
    (hlen : data.length ≤ 16 * a.nmaxb) :
    sliceN (finalMem m a data) 16 (16 * (1 + (data.length + 15) / 16)) = padded data := by
  unfold finalMem
  have hl0 : (splice m 0 (encodeAttr { a with writef := 0x0F })).length = m.length :=
    splice_length _ _ _ (by rw [encodeAttr_length]; omega)
  have hl1 : (splice (splice m 0 (encodeAttr { a with writef := 0x0F })) 16 (padded data)).length = m.length := by
    rw [splice_length _ _ _ (by rw [hl0, padded_length]; omega), hl0]
  have h1 := sliceN_splice_same (splice m 0 (encodeAttr { a with writef := 0x0F })) 16 (padded data)
    (by rw [hl0, padded_length]; omega)
  have e : 16 * (1 + (data.length + 15) / 16) = 16 + (padded data).length := by rw [padded_length]; omega
  rw [e]
  unfold sliceN at *
  rw [splice_drop_after _ 0 _ 16 (by rw [encodeAttr_length]; omega) (by rw [hl1, encodeAttr_length]; omega)]
  exact h1

theorem finalMem_beyond (m data : Bytes) (a : Attr) (hmem : 16 * (a.nmaxb + 1) ≤ m.length)
    (hlen : data.length ≤ 16 * a.nmaxb) :
    (finalMem m a data).drop (16 * (1 + (data.length + 15) / 16)) = m.drop (16 * (1 + (data.length + 15) / 16)) := by
  unfold finalMem
  have hl0 : (splice m 0 (encodeAttr { a with writef := 0x0F })).length = m.length :=
    splice_length _ _ _ (by rw [encodeAttr_length]; omega)
  have hl1 : (splice (splice m 0 (encodeAttr { a with writef := 0x0F })) 16 (padded data)).length = m.length := by
    rw [splice_length _ _ _ (by rw [hl0, padded_length]; omega), hl0]
  rw [splice_drop_after _ 0 _ _ (by rw [encodeAttr_length]; omega) (by rw [hl1, encodeAttr_length]; omega)]
  rw [splice_drop_after _ 16 _ _ (by rw [padded_length]; omega) (by rw [hl0, padded_length]; omega)]
  rw [splice_drop_after _ 0 _ _ (by rw [encodeAttr_length]; omega) (by rw [encodeAttr_length]; omega)]

theorem see_final (m data : Bytes) (a : Attr) (wf : WF m a) (hlen : data.length ≤ 16 * a.nmaxb) :
    see (finalMem m a data) = .ok (some ⟨(a.nmaxb * 16 : Nat), true, true, data⟩) := by
  have hr := wf.range
  have hdec : decodeAttr ((finalMem m a data).take 16) = .ok (some { a with writef := 0, ln := data.length }) := by
    rw [finalMem_attr m data a wf.mem hlen]
    exact decode_encode _ ⟨hr.ver, hr.nbr, hr.nbw, hr.nmaxb, by simp, hr.rwflag, by simp only []; have := hr.nmaxb; omega⟩
  unfold see
  rw [readNdef_spec _ _ hdec wf.ver wf.nbr
    (by simp only []; rw [finalMem_length m data a wf.mem hlen]; have := wf.mem; omega)
    (by simp only []; have := hr.nmaxb; omega)]
  simp only [Py.bind_ok, Option.map]
  rw [finalMem_data m data a wf.mem hlen, take_padded]
  have h1 := wf.rw; have h2 := wf.nbw; have h3 := wf.nbr
  simp [h1]; omega


theorem readNdef_old (m : Bytes) (a : Attr) (wf : WF m a) :
    readNdef m = .ok (some { attr := a, seen := { capacity := (a.nmaxb * 16 : Nat),
                                                  readable := decide (a.writef = 0 ∧ a.nbr > 0),
                                                  writeable := true,
                                                  data := (sliceN m 16 (16 * (1 + (a.ln + 15) / 16))).take a.ln } }) := by
  rw [readNdef_spec m a wf.dec wf.ver wf.nbr (by have := wf.mem; have := wf.ln; omega)
    (by have := wf.ln; have := wf.range.nmaxb; omega)]
  have h1 := wf.rw; have h2 := wf.nbw
  simp [h1]; omega

theorem setOctets_spec (m data : Bytes) (a : Attr) (wf : WF m a) (hlen : data.length ≤ 16 * a.nmaxb) :
    setOctets m data = .ok (some ⟨planWrite a data, finalMem m a data, .ok ()⟩) := by
  unfold setOctets
  rw [readNdef_old m a wf]
  simp only [Py.bind_ok]
  rw [if_neg (by simp), if_neg (by omega), writeNdef_spec m data a wf hlen]

theorem setOctets_oversize (m data : Bytes) (a : Attr) (wf : WF m a) (hlen : data.length > 16 * a.nmaxb) :
    setOctets m data = .ok (some ⟨[], m, .error .value⟩) := by
  unfold setOctets
  rw [readNdef_old m a wf]
  simp only [Py.bind_ok]
  rw [if_neg (by simp), if_pos (by omega)]

theorem applyW_pres : ∀ (cmds : List WCmd) (m : Bytes),
    (∀ c ∈ cmds, 1 ≤ c.blk ∧ 16 * c.blk + c.data.length ≤ m.length) →
    (applyW m cmds).take 16 = m.take 16 ∧ (applyW m cmds).length = m.length := by
  intro cmds
  induction cmds with
  | nil => intro m _; simp [applyW]
  | cons c cs ih =>
    intro m h
    have hc := h c (by simp)
    have hl : (splice m (16 * c.blk) c.data).length = m.length := splice_length _ _ _ hc.2
    have := ih (splice m (16 * c.blk) c.data) (by
      intro c' hc'; rw [hl]; exact h c' (by simp [hc']))
    simp only [applyW, List.foldl_cons] at *
    rw [this.1, this.2, hl, splice_take_before _ _ _ 16 (by omega) hc.2]
    simp

theorem planWrite_length (a : Attr) (data : Bytes) :
    (planWrite a data).length
      = (dataCmds (padded data) a.nbw (1 + (data.length + 15) / 16) (1 + (data.length + 15) / 16) 1).length + 2 := by
  simp [planWrite]

/-- C02 for Type 3: whatever prefix of the write commands the tag executed, a fresh reader sees the
old message, a not-readable area, or the new message -/
theorem cut_safe (m data : Bytes) (a : Attr) (wf : WF m a) (hlen : data.length ≤ 16 * a.nmaxb)
    (sOld : Seen) (hold : see m = .ok (some sOld)) (k : Nat) (hk : k ≤ (planWrite a data).length) :
    ∃ r, see (applyW m ((planWrite a data).take k)) = .ok r ∧ Outcome sOld.data data r := by
  have hpl := planWrite_length a data
  generalize hD : dataCmds (padded data) a.nbw (1 + (data.length + 15) / 16) (1 + (data.length + 15) / 16) 1 = D at hpl
  have hplan : planWrite a data = ⟨0, 1, encodeAttr { a with writef := 0x0F }⟩ ::
      (D ++ [⟨0, 1, encodeAttr { a with writef := 0, ln := data.length }⟩]) := by
    simp [planWrite, hD]
  by_cases h0 : k = 0
  · subst h0
    refine ⟨some sOld, by simpa [applyW] using hold, ?_⟩
    simp [Outcome]
  by_cases hfull : k = (planWrite a data).length
  · subst hfull
    rw [List.take_length]
    have hs := setOctets_spec m data a wf hlen
    have hw := writeNdef_spec m data a wf hlen
    have hr : runW m (planWrite a data) = ⟨planWrite a data, finalMem m a data, .ok ()⟩ := by
      unfold writeNdef at hw
      rw [readBlocks_ok m 0 1 (by omega) (by have := wf.mem; omega) (by omega)] at hw
      simp only [Nat.mul_zero, Nat.zero_add, Nat.mul_one, sliceN_zero_take, wf.dec, Py.bind_ok] at hw
      rw [if_neg (by have := wf.nbw; omega)] at hw
      exact hw
    rw [runW_mem_applyW _ _ _ hr, see_final m data a wf hlen]
    exact ⟨_, rfl, by simp [Outcome]⟩
  · -- 0 < k < total: block 0 carries WriteF = 0Fh
    have hk1 : 1 ≤ k ∧ k - 1 ≤ D.length := by omega
    have htake : (planWrite a data).take k = ⟨0, 1, encodeAttr { a with writef := 0x0F }⟩ :: D.take (k - 1) := by
      rw [hplan]
      obtain ⟨k', rfl⟩ : ∃ k', k = k' + 1 := ⟨k - 1, by omega⟩
      simp only [List.take_succ_cons, Nat.add_sub_cancel]
      rw [List.take_append_of_le_length (by omega)]
    rw [htake]
    simp only [applyW, List.foldl_cons, Nat.mul_zero]
    have hmem := wf.mem
    have hl0 : (splice m 0 (encodeAttr { a with writef := 0x0F })).length = m.length :=
      splice_length _ _ _ (by rw [encodeAttr_length]; omega)
    have hpd : (padded data).length = 16 * (1 + (data.length + 15) / 16 - 1) := by
      rw [padded_length]; congr 1; omega
    have hpres := applyW_pres (D.take (k - 1)) (splice m 0 (encodeAttr { a with writef := 0x0F })) (by
      intro c hc
      have hc' := List.mem_of_mem_take hc
      rw [← hD] at hc'
      have := dataCmds_mem (padded data) a.nbw _ wf.nbw hpd _ 1 (by omega) c hc'
      rw [hl0]; omega)
    simp only [applyW] at hpres
    have hr := wf.range
    have hdec : decodeAttr ((List.foldl (fun m c => splice m (16 * c.blk) c.data)
        (splice m 0 (encodeAttr { a with writef := 0x0F })) (D.take (k - 1))).take 16)
        = .ok (some { a with writef := 0x0F }) := by
      rw [hpres.1]
      have := splice0_take m (encodeAttr { a with writef := 0x0F }) (by rw [encodeAttr_length]; omega)
      rw [encodeAttr_length] at this
      rw [this]
      exact decode_encode _ ⟨hr.ver, hr.nbr, hr.nbw, hr.nmaxb, by simp, hr.rwflag, hr.ln⟩
    unfold see
    rw [readNdef_spec _ _ hdec wf.ver wf.nbr (by simp only []; rw [hpres.2, hl0]; have := wf.ln; omega)
      (by simp only []; have := wf.ln; have := hr.nmaxb; omega)]
    refine ⟨_, rfl, ?_⟩
    simp [Outcome]

/-- C03 for Type 3 -/
theorem write_confined (m data : Bytes) (a : Attr) (wf : WF m a) (hlen : data.length ≤ 16 * a.nmaxb) :
    (∀ c ∈ planWrite a data, c.blk + c.n ≤ 1 + (data.length + 15) / 16 ∧ c.blk + c.n ≤ a.nmaxb + 1
        ∧ c.data.length = 16 * c.n) ∧
    (finalMem m a data).drop (16 * (1 + (data.length + 15) / 16)) = m.drop (16 * (1 + (data.length + 15) / 16)) ∧
    (finalMem m a data).length = m.length ∧
    decodeAttr ((finalMem m a data).take 16) = .ok (some { a with writef := 0, ln := data.length }) := by
  refine ⟨?_, finalMem_beyond m data a wf.mem hlen, finalMem_length m data a wf.mem hlen, ?_⟩
  · intro c hc
    simp only [planWrite, List.mem_append, List.mem_singleton, List.mem_cons, List.not_mem_nil, or_false] at hc
    have hpd : (padded data).length = 16 * (1 + (data.length + 15) / 16 - 1) := by
      rw [padded_length]; congr 1; omega
    rcases hc with (hc | hc) | hc
    · subst hc; simp [encodeAttr_length]
    · have := dataCmds_mem (padded data) a.nbw _ wf.nbw hpd _ 1 (by omega) c hc
      omega
    · subst hc; simp [encodeAttr_length]
  · have hr := wf.range
    rw [finalMem_attr m data a wf.mem hlen]
    exact decode_encode _ ⟨hr.ver, hr.nbr, hr.nbw, hr.nmaxb, by simp, hr.rwflag, by simp only []; have := hr.nmaxb; omega⟩

/-- every write command carries at most Nbw blocks -/
theorem batches_within_nbw (a : Attr) (data : Bytes) (hnbw : 1 ≤ a.nbw) : ∀ c ∈ planWrite a data, c.n ≤ a.nbw := by
  intro c hc
  simp only [planWrite, List.mem_append, List.mem_singleton, List.mem_cons, List.not_mem_nil, or_false] at hc
  have hpd : (padded data).length = 16 * (1 + (data.length + 15) / 16 - 1) := by
    rw [padded_length]; congr 1; omega
  rcases hc with (hc | hc) | hc
  · subst hc; simpa using hnbw
  · have := dataCmds_mem (padded data) a.nbw _ hnbw hpd _ 1 (by omega) c hc
    omega
  · subst hc; simpa using hnbw

end NfcVerif.T3
