import NfcVerif.Lemmas.Tlv
namespace NfcVerif.Tlv
open NfcVerif

/-! ### the tag's view: `writeAt`, `apply`, `diffUnits` -/
theorem writeAt_length (m : Bytes) (a : Nat) (ds : Bytes) : (writeAt m a ds).length = m.length := by
  induction ds generalizing m a with
  | nil => rfl
  | cons d ds ih => simp [writeAt, ih]

theorem writeAt_get (m : Bytes) (a : Nat) (ds : Bytes) (x : Nat) :
    (writeAt m a ds)[x]? = if a ≤ x ∧ x < a + ds.length ∧ x < m.length then ds[x - a]? else m[x]? := by
  induction ds generalizing m a with
  | nil => simp only [writeAt, List.length_nil]; rw [if_neg (by omega)]
  | cons d ds ih =>
    simp only [writeAt, ih, List.length_cons, List.length_set]
    by_cases hxa : x = a
    · subst hxa
      rw [if_neg (by omega)]
      by_cases hl : x < m.length
      · rw [if_pos ⟨Nat.le_refl _, by omega, hl⟩]; simp [hl]
      · rw [if_neg (by omega)]
        have e1 : m[x]? = none := List.getElem?_eq_none (by omega)
        rw [e1]; simp [hl]
    · rw [get_set_ne m a d x (fun h => hxa h.symm)]
      by_cases h1 : a + 1 ≤ x ∧ x < a + 1 + ds.length ∧ x < m.length
      · rw [if_pos h1, if_pos ⟨by omega, by omega, h1.2.2⟩]
        have : x - a = (x - (a + 1)) + 1 := by omega
        rw [this]; simp
      · rw [if_neg h1, if_neg (by omega)]

theorem sliceN_get (m : Bytes) (a u k : Nat) : (sliceN m a (a + u))[k]? = if k < u then m[a + k]? else none := by
  unfold sliceN
  have : a + u - a = u := by omega
  rw [this, List.getElem?_take]
  split <;> simp [List.getElem?_drop]

theorem sliceN_length_le (m : Bytes) (a u : Nat) : (sliceN m a (a + u)).length ≤ u := by
  unfold sliceN; simp; omega

theorem sliceN_eq_of (m m' : Bytes) (a u : Nat) (h : ∀ k, k < u → m[a + k]? = m'[a + k]?) :
    sliceN m a (a + u) = sliceN m' a (a + u) := by
  apply List.ext_getElem?
  intro k
  rw [sliceN_get, sliceN_get]
  split
  · rename_i hk; exact h k hk
  · rfl

theorem sliceN_ne (m m' : Bytes) (a u : Nat) (h : sliceN m a (a + u) ≠ sliceN m' a (a + u)) :
    ∃ k, k < u ∧ m[a + k]? ≠ m'[a + k]? := by
  apply Classical.byContradiction
  intro hn
  apply h
  apply sliceN_eq_of
  intro k hk
  apply Classical.byContradiction
  intro hne
  exact hn ⟨k, hk, hne⟩

/-- writing a unit of `m'` onto any image: inside the unit the image takes the value of `m'` -/
theorem writeAt_slice_get (img m' : Bytes) (a u x : Nat) (hl : img.length = m'.length) :
    (writeAt img a (sliceN m' a (a + u)))[x]? = if a ≤ x ∧ x < a + u then m'[x]? else img[x]? := by
  rw [writeAt_get]
  by_cases h : a ≤ x ∧ x < a + u
  · rw [if_pos h]
    by_cases hx : x < img.length
    · have hsl : (sliceN m' a (a + u)).length = min u (m'.length - a) := by
        unfold sliceN; simp
      have hlen : x < a + (sliceN m' a (a + u)).length := by rw [hsl]; omega
      rw [if_pos ⟨h.1, hlen, hx⟩, sliceN_get, if_pos (by omega)]
      congr 1; omega
    · rw [if_neg (by omega)]
      have e1 : img[x]? = none := List.getElem?_eq_none (by omega)
      have e2 : m'[x]? = none := List.getElem?_eq_none (by omega)
      rw [e1, e2]
  · have := sliceN_length_le m' a u
    rw [if_neg h, if_neg (by omega)]

/-- every byte of the image comes from `m` or from `m'` -/
def Mix (m m' img : Bytes) : Prop := img.length = m.length ∧ ∀ x : Nat, img[x]? = m[x]? ∨ img[x]? = m'[x]?

/-- a command that carries a unit of `m'` -/
def UnitOf (u : Nat) (m' : Bytes) (c : Cmd) : Prop := ∃ i, c = (i * u, sliceN m' (i * u) (i * u + u))

theorem apply_mix (u : Nat) (m m' : Bytes) (hl : m.length = m'.length) (cmds : List Cmd)
    (hc : ∀ c ∈ cmds, UnitOf u m' c) (img : Bytes) (hi : Mix m m' img) : Mix m m' (apply img cmds) := by
  induction cmds generalizing img with
  | nil => exact hi
  | cons c cs ih =>
    simp only [apply, List.foldl_cons]
    apply ih (fun c hc' => hc c (List.mem_cons_of_mem _ hc'))
    obtain ⟨i, rfl⟩ := hc c List.mem_cons_self
    refine ⟨by rw [writeAt_length]; exact hi.1, fun x => ?_⟩
    have hw := writeAt_slice_get img m' (i * u) u x (hi.1.trans hl)
    rw [hw]
    split
    · exact Or.inr rfl
    · exact hi.2 x

theorem mem_diffUnits (u : Nat) (m m' : Bytes) (c : Cmd) (h : c ∈ diffUnits u m m') :
    ∃ i, c = (i * u, sliceN m' (i * u) (i * u + u)) ∧ sliceN m (i * u) (i * u + u) ≠ sliceN m' (i * u) (i * u + u) := by
  unfold diffUnits at h
  rw [List.mem_filterMap] at h
  obtain ⟨i, _, hi⟩ := h
  split at hi
  · rename_i hne; cases hi; exact ⟨i, rfl, hne⟩
  · cases hi

theorem diffUnits_unitOf (u : Nat) (m m' : Bytes) : ∀ c ∈ diffUnits u m m', UnitOf u m' c := by
  intro c hc; obtain ⟨i, h, _⟩ := mem_diffUnits u m m' c hc; exact ⟨i, h⟩

/-- **prefix mixture**: after any prefix of the write-back every byte is old or new -/
theorem prefix_mix (u : Nat) (m m' : Bytes) (hl : m.length = m'.length) (k : Nat) :
    Mix m m' (apply m ((diffUnits u m m').take k)) :=
  apply_mix u m m' hl _ (fun c hc => diffUnits_unitOf u m m' c (List.mem_of_mem_take hc)) m ⟨rfl, fun _ => Or.inl rfl⟩

theorem apply_append (m : Bytes) (a b : List Cmd) : apply m (a ++ b) = apply (apply m a) b := by
  simp [apply, List.foldl_append]

/-- after the first `j` units have been handled the image is `m'` below `j*u` and `m` above -/
theorem apply_diff_prefix (u : Nat) (hu : 0 < u) (m m' : Bytes) (hl : m.length = m'.length) (j : Nat) :
    let img := apply m ((List.range j).filterMap fun i =>
      if sliceN m (i * u) (i * u + u) ≠ sliceN m' (i * u) (i * u + u)
      then some (i * u, sliceN m' (i * u) (i * u + u)) else none)
    img.length = m.length ∧ ∀ x, img[x]? = if x < j * u then m'[x]? else m[x]? := by
  induction j with
  | zero => simp [apply]
  | succ j ih =>
    simp only [List.range_succ, List.filterMap_append, apply_append]
    obtain ⟨il, ig⟩ := ih
    have hju : (j + 1) * u = j * u + u := by rw [Nat.succ_mul]
    by_cases hne : sliceN m (j * u) (j * u + u) ≠ sliceN m' (j * u) (j * u + u)
    · simp only [List.filterMap_cons, List.filterMap_nil, if_pos hne, apply, List.foldl_cons, List.foldl_nil]
      refine ⟨by rw [writeAt_length]; exact il, fun x => ?_⟩
      have hw := writeAt_slice_get _ m' (j * u) u x (il.trans hl)
      simp only [apply] at hw ig
      rw [hw, ig x, hju]
      by_cases h1 : x < j * u
      · rw [if_neg (by omega), if_pos h1, if_pos (by omega)]
      · by_cases h2 : x < j * u + u
        · rw [if_pos ⟨by omega, h2⟩, if_pos h2]
        · rw [if_neg (by omega), if_neg h1, if_neg h2]
    · simp only [List.filterMap_cons, List.filterMap_nil, if_neg hne, apply, List.foldl_nil]
      have heq : sliceN m (j * u) (j * u + u) = sliceN m' (j * u) (j * u + u) := by
        simpa using hne
      simp only [apply] at il ig
      refine ⟨il, fun x => ?_⟩
      rw [ig x, hju]
      by_cases h1 : x < j * u
      · rw [if_pos h1, if_pos (by omega)]
      · by_cases h2 : x < j * u + u
        · rw [if_neg h1, if_pos h2]
          have := congrArg (fun l => l[x - j * u]?) heq
          simp only [sliceN_get, if_pos (show x - j * u < u by omega)] at this
          have e : j * u + (x - j * u) = x := by omega
          rw [e] at this; exact this
        · rw [if_neg h1, if_neg h2]

/-- **write-back is exact**: the units that differ, written in order, turn `m` into `m'` -/
theorem apply_diff (u : Nat) (hu : 0 < u) (m m' : Bytes) (hl : m.length = m'.length) :
    apply m (diffUnits u m m') = m' := by
  obtain ⟨il, ig⟩ := apply_diff_prefix u hu m m' hl ((m.length + u - 1) / u)
  apply List.ext_getElem?
  intro x
  have := ig x
  unfold diffUnits
  rw [this]
  split
  · rfl
  · rename_i hx
    have hge : m.length ≤ (m.length + u - 1) / u * u := by
      have h1 := Nat.div_add_mod (m.length + u - 1) u
      have h2 := Nat.mod_lt (m.length + u - 1) hu
      have h3 : (m.length + u - 1) / u * u = u * ((m.length + u - 1) / u) := Nat.mul_comm _ _
      omega
    have e1 : m[x]? = none := List.getElem?_eq_none (by omega)
    have e2 : m'[x]? = none := List.getElem?_eq_none (by omega)
    rw [e1, e2]


/-! ### what a reader sees on intermediate images -/

/-- an image that equals `m` in front of the length byte and has length byte 0 reads as the
same layout with an empty message -/
theorem empty_view (c : Cfg) (m img : Bytes) (L : Layout) (hr : ReadsAs c m L) (hwf : WF c m L)
    (hb : ∀ x, x < L.off + 1 → img[x]? = m[x]?) (h0 : img[L.off + 1]? = some 0) :
    ReadsAs c img { L with ndef := [] } := by
  have hcc := hwf.1
  have hst := hwf.2.2.1
  have hrd : ∀ x, x < L.off + 1 → rd c img x = rd c m x := fun x hx => rd_congr c m img x (hb x hx)
  refine ⟨by rw [hrd _ (by omega)]; exact hr.magic, ?_, ?_, ?_, pre_stable c m img L hwf hb, ?_, hr.cap⟩
  · rw [hrd _ (by omega)]; exact hr.ver
  · rw [hrd _ (by omega)]; exact hr.acc
  · rw [hrd _ (by omega)]; exact hr.size
  · have hrl : readLen (rd c img) (L.off + 1) = .ok (0, L.off + 1 + 1) := by
      unfold readLen
      rw [(rd_ok_iff c img _ _).2 h0, Py.bind_ok, if_neg (by omega)]
    exact ⟨(0, L.off + 1 + 1), hrl, rfl⟩

theorem mix_single (m m' img : Bytes) (a : Nat) (hm : Mix m m' img)
    (hd : ∀ x, x ≠ a → m'[x]? = m[x]?) : img = m ∨ img = m' := by
  rcases hm.2 a with h | h
  · left
    apply List.ext_getElem?
    intro x
    by_cases hx : x = a
    · subst hx; exact h
    · rcases hm.2 x with h' | h'
      · exact h'
      · rw [h', hd x hx]
  · right
    apply List.ext_getElem?
    intro x
    by_cases hx : x = a
    · subst hx; exact h
    · rcases hm.2 x with h' | h'
      · rw [h', hd x hx]
      · exact h'

theorem filterMap_range_le_one {α} (f : Nat → Option α) (j : Nat) (hf : ∀ i, i ≠ j → f i = none) (n : Nat) :
    ((List.range n).filterMap f).length ≤ if j < n then 1 else 0 := by
  induction n with
  | zero => simp
  | succ n ih =>
    rw [List.range_succ, List.filterMap_append, List.length_append]
    by_cases hn : n = j
    · subst hn
      rw [if_neg (by omega)] at ih
      rw [if_pos (by omega)]
      have : ((List.filterMap f [n]).length) ≤ 1 := by
        simp only [List.filterMap_cons, List.filterMap_nil]; split <;> simp
      omega
    · have : List.filterMap f [n] = [] := by simp [hf n hn]
      rw [this]
      simp only [List.length_nil, Nat.add_zero]
      by_cases hj : j < n
      · rw [if_pos hj] at ih; rw [if_pos (by omega)]; exact ih
      · rw [if_neg hj] at ih; rw [if_neg (by omega)]; exact ih

/-- images that differ only inside one write unit are synchronised by at most one command -/
theorem diffUnits_le_one (u : Nat) (m m' : Bytes) (j : Nat)
    (hd : ∀ x, m[x]? ≠ m'[x]? → j * u ≤ x ∧ x < j * u + u) : (diffUnits u m m').length ≤ 1 := by
  unfold diffUnits
  have := filterMap_range_le_one (fun i =>
      if sliceN m (i * u) (i * u + u) ≠ sliceN m' (i * u) (i * u + u)
      then some (i * u, sliceN m' (i * u) (i * u + u)) else none) j ?_ ((m.length + u - 1) / u)
  · split at this <;> omega
  · intro i hi
    have heq : sliceN m (i * u) (i * u + u) = sliceN m' (i * u) (i * u + u) := by
      apply sliceN_eq_of
      intro k hk
      apply Classical.byContradiction
      intro hne
      have := hd _ hne
      rcases Nat.lt_or_gt_of_ne hi with h | h
      · have h1 := Nat.mul_le_mul_right u (show i + 1 ≤ j from h)
        rw [Nat.succ_mul] at h1; omega
      · have h1 := Nat.mul_le_mul_right u (show j + 1 ≤ i from h)
        rw [Nat.succ_mul] at h1; omega
    simp [heq]

theorem take_le_one {α} (l : List α) (k : Nat) (h : l.length ≤ 1) : l.take k = [] ∨ l.take k = l := by
  cases k with
  | zero => left; simp
  | succ k =>
    right
    apply List.take_of_length_le; omega

theorem take_three {α} (a b c : List α) (k : Nat) :
    (a ++ b ++ c).take k = a.take k ∨ (∃ k', (a ++ b ++ c).take k = a ++ b.take k')
      ∨ (∃ k', (a ++ b ++ c).take k = a ++ b ++ c.take k') := by
  by_cases h1 : k ≤ a.length
  · left
    rw [List.append_assoc, List.take_append_of_le_length h1]
  · by_cases h2 : k ≤ a.length + b.length
    · right; left
      refine ⟨k - a.length, ?_⟩
      rw [List.append_assoc, List.take_append, List.take_of_length_le (by omega),
        List.take_append_of_le_length (by omega)]
    · right; right
      refine ⟨k - a.length - b.length, ?_⟩
      rw [List.take_append, List.take_of_length_le (by simp; omega)]
      simp [Nat.sub_sub]


/-- the new length field reaches the tag with a single command: 1-byte format, or the three
bytes `FF hi lo` lie in one write unit -/
def OneCmd (c : Cfg) (L : Layout) (n : Nat) : Prop :=
  n < 255 ∨ (L.off + 1) / c.unit = (L.off + 3) / c.unit

instance (c : Cfg) (L : Layout) (n : Nat) : Decidable (OneCmd c L n) := by unfold OneCmd; infer_instance

theorem writeCmds_eq {c m L data m1 m2 m3a m3} (w : WriteSpec c m L data m1 m2 m3a m3) :
    writeCmds c m L data =
      ⟨diffUnits c.unit m m1 ++ diffUnits c.unit m1 m2 ++ diffUnits c.unit m2 m3a ++ diffUnits c.unit m3a m3,
        .ok ()⟩ := by
  unfold writeCmds; rw [w.p1]; simp only; rw [w.p2]; simp only; rw [w.p3a]; simp only; rw [w.p3]

theorem div_bounds (a u : Nat) (hu : 0 < u) : a / u * u ≤ a ∧ a < a / u * u + u := by
  have h1 := Nat.div_add_mod a u
  have h2 := Nat.mod_lt a hu
  have h3 : a / u * u = u * (a / u) := Nat.mul_comm _ _
  omega

/-! ### prefixes of a write-back are threshold images -/

theorem take_filterMap_range {α} (f : Nat → Option α) (n k : Nat) :
    ∃ j, ((List.range n).filterMap f).take k = (List.range j).filterMap f := by
  induction n with
  | zero => exact ⟨0, by simp⟩
  | succ n ih =>
    rw [List.range_succ, List.filterMap_append]
    by_cases hk : k ≤ ((List.range n).filterMap f).length
    · rw [List.take_append_of_le_length hk]; exact ih
    · rw [List.take_append, List.take_of_length_le (by omega)]
      cases hf : f n with
      | none => exact ⟨n, by simp [hf]⟩
      | some v =>
        refine ⟨n + 1, ?_⟩
        rw [List.range_succ, List.filterMap_append]
        have : List.filterMap f [n] = [v] := by simp [hf]
        rw [this]
        congr 1
        apply List.take_of_length_le
        simp; omega

/-- after any prefix of a write-back the tag holds the new image below a unit boundary and the
old image from there on -/
theorem prefix_threshold (u : Nat) (hu : 0 < u) (m m' : Bytes) (hl : m.length = m'.length) (k : Nat) :
    ∃ j, ∀ x : Nat, (apply m ((diffUnits u m m').take k))[x]? = if x < j * u then m'[x]? else m[x]? := by
  unfold diffUnits
  obtain ⟨j, hj⟩ := take_filterMap_range (fun i =>
      if sliceN m (i * u) (i * u + u) ≠ sliceN m' (i * u) (i * u + u)
      then some (i * u, sliceN m' (i * u) (i * u + u)) else none) ((m.length + u - 1) / u) k
  rw [hj]
  exact ⟨j, (apply_diff_prefix u hu m m' hl j).2⟩

theorem take_two {α} (a b : List α) (k : Nat) :
    (a ++ b).take k = a.take k ∨ ∃ k', (a ++ b).take k = a ++ b.take k' := by
  by_cases h : k ≤ a.length
  · left; exact List.take_append_of_le_length h
  · right; exact ⟨k - a.length, by rw [List.take_append, List.take_of_length_le (by omega)]⟩

/-- an image that equals `m` in front of the length field and whose 3-byte length field reads
`FF 00 00` shows an empty message -/
theorem empty3_view (c : Cfg) (m img : Bytes) (L : Layout) (hr : ReadsAs c m L) (hwf : WF c m L)
    (hb : ∀ x, x < L.off + 1 → img[x]? = m[x]?) (h1 : img[L.off + 1]? = some 255)
    (h2 : img[L.off + 2]? = some 0) (h3 : img[L.off + 3]? = some 0) :
    ReadsAs c img { L with ndef := [] } := by
  have hcc := hwf.1
  have hst := hwf.2.2.1
  have hrd : ∀ x, x < L.off + 1 → rd c img x = rd c m x := fun x hx => rd_congr c m img x (hb x hx)
  refine ⟨by rw [hrd _ (by omega)]; exact hr.magic, ?_, ?_, ?_, pre_stable c m img L hwf hb, ?_, hr.cap⟩
  · rw [hrd _ (by omega)]; exact hr.ver
  · rw [hrd _ (by omega)]; exact hr.acc
  · rw [hrd _ (by omega)]; exact hr.size
  · have hrl : readLen (rd c img) (L.off + 1) = .ok (0 * 256 + 0, L.off + 1 + 3) := by
      unfold readLen
      rw [(rd_ok_iff c img _ _).2 h1, Py.bind_ok, if_pos rfl, (rd_ok_iff c img _ _).2 h2, Py.bind_ok,
        (rd_ok_iff c img _ _).2 h3, Py.bind_ok]
    exact ⟨_, hrl, rfl⟩

/-- what the preparation step stores in the two extra length bytes -/
theorem pre3_zero (u : Nat) (m2 : Bytes) (off n : Nat) (hn : ¬ n < 255)
    (hz : (off + 1) / u ≠ (off + 2) / u ∧ (off + 2) / u = (off + 3) / u) (hl : off + 3 < m2.length) :
    (pre3 u m2 off n)[off + 2]? = some 0 ∧ (pre3 u m2 off n)[off + 3]? = some 0 := by
  unfold pre3; rw [if_neg hn, if_pos hz]
  exact ⟨by rw [get_set_ne _ _ _ _ (by omega)]; exact get_set_eq _ _ _ (by omega),
         get_set_eq _ _ _ (by simp; omega)⟩

/-- outside the zero case, length bytes in a later unit than `FF` already hold their final value -/
theorem pre3_final (u : Nat) (m2 : Bytes) (off n : Nat) (hn : ¬ n < 255)
    (hz : ¬ ((off + 1) / u ≠ (off + 2) / u ∧ (off + 2) / u = (off + 3) / u)) (hl : off + 3 < m2.length) :
    ((off + 2) / u ≠ (off + 1) / u → (pre3 u m2 off n)[off + 2]? = some (n / 256))
    ∧ ((off + 3) / u ≠ (off + 1) / u → (pre3 u m2 off n)[off + 3]? = some (n % 256)) := by
  unfold pre3; rw [if_neg hn, if_neg hz]
  simp only
  refine ⟨fun h2 => ?_, fun h3 => ?_⟩
  · rw [if_pos h2]
    split
    · rw [get_set_ne _ _ _ _ (by omega)]; exact get_set_eq _ _ _ (by omega)
    · exact get_set_eq _ _ _ (by omega)
  · rw [if_pos h3]
    split
    · exact get_set_eq _ _ _ (by simp; omega)
    · exact get_set_eq _ _ _ (by omega)

/-- **cut safety**: the reader's view after any prefix of the command list of a write -/
theorem cut_safe (c : Cfg) (m : Bytes) (L : Layout) (data : Bytes)
    (hr : ReadsAs c m L) (hwf : WF c m L) (hcap : (data.length : Int) ≤ L.cap) (k : Nat) :
    ReadsAs c (apply m ((writeCmds c m L data).cmds.take k)) L
    ∨ ReadsAs c (apply m ((writeCmds c m L data).cmds.take k)) { L with ndef := [] }
    ∨ ReadsAs c (apply m ((writeCmds c m L data).cmds.take k)) { L with ndef := data } := by
  obtain ⟨m1, m2, m3a, m3, w, hnew⟩ := roundtrip c m L data hr hwf hcap
  have hu : 0 < c.unit := hwf.2.1
  have hl1 := w.len1
  have hl2 := w.len2
  have hl3 := w.len3
  have hl3a : m3a.length = m.length := by rw [w.m3a_eq, pre3_length, hl2]
  have hfit := w.fits
  have har := w.area
  have hh := hdrLen_ge data.length
  have h10 : m1[L.off + 1]? = some 0 := by rw [w.m1_eq]; exact get_set_eq _ _ _ (by omega)
  have h20 : m2[L.off + 1]? = some 0 := by rw [w.m2_below _ (by omega)]; exact h10
  have h3a_out : ∀ x, x ≠ L.off + 2 → x ≠ L.off + 3 → m3a[x]? = m2[x]? := fun x h2 h3 => by
    rw [w.m3a_eq]; exact pre3_get _ _ _ _ x h2 h3
  have h3a0 : m3a[L.off + 1]? = some 0 := by rw [h3a_out _ (by omega) (by omega)]; exact h20
  have h3a_below : ∀ x, x < L.off + 1 → m3a[x]? = m[x]? := fun x hx => by
    rw [h3a_out _ (by omega) (by omega)]; exact (w.below x hx).2.1
  -- the final image differs from the prepared one only inside the length field
  have h33 : ∀ x, m3[x]? ≠ m3a[x]? → L.off + 1 ≤ x ∧ x < L.off + hdrLen data.length := by
    intro x hx
    apply Classical.byContradiction; intro hcon
    apply hx
    have hx' : x < L.off + 1 ∨ L.off + hdrLen data.length ≤ x := by omega
    by_cases hn : data.length < 255
    · have : m3a = m2 := by rw [w.m3a_eq]; unfold pre3; rw [if_pos hn]
      rw [this]; exact w.m3_out x hx'
    · have h4 : hdrLen data.length = 4 := by unfold hdrLen; simp [hn]
      rw [w.m3_out x hx', h3a_out x (by omega) (by omega)]
  have a1 : apply m (diffUnits c.unit m m1) = m1 := apply_diff _ hu _ _ hl1.symm
  have a2 : apply m1 (diffUnits c.unit m1 m2) = m2 := apply_diff _ hu _ _ (by omega)
  have a3a : apply m2 (diffUnits c.unit m2 m3a) = m3a := apply_diff _ hu _ _ (by omega)
  have a3 : apply m3a (diffUnits c.unit m3a m3) = m3 := apply_diff _ hu _ _ (by omega)
  have emptyView : ∀ img, (∀ x, x < L.off + 1 → img[x]? = m[x]?) → img[L.off + 1]? = some 0 →
      ReadsAs c img { L with ndef := [] } := fun img hb h0 => empty_view c m img L hr hwf hb h0
  rw [writeCmds_eq w]
  simp only
  rcases take_two (diffUnits c.unit m m1 ++ diffUnits c.unit m1 m2 ++ diffUnits c.unit m2 m3a)
      (diffUnits c.unit m3a m3) k with h | ⟨k', h⟩
  · rw [h]
    rcases take_three (diffUnits c.unit m m1) (diffUnits c.unit m1 m2) (diffUnits c.unit m2 m3a) k with h | ⟨k', h⟩ | ⟨k', h⟩
    · -- inside phase 1: one byte differs
      rw [h]
      have hm := prefix_mix c.unit m m1 hl1.symm k
      rcases mix_single m m1 _ (L.off + 1) hm (fun x hx => by rw [w.m1_eq]; exact get_set_ne _ _ _ _ (Ne.symm hx)) with e | e
      · rw [e]; exact Or.inl hr
      · rw [e]; exact Or.inr (Or.inl (emptyView m1 (fun x hx => (w.below x hx).1) h10))
    · -- inside phase 2: the length byte is 0 in every mixture of m1 and m2
      rw [h, apply_append, a1]
      have hm := prefix_mix c.unit m1 m2 (by omega) k'
      refine Or.inr (Or.inl (emptyView _ (fun x hx => ?_) ?_))
      · rcases hm.2 x with e | e
        · rw [e]; exact (w.below x hx).1
        · rw [e]; exact (w.below x hx).2.1
      · rcases hm.2 (L.off + 1) with e | e
        · rw [e]; exact h10
        · rw [e]; exact h20
    · -- preparation of the length field: the first length byte stays 0
      rw [h, apply_append, apply_append, a1, a2]
      have hm := prefix_mix c.unit m2 m3a (by omega) k'
      refine Or.inr (Or.inl (emptyView _ (fun x hx => ?_) ?_))
      · rcases hm.2 x with e | e
        · rw [e]; exact (w.below x hx).2.1
        · rw [e]; exact h3a_below x hx
      · rcases hm.2 (L.off + 1) with e | e
        · rw [e]; exact h20
        · rw [e]; exact h3a0
  · -- the final length field
    rw [h, apply_append, apply_append, apply_append, a1, a2, a3a]
    have hEmpty3a : ReadsAs c m3a { L with ndef := [] } := emptyView m3a h3a_below h3a0
    by_cases hz : ¬ data.length < 255 ∧
        ((L.off + 1) / c.unit ≠ (L.off + 2) / c.unit ∧ (L.off + 2) / c.unit = (L.off + 3) / c.unit)
    · -- `FF | hi lo`: two commands; between them the field reads FF 00 00
      obtain ⟨hn, hzz⟩ := hz
      have h4 : hdrLen data.length = 4 := by unfold hdrLen; simp [hn]
      obtain ⟨z2, z3⟩ := pre3_zero c.unit m2 L.off data.length hn hzz (by omega)
      rw [← w.m3a_eq] at z2 z3
      obtain ⟨j, hj⟩ := prefix_threshold c.unit hu m3a m3 (by omega) k'
      by_cases hB1 : j * c.unit ≤ L.off + 1
      · have : apply m3a ((diffUnits c.unit m3a m3).take k') = m3a := by
          apply List.ext_getElem?; intro x; rw [hj x]
          split
          · apply Classical.byContradiction; intro hne
            have := h33 x hne; omega
          · rfl
        rw [this]; exact Or.inr (Or.inl hEmpty3a)
      · by_cases hB3 : L.off + 3 < j * c.unit
        · have : apply m3a ((diffUnits c.unit m3a m3).take k') = m3 := by
            apply List.ext_getElem?; intro x; rw [hj x]
            split
            · rfl
            · apply Classical.byContradiction; intro hne
              have := h33 x (fun e => hne e.symm); omega
          rw [this]; exact Or.inr (Or.inr hnew)
        · -- the boundary lies between FF and hi (it cannot separate hi from lo)
          have hB2 : j * c.unit ≤ L.off + 2 := by
            apply Classical.byContradiction; intro hcon
            have e1 : (L.off + 2) / c.unit < j := (Nat.div_lt_iff_lt_mul hu).2 (by omega)
            have e2 : j ≤ (L.off + 3) / c.unit := (Nat.le_div_iff_mul_le hu).2 (by omega)
            omega
          have e1 : m3[L.off + 1]? = some 255 := by
            rw [w.m3_eq, if_neg hn, get_set_ne _ _ _ _ (by omega), get_set_ne _ _ _ _ (by omega)]
            exact get_set_eq _ _ _ (by omega)
          refine Or.inr (Or.inl (empty3_view c m _ L hr hwf (fun x hx => ?_) ?_ ?_ ?_))
          · rw [hj x, if_pos (by omega)]; exact (w.below x hx).2.2
          · rw [hj _, if_pos (by omega)]; exact e1
          · rw [hj _, if_neg (by omega)]; exact z2
          · rw [hj _, if_neg (by omega)]; exact z3
    · -- all bytes that still change lie in the unit of the first length byte: one command
      have hone : (diffUnits c.unit m3a m3).length ≤ 1 := by
        apply diffUnits_le_one c.unit m3a m3 ((L.off + 1) / c.unit)
        intro x hx
        have hx' := h33 x (fun e => hx e.symm)
        have b1 := div_bounds (L.off + 1) c.unit hu
        by_cases hn : data.length < 255
        · have : hdrLen data.length = 2 := by unfold hdrLen; simp [hn]
          have : x = L.off + 1 := by omega
          subst this; exact b1
        · have h4 : hdrLen data.length = 4 := by unfold hdrLen; simp [hn]
          have hzz : ¬ ((L.off + 1) / c.unit ≠ (L.off + 2) / c.unit ∧ (L.off + 2) / c.unit = (L.off + 3) / c.unit) :=
            fun hh => hz ⟨hn, hh⟩
          obtain ⟨f2, f3⟩ := pre3_final c.unit m2 L.off data.length hn hzz (by omega)
          rw [← w.m3a_eq] at f2 f3
          have e2 : m3[L.off + 2]? = some (data.length / 256) := by
            rw [w.m3_eq, if_neg hn, get_set_ne _ _ _ _ (by omega)]
            exact get_set_eq _ _ _ (by simp; omega)
          have e3 : m3[L.off + 3]? = some (data.length % 256) := by
            rw [w.m3_eq, if_neg hn]
            exact get_set_eq _ _ _ (by simp; omega)
          have hcase : x = L.off + 1 ∨ x = L.off + 2 ∨ x = L.off + 3 := by omega
          rcases hcase with e | e | e
          · subst e; exact b1
          · subst e
            have hsame : (L.off + 2) / c.unit = (L.off + 1) / c.unit := by
              apply Classical.byContradiction; intro hne
              exact hx (by rw [f2 hne, e2])
            have b2 := div_bounds (L.off + 2) c.unit hu
            rw [hsame] at b2; exact b2
          · subst e
            have hsame : (L.off + 3) / c.unit = (L.off + 1) / c.unit := by
              apply Classical.byContradiction; intro hne
              exact hx (by rw [f3 hne, e3])
            have b3 := div_bounds (L.off + 3) c.unit hu
            rw [hsame] at b3; exact b3
      rcases take_le_one _ k' hone with e | e
      · rw [e]; exact Or.inr (Or.inl hEmpty3a)
      · rw [e, a3]; exact Or.inr (Or.inr hnew)

/-! ### confinement -/

/-- bytes of the NDEF TLV behind its tag byte that lie inside the data area and are not reserved -/
def Area (L : Layout) (x : Nat) : Prop := L.off < x ∧ x < L.areaEnd ∧ inSkip L.skip x = false

theorem steps_area {c m L data m1 m2 m3a m3} (w : WriteSpec c m L data m1 m2 m3a m3) (hwf : WF c m L)
    (h3 : Hdr3 L data.length) :
    (∀ x, m1[x]? ≠ m[x]? → Area L x) ∧ (∀ x, m2[x]? ≠ m1[x]? → Area L x)
    ∧ (∀ x, m3a[x]? ≠ m2[x]? → Area L x) ∧ (∀ x, m3[x]? ≠ m3a[x]? → Area L x) := by
  have hfit := w.fits
  have hh := hdrLen_ge data.length
  have hs1 := hwf.2.2.2.2.2
  -- the three bytes of the length field
  have hfield : ∀ x, L.off + 1 ≤ x → x < L.off + hdrLen data.length → Area L x := by
    intro x h1 h2
    by_cases hn : data.length < 255
    · have : hdrLen data.length = 2 := by unfold hdrLen; simp [hn]
      have : x = L.off + 1 := by omega
      subst this; exact ⟨by omega, by omega, hs1⟩
    · have h4 : hdrLen data.length = 4 := by unfold hdrLen; simp [hn]
      obtain ⟨s2, s3⟩ := h3 (by omega)
      have : x = L.off + 1 ∨ x = L.off + 2 ∨ x = L.off + 3 := by omega
      rcases this with e | e | e <;> subst e
      · exact ⟨by omega, by omega, hs1⟩
      · exact ⟨by omega, by omega, s2⟩
      · exact ⟨by omega, by omega, s3⟩
  have h3a : ∀ x, m3a[x]? ≠ m2[x]? → L.off + 2 ≤ x ∧ x < L.off + hdrLen data.length := by
    intro x hx
    by_cases hn : data.length < 255
    · exact absurd (by rw [w.m3a_eq]; unfold pre3; rw [if_pos hn]) hx
    · have h4 : hdrLen data.length = 4 := by unfold hdrLen; simp [hn]
      apply Classical.byContradiction; intro hcon
      apply hx; rw [w.m3a_eq]; exact pre3_get _ _ _ _ x (by omega) (by omega)
  refine ⟨fun x hx => ?_, fun x hx => ?_, fun x hx => ?_, fun x hx => ?_⟩
  · have : x = L.off + 1 := by
      apply Classical.byContradiction; intro hne
      apply hx; rw [w.m1_eq]; exact get_set_ne _ _ _ _ (fun e => hne e.symm)
    subst this; exact ⟨by omega, by omega, hs1⟩
  · have := w.m2_same x hx; exact ⟨by omega, this.2.1, this.2.2⟩
  · have := h3a x hx; exact hfield x (by omega) this.2
  · apply Classical.byContradiction; intro hna
    apply hx
    have hout : x < L.off + 1 ∨ L.off + hdrLen data.length ≤ x := by
      apply Classical.byContradiction; intro hcon
      exact hna (hfield x (by omega) (by omega))
    have e2 : m3a[x]? = m2[x]? := Classical.byContradiction fun hne => by
      have := h3a x hne; omega
    rw [w.m3_out x hout, e2]

/-- every command of a write-back covers a byte in which the two images differ -/
theorem cmd_covers (u : Nat) (m m' : Bytes) (hl : m.length = m'.length) (P : Nat → Prop)
    (hP : ∀ x, m'[x]? ≠ m[x]? → P x) (cmd : Cmd) (hc : cmd ∈ diffUnits u m m') :
    ∃ x, cmd.1 ≤ x ∧ x < cmd.1 + cmd.2.length ∧ P x := by
  obtain ⟨i, rfl, hne⟩ := mem_diffUnits u m m' cmd hc
  obtain ⟨k, hk, hd⟩ := sliceN_ne m m' (i * u) u hne
  refine ⟨i * u + k, by simp, ?_, hP _ (fun e => hd e.symm)⟩
  have hlt : i * u + k < m'.length := by
    apply Classical.byContradiction; intro hge
    apply hd
    have e1 : m[i * u + k]? = none := List.getElem?_eq_none (by omega)
    have e2 : m'[i * u + k]? = none := List.getElem?_eq_none (by omega)
    rw [e1, e2]
  have hsl : (sliceN m' (i * u) (i * u + u)).length = min u (m'.length - i * u) := by
    unfold sliceN; simp
  simp only [hsl]; omega


/-! ### Type 2 format -/
theorem wipeLoop_spec (c : Cfg) (s : Skip) (v : Nat) (n a : Nat) (m m' : Bytes)
    (h : wipeLoop c s v n a m = .ok m') :
    m'.length = m.length ∧ ∀ x, m'[x]? ≠ m[x]? → a ≤ x ∧ x < a + n ∧ inSkip s x = false := by
  induction n generalizing a m with
  | zero => simp only [wipeLoop] at h; cases h; exact ⟨rfl, fun x hx => absurd rfl hx⟩
  | succ n ih =>
    simp only [wipeLoop] at h
    split at h
    · obtain ⟨hl, hc⟩ := ih _ _ h
      exact ⟨hl, fun x hx => by have := hc x hx; exact ⟨by omega, by omega, this.2.2⟩⟩
    · rename_i hs
      obtain ⟨mm, hw, h⟩ := Py.bind_eq_ok.1 h
      obtain ⟨hlt, rfl⟩ := wr_inv c m mm a v hw
      obtain ⟨hl, hc⟩ := ih _ _ h
      refine ⟨by rw [hl]; simp, fun x hx => ?_⟩
      by_cases hxa : x = a
      · subst hxa; exact ⟨Nat.le_refl _, by omega, by simpa using hs⟩
      · have : m'[x]? ≠ (m.set a v)[x]? := by rw [get_set_ne _ _ _ _ (fun e => hxa e.symm)]; exact hx
        have := hc x this; exact ⟨by omega, by omega, this.2.2⟩

theorem formatT2_spec (m m' : Bytes) (L : Layout) (wipe : Option Nat)
    (hs1 : inSkip L.skip (L.off + 1) = false) (h1 : L.off + 1 < L.areaEnd)
    (h : formatT2 m L wipe = .ok m') :
    m'.length = m.length ∧ ∀ x, m'[x]? ≠ m[x]? → Area L x := by
  unfold formatT2 at h
  obtain ⟨m1, hw1, h⟩ := Py.bind_eq_ok.1 h
  obtain ⟨hlt1, rfl⟩ := wr_inv _ _ _ _ _ hw1
  obtain ⟨m2, hm2, h⟩ := Py.bind_eq_ok.1 h
  have htge := nextFree_ge L.skip (L.off + 2)
  have htns := nextFree_not_skip L.skip (L.off + 2)
  have c1 : ∀ x, (m.set (L.off + 1) 0)[x]? ≠ m[x]? → Area L x := by
    intro x hx
    have : x = L.off + 1 := by
      apply Classical.byContradiction; intro hne
      exact hx (get_set_ne _ _ _ _ (fun e => hne e.symm))
    subst this; exact ⟨by omega, h1, hs1⟩
  have c2 : m2.length = m.length ∧ ∀ x, m2[x]? ≠ m[x]? → Area L x := by
    split at hm2
    · rename_i ht
      obtain ⟨_, rfl⟩ := wr_inv _ _ _ _ _ hm2
      refine ⟨by simp, fun x hx => ?_⟩
      by_cases hxt : x = nextFree L.skip (L.off + 2)
      · subst hxt; exact ⟨by omega, ht, htns⟩
      · rw [get_set_ne _ _ _ _ (fun e => hxt e.symm)] at hx; exact c1 x hx
    · cases hm2; exact ⟨by simp, c1⟩
  cases wipe with
  | none => simp only at h; cases h; exact c2
  | some w =>
    simp only at h
    obtain ⟨hl, hc⟩ := wipeLoop_spec _ _ _ _ _ _ _ h
    refine ⟨by rw [hl, c2.1], fun x hx => ?_⟩
    by_cases hx2 : m'[x]? = m2[x]?
    · rw [hx2] at hx; exact c2.2 x hx
    · have := hc x hx2
      exact ⟨by omega, by omega, this.2.2⟩

end NfcVerif.Tlv
