import NfcVerif.Model.ExcFlow
/-!
# Exception flow: soundness and exactness of the analysis, once for all programs

* `sub_iff_below`: on an `ordered` tree the computable subclass test is the reflexive-transitive
  subclass relation.
* `runs_mem_outs` (soundness): every outcome of every execution, under every oracle that stays
  within the assumption table, is in `outs`.
* `mem_outs_runs` (exactness): every element of `outs` is the outcome of an execution under the
  most permissive oracle of the table.
* `link_sound` / `link_exact`: the same for programs of functions that call each other.
* `escapesOnly_of_check` / `canEscape_of_check`: what the generated instance theorems use.
-/
namespace NfcVerif.ExcFlow

/-! ## subclass test -/

theorem Below.mono {T : Tree} {x c d} (h : Below T c d) : Below (x :: T) c d := by
  induction h with
  | refl c => exact .refl c
  | step hm hb _ ih => exact .step (List.mem_cons_of_mem _ hm) hb ih

theorem Below.trans {T : Tree} {a b c} (h1 : Below T a b) (h2 : Below T b c) : Below T a c := by
  induction h1 with
  | refl _ => exact h2
  | step hm hb _ ih => exact .step hm hb (ih h2)

theorem sub_sound : ∀ (T : Tree) (c d : Cls), sub T c d = true → Below T c d
  | [], c, d, h => by
    simp [sub] at h; subst h; exact .refl c
  | (k, bs) :: rest, c, d, h => by
    simp only [sub, Bool.or_eq_true, beq_iff_eq] at h
    rcases h with h | h
    · subst h; exact .refl c
    · split at h
      · next hk =>
        rw [List.any_eq_true] at h
        obtain ⟨b, hb, hs⟩ := h
        subst hk
        exact .step (List.mem_cons_self) hb (sub_sound rest b d hs).mono
      · exact (sub_sound rest c d h).mono

/-- an entry whose class is nobody's base and not the class asked about can be dropped -/
theorem below_tail {k : Cls} {bs : List Cls} {rest : Tree} (hk : ∀ e ∈ rest, k ∉ e.2) {c d : Cls}
    (h : Below ((k, bs) :: rest) c d) (hc : c ≠ k) : Below rest c d := by
  induction h with
  | refl c => exact .refl c
  | @step c b d bases hm hb _ ih =>
    have hm' : (c, bases) ∈ rest := by
      rcases List.mem_cons.mp hm with e | hm'
      · exact absurd (congrArg Prod.fst e) hc
      · exact hm'
    have hbk : b ≠ k := fun e => hk _ hm' (e ▸ hb)
    exact .step hm' hb (ih hbk)

theorem sub_refl (T : Tree) (c : Cls) : sub T c c = true := by
  cases T with
  | nil => simp [sub]
  | cons e rest => obtain ⟨k, bs⟩ := e; simp [sub]

theorem sub_complete : ∀ (T : Tree), ordered T = true → ∀ {c d : Cls}, Below T c d → sub T c d = true
  | [], _, c, d, h => by
    cases h with
    | refl => simp [sub]
    | step hm _ _ => cases hm
  | (k, bs) :: rest, hT, c, d, h => by
    simp only [ordered, Bool.and_eq_true, Bool.not_eq_true', List.all_eq_true, bne_iff_ne, ne_eq] at hT
    obtain ⟨⟨hself, hrest⟩, hord⟩ := hT
    have hnob : ∀ e ∈ rest, k ∉ e.2 := fun e he hmem => by
      have := (hrest e he).2
      simp at this
      exact this hmem
    have hnok : ∀ e ∈ rest, e.1 ≠ k := fun e he => (hrest e he).1
    simp only [sub, Bool.or_eq_true, beq_iff_eq]
    cases h with
    | refl => exact .inl rfl
    | @step _ b _ bases hm hb hbd =>
      right
      by_cases hck : c = k
      · subst hck
        simp only [if_true]
        have hbases : bases = bs := by
          rcases List.mem_cons.mp hm with e | hm'
          · exact (congrArg Prod.snd e)
          · exact absurd rfl (hnok _ hm')
        subst hbases
        have hbk : b ≠ c := fun e => by
          subst e
          simp at hself
          exact hself hb
        rw [List.any_eq_true]
        exact ⟨b, hb, sub_complete rest hord (below_tail hnob hbd hbk)⟩
      · rw [if_neg hck]
        exact sub_complete rest hord (below_tail hnob (.step hm hb hbd) hck)

theorem sub_iff_below {T : Tree} (hT : ordered T = true) (c d : Cls) : sub T c d = true ↔ Below T c d :=
  ⟨sub_sound T c d, sub_complete T hT⟩

/-- closed world: what is below `X` is `X` or a class of the tree -/
theorem below_closed {T : Tree} {c X : Cls} (h : Below T c X) : c = X ∨ c ∈ T.map (·.1) := by
  cases h with
  | refl => exact .inl rfl
  | step hm _ _ => exact .inr (List.mem_map.mpr ⟨_, hm, rfl⟩)

theorem mem_expand {T : Tree} (hT : ordered T = true) (c X : Cls) : c ∈ expand T X ↔ Below T c X := by
  simp only [expand, List.mem_cons, List.mem_filter, Bool.and_eq_true, bne_iff_ne, ne_eq]
  constructor
  · rintro (h | ⟨_, _, h⟩)
    · subst h; exact .refl c
    · exact sub_sound T c X h
  · intro h
    by_cases hc : c = X
    · exact .inl hc
    · rcases below_closed h with e | hm
      · exact absurd e hc
      · exact .inr ⟨hm, hc, sub_complete T hT h⟩

theorem mem_expandAll {T : Tree} (hT : ordered T = true) (c : Cls) (l : List Cls) :
    c ∈ expandAll T l ↔ ∃ X, X ∈ l ∧ Below T c X := by
  simp only [expandAll, List.mem_flatMap, mem_expand hT]

theorem any_sub_iff {T : Tree} (hT : ordered T = true) (c : Cls) (cs : List Cls) :
    cs.any (fun A => sub T c A) = true ↔ ∃ A, A ∈ cs ∧ Below T c A := by
  rw [List.any_eq_true]
  constructor
  · rintro ⟨A, hA, h⟩; exact ⟨A, hA, sub_sound T c A h⟩
  · rintro ⟨A, hA, h⟩; exact ⟨A, hA, sub_complete T hT h⟩

/-! ## list helpers -/

theorem mem_uni {a b : List Outcome} {o : Outcome} : o ∈ uni a b ↔ o ∈ a ∨ o ∈ b := by
  simp only [uni, List.mem_append, List.mem_filter, Bool.not_eq_true', List.contains_eq_mem,
    decide_eq_false_iff_not]
  constructor
  · rintro (h | ⟨h, _⟩)
    · exact .inl h
    · exact .inr h
  · rintro (h | h)
    · exact .inl h
    · by_cases ha : o ∈ a
      · exact .inl ha
      · exact .inr ⟨h, ha⟩

theorem mem_dedup : ∀ {l : List Outcome} {o : Outcome}, o ∈ dedup l ↔ o ∈ l
  | [], o => by simp [dedup]
  | x :: l, o => by
    simp only [dedup, List.mem_cons]
    split
    · next hc =>
      rw [mem_dedup]
      constructor
      · exact .inr
      · rintro (h | h)
        · subst h
          simp only [List.contains_eq_mem, decide_eq_true_eq] at hc
          exact mem_dedup.mp hc
        · exact h
    · simp only [List.mem_cons, mem_dedup]

theorem mem_seqO {oa ob : List Outcome} {o : Outcome} :
    o ∈ seqO oa ob ↔ (o ∈ oa ∧ o ≠ .normal) ∨ (Outcome.normal ∈ oa ∧ o ∈ ob) := by
  simp only [seqO, mem_uni, List.mem_filter, bne_iff_ne, ne_eq]
  constructor
  · rintro (h | h)
    · exact .inl h
    · split at h
      · next hc =>
        simp only [List.contains_eq_mem, decide_eq_true_eq] at hc
        exact .inr ⟨hc, h⟩
      · cases h
  · rintro (h | ⟨hn, h⟩)
    · exact .inl h
    · right
      have : oa.contains Outcome.normal = true := by simp [hn]
      simp only [this, if_true]
      exact h

theorem mem_loopO {ob : List Outcome} {o : Outcome} :
    o ∈ loopO ob ↔ (o = .returned ∧ Outcome.returned ∈ ob) ∨ (∃ c, o = .raised c ∧ Outcome.raised c ∈ ob) ∨
      (o = .normal ∧ Outcome.broke ∈ ob) := by
  simp only [loopO, List.mem_filterMap]
  constructor
  · rintro ⟨x, hx, h⟩
    cases x <;> simp at h
    · subst h; exact .inl ⟨rfl, hx⟩
    · subst h; exact .inr (.inr ⟨rfl, hx⟩)
    · subst h; exact .inr (.inl ⟨_, rfl, hx⟩)
  · rintro (⟨e, h⟩ | ⟨c, e, h⟩ | ⟨e, h⟩)
    · exact ⟨_, h, by simp [e]⟩
    · exact ⟨_, h, by simp [e]⟩
    · exact ⟨_, h, by simp [e]⟩

theorem mem_raisedOf {l : List Outcome} {c : Cls} : c ∈ raisedOf l ↔ Outcome.raised c ∈ l := by
  simp only [raisedOf, List.mem_filterMap]
  constructor
  · rintro ⟨x, hx, h⟩
    cases x <;> simp at h
    subst h; exact hx
  · intro h; exact ⟨_, h, rfl⟩

theorem mem_allOutcomes {W : World} (hT : ordered W.tree = true) (o : Outcome) :
    o ∈ allOutcomes W ↔ (o = .normal ∨ o = .returned ∨ o = .broke ∨ o = .continued ∨
      ∃ c, o = .raised c ∧ Below W.tree c W.top) := by
  simp only [allOutcomes, List.mem_append, List.mem_cons, List.mem_map, mem_expand hT, List.not_mem_nil,
    or_false]
  constructor
  · rintro ((h | h | h | h) | ⟨c, hc, e⟩)
    · exact .inl h
    · exact .inr (.inl h)
    · exact .inr (.inr (.inl h))
    · exact .inr (.inr (.inr (.inl h)))
    · exact .inr (.inr (.inr (.inr ⟨c, e.symm, hc⟩)))
  · rintro (h | h | h | h | ⟨c, e, hc⟩)
    · exact .inl (.inl h)
    · exact .inl (.inr (.inl h))
    · exact .inl (.inr (.inr (.inl h)))
    · exact .inl (.inr (.inr (.inr h)))
    · exact .inr ⟨c, hc, e.symm⟩

/-! ## handler selection -/

theorem selects_some {W : World} (hT : ordered W.tree = true) (asm : Site → List Cls) {c : Cls} {hs : Handlers}
    {h : Stmt} (hsel : Selects W.tree c hs (some h)) : outsH W asm c hs = outs W asm (some c) h := by
  generalize hr : some h = r at hsel
  induction hsel with
  | nil => cases hr
  | hit hex =>
    cases hr
    simp only [outsH, (any_sub_iff hT _ _).mpr hex, if_true]
  | miss hne _ ih =>
    have : ¬ (List.any _ (fun A => sub W.tree c A) = true) := fun hh => hne ((any_sub_iff hT _ _).mp hh)
    simp only [outsH, this]
    exact ih hr

theorem selects_none {W : World} (hT : ordered W.tree = true) (asm : Site → List Cls) {c : Cls} {hs : Handlers}
    (hsel : Selects W.tree c hs none) : outsH W asm c hs = [.raised c] := by
  generalize hr : (none : Option Stmt) = r at hsel
  induction hsel with
  | nil => simp [outsH]
  | hit _ => cases hr
  | miss hne _ ih =>
    have : ¬ (List.any _ (fun A => sub W.tree c A) = true) := fun hh => hne ((any_sub_iff hT _ _).mp hh)
    simp only [outsH, this]
    exact ih hr

/-! ## soundness -/

/-- **Soundness of the analysis.** Whatever oracle the call sites follow, as long as each site raises
only classes of its (concrete) assumption, every outcome of every execution is in `outs`. -/
theorem runs_mem_outs {W : World} (hT : ordered W.tree = true) {raises : Site → Cls → Prop}
    {asm : Site → List Cls} (hr : ∀ k c, raises k c → c ∈ asm k) {cur : Option Cls} {s : Stmt} {o : Outcome}
    (h : Runs W raises cur s o) : o ∈ outs W asm cur s := by
  induction h with
  | skip => simp [outs]
  | ret => simp [outs]
  | brk => simp [outs]
  | cont => simp [outs]
  | callOk => simp [outs]
  | callRaise hk => simp only [outs, List.mem_cons, List.mem_map]; exact .inr ⟨_, hr _ _ hk, rfl⟩
  | raise => simp [outs]
  | reraise => simp [outs]
  | reraiseNone => simp [outs]
  | seqStop _ hne ih => simp only [outs, mem_seqO]; exact .inl ⟨ih, hne⟩
  | seqGo _ _ ih1 ih2 => simp only [outs, mem_seqO]; exact .inr ⟨ih1, ih2⟩
  | brL _ ih => simp only [outs, mem_uni]; exact .inl ih
  | brR _ ih => simp only [outs, mem_uni]; exact .inr ih
  | loopEnd _ ih => simp only [outs, mem_uni]; exact .inl ih
  | loopNext _ _ _ _ ih => exact ih
  | loopBreak _ ih =>
    simp only [outs]; exact mem_uni.mpr (.inr (mem_loopO.mpr (.inr (.inr ⟨rfl, ih⟩))))
  | loopExit _ ho ih =>
    simp only [outs]
    rcases ho with e | ⟨c, e⟩
    · subst e; exact mem_uni.mpr (.inr (mem_loopO.mpr (.inl ⟨rfl, ih⟩)))
    · subst e; exact mem_uni.mpr (.inr (mem_loopO.mpr (.inr (.inl ⟨c, rfl, ih⟩))))
  | tryNormal _ _ ih1 ih2 =>
    simp only [outs, mem_uni]
    refine .inl (.inl ?_)
    rw [if_pos (by simpa using ih1)]; exact ih2
  | tryJump _ ho ih =>
    simp only [outs, mem_uni, List.mem_filter]
    refine .inl (.inr ⟨ih, ?_⟩)
    rcases ho with e | e | e <;> subst e <;> rfl
  | tryCaught _ hsel _ ih1 ih2 =>
    simp only [outs, mem_uni, mem_dedup, List.mem_flatMap]
    refine .inr ⟨_, ih1, ?_⟩
    simp only [selects_some hT asm hsel]; exact ih2
  | tryUncaught _ hsel ih =>
    simp only [outs, mem_uni, mem_dedup, List.mem_flatMap]
    refine .inr ⟨_, ih, ?_⟩
    simp only [selects_none hT asm hsel, List.mem_singleton]
  | tryFinally _ _ ih1 ih2 =>
    simp only [outs, mem_dedup, List.mem_flatMap, List.mem_map]
    exact ⟨_, ih1, _, ih2, rfl⟩
  | otherNormal => simp only [outs, mem_allOutcomes hT]; simp
  | otherReturned => simp only [outs, mem_allOutcomes hT]; simp
  | otherBroke => simp only [outs, mem_allOutcomes hT]; simp
  | otherContinued => simp only [outs, mem_allOutcomes hT]; simp
  | otherRaised hb => simp only [outs, mem_allOutcomes hT]; exact .inr (.inr (.inr (.inr ⟨_, rfl, hb⟩)))

/-! ## exactness -/

mutual
/-- **Exactness.** Every element of `outs` is the outcome of an execution in which every site raises
only classes of the table: the analysis reports nothing that the semantics cannot do. -/
theorem mem_outs_runs {W : World} (hT : ordered W.tree = true) (asm : Site → List Cls) :
    ∀ (s : Stmt) (cur : Option Cls) (o : Outcome), o ∈ outs W asm cur s → Runs W (lit asm) cur s o
  | .skip, cur, o, h => by simp [outs] at h; subst h; exact .skip
  | .ret, cur, o, h => by simp [outs] at h; subst h; exact .ret
  | .brk, cur, o, h => by simp [outs] at h; subst h; exact .brk
  | .cont, cur, o, h => by simp [outs] at h; subst h; exact .cont
  | .call k, cur, o, h => by
    simp only [outs, List.mem_cons, List.mem_map] at h
    rcases h with e | ⟨c, hc, e⟩
    · subst e; exact .callOk
    · subst e; exact .callRaise hc
  | .raise c, cur, o, h => by simp [outs] at h; subst h; exact .raise
  | .reraise, cur, o, h => by
    cases cur with
    | none => simp [outs] at h; subst h; exact .reraiseNone
    | some k => simp [outs] at h; subst h; exact .reraise
  | .seq a b, cur, o, h => by
    simp only [outs, mem_seqO] at h
    rcases h with ⟨h1, hne⟩ | ⟨h1, h2⟩
    · exact .seqStop (mem_outs_runs hT asm a cur o h1) hne
    · exact .seqGo (mem_outs_runs hT asm a cur _ h1) (mem_outs_runs hT asm b cur o h2)
  | .branch a b, cur, o, h => by
    simp only [outs, mem_uni] at h
    rcases h with h | h
    · exact .brL (mem_outs_runs hT asm a cur o h)
    · exact .brR (mem_outs_runs hT asm b cur o h)
  | .loop b e, cur, o, h => by
    simp only [outs, mem_uni, mem_loopO] at h
    rcases h with h | ⟨e1, h⟩ | ⟨c, e1, h⟩ | ⟨e1, h⟩
    · exact .loopEnd (mem_outs_runs hT asm e cur o h)
    · subst e1; exact .loopExit (mem_outs_runs hT asm b cur _ h) (.inl rfl)
    · subst e1; exact .loopExit (mem_outs_runs hT asm b cur _ h) (.inr ⟨c, rfl⟩)
    · subst e1; exact .loopBreak (mem_outs_runs hT asm b cur _ h)
  | .tryExcept body hs e, cur, o, h => by
    simp only [outs, mem_uni, mem_dedup, List.mem_flatMap, List.mem_filter] at h
    rcases h with (h | ⟨h, hj⟩) | ⟨o1, h1, h2⟩
    · split at h
      · next hc =>
        simp only [List.contains_eq_mem, decide_eq_true_eq] at hc
        exact .tryNormal (mem_outs_runs hT asm body cur _ hc) (mem_outs_runs hT asm e cur o h)
      · cases h
    · refine .tryJump (mem_outs_runs hT asm body cur o h) ?_
      cases o <;> simp [isJump] at hj ⊢
    · cases o1 with
      | raised c =>
        simp only at h2
        have hb := mem_outs_runs hT asm body cur _ h1
        rcases mem_outsH_runs hT asm hs c o h2 with ⟨hsel, e1⟩ | ⟨hh, hsel, hrun⟩
        · subst e1; exact .tryUncaught hb hsel
        · exact .tryCaught hb hsel hrun
      | normal => simp at h2
      | returned => simp at h2
      | broke => simp at h2
      | continued => simp at h2
  | .tryFinally body fin, cur, o, h => by
    simp only [outs, mem_dedup, List.mem_flatMap, List.mem_map] at h
    obtain ⟨o1, h1, o2, h2, e⟩ := h
    subst e
    exact .tryFinally (mem_outs_runs hT asm body cur o1 h1) (mem_outs_runs hT asm fin _ o2 h2)
  | .other src, cur, o, h => by
    simp only [outs, mem_allOutcomes hT] at h
    rcases h with e | e | e | e | ⟨c, e, hb⟩
    · subst e; exact .otherNormal
    · subst e; exact .otherReturned
    · subst e; exact .otherBroke
    · subst e; exact .otherContinued
    · subst e; exact .otherRaised hb
theorem mem_outsH_runs {W : World} (hT : ordered W.tree = true) (asm : Site → List Cls) :
    ∀ (hs : Handlers) (c : Cls) (o : Outcome), o ∈ outsH W asm c hs →
      (Selects W.tree c hs none ∧ o = .raised c) ∨
      (∃ h, Selects W.tree c hs (some h) ∧ Runs W (lit asm) (some c) h o)
  | .nil, c, o, h => by
    simp [outsH] at h
    exact .inl ⟨.nil, h⟩
  | .cons cs hd rest, c, o, h => by
    simp only [outsH] at h
    split at h
    · next hc =>
      exact .inr ⟨hd, .hit ((any_sub_iff hT _ _).mp hc), mem_outs_runs hT asm hd (some c) o h⟩
    · next hc =>
      have hne : ¬ ∃ A, A ∈ cs ∧ Below W.tree c A := fun hex => hc ((any_sub_iff hT _ _).mpr hex)
      rcases mem_outsH_runs hT asm rest c o h with ⟨hsel, e⟩ | ⟨hh, hsel, hrun⟩
      · exact .inl ⟨.miss hne hsel, e⟩
      · exact .inr ⟨hh, .miss hne hsel, hrun⟩
end

/-- monotonicity in the oracle -/
theorem Runs.mono {W : World} {r1 r2 : Site → Cls → Prop} (hr : ∀ k c, r1 k c → r2 k c) {cur s o}
    (h : Runs W r1 cur s o) : Runs W r2 cur s o := by
  induction h with
  | skip => exact .skip
  | ret => exact .ret
  | brk => exact .brk
  | cont => exact .cont
  | callOk => exact .callOk
  | callRaise hk => exact .callRaise (hr _ _ hk)
  | raise => exact .raise
  | reraise => exact .reraise
  | reraiseNone => exact .reraiseNone
  | seqStop _ hne ih => exact .seqStop ih hne
  | seqGo _ _ ih1 ih2 => exact .seqGo ih1 ih2
  | brL _ ih => exact .brL ih
  | brR _ ih => exact .brR ih
  | loopEnd _ ih => exact .loopEnd ih
  | loopNext _ ho _ ih1 ih2 => exact .loopNext ih1 ho ih2
  | loopBreak _ ih => exact .loopBreak ih
  | loopExit _ ho ih => exact .loopExit ih ho
  | tryNormal _ _ ih1 ih2 => exact .tryNormal ih1 ih2
  | tryJump _ ho ih => exact .tryJump ih ho
  | tryCaught _ hsel _ ih1 ih2 => exact .tryCaught ih1 hsel ih2
  | tryUncaught _ hsel ih => exact .tryUncaught ih hsel
  | tryFinally _ _ ih1 ih2 => exact .tryFinally ih1 ih2
  | otherNormal => exact .otherNormal
  | otherReturned => exact .otherReturned
  | otherBroke => exact .otherBroke
  | otherContinued => exact .otherContinued
  | otherRaised hb => exact .otherRaised hb

/-! ## programs -/

/-- soundness for linked programs: what the site of a translated function (or a primitive site)
raises is in the computed summary -/
theorem link_sound {W : World} (hT : ordered W.tree = true) {prim : Site → Cls → Prop} {base : Site → List Cls}
    (hp : ∀ k c, prim k c → c ∈ base k) : ∀ (P : Prog) (k : Site) (c : Cls), link W prim P k c → c ∈ summ W base P k
  | [], k, c, h => hp k c h
  | (f, body) :: rest, k, c, h => by
    simp only [link, summ] at h ⊢
    split
    · next hk =>
      simp only [hk, if_true] at h
      exact mem_raisedOf.mpr (runs_mem_outs hT (link_sound hT hp rest) h)
    · next hk =>
      simp only [hk, if_false] at h
      exact link_sound hT hp rest k c h

/-- exactness for linked programs -/
theorem link_exact {W : World} (hT : ordered W.tree = true) (base : Site → List Cls) :
    ∀ (P : Prog) (k : Site) (c : Cls), c ∈ summ W base P k → link W (lit base) P k c
  | [], k, c, h => h
  | (f, body) :: rest, k, c, h => by
    simp only [link, summ] at h ⊢
    split
    · next hk =>
      simp only [hk, if_true] at h
      exact (mem_outs_runs hT _ body none _ (mem_raisedOf.mp h)).mono (link_exact hT base rest)
    · next hk =>
      simp only [hk, if_false] at h
      exact link_exact hT base rest k c h

theorem summTable_eq (W : World) (base : Site → List Cls) :
    ∀ (P : Prog) (k : Site), lookupT (summTable W base P) base k = summ W base P k
  | [], k => by simp [summTable, lookupT, summ]
  | (f, body) :: rest, k => by
    have ih : lookupT (summTable W base rest) base = summ W base rest := by
      funext k'
      exact summTable_eq W base rest k'
    simp only [summTable, lookupT, summ, List.lookup_cons]
    by_cases hk : k = f
    · subst hk
      simp only [beq_self_eq_true, if_true]
      rw [ih]
    · have hb : (k == f) = false := by simp [hk]
      simp only [hb, hk, if_false]
      exact summTable_eq W base rest k

/-- the site of a translated function raises what an execution of its body raises -/
theorem link_at {W : World} (prim : Site → Cls → Prop) {f : Site} {body : Stmt} {rest : Prog} :
    ∀ (P : Prog), progFrom f P = (f, body) :: rest → ∀ c,
      (link W prim P f c ↔ Runs W (link W prim rest) none body (.raised c))
  | [], h, _ => by simp [progFrom] at h
  | (g, b) :: P, h, c => by
    simp only [progFrom] at h
    by_cases hg : g = f
    · subst hg
      simp only [if_true] at h
      cases h
      simp [link]
    · simp only [hg, if_false] at h
      have hne : ¬ f = g := fun e => hg e.symm
      simp only [link, hne, if_false]
      exact link_at prim P h c

theorem respects_expand {W : World} (hT : ordered W.tree = true) {prim : Site → Cls → Prop}
    {abs : Site → List Cls} (h : Respects W prim abs) : ∀ k c, prim k c → c ∈ expandAll W.tree (abs k) :=
  fun k c hk => (mem_expandAll hT c _).mpr (h k c hk)

/-- the most permissive oracle of a table respects the table -/
theorem lit_respects {W : World} (hT : ordered W.tree = true) (abs : Site → List Cls) :
    Respects W (lit (fun k => expandAll W.tree (abs k))) abs :=
  fun _ c hk => (mem_expandAll hT c _).mp hk

/-- "Only `allowed` (and subclasses) leave function `f`": for every behaviour of the primitive call
sites within the assumption table `tbl`, an exception that leaves an execution of `f` (callees that
are translated functions are executed, not assumed) is below one of the classes `allowed`. -/
def EscapesOnly (W : World) (tbl : List (Site × List Cls)) (P : Prog) (f : Site) (allowed : List Cls) : Prop :=
  ∀ prim : Site → Cls → Prop, Respects W prim (lookupAbs W tbl) →
    ∀ c, link W prim P f c → ∃ A, A ∈ allowed ∧ Below W.tree c A

/-- "Class `c` can leave `f`": there is an execution, with all primitive sites within the table,
in which `f` raises `c`. -/
def CanEscape (W : World) (tbl : List (Site × List Cls)) (P : Prog) (f : Site) (c : Cls) : Prop :=
  ∃ prim : Site → Cls → Prop, Respects W prim (lookupAbs W tbl) ∧ link W prim P f c

theorem escapesOnly_of_check {W : World} (hT : ordered W.tree = true) {tbl : List (Site × List Cls)} {P : Prog}
    {f : Site} {allowed : List Cls} (h : escapesWithin W tbl P f allowed = true) :
    EscapesOnly W tbl P f allowed := by
  intro prim hp c hl
  have hm := link_sound hT (respects_expand hT hp) P f c hl
  simp only [escapesWithin, List.all_eq_true] at h
  exact (any_sub_iff hT c allowed).mp (h c hm)

theorem canEscape_of_check {W : World} (hT : ordered W.tree = true) {tbl : List (Site × List Cls)} {P : Prog}
    {f : Site} {c : Cls} (h : canEscape W tbl P f c = true) : CanEscape W tbl P f c := by
  simp only [canEscape, List.contains_eq_mem, decide_eq_true_eq] at h
  exact ⟨_, lit_respects hT _, link_exact hT _ P f c h⟩

theorem escapesOnly_of_checkOnly {W : World} (hT : ordered W.tree = true) {tbl : List (Site × List Cls)} {P : Prog}
    {specs : List (Site × List Cls)} (h : checkOnly W tbl P specs = true) {f : Site} {allowed : List Cls}
    (hm : (f, allowed) ∈ specs) : EscapesOnly W tbl P f allowed := by
  apply escapesOnly_of_check hT
  simp only [checkOnly, List.all_eq_true] at h
  have := h _ hm
  simp only [summTable_eq] at this
  simpa only [escapesWithin, List.all_eq_true] using this

theorem canEscape_of_checkCan {W : World} (hT : ordered W.tree = true) {tbl : List (Site × List Cls)} {P : Prog}
    {specs : List (Site × Cls)} (h : checkCan W tbl P specs = true) {f : Site} {c : Cls}
    (hm : (f, c) ∈ specs) : CanEscape W tbl P f c := by
  apply canEscape_of_check hT
  simp only [checkCan, List.all_eq_true] at h
  have := h _ hm
  simp only [summTable_eq] at this
  simpa only [canEscape] using this

/-- a class that can escape contradicts a claim that only other classes do -/
theorem not_escapesOnly_of_canEscape {W : World} {tbl : List (Site × List Cls)} {P : Prog} {f : Site} {c : Cls}
    {allowed : List Cls} (hc : CanEscape W tbl P f c) (hn : ¬ ∃ A, A ∈ allowed ∧ Below W.tree c A) :
    ¬ EscapesOnly W tbl P f allowed := by
  intro h
  obtain ⟨prim, hp, hl⟩ := hc
  exact hn (h prim hp c hl)

/-- "No class of `banned` (nor a subclass) leaves function `f`": for every behaviour of the primitive call sites
within the assumption table, an exception that leaves an execution of `f` is not below any class of `banned`. -/
def NeverEscapes (W : World) (tbl : List (Site × List Cls)) (P : Prog) (f : Site) (banned : List Cls) : Prop :=
  ∀ prim : Site → Cls → Prop, Respects W prim (lookupAbs W tbl) →
    ∀ c, link W prim P f c → ¬ ∃ A, A ∈ banned ∧ Below W.tree c A

theorem neverEscapes_of_checkNever {W : World} (hT : ordered W.tree = true) {tbl : List (Site × List Cls)} {P : Prog}
    {specs : List (Site × List Cls)} (h : checkNever W tbl P specs = true) {f : Site} {banned : List Cls}
    (hm : (f, banned) ∈ specs) : NeverEscapes W tbl P f banned := by
  intro prim hp c hl hex
  have hmem := link_sound hT (respects_expand hT hp) P f c hl
  simp only [checkNever, List.all_eq_true] at h
  have := h _ hm
  simp only [summTable_eq] at this
  have hc := this c hmem
  have hany := (any_sub_iff hT c banned).mpr hex
  simp [hany] at hc

/-- a class that can escape contradicts a claim that it never does -/
theorem not_neverEscapes_of_canEscape {W : World} {tbl : List (Site × List Cls)} {P : Prog} {f : Site} {c : Cls}
    {banned : List Cls} (hc : CanEscape W tbl P f c) (hb : c ∈ banned) : ¬ NeverEscapes W tbl P f banned := by
  intro h
  obtain ⟨prim, hp, hl⟩ := hc
  exact h prim hp c hl ⟨c, hb, Below.refl c⟩

/-- the combined check is the conjunction of the three checks -/
theorem checkAll_split {W : World} {tbl : List (Site × List Cls)} {P : Prog} {only never : List (Site × List Cls)}
    {can : List (Site × Cls)} (h : checkAll W tbl P only never can = true) :
    checkOnly W tbl P only = true ∧ checkNever W tbl P never = true ∧ checkCan W tbl P can = true := by
  simp only [checkAll, Bool.and_eq_true] at h
  exact ⟨h.1.1, h.1.2, h.2⟩

/-- a check of two lists at once is the conjunction of the two checks -/
theorem checkOnly_append {W : World} {tbl : List (Site × List Cls)} {P : Prog} {a b : List (Site × List Cls)} :
    checkOnly W tbl P (a ++ b) = true ↔ checkOnly W tbl P a = true ∧ checkOnly W tbl P b = true := by
  simp only [checkOnly, List.all_append, Bool.and_eq_true]
theorem checkNever_append {W : World} {tbl : List (Site × List Cls)} {P : Prog} {a b : List (Site × List Cls)} :
    checkNever W tbl P (a ++ b) = true ↔ checkNever W tbl P a = true ∧ checkNever W tbl P b = true := by
  simp only [checkNever, List.all_append, Bool.and_eq_true]
theorem checkCan_append {W : World} {tbl : List (Site × List Cls)} {P : Prog} {a b : List (Site × Cls)} :
    checkCan W tbl P (a ++ b) = true ↔ checkCan W tbl P a = true ∧ checkCan W tbl P b = true := by
  simp only [checkCan, List.all_append, Bool.and_eq_true]

end NfcVerif.ExcFlow
