import NfcVerif.Py
/-!
# Prelude targeted by `harness/translate_fn.py` (files `Gen/Fn*.lean`)

Python values of the translated subset and their Lean carrier:

* `int`   -> `Int` (unbounded, like Python)
* `bool`  -> `Bool`; conditions are `Prop`s built from `=`, `<`, `∧`, `∨`, `¬`
* `bytes`/`bytearray` -> `Bytes` (`List Nat`, every element an octet - hypothesis `IsBytes` of the
  bridge theorems); an element read from a byte string is cast to `Int`
* `str`   -> `String` (literals and `==` only)
* tuple   -> product, `slice(a, b)` -> `(a, b) : Int × Int`
* `set` of int -> `List Int` without duplicates (membership is what matters)
* `T | None` -> `Option T`

Everything that can raise returns `Py α` (`Except Exc α`, `Py.lean`); the constructor of `Exc` is the
Python exception class.  No Mathlib; nothing here is proved, only defined (lemmas about these
definitions are in `Lemmas/FnBridgeBase.lean`).
-/
namespace NfcVerif.PyFn

/-- what the translator emits for a function it refuses; no bridge theorem type-checks against it -/
structure Unsupported where
  mk :: (reason : String)

/-! ## integers -/

/-- `m & ~n` on naturals -/
def ldiff (m n : Nat) : Nat := Nat.bitwise (fun a b => a && !b) m n

/-- Python `a & b` (two's complement with infinite sign extension) -/
def band : Int → Int → Int
  | .ofNat m, .ofNat n => .ofNat (m &&& n)
  | .ofNat m, .negSucc n => .ofNat (ldiff m n)
  | .negSucc m, .ofNat n => .ofNat (ldiff n m)
  | .negSucc m, .negSucc n => .negSucc (m ||| n)

/-- Python `a | b` -/
def bor : Int → Int → Int
  | .ofNat m, .ofNat n => .ofNat (m ||| n)
  | .ofNat m, .negSucc n => .negSucc (ldiff n m)
  | .negSucc m, .ofNat n => .negSucc (ldiff m n)
  | .negSucc m, .negSucc n => .negSucc (m &&& n)

/-- Python `a ^ b` -/
def bxor : Int → Int → Int
  | .ofNat m, .ofNat n => .ofNat (m ^^^ n)
  | .ofNat m, .negSucc n => .negSucc (m ^^^ n)
  | .negSucc m, .ofNat n => .negSucc (m ^^^ n)
  | .negSucc m, .negSucc n => .ofNat (m ^^^ n)

/-- Python `~a` = `-a - 1` -/
def bnot (a : Int) : Int := -a - 1

/-- Python `a >> n` for `n >= 0` (arithmetic shift = floor division by `2^n`) -/
def shr (a n : Int) : Int := a >>> n.toNat

/-- Python `a << n` for `n >= 0` -/
def shl (a n : Int) : Int := a * 2 ^ n.toNat

/-- `a >> n` when the sign of `n` is not known statically: `ValueError: negative shift count` -/
def shrP (a n : Int) : Py Int := if n < 0 then .error .value else .ok (shr a n)
def shlP (a n : Int) : Py Int := if n < 0 then .error .value else .ok (shl a n)

/-- Python `a ** n` for `n >= 0` -/
def pow (a n : Int) : Int := a ^ n.toNat

/-- Python `a // b` (floor) and `a % b` (sign of the divisor); `ZeroDivisionError` for `b = 0`.
For a positive literal divisor the translator writes Lean's `a / c`, `a % c` on `Int`
(Euclidean division, which is floor division for `c > 0`). -/
def floordivP (a b : Int) : Py Int := if b = 0 then .error .zeroDiv else .ok (Int.fdiv a b)
def modP (a b : Int) : Py Int := if b = 0 then .error .zeroDiv else .ok (Int.fmod a b)

/-- `range(a, b)` -/
def range (a b : Int) : List Int := (List.range (b - a).toNat).map (fun (i : Nat) => a + (i : Int))

/-- `min(a, b)`, `max(a, b)` on ints -/
def imin (a b : Int) : Int := if b < a then b else a
def imax (a b : Int) : Int := if b > a then b else a

/-! ## byte strings -/

/-- `len(x)` -/
def len {α} (l : List α) : Int := (l.length : Int)

/-- the elements of a byte string as Python ints (`for x in data`, `list(data)`) -/
def ints (l : Bytes) : List Int := l.map (fun (b : Nat) => (b : Int))

/-- `l.remove(x)`: the first occurrence is removed, `ValueError` when there is none -/
def removeFirst {α} [BEq α] (l : List α) (x : α) : Py (List α) :=
  if l.contains x then .ok (l.erase x) else .error .value

/-- `d.popleft()` as a statement (`IndexError` on an empty deque); the value is dropped -/
def popLeft {α} (l : List α) : Py (List α) :=
  match l with
  | [] => .error .index
  | _ :: t => .ok t

/-- `s.startswith(t)` / `s.endswith(t)` on `str` -/
def strStartsWith (s t : String) : Bool := t.toList.isPrefixOf s.toList
def strEndsWith (s t : String) : Bool := t.toList.isSuffixOf s.toList

/-- `data[i]` on a byte string -/
def getB (l : Bytes) (i : Int) : Py Int :=
  match idx l i with
  | .ok b => .ok (b : Int)
  | .error e => .error e

/-- `l[a:]` -/
def sliceFrom {α} (l : List α) (a : Int) : List α := l.drop (clampBound l.length a)

/-- `l[:b]` -/
def sliceTo {α} (l : List α) (b : Int) : List α := l.take (clampBound l.length b)

/-- `bytearray([..])` / `bytes([..])`: `ValueError` unless every element is in `range(256)` -/
def mkBytes : List Int → Py Bytes
  | [] => .ok []
  | x :: xs =>
    if x < 0 ∨ x > 255 then .error .value
    else match mkBytes xs with
      | .ok r => .ok (x.toNat :: r)
      | .error e => .error e

/-- `bytearray(n)` / `bytes(n)` for an int `n`: zero filled, `ValueError` for negative `n` -/
def zeros (n : Int) : Py Bytes := if n < 0 then .error .value else .ok (List.replicate n.toNat 0)

/-- `x.pop(0)`: `IndexError` on an empty bytearray; result and the remaining bytearray -/
def pop0 : Bytes → Py (Int × Bytes)
  | [] => .error .index
  | b :: r => .ok ((b : Int), r)

/-- `x.pop()` -/
def popLast (l : Bytes) : Py (Int × Bytes) :=
  match l.getLast? with
  | none => .error .index
  | some b => .ok ((b : Int), l.dropLast)

/-- `x[i] = v` on a bytearray (`IndexError` / `ValueError`) -/
def setB (l : Bytes) (i v : Int) : Py Bytes :=
  let n : Int := l.length
  let j := if i < 0 then i + n else i
  if j < 0 ∨ j ≥ n then .error .index
  else if v < 0 ∨ v > 255 then .error .value
  else .ok (l.set j.toNat v.toNat)

/-- `del l[a:b]`: bounds clamped like a slice; nothing is removed when `a >= b` -/
def delSlice {α} (l : List α) (a b : Int) : List α :=
  let lo := clampBound l.length a
  let hi := clampBound l.length b
  l.take lo ++ l.drop (max lo hi)

/-- `l[a:b:-1]` (`none` = omitted bound): the elements with index in `(stop, start]`, last first -/
def sliceRev {α} (l : List α) (a b : Option Int) : List α :=
  let n : Int := l.length
  let start : Int := match a with
    | none => n - 1
    | some i => let j := if i < 0 then i + n else i; if j < 0 then -1 else if j ≥ n then n - 1 else j
  let stop : Int := match b with
    | none => -1
    | some i => let j := if i < 0 then i + n else i; if j < 0 then -1 else if j ≥ n then n - 1 else j
  ((l.take (start + 1).toNat).drop (stop + 1).toNat).reverse

/-- `l[a:b] = v` on a bytearray (the length may change) -/
def setSlice {α} (l : List α) (a b : Int) (v : List α) : List α :=
  let lo := clampBound l.length a
  let hi := clampBound l.length b
  l.take lo ++ v ++ l.drop (max lo hi)

/-- `range(a, b, s)`: `ValueError` for `s = 0` -/
def rangeStep (a b s : Int) : Py (List Int) :=
  if s = 0 then .error .value
  else if s > 0 then .ok ((List.range ((b - a + s - 1) / s).toNat).map (fun (i : Nat) => a + (i : Int) * s))
  else .ok ((List.range ((a - b - s - 1) / (-s)).toNat).map (fun (i : Nat) => a + (i : Int) * s))

/-- `l.index(x)` on a list: position of the first element equal to `x`, `ValueError` when absent -/
def indexOfG {α} [DecidableEq α] : List α → α → Py Int
  | [], _ => .error .value
  | a :: l, x => if a = x then .ok 0 else match indexOfG l x with
    | .ok i => .ok (i + 1)
    | .error e => .error e

/-- `l * n` (repetition) -/
def repeatL {α} (l : List α) (n : Int) : List α := (List.replicate n.toNat l).flatten

/-- `(a, b, ..).index(x)`: position of the first occurrence, `ValueError` when absent -/
def indexOf : List Int → Int → Py Int
  | [], _ => .error .value
  | a :: l, x => if a = x then .ok 0 else match indexOf l x with
    | .ok i => .ok (i + 1)
    | .error e => .error e

/-- `sum(l)` on ints -/
def sum (l : List Int) : Int := l.foldl (· + ·) 0

/-! ## struct -/

/-- field kinds of the supported `struct` formats: unsigned integers of 1/2/4 octets, big or
little endian (formats with more than one octet per field must name the byte order) -/
inductive Fmt
  | B | Hbe | Hle | Ibe | Ile
  deriving DecidableEq, Repr

def Fmt.size : Fmt → Nat
  | .B => 1 | .Hbe => 2 | .Hle => 2 | .Ibe => 4 | .Ile => 4

/-- little-endian octets of `n` -/
def toLE : Nat → Nat → Bytes
  | 0, _ => []
  | k+1, n => (n % 256) :: toLE k (n / 256)

/-- one packed field; `struct.error` when the value does not fit -/
def packField (f : Fmt) (v : Int) : Py Bytes :=
  if v < 0 ∨ v ≥ 256 ^ f.size then .error .struct
  else match f with
    | .B => .ok [v.toNat]
    | .Hbe => .ok (toBE 2 v.toNat)
    | .Ibe => .ok (toBE 4 v.toNat)
    | .Hle => .ok (toLE 2 v.toNat)
    | .Ile => .ok (toLE 4 v.toNat)

/-- `struct.pack(fmt, v1, .., vn)` for a format of integer fields -/
def pack : List Fmt → List Int → Py Bytes
  | [], [] => .ok []
  | f :: fs, v :: vs =>
    match packField f v with
    | .error e => .error e
    | .ok a => match pack fs vs with
      | .error e => .error e
      | .ok b => .ok (a ++ b)
  | _, _ => .error .struct

/-- guard of `struct.unpack_from(fmt, data, off)`: a negative offset counts from the end; `struct.error`
when the offset lies in front of the buffer or fewer than `size` octets follow it.  Returns the effective
(non-negative) offset. -/
def needFrom (d : Bytes) (off size : Int) : Py Int :=
  let o := if off < 0 then off + len d else off
  if size < 0 ∨ o < 0 ∨ len d - o < size then .error .struct else .ok o

/-- guard of `struct.unpack(fmt, data)`: exactly `size` octets -/
def needExact (d : Bytes) (size : Int) : Py Unit :=
  if size < 0 ∨ len d ≠ size then .error .struct else .ok ()

/-- unsigned big-endian field of `w` octets at `off` (after the guard) -/
def ube (d : Bytes) (off : Int) (w : Nat) : Int := (beNat ((d.drop off.toNat).take w) : Int)

/-- unsigned little-endian field -/
def ule (d : Bytes) (off : Int) (w : Nat) : Int := (beNat ((d.drop off.toNat).take w).reverse : Int)

/-- `%ds` field of `n` octets at `off` (after the guard) -/
def sub (d : Bytes) (off n : Int) : Bytes := (d.drop off.toNat).take n.toNat

/-- `<n>p` field (Pascal string) at `off`: the first octet is the length, clamped to `n - 1` -/
def pascal (d : Bytes) (off : Int) (n : Nat) : Bytes :=
  sub d (off + 1) (min (ube d off 1).toNat (n - 1) : Nat)

/-! ## sets of ints (duplicate-free lists) -/

/-- `s - t` -/
def setDiff (s t : List Int) : List Int := s.filter (fun x => !t.contains x)

/-- `s | t` -/
def setUnion (s t : List Int) : List Int := s ++ t.filter (fun x => !s.contains x)

/-- `try: return x  except <classes>: return v` -/
def catchRet {α} (catches : Exc → Bool) (v : α) (x : Py α) : Py α :=
  match x with
  | .error e => if catches e then .ok v else .error e
  | .ok a => .ok a

/-! ## loops -/

/-- `for x in xs: body` where the body can raise: the loop state is threaded left to right -/
def forM {α σ} : List α → σ → (σ → α → Py σ) → Py σ
  | [], s, _ => .ok s
  | x :: xs, s, f =>
    match f s x with
    | .error e => .error e
    | .ok s' => forM xs s' f

/-- `while cond: body` with an explicit bound on the number of iterations (`fuel`); running out of
fuel is reported as `Exc.outOfFuel`, which no Python run produces: the bridge theorems state how
much fuel suffices. -/
def whileM {σ} : Nat → σ → (σ → Py Bool) → (σ → Py σ) → Py σ
  | 0, _, _, _ => .error .outOfFuel
  | fuel+1, s, c, b =>
    match c s with
    | .error e => .error e
    | .ok false => .ok s
    | .ok true =>
      match b s with
      | .error e => .error e
      | .ok s' => whileM fuel s' c b

/-- outcome of one iteration of a `for`/`while` whose body contains `return`, `break` or `continue` -/
inductive Ctl (σ ρ : Type)
  | next (s : σ)      -- fell through / `continue`
  | brk (s : σ)       -- `break`
  | ret (r : ρ)       -- `return r`

/-- `for` with `break`/`continue`/`return` in the body: `.inl state` when the loop was left normally or
by `break`, `.inr r` when the body returned `r` -/
def forC {α σ ρ} : List α → σ → (σ → α → Py (Ctl σ ρ)) → Py (σ ⊕ ρ)
  | [], s, _ => .ok (.inl s)
  | x :: xs, s, f =>
    match f s x with
    | .error e => .error e
    | .ok (.next s') => forC xs s' f
    | .ok (.brk s') => .ok (.inl s')
    | .ok (.ret r) => .ok (.inr r)

/-- `while` with `break`/`continue`/`return` in the body -/
def whileC {σ ρ} : Nat → σ → (σ → Py Bool) → (σ → Py (Ctl σ ρ)) → Py (σ ⊕ ρ)
  | 0, _, _, _ => .error .outOfFuel
  | fuel+1, s, c, b =>
    match c s with
    | .error e => .error e
    | .ok false => .ok (.inl s)
    | .ok true =>
      match b s with
      | .error e => .error e
      | .ok (.next s') => whileC fuel s' c b
      | .ok (.brk s') => .ok (.inl s')
      | .ok (.ret r) => .ok (.inr r)

/-! ## dynamically typed values (only where the spec table says `any`) -/

inductive Val
  | int (i : Int)
  | bytes (b : Bytes)
  | bool (b : Bool)
  | none
  | tuple (l : List Val)
  deriving Repr, Inhabited

/-- an operand of int arithmetic whose static type is not known: `TypeError` unless int or bool -/
def asInt : Val → Py Int
  | .int i => .ok i
  | .bool b => .ok (if b then 1 else 0)
  | _ => .error .type_

end NfcVerif.PyFn
