#!/venv/bin/python
"""Which parts of /repo/src/nfc are tied to the Lean development by a translator that regenerates Lean from the
source on every run (T-ties), per file and per function -> docs/coverage.md.

  fn   : statement lines inside a function that lie in a slice translated by harness/translate_fn.py and proved equal
         to a model function for all inputs (Props/FnBridge*.lean)
  exc  : the function body is translated by harness/translate_exc.py (exception-flow language, Props/ExcFlow*.lean)
  lock : the method is translated by harness/translate_lock.py (lock discipline, Props/C15.lean)
  mon  : the method is translated by harness/translate_mon.py (monitor discipline), when present

Hand-written models tied by differential runs (D-ties) are listed per property in DESIGN.md 11.3; they are not
derivable from the source and therefore not counted here."""
import ast
import json
import os
import sys
import tempfile

V = os.path.dirname(os.path.dirname(os.path.abspath(__file__)))
sys.path.insert(0, os.path.join(V, "harness"))
REPO = os.environ.get("NFCPY_REPO", "/repo")
SRC = os.path.join(REPO, "src", "nfc")

import common  # noqa: E402
import translate_exc  # noqa: E402
import translate_fn  # noqa: E402
import translate_lock  # noqa: E402


def functions(path):
    """[(qualname, first line, last line, set of statement lines)]"""
    tree = ast.parse(open(path).read())
    out = []

    def walk(node, prefix):
        for ch in ast.iter_child_nodes(node):
            if isinstance(ch, (ast.FunctionDef, ast.AsyncFunctionDef)):
                q = prefix + ch.name
                lines = set()
                for st in ast.walk(ch):
                    if isinstance(st, ast.stmt) and st is not ch and not (
                            isinstance(st, ast.Expr) and isinstance(st.value, ast.Constant) and isinstance(st.value.value, str)):
                        lines.add(st.lineno)
                out.append((q, ch.lineno, ch.end_lineno, lines))
                walk(ch, q + ".")
            elif isinstance(ch, ast.ClassDef):
                walk(ch, prefix + ch.name + ".")
            else:
                walk(ch, prefix)
    walk(tree, "")
    return out


def main():
    rel = common.released()
    mods = common.fn_spec_modules()
    specs = [sp for m in mods for sp in m.SPECS]
    translate_fn.translate_all(REPO, specs)
    fn_lines = {}     # file -> set(lines)
    fn_by_file = {}
    for sp in specs:
        if sp.refused:
            continue
        a, b = sp.lines
        fn_lines.setdefault(sp.file, set()).update(range(a, b + 1))
        fn_by_file.setdefault(sp.file, []).append(sp)
    tr = translate_exc.Translator(REPO, None).run()
    exc_fns = {}
    for s in tr.specs:
        if s.get("_fn") is not None:
            f = s["module"].replace("nfc.", "", 1).replace(".", "/")
            for cand in (f + ".py", f + "/__init__.py"):
                if os.path.exists(os.path.join(SRC, cand)):
                    exc_fns.setdefault(cand, set()).add(s["_fn"].lineno)
    with tempfile.TemporaryDirectory() as d:
        defs, _, _, _ = translate_lock.emit(REPO, os.path.join(d, "x.lean"))
    lock_lines = {ln for _, _, ln, _ in defs}
    mon_fns = {}
    if rel.get("monitor"):
        import translate_mon
        _, progs, _, _ = translate_mon.emit_text(REPO)
        for _name, (prog, res) in progs.items():
            relp = os.path.relpath(prog.path, SRC)
            for key in res:                                  # (class, method) -> translated body
                fn = prog.methods.get(key)
                node = fn[0] if isinstance(fn, tuple) else fn
                ln = getattr(node, "lineno", None)
                if ln:
                    mon_fns.setdefault(relp, set()).add(ln)
    rows, tot = [], dict(fns=0, lines=0, fn=0, fnf=0, exc=0, lock=0, mon=0, anyt=0)
    per_fn = []
    for root, _, files in sorted(os.walk(SRC)):
        for f in sorted(files):
            if not f.endswith(".py"):
                continue
            path = os.path.join(root, f)
            relp = os.path.relpath(path, SRC)
            fs = functions(path)
            n_lines = sum(len(l) for _, _, _, l in fs)
            cov = fn_lines.get(relp, set())
            n_fn = sum(len(l & cov) for _, _, _, l in fs)
            n_fnf = sum(1 for _, _, _, l in fs if l & cov)
            n_exc = sum(1 for _, a, _, _ in fs if a in exc_fns.get(relp, ()))
            n_lock = sum(1 for _, a, _, _ in fs if relp == "clf/__init__.py" and a in lock_lines)
            n_mon = sum(1 for _, a, _, _ in fs if a in mon_fns.get(relp, ()))
            n_any = sum(1 for _, a, _, l in fs if (l & cov) or a in exc_fns.get(relp, ()) or
                        (relp == "clf/__init__.py" and a in lock_lines) or a in mon_fns.get(relp, ()))
            rows.append((relp, len(fs), n_lines, n_fnf, n_fn, n_exc, n_lock, n_mon, n_any))
            for k, v in zip(("fns", "lines", "fnf", "fn", "exc", "lock", "mon", "anyt"),
                            (len(fs), n_lines, n_fnf, n_fn, n_exc, n_lock, n_mon, n_any)):
                tot[k] += v
            for q, a, b, l in fs:
                tags = []
                if l & cov:
                    tags.append("fn %d/%d" % (len(l & cov), len(l)))
                if a in exc_fns.get(relp, ()):
                    tags.append("exc")
                if relp == "clf/__init__.py" and a in lock_lines:
                    tags.append("lock")
                if a in mon_fns.get(relp, ()):
                    tags.append("mon")
                per_fn.append((relp, q, a, b, ", ".join(tags)))
    L = ["# Source coverage of the translator ties (regenerated by `tools/coverage_map.py`)", "",
         "Counted over the statement lines of every function/method of `src/nfc` (doc strings excluded).",
         "`fn` = inside a slice regenerated by `translate_fn.py` and proved equal to a model function for all inputs;",
         "`exc` = body translated into the exception-flow language; `lock` = translated into the lock language (C15);",
         "`mon` = translated into the monitor-discipline language.  Hand-written models tied by differential runs are",
         "not counted here (see DESIGN.md 11.3).", "",
         "| file | functions | statement lines | functions with fn slices | fn lines | exc functions | lock | mon | functions under any T-tie |",
         "|---|---|---|---|---|---|---|---|---|"]
    for r in rows:
        L.append("| %s | %d | %d | %d | %d | %d | %d | %d | %d |" % r)
    L.append("| **total** | %d | %d | %d | %d (%.0f %%) | %d | %d | %d | %d (%.0f %%) |" % (
        tot["fns"], tot["lines"], tot["fnf"], tot["fn"], 100.0 * tot["fn"] / max(1, tot["lines"]), tot["exc"], tot["lock"],
        tot["mon"], tot["anyt"], 100.0 * tot["anyt"] / max(1, tot["fns"])))
    L += ["", "## Functions not under any translator tie", "",
          "(reached only through hand-written models + differential runs, or not modelled at all)", ""]
    cur = None
    for relp, q, a, b, tags in per_fn:
        if tags:
            continue
        if relp != cur:
            L.append("* `%s`: " % relp)
            cur = relp
        L[-1] += "`%s` (%d-%d) " % (q, a, b)
    L += ["", "## Functions under a translator tie", ""]
    cur = None
    for relp, q, a, b, tags in per_fn:
        if not tags:
            continue
        if relp != cur:
            L.append("* `%s`: " % relp)
            cur = relp
        L[-1] += "`%s` [%s] " % (q, tags)
    out = os.path.join(V, "docs", "coverage.md")
    open(out, "w").write("\n".join(L) + "\n")
    json.dump(tot, sys.stdout)
    print()


if __name__ == "__main__":
    main()
