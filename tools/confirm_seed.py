#!/venv/bin/python
"""Confirm a seeded breaking change in a scratch worktree and file it under /verif/seeded/<id>/.
usage: tools/confirm_seed.py <src_dir with patch.diff demo.py meta.json> <seed id e.g. C14-m1> <PID> [more PIDs]"""
import json, os, shutil, subprocess, sys, tempfile
src, sid, pids = sys.argv[1], sys.argv[2], sys.argv[3:]
V = os.environ.get("VERIF_RUN_DIR", "/verif")     # where the checks are run (a private copy avoids rewriting the shared Gen/)
DST = "/verif"
wt = tempfile.mkdtemp(prefix="cs-", dir="/tmp")
os.rmdir(wt)
def sh(cmd, **kw):
    return subprocess.run(cmd, shell=True, stdout=subprocess.PIPE, stderr=subprocess.STDOUT, text=True, **kw)
res = {}
try:
    r = sh("git -C /repo worktree add --detach %s HEAD" % wt); assert r.returncode == 0, r.stdout
    env = dict(os.environ, PYTHONPATH=wt + "/src")
    demo = os.path.join(src, "demo.py")
    # demos written by the seeding agents refer to their own worktree path: rewrite to ours
    text = open(demo).read()
    import re
    text2 = re.sub(r"/tmp/seed-[A-Za-z0-9_-]+?(?=/src|/tests|['\"/])", wt, text)
    ddir = os.path.join(wt, "_seed_demo"); os.makedirs(ddir, exist_ok=True)
    for extra in os.listdir(src):          # helper modules next to the demo (sim.py ...)
        if extra.endswith(".py") and extra != "demo.py":
            shutil.copy(os.path.join(src, extra), ddir)
    dpath = os.path.join(ddir, "demo.py"); open(dpath, "w").write(text2)
    r0 = subprocess.run(["/venv/bin/python", dpath], cwd=wt, env=env, stdout=subprocess.PIPE, stderr=subprocess.STDOUT, text=True, timeout=600)
    res["demo_clean_exit"] = r0.returncode
    r = sh("git -C %s apply %s" % (wt, os.path.join(src, "patch.diff")))
    if r.returncode != 0:   # the tree moved on since the change was written: try a 3-way merge
        r = sh("git -C %s apply -3 %s" % (wt, os.path.join(src, "patch.diff")))
        assert r.returncode == 0 and "conflict" not in r.stdout.lower(), "patch does not apply: " + r.stdout
        sh("git -C %s reset -q" % wt)
        res["ported_with_3way_merge"] = True
        open(os.path.join(src, "patch.diff"), "w").write(sh("git -C %s diff" % wt).stdout)
    r1 = subprocess.run(["/venv/bin/python", dpath], cwd=wt, env=env, stdout=subprocess.PIPE, stderr=subprocess.STDOUT, text=True, timeout=600)
    res["demo_mutated_exit"] = r1.returncode
    shutil.rmtree(ddir)
    b = sh("%s/tools/baseline.py %s" % (DST, wt)); res["baseline"] = b.stdout.strip().split("\n")[0]; res["baseline_ok"] = b.returncode == 0
    res["checks"] = {}
    for pid in pids:
        for tier in ("quick",):
            c = subprocess.run(["./check", pid, "--tier", tier], cwd=V, env=dict(os.environ, NFCPY_REPO=wt),
                               stdout=subprocess.PIPE, stderr=subprocess.STDOUT, text=True, timeout=3600)
            lines = [l for l in c.stdout.split("\n") if l.startswith("VIOLATION") or l.startswith("KNOWN")]
            res["checks"]["%s/%s" % (pid, tier)] = {"exit": c.returncode, "lines": lines[:3]}
finally:
    sh("git -C /repo worktree remove --force %s" % wt)
    # restore evidence written against the worktree
    for pid in pids:
        subprocess.run(["./check", pid], cwd=V, stdout=subprocess.DEVNULL, stderr=subprocess.DEVNULL)
ok = res.get("demo_clean_exit") == 0 and res.get("demo_mutated_exit", 0) != 0 and res.get("baseline_ok")
print(json.dumps(res, indent=1))
if ok:
    dst = os.path.join(DST, "seeded", sid); os.makedirs(dst, exist_ok=True)
    shutil.copy(os.path.join(src, "patch.diff"), dst)
    for extra in os.listdir(src):
        if extra.endswith(".py"):
            shutil.copy(os.path.join(src, extra), dst)
    meta = json.load(open(os.path.join(src, "meta.json")))
    meta["confirmed"] = res
    meta["what_i_ran"] = "tools/confirm_seed.py: demo on clean worktree (exit 0), demo with patch (exit != 0), tools/baseline.py on the patched worktree (all 2331 stable_pass tests pass), ./check <pid> with NFCPY_REPO=<patched worktree>"
    meta["caught_by"] = {k: (v["exit"] == 1) for k, v in res["checks"].items()}
    json.dump(meta, open(os.path.join(dst, "meta.json"), "w"), indent=1)
    print("KEPT", dst)
else:
    print("NOT KEPT")
