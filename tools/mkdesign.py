#!/usr/bin/env python3
"""Regenerate DESIGN.md section 11 (as built) from docs/asbuilt_preface.md, MANIFEST.json,
known_findings.json, evidence/*.json and seeded/*/meta.json."""
import json, glob, os, re
V = "/verif"
man = json.load(open(V + "/MANIFEST.json"))
kf = json.load(open(V + "/known_findings.json"))["findings"]
out = [open(V + "/docs/asbuilt_preface.md").read().rstrip(), ""]
out.append("### 11.3 Per property: what is proved, tied, assumed (from MANIFEST.json / evidence)\n")
for c in man["checks"]:
    pid = c["property_id"]
    ev = {}
    p = os.path.join(V, c["evidence_file"])
    if os.path.exists(p):
        ev = json.load(open(p))
    cov = ev.get("coverage", {})
    ths = [t["name"].split(".")[-1] for t in cov.get("theorems", [])]
    out.append("**%s** - %d obligations: %s" % (pid, len(ths), ", ".join("`%s`" % t for t in ths)))
    out.append("")
    out.append("* Claim: " + c["level_claimed"]["text"])
    out.append("* Assumed / trusted / partial: " + c["level_note"])
    ties = cov.get("correspondence", {})
    if ties:
        out.append("* Last quick/thorough run (%s tier): %s; %d cases, %d distinct non-trivial." % (
            ev.get("tier"), "; ".join("%s: %d cases, %d disagreements" % (k, v["cases"], v["disagreements"]) for k, v in ties.items()),
            cov.get("evaluations", 0), cov.get("distinct_nontrivial", 0)))
    out.append("")
if man.get("not_applicable"):
    out.append("Not claimed: " + "; ".join("%s (%s)" % (n["property_id"], n["reason"]) for n in man["not_applicable"]) + "\n")
out.append("### 11.4 Genuine defects found (known_findings.json)\n")
out.append("| Property | Status | Key | Commit | Witness |")
out.append("|---|---|---|---|---|")
for e in sorted(kf, key=lambda e: (e["property"], e["status"], e["key"])):
    out.append("| %s | %s | `%s` | %s | %s |" % (e["property"], e["status"], e["key"], e.get("commit", ""),
                                               e.get("witness", "").replace("|", "/").replace("\n", " ")[:260]))
out.append("")
out.append("### 11.5 Seeded breaking changes and which check catches them\n")
out.append("Each change was written by an independent session that saw only the property text and a scratch "
           "worktree, was confirmed by `tools/confirm_seed.py` (demo passes on the clean tree and fails with the "
           "change; all 2331 pinned tests still pass) and is kept under `seeded/<id>/`. `tools/reseed.py` re-runs the checks "
           "against all of them.\n")
out.append("| Seed | Property | What it changes / needs to manifest | Quick check result |")
out.append("|---|---|---|---|")
for d in sorted(glob.glob(V + "/seeded/*")):
    m = json.load(open(d + "/meta.json"))
    cb = m.get("caught_by", {})
    def fmt(k, v):
        if isinstance(v, dict):
            return "%s: %s" % (k.split("/")[0], "caught (%s)" % (v.get("violation") or "").split("replay=")[-1].replace("replays/", "").rsplit("_", 1)[0] if v.get("exit") == 1 else "MISSED")
        return "%s: %s" % (k.split("/")[0], "caught" if v else "MISSED")
    res = "; ".join(fmt(k, v) for k, v in cb.items())
    out.append("| %s | %s | %s | %s |" % (os.path.basename(d), m.get("property"), (m.get("summary", "")[:300] + " / needs: " + m.get("needs_to_manifest", "")[:200]).replace("|", "/").replace("\n", " "), res))
out.append("")
text = "\n".join(out)
d = open(V + "/DESIGN.md").read()
B, E = "<!-- ASBUILT:BEGIN -->", "<!-- ASBUILT:END -->"
if B in d:
    d = d[:d.index(B)] + B + "\n" + text + "\n" + E + d[d.index(E) + len(E):]
else:
    marker = "## Appendix A. Model skeletons"
    i = d.index(marker)
    d = d[:i] + B + "\n" + text + "\n" + E + "\n\n--------------------------------------------------------------------------\n\n" + d[i:]
open(V + "/DESIGN.md", "w").write(d)
print("DESIGN.md section 11 regenerated (%d lines)" % len(out))
