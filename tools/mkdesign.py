#!/usr/bin/env python3
"""Regenerate DESIGN.md section 11 (as built) from docs/asbuilt_preface.md, MANIFEST.json,
known_findings.json, evidence/*.json and seeded/*/meta.json."""
import json, glob, os, re
V = "/verif"
man = json.load(open(V + "/MANIFEST.json"))
kf = json.load(open(V + "/known_findings.json"))["findings"]
out = [open(V + "/docs/asbuilt_preface.md").read().rstrip(), ""]
out.append("### 11.3 Per property: what is proved, tied, assumed (from MANIFEST.json / evidence)\n")
for c in man["checks"]:
    pid = c["property_id"]
    ev = {}
    p = os.path.join(V, c["evidence_file"])
    if os.path.exists(p):
        ev = json.load(open(p))
    cov = ev.get("coverage", {})
    ths = [t["name"].split(".")[-1] for t in cov.get("theorems", [])]
    out.append("**%s** - %d obligations: %s" % (pid, len(ths), ", ".join("`%s`" % t for t in ths)))
    out.append("")
    out.append("* Claim: " + c["level_claimed"]["text"])
    out.append("* Assumed / trusted / partial: " + c["level_note"])
    ties = cov.get("correspondence", {})
    if ties:
        out.append("* Last quick/thorough run (%s tier): %s; %d cases, %d distinct non-trivial." % (
            ev.get("tier"), "; ".join("%s: %d cases, %d disagreements" % (k, v["cases"], v["disagreements"]) for k, v in ties.items()),
            cov.get("evaluations", 0), cov.get("distinct_nontrivial", 0)))
    out.append("")
if man.get("not_applicable"):
    out.append("Not claimed: " + "; ".join("%s (%s)" % (n["property_id"], n["reason"]) for n in man["not_applicable"]) + "\n")
out.append("### 11.4 Genuine defects found (known_findings.json)\n")
out.append("| Property | Status | Key | Commit | Witness |")
out.append("|---|---|---|---|---|")
for e in sorted(kf, key=lambda e: (e["property"], e["status"], e["key"])):
    out.append("| %s | %s | `%s` | %s | %s |" % (e["property"], e["status"], e["key"], e.get("commit", ""),
                                               e.get("witness", "").replace("|", "/").replace("\n", " ")[:260]))
out.append("")
out.append("### 11.5 Seeded breaking changes and which check catches them\n")
out.append("Each change was written by an independent session that saw only the property text and a scratch "
           "worktree, was confirmed by `tools/confirm_seed.py` (demo passes on the clean tree and fails with the "
           "change; all 2331 pinned tests still pass) and is kept under `seeded/<id>/`. `tools/reseed.py` re-runs the checks "
           "against all of them.\n")
out.append("| Seed | Property | What it changes / needs to manifest | Quick check result |")
out.append("|---|---|---|---|")
for d in sorted(glob.glob(V + "/seeded/*")):
    m = json.load(open(d + "/meta.json"))
    cb = m.get("caught_by", {})
    def fmt(k, v):
        if isinstance(v, dict):
            return "%s: %s" % (k.split("/")[0], "caught (%s)" % (v.get("violation") or "").split("replay=")[-1].replace("replays/", "").rsplit("_", 1)[0] if v.get("exit") == 1 else "MISSED")
        return "%s: %s" % (k.split("/")[0], "caught" if v else "MISSED")
    res = "; ".join(fmt(k, v) for k, v in cb.items())
    out.append("| %s | %s | %s | %s |" % (os.path.basename(d), m.get("property"), (m.get("summary", "")[:300] + " / needs: " + m.get("needs_to_manifest", "")[:200]).replace("|", "/").replace("\n", " "), res))
out.append("")
# ---------------------------------------------------------------- 11.6 translator ties
import subprocess, sys
sys.path.insert(0, V + "/harness")
import common
out.append("### 11.6 Translator ties: what is regenerated from the source on every run\n")
out.append("**Function translator** (`harness/translate_fn.py`, subset and meaning in `docs/fn_translator.md`; released groups from "
           "`harness/released.json`; full per-function table: `harness/translate_fn.py --table`):\n")
out.append("| Group | spec file | regenerated slices | bridge theorems | bridge module | properties |")
out.append("|---|---|---|---|---|---|")
nf = nt = 0
for m in common.fn_spec_modules():
    out.append("| %s | harness/fnspecs/%s.py | %d | %d | `%s` | %s |" % (
        m.GROUP, m.__name__.replace("fnspecs_", ""), len(m.SPECS), len(m.BRIDGE["theorems"]), m.BRIDGE["module"].replace("NfcVerif.", ""),
        ", ".join(m.BRIDGE["properties"])))
    nf += len(m.SPECS); nt += len(m.BRIDGE["theorems"])
out.append("| **total** | | %d | %d | | |" % (nf, nt))
out.append("")
import excflow
out.append("**Exception flow** (`harness/translate_exc.py`; language, semantics and the assumption table in `docs/exc_flow.md`):\n")
out.append("| Group | module | instance theorems | properties | what is stated |")
out.append("|---|---|---|---|---|")
for g, d_ in excflow.GROUPS.items():
    out.append("| %s | `%s` | %d | %s | %s |" % (g, d_["module"].replace("NfcVerif.", ""), len(d_["theorems"]), ", ".join(d_["properties"]),
                                              d_.get("what", "").replace("|", "/")[:400]))
out.append("")
if common.released().get("monitor"):
    import monitor
    out.append("**Monitor discipline** (`harness/translate_mon.py`, `docs/monitor.md`): %s.\n" % "; ".join(
        "%s: %d obligations" % (k, len(v)) for k, v in monitor.BY_PROPERTY.items()))
out.append("**Lock discipline** (`harness/translate_lock.py`, C15) and **constant tables** (`harness/translate_tables.py`) as in 11.1.\n")
try:
    tot = json.loads(subprocess.run([V + "/tools/coverage_map.py"], stdout=subprocess.PIPE, text=True, timeout=600).stdout.strip().split("\n")[-1])
    out.append("Source coverage of these ties (`tools/coverage_map.py` -> `docs/coverage.md`, counted over the statement lines of all %d "
               "functions of `src/nfc`, %d lines): %d functions have slices under the function translator (%d lines, %.0f %%), %d function "
               "bodies are in the exception-flow language, %d in the lock language, %d in the monitor language; %d functions (%.0f %%) are "
               "under at least one translator tie.  Everything else is reached only through the hand-written models and their "
               "differential ties (11.3) or is not modelled (`llcp/sec.py`, `__main__.py`, the device discovery of `clf/transport.py`).\n" % (
                   tot["fns"], tot["lines"], tot["fnf"], tot["fn"], 100.0 * tot["fn"] / max(1, tot["lines"]), tot["exc"], tot["lock"],
                   tot["mon"], tot["anyt"], 100.0 * tot["anyt"] / max(1, tot["fns"])))
except Exception as e:
    out.append("(coverage map not available: %r)\n" % e)
text = "\n".join(out)
d = open(V + "/DESIGN.md").read()
B, E = "<!-- ASBUILT:BEGIN -->", "<!-- ASBUILT:END -->"
if B in d:
    d = d[:d.index(B)] + B + "\n" + text + "\n" + E + d[d.index(E) + len(E):]
else:
    marker = "## Appendix A. Model skeletons"
    i = d.index(marker)
    d = d[:i] + B + "\n" + text + "\n" + E + "\n\n--------------------------------------------------------------------------\n\n" + d[i:]
open(V + "/DESIGN.md", "w").write(d)
print("DESIGN.md section 11 regenerated (%d lines)" % len(out))
