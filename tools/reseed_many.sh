#!/bin/bash
# Re-run the owning checks against kept seeds in parallel lanes, each lane in a private copy of the COMMITTED /verif
# (so /verif's Gen/ and evidence are not disturbed); the refreshed seeded/<id>/meta.json is copied back.
# usage: tools/reseed_many.sh <lanes> <seed-id-prefix>...
LANES=$1; shift
ids=()
for pre in "$@"; do for d in /verif/seeded/$pre*; do [ -d "$d" ] && ids+=("$(basename $d)"); done; done
declare -a Q
i=0
for s in "${ids[@]}"; do Q[$((i % LANES))]+=" $s"; i=$((i+1)); done
mkdir -p /tmp/vcopy-logs
for l in $(seq 0 $((LANES-1))); do
  [ -z "${Q[$l]}" ] && continue
  (
    C=/tmp/vreseed-$$-$l
    rm -rf $C; mkdir -p $C; git -C /verif archive HEAD | tar -x -C $C; cp -a /verif/lean/.lake $C/lean/.lake
    for s in ${Q[$l]}; do
      $C/tools/reseed.py --no-restore $s 2>&1 | tail -1
      cp $C/seeded/$s/meta.json /verif/seeded/$s/meta.json
    done
    rm -rf $C
  ) &
done
wait
