#!/venv/bin/python
"""Regenerate MANIFEST.json from harness/registry.json (kept by hand)."""
import json, os
V = os.path.dirname(os.path.dirname(os.path.abspath(__file__)))
reg = json.load(open(os.path.join(V, "harness", "registry.json")))
import glob
for f in glob.glob(os.path.join(V, "harness", "props", "c*.meta.json")):
    pid = os.path.basename(f)[:-10].upper()
    if pid in reg.get("registered", []):
        reg["checks"][pid] = json.load(open(f))
props = [json.loads(l) for l in open(os.path.join(V, "properties.jsonl"))]
checks, na = [], []
for p in props:
    pid = p["id"]
    r = reg["checks"].get(pid)
    if r is None:
        na.append({"property_id": pid, "reason": reg["not_applicable"].get(pid, "not yet covered by a model and theorem in this framework; no claim is made")})
        continue
    checks.append({
        "property_id": pid,
        "quick_cmd": "./check %s --tier quick" % pid,
        "thorough_cmd": "./check %s --tier thorough" % pid,
        "evidence_file": "evidence/%s.json" % pid,
        "replay_cmd_template": "./check %s --replay {path}" % pid,
        "engine": "lean4-model+correspondence",
        "level_claimed": {"category": "proof", "text": r["text"], "design_ref": r.get("design_ref", "DESIGN.md section 5, " + pid)},
        "level_note": r["note"],
        "technique": r["technique"],
    })
man = {
    "version": 1,
    "setup_cmd": "./check --setup",
    "hooks": {"guard": "NFCPY_VERIF", "enable": "no source hooks: the harness patches module globals from outside (env NFCPY_VERIF=1 is set by ./check but unused by nfcpy)",
              "baseline_off_cmd": "cd /repo && /venv/bin/python -m pytest -ra -q -p no:cacheprovider --timeout=900 --continue-on-collection-errors",
              "source_commits": [], "add_only": True},
    "engines": [{"name": "lean4-model+correspondence", "path": "check", "serves_properties": [c["property_id"] for c in checks],
                 "kind_free_text": "Lean 4 theorems about executable models (lean/NfcVerif), tied to /repo on every run by differential correspondence against the real Python code (harness/props) and by regenerated facts (lean/NfcVerif/Gen); plus a failing-input search on the real code"}],
    "checks": checks,
    "notes": reg.get("notes", ""),
    "not_applicable": na,
}
json.dump(man, open(os.path.join(V, "MANIFEST.json"), "w"), indent=1)
print("MANIFEST: %d checks, %d not claimed" % (len(checks), len(na)))
