#!/venv/bin/python
"""Regenerate MANIFEST.json from harness/registry.json (kept by hand)."""
import json, os
V = os.path.dirname(os.path.dirname(os.path.abspath(__file__)))
reg = json.load(open(os.path.join(V, "harness", "registry.json")))
import glob
for f in glob.glob(os.path.join(V, "harness", "props", "c*.meta.json")):
    pid = os.path.basename(f)[:-10].upper()
    if pid in reg.get("registered", []):
        reg["checks"][pid] = json.load(open(f))
props = [json.loads(l) for l in open(os.path.join(V, "properties.jsonl"))]
# T-ties regenerated from the source on every run (harness/released.json) that name the property
import sys
sys.path.insert(0, os.path.join(V, "harness"))
import common  # noqa: E402


def structural(pid):
    parts = []
    mods = [m for m in common.fn_spec_modules() if pid in m.BRIDGE["properties"]]
    if mods:
        parts.append("function-translator bridges (harness/translate_fn.py -> Gen/Fn*.lean; Props/FnBridge*.lean prove, for all inputs, "
                     "regenerated definition = model function) of the groups %s: %d regenerated source slices, %d bridge theorems"
                     % (", ".join(m.GROUP for m in mods), sum(len(m.SPECS) for m in mods), sum(len(m.BRIDGE["theorems"]) for m in mods)))
    rel = common.released()
    if rel.get("excflow"):
        import excflow
        g = excflow.BY_PROPERTY.get(pid, [])
        if g:
            parts.append("exception-flow instance theorems (harness/translate_exc.py -> Gen/ExcFlow.lean, Gen/ClassTree.lean; analysis proved "
                         "sound and exact in Lemmas/ExcFlow.lean) of the groups %s" % ", ".join(g))
    if rel.get("monitor"):
        import monitor
        if pid in monitor.BY_PROPERTY:
            parts.append("monitor-discipline instance theorems (harness/translate_mon.py -> Gen/Monitor.lean; `monitor_sound`: no lost wake-up "
                         "for every program that passes the syntactic check, under the hypothesis of one application thread per socket and direction)")
    if pid == "C15":
        parts.append("lock-discipline program of ContactlessFrontend (harness/translate_lock.py -> Gen/ClfLock.lean)")
    return parts
checks, na = [], []
for p in props:
    pid = p["id"]
    r = reg["checks"].get(pid)
    if r is None:
        na.append({"property_id": pid, "reason": reg["not_applicable"].get(pid, "not yet covered by a model and theorem in this framework; no claim is made")})
        continue
    checks.append({
        "property_id": pid,
        "quick_cmd": "./check %s --tier quick" % pid,
        "thorough_cmd": "./check %s --tier thorough" % pid,
        "evidence_file": "evidence/%s.json" % pid,
        "replay_cmd_template": "./check %s --replay {path}" % pid,
        "engine": "lean4-model+correspondence",
        "level_claimed": {"category": "proof", "text": r["text"] + (
            " Regenerated from /repo on every run and re-checked by the Lean kernel (a source change breaks the obligation): "
            + "; ".join(structural(pid)) + "." if structural(pid) else ""),
            "design_ref": r.get("design_ref", "DESIGN.md section 5, " + pid + "; section 11")},
        "level_note": r["note"] + (" Translator ties: the translators (ast-based, harness/translate_*.py, validated against CPython by "
                                   "their self-tests) and their assumption / exemption tables (docs/fn_translator.md, docs/exc_flow.md, "
                                   "docs/monitor.md) are trusted." if structural(pid) else ""),
        "technique": r["technique"] + (" + source-to-Lean translators with kernel-checked bridge / instance theorems" if structural(pid) and "translat" not in r["technique"] else ""),
    })
man = {
    "version": 1,
    "setup_cmd": "./check --setup",
    "hooks": {"guard": "NFCPY_VERIF", "enable": "no source hooks: the harness patches module globals from outside (env NFCPY_VERIF=1 is set by ./check but unused by nfcpy)",
              "baseline_off_cmd": "cd /repo && /venv/bin/python -m pytest -ra -q -p no:cacheprovider --timeout=900 --continue-on-collection-errors",
              "source_commits": [], "add_only": True},
    "engines": [{"name": "lean4-model+correspondence", "path": "check", "serves_properties": [c["property_id"] for c in checks],
                 "kind_free_text": "Lean 4 theorems about executable models (lean/NfcVerif), tied to /repo on every run by differential correspondence against the real Python code (harness/props) and by regenerated facts (lean/NfcVerif/Gen); plus a failing-input search on the real code"}],
    "checks": checks,
    "notes": reg.get("notes", ""),
    "not_applicable": na,
}
json.dump(man, open(os.path.join(V, "MANIFEST.json"), "w"), indent=1)
print("MANIFEST: %d checks, %d not claimed" % (len(checks), len(na)))
