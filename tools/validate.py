#!/usr/bin/env python3-vt
import json, sys, os, jsonschema
V="/verif"
man=json.load(open(V+'/MANIFEST.json'))
jsonschema.validate(man, json.load(open('/root/.vp/MANIFEST.schema.json')))
es=json.load(open('/root/.vp/EVIDENCE.schema.json'))
n=0
for c in man['checks']:
    f=os.path.join(V,c['evidence_file'])
    jsonschema.validate(json.load(open(f)), es); n+=1
print('manifest + %d evidence files valid' % n)
