#!/usr/bin/env python3-vt
import json, glob, sys, jsonschema
V="/verif"
jsonschema.validate(json.load(open(V+'/MANIFEST.json')), json.load(open('/root/.vp/MANIFEST.schema.json')))
es=json.load(open('/root/.vp/EVIDENCE.schema.json'))
for f in sorted(glob.glob(V+'/evidence/*.json')):
    jsonschema.validate(json.load(open(f)), es)
print('manifest + %d evidence files valid' % len(glob.glob(V+'/evidence/*.json')))
