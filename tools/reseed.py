#!/venv/bin/python
"""Re-run the registered checks against every kept seeded change (seeded/<id>/patch.diff) in a scratch
worktree and refresh seeded/<id>/meta.json["caught_by"]; prints a table.  usage: tools/reseed.py [id-prefix ...]"""
import json, os, subprocess, sys, tempfile, glob
V = os.path.dirname(os.path.dirname(os.path.abspath(__file__)))
sel = [a for a in sys.argv[1:] if not a.startswith("--")]
rows = []
touched = set()
for d in sorted(glob.glob(V + "/seeded/*")):
    sid = os.path.basename(d)
    if sel and not any(sid.startswith(s) for s in sel):
        continue
    meta = json.load(open(d + "/meta.json"))
    pids = meta.get("checks_to_run") or [meta["property"]]
    wt = tempfile.mkdtemp(prefix="rs-", dir="/tmp"); os.rmdir(wt)
    subprocess.run("git -C /repo worktree add --detach %s HEAD" % wt, shell=True, stdout=subprocess.DEVNULL, stderr=subprocess.DEVNULL)
    try:
        r = subprocess.run("git -C %s apply %s/patch.diff" % (wt, d), shell=True, stdout=subprocess.PIPE, stderr=subprocess.STDOUT, text=True)
        if r.returncode != 0:
            r = subprocess.run("git -C %s apply -3 %s/patch.diff" % (wt, d), shell=True, stdout=subprocess.PIPE, stderr=subprocess.STDOUT, text=True)
            if r.returncode != 0 or "conflict" in r.stdout.lower():
                rows.append((sid, "PATCH DOES NOT APPLY", "")); continue
            subprocess.run("git -C %s reset -q" % wt, shell=True)
            port = subprocess.run("git -C %s diff" % wt, shell=True, stdout=subprocess.PIPE, text=True).stdout
            open(d + "/patch.diff", "w").write(port)      # keep the change applicable to the current tree
            meta["ported_to_current_tree"] = True
        caught = {}
        for pid in pids:
            touched.add(pid)
            c = subprocess.run(["./check", pid], cwd=V, env=dict(os.environ, NFCPY_REPO=wt), stdout=subprocess.PIPE,
                               stderr=subprocess.STDOUT, text=True, timeout=3600)
            v = [l for l in c.stdout.split("\n") if l.startswith("VIOLATION")]
            caught[pid] = {"exit": c.returncode, "violation": v[0] if v else None}
        meta["caught_by"] = caught
        json.dump(meta, open(d + "/meta.json", "w"), indent=1)
        rows.append((sid, "; ".join("%s:%s" % (k, "CAUGHT" if x["exit"] == 1 else "missed(exit %d)" % x["exit"]) for k, x in caught.items()),
                     "; ".join((x["violation"] or "").replace("VIOLATION property=", "") for x in caught.values())))
    finally:
        subprocess.run("git -C /repo worktree remove --force %s" % wt, shell=True, stdout=subprocess.DEVNULL, stderr=subprocess.DEVNULL)
if "--no-restore" not in sys.argv:
    for pid in sorted(touched):
        subprocess.run(["./check", pid], cwd=V, stdout=subprocess.DEVNULL, stderr=subprocess.DEVNULL)   # restore evidence from /repo
for r in rows:
    print("%-10s %-28s %s" % r)
