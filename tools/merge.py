#!/usr/bin/env python3
"""fold findings/Cxx.json into known_findings.json (lead only)"""
import json, glob, os
V = "/verif"
k = json.load(open(V + "/known_findings.json"))
have = {(f["property"], f["key"]) for f in k["findings"]}
for f in sorted(glob.glob(V + "/findings/*.json")):
    for e in json.load(open(f)):
        if (e["property"], e["key"]) not in have:
            k["findings"].append(e); have.add((e["property"], e["key"]))
        else:
            for x in k["findings"]:
                if (x["property"], x["key"]) == (e["property"], e["key"]):
                    x.update(e)
    os.remove(f)
json.dump(k, open(V + "/known_findings.json", "w"), indent=1)
print(len(k["findings"]), "findings")
