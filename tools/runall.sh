#!/bin/sh
# run every registered check (quick or $1) and summarise
TIER=${1:-quick}
cd /verif
for c in $(python3 -c "import json;print(' '.join(c['property_id'] for c in json.load(open('MANIFEST.json'))['checks']))"); do
  s=$(date +%s); out=$(./check $c --tier $TIER 2>&1); rc=$?; e=$(date +%s)
  echo "$c rc=$rc $((e-s))s $(echo "$out" | grep -c '^KNOWN-FINDING') known $(echo "$out" | grep '^VIOLATION\|INFRASTRUCTURE' | head -2)"
done
