#!/bin/bash
# Confirm several seeded changes in parallel, each lane in a private copy of /verif (so that the regenerated
# Gen/ files and the evidence of /verif itself are not disturbed).
# usage: tools/confirm_many.sh <lanes> <srcdir>...      (srcdir = /tmp/seed-out/C03-r5m1 ...; id = basename)
LANES=$1; shift
mkdir -p /tmp/vcopy-logs
i=0
declare -a Q
for d in "$@"; do Q[$((i % LANES))]+=" $d"; i=$((i+1)); done
for l in $(seq 0 $((LANES-1))); do
  [ -z "${Q[$l]}" ] && continue
  (
    C=/tmp/vcopy-$$-$l
    rm -rf $C; mkdir -p $C; git -C /verif archive HEAD | tar -x -C $C; cp -a /verif/lean/.lake $C/lean/.lake   # committed state only (workers edit /verif live)
    for d in ${Q[$l]}; do
      sid=$(basename $d); pid=${sid%%-*}
      VERIF_RUN_DIR=$C /verif/tools/confirm_seed.py $d $sid $pid > /tmp/vcopy-logs/$sid.log 2>&1
      echo "$sid: $(grep -c KEPT /tmp/vcopy-logs/$sid.log) $(grep -h '"exit"\|NOT KEPT' /tmp/vcopy-logs/$sid.log | tr -d ' \n')"
    done
    rm -rf $C
  ) &
done
wait
