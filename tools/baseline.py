#!/venv/bin/python
"""Run the pinned nfcpy suite and compare with /root/.vp/BASELINE.json stable_pass.
usage: tools/baseline.py [repo_dir]   (exit 0 iff every stable_pass test passes)"""
import json, os, subprocess, sys, tempfile
import xml.etree.ElementTree as ET
repo = sys.argv[1] if len(sys.argv) > 1 else "/repo"
base = json.load(open("/root/.vp/BASELINE.json"))
want = set(base["stable_pass"])
with tempfile.TemporaryDirectory() as d:
    x = os.path.join(d, "j.xml")
    env = dict(os.environ); env.pop("NFCPY_VERIF", None)
    env["PYTHONPATH"] = os.path.join(repo, "src")   # the editable install points at /repo/src: test THIS tree
    subprocess.run(["/venv/bin/python", "-m", "pytest", "-q", "-p", "no:cacheprovider", "--timeout=900",
                    "--continue-on-collection-errors", "--junitxml=" + x], cwd=repo, env=env,
                   stdout=subprocess.DEVNULL, stderr=subprocess.DEVNULL)
    got = set()
    for tc in ET.parse(x).getroot().iter("testcase"):
        if not any(c.tag in ("failure", "error", "skipped") for c in tc):
            got.add(tc.get("classname") + "::" + tc.get("name"))
missing = sorted(want - got)
# timing dependent tests can fail on a loaded machine: re-run only those, up to 3 times
def nodeid(t):
    cls, name = t.split("::", 1)
    parts = cls.split(".")
    return "/".join(parts[:2]) + ".py::" + "::".join(parts[2:] + [name])
for attempt in range(3):
    if not missing or len(missing) > 40:
        break
    env = dict(os.environ); env.pop("NFCPY_VERIF", None)
    env["PYTHONPATH"] = os.path.join(repo, "src")
    still = []
    for t in missing:
        r = subprocess.run(["/venv/bin/python", "-m", "pytest", "-q", "-p", "no:cacheprovider", "--timeout=900", nodeid(t)],
                           cwd=repo, env=env, stdout=subprocess.PIPE, stderr=subprocess.STDOUT, text=True)
        if r.returncode != 0:
            still.append(t)
        else:
            print("  (passed on re-run: %s)" % t)
    missing = still
print("baseline: %d stable_pass, %d passed now, %d missing" % (len(want), len(got), len(missing)))
for m in missing[:40]:
    print("  MISSING", m)
sys.exit(1 if missing else 0)
