"""Driver-internal exception classes leave ContactlessFrontend.sense() / listen(): scripted chipset transports of
harness/sims/chip_transport.py, ONE fault: the chip answers a host command with its error frame (PN53x: the
'syntax error' frame 00 00 FF 01 FF 7F 81 00; RC-S380: a response with a non-zero status)."""
import logging, os, sys
sys.path.insert(0, os.path.join(os.path.dirname(os.path.dirname(os.path.dirname(os.path.abspath(__file__)))), "harness"))
import nfc.clf, nfc.clf.pn532, nfc.clf.pn533, nfc.clf.rcs956, nfc.clf.rcs380
from sims import chip_transport as T
log = logging.getLogger("repro")
ERRFRAME = bytes.fromhex("0000FF01FF7F8100")

def pn(family, ccls, dcls):
    tr = T.Pn53x(family)
    chip = object.__new__(ccls); chip.transport, chip.log = tr, log
    dev = object.__new__(dcls); dev.chipset, dev.log = chip, log
    clf = nfc.clf.ContactlessFrontend(); clf.device = dev
    return tr, clf

def rcs():
    tr = T.Rcs380()
    chip = object.__new__(nfc.clf.rcs380.Chipset); chip.transport, chip.log = tr, log
    dev = object.__new__(nfc.clf.rcs380.Device); dev.chipset, dev.log = chip, log
    clf = nfc.clf.ContactlessFrontend(); clf.device = dev
    return tr, clf

def run(name, tr, call, site, fault):
    tr.arm(site, fault)
    try:
        r = call()
        print("%-46s fault at %s: returned %r (fault reached: %s)" % (name, site, r, tr.hit))
    except BaseException as e:
        print("%-46s fault at %s: LEFT BY %s.%s: %s   [commands: %s]" % (
            name, site, type(e).__module__, type(e).__qualname__, e, " ".join("%02X" % c for c, _ in tr.log)))

ba = bytearray
for fam, mod in (("pn532", nfc.clf.pn532), ("pn533", nfc.clf.pn533), ("rcs956", nfc.clf.rcs956)):
    for step in (0, 1):
        tr, clf = pn(fam, mod.Chipset, mod.Device)
        run("%s sense(106A)" % fam, tr, lambda: clf.sense(nfc.clf.RemoteTarget("106A")), (step, "rsp"), ("frame", ERRFRAME))
    tr, clf = pn(fam, mod.Chipset, mod.Device)
    run("%s sense(106A, 212F) two targets" % fam, tr, lambda: clf.sense(nfc.clf.RemoteTarget("106A"), nfc.clf.RemoteTarget("212F")), (1, "rsp"), ("frame", ERRFRAME))
    tr, clf = pn(fam, mod.Chipset, mod.Device)
    t = nfc.clf.LocalTarget("106A", sens_res=ba(b"\x01\x01"), sdd_res=ba(b"\x08\x01\x02\x03"), sel_res=ba(b"\x00"))
    run("%s listen(106A tt2)" % fam, tr, lambda: clf.listen(t, 0.1), (1, "rsp"), ("frame", ERRFRAME))
for step in (0, 1, 2):
    tr, clf = rcs()
    run("rcs380 sense(106A)", tr, lambda: clf.sense(nfc.clf.RemoteTarget("106A")), (step, "rsp"), ("payload", b"\x01"))
tr, clf = rcs()
t = nfc.clf.LocalTarget("106A", sens_res=ba(b"\x01\x01"), sdd_res=ba(b"\x08\x01\x02\x03"), sel_res=ba(b"\x00"))
run("rcs380 listen(106A tt2)", tr, lambda: clf.listen(t, 0.1), (1, "rsp"), ("payload", b"\x01"))
