"""connect(llcp={'role': 'target'}) over the UDP driver must return when the initiator sends ATR_REQ and then falls
silent (or switches its field off).  Before the fix nfc.clf.TimeoutError / BrokenLinkError left connect().

    PYTHONPATH=<tree>/src /venv/bin/python 0005-repro.py        exit 0: connect() returned; exit 1: it raised
"""
import binascii
import socket
import sys
import threading
import time

import nfc
import nfc.clf

PORT = 54399
ATR_REQ = bytes.fromhex('D400' + '01FE0102030405060708' + '00000032' + '46666d010113')


def initiator(after_atr):
    time.sleep(0.3)
    s = socket.socket(socket.AF_INET, socket.SOCK_DGRAM)
    frame = bytes([len(ATR_REQ) + 1]) + ATR_REQ
    s.sendto(b"212F " + binascii.hexlify(frame), ('127.0.0.1', PORT))
    if after_atr:
        time.sleep(0.1)
        s.sendto(after_atr, ('127.0.0.1', PORT))      # b"RFOFF": the field goes off


rc = 0
for after_atr in (None, b"RFOFF"):
    clf = nfc.ContactlessFrontend('udp:localhost:%d' % PORT)
    threading.Thread(target=initiator, args=(after_atr,), daemon=True).start()
    t0 = time.time()
    try:
        r = clf.connect(llcp={'role': 'target', 'on-connect': lambda llc: False},
                        terminate=lambda: time.time() - t0 > 2.5)
        print("initiator %s after ATR_REQ: connect() returned %r" % ("silent" if not after_atr else "sends RFOFF", r))
    except BaseException as e:
        print("initiator %s after ATR_REQ: connect() LEFT BY %s.%s: %s" % (
            "silent" if not after_atr else "sends RFOFF", type(e).__module__, type(e).__name__, e))
        rc = 1
    finally:
        clf.close()
sys.exit(rc)
